(* piecePutMixed on a decomposed piece list: the shape of the result, and what
   it does to the views (free pieces, frontier pieces, live blocks). *)
Require Import ZArith List Bool Lia ZifyBool.
Import ListNotations.
Require Import AV.Gen.StoreParams AV.Store.Gc AV.Store.Model AV.Store.ListFacts
        AV.Store.PieceFacts AV.Store.IndexFacts.
Local Open Scope Z_scope.
Ltac Zify.zify_post_hook ::= Z.div_mod_to_equations.

(* ---- views of a piece list ------------------------------------------ *)

(* (size, offset) of the free pieces; offsets of the frontier pieces *)
Fixpoint fview (ps : list piece) (cur : Z) : list (Z * Z) :=
  match ps with
  | [] => []
  | p :: t => (if kfree p then [(psz p, cur)] else []) ++ fview t (cur + psz p)
  end.

Definition kfront (p : piece) : bool := match pkd p with KFront => true | _ => false end.

Fixpoint frview (ps : list piece) (cur : Z) : list Z :=
  match ps with
  | [] => []
  | p :: t => (if kfront p then [cur] else []) ++ frview t (cur + psz p)
  end.

Lemma fview_app : forall l1 l2 cur, fview (l1 ++ l2) cur = fview l1 cur ++ fview l2 (cur + psum l1).
Proof.
  induction l1 as [|p l1 IH]; intros l2 cur; cbn [app fview psum].
  - rewrite Z.add_0_r. reflexivity.
  - rewrite IH. rewrite <- app_assoc. do 3 f_equal. lia.
Qed.

Lemma frview_app : forall l1 l2 cur, frview (l1 ++ l2) cur = frview l1 cur ++ frview l2 (cur + psum l1).
Proof.
  induction l1 as [|p l1 IH]; intros l2 cur; cbn [app frview psum].
  - rewrite Z.add_0_r. reflexivity.
  - rewrite IH. rewrite <- app_assoc. do 3 f_equal. lia.
Qed.

Lemma fview_fix_pv : forall v l cur, fview (fix_pv v l) cur = fview l cur.
Proof. intros v [|n r] cur; reflexivity. Qed.

Lemma frview_fix_pv : forall v l cur, frview (fix_pv v l) cur = frview l cur.
Proof. intros v [|n r] cur; reflexivity. Qed.

Lemma fview_bounds : forall l cur k o, pos_sizes l -> In (k, o) (fview l cur) -> cur <= o < cur + psum l.
Proof.
  induction l as [|p l IH]; intros cur k o Hpos Hin; cbn [fview psum] in *; [destruct Hin|].
  inversion Hpos as [|? ? Hp Hl]; subst. pose proof (psum_nonneg l Hl).
  apply in_app_or in Hin. destruct Hin as [Hin|Hin].
  - destruct (kfree p); [|destruct Hin]. destruct Hin as [Heq|[]]. inversion Heq; subst. lia.
  - specialize (IH _ _ _ Hl Hin). lia.
Qed.

Lemma frview_bounds : forall l cur o, pos_sizes l -> In o (frview l cur) -> cur <= o < cur + psum l.
Proof.
  induction l as [|p l IH]; intros cur o Hpos Hin; cbn [frview psum] in *; [destruct Hin|].
  inversion Hpos as [|? ? Hp Hl]; subst. pose proof (psum_nonneg l Hl).
  apply in_app_or in Hin. destruct Hin as [Hin|Hin].
  - destruct (kfront p); [|destruct Hin]. destruct Hin as [Heq|[]]. subst. lia.
  - specialize (IH _ _ Hl Hin). lia.
Qed.

Lemma fview_size_pos : forall l cur k o, pos_sizes l -> In (k, o) (fview l cur) -> 0 < k.
Proof.
  induction l as [|p l IH]; intros cur k o Hpos Hin; cbn [fview] in *; [destruct Hin|].
  inversion Hpos as [|? ? Hp Hl]; subst.
  apply in_app_or in Hin. destruct Hin as [Hin|Hin].
  - destruct (kfree p); [|destruct Hin]. destruct Hin as [Heq|[]]. inversion Heq; subst. lia.
  - eapply IH; eassumption.
Qed.

(* a free piece found in the view corresponds to a decomposition *)
Lemma fview_decomp : forall l cur k o, In (k, o) (fview l cur) ->
  exists l1 p l2, l = l1 ++ p :: l2 /\ o = cur + psum l1 /\ psz p = k /\ kfree p = true.
Proof.
  induction l as [|p l IH]; intros cur k o Hin; cbn [fview] in *; [destruct Hin|].
  apply in_app_or in Hin. destruct Hin as [Hin|Hin].
  - destruct (kfree p) eqn:E; [|destruct Hin]. destruct Hin as [Heq|[]]. inversion Heq; subst.
    exists [], p, l. cbn. repeat split; auto; lia.
  - destruct (IH _ _ _ Hin) as (l1 & q & l2 & -> & -> & Hk & Hf).
    exists (p :: l1), q, l2. cbn. repeat split; auto; lia.
Qed.

Lemma fview_decomp_inv : forall l1 p l2 cur, kfree p = true ->
  In (psz p, cur + psum l1) (fview (l1 ++ p :: l2) cur).
Proof.
  intros. rewrite fview_app. apply in_or_app. right. cbn [fview]. rewrite H. left. reflexivity.
Qed.

Lemma frview_decomp : forall l cur o, In o (frview l cur) ->
  exists l1 p l2, l = l1 ++ p :: l2 /\ o = cur + psum l1 /\ kfront p = true.
Proof.
  induction l as [|p l IH]; intros cur o Hin; cbn [frview] in *; [destruct Hin|].
  apply in_app_or in Hin. destruct Hin as [Hin|Hin].
  - destruct (kfront p) eqn:E; [|destruct Hin]. destruct Hin as [Heq|[]]. subst.
    exists [], p, l. cbn. repeat split; auto; lia.
  - destruct (IH _ _ Hin) as (l1 & q & l2 & -> & -> & Hf).
    exists (p :: l1), q, l2. cbn. repeat split; auto; lia.
Qed.

(* ---- shape of the result of piecePutMixed --------------------------- *)

Definition last_free (l1 : list piece) : bool :=
  match rev l1 with pr :: _ => kfree pr | [] => false end.
Definition head_free (l2 : list piece) : bool :=
  match l2 with n :: _ => kfree n | [] => false end.

Definition put_l0 (l1 : list piece) : list piece := if last_free l1 then removelast l1 else l1.
Definition put_szp (l1 : list piece) : Z :=
  if last_free l1 then match rev l1 with pr :: _ => psz pr | [] => 0 end else 0.
Definition put_pvp (l1 : list piece) (mi : piece) : Z :=
  if last_free l1 then match rev l1 with pr :: _ => pv pr | [] => 0 end else pv mi.
Definition put_l3 (l2 : list piece) : list piece := if head_free l2 then tl l2 else l2.
Definition put_szn (l2 : list piece) : Z :=
  if head_free l2 then match l2 with n :: _ => psz n | [] => 0 end else 0.

Definition put_total (l1 : list piece) (mi : piece) (l2 : list piece) : Z :=
  put_szp l1 + psz mi + put_szn l2.

Definition put_ps (l1 : list piece) (mi : piece) (l2 : list piece) : list piece :=
  put_l0 l1 ++ mkP (put_pvp l1 mi) (put_total l1 mi l2) KFree
         :: fix_pv (put_total l1 mi l2) (put_l3 l2).

Definition put_ix (abs : loc -> Z) (s : nat) (l1 : list piece) (mi : piece) (l2 : list piece) (ix : idx) : idx :=
  let ix1 := if head_free l2 then idx_unlink (put_szn l2) (s, psum l1 + psz mi) ix else ix in
  let ix2 := if last_free l1 then idx_unlink (put_szp l1) (s, psum (put_l0 l1)) ix1 else ix1 in
  idx_link abs (put_total l1 mi l2) (s, psum (put_l0 l1)) ix2.

Lemma fix_pv_fix_pv : forall v w l, fix_pv v (fix_pv w l) = fix_pv v l.
Proof. intros v w [|n r]; reflexivity. Qed.

Lemma fix_pv_id : forall v l, links_ok v l -> fix_pv v l = l.
Proof. intros v [|[pv0 sz kd] r] H; cbn in *; [reflexivity|]. destruct H as [-> _]. reflexivity. Qed.

Lemma last_free_snoc : forall l0 pr, last_free (l0 ++ [pr]) = kfree pr.
Proof. intros. unfold last_free. rewrite rev_app_distr. reflexivity. Qed.

Lemma rev_snoc : forall (A : Type) (l0 : list A) x, rev (l0 ++ [x]) = x :: rev l0.
Proof. intros. rewrite rev_app_distr. reflexivity. Qed.

Ltac feq := lazymatch goal with
  | |- @eq Z _ _ => lia
  | |- @eq nat _ _ => lia
  | |- ?a = ?a => reflexivity
  | |- _ => progress f_equal; feq
  end.

Ltac fin := rewrite <- ?app_assoc; cbn [app]; feq.

Theorem put_mixed_spec : forall t s l1 mi l2 ix,
  links_ok 0 (l1 ++ mi :: l2) -> pos_sizes l1 ->
  put_mixed t s (l1 ++ mi :: l2) ix (length l1) =
  (put_ps l1 mi l2, put_ix (loc_abs t) s l1 mi l2 ix, length (put_l0 l1)).
Proof.
  intros t s l1 mi l2 ix Hlinks Hpos.
  apply links_ok_app in Hlinks. destruct Hlinks as [Hl1 Hl2].
  cbn [links_ok] in Hl2. destruct Hl2 as [Hpvmi Hl2].
  unfold put_mixed. rewrite pget_app, poff_app, nth_error_app_S.
  (* the two neighbours *)
  destruct (list_last_cases _ l1) as [->|(l0 & pr & ->)].
  - (* mi is the first piece *)
    cbn [length app].
    unfold put_ps, put_ix, put_l0, put_l3, put_total, put_szp, put_szn, put_pvp, last_free, head_free.
    cbn [rev app length psum tl].
    destruct l2 as [|n l3].
    + cbn. fin.
    + cbn [nth_error]. fold (kfree n). destruct (kfree n) eqn:En.
      * rewrite (pmerge_app [] mi n l3 : pmerge (mi :: n :: l3) 0 = _). cbn. fin.
      * cbn [links_ok] in Hl2. destruct Hl2 as [Hn Hl3].
        rewrite (fix_pv_id (0 + psz mi + 0) (n :: l3)) by (cbn; split; [lia | assumption]).
        cbn. fin.
  - (* there is a previous piece pr *)
    rewrite last_size_app1 in Hpvmi.
    apply pos_sizes_app in Hpos. destruct Hpos as [Hpos0 _].
    rewrite app_length. cbn [length]. replace (length l0 + 1)%nat with (S (length l0)) by lia.
    rewrite <- app_assoc. cbn [app].
    replace (psum (l0 ++ [pr]) - pv mi) with (0 + psum l0)
      by (rewrite psum_app; cbn [psum]; lia).
    rewrite (pfind_app l0 pr (mi :: l2) 0 0 Hpos0). cbn [Nat.add].
    rewrite (pget_app l0 (mi :: l2) pr).
    unfold put_ps, put_ix, put_l0, put_l3, put_total, put_szp, put_szn, put_pvp.
    rewrite !last_free_snoc, !rev_snoc, removelast_last.
    fold (kfree pr).
    (* put the list in the form (l0 ++ [pr]) ++ mi :: l2 when working at position of mi *)
    assert (Hpos_mi : forall r, l0 ++ pr :: mi :: r = (l0 ++ [pr]) ++ mi :: r)
      by (intros; rewrite <- app_assoc; reflexivity).
    assert (Hlen_mi : S (length l0) = length (l0 ++ [pr])) by (rewrite app_length; cbn; lia).
    destruct l2 as [|n l3].
    + cbn [nth_error head_free tl]. destruct (kfree pr) eqn:Epr.
      * rewrite (pmerge_app l0 pr mi []). cbn [fix_pv].
        rewrite set_kind_app. cbn [pv psz].
        rewrite pget_app, poff_app. cbn [psz].
        rewrite (pget_app l0 [mi] pr). rewrite (poff_app l0 (pr :: [mi])).
        rewrite ?psum_app. cbn [psum].
        fin.
      * rewrite Hpos_mi, Hlen_mi. rewrite set_kind_app, pget_app, poff_app. cbn [psz fix_pv].
        rewrite ?psum_app. cbn [psum].
        rewrite <- app_assoc. cbn [app]. rewrite app_length. cbn [length].
        fin.
    + cbn [nth_error head_free tl]. fold (kfree n).
      destruct (kfree n) eqn:En.
      * (* merge with next *)
        rewrite (Hpos_mi (n :: l3)), Hlen_mi. rewrite pmerge_app.
        replace (pget ((l0 ++ [pr]) ++ mi :: n :: l3) (S (length (l0 ++ [pr])))) with n.
        2:{ unfold pget. replace ((l0 ++ [pr]) ++ mi :: n :: l3) with (((l0 ++ [pr]) ++ [mi]) ++ n :: l3)
              by (rewrite <- !app_assoc; reflexivity).
            replace (S (length (l0 ++ [pr]))) with (length ((l0 ++ [pr]) ++ [mi]))
              by (rewrite !app_length; cbn; lia).
            rewrite nth_app_len. reflexivity. }
        replace (poff ((l0 ++ [pr]) ++ mi :: n :: l3) (S (length (l0 ++ [pr])))) with (psum (l0 ++ [pr]) + psz mi).
        2:{ replace ((l0 ++ [pr]) ++ mi :: n :: l3) with (((l0 ++ [pr]) ++ [mi]) ++ n :: l3)
              by (rewrite <- !app_assoc; reflexivity).
            replace (S (length (l0 ++ [pr]))) with (length ((l0 ++ [pr]) ++ [mi]))
              by (rewrite !app_length; cbn; lia).
            rewrite poff_app. rewrite ?psum_app. cbn [psum]. lia. }
        rewrite <- app_assoc. cbn [app].
        destruct (kfree pr) eqn:Epr.
        -- rewrite pmerge_app. cbn [pv psz]. rewrite fix_pv_fix_pv.
           rewrite set_kind_app. cbn [pv psz].
           rewrite pget_app, poff_app. cbn [psz].
           rewrite (pget_app l0 _ pr). rewrite (poff_app l0 (pr :: _)).
           rewrite ?psum_app. cbn [psum].
           fin.
        -- replace (l0 ++ pr :: mkP (pv mi) (psz mi + psz n) (pkd mi) :: fix_pv (psz mi + psz n) l3)
             with ((l0 ++ [pr]) ++ mkP (pv mi) (psz mi + psz n) (pkd mi) :: fix_pv (psz mi + psz n) l3)
             by (rewrite <- app_assoc; reflexivity).
           rewrite set_kind_app, pget_app, poff_app. cbn [pv psz].
           rewrite ?psum_app. cbn [psum].
           rewrite <- app_assoc. cbn [app]. rewrite app_length. cbn [length].
           fin.
      * (* next not free *)
        cbn [links_ok] in Hl2. destruct Hl2 as [Hn Hl3].
        destruct (kfree pr) eqn:Epr.
        -- rewrite (pmerge_app l0 pr mi (n :: l3)).
           rewrite set_kind_app. cbn [pv psz].
           rewrite pget_app, poff_app. cbn [psz].
           rewrite (pget_app l0 _ pr). rewrite (poff_app l0 (pr :: _)).
           rewrite ?psum_app. cbn [psum].
           fin.
        -- rewrite (Hpos_mi (n :: l3)), Hlen_mi. rewrite set_kind_app, pget_app, poff_app. cbn [psz].
           rewrite ?psum_app. cbn [psum].
           rewrite (fix_pv_id (0 + psz mi + 0) (n :: l3)) by (cbn; split; [lia | assumption]).
           rewrite <- app_assoc. cbn [app]. rewrite app_length. cbn [length].
           fin.
Qed.

(* ---- what piecePutMixed does to the views ---------------------------- *)

Definition put_pl (l1 : list piece) : list piece :=
  if last_free l1 then match rev l1 with pr :: _ => [pr] | [] => [] end else [].
Definition put_nl (l2 : list piece) : list piece :=
  if head_free l2 then match l2 with n :: _ => [n] | [] => [] end else [].

Lemma l1_decomp : forall l1, l1 = put_l0 l1 ++ put_pl l1.
Proof.
  intros l1. unfold put_l0, put_pl.
  destruct (list_last_cases _ l1) as [->|(l0 & pr & ->)]; [reflexivity|].
  rewrite last_free_snoc, rev_snoc, removelast_last.
  destruct (kfree pr); [reflexivity | rewrite app_nil_r; reflexivity].
Qed.

Lemma l2_decomp : forall l2, l2 = put_nl l2 ++ put_l3 l2.
Proof. intros [|n l3]; unfold put_nl, put_l3, head_free; [reflexivity|]. destruct (kfree n); reflexivity. Qed.

Lemma put_pl_psum : forall l1, psum (put_pl l1) = put_szp l1.
Proof.
  intros l1. unfold put_pl, put_szp. destruct (last_free l1); [|reflexivity].
  destruct (rev l1); cbn; lia.
Qed.

Lemma put_nl_psum : forall l2, psum (put_nl l2) = put_szn l2.
Proof.
  intros l2. unfold put_nl, put_szn. destruct (head_free l2); [|reflexivity].
  destruct l2; cbn; lia.
Qed.

Lemma put_pl_free : forall l1, Forall (fun p => kfree p = true) (put_pl l1).
Proof.
  intros l1. unfold put_pl, last_free. destruct (rev l1) as [|pr r]; [constructor|].
  destruct (kfree pr) eqn:E; constructor; [assumption | constructor].
Qed.

Lemma put_nl_free : forall l2, Forall (fun p => kfree p = true) (put_nl l2).
Proof.
  intros l2. unfold put_nl, head_free. destruct l2 as [|n r]; [constructor|].
  destruct (kfree n) eqn:E; constructor; [assumption | constructor].
Qed.

Lemma psum_l1 : forall l1, psum l1 = psum (put_l0 l1) + put_szp l1.
Proof. intros. rewrite (l1_decomp l1) at 1. rewrite psum_app, put_pl_psum. reflexivity. Qed.

Lemma psum_l2 : forall l2, psum l2 = put_szn l2 + psum (put_l3 l2).
Proof. intros. rewrite (l2_decomp l2) at 1. rewrite psum_app, put_nl_psum. reflexivity. Qed.

Lemma put_ps_psum : forall l1 mi l2, psum (put_ps l1 mi l2) = psum (l1 ++ mi :: l2).
Proof.
  intros. unfold put_ps. rewrite !psum_app. cbn [psum psz]. rewrite psum_fix_pv.
  rewrite (psum_l1 l1), (psum_l2 l2). unfold put_total. lia.
Qed.

(* views of a list of at most one free piece *)
Lemma fview_pl : forall l1 cur, fview (put_pl l1) cur =
  if last_free l1 then [(put_szp l1, cur)] else [].
Proof.
  intros l1 cur. unfold put_pl, put_szp, last_free. destruct (rev l1) as [|pr r]; [reflexivity|].
  destruct (kfree pr) eqn:E; [|reflexivity]. cbn. rewrite E. reflexivity.
Qed.

Lemma fview_nl : forall l2 cur, fview (put_nl l2) cur =
  if head_free l2 then [(put_szn l2, cur)] else [].
Proof.
  intros l2 cur. unfold put_nl, put_szn, head_free. destruct l2 as [|n r]; [reflexivity|].
  destruct (kfree n) eqn:E; [|reflexivity]. cbn. rewrite E. reflexivity.
Qed.

Lemma kfree_not_front : forall p, kfree p = true -> kfront p = false.
Proof. intros p. unfold kfree, kfront. destruct (pkd p); cbn; congruence. Qed.

Lemma kfree_not_busy : forall p, kfree p = true -> is_busy (pkd p) = false.
Proof. intros p. unfold kfree. destruct (pkd p); cbn; congruence. Qed.

Lemma frview_allfree : forall l cur, Forall (fun p => kfree p = true) l -> frview l cur = [].
Proof.
  induction l as [|p l IH]; intros cur H; [reflexivity|]. inversion H; subst.
  cbn [frview]. rewrite kfree_not_front by assumption. cbn. apply IH. assumption.
Qed.

Lemma mixed_live_allfree : forall s pg l cur, Forall (fun p => kfree p = true) l -> mixed_live s pg l cur = [].
Proof.
  induction l as [|p l IH]; intros cur H; [reflexivity|]. inversion H as [|? ? Hp Hl]; subst.
  cbn [mixed_live]. unfold kfree in Hp. destruct (pkd p); cbn in Hp; try discriminate.
  apply IH. assumption.
Qed.

(* the three views before ... *)
Lemma fview_before : forall l1 mi l2, kfree mi = false ->
  fview (l1 ++ mi :: l2) 0 =
  fview (put_l0 l1) 0
  ++ (if last_free l1 then [(put_szp l1, psum (put_l0 l1))] else [])
  ++ (if head_free l2 then [(put_szn l2, psum l1 + psz mi)] else [])
  ++ fview (put_l3 l2) (psum (put_l0 l1) + put_total l1 mi l2).
Proof.
  intros l1 mi l2 Hmi.
  rewrite (l1_decomp l1) at 1. rewrite (l2_decomp l2) at 1.
  rewrite <- app_assoc. rewrite fview_app. rewrite fview_app. cbn [fview]. rewrite Hmi. cbn [app].
  rewrite fview_app. rewrite fview_pl, fview_nl. rewrite !Z.add_0_l.
  rewrite put_pl_psum, put_nl_psum.
  replace (psum (put_l0 l1) + put_szp l1) with (psum l1) by (rewrite (psum_l1 l1); reflexivity).
  replace (psum (put_l0 l1) + put_total l1 mi l2) with (psum l1 + psz mi + put_szn l2)
    by (rewrite (psum_l1 l1); unfold put_total; lia).
  reflexivity.
Qed.

(* ... and after *)
Lemma fview_after : forall l1 mi l2,
  fview (put_ps l1 mi l2) 0 =
  fview (put_l0 l1) 0 ++ [(put_total l1 mi l2, psum (put_l0 l1))]
  ++ fview (put_l3 l2) (psum (put_l0 l1) + put_total l1 mi l2).
Proof.
  intros. unfold put_ps. rewrite fview_app. cbn [fview kfree pkd is_free psz app].
  rewrite fview_fix_pv. rewrite Z.add_0_l. reflexivity.
Qed.

Lemma frview_before : forall l1 mi l2,
  frview (l1 ++ mi :: l2) 0 =
  frview (put_l0 l1) 0 ++ (if kfront mi then [psum l1] else [])
  ++ frview (put_l3 l2) (psum (put_l0 l1) + put_total l1 mi l2).
Proof.
  intros l1 mi l2.
  rewrite (l1_decomp l1) at 1. rewrite (l2_decomp l2) at 1.
  rewrite <- app_assoc. rewrite frview_app. rewrite frview_app. cbn [frview].
  rewrite frview_app.
  rewrite (frview_allfree (put_pl l1)) by apply put_pl_free.
  rewrite (frview_allfree (put_nl l2)) by apply put_nl_free.
  cbn [app]. rewrite !Z.add_0_l. rewrite put_pl_psum, put_nl_psum.
  f_equal. f_equal.
  { rewrite (psum_l1 l1). reflexivity. }
  f_equal. unfold put_total. lia.
Qed.

Lemma frview_after : forall l1 mi l2,
  frview (put_ps l1 mi l2) 0 =
  frview (put_l0 l1) 0 ++ frview (put_l3 l2) (psum (put_l0 l1) + put_total l1 mi l2).
Proof.
  intros. unfold put_ps. rewrite frview_app. cbn [frview kfront pkd psz app].
  rewrite frview_fix_pv. rewrite Z.add_0_l. reflexivity.
Qed.

Lemma mixed_live_before : forall s pg l1 mi l2,
  mixed_live s pg (l1 ++ mi :: l2) 0 =
  mixed_live s pg (put_l0 l1) 0
  ++ (match pkd mi with
      | KBusy b => [((s, mdata_off pg + psum l1 + MxMemHeadSize), psz mi - MxMemHeadSize, b)]
      | _ => [] end)
  ++ mixed_live s pg (put_l3 l2) (psum (put_l0 l1) + put_total l1 mi l2).
Proof.
  intros s pg l1 mi l2.
  rewrite (l1_decomp l1) at 1. rewrite (l2_decomp l2) at 1.
  rewrite <- app_assoc. rewrite mixed_live_app. rewrite mixed_live_app.
  rewrite (mixed_live_allfree s pg (put_pl l1)) by apply put_pl_free.
  cbn [app]. rewrite !Z.add_0_l. rewrite put_pl_psum.
  f_equal.
  assert (Hx : psum (put_l0 l1) + put_szp l1 = psum l1) by (rewrite (psum_l1 l1); reflexivity).
  rewrite Hx.
  cbn [mixed_live]. destruct (pkd mi) as [| |b]; cbn [app].
  - rewrite mixed_live_app. rewrite (mixed_live_allfree s pg (put_nl l2)) by apply put_nl_free.
    cbn [app]. rewrite put_nl_psum. f_equal. unfold put_total. lia.
  - rewrite mixed_live_app. rewrite (mixed_live_allfree s pg (put_nl l2)) by apply put_nl_free.
    cbn [app]. rewrite put_nl_psum. f_equal. unfold put_total. lia.
  - f_equal.
    rewrite mixed_live_app. rewrite (mixed_live_allfree s pg (put_nl l2)) by apply put_nl_free.
    cbn [app]. rewrite put_nl_psum. f_equal. unfold put_total. lia.
Qed.

Lemma mixed_live_after : forall s pg l1 mi l2,
  mixed_live s pg (put_ps l1 mi l2) 0 =
  mixed_live s pg (put_l0 l1) 0
  ++ mixed_live s pg (put_l3 l2) (psum (put_l0 l1) + put_total l1 mi l2).
Proof.
  intros. unfold put_ps. rewrite mixed_live_app. cbn [mixed_live pkd psz].
  rewrite mixed_live_fix_pv. rewrite Z.add_0_l. reflexivity.
Qed.

(* ---- the piece-list invariant is kept --------------------------------- *)

Definition quant_sizes (ps : list piece) : Prop :=
  Forall (fun p => 0 < psz p /\ psz p mod MixedSizeQuantum = 0) ps.

Lemma quant_pos : forall ps, quant_sizes ps -> pos_sizes ps.
Proof. intros ps H. eapply Forall_impl; [|exact H]. cbn. tauto. Qed.

Lemma quant_sizes_app : forall l1 l2, quant_sizes (l1 ++ l2) <-> quant_sizes l1 /\ quant_sizes l2.
Proof. intros. unfold quant_sizes. apply Forall_app. Qed.

Lemma quant_fix_pv : forall v l, quant_sizes l -> quant_sizes (fix_pv v l).
Proof. intros v [|n r] H; [constructor|]. inversion H; subst. constructor; assumption. Qed.

Lemma quant_psum : forall l, quant_sizes l -> 0 <= psum l /\ psum l mod MixedSizeQuantum = 0.
Proof.
  induction 1 as [|p l [Hp Hm] Hl [IH1 IH2]]; cbn [psum].
  - split; [lia | reflexivity].
  - unfold MixedSizeQuantum in *. lia.
Qed.

Lemma put_parts_quant : forall l1 l2, quant_sizes l1 -> quant_sizes l2 ->
  quant_sizes (put_l0 l1) /\ quant_sizes (put_pl l1) /\ quant_sizes (put_nl l2) /\ quant_sizes (put_l3 l2).
Proof.
  intros l1 l2 H1 H2.
  rewrite (l1_decomp l1) in H1. rewrite (l2_decomp l2) in H2.
  apply quant_sizes_app in H1. apply quant_sizes_app in H2. tauto.
Qed.

Lemma put_ps_quant : forall l1 mi l2, quant_sizes (l1 ++ mi :: l2) -> quant_sizes (put_ps l1 mi l2).
Proof.
  intros l1 mi l2 H. apply quant_sizes_app in H. destruct H as [H1 H2].
  inversion H2 as [|? ? [Hmi1 Hmi2] H2']; subst.
  destruct (put_parts_quant l1 l2 H1 H2') as (Q0 & Qp & Qn & Q3).
  unfold put_ps. apply quant_sizes_app. split; [assumption|].
  constructor; [|apply quant_fix_pv; assumption].
  cbn [psz]. unfold put_total. rewrite <- put_pl_psum, <- put_nl_psum.
  pose proof (quant_psum _ Qp). pose proof (quant_psum _ Qn).
  unfold MixedSizeQuantum in *. lia.
Qed.

Lemma links_put_ps : forall l1 mi l2, links_ok 0 (l1 ++ mi :: l2) -> links_ok 0 (put_ps l1 mi l2).
Proof.
  intros l1 mi l2 H. apply links_ok_app in H. destruct H as [H1 H2].
  cbn [links_ok] in H2. destruct H2 as [Hmi H2].
  unfold put_ps. apply links_ok_app. split.
  - unfold put_l0. destruct (last_free l1) eqn:E; [|assumption].
    destruct (list_last_cases _ l1) as [->|(l0 & pr & ->)]; [assumption|].
    rewrite removelast_last. apply links_ok_app in H1. tauto.
  - cbn [links_ok pv psz]. split; [|eapply links_tail_fix with (w := match put_nl l2 with [] => psz mi | n :: _ => psz n end)].
    + unfold put_pvp, put_l0. destruct (last_free l1) eqn:E; [|assumption].
      destruct (list_last_cases _ l1) as [->|(l0 & pr & ->)]; [discriminate|].
      rewrite rev_snoc, removelast_last. apply links_ok_app in H1. destruct H1 as [_ H1].
      cbn in H1. tauto.
    + unfold put_nl, put_l3, head_free. destruct l2 as [|n l3]; [exact I|].
      cbn [links_ok] in H2. destruct (kfree n); cbn [tl]; [tauto|]. cbn [links_ok]. tauto.
Qed.

Lemma no_adj_free_tail : forall p l, no_adj_free (p :: l) -> no_adj_free l.
Proof. intros p [|q l] H; cbn in *; tauto. Qed.

Lemma no_adj_free_prefix : forall l1 l2, no_adj_free (l1 ++ l2) -> no_adj_free l1.
Proof.
  induction l1 as [|p l1 IH]; intros l2 H; [exact I|].
  destruct l1 as [|q l1]; [exact I|].
  cbn [app no_adj_free] in *. destruct H as [H1 H2]. split; [assumption|]. apply (IH l2). exact H2.
Qed.

Lemma no_adj_free_suffix : forall l1 l2, no_adj_free (l1 ++ l2) -> no_adj_free l2.
Proof.
  induction l1 as [|p l1 IH]; intros l2 H; [assumption|].
  apply IH. cbn [app] in H. eapply no_adj_free_tail. exact H.
Qed.

Lemma no_adj_free_cons_fix : forall x v l,
  no_adj_free l -> (match l with n :: _ => kfree x = true -> kfree n = true -> False | [] => True end) ->
  no_adj_free (x :: fix_pv v l).
Proof.
  intros x v [|n r] H1 H2; [exact I|]. cbn [fix_pv]. cbn [no_adj_free]. split.
  - exact H2.
  - destruct r as [|m r]; [exact I|]. cbn [no_adj_free] in *. exact H1.
Qed.

Lemma no_adj_put_ps : forall l1 mi l2, no_adj_free (l1 ++ mi :: l2) -> no_adj_free (put_ps l1 mi l2).
Proof.
  intros l1 mi l2 H. unfold put_ps.
  apply no_adj_free_app. split.
  - (* left part: l0 ++ [new] *)
    apply no_adj_free_snoc. split.
    + unfold put_l0. destruct (last_free l1); [|eapply no_adj_free_prefix; exact H].
      destruct (list_last_cases _ l1) as [->|(l0 & pr & ->)]; [exact I|].
      rewrite removelast_last. rewrite <- app_assoc in H. eapply no_adj_free_prefix; exact H.
    + unfold put_l0. destruct (last_free l1) eqn:E.
      * destruct (list_last_cases _ l1) as [->|(l0 & pr & ->)]; [discriminate|].
        rewrite last_free_snoc in E. rewrite removelast_last.
        rewrite <- app_assoc in H. cbn [app] in H.
        apply no_adj_free_app in H. destruct H as [H _].
        apply no_adj_free_snoc in H. destruct H as [_ H].
        destruct (rev l0) as [|pp r]; [exact I|]. intros Hpp _. apply H; assumption.
      * unfold last_free in E. destruct (rev l1) as [|pp r]; [exact I|].
        intros Hpp _. congruence.
  - (* right part: new :: l3 *)
    apply no_adj_free_cons_fix.
    + apply no_adj_free_suffix in H. apply no_adj_free_tail in H.
      unfold put_l3. destruct (head_free l2); [|assumption].
      destruct l2; [exact I|]. cbn [tl]. eapply no_adj_free_tail. exact H.
    + apply no_adj_free_suffix in H. apply no_adj_free_tail in H.
      unfold put_l3. destruct (head_free l2) eqn:E.
      * destruct l2 as [|n [|m l3]]; cbn [tl]; try exact I.
        cbn [head_free] in E. cbn [no_adj_free] in H. intros _ Hm. apply (proj1 H); assumption.
      * destruct l2 as [|n l3]; [exact I|]. cbn [head_free] in E. intros _ Hn. congruence.
Qed.

Lemma put_ps_nonempty : forall l1 mi l2, put_ps l1 mi l2 <> [].
Proof. intros. unfold put_ps. destruct (put_l0 l1); discriminate. Qed.

(* ---- the free view after piecePutMixed, pointwise --------------------- *)

Lemma put_total_pos : forall l1 mi l2, quant_sizes (l1 ++ mi :: l2) -> 0 < put_total l1 mi l2.
Proof.
  intros l1 mi l2 H. apply put_ps_quant in H. unfold put_ps in H.
  apply quant_sizes_app in H. destruct H as [_ H]. inversion H as [|? ? [H1 _] _]; subst. exact H1.
Qed.

Lemma fview_put_iff : forall l1 mi l2 k o, quant_sizes (l1 ++ mi :: l2) ->
  (In (k, o) (fview (put_ps l1 mi l2) 0) <->
   (k, o) = (put_total l1 mi l2, psum (put_l0 l1)) \/
   (In (k, o) (fview (l1 ++ mi :: l2) 0) /\
    ~ (psum (put_l0 l1) <= o < psum (put_l0 l1) + put_total l1 mi l2))).
Proof.
  intros l1 mi l2 k o Hq.
  pose proof (put_total_pos l1 mi l2 Hq) as Htot.
  apply quant_sizes_app in Hq. destruct Hq as [Hq1 Hq2]. inversion Hq2 as [|? ? [Hmi _] Hq2']; subst.
  destruct (put_parts_quant l1 l2 Hq1 Hq2') as (Q0 & Qp & Qn & Q3).
  pose proof (quant_pos _ Q0) as P0. pose proof (quant_pos _ Q3) as P3.
  rewrite fview_after.
  (* the old view, in the same decomposition *)
  assert (Hold : fview (l1 ++ mi :: l2) 0 =
                 fview (put_l0 l1) 0
                 ++ fview (put_pl l1 ++ mi :: put_nl l2) (psum (put_l0 l1))
                 ++ fview (put_l3 l2) (psum (put_l0 l1) + put_total l1 mi l2)).
  { rewrite (l1_decomp l1) at 1. rewrite (l2_decomp l2) at 1.
    rewrite <- app_assoc. rewrite fview_app. rewrite Z.add_0_l. f_equal.
    replace (put_pl l1 ++ mi :: put_nl l2 ++ put_l3 l2) with ((put_pl l1 ++ mi :: put_nl l2) ++ put_l3 l2)
      by (rewrite <- app_assoc; reflexivity).
    rewrite fview_app. f_equal. f_equal.
    rewrite psum_app. cbn [psum]. rewrite put_pl_psum, put_nl_psum. unfold put_total. lia. }
  rewrite Hold.
  assert (Hmidq : pos_sizes (put_pl l1 ++ mi :: put_nl l2)).
  { apply pos_sizes_app. split; [apply quant_pos; assumption|]. constructor; [assumption | apply quant_pos; assumption]. }
  assert (Hmidsum : psum (put_pl l1 ++ mi :: put_nl l2) = put_total l1 mi l2).
  { rewrite psum_app. cbn [psum]. rewrite put_pl_psum, put_nl_psum. unfold put_total. lia. }
  rewrite !in_app_iff. cbn [In].
  split.
  - intros [H|[[H|[]]|H]].
    + right. split; [left; assumption|]. apply fview_bounds in H; [|assumption]. lia.
    + left. symmetry. assumption.
    + right. split; [right; right; assumption|]. apply fview_bounds in H; [|assumption]. lia.
  - intros [H|[[H|[H|H]] Hr]].
    + right. left. left. symmetry. assumption.
    + left. assumption.
    + exfalso. apply fview_bounds in H; [|assumption]. rewrite Hmidsum in H. lia.
    + right. right. assumption.
Qed.

Lemma put_szp_nonneg : forall l1, quant_sizes l1 -> 0 <= put_szp l1.
Proof.
  intros l1 H. rewrite <- put_pl_psum. apply psum_nonneg. apply quant_pos.
  rewrite (l1_decomp l1) in H. apply quant_sizes_app in H. tauto.
Qed.

Lemma put_szn_nonneg : forall l2, quant_sizes l2 -> 0 <= put_szn l2.
Proof.
  intros l2 H. rewrite <- put_nl_psum. apply psum_nonneg. apply quant_pos.
  rewrite (l2_decomp l2) in H. apply quant_sizes_app in H. tauto.
Qed.

Lemma put_szp_pos : forall l1, quant_sizes l1 -> last_free l1 = true -> 0 < put_szp l1.
Proof.
  intros l1 H E. unfold put_szp. rewrite E.
  destruct (list_last_cases _ l1) as [->|(l0 & pr & ->)]; [discriminate|].
  rewrite rev_snoc. apply quant_sizes_app in H. destruct H as [_ H]. inversion H; subst. tauto.
Qed.

Lemma put_szn_pos : forall l2, quant_sizes l2 -> head_free l2 = true -> 0 < put_szn l2.
Proof.
  intros l2 H E. unfold put_szn. rewrite E. destruct l2; [discriminate|]. inversion H; subst. tauto.
Qed.

(* the entries of the old free view that lie in the merged range *)
Lemma fview_in_range : forall l1 mi l2 k o, quant_sizes (l1 ++ mi :: l2) ->
  In (k, o) (fview (l1 ++ mi :: l2) 0) ->
  psum (put_l0 l1) <= o < psum (put_l0 l1) + put_total l1 mi l2 ->
  (last_free l1 = true /\ k = put_szp l1 /\ o = psum (put_l0 l1)) \/
  (kfree mi = true /\ k = psz mi /\ o = psum l1) \/
  (head_free l2 = true /\ k = put_szn l2 /\ o = psum l1 + psz mi).
Proof.
  intros l1 mi l2 k o Hq Hin Hr.
  apply quant_sizes_app in Hq. destruct Hq as [Hq1 Hq2]. inversion Hq2 as [|? ? [Hmi _] Hq2']; subst.
  destruct (put_parts_quant l1 l2 Hq1 Hq2') as (Q0 & Qp & Qn & Q3).
  pose proof (quant_pos _ Q0) as P0. pose proof (quant_pos _ Q3) as P3.
  revert Hin.
  rewrite (l1_decomp l1) at 1. rewrite (l2_decomp l2) at 1.
  rewrite <- app_assoc. rewrite fview_app. rewrite fview_app. cbn [fview]. rewrite fview_app.
  rewrite fview_pl, fview_nl. rewrite !Z.add_0_l. rewrite put_pl_psum, put_nl_psum.
  replace (psum (put_l0 l1) + put_szp l1) with (psum l1) by (rewrite (psum_l1 l1); reflexivity).
  rewrite !in_app_iff.
  intros [H|[H|[H|[H|H]]]].
  - apply fview_bounds in H; [|assumption]. lia.
  - left. destruct (last_free l1); [|destruct H]. destruct H as [H|[]]. inversion H; subst. auto.
  - right. left. destruct (kfree mi); [|destruct H]. destruct H as [H|[]]. inversion H; subst. auto.
  - right. right. destruct (head_free l2); [|destruct H]. destruct H as [H|[]]. inversion H; subst. auto.
  - apply fview_bounds in H; [|assumption]. rewrite (psum_l1 l1) in H. unfold put_total in Hr. lia.
Qed.

Lemma frview_put_iff : forall l1 mi l2 o, quant_sizes (l1 ++ mi :: l2) ->
  (In o (frview (put_ps l1 mi l2) 0) <-> In o (frview (l1 ++ mi :: l2) 0) /\ o <> psum l1).
Proof.
  intros l1 mi l2 o Hq.
  pose proof (put_total_pos l1 mi l2 Hq) as Htot.
  apply quant_sizes_app in Hq. destruct Hq as [Hq1 Hq2]. inversion Hq2 as [|? ? [Hmi _] Hq2']; subst.
  destruct (put_parts_quant l1 l2 Hq1 Hq2') as (Q0 & Qp & Qn & Q3).
  pose proof (quant_pos _ Q0) as P0. pose proof (quant_pos _ Q3) as P3.
  pose proof (put_szp_nonneg l1 Hq1) as Hp. pose proof (put_szn_nonneg l2 Hq2') as Hn.
  rewrite frview_after, frview_before. rewrite !in_app_iff.
  pose proof (psum_l1 l1) as E1.
  split.
  - intros [H|H].
    + split; [left; assumption|]. apply frview_bounds in H; [|assumption]. lia.
    + split; [right; right; assumption|]. apply frview_bounds in H; [|assumption].
      unfold put_total in H. lia.
  - intros [[H|[H|H]] Hne].
    + left. assumption.
    + destruct (kfront mi); [|destruct H]. destruct H as [H|[]]. congruence.
    + right. assumption.
Qed.

Lemma fview_at_offset : forall l1 mi l2 k, pos_sizes (l1 ++ mi :: l2) ->
  In (k, psum l1) (fview (l1 ++ mi :: l2) 0) -> kfree mi = true /\ k = psz mi.
Proof.
  intros l1 mi l2 k Hpos Hin. apply pos_sizes_app in Hpos. destruct Hpos as [H1 H2].
  inversion H2 as [|? ? Hmi H2']; subst.
  rewrite fview_app in Hin. apply in_app_or in Hin. destruct Hin as [Hin|Hin].
  - apply fview_bounds in Hin; [lia | assumption].
  - cbn [fview] in Hin. apply in_app_or in Hin. destruct Hin as [Hin|Hin].
    + destruct (kfree mi); [|destruct Hin]. destruct Hin as [Heq|[]]. inversion Heq. auto.
    + apply fview_bounds in Hin; [lia | assumption].
Qed.

Lemma frview_at_offset : forall l1 mi l2, pos_sizes (l1 ++ mi :: l2) ->
  In (psum l1) (frview (l1 ++ mi :: l2) 0) -> kfront mi = true.
Proof.
  intros l1 mi l2 Hpos Hin. apply pos_sizes_app in Hpos. destruct Hpos as [H1 H2].
  inversion H2 as [|? ? Hmi H2']; subst.
  rewrite frview_app in Hin. apply in_app_or in Hin. destruct Hin as [Hin|Hin].
  - apply frview_bounds in Hin; [lia | assumption].
  - cbn [frview] in Hin. apply in_app_or in Hin. destruct Hin as [Hin|Hin].
    + destruct (kfront mi); [reflexivity | destruct Hin].
    + apply frview_bounds in Hin; [lia | assumption].
Qed.

(* ---- replacing a stretch of pieces by another of the same length -------- *)

Lemma fview_mid_iff : forall l1 mid mid' l2 l2' k o,
  pos_sizes l1 -> pos_sizes l2 -> pos_sizes mid -> psum mid = psum mid' ->
  (forall c, fview l2' c = fview l2 c) ->
  (In (k, o) (fview (l1 ++ mid' ++ l2') 0) <->
   In (k, o) (fview mid' (psum l1)) \/
   (In (k, o) (fview (l1 ++ mid ++ l2) 0) /\ ~ (psum l1 <= o < psum l1 + psum mid))).
Proof.
  intros l1 mid mid' l2 l2' k o P1 P2 Pm Hsum Hl2.
  rewrite !fview_app. rewrite !Z.add_0_l. rewrite Hl2. rewrite <- Hsum. rewrite !in_app_iff.
  split.
  - intros [H|[H|H]].
    + right. split; [left; assumption|]. apply fview_bounds in H; [lia | assumption].
    + left. assumption.
    + right. split; [right; right; assumption|]. apply fview_bounds in H; [lia | assumption].
  - intros [H|[[H|[H|H]] Hr]].
    + right. left. assumption.
    + left. assumption.
    + exfalso. apply fview_bounds in H; [lia | assumption].
    + right. right. assumption.
Qed.

Lemma frview_mid_iff : forall l1 mid mid' l2 l2' o,
  pos_sizes l1 -> pos_sizes l2 -> pos_sizes mid -> psum mid = psum mid' ->
  (forall c, frview l2' c = frview l2 c) ->
  (In o (frview (l1 ++ mid' ++ l2') 0) <->
   In o (frview mid' (psum l1)) \/
   (In o (frview (l1 ++ mid ++ l2) 0) /\ ~ (psum l1 <= o < psum l1 + psum mid))).
Proof.
  intros l1 mid mid' l2 l2' o P1 P2 Pm Hsum Hl2.
  rewrite !frview_app. rewrite !Z.add_0_l. rewrite Hl2. rewrite <- Hsum. rewrite !in_app_iff.
  split.
  - intros [H|[H|H]].
    + right. split; [left; assumption|]. apply frview_bounds in H; [lia | assumption].
    + left. assumption.
    + right. split; [right; right; assumption|]. apply frview_bounds in H; [lia | assumption].
  - intros [H|[[H|[H|H]] Hr]].
    + right. left. assumption.
    + left. assumption.
    + exfalso. apply frview_bounds in H; [lia | assumption].
    + right. right. assumption.
Qed.

Lemma mixed_live_mid : forall s pg l1 mid l2,
  mixed_live s pg (l1 ++ mid ++ l2) 0 =
  mixed_live s pg l1 0 ++ mixed_live s pg mid (psum l1) ++ mixed_live s pg l2 (psum l1 + psum mid).
Proof. intros. rewrite !mixed_live_app. rewrite !Z.add_0_l. reflexivity. Qed.

Lemma fview_in_mid : forall l1 mid l2 k o, pos_sizes l1 -> pos_sizes l2 ->
  In (k, o) (fview (l1 ++ mid ++ l2) 0) -> psum l1 <= o < psum l1 + psum mid ->
  In (k, o) (fview mid (psum l1)).
Proof.
  intros l1 mid l2 k o P1 P2 Hin Hr. rewrite !fview_app, !Z.add_0_l in Hin.
  rewrite !in_app_iff in Hin. destruct Hin as [H|[H|H]]; [|assumption|].
  - apply fview_bounds in H; [lia | assumption].
  - apply fview_bounds in H; [lia | assumption].
Qed.

Lemma frview_in_mid : forall l1 mid l2 o, pos_sizes l1 -> pos_sizes l2 ->
  In o (frview (l1 ++ mid ++ l2) 0) -> psum l1 <= o < psum l1 + psum mid ->
  In o (frview mid (psum l1)).
Proof.
  intros l1 mid l2 o P1 P2 Hin Hr. rewrite !frview_app, !Z.add_0_l in Hin.
  rewrite !in_app_iff in Hin. destruct Hin as [H|[H|H]]; [|assumption|].
  - apply frview_bounds in H; [lia | assumption].
  - apply frview_bounds in H; [lia | assumption].
Qed.

(* list part of "make piece p busy" and of mxmemSplit *)
Lemma no_adj_set_nonfree : forall l1 p p' l2, kfree p' = false ->
  no_adj_free (l1 ++ p :: l2) -> no_adj_free (l1 ++ p' :: l2).
Proof.
  intros l1 p p' l2 Hp' H. apply no_adj_free_app in H. destruct H as [H1 H2].
  apply no_adj_free_app. split.
  - apply no_adj_free_snoc in H1. apply no_adj_free_snoc. split; [tauto|].
    destruct (rev l1); [exact I|]. intros _ Hc. congruence.
  - destruct l2 as [|q l2]; [exact I|]. cbn [no_adj_free] in *. split; [intros Hc; congruence | tauto].
Qed.

Lemma no_adj_split : forall l1 bz l2 nb rk,
  kfree bz = false ->
  (is_free rk = true -> head_free l2 = false) ->
  no_adj_free (l1 ++ bz :: l2) ->
  no_adj_free (l1 ++ mkP (pv bz) nb (pkd bz) :: mkP nb (psz bz - nb) rk :: fix_pv (psz bz - nb) l2).
Proof.
  intros l1 bz l2 nb rk Hbz Hrk H. apply no_adj_free_app in H. destruct H as [H1 H2].
  apply no_adj_free_app. split.
  - apply no_adj_free_snoc in H1. apply no_adj_free_snoc. split; [tauto|].
    destruct (rev l1); [exact I|]. intros _ Hc. unfold kfree in *. cbn in Hc. congruence.
  - cbn [no_adj_free]. split.
    + intros Hc. unfold kfree in *. cbn in Hc. congruence.
    + apply no_adj_free_cons_fix.
      * eapply no_adj_free_tail. exact H2.
      * destruct l2 as [|q l2]; [exact I|]. intros Hc Hq. unfold kfree in Hc. cbn in Hc.
        specialize (Hrk Hc). cbn [head_free] in Hrk. congruence.
Qed.
