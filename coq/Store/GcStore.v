(* The collector of the store model: blocks reachable from the roots survive
   with their contents; only unreachable blocks are freed. *)
Require Import ZArith List Bool Lia ZifyBool Permutation.
Import ListNotations.
Require Import AV.Gen.StoreParams AV.Store.Gc AV.Store.GcFacts AV.Store.Model AV.Store.ListFacts
        AV.Store.SizeFacts AV.Store.PieceFacts AV.Store.IndexFacts AV.Store.PutFacts AV.Store.Facts
        AV.Store.LiveFacts AV.Store.SweepFacts.
Local Open Scope Z_scope.

Lemma addr_eqb_spec : forall a b : addr, addr_eqb a b = true <-> a = b.
Proof.
  intros [s1 o1] [s2 o2]. unfold addr_eqb. cbn. rewrite andb_true_iff, Nat.eqb_eq, Z.eqb_eq.
  split; [intros [-> ->]; reflexivity | intros H; inversion H; auto].
Qed.

Lemma is_marked_in : forall m a, is_marked m a = true <-> In a m.
Proof.
  intros m a. unfold is_marked. rewrite existsb_exists. split.
  - intros (x & Hx & He). apply addr_eqb_spec in He. subst. assumption.
  - intros H. exists a. split; [assumption | apply addr_eqb_spec; reflexivity].
Qed.

(* reachability in the store: roots and pointer words are absolute addresses,
   resolved (interior pointers included) by the model of stoGcMarkRange *)
Definition sreach (t : st) (roots : list Z) (a : addr) : Prop :=
  reach Z addr (resolve t) (block_ptrs t) roots a.

Lemma sect_live_in_live : forall t s e, In e (sect_live s (get_sect t s)) -> In e (live t).
Proof.
  intros t s e He. unfold live, get_sect in *.
  destruct (nth_error (sects t) s) as [x|] eqn:En.
  - destruct (nth_error_split' _ _ _ _ En) as (A & B & HAB & Hlen).
    rewrite HAB in *. subst s. rewrite nth_app_len in He.
    rewrite sects_live_app. cbn [sects_live Nat.add]. rewrite !in_app_iff. right. left. exact He.
  - apply nth_error_None in En. rewrite nth_overflow in He by assumption. destruct He.
Qed.

Lemma fixed_live_has : forall s qsz qs k i b, nth_error qs i = Some (QBusy b) ->
  In (qblock s qsz (k + i) b) (fixed_live s qsz qs k).
Proof.
  induction qs as [|q qs IH]; intros k i b H; [destruct i; discriminate|].
  destruct i as [|i]; cbn [nth_error] in H.
  - inversion H; subst. cbn [fixed_live]. rewrite Nat.add_0_r. left. reflexivity.
  - cbn [fixed_live]. replace (k + S i)%nat with (S k + i)%nat by lia.
    destruct q; [|right]; apply IH; assumption.
Qed.

Lemma mixed_live_has : forall s pg l1 p l2 b cur, pkd p = KBusy b ->
  In (pblock s pg (cur + psum l1) p b) (mixed_live s pg (l1 ++ p :: l2) cur).
Proof.
  intros. rewrite mixed_live_app. apply in_or_app. right. cbn [mixed_live]. rewrite H. left. reflexivity.
Qed.

(* whatever the marker resolves a word to is a live block *)
Lemma resolve_live : forall t v a, resolve t v = Some a -> In a (live_addrs t).
Proof.
  intros t v a H. unfold resolve in H.
  destruct (find_sect (sects t) 0 v) as [s|]; [|discriminate].
  unfold live_addrs. apply in_map_iff.
  destruct (get_sect t s) as [bs qsz c qs|bs pg ps|] eqn:Hs; [| |discriminate].
  - destruct (0 <=? v - sect_base (SFixed bs qsz c qs) * PgSize - fdata_off qsz); [|discriminate].
    destruct (nth_error qs (Z.to_nat (qm_index c (v - sect_base (SFixed bs qsz c qs) * PgSize - fdata_off qsz))))
      as [[|b]|] eqn:En; try discriminate.
    inversion H; subst a. eexists (_, qsz, b). split; [reflexivity|].
    apply (sect_live_in_live t s). rewrite Hs. cbn [sect_live].
    apply (fixed_live_has s qsz qs 0 _ b En).
  - destruct (0 <=? v - sect_base (SMixed bs pg ps) * PgSize - mdata_off pg); [|discriminate].
    destruct (pcontaining ps 0 _ 0) as [k|] eqn:Ep; [|discriminate].
    destruct (pkd (pget ps k)) as [| |b] eqn:Ek; try discriminate.
    inversion H; subst a.
    apply pcontaining_sound in Ep. destruct Ep as (l1 & p & l2 & -> & -> & _).
    cbn [Nat.add] in *. rewrite pget_app in Ek. rewrite poff_app.
    eexists (_, psz p - MxMemHeadSize, b). split; [reflexivity|].
    apply (sect_live_in_live t s). rewrite Hs. cbn [sect_live].
    pose proof (mixed_live_has s pg l1 p l2 b 0 Ek) as Hm. rewrite Z.add_0_l in Hm. exact Hm.
Qed.

(* gc frees exactly the blocks that are not reachable from the roots; the others
   keep address, size, code, contents and pointer fields *)
Theorem gc_live_abstract : forall t roots t' o, Inv t -> gc_with (gc_mark t roots) t = (t', o) ->
  Inv t' /\
  forall e, In e (live t') <-> In e (live t) /\ sreach t roots (fst (fst e)).
Proof.
  intros t roots t' o HI Hg. destruct (gc_with_spec _ t t' o HI Hg) as [HI' Hlive].
  split; [exact HI'|]. intros e. rewrite Hlive, filter_In. unfold SweepFacts.mk. rewrite is_marked_in.
  unfold gc_mark, sreach.
  rewrite (mark_exact Z addr addr_eqb (resolve t) (block_ptrs t) addr_eqb_spec (live_addrs t) roots
             (resolve_live t)). tauto.
Qed.

(* an interior pointer into a live block resolves to that block: together with
   gc_keeps_reachable_store, a block whose only root is an interior pointer survives *)
Definition sections_disjoint (t : st) : Prop :=
  forall s1 s2 v, s1 <> s2 ->
    get_sect t s1 <> SDead -> get_sect t s2 <> SDead ->
    sect_base (get_sect t s1) * PgSize <= v < (sect_base (get_sect t s1) + sect_pages (get_sect t s1)) * PgSize ->
    sect_base (get_sect t s2) * PgSize <= v < (sect_base (get_sect t s2) + sect_pages (get_sect t s2)) * PgSize ->
    False.

(* ---- interior pointers ------------------------------------------------------------ *)

Lemma find_sect_spec : forall l k v s x,
  nth_error l s = Some x -> x <> SDead ->
  sect_base x * PgSize <= v < (sect_base x + sect_pages x) * PgSize ->
  (forall s' y, s' <> s -> nth_error l s' = Some y -> y <> SDead ->
                ~ (sect_base y * PgSize <= v < (sect_base y + sect_pages y) * PgSize)) ->
  find_sect l k v = Some (k + s)%nat.
Proof.
  induction l as [|y l IH]; intros k v s x Hn Hx Hin Hoth; [destruct s; discriminate|].
  cbn [find_sect]. destruct s as [|s].
  - cbn in Hn. inversion Hn; subst y.
    replace (match x with SDead => false | _ => true end) with true by (destruct x; congruence).
    replace (sect_base x * PgSize <=? v) with true by lia.
    replace (v <? (sect_base x + sect_pages x) * PgSize) with true by lia.
    cbn. f_equal. lia.
  - cbn in Hn.
    assert (Hy : (match y with SDead => false | _ => true end)
                 && (sect_base y * PgSize <=? v) && (v <? (sect_base y + sect_pages y) * PgSize) = false).
    { destruct y eqn:Ey; [| |reflexivity].
      - specialize (Hoth O _ ltac:(lia) eq_refl ltac:(discriminate)). cbn [andb]. lia.
      - specialize (Hoth O _ ltac:(lia) eq_refl ltac:(discriminate)). cbn [andb]. lia. }
    rewrite Hy. rewrite (IH (S k) v s x Hn Hx Hin).
    + f_equal. lia.
    + intros s' z Hne Hz. apply (Hoth (S s') z); [lia | exact Hz].
Qed.

Definition abs_range (t : st) (e : addr * Z * binfo) (v : Z) : Prop :=
  abs_of t (fst (fst e)) <= v < abs_of t (fst (fst e)) + snd (fst e).

Lemma live_in_pages : forall t e, Inv t -> In e (live t) ->
  get_sect t (b_sect e) <> SDead /\ 0 <= b_off e /\
  b_off e + b_size e <= sect_pages (get_sect t (b_sect e)) * PgSize.
Proof.
  intros t e HI He. pose proof (live_inside t e HI He) as Hin.
  pose proof (ih_sect _ _ HI (b_sect e)) as Hok.
  destruct (get_sect t (b_sect e)) as [bs qsz c qs|bs pg ps|]; [| |contradiction].
  - cbn [sect_ok] in Hok. destruct Hok as (Hc & Hq & _).
    destruct (per_class_all (class_size c) (class_size_in c Hc)) as (_ & _ & _ & Hpos & Hnq).
    rewrite <- Hq in *. destruct Hin as (H1 & H2 & H3). split; [discriminate|].
    cbn [sect_pages]. unfold SectionInfoOff, QmInfoSize in *. lia.
  - cbn [sect_ok] in Hok. destruct Hok as [Hpg _]. destruct Hin as (H1 & H2 & H3). split; [discriminate|].
    pose proof (qm_count_nonneg pg MixedSizeQuantum Hpg ltac:(unfold MixedSizeQuantum; lia)).
    cbn [sect_pages]. unfold SectionInfoOff, QmInfoSize, MxMemHeadSize in *. lia.
Qed.

(* a word that points anywhere into a live block is resolved to that block *)
Theorem resolve_interior : forall t e v, Inv t -> sections_disjoint t ->
  In e (live t) -> abs_range t e v -> resolve t v = Some (fst (fst e)).
Proof.
  intros t e v HI Hdis He Hv.
  destruct (live_in_pages t e HI He) as (Hnd & Hoff0 & Hend).
  pose proof (live_size_pos t e HI He) as Hzpos.
  destruct e as [[[s off] z] bi]. unfold abs_range, abs_of, b_sect, b_off, b_size in *. cbn [fst snd] in *.
  assert (Hfs : find_sect (sects t) 0 v = Some s).
  { assert (Hn : nth_error (sects t) s = Some (get_sect t s)).
    { unfold get_sect in *. destruct (nth_error (sects t) s) eqn:En.
      - rewrite (nth_error_nth' _ _ _ _ SDead En). reflexivity.
      - apply nth_error_None in En. rewrite nth_overflow in Hnd by assumption. congruence. }
    apply (find_sect_spec (sects t) 0 v s _ Hn Hnd); [lia|].
    intros s' y Hne Hy Hyd Hc. apply (Hdis s s' v); try congruence; try lia.
    - unfold get_sect at 1. rewrite (nth_error_nth' _ _ _ _ SDead Hy). assumption.
    - unfold get_sect. rewrite (nth_error_nth' _ _ _ _ SDead Hy). assumption. }
  unfold resolve. rewrite Hfs.
  unfold live in He. apply sects_live_in in He. destruct He as (s' & x & Hn & _ & He).
  rewrite Nat.sub_0_r in Hn. pose proof (sect_live_sect _ _ _ He) as Hse. unfold b_sect in Hse. cbn in Hse. subst s'.
  assert (Hs : get_sect t s = x) by (unfold get_sect; apply nth_error_nth'; assumption).
  pose proof (inv_sects_ok _ _ HI _ _ Hn) as Hok.
  rewrite Hs in *.
  destruct x as [bs qsz c qs|bs pg ps|]; cbn [sect_live] in He; [| |destruct He].
  - apply fixed_live_in in He. destruct He as (i & b' & _ & Hi & Heq). rewrite Nat.sub_0_r in Hi.
    unfold qblock in Heq. inversion Heq; subst off z bi. clear Heq.
    cbn [sect_ok] in Hok. destruct Hok as (Hc & Hq & Hlen).
    destruct (per_class_all (class_size c) (class_size_in c Hc)) as (_ & _ & _ & Hpos & _).
    cbn [sect_base] in *. rewrite <- Hq in Hpos.
    set (d := v - bs * PgSize - fdata_off qsz).
    assert (Hd : Z.of_nat i * qsz <= d < Z.of_nat i * qsz + qsz) by (unfold d; lia).
    replace (0 <=? d) with true by (symmetry; apply Z.leb_le; nia).
    rewrite (qm_index_correct c d Hc ltac:(nia)). rewrite <- Hq.
    assert (Hdiv : d / qsz = Z.of_nat i).
    { symmetry. apply (Z.div_unique d qsz (Z.of_nat i) (d - Z.of_nat i * qsz)); lia. }
    rewrite Hdiv, Nat2Z.id, Hi. reflexivity.
  - apply mixed_live_in in He. destruct He as (l1 & p & l2 & b' & -> & Hk & Heq).
    unfold pblock in Heq. inversion Heq; subst off z bi. clear Heq.
    cbn [sect_ok] in Hok. destruct Hok as [Hpg Hps]. cbn [sect_base] in *.
    pose proof (pso_sizes _ _ Hps) as Hq. apply quant_sizes_app in Hq. destruct Hq as [Hq1 Hq2].
    inversion Hq2 as [|? ? [Hp1 Hp2] _]; subst.
    pose proof (quant_psum _ Hq1) as [Hs1 Hs2].
    set (d := v - bs * PgSize - mdata_off pg).
    assert (Hd : psum l1 + MxMemHeadSize <= d < psum l1 + psz p) by (unfold d; lia).
    replace (0 <=? d) with true by (symmetry; apply Z.leb_le; unfold MxMemHeadSize in *; lia).
    assert (Hq' : psum l1 <= d / MixedSizeQuantum * MixedSizeQuantum < psum l1 + psz p).
    { unfold MixedSizeQuantum, MxMemHeadSize in *. lia. }
    rewrite (pcontaining_app l1 p l2 0 0 _ (quant_pos _ Hq1)) by lia.
    cbn [Nat.add]. rewrite pget_app, Hk, poff_app. rewrite ?Z.add_0_l. reflexivity.
Qed.

