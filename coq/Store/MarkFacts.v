(* The marker as coded in stoGcMarkRange (Model.v: piece_tags, step_back, cresolve,
   cmark): an address anywhere inside a busy piece marks that piece, and marking from
   the roots marks exactly what is reachable through any word of any marked piece. *)
Require Import ZArith List Bool Lia ZifyBool Permutation.
Import ListNotations.
Require Import AV.Gen.StoreParams AV.Store.Gc AV.Store.GcFacts AV.Store.Model AV.Store.ListFacts
        AV.Store.SizeFacts AV.Store.PieceFacts AV.Store.IndexFacts AV.Store.PutFacts AV.Store.Facts
        AV.Store.LiveFacts AV.Store.SweepFacts AV.Store.GcStore.
Local Open Scope Z_scope.
Ltac Zify.zify_post_hook ::= Z.div_mod_to_equations.

(* The two theorems below are about the marker WITHOUT bounds.  These two facts are
   about the parameters regenerated from store.c: they stop checking as soon as the
   source bounds the stepping back or the nesting. *)
Lemma gc_interior_unbounded : GcInteriorMax = -1.
Proof. reflexivity. Qed.
Lemma gc_depth_unbounded : GcMarkDepthMax = -1.
Proof. reflexivity. Qed.

(* ---- tags ------------------------------------------------------------------------ *)

Lemma piece_tags_app : forall l1 l2, piece_tags (l1 ++ l2) = piece_tags l1 ++ piece_tags l2.
Proof.
  induction l1 as [|p l1 IH]; intros l2; cbn [app piece_tags]; [reflexivity|].
  rewrite IH. rewrite <- app_assoc. reflexivity.
Qed.

Lemma piece_quanta_spec : forall p, 0 < psz p -> psz p mod MixedSizeQuantum = 0 ->
  (1 <= piece_quanta p)%nat /\ Z.of_nat (piece_quanta p) * MixedSizeQuantum = psz p.
Proof.
  intros p H1 H2. unfold piece_quanta.
  assert (Hq : 0 < MixedSizeQuantum) by (unfold MixedSizeQuantum; lia).
  pose proof (Z.div_mod (psz p) MixedSizeQuantum ltac:(lia)) as Hdm. rewrite H2 in Hdm.
  set (q := psz p / MixedSizeQuantum) in *.
  assert (0 < q) by nia. rewrite Z2Nat.id by lia. split; [lia | nia].
Qed.

Lemma piece_tags_length : forall l, quant_sizes l ->
  Z.of_nat (length (piece_tags l)) * MixedSizeQuantum = psum l.
Proof.
  induction 1 as [|p l [H1 H2] Hl IH]; cbn [piece_tags psum length]; [reflexivity|].
  rewrite app_length, repeat_length. destruct (piece_quanta_spec p H1 H2) as [Ha Hb].
  unfold MixedSizeQuantum in *. lia.
Qed.

Lemma nth_repeat_lt : forall (A : Type) (a d : A) m n, (n < m)%nat -> nth n (repeat a m) d = a.
Proof. induction m as [|m IH]; intros [|n] H; cbn; try lia; [reflexivity | apply IH; lia]. Qed.

(* stepping back from any quantum of a piece ends at its first quantum *)
Lemma step_back_in_piece : forall T1 X m T2 j back,
  X <> TFollow -> (j <= m)%nat ->
  step_back (T1 ++ X :: repeat TFollow m ++ T2) (length T1 + j) back = Some (length T1).
Proof.
  intros T1 X m T2 j. induction j as [|j IH]; intros back HX Hj.
  - rewrite Nat.add_0_r. destruct (length T1) eqn:E; cbn [step_back];
      rewrite <- E, nth_app_len; destruct X; congruence.
  - replace (length T1 + S j)%nat with (S (length T1 + j)) by lia. cbn [step_back].
    replace (nth (S (length T1 + j)) (T1 ++ X :: repeat TFollow m ++ T2) TFree) with TFollow.
    + rewrite gc_interior_unbounded. cbn [Z.leb andb]. apply IH; [assumption | lia].
    + rewrite app_nth2 by lia. replace (S (length T1 + j) - length T1)%nat with (S j) by lia.
      cbn [nth]. rewrite app_nth1 by (rewrite repeat_length; lia).
      symmetry. apply nth_repeat_lt. lia.
Qed.

(* a busy-first tag is the first quantum of a busy piece *)
Lemma busy_tag_piece : forall ps q, quant_sizes ps -> nth q (piece_tags ps) TFree = TBusy ->
  exists l1 p l2, ps = l1 ++ p :: l2 /\ is_busy (pkd p) = true /\
                  Z.of_nat q * MixedSizeQuantum = psum l1.
Proof.
  induction ps as [|p ps IH]; intros q Hq Hn; [destruct q; discriminate|].
  inversion Hq as [|? ? [H1 H2] Hq']; subst. cbn [piece_tags] in Hn.
  destruct (piece_quanta_spec p H1 H2) as [Ha Hb].
  destruct q as [|q].
  - cbn in Hn. exists [], p, ps. cbn. destruct (is_busy (pkd p)); [auto | discriminate].
  - cbn [nth] in Hn. destruct (Nat.lt_ge_cases q (piece_quanta p - 1)) as [Hlt|Hge].
    + rewrite app_nth1 in Hn by (rewrite repeat_length; assumption). rewrite nth_repeat_lt in Hn by assumption. discriminate.
    + rewrite app_nth2 in Hn by (rewrite repeat_length; assumption). rewrite repeat_length in Hn.
      destruct (IH _ Hq' Hn) as (l1 & p' & l2 & -> & Hb' & Hoff).
      exists (p :: l1), p', l2. cbn [app psum]. split; [reflexivity|]. split; [assumption|].
      unfold MixedSizeQuantum in *. lia.
Qed.

(* ---- (1) an address anywhere inside a busy piece marks that piece ----------------- *)

Theorem mark_interior : forall t e v, Inv t -> sections_disjoint t ->
  In e (live t) -> abs_range t e v -> cresolve t v = Some (fst (fst e)).
Proof.
  intros t e v HI Hdis He Hv.
  destruct (live_in_pages t e HI He) as (Hnd & Hoff0 & Hend).
  pose proof (live_size_pos t e HI He) as Hzpos.
  destruct e as [[[s off] z] bi]. unfold abs_range, abs_of, b_sect, b_off, b_size in *. cbn [fst snd] in *.
  assert (Hfs : find_sect (sects t) 0 v = Some s).
  { assert (Hn : nth_error (sects t) s = Some (get_sect t s)).
    { unfold get_sect in *. destruct (nth_error (sects t) s) eqn:En.
      - rewrite (nth_error_nth' _ _ _ _ SDead En). reflexivity.
      - apply nth_error_None in En. rewrite nth_overflow in Hnd by assumption. congruence. }
    apply (find_sect_spec (sects t) 0 v s _ Hn Hnd); [lia|].
    intros s' y Hne Hy Hyd Hc. apply (Hdis s s' v); try congruence; try lia.
    - unfold get_sect at 1. rewrite (nth_error_nth' _ _ _ _ SDead Hy). assumption.
    - unfold get_sect. rewrite (nth_error_nth' _ _ _ _ SDead Hy). assumption. }
  unfold cresolve. rewrite Hfs.
  unfold live in He. apply sects_live_in in He. destruct He as (s' & x & Hn & _ & He).
  rewrite Nat.sub_0_r in Hn. pose proof (sect_live_sect _ _ _ He) as Hse. unfold b_sect in Hse. cbn in Hse. subst s'.
  assert (Hs : get_sect t s = x) by (unfold get_sect; apply nth_error_nth'; assumption).
  pose proof (inv_sects_ok _ _ HI _ _ Hn) as Hok.
  rewrite Hs in *.
  destruct x as [bs qsz c qs|bs pg ps|]; cbn [sect_live] in He; [| |destruct He].
  - apply fixed_live_in in He. destruct He as (i & b' & _ & Hi & Heq). rewrite Nat.sub_0_r in Hi.
    unfold qblock in Heq. inversion Heq; subst off z bi. clear Heq.
    cbn [sect_ok] in Hok. destruct Hok as (Hc & Hq & Hlen).
    destruct (per_class_all (class_size c) (class_size_in c Hc)) as (_ & _ & _ & Hpos & _).
    cbn [sect_base] in *. rewrite <- Hq in Hpos.
    set (d := v - bs * PgSize - fdata_off qsz).
    assert (Hd : Z.of_nat i * qsz <= d < Z.of_nat i * qsz + qsz) by (unfold d; lia).
    replace (0 <=? d) with true by (symmetry; apply Z.leb_le; nia).
    rewrite (qm_index_correct c d Hc ltac:(nia)). rewrite <- Hq.
    assert (Hdiv : d / qsz = Z.of_nat i).
    { symmetry. apply (Z.div_unique d qsz (Z.of_nat i) (d - Z.of_nat i * qsz)); lia. }
    rewrite Hdiv, Nat2Z.id, Hi. reflexivity.
  - apply mixed_live_in in He. destruct He as (l1 & p & l2 & b' & -> & Hk & Heq).
    unfold pblock in Heq. inversion Heq; subst off z bi. clear Heq.
    cbn [sect_ok] in Hok. destruct Hok as [Hpg Hps]. cbn [sect_base] in *.
    pose proof (pso_sizes _ _ Hps) as Hq. apply quant_sizes_app in Hq. destruct Hq as [Hq1 Hq2].
    inversion Hq2 as [|? ? [Hp1 Hp2] Hq3]; subst.
    pose proof (quant_psum _ Hq1) as [Hs1 Hs2].
    destruct (piece_quanta_spec p Hp1 Hp2) as [Hqa Hqb].
    pose proof (piece_tags_length l1 Hq1) as Hlen1.
    set (d := v - bs * PgSize - mdata_off pg).
    assert (Hd : psum l1 + MxMemHeadSize <= d < psum l1 + psz p) by (unfold d; lia).
    replace (0 <=? d) with true by (symmetry; apply Z.leb_le; unfold MxMemHeadSize in *; lia).
    rewrite piece_tags_app. cbn [piece_tags]. rewrite Hk. cbn [is_busy].
    set (j := (Z.to_nat (d / MixedSizeQuantum) - length (piece_tags l1))%nat).
    assert (Hj : Z.to_nat (d / MixedSizeQuantum) = (length (piece_tags l1) + j)%nat /\ (j <= piece_quanta p - 1)%nat).
    { unfold j. unfold MixedSizeQuantum, MxMemHeadSize in *. lia. }
    destruct Hj as [Hj1 Hj2]. rewrite Hj1.
    rewrite (step_back_in_piece (piece_tags l1) TBusy (piece_quanta p - 1) (piece_tags l2) j 0 ltac:(discriminate) Hj2).
    rewrite nth_app_len. rewrite Hlen1. reflexivity.
Qed.

(* whatever a word is resolved to is a live block *)
Lemma cresolve_live : forall t v a, Inv t -> cresolve t v = Some a -> In a (live_addrs t).
Proof.
  intros t v a HI H. unfold cresolve in H.
  destruct (find_sect (sects t) 0 v) as [s|]; [|discriminate].
  unfold live_addrs. apply in_map_iff.
  pose proof (ih_sect _ _ HI s) as Hok.
  destruct (get_sect t s) as [bs qsz c qs|bs pg ps|] eqn:Hs; [| |discriminate].
  - destruct (0 <=? v - sect_base (SFixed bs qsz c qs) * PgSize - fdata_off qsz); [|discriminate].
    destruct (nth_error qs (Z.to_nat (qm_index c (v - sect_base (SFixed bs qsz c qs) * PgSize - fdata_off qsz))))
      as [[|b]|] eqn:En; try discriminate.
    inversion H; subst a. eexists (_, qsz, b). split; [reflexivity|].
    apply (sect_live_in_live t s). rewrite Hs. cbn [sect_live].
    apply (fixed_live_has s qsz qs 0 _ b En).
  - destruct (0 <=? v - sect_base (SMixed bs pg ps) * PgSize - mdata_off pg); [|discriminate].
    destruct (step_back (piece_tags ps) _ 0) as [q0|]; [|discriminate].
    destruct (nth q0 (piece_tags ps) TFree) eqn:Et; try discriminate.
    inversion H; subst a. cbn [sect_ok] in Hok. destruct Hok as [_ Hps].
    destruct (busy_tag_piece ps q0 (pso_sizes _ _ Hps) Et) as (l1 & p & l2 & -> & Hb & Hoff).
    destruct (pkd p) as [| |b] eqn:Ek; try discriminate.
    eexists (_, psz p - MxMemHeadSize, b). split; [reflexivity|].
    apply (sect_live_in_live t s). rewrite Hs. cbn [sect_live].
    pose proof (mixed_live_has s pg l1 p l2 b 0 Ek) as Hm. rewrite Z.add_0_l in Hm.
    unfold pblock in Hm. rewrite Hoff. exact Hm.
Qed.

(* ---- (2) marking from the roots: exactly the reachable pieces ------------------------ *)

Section CMark.
Variable t : st.
Hypothesis HI : Inv t.
Notation R := (wresolve t).
Notation F := (obj_words t).
Notation univ := (live_addrs t).

Lemma cmark_O : forall d ws M, cmark O t d ws M = M.
Proof. reflexivity. Qed.

Lemma cmark_S_nil : forall f d M, cmark (S f) t d [] M = M.
Proof. reflexivity. Qed.

(* one step of the scan, for the marker without a nesting bound *)
Lemma cmark_S_cons : forall f d w rest M,
  cmark (S f) t d (w :: rest) M =
  match R w with
  | None => cmark (S f) t d rest M
  | Some b =>
      if is_marked M b then cmark (S f) t d rest M
      else match rest with
           | [] => cmark f t d (F b) (b :: M)
           | _ => cmark (S f) t d rest (cmark f t (d + 1) (F b) (b :: M))
           end
  end.
Proof.
  intros f d w rest M. cbn [cmark]. destruct (R w) as [b|]; [|reflexivity].
  destruct (is_marked M b); [reflexivity|]. destruct rest; [reflexivity|].
  rewrite gc_depth_unbounded. reflexivity.
Qed.

Lemma R_univ : forall w b, R w = Some b -> In b univ.
Proof. intros [v|] b H; [|discriminate]. eapply cresolve_live; eassumption. Qed.

(* number of live pieces not yet marked *)
Definition unmarked (M : list addr) : nat :=
  length (filter (fun a => negb (is_marked M a)) univ).

Lemma filter_length_le : forall (A : Type) (f g : A -> bool) l,
  (forall x, In x l -> f x = true -> g x = true) -> (length (filter f l) <= length (filter g l))%nat.
Proof.
  intros A f g l. induction l as [|x l IH]; intros H; [cbn; lia|]. cbn [filter].
  assert (IH' : (length (filter f l) <= length (filter g l))%nat)
    by (apply IH; intros y Hy; apply H; right; assumption).
  destruct (f x) eqn:Ef.
  - rewrite (H x (or_introl eq_refl) Ef). cbn. lia.
  - destruct (g x); cbn; lia.
Qed.

Lemma filter_length_lt : forall (A : Type) (f g : A -> bool) l b,
  (forall x, In x l -> f x = true -> g x = true) -> In b l -> f b = false -> g b = true ->
  (length (filter f l) < length (filter g l))%nat.
Proof.
  intros A f g l b. induction l as [|x l IH]; intros H Hb Hf Hg; [destruct Hb|]. cbn [filter].
  assert (Hle : (length (filter f l) <= length (filter g l))%nat)
    by (apply filter_length_le; intros y Hy; apply H; right; assumption).
  destruct Hb as [->|Hb].
  - rewrite Hf, Hg. cbn. lia.
  - assert (IH' : (length (filter f l) < length (filter g l))%nat)
      by (apply IH; try assumption; intros y Hy; apply H; right; assumption).
    destruct (f x) eqn:Ef.
    + rewrite (H x (or_introl eq_refl) Ef). cbn. lia.
    + destruct (g x); cbn; lia.
Qed.

Lemma unmarked_mono : forall M M', incl M M' -> (unmarked M' <= unmarked M)%nat.
Proof.
  intros M M' Hinc. unfold unmarked. apply filter_length_le. intros x _ Hx.
  apply negb_true_iff in Hx. apply negb_true_iff.
  destruct (is_marked M x) eqn:E; [|reflexivity].
  apply is_marked_in in E. apply Hinc in E. apply is_marked_in in E. congruence.
Qed.

Lemma unmarked_cons : forall M b, In b univ -> is_marked M b = false ->
  (unmarked (b :: M) < unmarked M)%nat.
Proof.
  intros M b Hb Hm. unfold unmarked. apply (filter_length_lt _ _ _ univ b); try assumption.
  - intros x _ Hx. apply negb_true_iff in Hx. apply negb_true_iff.
    destruct (is_marked M x) eqn:E; [|reflexivity].
    apply is_marked_in in E. assert (In x (b :: M)) by (right; assumption).
    apply is_marked_in in H. congruence.
  - apply negb_false_iff. apply is_marked_in. left. reflexivity.
  - rewrite Hm. reflexivity.
Qed.

Lemma unmarked_zero : forall M b, unmarked M = O -> In b univ -> In b M.
Proof.
  intros M b H0 Hb. unfold unmarked in H0.
  destruct (is_marked M b) eqn:E; [apply is_marked_in; assumption|].
  assert (Hin : In b (filter (fun a => negb (is_marked M a)) univ))
    by (apply filter_In; split; [assumption | rewrite E; reflexivity]).
  destruct (filter (fun a => negb (is_marked M a)) univ); [destruct Hin | discriminate].
Qed.

(* the result contains what was marked, the pieces the words of the range lead to, and
   it is closed under "any word of a newly marked piece" *)
Definition closedP (M S : list addr) (ws : list (option Z)) : Prop :=
  incl M S /\
  (forall w b, In w ws -> R w = Some b -> In b S) /\
  (forall x, In x S -> ~ In x M -> forall w b, In w (F x) -> R w = Some b -> In b S).

Lemma cmark_closed : forall f d ws M, (unmarked M <= f)%nat -> closedP M (cmark f t d ws M) ws.
Proof.
  induction f as [|f IHf]; intros d ws M HU.
  - rewrite cmark_O. split; [apply incl_refl|]. split.
    + intros w b _ Hr. apply unmarked_zero; [lia | eapply R_univ; eassumption].
    + intros x Hx Hn. tauto.
  - revert d M HU. induction ws as [|w rest IHws]; intros d M HU.
    + rewrite cmark_S_nil. split; [apply incl_refl|]. split; [intros w b []|]. intros x Hx Hn. tauto.
    + rewrite cmark_S_cons. destruct (R w) as [b|] eqn:Er.
      * destruct (is_marked M b) eqn:Em.
        -- destruct (IHws d M HU) as (H1 & H2 & H3). split; [assumption|]. split; [|assumption].
           intros w' b' [<-|Hin] Hr'; [|eapply H2; eassumption].
           rewrite Er in Hr'. inversion Hr'; subst. apply H1. apply is_marked_in. assumption.
        -- assert (Hbu : In b univ) by (eapply R_univ; eassumption).
           pose proof (unmarked_cons M b Hbu Em) as Hlt.
           assert (HnotM : ~ In b M) by (intros Hc; apply is_marked_in in Hc; congruence).
           destruct rest as [|w2 rest].
           ++ destruct (IHf d (F b) (b :: M) ltac:(lia)) as (H1 & H2 & H3).
              split; [intros x Hx; apply H1; right; assumption|]. split.
              ** intros w' b' [<-|[]] Hr'. rewrite Er in Hr'. inversion Hr'; subst. apply H1. left. reflexivity.
              ** intros x Hx Hn w' b' Hw Hr'. destruct (addr_eqb x b) eqn:E.
                 --- apply addr_eqb_spec in E. subst x. eapply H2; eassumption.
                 --- refine (H3 x Hx _ w' b' Hw Hr'). intros [Hc|Hc]; [|tauto].
                     subst. rewrite (proj2 (addr_eqb_spec x x) eq_refl) in E. discriminate.
           ++ destruct (IHf (d + 1) (F b) (b :: M) ltac:(lia)) as (H1 & H2 & H3).
              set (S1 := cmark f t (d + 1) (F b) (b :: M)) in *.
              assert (HU1 : (unmarked S1 <= S f)%nat).
              { pose proof (unmarked_mono (b :: M) S1 H1). lia. }
              destruct (IHws d S1 HU1) as (G1 & G2 & G3).
              set (S2 := cmark (S f) t d (w2 :: rest) S1) in *.
              split; [intros x Hx; apply G1; apply H1; right; assumption|]. split.
              ** intros w' b' [<-|Hin] Hr'; [|eapply G2; eassumption].
                 rewrite Er in Hr'. inversion Hr'; subst. apply G1. apply H1. left. reflexivity.
              ** intros x Hx Hn w' b' Hw Hr'.
                 destruct (is_marked S1 x) eqn:Es1.
                 --- apply is_marked_in in Es1. apply G1.
                     destruct (addr_eqb x b) eqn:E.
                     +++ apply addr_eqb_spec in E. subst x. eapply H2; eassumption.
                     +++ refine (H3 x Es1 _ w' b' Hw Hr'). intros [Hc|Hc]; [|tauto].
                         subst. rewrite (proj2 (addr_eqb_spec x x) eq_refl) in E. discriminate.
                 --- refine (G3 x Hx _ w' b' Hw Hr').
                     intros Hc. apply is_marked_in in Hc. congruence.
      * destruct (IHws d M HU) as (H1 & H2 & H3). split; [assumption|]. split; [|assumption].
        intros w' b' [<-|Hin] Hr'; [congruence | eapply H2; eassumption].
Qed.

(* everything the marker marks is reachable from the range *)
Lemma cmark_sound : forall f d ws M a, In a (cmark f t d ws M) ->
  In a M \/ reach (option Z) addr R F ws a.
Proof.
  induction f as [|f IHf]; intros d ws M a Ha; [left; exact Ha|].
  revert d M Ha. induction ws as [|w rest IHws]; intros d M Ha.
  - rewrite cmark_S_nil in Ha. left. exact Ha.
  - rewrite cmark_S_cons in Ha.
    assert (Hrest : forall M', In a (cmark (S f) t d rest M') -> In a M' \/ reach (option Z) addr R F (w :: rest) a).
    { intros M' H. destruct (IHws d M' H) as [H1|H1]; [left; assumption|]. right.
      eapply reach_incl; [|exact H1]. intros x Hx. right. assumption. }
    destruct (R w) as [b|] eqn:Er; [|apply Hrest; assumption].
    destruct (is_marked M b) eqn:Em; [apply Hrest; assumption|].
    assert (Hb : reach (option Z) addr R F (w :: rest) b)
      by (eapply reach_root; [left; reflexivity | exact Er]).
    assert (Hsub : forall d' a', In a' (cmark f t d' (F b) (b :: M)) ->
                   In a' M \/ reach (option Z) addr R F (w :: rest) a').
    { intros d' a' H. destruct (IHf d' (F b) (b :: M) a' H) as [[<-|H1]|H1]; [right; assumption | left; assumption|].
      right. eapply reach_trans; [|exact H1]. intros v c Hv Hc. eapply reach_step; eassumption. }
    destruct rest as [|w2 rest]; [apply (Hsub d); assumption|].
    destruct (Hrest _ Ha) as [H1|H1]; [apply (Hsub (d + 1)); assumption | right; assumption].
Qed.
End CMark.

Lemma filter_true_length : forall (A : Type) (l : list A), length (filter (fun _ => true) l) = length l.
Proof. induction l; cbn; auto. Qed.

Definition creach (t : st) (roots : list Z) (a : addr) : Prop :=
  reach (option Z) addr (wresolve t) (obj_words t) (map Some roots) a.

(* (2) the marker marks exactly the pieces reachable from the roots through ANY word of
   ANY marked piece, at any depth *)
Theorem mark_closure_exact : forall t roots a, Inv t ->
  (In a (cgc_mark t roots) <-> creach t roots a).
Proof.
  intros t roots a HI. unfold cgc_mark, creach. split.
  - intros H. destruct (cmark_sound t _ _ _ _ _ H) as [[]|H1]. exact H1.
  - intros H.
    assert (HU : (unmarked t [] <= S (length (live t)))%nat).
    { unfold unmarked. etransitivity; [apply filter_length_le with (g := fun _ => true); auto|].
      rewrite filter_true_length. unfold live_addrs. rewrite map_length. lia. }
    destruct (cmark_closed t HI _ 0 (map Some roots) [] HU) as (H1 & H2 & H3).
    induction H as [v b Hv Hr | b' v b Hb' IH Hv Hr].
    + eapply H2; eassumption.
    + eapply (H3 b' IH); [intros [] | eassumption | eassumption].
Qed.

Theorem mark_closure_complete : forall t roots a, Inv t -> creach t roots a -> In a (cgc_mark t roots).
Proof. intros t roots a HI H. apply mark_closure_exact; assumption. Qed.
