(* Facts about the piece list of one mixed section: offsets, search, split,
   merge, and the list part of piecePutMixed. *)
Require Import ZArith List Bool Lia ZifyBool.
Import ListNotations.
Require Import AV.Gen.StoreParams AV.Store.Gc AV.Store.Model AV.Store.ListFacts.
Local Open Scope Z_scope.

Fixpoint psum (ps : list piece) : Z := match ps with [] => 0 | p :: t => psz p + psum t end.
Definition pos_sizes (ps : list piece) : Prop := Forall (fun p => 0 < psz p) ps.

Lemma psum_app : forall l1 l2, psum (l1 ++ l2) = psum l1 + psum l2.
Proof. induction l1 as [|p l1 IH]; intros; cbn in *; [lia|]. rewrite IH. lia. Qed.

Lemma psum_cons : forall p l, psum (p :: l) = psz p + psum l.
Proof. reflexivity. Qed.

Lemma psum_nonneg : forall l, pos_sizes l -> 0 <= psum l.
Proof. induction 1 as [|p l Hp Hl IH]; cbn in *; lia. Qed.

Lemma pos_sizes_app : forall l1 l2, pos_sizes (l1 ++ l2) <-> pos_sizes l1 /\ pos_sizes l2.
Proof. intros. unfold pos_sizes. apply Forall_app. Qed.

Lemma poff_app : forall l1 l2, poff (l1 ++ l2) (length l1) = psum l1.
Proof.
  induction l1 as [|p l1 IH]; intros l2; cbn.
  - destruct l2; reflexivity.
  - rewrite IH. reflexivity.
Qed.

Lemma pget_app : forall l1 l2 x, pget (l1 ++ x :: l2) (length l1) = x.
Proof. intros. unfold pget. apply nth_app_len. Qed.

Lemma pfind_app : forall l1 x l2 cur k, pos_sizes l1 ->
  pfind (l1 ++ x :: l2) cur (cur + psum l1) k = Some (k + length l1)%nat.
Proof.
  induction l1 as [|p l1 IH]; intros x l2 cur k Hpos; cbn.
  - rewrite Z.add_0_r, Z.eqb_refl. f_equal. lia.
  - inversion Hpos as [|? ? Hp Hl]; subst.
    pose proof (psum_nonneg l1 Hl) as Hn.
    destruct (cur =? cur + (psz p + psum l1)) eqn:E1; [lia|].
    destruct (cur + (psz p + psum l1) <? cur) eqn:E2; [lia|].
    replace (cur + (psz p + psum l1)) with ((cur + psz p) + psum l1) by lia.
    rewrite IH by assumption. f_equal. lia.
Qed.

Lemma pfind_sound : forall ps cur target k j,
  pfind ps cur target k = Some j ->
  exists l1 x l2, ps = l1 ++ x :: l2 /\ j = (k + length l1)%nat /\ target = cur + psum l1.
Proof.
  induction ps as [|p ps IH]; intros cur target k j H; cbn in H; [discriminate|].
  destruct (cur =? target) eqn:E1.
  - inversion H; subst. exists [], p, ps. cbn. repeat split; lia.
  - destruct (target <? cur) eqn:E2; [discriminate|].
    apply IH in H. destruct H as (l1 & x & l2 & -> & -> & ->).
    exists (p :: l1), x, l2. cbn. repeat split; lia.
Qed.

Lemma pcontaining_app : forall l1 x l2 cur k target, pos_sizes l1 ->
  cur + psum l1 <= target < cur + psum l1 + psz x ->
  pcontaining (l1 ++ x :: l2) cur target k = Some (k + length l1)%nat.
Proof.
  induction l1 as [|p l1 IH]; intros x l2 cur k target Hpos Ht; cbn in *.
  - destruct (target <? cur) eqn:E1; [lia|].
    destruct (target <? cur + psz x) eqn:E2; [|lia]. f_equal. lia.
  - inversion Hpos as [|? ? Hp Hl]; subst.
    pose proof (psum_nonneg l1 Hl) as Hn.
    destruct (target <? cur) eqn:E1; [lia|].
    destruct (target <? cur + psz p) eqn:E2; [lia|].
    rewrite IH; [f_equal; lia | assumption | lia].
Qed.

Lemma pcontaining_sound : forall ps cur target k j,
  pcontaining ps cur target k = Some j ->
  exists l1 x l2, ps = l1 ++ x :: l2 /\ j = (k + length l1)%nat /\
                  cur + psum l1 <= target < cur + psum l1 + psz x.
Proof.
  induction ps as [|p ps IH]; intros cur target k j H; cbn in H; [discriminate|].
  destruct (target <? cur) eqn:E1; [discriminate|].
  destruct (target <? cur + psz p) eqn:E2.
  - inversion H; subst. exists [], p, ps. cbn. repeat split; lia.
  - apply IH in H. destruct H as (l1 & x & l2 & -> & -> & Hr).
    exists (p :: l1), x, l2. cbn. repeat split; lia.
Qed.

(* ---- primitive transformations in decomposed form ------------------- *)

Definition fix_pv (v : Z) (l : list piece) : list piece :=
  match l with [] => [] | n :: r => mkP v (psz n) (pkd n) :: r end.

Lemma set_pv_app_S : forall l1 c l3 v,
  set_pv (l1 ++ c :: l3) (S (length l1)) v = l1 ++ c :: fix_pv v l3.
Proof.
  intros. unfold set_pv. rewrite nth_error_app_S.
  destruct l3 as [|n r]; cbn [nth_error fix_pv]; [reflexivity|].
  replace (l1 ++ c :: n :: r) with ((l1 ++ [c]) ++ n :: r) by (rewrite <- app_assoc; reflexivity).
  replace (S (length l1)) with (length (l1 ++ [c])) by (rewrite app_length; cbn; lia).
  rewrite upd_app. rewrite <- app_assoc. reflexivity.
Qed.

Lemma set_kind_app : forall l1 c l2 kd,
  set_kind (l1 ++ c :: l2) (length l1) kd = l1 ++ mkP (pv c) (psz c) kd :: l2.
Proof. intros. unfold set_kind. rewrite nth_error_app_len. apply upd_app. Qed.

Lemma pmerge_app : forall l1 c n l3,
  pmerge (l1 ++ c :: n :: l3) (length l1) =
  l1 ++ mkP (pv c) (psz c + psz n) (pkd c) :: fix_pv (psz c + psz n) l3.
Proof.
  intros. unfold pmerge. rewrite pget_app.
  replace (pget (l1 ++ c :: n :: l3) (S (length l1))) with n.
  2:{ unfold pget. replace (l1 ++ c :: n :: l3) with ((l1 ++ [c]) ++ n :: l3)
        by (rewrite <- app_assoc; reflexivity).
      replace (S (length l1)) with (length (l1 ++ [c])) by (rewrite app_length; cbn; lia).
      rewrite nth_app_len. reflexivity. }
  rewrite upd_app. cbn [psz].
  replace (l1 ++ mkP (pv c) (psz c + psz n) (pkd c) :: n :: l3)
    with ((l1 ++ [mkP (pv c) (psz c + psz n) (pkd c)]) ++ n :: l3)
    by (rewrite <- app_assoc; reflexivity).
  replace (S (S (length l1))) with (S (length (l1 ++ [mkP (pv c) (psz c + psz n) (pkd c)])))
    by (rewrite app_length; cbn; lia).
  rewrite set_pv_app_S. rewrite <- app_assoc. cbn [app].
  rewrite remove_nth_app_S. reflexivity.
Qed.

Lemma psplit_app : forall l1 c l2 nb rk,
  psplit (l1 ++ c :: l2) (length l1) nb rk =
  l1 ++ mkP (pv c) nb (pkd c) :: mkP nb (psz c - nb) rk :: fix_pv (psz c - nb) l2.
Proof.
  intros. unfold psplit. rewrite pget_app. cbn [psz].
  rewrite set_pv_app_S. rewrite upd_app. rewrite insert_nth_app_S. reflexivity.
Qed.

(* ---- links (nbytesPrev) --------------------------------------------- *)

Fixpoint links_ok (prev : Z) (ps : list piece) : Prop :=
  match ps with
  | [] => True
  | p :: t => pv p = prev /\ links_ok (psz p) t
  end.

Definition last_size (prev : Z) (l : list piece) : Z :=
  match rev l with [] => prev | p :: _ => psz p end.

Lemma last_size_app1 : forall prev l x, last_size prev (l ++ [x]) = psz x.
Proof. intros. unfold last_size. rewrite rev_app_distr. reflexivity. Qed.

Lemma last_size_nil : forall prev, last_size prev [] = prev.
Proof. reflexivity. Qed.

Lemma last_size_cons : forall prev p l, last_size prev (p :: l) = last_size (psz p) l.
Proof.
  intros prev p l. destruct (list_last_cases _ l) as [->|(l0 & x & ->)]; [reflexivity|].
  rewrite app_comm_cons. rewrite !last_size_app1. reflexivity.
Qed.

Lemma links_ok_app : forall l1 l2 prev,
  links_ok prev (l1 ++ l2) <-> links_ok prev l1 /\ links_ok (last_size prev l1) l2.
Proof.
  induction l1 as [|p l1 IH]; intros l2 prev; cbn [app links_ok].
  - rewrite last_size_nil. tauto.
  - rewrite last_size_cons. rewrite IH. tauto.
Qed.

Lemma links_ok_fix_pv : forall v l, links_ok (match l with [] => v | n :: _ => pv n end) l ->
  links_ok v (fix_pv v l).
Proof. intros v [|n r] H; cbn in *; tauto. Qed.

Lemma links_tail_fix : forall v w l, links_ok w l -> links_ok v (fix_pv v l).
Proof. intros v w [|n r] H; cbn in *; tauto. Qed.

(* ---- kinds ------------------------------------------------------------ *)

Definition kfree (p : piece) : bool := is_free (pkd p).

Fixpoint no_adj_free (ps : list piece) : Prop :=
  match ps with
  | p :: ((q :: _) as t) => (kfree p = true -> kfree q = true -> False) /\ no_adj_free t
  | _ => True
  end.

Lemma no_adj_free_app : forall l1 x l2,
  no_adj_free (l1 ++ x :: l2) <->
  no_adj_free (l1 ++ [x]) /\ no_adj_free (x :: l2).
Proof.
  induction l1 as [|p l1 IH]; intros x l2.
  - cbn. tauto.
  - destruct l1 as [|q l1].
    + cbn [app]. cbn [no_adj_free]. tauto.
    + specialize (IH x l2). cbn [app] in *. cbn [no_adj_free]. cbn [no_adj_free] in IH. tauto.
Qed.

Lemma no_adj_free_snoc : forall l x,
  no_adj_free (l ++ [x]) <->
  no_adj_free l /\ (match rev l with [] => True | p :: _ => kfree p = true -> kfree x = true -> False end).
Proof.
  induction l as [|p l IH]; intros x.
  - cbn. tauto.
  - destruct l as [|q l].
    + cbn. tauto.
    + specialize (IH x). cbn [app] in *. cbn [no_adj_free]. cbn [no_adj_free] in IH.
      assert (Hr : match rev (p :: q :: l) with [] => True | p0 :: _ => kfree p0 = true -> kfree x = true -> False end
                   <-> match rev (q :: l) with [] => True | p0 :: _ => kfree p0 = true -> kfree x = true -> False end).
      { cbn [rev]. destruct (rev l) as [|z zs]; cbn; tauto. }
      rewrite Hr. tauto.
Qed.

(* ---- the live blocks of a piece list --------------------------------- *)

Lemma mixed_live_app : forall s pg l1 l2 cur,
  mixed_live s pg (l1 ++ l2) cur = mixed_live s pg l1 cur ++ mixed_live s pg l2 (cur + psum l1).
Proof.
  induction l1 as [|p l1 IH]; intros l2 cur; cbn [app mixed_live psum].
  - rewrite Z.add_0_r. reflexivity.
  - destruct (pkd p); rewrite IH;
      replace (cur + psz p + psum l1) with (cur + (psz p + psum l1)) by lia; reflexivity.
Qed.

Lemma mixed_live_fix_pv : forall s pg v l cur,
  mixed_live s pg (fix_pv v l) cur = mixed_live s pg l cur.
Proof. intros s pg v [|n r] cur; reflexivity. Qed.

Lemma psum_fix_pv : forall v l, psum (fix_pv v l) = psum l.
Proof. intros v [|n r]; reflexivity. Qed.

Lemma pos_sizes_fix_pv : forall v l, pos_sizes l -> pos_sizes (fix_pv v l).
Proof. intros v [|n r] H; [constructor|]. inversion H; subst. constructor; assumption. Qed.
