(* Facts about the size layer of Store/Model.v.  Everything here is about the
   tables REGENERATED from store.c (Gen/StoreParams.v): the finite facts are
   closed by computation over the whole (finite, stated) domain and lifted by
   [forallb_forall]; the unbounded ones (mixed sizes, offsets) by arithmetic. *)
Require Import ZArith List Bool Lia ZifyBool.
Import ListNotations.
Require Import AV.Gen.StoreParams AV.Store.Model.
Local Open Scope Z_scope.
Ltac Zify.zify_post_hook ::= Z.div_mod_to_equations.

Definition zrange (lo : Z) (n : nat) : list Z := map (fun i => lo + Z.of_nat i) (seq 0 n).

Lemma in_zrange : forall lo n x, lo <= x < lo + Z.of_nat n -> In x (zrange lo n).
Proof.
  intros lo n x Hx. unfold zrange. apply in_map_iff.
  exists (Z.to_nat (x - lo)). split; [lia|]. apply in_seq. lia.
Qed.

(* ---- sanity of the parameters (all finite, by computation) --------- *)

Fixpoint increasing (prev : Z) (l : list Z) : bool :=
  match l with [] => true | x :: t => (prev <? x) && increasing x t end.

Definition params_check : bool :=
  (0 <? WordSize) && (WordSize =? 2 ^ LgWordSize) && (0 <=? LgWordSize)
  && (PgSize =? 2 ^ LgPgSize) && (0 <? PgSize)
  && (PgSize mod AlignMost =? 0) && (0 <? AlignMost)
  && (MixedSizeQuantum mod AlignMost =? 0) && (0 <? MixedSizeQuantum)
  && (MxMemHeadSize mod AlignMost =? 0) && (0 <? MxMemHeadSize) && (MxMemHeadSize <? MixedSizeQuantum)
  && (MxMemSize <=? MixedSizeQuantum)
  && (SectionInfoOff <=? SectionHeadSize) && (0 <? SectionInfoOff)
  && (QmInfoSize =? 1)
  && (0 <=? SplitSlack)
  && (0 <? FixedSizePgGroup) && (0 <? MixedSizePgGroup)
  && (FixedSizePgGroup * PgSize <=? DivTableLen)
  && (FixedSizeMax <=? QmSizeMax) && (MixedSizeQuantum <=? QmSizeMax)
  && (length fixedSize =? length fixedSizeLog)%nat
  && increasing 0 fixedSize
  && (last fixedSize 0 =? FixedSizeMax)
  && forallb (fun c => (c mod AlignMost =? 0) && (FxMemSize <=? c) && (c <=? FixedSizeMax)
                       && (0 <? qm_count FixedSizePgGroup c)) fixedSize
  && (QmCodeMask =? 31).

Lemma params_ok : params_check = true.
Proof. vm_compute. reflexivity. Qed.

(* ---- the size-class tables ---------------------------------------- *)

Definition class_check (n : Z) : bool :=
  let sz := fixedSizeFor n in
  let ci := fixedSizeIndexFor n in
  (n <=? sz) && (0 <? sz)
  && (0 <=? ci) && (Z.to_nat ci <? length fixedSize)%nat
  && (class_size (Z.to_nat ci) =? sz)
  && (fixedSizeIndexFor sz =? ci) && (fixedSizeFor sz =? sz)
  && forallb (fun c => negb (n <=? c) || (sz <=? c)) fixedSize.

Lemma class_check_all :
  forallb class_check (zrange 0 (Z.to_nat (FixedSizeMax + 1))) = true.
Proof. vm_compute. reflexivity. Qed.

(* fixedSizeFor[n] is the least class >= n, fixedSizeIndexFor[n] its index *)
Theorem fixed_for_spec : forall n, 0 <= n <= FixedSizeMax ->
  n <= fixedSizeFor n /\ 0 < fixedSizeFor n /\
  (Z.to_nat (fixedSizeIndexFor n) < length fixedSize)%nat /\
  class_size (Z.to_nat (fixedSizeIndexFor n)) = fixedSizeFor n /\
  fixedSizeIndexFor (fixedSizeFor n) = fixedSizeIndexFor n /\
  (forall c, In c fixedSize -> n <= c -> fixedSizeFor n <= c).
Proof.
  intros n Hn.
  pose proof class_check_all as Hall.
  rewrite forallb_forall in Hall.
  assert (Hin : In n (zrange 0 (Z.to_nat (FixedSizeMax + 1)))) by (apply in_zrange; lia).
  specialize (Hall n Hin). unfold class_check in Hall.
  rewrite !andb_true_iff in Hall.
  destruct Hall as (((((((H1 & H2) & H3) & H4) & H5) & H6) & H7) & H8).
  apply Nat.ltb_lt in H4.
  rewrite forallb_forall in H8.
  repeat split; try lia.
  intros c Hc Hnc. specialize (H8 c Hc). lia.
Qed.

Example fixed_for_boundaries :
  map fixedSizeFor [1; 8; 9; 16; 17; 24; 25; 33; 255; 256] = [8; 8; 16; 16; 24; 24; 32; 48; 256; 256].
Proof. vm_compute. reflexivity. Qed.

Lemma class_size_in : forall c, (c < length fixedSize)%nat -> In (class_size c) fixedSize.
Proof. intros c Hc. unfold class_size. apply nth_In. exact Hc. Qed.

Definition per_class_check (c : Z) : bool :=
  (c mod AlignMost =? 0) && (FxMemSize <=? c) && (c <=? FixedSizeMax) && (0 <? c)
  && (0 <? qm_count FixedSizePgGroup c).

Lemma per_class_all : forall c, In c fixedSize ->
  c mod AlignMost = 0 /\ FxMemSize <= c /\ c <= FixedSizeMax /\ 0 < c /\ 0 < qm_count FixedSizePgGroup c.
Proof.
  assert (H : forallb per_class_check fixedSize = true) by (vm_compute; reflexivity).
  rewrite forallb_forall in H. intros c Hc. specialize (H c Hc). unfold per_class_check in H.
  rewrite !andb_true_iff in H. destruct H as ((((H1 & H2) & H3) & H4) & H5).
  apply Z.eqb_eq in H1. apply Z.leb_le in H2, H3. apply Z.ltb_lt in H4, H5.
  repeat split; assumption.
Qed.

(* ---- rounding ------------------------------------------------------ *)

Lemma round_up_spec : forall n d, 0 < d -> n <= round_up n d < n + d /\ round_up n d mod d = 0.
Proof.
  intros n d Hd. unfold round_up.
  pose proof (Z.mod_pos_bound n d Hd) as Hb.
  pose proof (Z.div_mod n d ltac:(lia)) as Hdm.
  destruct (n mod d =? 0) eqn:E.
  - apply Z.eqb_eq in E. split; [lia | exact E].
  - apply Z.eqb_neq in E. split; [lia|].
    replace (n + d - n mod d) with ((n / d + 1) * d) by nia.
    apply Z.mod_mul. lia.
Qed.

Lemma quo_round_up_spec : forall n d, 0 < d -> 0 <= n ->
  n <= quo_round_up n d * d < n + d.
Proof.
  intros n d Hd Hn. unfold quo_round_up.
  pose proof (Z.mod_pos_bound n d Hd) as Hb.
  pose proof (Z.div_mod n d ltac:(lia)) as Hdm.
  destruct (n mod d =? 0) eqn:E.
  - apply Z.eqb_eq in E. nia.
  - apply Z.eqb_neq in E. nia.
Qed.

(* the piece handed out is at least as large as the request *)
Theorem true_size_ge : forall n, 0 < n -> n <= true_size n.
Proof.
  intros n Hn. unfold true_size.
  destruct (n <=? FixedSizeMax) eqn:E.
  - apply fixed_for_spec. lia.
  - unfold mixed_nb. pose proof (round_up_spec (n + MxMemHeadSize) MixedSizeQuantum).
    unfold MixedSizeQuantum, MxMemHeadSize in *. lia.
Qed.

Lemma mixed_nb_spec : forall n, 0 < n ->
  n + MxMemHeadSize <= mixed_nb n /\ mixed_nb n mod MixedSizeQuantum = 0 /\ 0 < mixed_nb n.
Proof.
  intros n Hn. unfold mixed_nb.
  pose proof (round_up_spec (n + MxMemHeadSize) MixedSizeQuantum).
  unfold MixedSizeQuantum, MxMemHeadSize in *. lia.
Qed.

Theorem true_size_aligned : forall n, 0 < n -> true_size n mod AlignMost = 0.
Proof.
  intros n Hn. unfold true_size.
  destruct (n <=? FixedSizeMax) eqn:E.
  - destruct (fixed_for_spec n) as (_ & _ & Hlt & Hcs & _); [lia|].
    rewrite <- Hcs. apply per_class_all. apply class_size_in. exact Hlt.
  - pose proof (mixed_nb_spec n Hn) as (_ & Hm & _).
    unfold MixedSizeQuantum, MxMemHeadSize, AlignMost in *. lia.
Qed.

(* ---- section layout ------------------------------------------------- *)

Lemma qm_count_nonneg : forall pages sz, 0 < pages -> 0 < sz -> 0 <= qm_count pages sz.
Proof.
  intros pages sz Hp Hs. unfold qm_count. apply Z.div_pos.
  - unfold PgSize, SectionHeadSize. lia.
  - unfold QmInfoSize. lia.
Qed.

(* the info[] array (one QmInfo per quantum, starting at offsetof(Section,info))
   ends before the data area starts, and the data area ends with the last page *)
Theorem info_fits : forall pages sz, 0 < pages -> 0 < sz ->
  SectionInfoOff + qm_count pages sz * QmInfoSize <= data_off pages sz /\
  data_off pages sz + qm_count pages sz * sz = pages * PgSize.
Proof.
  intros pages sz Hp Hs. unfold data_off. split; [|lia].
  pose proof (qm_count_nonneg pages sz Hp Hs) as Hq.
  unfold qm_count in *.
  set (X := pages * PgSize - SectionHeadSize) in *.
  assert (Hm : (sz + QmInfoSize) * (X / (sz + QmInfoSize)) <= X).
  { apply Z.mul_div_le. unfold QmInfoSize. lia. }
  set (q := X / (sz + QmInfoSize)) in *.
  unfold QmInfoSize, SectionInfoOff, SectionHeadSize in *. nia.
Qed.

Lemma divide_mod : forall a b, 0 < b -> (b | a) -> a mod b = 0.
Proof. intros a b Hb [k ->]. apply Z.mod_mul. lia. Qed.

Lemma mod_divide' : forall a b, 0 < b -> a mod b = 0 -> (b | a).
Proof. intros a b Hb H. apply Z.mod_divide; lia. Qed.

(* every quantum of a section whose quantum size is a multiple of the
   alignment starts at an aligned offset from the (page-aligned) section *)
Theorem quantum_aligned : forall pages sz i,
  sz mod AlignMost = 0 -> (data_off pages sz + i * sz) mod AlignMost = 0.
Proof.
  intros pages sz i Hsz.
  assert (HA : 0 < AlignMost) by (unfold AlignMost; lia).
  apply divide_mod; [exact HA|].
  apply mod_divide' in Hsz; [|exact HA].
  assert (HP : (AlignMost | PgSize)) by (apply mod_divide'; [exact HA| vm_compute; reflexivity]).
  unfold data_off.
  apply Z.divide_add_r; [apply Z.divide_sub_r|].
  - apply Z.divide_mul_r. exact HP.
  - apply Z.divide_mul_r. exact Hsz.
  - apply Z.divide_mul_r. exact Hsz.
Qed.

Theorem fixed_block_aligned : forall n i, 0 <= n <= FixedSizeMax ->
  (fdata_off (fixedSizeFor n) + i * fixedSizeFor n) mod AlignMost = 0.
Proof.
  intros n i Hn. apply quantum_aligned.
  destruct (fixed_for_spec n Hn) as (_ & _ & Hlt & Hcs & _).
  rewrite <- Hcs. apply per_class_all. apply class_size_in. exact Hlt.
Qed.

Theorem mixed_block_aligned : forall pages po,
  po mod MixedSizeQuantum = 0 -> (mdata_off pages + po + MxMemHeadSize) mod AlignMost = 0.
Proof.
  intros pages po Hpo.
  pose proof (quantum_aligned pages MixedSizeQuantum 0) as H0.
  unfold mdata_off. unfold MixedSizeQuantum, MxMemHeadSize, AlignMost in *.
  specialize (H0 eq_refl). lia.
Qed.

(* a fresh mixed section is large enough for the piece it is created for and
   its page count is representable *)
Theorem fresh_mixed_fits : forall nb, 0 < nb -> nb mod MixedSizeQuantum = 0 ->
  MixedSizePgGroup <= mixed_pages nb /\
  nb <= qm_count (mixed_pages nb) MixedSizeQuantum * MixedSizeQuantum.
Proof.
  intros nb Hnb Hq. unfold mixed_pages.
  pose proof (quo_round_up_spec nb MixedSizeQuantum) as H1.
  set (nq := quo_round_up nb MixedSizeQuantum) in *.
  pose proof (quo_round_up_spec (SectionHeadSize + nq * (QmInfoSize + MixedSizeQuantum)) PgSize) as H2.
  set (np := quo_round_up (SectionHeadSize + nq * (QmInfoSize + MixedSizeQuantum)) PgSize) in *.
  unfold qm_count.
  unfold MixedSizeQuantum, MixedSizePgGroup, SectionHeadSize, QmInfoSize, PgSize in *.
  specialize (H1 ltac:(lia) ltac:(lia)). specialize (H2 ltac:(lia) ltac:(lia)).
  destruct (np <? 2) eqn:E; split; try lia.
Qed.

(* ---- quantum index by shift / division table ------------------------ *)

Definition qm_index_check (c : nat) : bool :=
  if sect_qmlog c =? 0
  then (0 <=? sect_qmdiv c) && (sect_qmdiv c <? DivTableCount)
       && (div_table_size fixedSizeLog fixedSize (sect_qmdiv c) 0 =? class_size c)
  else (0 <? sect_qmlog c) && (class_size c =? 2 ^ sect_qmlog c).

Lemma qm_index_check_all : forallb qm_index_check (seq 0 (length fixedSize)) = true.
Proof. vm_compute. reflexivity. Qed.

(* qmLogNo / qmDivNo compute the same quantum number as qmNo (= d / qmSize):
   this is what makes an interior pointer resolve to its own piece *)
Theorem qm_index_correct : forall c d, (c < length fixedSize)%nat -> 0 <= d ->
  qm_index c d = d / class_size c.
Proof.
  intros c d Hc Hd.
  pose proof qm_index_check_all as Hall. rewrite forallb_forall in Hall.
  specialize (Hall c ltac:(apply in_seq; lia)). unfold qm_index_check in Hall.
  unfold qm_index. destruct (sect_qmlog c =? 0) eqn:E.
  - f_equal. lia.
  - rewrite Z.shiftr_div_pow2 by lia. f_equal. lia.
Qed.

Example qm_index_interior : qm_index 2%nat 100 = 4 /\ qm_index 8%nat 300 = 2.
Proof. vm_compute. split; reflexivity. Qed.

(* binary firstn *)
Lemma zfirstn_firstn : forall (A : Type) (l : list A) n, zfirstn n l = firstn (Z.to_nat n) l.
Proof.
  induction l as [|x l IH]; intros n; cbn [zfirstn].
  - destruct (Z.to_nat n); reflexivity.
  - destruct (0 <? n) eqn:E.
    + replace (Z.to_nat n) with (S (Z.to_nat (n - 1))) by lia. cbn [firstn]. f_equal. apply IH.
    + replace (Z.to_nat n) with O by lia. reflexivity.
Qed.
