(* The invariant of the store model and its preservation by every operation. *)
Require Import ZArith List Bool Lia ZifyBool.
Import ListNotations.
Require Import AV.Gen.StoreParams AV.Store.Gc AV.Store.Model AV.Store.ListFacts
        AV.Store.SizeFacts AV.Store.PieceFacts AV.Store.IndexFacts AV.Store.PutFacts.
Local Open Scope Z_scope.
Ltac Zify.zify_post_hook ::= Z.div_mod_to_equations.

Definition nclasses : nat := length fixedSize.

(* ---- the invariant ---------------------------------------------------- *)

Record ps_ok (pg : Z) (ps : list piece) : Prop := {
  pso_sizes : quant_sizes ps;
  pso_sum : psum ps = qm_count pg MixedSizeQuantum * MixedSizeQuantum;
  pso_links : links_ok 0 ps;
  pso_noadj : no_adj_free ps;
  pso_ne : ps <> []
}.

Definition sect_ok (x : sect) : Prop :=
  match x with
  | SFixed b qsz c qs =>
      (c < nclasses)%nat /\ qsz = class_size c /\
      length qs = Z.to_nat (qm_count FixedSizePgGroup qsz)
  | SMixed b pg ps => 0 < pg /\ ps_ok pg ps
  | SDead => True
  end.

(* piece x (section, offset of the header in the data area) is free with size k *)
Definition free_at (t : st) (x : loc) (k : Z) : Prop :=
  match get_sect t (fst x) with
  | SMixed _ _ ps => In (k, snd x) (fview ps 0)
  | _ => False
  end.

Definition front_at (t : st) (x : loc) : Prop :=
  match get_sect t (fst x) with
  | SMixed _ _ ps => In (snd x) (frview ps 0)
  | _ => False
  end.

(* quantum x = (section, number) is a free quantum of a class-c section *)
Definition fq (t : st) (c : nat) (x : nat * nat) : Prop :=
  match get_sect t (fst x) with
  | SFixed _ _ c' qs => c' = c /\ nth_error qs (snd x) = Some QFree
  | _ => False
  end.

(* [hole]: one mixed piece that is in transit (being put into the index) *)
Record InvH (t : st) (hole : option loc) : Prop := {
  ih_flen : length (flist t) = nclasses;
  ih_sect : forall s, sect_ok (get_sect t s);
  ih_fl_sound : forall c x, In x (nth c (flist t) []) -> fq t c x;
  ih_fl_nodup : forall c, NoDup (nth c (flist t) []);
  ih_fl_complete : forall c x, fq t c x -> In x (nth c (flist t) []);
  ih_keys : keys_above 0 (index t);
  ih_noempty : no_empty (index t);
  ih_ix_nodup : forall k, NoDup (ilookup k (index t));
  ih_ix_sound : forall k x, In x (ilookup k (index t)) -> free_at t x k /\ Some x <> hole;
  ih_ix_complete : forall k x, free_at t x k -> Some x <> hole -> In x (ilookup k (index t));
  ih_front_sound : forall x, front t = Some x -> front_at t x /\ Some x <> hole;
  ih_front_complete : forall x, front_at t x -> Some x <> hole -> front t = Some x
}.

Definition Inv (t : st) : Prop := InvH t None.

(* ---- sections ---------------------------------------------------------- *)

Lemma get_sect_upd_same : forall t s x, (s < length (sects t))%nat ->
  nth s (upd s x (sects t)) SDead = x.
Proof. intros. apply nth_upd_same. assumption. Qed.

Lemma get_sect_in_range : forall t s, get_sect t s <> SDead -> (s < length (sects t))%nat.
Proof.
  intros t s H. unfold get_sect in H. destruct (Nat.lt_ge_cases s (length (sects t))); [assumption|].
  rewrite nth_overflow in H by assumption. congruence.
Qed.

Lemma get_sect_mk_upd : forall t s x fl ix fr s',
  (s < length (sects t))%nat ->
  get_sect (mkSt (upd s x (sects t)) fl ix fr) s' = if Nat.eqb s s' then x else get_sect t s'.
Proof.
  intros. unfold get_sect. cbn [sects]. destruct (Nat.eqb s s') eqn:E.
  - apply Nat.eqb_eq in E. subst. apply nth_upd_same. assumption.
  - apply Nat.eqb_neq in E. apply nth_upd_other. assumption.
Qed.

Lemma get_sect_mk_app : forall t x fl ix fr s',
  get_sect (mkSt (sects t ++ [x]) fl ix fr) s' =
  if Nat.eqb (length (sects t)) s' then x else get_sect t s'.
Proof.
  intros. unfold get_sect. cbn [sects]. destruct (Nat.eqb (length (sects t)) s') eqn:E.
  - apply Nat.eqb_eq in E. subst. rewrite app_nth2 by lia. rewrite Nat.sub_diag. reflexivity.
  - apply Nat.eqb_neq in E. destruct (Nat.lt_ge_cases s' (length (sects t))).
    + apply app_nth1. assumption.
    + rewrite !nth_overflow; [reflexivity | lia | rewrite app_length; cbn; lia].
Qed.

Lemma get_sect_fresh_dead : forall t, get_sect t (length (sects t)) = SDead.
Proof. intros. unfold get_sect. apply nth_overflow. lia. Qed.

(* ---- piecePutMixed keeps the invariant -------------------------------- *)

Lemma put_mixed_st_eq : forall t s b pg l1 mi l2,
  get_sect t s = SMixed b pg (l1 ++ mi :: l2) ->
  links_ok 0 (l1 ++ mi :: l2) -> pos_sizes l1 ->
  put_mixed_st t s (length l1) =
  mkSt (upd s (SMixed b pg (put_ps l1 mi l2)) (sects t)) (flist t)
       (put_ix (loc_abs t) s l1 mi l2 (index t)) (front t).
Proof.
  intros t s b pg l1 mi l2 Hs Hl Hp. unfold put_mixed_st. rewrite Hs.
  rewrite put_mixed_spec by assumption. reflexivity.
Qed.

Lemma put_ix_in : forall abs s l1 mi l2 ix k x,
  keys_above 0 ix -> (forall k, NoDup (ilookup k ix)) ->
  (In x (ilookup k (put_ix abs s l1 mi l2 ix)) <->
   (k = put_total l1 mi l2 /\ x = (s, psum (put_l0 l1))) \/
   (In x (ilookup k ix)
    /\ ~ (head_free l2 = true /\ k = put_szn l2 /\ x = (s, psum l1 + psz mi))
    /\ ~ (last_free l1 = true /\ k = put_szp l1 /\ x = (s, psum (put_l0 l1))))).
Proof.
  intros abs s l1 mi l2 ix k x Hk Hnd. unfold put_ix.
  set (ix1 := if head_free l2 then idx_unlink (put_szn l2) (s, psum l1 + psz mi) ix else ix).
  set (ix2 := if last_free l1 then idx_unlink (put_szp l1) (s, psum (put_l0 l1)) ix1 else ix1).
  assert (Hk1 : keys_above 0 ix1) by (subst ix1; destruct (head_free l2); [apply unlink_keys|]; assumption).
  assert (Hnd1 : forall k, NoDup (ilookup k ix1))
    by (subst ix1; destruct (head_free l2); [eapply unlink_nodup; eassumption | assumption]).
  assert (Hk2 : keys_above 0 ix2) by (subst ix2; destruct (last_free l1); [apply unlink_keys|]; assumption).
  rewrite (link_in abs ix2 _ _ k x 0 Hk2).
  assert (H2 : In x (ilookup k ix2) <->
               In x (ilookup k ix1) /\ ~ (last_free l1 = true /\ k = put_szp l1 /\ x = (s, psum (put_l0 l1)))).
  { subst ix2. destruct (last_free l1).
    - rewrite (unlink_in ix1 _ _ k x 0 Hk1 Hnd1). intuition.
    - intuition congruence. }
  assert (H1 : In x (ilookup k ix1) <->
               In x (ilookup k ix) /\ ~ (head_free l2 = true /\ k = put_szn l2 /\ x = (s, psum l1 + psz mi))).
  { subst ix1. destruct (head_free l2).
    - rewrite (unlink_in ix _ _ k x 0 Hk Hnd). intuition.
    - intuition congruence. }
  rewrite H2, H1. tauto.
Qed.

Lemma put_ix_wf : forall abs s l1 mi l2 ix,
  keys_above 0 ix -> no_empty ix -> 0 < put_total l1 mi l2 ->
  keys_above 0 (put_ix abs s l1 mi l2 ix) /\ no_empty (put_ix abs s l1 mi l2 ix).
Proof.
  intros abs s l1 mi l2 ix Hk Hne Htot. unfold put_ix.
  set (ix1 := if head_free l2 then idx_unlink (put_szn l2) (s, psum l1 + psz mi) ix else ix).
  set (ix2 := if last_free l1 then idx_unlink (put_szp l1) (s, psum (put_l0 l1)) ix1 else ix1).
  assert (Hk1 : keys_above 0 ix1) by (subst ix1; destruct (head_free l2); [apply unlink_keys|]; assumption).
  assert (Hn1 : no_empty ix1)
    by (subst ix1; destruct (head_free l2); [eapply unlink_no_empty; eassumption | assumption]).
  assert (Hk2 : keys_above 0 ix2) by (subst ix2; destruct (last_free l1); [apply unlink_keys|]; assumption).
  assert (Hn2 : no_empty ix2)
    by (subst ix2; destruct (last_free l1); [eapply unlink_no_empty; eassumption | assumption]).
  split; [apply link_keys_above; assumption | apply link_no_empty; assumption].
Qed.

Lemma put_ix_nodup : forall abs s l1 mi l2 ix,
  keys_above 0 ix -> (forall k, NoDup (ilookup k ix)) ->
  ~ (In (s, psum (put_l0 l1)) (ilookup (put_total l1 mi l2) ix)
     /\ ~ (last_free l1 = true /\ put_total l1 mi l2 = put_szp l1)) ->
  forall k, NoDup (ilookup k (put_ix abs s l1 mi l2 ix)).
Proof.
  intros abs s l1 mi l2 ix Hk Hnd Hx. unfold put_ix.
  set (ix1 := if head_free l2 then idx_unlink (put_szn l2) (s, psum l1 + psz mi) ix else ix).
  set (ix2 := if last_free l1 then idx_unlink (put_szp l1) (s, psum (put_l0 l1)) ix1 else ix1).
  assert (Hk1 : keys_above 0 ix1) by (subst ix1; destruct (head_free l2); [apply unlink_keys|]; assumption).
  assert (Hnd1 : forall k, NoDup (ilookup k ix1))
    by (subst ix1; destruct (head_free l2); [eapply unlink_nodup; eassumption | assumption]).
  assert (Hk2 : keys_above 0 ix2) by (subst ix2; destruct (last_free l1); [apply unlink_keys|]; assumption).
  assert (Hnd2 : forall k, NoDup (ilookup k ix2))
    by (subst ix2; destruct (last_free l1); [eapply unlink_nodup; eassumption | assumption]).
  apply (link_nodup abs ix2 _ _ 0 Hk2); [|assumption].
  intros Hin. apply Hx.
  assert (H1 : In (s, psum (put_l0 l1)) (ilookup (put_total l1 mi l2) ix1)
               /\ ~ (last_free l1 = true /\ put_total l1 mi l2 = put_szp l1)).
  { subst ix2. destruct (last_free l1).
    - rewrite (unlink_in ix1 _ _ _ _ 0 Hk1 Hnd1) in Hin. destruct Hin as [Hin Hn].
      split; [assumption|]. intros [_ He]. apply Hn. split; [assumption | reflexivity].
    - split; [assumption|]. intros [? _]. discriminate. }
  destruct H1 as [H1 H1']. split; [|assumption].
  subst ix1. destruct (head_free l2); [|assumption].
  rewrite (unlink_in ix _ _ _ _ 0 Hk Hnd) in H1. tauto.
Qed.

Lemma put_mixed_st_inv : forall t s b pg l1 mi l2,
  InvH t (Some (s, psum l1)) ->
  get_sect t s = SMixed b pg (l1 ++ mi :: l2) ->
  Inv (put_mixed_st t s (length l1)).
Proof.
  intros t s b pg l1 mi l2 HI Hs.
  pose proof (ih_sect _ _ HI s) as Hok. rewrite Hs in Hok. cbn [sect_ok] in Hok. destruct Hok as [Hpg Hps].
  destruct Hps as [Hq Hsum Hlinks Hnoadj Hne].
  pose proof Hq as Hq'. apply quant_sizes_app in Hq'. destruct Hq' as [Hq1 Hq2].
  inversion Hq2 as [|? ? [Hmipos _] Hq2']; subst.
  pose proof (quant_pos _ Hq1) as Hpos1.
  rewrite (put_mixed_st_eq t s b pg l1 mi l2 Hs Hlinks Hpos1).
  assert (Hrange : (s < length (sects t))%nat) by (apply get_sect_in_range; rewrite Hs; discriminate).
  set (t' := mkSt _ _ _ _).
  assert (Hget : forall s', get_sect t' s' = if Nat.eqb s s' then SMixed b pg (put_ps l1 mi l2) else get_sect t s')
    by (intros; apply get_sect_mk_upd; assumption).
  pose proof (put_total_pos l1 mi l2 Hq) as Htot.
  pose proof (put_szp_nonneg l1 Hq1) as Hszp. pose proof (put_szn_nonneg l2 Hq2') as Hszn.
  pose proof (psum_l1 l1) as El1.
  assert (Hfq : forall c x, fq t' c x <-> fq t c x).
  { intros c x. unfold fq. rewrite Hget. destruct (Nat.eqb s (fst x)) eqn:E; [|tauto].
    apply Nat.eqb_eq in E. rewrite <- E, Hs. tauto. }
  assert (Hfree_other : forall x k, fst x <> s -> (free_at t' x k <-> free_at t x k)).
  { intros x k Hx. unfold free_at. rewrite Hget. destruct (Nat.eqb s (fst x)) eqn:E; [|tauto].
    apply Nat.eqb_eq in E. congruence. }
  assert (Hfree_s : forall o k, free_at t' (s, o) k <-> In (k, o) (fview (put_ps l1 mi l2) 0)).
  { intros o k. unfold free_at. cbn [fst snd]. rewrite Hget, Nat.eqb_refl. tauto. }
  assert (Hfree_s0 : forall o k, free_at t (s, o) k <-> In (k, o) (fview (l1 ++ mi :: l2) 0)).
  { intros o k. unfold free_at. cbn [fst snd]. rewrite Hs. tauto. }
  assert (Hfront_other : forall x, fst x <> s -> (front_at t' x <-> front_at t x)).
  { intros x Hx. unfold front_at. rewrite Hget. destruct (Nat.eqb s (fst x)) eqn:E; [|tauto].
    apply Nat.eqb_eq in E. congruence. }
  assert (Hfront_s : forall o, front_at t' (s, o) <-> In o (frview (put_ps l1 mi l2) 0)).
  { intros o. unfold front_at. cbn [fst snd]. rewrite Hget, Nat.eqb_refl. tauto. }
  assert (Hfront_s0 : forall o, front_at t (s, o) <-> In o (frview (l1 ++ mi :: l2) 0)).
  { intros o. unfold front_at. cbn [fst snd]. rewrite Hs. tauto. }
  pose proof (ih_keys _ _ HI) as Hk. pose proof (ih_noempty _ _ HI) as Hnem.
  pose proof (ih_ix_nodup _ _ HI) as Hnd.
  constructor; cbn [flist index front sects t'].
  - apply (ih_flen _ _ HI).
  - intros s'. rewrite Hget. destruct (Nat.eqb s s').
    + cbn. split; [assumption|]. constructor.
      * apply put_ps_quant. assumption.
      * rewrite put_ps_psum. assumption.
      * apply links_put_ps. assumption.
      * apply no_adj_put_ps. assumption.
      * apply put_ps_nonempty.
    + apply (ih_sect _ _ HI).
  - intros c x Hx. apply Hfq. apply (ih_fl_sound _ _ HI). assumption.
  - apply (ih_fl_nodup _ _ HI).
  - intros c x Hx. apply (ih_fl_complete _ _ HI). apply Hfq. assumption.
  - apply put_ix_wf; assumption.
  - apply put_ix_wf; assumption.
  - apply put_ix_nodup; try assumption.
    intros [Hin Hn].
    destruct (ih_ix_sound _ _ HI _ _ Hin) as [Hfa Hhole].
    apply Hfree_s0 in Hfa.
    destruct (fview_in_range l1 mi l2 _ _ Hq Hfa ltac:(unfold put_total in *; lia)) as [(E1 & E2 & E3)|[(E1 & E2 & E3)|(E1 & E2 & E3)]].
    + apply Hn. split; assumption.
    + apply Hhole. rewrite E3. reflexivity.
    + lia.
  - (* sound *)
    intros k x Hin. split; [|discriminate].
    apply put_ix_in in Hin; [|assumption|assumption].
    destruct Hin as [[-> ->]|(Hin & HnN & HnP)].
    + apply Hfree_s. apply fview_put_iff; [assumption|]. left. reflexivity.
    + destruct (ih_ix_sound _ _ HI _ _ Hin) as [Hfa Hhole].
      destruct x as [sx o]. destruct (Nat.eq_dec sx s) as [->|Hne'].
      * apply Hfree_s. apply fview_put_iff; [assumption|]. right.
        apply Hfree_s0 in Hfa. split; [assumption|]. intros Hr.
        destruct (fview_in_range l1 mi l2 _ _ Hq Hfa Hr) as [(E1 & E2 & E3)|[(E1 & E2 & E3)|(E1 & E2 & E3)]].
        -- apply HnP. subst. auto.
        -- apply Hhole. subst. reflexivity.
        -- apply HnN. subst. auto.
      * apply Hfree_other; [cbn; assumption | assumption].
  - (* complete *)
    intros k x Hfa _. apply put_ix_in; [assumption|assumption|].
    destruct x as [sx o]. destruct (Nat.eq_dec sx s) as [->|Hne'].
    + apply Hfree_s in Hfa. apply fview_put_iff in Hfa; [|assumption].
      destruct Hfa as [Heq|[Hfa Hr]].
      * left. inversion Heq; subst. auto.
      * right. split; [|split].
        -- apply (ih_ix_complete _ _ HI). { apply Hfree_s0. assumption. }
           intros Heq. inversion Heq; subst. apply Hr. unfold put_total in *. lia.
        -- intros (E1 & E2 & E3). inversion E3; subst. apply Hr.
           pose proof (put_szn_pos l2 Hq2' E1). unfold put_total in *. lia.
        -- intros (E1 & E2 & E3). inversion E3; subst. apply Hr. unfold put_total in *. lia.
    + right. split; [|split].
      * apply (ih_ix_complete _ _ HI). { apply Hfree_other in Hfa; [assumption | cbn; assumption]. }
        intros Heq. inversion Heq. congruence.
      * intros (_ & _ & E3). inversion E3. congruence.
      * intros (_ & _ & E3). inversion E3. congruence.
  - (* front sound *)
    intros x Hx. split; [|discriminate].
    destruct (ih_front_sound _ _ HI _ Hx) as [Hfa Hhole].
    destruct x as [sx o]. destruct (Nat.eq_dec sx s) as [->|Hne'].
    + apply Hfront_s. apply frview_put_iff; [assumption|]. apply Hfront_s0 in Hfa.
      split; [assumption|]. intros ->. apply Hhole. reflexivity.
    + apply Hfront_other; [cbn; assumption | assumption].
  - (* front complete *)
    intros x Hfa _. apply (ih_front_complete _ _ HI).
    + destruct x as [sx o]. destruct (Nat.eq_dec sx s) as [->|Hne'].
      * apply Hfront_s in Hfa. apply frview_put_iff in Hfa; [|assumption]. apply Hfront_s0. tauto.
      * apply Hfront_other in Hfa; [assumption | cbn; assumption].
    + destruct x as [sx o]. destruct (Nat.eq_dec sx s) as [->|Hne'].
      * apply Hfront_s in Hfa. apply frview_put_iff in Hfa; [|assumption]. intros Heq. inversion Heq. tauto.
      * intros Heq. inversion Heq. congruence.
Qed.

(* ---- replacing a section by one with the same views -------------------- *)

Definition sfview (x : sect) : list (Z * Z) :=
  match x with SMixed _ _ ps => fview ps 0 | _ => [] end.
Definition sfrview (x : sect) : list Z :=
  match x with SMixed _ _ ps => frview ps 0 | _ => [] end.
Definition sfq (x : sect) (c i : nat) : Prop :=
  match x with SFixed _ _ c' qs => c' = c /\ nth_error qs i = Some QFree | _ => False end.

Lemma free_at_eq : forall t x k, free_at t x k <-> In (k, snd x) (sfview (get_sect t (fst x))).
Proof. intros. unfold free_at, sfview. destruct (get_sect t (fst x)); cbn; tauto. Qed.

Lemma front_at_eq : forall t x, front_at t x <-> In (snd x) (sfrview (get_sect t (fst x))).
Proof. intros. unfold front_at, sfrview. destruct (get_sect t (fst x)); cbn; tauto. Qed.

Lemma fq_eq : forall t c x, fq t c x <-> sfq (get_sect t (fst x)) c (snd x).
Proof. intros. unfold fq, sfq. destruct (get_sect t (fst x)); tauto. Qed.

Lemma inv_set_sect : forall t h s x',
  InvH t h -> (s < length (sects t))%nat -> sect_ok x' ->
  sfview x' = sfview (get_sect t s) -> sfrview x' = sfrview (get_sect t s) ->
  (forall c i, sfq x' c i <-> sfq (get_sect t s) c i) ->
  InvH (set_sect t s x') h.
Proof.
  intros t h s x' HI Hr Hok Hv Hfr Hq.
  assert (Hget : forall s', get_sect (set_sect t s x') s' = if Nat.eqb s s' then x' else get_sect t s')
    by (intros; unfold set_sect; apply get_sect_mk_upd; assumption).
  assert (Hfa : forall x k, free_at (set_sect t s x') x k <-> free_at t x k).
  { intros x k. rewrite !free_at_eq, Hget. destruct (Nat.eqb s (fst x)) eqn:E; [|tauto].
    apply Nat.eqb_eq in E. subst. rewrite Hv. tauto. }
  assert (Hfra : forall x, front_at (set_sect t s x') x <-> front_at t x).
  { intros x. rewrite !front_at_eq, Hget. destruct (Nat.eqb s (fst x)) eqn:E; [|tauto].
    apply Nat.eqb_eq in E. subst. rewrite Hfr. tauto. }
  assert (Hfq : forall c x, fq (set_sect t s x') c x <-> fq t c x).
  { intros c x. rewrite !fq_eq, Hget. destruct (Nat.eqb s (fst x)) eqn:E; [|tauto].
    apply Nat.eqb_eq in E. subst. apply Hq. }
  constructor; cbn [set_sect flist index front].
  - apply (ih_flen _ _ HI).
  - intros s'. rewrite Hget. destruct (Nat.eqb s s'); [assumption | apply (ih_sect _ _ HI)].
  - intros c x Hx. apply Hfq. apply (ih_fl_sound _ _ HI). assumption.
  - apply (ih_fl_nodup _ _ HI).
  - intros c x Hx. apply (ih_fl_complete _ _ HI). apply Hfq. assumption.
  - apply (ih_keys _ _ HI).
  - apply (ih_noempty _ _ HI).
  - apply (ih_ix_nodup _ _ HI).
  - intros k x Hin. destruct (ih_ix_sound _ _ HI _ _ Hin). split; [apply Hfa|]; assumption.
  - intros k x Hx Hh. apply (ih_ix_complete _ _ HI); [apply Hfa|]; assumption.
  - intros x Hx. destruct (ih_front_sound _ _ HI _ Hx). split; [apply Hfra|]; assumption.
  - intros x Hx Hh. apply (ih_front_complete _ _ HI); [apply Hfra|]; assumption.
Qed.

(* ---- lookup of a block -------------------------------------------------- *)

Lemma lookup_fix : forall t a s i b, lookup t a = Some (BFix s i, b) ->
  exists bs qsz c qs, get_sect t s = SFixed bs qsz c qs /\ nth_error qs i = Some (QBusy b) /\
                      s = fst a /\ 0 < qsz /\ snd a = fdata_off qsz + Z.of_nat i * qsz.
Proof.
  intros t a s i b H. unfold lookup in H.
  destruct (get_sect t (fst a)) as [bs qsz c qs|bs pg ps|] eqn:Es; try discriminate.
  - destruct ((0 <=? snd a - fdata_off qsz) && (0 <? qsz) && ((snd a - fdata_off qsz) mod qsz =? 0)) eqn:Eg;
      [|discriminate].
    destruct (nth_error qs (Z.to_nat ((snd a - fdata_off qsz) / qsz))) as [[|b']|] eqn:En; try discriminate.
    inversion H; subst. exists bs, qsz, c, qs. repeat split; try assumption; try lia.
  - destruct (pfind ps 0 (snd a - mdata_off pg - MxMemHeadSize) 0) as [k|]; [|discriminate].
    destruct (pkd (pget ps k)); discriminate.
Qed.

Lemma lookup_mix : forall t a s k b, lookup t a = Some (BMix s k, b) ->
  exists bs pg l1 p l2, get_sect t s = SMixed bs pg (l1 ++ p :: l2) /\ k = length l1 /\
                        pkd p = KBusy b /\ s = fst a /\ snd a = mdata_off pg + psum l1 + MxMemHeadSize.
Proof.
  intros t a s k b H. unfold lookup in H.
  destruct (get_sect t (fst a)) as [bs qsz c qs|bs pg ps|] eqn:Es; try discriminate.
  - destruct ((0 <=? snd a - fdata_off qsz) && (0 <? qsz) && ((snd a - fdata_off qsz) mod qsz =? 0));
      [|discriminate].
    destruct (nth_error qs (Z.to_nat ((snd a - fdata_off qsz) / qsz))) as [[|b']|]; discriminate.
  - destruct (pfind ps 0 (snd a - mdata_off pg - MxMemHeadSize) 0) as [k'|] eqn:Ef; [|discriminate].
    destruct (pkd (pget ps k')) eqn:Ek; try discriminate. inversion H; subst.
    apply pfind_sound in Ef. destruct Ef as (l1 & p & l2 & -> & -> & Hoff).
    cbn [Nat.add] in *. rewrite pget_app in Ek.
    exists bs, pg, l1, p, l2. repeat split; auto. lia.
Qed.

(* ---- stoRecode and the owner's writes ----------------------------------- *)

Lemma set_binfo_inv : forall t a r b b' h, InvH t h -> lookup t a = Some (r, b) -> InvH (set_binfo t r b') h.
Proof.
  intros t a r b b' h HI Hl. destruct r as [s i|s k].
  - destruct (lookup_fix _ _ _ _ _ Hl) as (bs & qsz & c & qs & Hs & Hn & _).
    unfold set_binfo. rewrite Hs.
    assert (Hr : (s < length (sects t))%nat) by (apply get_sect_in_range; rewrite Hs; discriminate).
    apply inv_set_sect; try assumption.
    + pose proof (ih_sect _ _ HI s) as Hok. rewrite Hs in Hok. cbn in *.
      rewrite upd_length. assumption.
    + rewrite Hs. reflexivity.
    + rewrite Hs. reflexivity.
    + intros c' j. rewrite Hs. cbn. destruct (Nat.eq_dec i j) as [->|Hne].
      * rewrite upd_nth_error_same by (apply nth_error_Some; congruence). rewrite Hn.
        split; intros [_ H]; discriminate.
      * rewrite upd_nth_error_other by assumption. tauto.
  - destruct (lookup_mix _ _ _ _ _ Hl) as (bs & pg & l1 & p & l2 & Hs & -> & Hk & _).
    unfold set_binfo. rewrite Hs.
    assert (Hr : (s < length (sects t))%nat) by (apply get_sect_in_range; rewrite Hs; discriminate).
    rewrite set_kind_app.
    pose proof (ih_sect _ _ HI s) as Hok. rewrite Hs in Hok. cbn [sect_ok] in Hok. destruct Hok as [Hpg Hps].
    destruct Hps as [Hq Hsum Hlinks Hnoadj Hne].
    apply inv_set_sect; try assumption.
    + cbn. split; [assumption|]. constructor.
      * apply quant_sizes_app in Hq. destruct Hq as [Hq1 Hq2]. apply quant_sizes_app. split; [assumption|].
        inversion Hq2; subst. constructor; assumption.
      * rewrite psum_app in *. cbn [psum psz] in *. assumption.
      * apply links_ok_app in Hlinks. apply links_ok_app. cbn [links_ok pv psz] in *. assumption.
      * apply no_adj_free_app in Hnoadj. apply no_adj_free_app.
        assert (Hkf : kfree (mkP (pv p) (psz p) (KBusy b')) = kfree p)
          by (unfold kfree; cbn; rewrite Hk; reflexivity).
        destruct Hnoadj as [H1 H2]. split.
        -- apply no_adj_free_snoc in H1. apply no_adj_free_snoc. rewrite Hkf. assumption.
        -- destruct l2 as [|q l2]; [exact I|]. cbn [no_adj_free] in *. rewrite Hkf. assumption.
      * destruct l1; discriminate.
    + rewrite Hs. cbn. rewrite !fview_app. cbn [fview psz]. unfold kfree. cbn [pkd]. rewrite Hk. reflexivity.
    + rewrite Hs. cbn. rewrite !frview_app. cbn [frview psz]. unfold kfront. cbn [pkd]. rewrite Hk. reflexivity.
    + intros c i. rewrite Hs. cbn. tauto.
Qed.

(* ---- a busy piece can be taken as the hole ------------------------------ *)

Lemma invh_hole_busy : forall t s bs pg l1 mi l2,
  Inv t -> get_sect t s = SMixed bs pg (l1 ++ mi :: l2) ->
  kfree mi = false -> kfront mi = false -> InvH t (Some (s, psum l1)).
Proof.
  intros t s bs pg l1 mi l2 HI Hs Hf Hfr.
  pose proof (ih_sect _ _ HI s) as Hok. rewrite Hs in Hok. cbn [sect_ok] in Hok. destruct Hok as [Hpg Hps].
  pose proof (quant_pos _ (pso_sizes _ _ Hps)) as Hpos.
  destruct HI. constructor; try assumption.
  - intros k x Hin. destruct (ih_ix_sound0 _ _ Hin) as [Hfa _]. split; [assumption|].
    intros Heq. inversion Heq; subst. unfold free_at in Hfa. cbn [fst snd] in Hfa. rewrite Hs in Hfa.
    apply fview_at_offset in Hfa; [|assumption]. destruct Hfa. congruence.
  - intros k x Hfa _. apply ih_ix_complete0; [assumption | discriminate].
  - intros x Hx. destruct (ih_front_sound0 _ Hx) as [Hfa _]. split; [assumption|].
    intros Heq. inversion Heq; subst. unfold front_at in Hfa. cbn [fst snd] in Hfa. rewrite Hs in Hfa.
    apply frview_at_offset in Hfa; [|assumption]. congruence.
  - intros x Hfa _. apply ih_front_complete0; [assumption | discriminate].
Qed.

Lemma qm_index_ok : forall c qsz i, (c < nclasses)%nat -> qsz = class_size c ->
  (qm_index c (Z.of_nat i * qsz) =? Z.of_nat i) = true.
Proof.
  intros c qsz i Hc ->. apply Z.eqb_eq.
  destruct (per_class_all (class_size c) (class_size_in c Hc)) as (_ & _ & _ & Hpos & _).
  rewrite qm_index_correct; [|assumption|nia].
  apply Z.div_mul. lia.
Qed.

(* ---- stoFree ------------------------------------------------------------ *)

Lemma nth_flist_upd : forall (fl : list (list (nat * nat))) c c' l, (c < length fl)%nat ->
  nth c' (upd c l fl) [] = if Nat.eqb c c' then l else nth c' fl [].
Proof.
  intros fl c c' l Hc. destruct (Nat.eqb c c') eqn:E.
  - apply Nat.eqb_eq in E. subst. apply nth_upd_same. assumption.
  - apply Nat.eqb_neq in E. apply nth_upd_other. assumption.
Qed.

Lemma free_inv : forall t a t' o, Inv t -> free t a = (t', o) -> Inv t'.
Proof.
  intros t a t' o HI Hf. unfold free in Hf.
  destruct (lookup t a) as [[[s i|s k] b]|] eqn:El.
  - (* fixed *)
    destruct (lookup_fix _ _ _ _ _ El) as (bs & qsz & c & qs & Hs & Hn & _).
    rewrite Hs in Hf.
    pose proof (ih_sect _ _ HI s) as Hok. rewrite Hs in Hok. cbn [sect_ok] in Hok. destruct Hok as (Hc & Hqsz & Hlen).
    rewrite (qm_index_ok c qsz i Hc Hqsz) in Hf. inversion Hf; subst t' o. clear Hf.
    assert (Hr : (s < length (sects t))%nat) by (apply get_sect_in_range; rewrite Hs; discriminate).
    assert (Hi : (i < length qs)%nat) by (apply nth_error_Some; congruence).
    assert (Hcl : (c < length (flist t))%nat) by (rewrite (ih_flen _ _ HI); assumption).
    set (t' := mkSt _ _ _ _).
    assert (Hget : forall s', get_sect t' s' = if Nat.eqb s s' then SFixed bs qsz c (upd i QFree qs) else get_sect t s')
      by (intros; apply get_sect_mk_upd; assumption).
    assert (Hfa : forall x k, free_at t' x k <-> free_at t x k).
    { intros x k. rewrite !free_at_eq, Hget. destruct (Nat.eqb s (fst x)) eqn:E; [|tauto].
      apply Nat.eqb_eq in E. subst. rewrite Hs. cbn. tauto. }
    assert (Hfra : forall x, front_at t' x <-> front_at t x).
    { intros x. rewrite !front_at_eq, Hget. destruct (Nat.eqb s (fst x)) eqn:E; [|tauto].
      apply Nat.eqb_eq in E. subst. rewrite Hs. cbn. tauto. }
    assert (Hfq : forall c' x, fq t' c' x <-> fq t c' x \/ (c' = c /\ x = (s, i))).
    { intros c' [sx ix]. rewrite !fq_eq, Hget. cbn [fst snd]. destruct (Nat.eqb s sx) eqn:E.
      - apply Nat.eqb_eq in E. subst sx. rewrite Hs. cbn.
        destruct (Nat.eq_dec i ix) as [->|Hne].
        + rewrite upd_nth_error_same by assumption. rewrite Hn. intuition congruence.
        + rewrite upd_nth_error_other by assumption. intuition congruence.
      - apply Nat.eqb_neq in E. intuition congruence. }
    assert (Hnotin : ~ In (s, i) (nth c (flist t) [])).
    { intros Hin. apply (ih_fl_sound _ _ HI) in Hin. rewrite fq_eq in Hin. cbn [fst snd] in Hin.
      rewrite Hs in Hin. cbn in Hin. destruct Hin as [_ Hin]. congruence. }
    constructor; cbn [flist index front sects t'].
    + rewrite upd_length. apply (ih_flen _ _ HI).
    + intros s'. rewrite Hget. destruct (Nat.eqb s s'); [|apply (ih_sect _ _ HI)].
      cbn. rewrite upd_length. auto.
    + intros c' x Hx. apply Hfq. rewrite nth_flist_upd in Hx by assumption.
      destruct (Nat.eqb c c') eqn:E.
      * apply Nat.eqb_eq in E. subst c'. destruct Hx as [<-|Hx]; [right; auto|].
        left. apply (ih_fl_sound _ _ HI). assumption.
      * left. apply (ih_fl_sound _ _ HI). assumption.
    + intros c'. rewrite nth_flist_upd by assumption. destruct (Nat.eqb c c') eqn:E.
      * constructor; [assumption | apply (ih_fl_nodup _ _ HI)].
      * apply (ih_fl_nodup _ _ HI).
    + intros c' x Hx. apply Hfq in Hx. rewrite nth_flist_upd by assumption.
      destruct (Nat.eqb c c') eqn:E.
      * apply Nat.eqb_eq in E. subst c'. destruct Hx as [Hx|[_ ->]]; [right|left; reflexivity].
        apply (ih_fl_complete _ _ HI). assumption.
      * apply Nat.eqb_neq in E. destruct Hx as [Hx|[-> _]]; [|congruence].
        apply (ih_fl_complete _ _ HI). assumption.
    + apply (ih_keys _ _ HI).
    + apply (ih_noempty _ _ HI).
    + apply (ih_ix_nodup _ _ HI).
    + intros k x Hin. destruct (ih_ix_sound _ _ HI _ _ Hin). split; [apply Hfa|]; assumption.
    + intros k x Hx Hh. apply (ih_ix_complete _ _ HI); [apply Hfa|]; assumption.
    + intros x Hx. destruct (ih_front_sound _ _ HI _ Hx). split; [apply Hfra|]; assumption.
    + intros x Hx Hh. apply (ih_front_complete _ _ HI); [apply Hfra|]; assumption.
  - (* mixed *)
    destruct (lookup_mix _ _ _ _ _ El) as (bs & pg & l1 & p & l2 & Hs & -> & Hk & _).
    inversion Hf; subst t' o.
    eapply put_mixed_st_inv; [|exact Hs].
    eapply invh_hole_busy; try eassumption; unfold kfree, kfront; rewrite Hk; reflexivity.
  - inversion Hf; subst. assumption.
Qed.

(* ---- updating the pieces of one mixed section: bookkeeping -------------- *)

Lemma mixed_upd_facts : forall t s b pg ps ps' fl ix fr,
  get_sect t s = SMixed b pg ps ->
  let t' := mkSt (upd s (SMixed b pg ps') (sects t)) fl ix fr in
  (forall s', get_sect t' s' = if Nat.eqb s s' then SMixed b pg ps' else get_sect t s') /\
  (forall c x, fq t' c x <-> fq t c x) /\
  (forall x k, fst x <> s -> (free_at t' x k <-> free_at t x k)) /\
  (forall o k, free_at t' (s, o) k <-> In (k, o) (fview ps' 0)) /\
  (forall o k, free_at t (s, o) k <-> In (k, o) (fview ps 0)) /\
  (forall x, fst x <> s -> (front_at t' x <-> front_at t x)) /\
  (forall o, front_at t' (s, o) <-> In o (frview ps' 0)) /\
  (forall o, front_at t (s, o) <-> In o (frview ps 0)).
Proof.
  intros t s b pg ps ps' fl ix fr Hs t'.
  assert (Hrange : (s < length (sects t))%nat) by (apply get_sect_in_range; rewrite Hs; discriminate).
  assert (Hget : forall s', get_sect t' s' = if Nat.eqb s s' then SMixed b pg ps' else get_sect t s')
    by (intros; apply get_sect_mk_upd; assumption).
  split; [exact Hget|].
  split. { intros c x. unfold fq. rewrite Hget. destruct (Nat.eqb s (fst x)) eqn:E; [|tauto].
           apply Nat.eqb_eq in E. rewrite <- E, Hs. tauto. }
  split. { intros x k Hx. unfold free_at. rewrite Hget. destruct (Nat.eqb s (fst x)) eqn:E; [|tauto].
           apply Nat.eqb_eq in E. congruence. }
  split. { intros o k. unfold free_at. cbn [fst snd]. rewrite Hget, Nat.eqb_refl. tauto. }
  split. { intros o k. unfold free_at. cbn [fst snd]. rewrite Hs. tauto. }
  split. { intros x Hx. unfold front_at. rewrite Hget. destruct (Nat.eqb s (fst x)) eqn:E; [|tauto].
           apply Nat.eqb_eq in E. congruence. }
  split. { intros o. unfold front_at. cbn [fst snd]. rewrite Hget, Nat.eqb_refl. tauto. }
  intros o. unfold front_at. cbn [fst snd]. rewrite Hs. tauto.
Qed.

(* ---- replacing a stretch of pieces of one mixed section ------------------ *)

Definition inrange (s : nat) (lo len : Z) (x : loc) : Prop := fst x = s /\ lo <= snd x < lo + len.

Lemma mixed_replace_inv : forall t h s b pg l1 mid l2 mid' l2' ix' fr' h',
  InvH t h ->
  get_sect t s = SMixed b pg (l1 ++ mid ++ l2) ->
  ps_ok pg (l1 ++ mid' ++ l2') ->
  psum mid = psum mid' ->
  (forall c, fview l2' c = fview l2 c) -> (forall c, frview l2' c = frview l2 c) ->
  (forall x, Some x = h -> inrange s (psum l1) (psum mid) x) ->
  (forall x, Some x = h' -> inrange s (psum l1) (psum mid) x) ->
  keys_above 0 ix' -> no_empty ix' -> (forall k, NoDup (ilookup k ix')) ->
  (forall k x, In x (ilookup k ix') <->
     (fst x = s /\ In (k, snd x) (fview mid' (psum l1)) /\ Some x <> h') \/
     (In x (ilookup k (index t)) /\ ~ inrange s (psum l1) (psum mid) x)) ->
  (forall x, fr' = Some x <->
     (fst x = s /\ In (snd x) (frview mid' (psum l1)) /\ Some x <> h') \/
     (front t = Some x /\ ~ inrange s (psum l1) (psum mid) x)) ->
  InvH (mkSt (upd s (SMixed b pg (l1 ++ mid' ++ l2')) (sects t)) (flist t) ix' fr') h'.
Proof.
  intros t h s b pg l1 mid l2 mid' l2' ix' fr' h' HI Hs Hok' Hsum Hfv Hfrv Hh Hh' Hk' Hne' Hnd' Hix Hfr.
  pose proof (ih_sect _ _ HI s) as Hok. rewrite Hs in Hok. cbn [sect_ok] in Hok. destruct Hok as [Hpg Hps].
  pose proof (quant_pos _ (pso_sizes _ _ Hps)) as Hpos.
  apply pos_sizes_app in Hpos. destruct Hpos as [P1 Hpos]. apply pos_sizes_app in Hpos. destruct Hpos as [Pm P2].
  destruct (mixed_upd_facts t s b pg (l1 ++ mid ++ l2) (l1 ++ mid' ++ l2') (flist t) ix' fr' Hs)
    as (Hget & Hfq & Hfo & Hfs & Hfs0 & Hfro & Hfrs & Hfrs0).
  set (t' := mkSt _ _ _ _) in *.
  assert (Hnr : forall x, fst x <> s -> ~ inrange s (psum l1) (psum mid) x)
    by (intros x Hx [Hc _]; congruence).
  constructor; cbn [flist index front sects t'].
  - apply (ih_flen _ _ HI).
  - intros s'. rewrite Hget. destruct (Nat.eqb s s'); [cbn; split; assumption | apply (ih_sect _ _ HI)].
  - intros c x Hx. apply Hfq. apply (ih_fl_sound _ _ HI). assumption.
  - apply (ih_fl_nodup _ _ HI).
  - intros c x Hx. apply (ih_fl_complete _ _ HI). apply Hfq. assumption.
  - assumption.
  - assumption.
  - assumption.
  - (* sound *)
    intros k [sx o] Hin. apply Hix in Hin. cbn [fst snd] in Hin.
    destruct Hin as [(-> & Hin & Hne)|[Hin Hr]].
    + split; [|assumption]. apply Hfs.
      apply (fview_mid_iff l1 mid mid' l2 l2'); try assumption. left. assumption.
    + destruct (ih_ix_sound _ _ HI _ _ Hin) as [Hfa Hhole]. split.
      * destruct (Nat.eq_dec sx s) as [->|Hne].
        -- apply Hfs. apply (fview_mid_iff l1 mid mid' l2 l2'); try assumption. right.
           split; [apply Hfs0; assumption|]. intros Hc. apply Hr. split; [reflexivity | assumption].
        -- apply Hfo; [cbn; assumption | assumption].
      * intros Hc. apply Hr. apply Hh'. assumption.
  - (* complete *)
    intros k [sx o] Hfa Hne. apply Hix. cbn [fst snd].
    destruct (Nat.eq_dec sx s) as [->|Hnes].
    + apply Hfs in Hfa. apply (fview_mid_iff l1 mid mid' l2 l2') in Hfa; try assumption.
      destruct Hfa as [Hfa|[Hfa Hr]]; [left; auto|].
      right. split.
      * apply (ih_ix_complete _ _ HI); [apply Hfs0; assumption|].
        intros Hc. apply Hh in Hc. destruct Hc as [_ Hc]. cbn in Hc. tauto.
      * intros [_ Hc]. cbn in Hc. tauto.
    + right. split; [|apply Hnr; cbn; assumption].
      apply (ih_ix_complete _ _ HI); [apply Hfo in Hfa; [assumption | cbn; assumption]|].
      intros Hc. apply Hh in Hc. destruct Hc as [Hc _]. cbn in Hc. congruence.
  - (* front sound *)
    intros [sx o] Hx. apply Hfr in Hx. cbn [fst snd] in Hx.
    destruct Hx as [(-> & Hin & Hne)|[Hx Hr]].
    + split; [|assumption]. apply Hfrs.
      apply (frview_mid_iff l1 mid mid' l2 l2'); try assumption. left. assumption.
    + destruct (ih_front_sound _ _ HI _ Hx) as [Hfa Hhole]. split.
      * destruct (Nat.eq_dec sx s) as [->|Hne].
        -- apply Hfrs. apply (frview_mid_iff l1 mid mid' l2 l2'); try assumption. right.
           split; [apply Hfrs0; assumption|]. intros Hc. apply Hr. split; [reflexivity | assumption].
        -- apply Hfro; [cbn; assumption | assumption].
      * intros Hc. apply Hr. apply Hh'. assumption.
  - (* front complete *)
    intros [sx o] Hfa Hne. apply Hfr. cbn [fst snd].
    destruct (Nat.eq_dec sx s) as [->|Hnes].
    + apply Hfrs in Hfa. apply (frview_mid_iff l1 mid mid' l2 l2') in Hfa; try assumption.
      destruct Hfa as [Hfa|[Hfa Hr]]; [left; auto|].
      right. split.
      * apply (ih_front_complete _ _ HI); [apply Hfrs0; assumption|].
        intros Hc. apply Hh in Hc. destruct Hc as [_ Hc]. cbn in Hc. tauto.
      * intros [_ Hc]. cbn in Hc. tauto.
    + right. split; [|apply Hnr; cbn; assumption].
      apply (ih_front_complete _ _ HI); [apply Hfro in Hfa; [assumption | cbn; assumption]|].
      intros Hc. apply Hh in Hc. destruct Hc as [Hc _]. cbn in Hc. congruence.
Qed.

(* ---- taking a piece, splitting a piece ----------------------------------- *)

Lemma ps_ok_set_busy : forall pg l1 p l2 bi,
  ps_ok pg (l1 ++ p :: l2) -> ps_ok pg (l1 ++ mkP (pv p) (psz p) (KBusy bi) :: l2).
Proof.
  intros pg l1 p l2 bi [Hq Hsum Hl Hn Hne]. constructor.
  - apply quant_sizes_app in Hq. destruct Hq as [Hq1 Hq2]. apply quant_sizes_app. split; [assumption|].
    inversion Hq2; subst. constructor; assumption.
  - rewrite psum_app in *. cbn [psum psz] in *. assumption.
  - apply links_ok_app in Hl. apply links_ok_app. cbn [links_ok pv psz] in *. assumption.
  - eapply no_adj_set_nonfree; [|exact Hn]. reflexivity.
  - destruct l1; discriminate.
Qed.

Lemma ps_ok_split : forall pg l1 bz l2 nb rk,
  ps_ok pg (l1 ++ bz :: l2) -> kfree bz = false ->
  0 < nb < psz bz -> nb mod MixedSizeQuantum = 0 ->
  (is_free rk = true -> head_free l2 = false) ->
  ps_ok pg (l1 ++ mkP (pv bz) nb (pkd bz) :: mkP nb (psz bz - nb) rk :: fix_pv (psz bz - nb) l2).
Proof.
  intros pg l1 bz l2 nb rk [Hq Hsum Hl Hn Hne] Hbz Hnb Hmod Hrk. constructor.
  - apply quant_sizes_app in Hq. destruct Hq as [Hq1 Hq2]. apply quant_sizes_app. split; [assumption|].
    inversion Hq2 as [|? ? [Hb1 Hb2] Hq2']; subst.
    constructor; [cbn; split; [lia | assumption]|].
    constructor; [cbn; unfold MixedSizeQuantum in *; lia|]. apply quant_fix_pv. assumption.
  - rewrite psum_app in *. cbn [psum psz] in *. rewrite psum_fix_pv. lia.
  - apply links_ok_app in Hl. apply links_ok_app. cbn [links_ok pv psz] in *.
    destruct Hl as (H1 & H2 & H3). repeat split; try assumption.
    eapply links_tail_fix. exact H3.
  - apply no_adj_split; assumption.
  - destruct l1; discriminate.
Qed.

Lemma single_range : forall s lo len, 0 < len -> inrange s lo len (s, lo).
Proof. intros. split; cbn; [reflexivity | lia]. Qed.

Lemma kfree_mk : forall a b k, kfree (mkP a b k) = is_free k.
Proof. reflexivity. Qed.
Lemma kfront_mk : forall a b k, kfront (mkP a b k) = match k with KFront => true | _ => false end.
Proof. reflexivity. Qed.

(* A1: a free piece becomes busy and leaves the index *)
Lemma take_free_inv : forall t s b pg l1 p l2 bi,
  Inv t -> get_sect t s = SMixed b pg (l1 ++ p :: l2) -> kfree p = true ->
  Inv (mkSt (upd s (SMixed b pg (l1 ++ mkP (pv p) (psz p) (KBusy bi) :: l2)) (sects t)) (flist t)
            (idx_unlink (psz p) (s, psum l1) (index t)) (front t)).
Proof.
  intros t s b pg l1 p l2 bi HI Hs Hp.
  pose proof (ih_sect _ _ HI s) as Hok. rewrite Hs in Hok. cbn [sect_ok] in Hok. destruct Hok as [Hpg Hps].
  pose proof (quant_pos _ (pso_sizes _ _ Hps)) as Hpos.
  apply pos_sizes_app in Hpos. destruct Hpos as [P1 Hpos]. inversion Hpos as [|? ? Hppos P2]; subst.
  pose proof (ih_keys _ _ HI) as Hk. pose proof (ih_ix_nodup _ _ HI) as Hnd.
  unfold Inv.
  apply (mixed_replace_inv t None s b pg l1 [p] l2 [mkP (pv p) (psz p) (KBusy bi)] l2); try assumption.
  - apply (ps_ok_set_busy pg l1 p l2 bi). assumption.
  - reflexivity.
  - reflexivity.
  - reflexivity.
  - intros x Hx. discriminate.
  - intros x Hx. discriminate.
  - apply unlink_keys. assumption.
  - eapply unlink_no_empty; [eassumption | apply (ih_noempty _ _ HI)].
  - eapply unlink_nodup; eassumption.
  - intros k x. rewrite (unlink_in _ _ _ k x 0 Hk Hnd). cbn [fview kfree pkd is_free app psum]. split.
    + intros [Hin Hne]. right. split; [assumption|]. intros [Hfs Hr].
      destruct (ih_ix_sound _ _ HI _ _ Hin) as [Hfa _]. destruct x as [sx o]. cbn in Hfs, Hr. subst sx.
      unfold free_at in Hfa. cbn [fst snd] in Hfa. rewrite Hs in Hfa.
      apply (fview_in_mid l1 [p] l2) in Hfa; try assumption.
      cbn [fview] in Hfa. rewrite Hp in Hfa. destruct Hfa as [Hfa|[]]. inversion Hfa; subst. apply Hne. auto.
    + intros [(_ & [] & _)|[Hin Hr]]. split; [assumption|]. intros [-> ->]. apply Hr.
      cbn [psum]. replace (psz p + 0) with (psz p) by lia. apply single_range. assumption.
  - intros x. cbn [frview kfront pkd app]. split.
    + intros Hx. right. split; [assumption|]. intros [Hfs Hr].
      destruct (ih_front_sound _ _ HI _ Hx) as [Hfa _]. destruct x as [sx o]. cbn in Hfs, Hr. subst sx.
      unfold front_at in Hfa. cbn [fst snd] in Hfa. rewrite Hs in Hfa.
      apply (frview_in_mid l1 [p] l2) in Hfa; try assumption.
      cbn [frview] in Hfa. rewrite (kfree_not_front p Hp) in Hfa. destruct Hfa.
    + intros [(_ & [] & _)|[Hx _]]. assumption.
Qed.

(* B1: the frontier piece becomes busy *)
Lemma take_front_inv : forall t s b pg l1 p l2 bi,
  Inv t -> get_sect t s = SMixed b pg (l1 ++ p :: l2) -> kfront p = true ->
  Inv (mkSt (upd s (SMixed b pg (l1 ++ mkP (pv p) (psz p) (KBusy bi) :: l2)) (sects t)) (flist t)
            (index t) None).
Proof.
  intros t s b pg l1 p l2 bi HI Hs Hp.
  pose proof (ih_sect _ _ HI s) as Hok. rewrite Hs in Hok. cbn [sect_ok] in Hok. destruct Hok as [Hpg Hps].
  pose proof (quant_pos _ (pso_sizes _ _ Hps)) as Hpos.
  apply pos_sizes_app in Hpos. destruct Hpos as [P1 Hpos]. inversion Hpos as [|? ? Hppos P2]; subst.
  assert (Hnf : kfree p = false) by (unfold kfree, kfront in *; destruct (pkd p); cbn in *; congruence).
  assert (Hfront : front t = Some (s, psum l1)).
  { apply (ih_front_complete _ _ HI); [|discriminate]. unfold front_at. cbn [fst snd]. rewrite Hs.
    rewrite frview_app. apply in_or_app. right. cbn [frview]. rewrite Hp. left. lia. }
  unfold Inv.
  apply (mixed_replace_inv t None s b pg l1 [p] l2 [mkP (pv p) (psz p) (KBusy bi)] l2); try assumption.
  - apply (ps_ok_set_busy pg l1 p l2 bi). assumption.
  - reflexivity.
  - reflexivity.
  - reflexivity.
  - intros x Hx. discriminate.
  - intros x Hx. discriminate.
  - apply (ih_keys _ _ HI).
  - apply (ih_noempty _ _ HI).
  - apply (ih_ix_nodup _ _ HI).
  - intros k x. cbn [fview kfree pkd is_free app psum]. split.
    + intros Hin. right. split; [assumption|]. intros [Hfs Hr].
      destruct (ih_ix_sound _ _ HI _ _ Hin) as [Hfa _]. destruct x as [sx o]. cbn in Hfs, Hr. subst sx.
      unfold free_at in Hfa. cbn [fst snd] in Hfa. rewrite Hs in Hfa.
      apply (fview_in_mid l1 [p] l2) in Hfa; try assumption.
      cbn [fview] in Hfa. rewrite Hnf in Hfa. destruct Hfa.
    + intros [(_ & [] & _)|[Hin _]]. assumption.
  - intros x. cbn [frview kfront pkd app]. split; [discriminate|].
    intros [(_ & [] & _)|[Hx Hr]]. exfalso. apply Hr. rewrite Hfront in Hx. inversion Hx; subst.
    cbn [psum]. replace (psz p + 0) with (psz p) by lia. apply single_range. assumption.
Qed.

(* mxmemSplit of a busy piece, free remainder: the remainder is the hole *)
Lemma split_free_inv : forall t s b pg l1 bz l2 nb,
  Inv t -> get_sect t s = SMixed b pg (l1 ++ bz :: l2) -> is_busy (pkd bz) = true ->
  0 < nb < psz bz -> nb mod MixedSizeQuantum = 0 -> head_free l2 = false ->
  InvH (mkSt (upd s (SMixed b pg (l1 ++ mkP (pv bz) nb (pkd bz) :: mkP nb (psz bz - nb) KFree
                                  :: fix_pv (psz bz - nb) l2)) (sects t)) (flist t) (index t) (front t))
       (Some (s, psum l1 + nb)).
Proof.
  intros t s b pg l1 bz l2 nb HI Hs Hbz Hnb Hmod Hhf.
  pose proof (ih_sect _ _ HI s) as Hok. rewrite Hs in Hok. cbn [sect_ok] in Hok. destruct Hok as [Hpg Hps].
  pose proof (quant_pos _ (pso_sizes _ _ Hps)) as Hpos.
  apply pos_sizes_app in Hpos. destruct Hpos as [P1 Hpos]. inversion Hpos as [|? ? Hppos P2]; subst.
  assert (Hnf : kfree bz = false) by (unfold kfree; destruct (pkd bz); cbn in *; congruence).
  assert (Hnfr : kfront bz = false) by (unfold kfront; destruct (pkd bz); cbn in *; congruence).
  apply (mixed_replace_inv t None s b pg l1 [bz] l2
           [mkP (pv bz) nb (pkd bz); mkP nb (psz bz - nb) KFree] (fix_pv (psz bz - nb) l2)); try assumption.
  - apply (ps_ok_split pg l1 bz l2 nb KFree); try assumption. intros _. assumption.
  - cbn [psum psz]. lia.
  - intros c. apply fview_fix_pv.
  - intros c. apply frview_fix_pv.
  - intros x Hx. discriminate.
  - intros x Hx. inversion Hx; subst. split; cbn [fst snd psum]; [reflexivity | lia].
  - apply (ih_keys _ _ HI).
  - apply (ih_noempty _ _ HI).
  - apply (ih_ix_nodup _ _ HI).
  - intros k x. cbn [fview app psum psz]. rewrite !kfree_mk. fold (kfree bz). rewrite Hnf. cbn [is_free app]. split.
    + intros Hin. right. split; [assumption|]. intros [Hfs Hr].
      destruct (ih_ix_sound _ _ HI _ _ Hin) as [Hfa _]. destruct x as [sx o]. cbn in Hfs, Hr. subst sx.
      unfold free_at in Hfa. cbn [fst snd] in Hfa. rewrite Hs in Hfa.
      apply (fview_in_mid l1 [bz] l2) in Hfa; try assumption.
      cbn [fview] in Hfa. rewrite Hnf in Hfa. destruct Hfa.
    + intros [(Hfs & [Heq|[]] & Hne)|[Hin _]]; [|assumption].
      exfalso. apply Hne. destruct x as [sx o]. cbn in *. inversion Heq; subst. reflexivity.
  - intros x. cbn [frview app psz]. rewrite !kfront_mk. fold (kfront bz). rewrite Hnfr. cbn [app]. split.
    + intros Hx. right. split; [assumption|]. intros [Hfs Hr].
      destruct (ih_front_sound _ _ HI _ Hx) as [Hfa _]. destruct x as [sx o]. cbn in Hfs, Hr. subst sx.
      unfold front_at in Hfa. cbn [fst snd] in Hfa. rewrite Hs in Hfa.
      apply (frview_in_mid l1 [bz] l2) in Hfa; try assumption.
      cbn [frview] in Hfa. rewrite Hnfr in Hfa. destruct Hfa.
    + intros [(_ & [] & _)|[Hx _]]. assumption.
Qed.

(* mxmemSplit of the busy piece taken from the frontier: the remainder is the new frontier *)
Lemma split_front_inv : forall t s b pg l1 bz l2 nb,
  Inv t -> front t = None ->
  get_sect t s = SMixed b pg (l1 ++ bz :: l2) -> is_busy (pkd bz) = true ->
  0 < nb < psz bz -> nb mod MixedSizeQuantum = 0 ->
  Inv (mkSt (upd s (SMixed b pg (l1 ++ mkP (pv bz) nb (pkd bz) :: mkP nb (psz bz - nb) KFront
                                 :: fix_pv (psz bz - nb) l2)) (sects t)) (flist t) (index t)
            (Some (s, psum l1 + nb))).
Proof.
  intros t s b pg l1 bz l2 nb HI Hfront Hs Hbz Hnb Hmod.
  pose proof (ih_sect _ _ HI s) as Hok. rewrite Hs in Hok. cbn [sect_ok] in Hok. destruct Hok as [Hpg Hps].
  pose proof (quant_pos _ (pso_sizes _ _ Hps)) as Hpos.
  apply pos_sizes_app in Hpos. destruct Hpos as [P1 Hpos]. inversion Hpos as [|? ? Hppos P2]; subst.
  assert (Hnf : kfree bz = false) by (unfold kfree; destruct (pkd bz); cbn in *; congruence).
  assert (Hnfr : kfront bz = false) by (unfold kfront; destruct (pkd bz); cbn in *; congruence).
  unfold Inv.
  apply (mixed_replace_inv t None s b pg l1 [bz] l2
           [mkP (pv bz) nb (pkd bz); mkP nb (psz bz - nb) KFront] (fix_pv (psz bz - nb) l2)); try assumption.
  - apply (ps_ok_split pg l1 bz l2 nb KFront); try assumption. intros Hc. discriminate.
  - cbn [psum psz]. lia.
  - intros c. apply fview_fix_pv.
  - intros c. apply frview_fix_pv.
  - intros x Hx. discriminate.
  - intros x Hx. discriminate.
  - apply (ih_keys _ _ HI).
  - apply (ih_noempty _ _ HI).
  - apply (ih_ix_nodup _ _ HI).
  - intros k x. cbn [fview app psum psz]. rewrite !kfree_mk. fold (kfree bz). rewrite Hnf. cbn [is_free app]. split.
    + intros Hin. right. split; [assumption|]. intros [Hfs Hr].
      destruct (ih_ix_sound _ _ HI _ _ Hin) as [Hfa _]. destruct x as [sx o]. cbn in Hfs, Hr. subst sx.
      unfold free_at in Hfa. cbn [fst snd] in Hfa. rewrite Hs in Hfa.
      apply (fview_in_mid l1 [bz] l2) in Hfa; try assumption.
      cbn [fview] in Hfa. rewrite Hnf in Hfa. destruct Hfa.
    + intros [(_ & [] & _)|[Hin _]]. assumption.
  - intros x. cbn [frview app psz]. rewrite !kfront_mk. fold (kfront bz). rewrite Hnfr. cbn [app]. rewrite Hfront. split.
    + intros Hx. inversion Hx; subst. left. cbn [fst snd]. split; [reflexivity|].
      split; [left; reflexivity | discriminate].
    + intros [(Hfs & [Heq|[]] & _)|[Hx _]]; [|discriminate].
      destruct x as [sx o]. cbn in *. subst. reflexivity.
Qed.

(* ---- filling the hole, dropping the frontier, a fresh mixed section ------ *)

Lemma free_at_size_unique : forall t x k k', (forall s, sect_ok (get_sect t s)) ->
  free_at t x k -> free_at t x k' -> k = k'.
Proof.
  intros t [s o] k k' Hok H1 H2. unfold free_at in *. cbn [fst snd] in *.
  specialize (Hok s). destruct (get_sect t s) as [| b pg ps |]; try tauto.
  cbn [sect_ok] in Hok. destruct Hok as [_ Hps]. pose proof (quant_pos _ (pso_sizes _ _ Hps)) as Hpos.
  apply fview_decomp in H1. destruct H1 as (l1 & p & l2 & -> & -> & Hk & Hf).
  rewrite Z.add_0_l in H2. apply fview_at_offset in H2; [|assumption]. lia.
Qed.

Lemma fill_hole_inv : forall t x k abs,
  InvH t (Some x) -> free_at t x k -> ~ front_at t x -> 0 < k ->
  Inv (set_index t (idx_link abs k x (index t))).
Proof.
  intros t x k abs HI Hfa Hnfr Hk.
  pose proof (ih_keys _ _ HI) as Hkeys. pose proof (ih_ix_nodup _ _ HI) as Hnd.
  assert (Hfa' : forall y k', free_at (set_index t (idx_link abs k x (index t))) y k' <-> free_at t y k')
    by (intros; unfold free_at, get_sect; cbn; tauto).
  assert (Hfr' : forall y, front_at (set_index t (idx_link abs k x (index t))) y <-> front_at t y)
    by (intros; unfold front_at, get_sect; cbn; tauto).
  assert (Hfq' : forall c y, fq (set_index t (idx_link abs k x (index t))) c y <-> fq t c y)
    by (intros; unfold fq, get_sect; cbn; tauto).
  constructor; cbn [set_index flist index front sects].
  - apply (ih_flen _ _ HI).
  - apply (ih_sect _ _ HI).
  - intros c y Hy. apply Hfq'. apply (ih_fl_sound _ _ HI). assumption.
  - apply (ih_fl_nodup _ _ HI).
  - intros c y Hy. apply (ih_fl_complete _ _ HI). apply Hfq'. assumption.
  - apply link_keys_above; assumption.
  - apply link_no_empty. apply (ih_noempty _ _ HI).
  - eapply link_nodup; try eassumption.
    intros Hin. destruct (ih_ix_sound _ _ HI _ _ Hin) as [_ Hc]. congruence.
  - intros k' y Hin. split; [|discriminate]. apply Hfa'.
    rewrite (link_in abs _ k x k' y 0 Hkeys) in Hin. destruct Hin as [[-> ->]|Hin]; [assumption|].
    apply (ih_ix_sound _ _ HI _ _ Hin).
  - intros k' y Hy _. apply Hfa' in Hy. rewrite (link_in abs _ k x k' y 0 Hkeys).
    destruct (loc_eqb y x) eqn:E.
    + apply loc_eqb_spec in E. subst y. left. split; [|reflexivity].
      eapply free_at_size_unique; [apply (ih_sect _ _ HI) | eassumption | eassumption].
    + right. apply (ih_ix_complete _ _ HI); [assumption|]. intros Hc. inversion Hc; subst.
      rewrite loc_eqb_refl in E. discriminate.
  - intros y Hy. split; [|discriminate]. apply Hfr'. apply (ih_front_sound _ _ HI _ Hy).
  - intros y Hy _. apply Hfr' in Hy. apply (ih_front_complete _ _ HI); [assumption|].
    intros Hc. inversion Hc; subst. tauto.
Qed.

Lemma invh_drop_front : forall t f, Inv t -> front t = Some f -> InvH (set_front t None) (Some f).
Proof.
  intros t f HI Hf.
  assert (Hfa' : forall y k', free_at (set_front t None) y k' <-> free_at t y k')
    by (intros; unfold free_at, get_sect; cbn; tauto).
  assert (Hfr' : forall y, front_at (set_front t None) y <-> front_at t y)
    by (intros; unfold front_at, get_sect; cbn; tauto).
  assert (Hfq' : forall c y, fq (set_front t None) c y <-> fq t c y)
    by (intros; unfold fq, get_sect; cbn; tauto).
  destruct (ih_front_sound _ _ HI _ Hf) as [Hfat _].
  constructor; cbn [set_front flist index front sects].
  - apply (ih_flen _ _ HI).
  - apply (ih_sect _ _ HI).
  - intros c y Hy. apply Hfq'. apply (ih_fl_sound _ _ HI). assumption.
  - apply (ih_fl_nodup _ _ HI).
  - intros c y Hy. apply (ih_fl_complete _ _ HI). apply Hfq'. assumption.
  - apply (ih_keys _ _ HI).
  - apply (ih_noempty _ _ HI).
  - apply (ih_ix_nodup _ _ HI).
  - intros k y Hin. destruct (ih_ix_sound _ _ HI _ _ Hin) as [Hfa _]. split; [apply Hfa'; assumption|].
    intros Hc. inversion Hc; subst y.
    (* a piece cannot be both free and the frontier *)
    unfold free_at, front_at in *. destruct (get_sect t (fst f)) as [| b pg ps |] eqn:Es; try tauto.
    pose proof (ih_sect _ _ HI (fst f)) as Hok. rewrite Es in Hok. cbn [sect_ok] in Hok.
    destruct Hok as [_ Hps]. pose proof (quant_pos _ (pso_sizes _ _ Hps)) as Hpos.
    apply fview_decomp in Hfa. destruct Hfa as (l1 & p & l2 & -> & Ho & _ & Hpf).
    rewrite Ho, Z.add_0_l in Hfat. apply frview_at_offset in Hfat; [|assumption].
    rewrite (kfree_not_front p Hpf) in Hfat. discriminate.
  - intros k y Hy _. apply (ih_ix_complete _ _ HI); [apply Hfa'; assumption | discriminate].
  - intros y Hy. discriminate.
  - intros y Hy Hne. apply Hfr' in Hy. pose proof (ih_front_complete _ _ HI y Hy ltac:(discriminate)) as Hc.
    rewrite Hf in Hc. congruence.
Qed.

Lemma fresh_mixed_inv : forall t base pg nq,
  Inv t -> front t = None -> 0 < pg -> 0 < nq -> nq = qm_count pg MixedSizeQuantum ->
  Inv (mkSt (sects t ++ [SMixed base pg [mkP 0 (nq * MixedSizeQuantum) KFront]])
            (flist t) (index t) (Some (length (sects t), 0))).
Proof.
  intros t base pg nq HI Hfr Hpg Hnq Hnqeq.
  set (s := length (sects t)). set (x := SMixed base pg [mkP 0 (nq * MixedSizeQuantum) KFront]).
  set (t' := mkSt _ _ _ _).
  assert (Hget : forall s', get_sect t' s' = if Nat.eqb s s' then x else get_sect t s')
    by (intros; apply get_sect_mk_app).
  assert (Hdead : get_sect t s = SDead) by apply get_sect_fresh_dead.
  assert (Hfa' : forall y k', free_at t' y k' <-> free_at t y k').
  { intros y k'. unfold free_at. rewrite Hget. destruct (Nat.eqb s (fst y)) eqn:E; [|tauto].
    apply Nat.eqb_eq in E. rewrite <- E, Hdead. cbn. tauto. }
  assert (Hfq' : forall c y, fq t' c y <-> fq t c y).
  { intros c y. unfold fq. rewrite Hget. destruct (Nat.eqb s (fst y)) eqn:E; [|tauto].
    apply Nat.eqb_eq in E. rewrite <- E, Hdead. cbn. tauto. }
  assert (Hfr' : forall y, front_at t' y <-> y = (s, 0) \/ front_at t y).
  { intros [sy o]. unfold front_at. rewrite Hget. cbn [fst snd]. destruct (Nat.eqb s sy) eqn:E.
    - apply Nat.eqb_eq in E. subst sy. rewrite Hdead. cbn. intuition congruence.
    - apply Nat.eqb_neq in E. intuition congruence. }
  constructor; cbn [flist index front sects t'].
  - apply (ih_flen _ _ HI).
  - intros s'. rewrite Hget. destruct (Nat.eqb s s'); [|apply (ih_sect _ _ HI)].
    cbn [x sect_ok]. split; [assumption|]. constructor.
    + constructor; [|constructor]. cbn. unfold MixedSizeQuantum in *. lia.
    + cbn. lia.
    + cbn. auto.
    + exact I.
    + discriminate.
  - intros c y Hy. apply Hfq'. apply (ih_fl_sound _ _ HI). assumption.
  - apply (ih_fl_nodup _ _ HI).
  - intros c y Hy. apply (ih_fl_complete _ _ HI). apply Hfq'. assumption.
  - apply (ih_keys _ _ HI).
  - apply (ih_noempty _ _ HI).
  - apply (ih_ix_nodup _ _ HI).
  - intros k y Hin. destruct (ih_ix_sound _ _ HI _ _ Hin). split; [apply Hfa'|]; assumption.
  - intros k y Hy Hh. apply (ih_ix_complete _ _ HI); [apply Hfa'|]; assumption.
  - intros y Hy. inversion Hy; subst. split; [apply Hfr'; left; reflexivity | discriminate].
  - intros y Hy _. apply Hfr' in Hy. destruct Hy as [->|Hy]; [reflexivity|].
    pose proof (ih_front_complete _ _ HI y Hy ltac:(discriminate)) as Hc. congruence.
Qed.

(* ---- live blocks under section updates ----------------------------------- *)

Require Import Permutation.

Lemma sects_live_app : forall l1 l2 n,
  sects_live (l1 ++ l2) n = sects_live l1 n ++ sects_live l2 (n + length l1)%nat.
Proof.
  induction l1 as [|x l1 IH]; intros l2 n; cbn [app sects_live length].
  - rewrite Nat.add_0_r. reflexivity.
  - rewrite IH. rewrite <- app_assoc. do 2 f_equal. f_equal. lia.
Qed.

Lemma live_upd : forall t s x' fl ix fr, (s < length (sects t))%nat ->
  exists X Y, live t = X ++ sect_live s (get_sect t s) ++ Y /\
              live (mkSt (upd s x' (sects t)) fl ix fr) = X ++ sect_live s x' ++ Y.
Proof.
  intros t s x' fl ix fr Hr. unfold live, get_sect. cbn [sects].
  destruct (nth_error (sects t) s) as [x|] eqn:En; [|apply nth_error_None in En; lia].
  destruct (nth_error_split' _ _ _ _ En) as (A & B & HAB & Hlen).
  rewrite HAB. subst s. rewrite upd_app, nth_app_len.
  rewrite !sects_live_app. cbn [sects_live Nat.add].
  exists (sects_live A 0), (sects_live B (S (length A))). split; reflexivity.
Qed.

Lemma live_app_sect : forall t x fl ix fr,
  live (mkSt (sects t ++ [x]) fl ix fr) = live t ++ sect_live (length (sects t)) x.
Proof.
  intros. unfold live. cbn [sects]. rewrite sects_live_app. cbn [sects_live Nat.add]. rewrite app_nil_r. reflexivity.
Qed.

Lemma live_replace_mixed : forall t s b pg l1 mid l2 mid' l2' fl ix fr,
  get_sect t s = SMixed b pg (l1 ++ mid ++ l2) ->
  (forall c, mixed_live s pg l2' c = mixed_live s pg l2 c) -> psum mid = psum mid' ->
  exists X Y, live t = X ++ mixed_live s pg mid (psum l1) ++ Y /\
              live (mkSt (upd s (SMixed b pg (l1 ++ mid' ++ l2')) (sects t)) fl ix fr)
              = X ++ mixed_live s pg mid' (psum l1) ++ Y.
Proof.
  intros t s b pg l1 mid l2 mid' l2' fl ix fr Hs Hl2 Hsum.
  assert (Hr : (s < length (sects t))%nat) by (apply get_sect_in_range; rewrite Hs; discriminate).
  destruct (live_upd t s (SMixed b pg (l1 ++ mid' ++ l2')) fl ix fr Hr) as (X & Y & H1 & H2).
  rewrite Hs in H1. cbn [sect_live] in H1, H2. rewrite mixed_live_mid in H1, H2. rewrite Hl2, <- Hsum in H2.
  exists (X ++ mixed_live s pg l1 0), (mixed_live s pg l2 (psum l1 + psum mid) ++ Y).
  rewrite H1, H2. rewrite <- !app_assoc. split; reflexivity.
Qed.

Lemma perm_insert : forall (A : Type) (X Y : list A) e, Permutation (X ++ [e] ++ Y) (e :: X ++ Y).
Proof. intros. cbn. symmetry. apply Permutation_middle. Qed.

(* the block described by a busy piece *)
Definition pblock (s : nat) (pg : Z) (off : Z) (p : piece) (bi : binfo) : addr * Z * binfo :=
  ((s, mdata_off pg + off + MxMemHeadSize), psz p - MxMemHeadSize, bi).

Lemma mixed_live_single_busy : forall s pg p bi cur, pkd p = KBusy bi ->
  mixed_live s pg [p] cur = [pblock s pg cur p bi].
Proof. intros s pg p bi cur H. cbn [mixed_live]. rewrite H. reflexivity. Qed.

Lemma mixed_live_single_nonbusy : forall s pg p cur, is_busy (pkd p) = false -> mixed_live s pg [p] cur = [].
Proof. intros s pg p cur H. cbn [mixed_live]. destruct (pkd p); cbn in *; try reflexivity; discriminate. Qed.

Lemma put_mixed_st_live : forall t s b pg l1 mi l2,
  get_sect t s = SMixed b pg (l1 ++ mi :: l2) -> links_ok 0 (l1 ++ mi :: l2) -> pos_sizes l1 ->
  exists X Y, live t = X ++ mixed_live s pg [mi] (psum l1) ++ Y /\
              live (put_mixed_st t s (length l1)) = X ++ Y.
Proof.
  intros t s b pg l1 mi l2 Hs Hl Hp.
  rewrite (put_mixed_st_eq t s b pg l1 mi l2 Hs Hl Hp).
  assert (Hr : (s < length (sects t))%nat) by (apply get_sect_in_range; rewrite Hs; discriminate).
  destruct (live_upd t s (SMixed b pg (put_ps l1 mi l2)) (flist t)
                     (put_ix (loc_abs t) s l1 mi l2 (index t)) (front t) Hr) as (X & Y & H1 & H2).
  rewrite Hs in H1. cbn [sect_live] in H1, H2.
  rewrite mixed_live_before in H1. rewrite mixed_live_after in H2.
  exists (X ++ mixed_live s pg (put_l0 l1) 0),
         (mixed_live s pg (put_l3 l2) (psum (put_l0 l1) + put_total l1 mi l2) ++ Y).
  rewrite H1, H2. rewrite <- !app_assoc. split; [|reflexivity].
  cbn [mixed_live]. destruct (pkd mi); reflexivity.
Qed.

Lemma live_set_index : forall t ix, live (set_index t ix) = live t.
Proof. reflexivity. Qed.

Lemma live_set_front : forall t f, live (set_front t f) = live t.
Proof. reflexivity. Qed.

(* the index-hit path of pieceGetMixed, on a decomposed section *)
Lemma gm_tree_take : forall t s b pg l1 p l2 bi,
  Inv t -> get_sect t s = SMixed b pg (l1 ++ p :: l2) -> kfree p = true ->
  let p' := mkP (pv p) (psz p) (KBusy bi) in
  let tA := mkSt (upd s (SMixed b pg (l1 ++ p' :: l2)) (sects t)) (flist t)
                 (idx_unlink (psz p) (s, psum l1) (index t)) (front t) in
  Inv tA /\ get_sect tA s = SMixed b pg (l1 ++ p' :: l2) /\
  Permutation (live tA) (pblock s pg (psum l1) p' bi :: live t).
Proof.
  intros t s b pg l1 p l2 bi HI Hs Hp p' tA.
  assert (Hr : (s < length (sects t))%nat) by (apply get_sect_in_range; rewrite Hs; discriminate).
  split; [apply take_free_inv; assumption|]. split.
  - unfold tA. rewrite get_sect_mk_upd by assumption. rewrite Nat.eqb_refl. reflexivity.
  - destruct (live_replace_mixed t s b pg l1 [p] l2 [p'] l2 (flist t)
                (idx_unlink (psz p) (s, psum l1) (index t)) (front t) Hs ltac:(reflexivity) ltac:(reflexivity))
      as (X & Y & H1 & H2).
    cbn [app] in H2. fold tA in H2. rewrite H2, H1.
    rewrite (mixed_live_single_busy s pg p' bi) by reflexivity.
    rewrite (mixed_live_single_nonbusy s pg p) by (apply kfree_not_busy; assumption).
    cbn [app]. apply (perm_insert _ X Y).
Qed.

Lemma gm_split_live : forall t s b pg l1 bz l2 nb rk bi fl ix fr,
  get_sect t s = SMixed b pg (l1 ++ bz :: l2) -> pkd bz = KBusy bi -> is_busy rk = false ->
  forall R, Permutation (live t) (pblock s pg (psum l1) bz bi :: R) ->
  Permutation (live (mkSt (upd s (SMixed b pg (l1 ++ mkP (pv bz) nb (pkd bz) :: mkP nb (psz bz - nb) rk
                                              :: fix_pv (psz bz - nb) l2)) (sects t)) fl ix fr))
              (pblock s pg (psum l1) (mkP (pv bz) nb (pkd bz)) bi :: R).
Proof.
  intros t s b pg l1 bz l2 nb rk bi fl ix fr Hs Hbz Hrk R HR.
  destruct (live_replace_mixed t s b pg l1 [bz] l2
              [mkP (pv bz) nb (pkd bz); mkP nb (psz bz - nb) rk] (fix_pv (psz bz - nb) l2) fl ix fr Hs
              ltac:(intros; apply mixed_live_fix_pv) ltac:(cbn [psum psz]; lia)) as (X & Y & H1 & H2).
  cbn [app] in H2. rewrite H2.
  rewrite (mixed_live_single_busy s pg bz bi) in H1 by assumption.
  assert (Hm : mixed_live s pg [mkP (pv bz) nb (pkd bz); mkP nb (psz bz - nb) rk] (psum l1)
               = [pblock s pg (psum l1) (mkP (pv bz) nb (pkd bz)) bi]).
  { cbn [mixed_live pkd psz]. rewrite Hbz. destruct rk; cbn in Hrk; try discriminate; reflexivity. }
  rewrite Hm.
  rewrite H1 in HR.
  assert (HXY : Permutation (X ++ Y) R).
  { eapply Permutation_cons_inv. etransitivity; [|exact HR]. symmetry. apply (perm_insert _ X Y). }
  etransitivity; [apply (perm_insert _ X Y)|]. constructor. assumption.
Qed.

(* ---- pieceGetMixed -------------------------------------------------------- *)

Definition gm_post (t : st) (nb code : Z) (t' : st) (r : option (nat * nat)) : Prop :=
  Inv t' /\
  match r with
  | None => Permutation (live t') (live t)
  | Some (s, k) => exists b pg l1 p l2,
      get_sect t' s = SMixed b pg (l1 ++ p :: l2) /\ k = length l1 /\
      pkd p = KBusy (new_binfo code) /\ nb <= psz p /\
      Permutation (live t') (pblock s pg (psum l1) p (new_binfo code) :: live t)
  end.

Lemma head_not_free_after_free : forall l1 p l2, no_adj_free (l1 ++ p :: l2) -> kfree p = true -> head_free l2 = false.
Proof.
  intros l1 p l2 H Hp. apply no_adj_free_suffix in H. destruct l2 as [|q l2]; [reflexivity|].
  cbn [no_adj_free head_free] in *. destruct (kfree q) eqn:E; [|reflexivity]. exfalso. apply (proj1 H); auto.
Qed.

Lemma gm_tree_split : forall t s b pg l1 p l2 nb code restl,
  Inv t -> get_sect t s = SMixed b pg (l1 ++ p :: l2) -> kfree p = true ->
  ilookup (psz p) (index t) = (s, psum l1) :: restl ->
  0 < nb < psz p -> nb mod MixedSizeQuantum = 0 ->
  let bi := new_binfo code in
  let ps2 := l1 ++ mkP (pv p) nb (KBusy bi) :: mkP nb (psz p - nb) KFree :: fix_pv (psz p - nb) l2 in
  let ixu := idx_unlink (psz p) (s, psum l1) (index t) in
  let t2u := mkSt (upd s (SMixed b pg ps2) (sects t)) (flist t) ixu (front t) in
  gm_post t nb code (put_mixed_st t2u s (S (length l1))) (Some (s, length l1)) /\
  (forall abs, gm_post t nb code (set_index t2u (idx_link abs (psz p - nb) (s, psum l1 + nb) ixu))
                       (Some (s, length l1))).
Proof.
  intros t s b pg l1 p l2 nb code restl HI Hs Hp Hlook Hnb Hmod bi ps2 ixu t2u.
  assert (Hr : (s < length (sects t))%nat) by (apply get_sect_in_range; rewrite Hs; discriminate).
  pose proof (ih_sect _ _ HI s) as Hok. rewrite Hs in Hok. cbn [sect_ok] in Hok. destruct Hok as [Hpg Hps].
  destruct (gm_tree_take t s b pg l1 p l2 bi HI Hs Hp) as (HIA & HsA & HliveA).
  set (p' := mkP (pv p) (psz p) (KBusy bi)) in *.
  set (tA := mkSt _ _ _ _) in HIA, HsA, HliveA.
  assert (Hhf : head_free l2 = false)
    by (eapply head_not_free_after_free; [apply (pso_noadj _ _ Hps) | assumption]).
  assert (Ht2u : t2u = mkSt (upd s (SMixed b pg ps2) (sects tA)) (flist tA) (index tA) (front tA)).
  { unfold t2u, tA. cbn [sects flist index front]. rewrite upd_upd. reflexivity. }
  assert (HIH : InvH t2u (Some (s, psum l1 + nb))).
  { rewrite Ht2u. apply (split_free_inv tA s b pg l1 p' l2 nb); try assumption. reflexivity. }
  assert (Hlive2 : Permutation (live t2u) (pblock s pg (psum l1) (mkP (pv p) nb (KBusy bi)) bi :: live t)).
  { rewrite Ht2u. apply (gm_split_live tA s b pg l1 p' l2 nb KFree bi); try assumption; reflexivity. }
  assert (Hs2 : get_sect t2u s = SMixed b pg ps2).
  { unfold t2u. rewrite get_sect_mk_upd by assumption. rewrite Nat.eqb_refl. reflexivity. }
  set (bz := mkP (pv p) nb (KBusy bi)) in *. set (rm := mkP nb (psz p - nb) KFree) in *.
  assert (Hps2 : ps2 = (l1 ++ [bz]) ++ rm :: fix_pv (psz p - nb) l2)
    by (unfold ps2; rewrite <- app_assoc; reflexivity).
  assert (Hlen : S (length l1) = length (l1 ++ [bz])) by (rewrite app_length; cbn; lia).
  assert (Hsum : psum (l1 ++ [bz]) = psum l1 + nb) by (rewrite psum_app; cbn; lia).
  pose proof (ih_sect _ _ HIH s) as Hok2. rewrite Hs2 in Hok2. cbn [sect_ok] in Hok2. destruct Hok2 as [_ Hps2ok].
  split.
  - (* the remainder goes through piecePutMixed *)
    rewrite Hps2 in Hs2. rewrite Hlen.
    split.
    + eapply put_mixed_st_inv; [|exact Hs2]. rewrite Hsum. exact HIH.
    + assert (Hl2 : links_ok 0 ((l1 ++ [bz]) ++ rm :: fix_pv (psz p - nb) l2))
        by (rewrite <- Hps2; apply (pso_links _ _ Hps2ok)).
      assert (Hp1 : pos_sizes (l1 ++ [bz])).
      { pose proof (quant_pos _ (pso_sizes _ _ Hps2ok)) as Hq. rewrite Hps2 in Hq.
        apply pos_sizes_app in Hq. tauto. }
      exists b, pg, l1, bz, (mkP (put_pvp (l1 ++ [bz]) rm) (put_total (l1 ++ [bz]) rm (fix_pv (psz p - nb) l2)) KFree
                             :: fix_pv (put_total (l1 ++ [bz]) rm (fix_pv (psz p - nb) l2))
                                       (put_l3 (fix_pv (psz p - nb) l2))).
      split.
      * rewrite (put_mixed_st_eq t2u s b pg _ _ _ Hs2 Hl2 Hp1).
        rewrite get_sect_mk_upd by (unfold t2u; cbn [sects]; rewrite upd_length; assumption).
        rewrite Nat.eqb_refl. unfold put_ps, put_l0. rewrite last_free_snoc.
        cbn [kfree bz pkd is_free]. rewrite <- app_assoc. reflexivity.
      * split; [reflexivity|]. split; [reflexivity|]. split; [cbn; lia|].
        destruct (put_mixed_st_live t2u s b pg _ _ _ Hs2 Hl2 Hp1) as (X & Y & H1 & H2).
        rewrite H2. cbn [mixed_live rm pkd app] in H1. rewrite <- H1. exact Hlive2.
  - (* the btree entry is reused *)
    intros abs. split.
    + apply fill_hole_inv; try assumption.
      * unfold free_at. cbn [fst snd]. rewrite Hs2.
        replace (psum l1 + nb) with (0 + psum (l1 ++ [bz])) by lia.
        rewrite Hps2. apply (fview_decomp_inv (l1 ++ [bz]) rm (fix_pv (psz p - nb) l2) 0). reflexivity.
      * unfold front_at. cbn [fst snd]. rewrite Hs2. rewrite Hps2. intros Hc.
        replace (psum l1 + nb) with (psum (l1 ++ [bz])) in Hc by lia.
        apply frview_at_offset in Hc; [discriminate|].
        rewrite <- Hps2. apply quant_pos. apply (pso_sizes _ _ Hps2ok).
      * lia.
    + exists b, pg, l1, bz, (rm :: fix_pv (psz p - nb) l2).
      split; [exact Hs2|]. split; [reflexivity|]. split; [reflexivity|]. split; [cbn; lia|].
      exact Hlive2.
Qed.

Definition gm_post_from (t0 t : st) (nb code : Z) (t' : st) (r : option (nat * nat)) : Prop :=
  Inv t' /\
  match r with
  | None => True
  | Some (s, k) => exists b pg l1 p l2,
      get_sect t' s = SMixed b pg (l1 ++ p :: l2) /\ k = length l1 /\
      pkd p = KBusy (new_binfo code) /\ nb <= psz p /\
      Permutation (live t') (pblock s pg (psum l1) p (new_binfo code) :: live t0)
  end.

Lemma gm_front_states : forall t0 t s b pg l1 p l2 nb code,
  Inv t -> Permutation (live t) (live t0) ->
  get_sect t s = SMixed b pg (l1 ++ p :: l2) -> kfront p = true ->
  0 < nb -> nb <= psz p -> nb mod MixedSizeQuantum = 0 ->
  let bi := new_binfo code in
  gm_post_from t0 t nb code
    (mkSt (upd s (SMixed b pg (l1 ++ mkP (pv p) (psz p) (KBusy bi) :: l2)) (sects t)) (flist t) (index t) None)
    (Some (s, length l1)) /\
  (nb < psz p ->
   gm_post_from t0 t nb code
    (mkSt (upd s (SMixed b pg (l1 ++ mkP (pv p) nb (KBusy bi) :: mkP nb (psz p - nb) KFront
                               :: fix_pv (psz p - nb) l2)) (sects t)) (flist t) (index t)
          (Some (s, psum l1 + nb)))
    (Some (s, length l1))).
Proof.
  intros t0 t s b pg l1 p l2 nb code HI Hl0 Hs Hp Hnb Hle Hmod bi.
  assert (Hr : (s < length (sects t))%nat) by (apply get_sect_in_range; rewrite Hs; discriminate).
  set (p' := mkP (pv p) (psz p) (KBusy bi)).
  set (tA := mkSt (upd s (SMixed b pg (l1 ++ p' :: l2)) (sects t)) (flist t) (index t) None).
  assert (HIA : Inv tA) by (apply take_front_inv; assumption).
  assert (HsA : get_sect tA s = SMixed b pg (l1 ++ p' :: l2)).
  { unfold tA. rewrite get_sect_mk_upd by assumption. rewrite Nat.eqb_refl. reflexivity. }
  assert (HliveA : Permutation (live tA) (pblock s pg (psum l1) p' bi :: live t0)).
  { destruct (live_replace_mixed t s b pg l1 [p] l2 [p'] l2 (flist t) (index t) None Hs
                ltac:(reflexivity) ltac:(reflexivity)) as (X & Y & H1 & H2).
    cbn [app] in H2. fold tA in H2. rewrite H2.
    rewrite (mixed_live_single_busy s pg p' bi) by reflexivity.
    rewrite (mixed_live_single_nonbusy s pg p) in H1
      by (unfold kfront in Hp; destruct (pkd p); cbn in *; congruence).
    cbn [app] in H1. etransitivity; [apply (perm_insert _ X Y)|]. constructor.
    rewrite <- H1. assumption. }
  split.
  - split; [exact HIA|]. exists b, pg, l1, p', l2. repeat split; try assumption.
  - intros Hlt.
    set (ps2 := l1 ++ mkP (pv p) nb (KBusy bi) :: mkP nb (psz p - nb) KFront :: fix_pv (psz p - nb) l2).
    assert (Ht2 : mkSt (upd s (SMixed b pg ps2) (sects t)) (flist t) (index t) (Some (s, psum l1 + nb))
                  = mkSt (upd s (SMixed b pg ps2) (sects tA)) (flist tA) (index tA) (Some (s, psum l1 + nb))).
    { unfold tA. cbn [sects flist index front]. rewrite upd_upd. reflexivity. }
    rewrite Ht2. split.
    + apply (split_front_inv tA s b pg l1 p' l2 nb); try assumption; try reflexivity. cbn. lia.
    + exists b, pg, l1, (mkP (pv p) nb (KBusy bi)), (mkP nb (psz p - nb) KFront :: fix_pv (psz p - nb) l2).
      split.
      * rewrite get_sect_mk_upd by (unfold tA; cbn [sects]; rewrite upd_length; assumption).
        rewrite Nat.eqb_refl. reflexivity.
      * split; [reflexivity|]. split; [reflexivity|]. split; [cbn; lia|].
        apply (gm_split_live tA s b pg l1 p' l2 nb KFront bi); try assumption; reflexivity.
Qed.

Lemma front_decomp : forall t f, Inv t -> front t = Some f ->
  exists b pg l1 p l2, get_sect t (fst f) = SMixed b pg (l1 ++ p :: l2) /\ snd f = psum l1 /\
                       kfront p = true /\ pfind (l1 ++ p :: l2) 0 (snd f) 0 = Some (length l1).
Proof.
  intros t f HI Hf. destruct (ih_front_sound _ _ HI _ Hf) as [Hfa _].
  unfold front_at in Hfa. destruct (get_sect t (fst f)) as [| b pg ps |] eqn:Hs; try tauto.
  pose proof (ih_sect _ _ HI (fst f)) as Hok. rewrite Hs in Hok. cbn [sect_ok] in Hok. destruct Hok as [_ Hps].
  apply frview_decomp in Hfa. destruct Hfa as (l1 & p & l2 & -> & Ho & Hp).
  exists b, pg, l1, p, l2. repeat split; try assumption; try lia.
  rewrite Ho. pose proof (quant_pos _ (pso_sizes _ _ Hps)) as Hpos. apply pos_sizes_app in Hpos.
  rewrite (pfind_app l1 p l2 0 0) by tauto. reflexivity.
Qed.

Theorem get_mixed_spec : forall t nb code base t' r,
  Inv t -> 0 < nb -> nb mod MixedSizeQuantum = 0 ->
  get_mixed t nb code base = (t', r) -> gm_post t nb code t' r.
Proof.
  intros t nb code base t' r HI Hnb Hmod Hg. unfold get_mixed in Hg.
  pose proof (ih_keys _ _ HI) as Hkeys.
  destruct (idx_search_ge nb (index t)) as [[key [|mi restl]]|] eqn:Es.
  - inversion Hg; subst. split; [assumption | reflexivity].
  - (* a piece of the free tree *)
    destruct (search_ge_some _ _ _ _ 0 Hkeys Es) as (Hin & Hle & Hlook & _).
    assert (Hmi : In mi (ilookup key (index t))) by (rewrite Hlook; left; reflexivity).
    destruct (ih_ix_sound _ _ HI _ _ Hmi) as [Hfa _]. unfold free_at in Hfa.
    destruct (get_sect t (fst mi)) as [| b pg ps |] eqn:Hs; try tauto.
    pose proof (ih_sect _ _ HI (fst mi)) as Hok. rewrite Hs in Hok. cbn [sect_ok] in Hok.
    destruct Hok as [Hpg Hps].
    apply fview_decomp in Hfa. destruct Hfa as (l1 & p & l2 & -> & Ho & Hk & Hp).
    rewrite Z.add_0_l in Ho.
    pose proof (quant_pos _ (pso_sizes _ _ Hps)) as Hpos. apply pos_sizes_app in Hpos.
    destruct Hpos as [Hpos1 _].
    rewrite Ho in Hg. rewrite <- (Z.add_0_l (psum l1)) in Hg at 1.
    rewrite (pfind_app l1 p l2 0 0 Hpos1) in Hg. cbn [Nat.add] in Hg.
    rewrite set_kind_app, pget_app in Hg. cbn [psz] in Hg.
    destruct mi as [s o]. cbn [fst snd] in *. subst o key.
    destruct (nb + SplitSlack <? psz p) eqn:Esp.
    + (* split *)
      rewrite psplit_app in Hg. cbn [pv psz pkd] in Hg.
      assert (Hnb' : 0 < nb < psz p) by (unfold SplitSlack in *; lia).
      destruct (gm_tree_split t s b pg l1 p l2 nb code restl HI Hs Hp Hlook Hnb' Hmod) as [HA HB].
      pose proof (unlink_keep_to_unlink _ _ _ _ 0 Hkeys Hlook) as Hixu.
      destruct restl as [|m restl']; cbn [negb] in Hg.
      * (* the only piece of its size *)
        match type of Hg with context [if negb ?c then _ else _] => destruct c end; cbn [negb] in Hg.
        -- inversion Hg; subst t' r. unfold set_index. cbn [sects flist index front]. rewrite Hixu.
           apply HB.
        -- inversion Hg; subst t' r. unfold set_index. cbn [sects flist index front]. rewrite Hixu.
           exact HA.
      * inversion Hg; subst t' r. rewrite Hixu. exact HA.
    + (* whole piece *)
      destruct (gm_tree_take t s b pg l1 p l2 (new_binfo code) HI Hs Hp) as (HIA & HsA & HliveA).
      pose proof (unlink_keep_to_unlink _ _ _ _ 0 Hkeys Hlook) as Hixu.
      assert (Hixu' : (if match restl with [] => true | _ => false end
                       then idx_delete (psz p) (idx_unlink_keep (psz p) (s, psum l1) (index t))
                       else idx_unlink_keep (psz p) (s, psum l1) (index t))
                      = idx_unlink (psz p) (s, psum l1) (index t))
        by (rewrite <- Hixu; destruct restl; reflexivity).
      rewrite Hixu' in Hg. inversion Hg; subst t' r.
      split; [exact HIA|].
      exists b, pg, l1, (mkP (pv p) (psz p) (KBusy (new_binfo code))), l2.
      repeat split; try assumption.
  - (* the frontier *)
    (* 1. a frontier piece that is too small is given to the free tree *)
    set (t1 := match front t with
               | Some f => match get_sect t (fst f) with
                           | SMixed _ _ ps => match pfind ps 0 (snd f) 0 with
                                              | Some k => if psz (pget ps k) <? nb
                                                          then put_mixed_st (set_front t None) (fst f) k else t
                                              | None => t end
                           | _ => t end
               | None => t end) in Hg.
    assert (H1 : Inv t1 /\ Permutation (live t1) (live t) /\
                 (forall f, front t1 = Some f ->
                    exists b pg l1 p l2, get_sect t1 (fst f) = SMixed b pg (l1 ++ p :: l2) /\
                       snd f = psum l1 /\ kfront p = true /\ nb <= psz p)).
    { unfold t1. destruct (front t) as [f|] eqn:Hf.
      - destruct (front_decomp t f HI Hf) as (b & pg & l1 & p & l2 & Hs & Ho & Hp & Hpf).
        rewrite Hs, Hpf, pget_app.
        destruct (psz p <? nb) eqn:El.
        + pose proof (ih_sect _ _ HI (fst f)) as Hok. rewrite Hs in Hok. cbn [sect_ok] in Hok.
          destruct Hok as [_ Hps].
          pose proof (quant_pos _ (pso_sizes _ _ Hps)) as Hpos. apply pos_sizes_app in Hpos.
          assert (Hs' : get_sect (set_front t None) (fst f) = SMixed b pg (l1 ++ p :: l2)) by exact Hs.
          split; [|split].
          * eapply put_mixed_st_inv; [|exact Hs']. rewrite <- Ho.
            replace (fst f, snd f) with f by (destruct f; reflexivity).
            apply invh_drop_front; assumption.
          * destruct (put_mixed_st_live (set_front t None) (fst f) b pg l1 p l2 Hs'
                        (pso_links _ _ Hps) ltac:(tauto)) as (X & Y & Ha & Hb).
            rewrite Hb. rewrite live_set_front in Ha. rewrite Ha.
            rewrite (mixed_live_single_nonbusy _ pg p)
              by (unfold kfront in Hp; destruct (pkd p); cbn in *; congruence).
            reflexivity.
          * intros f' Hf'. exfalso.
            rewrite (put_mixed_st_eq (set_front t None) (fst f) b pg l1 p l2 Hs' (pso_links _ _ Hps) ltac:(tauto)) in Hf'.
            cbn in Hf'. discriminate.
        + split; [assumption|]. split; [reflexivity|].
          intros f' Hf'. rewrite Hf in Hf'. inversion Hf'; subst f'.
          exists b, pg, l1, p, l2. repeat split; try assumption. lia.
      - split; [assumption|]. split; [reflexivity|]. intros f' Hf'. congruence. }
    destruct H1 as (HI1 & Hl1 & Hf1).
    (* 2. a new frontier section when there is none *)
    set (t2 := match front t1 with
               | Some _ => t1
               | None => if PgCountMax <? mixed_pages nb then t1
                         else mkSt (sects t1 ++ [SMixed base (mixed_pages nb)
                                      [mkP 0 (qm_count (mixed_pages nb) MixedSizeQuantum * MixedSizeQuantum) KFront]])
                                   (flist t1) (index t1) (Some (length (sects t1), 0))
               end) in Hg.
    assert (H2 : Inv t2 /\ Permutation (live t2) (live t) /\
                 (forall f, front t2 = Some f ->
                    exists b pg l1 p l2, get_sect t2 (fst f) = SMixed b pg (l1 ++ p :: l2) /\
                       snd f = psum l1 /\ kfront p = true /\ nb <= psz p)).
    { unfold t2. destruct (front t1) as [f|] eqn:Hf.
      - split; [assumption|]. split; [assumption|]. intros f' Hf'. rewrite Hf in Hf'. inversion Hf'; subst.
        apply Hf1. assumption.
      - destruct (PgCountMax <? mixed_pages nb).
        + split; [assumption|]. split; [assumption|]. intros f' Hf'. congruence.
        + destruct (fresh_mixed_fits nb Hnb Hmod) as [Hpgs Hfit].
          assert (Hnq : 0 < qm_count (mixed_pages nb) MixedSizeQuantum).
          { unfold MixedSizeQuantum in *. nia. }
          split; [|split].
          * apply fresh_mixed_inv; try assumption; [unfold MixedSizePgGroup in *; lia | reflexivity].
          * rewrite live_app_sect. cbn [sect_live mixed_live pkd]. rewrite app_nil_r. assumption.
          * intros f' Hf'. cbn [front] in Hf'. inversion Hf'; subst f'. cbn [fst snd].
            eexists base, (mixed_pages nb), [], _, [].
            split; [rewrite get_sect_mk_app, Nat.eqb_refl; reflexivity|].
            split; [reflexivity|]. split; [reflexivity|]. cbn [psz]. assumption. }
    destruct H2 as (HI2 & Hl2 & Hf2).
    (* 3. take the piece from the frontier *)
    destruct (front t2) as [f|] eqn:Hf.
    + destruct (front_decomp t2 f HI2 Hf) as (b & pg & l1 & p & l2 & Hs & Ho & Hp & Hpf).
      destruct (Hf2 f eq_refl) as (b' & pg' & l1' & p'' & l2' & Hs' & Ho' & Hp' & Hsz').
      assert (Hsz : nb <= psz p).
      { rewrite Hs in Hs'. inversion Hs'; subst b' pg'.
        pose proof (ih_sect _ _ HI2 (fst f)) as Hok. rewrite Hs in Hok. cbn [sect_ok] in Hok.
        destruct Hok as [_ Hps]. pose proof (quant_pos _ (pso_sizes _ _ Hps)) as Hpos.
        assert (In (snd f) (frview (l1 ++ p :: l2) 0)).
        { rewrite Ho. rewrite frview_app. apply in_or_app. right. cbn [frview]. rewrite Hp. left. lia. }
        (* same offset, same piece *)
        rewrite H2 in Hpos.
        assert (Heq : pfind (l1' ++ p'' :: l2') 0 (snd f) 0 = Some (length l1')).
        { rewrite Ho'. rewrite <- (Z.add_0_l (psum l1')). apply pfind_app. apply pos_sizes_app in Hpos. tauto. }
        rewrite <- H2 in Heq. rewrite Hpf in Heq. inversion Heq as [Hlen].
        assert (pget (l1 ++ p :: l2) (length l1) = pget (l1' ++ p'' :: l2') (length l1'))
          by (rewrite H2, Hlen; reflexivity).
        rewrite !pget_app in H0. subst. assumption. }
      rewrite Hs, Hpf in Hg. rewrite set_kind_app, pget_app in Hg. cbn [psz] in Hg.
      destruct (gm_front_states t t2 (fst f) b pg l1 p l2 nb code HI2 Hl2 Hs Hp Hnb Hsz Hmod) as [HA HB].
      destruct (nb + SplitSlack <? psz p) eqn:Esp.
      * rewrite psplit_app in Hg. cbn [pv psz pkd] in Hg. inversion Hg; subst t' r.
        rewrite Ho. apply HB. unfold SplitSlack in *. lia.
      * inversion Hg; subst t' r. exact HA.
    + inversion Hg; subst t' r. split; [assumption | exact Hl2].
Qed.

(* ---- fixed sections -------------------------------------------------------- *)

Lemma fixed_live_app : forall s qsz q1 q2 k,
  fixed_live s qsz (q1 ++ q2) k = fixed_live s qsz q1 k ++ fixed_live s qsz q2 (k + length q1)%nat.
Proof.
  induction q1 as [|q q1 IH]; intros q2 k; cbn [app fixed_live length].
  - rewrite Nat.add_0_r. reflexivity.
  - replace (k + S (length q1))%nat with (S k + length q1)%nat by lia.
    destruct q; rewrite IH; reflexivity.
Qed.

Lemma fixed_live_allfree : forall s qsz n k, fixed_live s qsz (repeat QFree n) k = [].
Proof. induction n as [|n IH]; intros k; cbn; [reflexivity | apply IH]. Qed.

Lemma fixed_live_mid : forall s qsz q1 q q2,
  fixed_live s qsz (q1 ++ q :: q2) 0 =
  fixed_live s qsz q1 0 ++ fixed_live s qsz [q] (length q1) ++ fixed_live s qsz q2 (length q1 + 1).
Proof.
  intros. change (q1 ++ q :: q2) with (q1 ++ [q] ++ q2). rewrite !fixed_live_app. reflexivity.
Qed.

Definition qblock (s : nat) (qsz : Z) (i : nat) (bi : binfo) : addr * Z * binfo :=
  ((s, fdata_off qsz + Z.of_nat i * qsz), qsz, bi).

Lemma live_replace_fixed : forall t s bs qsz c q1 q q' q2 fl ix fr,
  get_sect t s = SFixed bs qsz c (q1 ++ q :: q2) ->
  exists X Y, live t = X ++ fixed_live s qsz [q] (length q1) ++ Y /\
              live (mkSt (upd s (SFixed bs qsz c (q1 ++ q' :: q2)) (sects t)) fl ix fr)
              = X ++ fixed_live s qsz [q'] (length q1) ++ Y.
Proof.
  intros t s bs qsz c q1 q q' q2 fl ix fr Hs.
  assert (Hr : (s < length (sects t))%nat) by (apply get_sect_in_range; rewrite Hs; discriminate).
  destruct (live_upd t s (SFixed bs qsz c (q1 ++ q' :: q2)) fl ix fr Hr) as (X & Y & H1 & H2).
  rewrite Hs in H1. cbn [sect_live] in H1, H2.
  rewrite fixed_live_mid in H1, H2.
  exists (X ++ fixed_live s qsz q1 0), (fixed_live s qsz q2 (length q1 + 1) ++ Y).
  rewrite H1, H2. rewrite <- !app_assoc. split; reflexivity.
Qed.

Lemma in_nat_pairs : forall s n x, In x (nat_pairs s n) <-> fst x = s /\ (snd x < n)%nat.
Proof.
  intros s n [a b]. unfold nat_pairs. rewrite in_map_iff. cbn [fst snd]. split.
  - intros (i & Heq & Hin). inversion Heq; subst. apply in_seq in Hin. split; [reflexivity | lia].
  - intros [-> Hb]. exists b. split; [reflexivity | apply in_seq; lia].
Qed.

Lemma nodup_nat_pairs : forall s n, NoDup (nat_pairs s n).
Proof.
  intros s n. unfold nat_pairs. apply FinFun.Injective_map_NoDup; [|apply seq_NoDup].
  intros a b H. inversion H. reflexivity.
Qed.

Lemma nth_error_repeat : forall (A : Type) (x : A) n i, (i < n)%nat -> nth_error (repeat x n) i = Some x.
Proof. induction n as [|n IH]; intros [|i] H; cbn; try lia; [reflexivity | apply IH; lia]. Qed.

(* piecesGetFixed: a fresh section of class c, all its quanta on the free list *)
Lemma fresh_fixed_inv : forall t base c,
  Inv t -> (c < nclasses)%nat -> nth c (flist t) [] = [] ->
  let qsz := class_size c in
  let nq := Z.to_nat (qm_count FixedSizePgGroup qsz) in
  let s := length (sects t) in
  let t1 := mkSt (sects t ++ [SFixed base qsz c (repeat QFree nq)])
                 (upd c (nat_pairs s nq ++ nth c (flist t) []) (flist t)) (index t) (front t) in
  Inv t1 /\ live t1 = live t /\ nth c (flist t1) [] = nat_pairs s nq.
Proof.
  intros t base c HI Hc Hempty qsz nq s t1.
  set (x := SFixed base qsz c (repeat QFree nq)).
  assert (Hcl : (c < length (flist t))%nat) by (rewrite (ih_flen _ _ HI); assumption).
  assert (Hget : forall s', get_sect t1 s' = if Nat.eqb s s' then x else get_sect t s')
    by (intros; apply get_sect_mk_app).
  assert (Hdead : get_sect t s = SDead) by apply get_sect_fresh_dead.
  assert (Hfa' : forall y k', free_at t1 y k' <-> free_at t y k').
  { intros y k'. unfold free_at. rewrite Hget. destruct (Nat.eqb s (fst y)) eqn:E; [|tauto].
    apply Nat.eqb_eq in E. rewrite <- E, Hdead. cbn. tauto. }
  assert (Hfr' : forall y, front_at t1 y <-> front_at t y).
  { intros y. unfold front_at. rewrite Hget. destruct (Nat.eqb s (fst y)) eqn:E; [|tauto].
    apply Nat.eqb_eq in E. rewrite <- E, Hdead. cbn. tauto. }
  assert (Hfq' : forall c' y, fq t1 c' y <-> fq t c' y \/ (c' = c /\ In y (nat_pairs s nq))).
  { intros c' [sy iy]. rewrite in_nat_pairs. unfold fq. rewrite Hget. cbn [fst snd].
    destruct (Nat.eqb s sy) eqn:E.
    - apply Nat.eqb_eq in E. subst sy. rewrite Hdead. cbn [x]. split.
      + intros [-> Hn]. right. split; [reflexivity|]. split; [reflexivity|].
        assert (Hlt : (iy < length (repeat QFree nq))%nat) by (apply nth_error_Some; rewrite Hn; discriminate).
        rewrite repeat_length in Hlt. exact Hlt.
      + intros [[]|(-> & _ & Hi)]. split; [reflexivity|]. apply nth_error_repeat. assumption.
    - apply Nat.eqb_neq in E. intuition congruence. }
  assert (Hfl : forall c', nth c' (flist t1) [] = if Nat.eqb c c' then nat_pairs s nq else nth c' (flist t) []).
  { intros c'. unfold t1. cbn [flist]. rewrite nth_flist_upd by assumption. rewrite Hempty, app_nil_r. reflexivity. }
  split; [|split].
  - constructor; cbn [flist index front sects t1].
    + rewrite upd_length. apply (ih_flen _ _ HI).
    + intros s'. rewrite Hget. destruct (Nat.eqb s s'); [|apply (ih_sect _ _ HI)].
      cbn [x sect_ok]. rewrite repeat_length. auto.
    + intros c' y Hy. apply Hfq'. fold (flist t1) in Hy.
      change (upd c (nat_pairs s nq ++ nth c (flist t) []) (flist t)) with (flist t1) in Hy.
      rewrite Hfl in Hy. destruct (Nat.eqb c c') eqn:E.
      * apply Nat.eqb_eq in E. subst. right. auto.
      * left. apply (ih_fl_sound _ _ HI). assumption.
    + intros c'. change (upd c (nat_pairs s nq ++ nth c (flist t) []) (flist t)) with (flist t1).
      rewrite Hfl. destruct (Nat.eqb c c'); [apply nodup_nat_pairs | apply (ih_fl_nodup _ _ HI)].
    + intros c' y Hy. apply Hfq' in Hy.
      change (upd c (nat_pairs s nq ++ nth c (flist t) []) (flist t)) with (flist t1).
      rewrite Hfl. destruct (Nat.eqb c c') eqn:E.
      * apply Nat.eqb_eq in E. subst c'. destruct Hy as [Hy|[_ Hy]]; [|assumption].
        apply (ih_fl_complete _ _ HI) in Hy. rewrite Hempty in Hy. destruct Hy.
      * apply Nat.eqb_neq in E. destruct Hy as [Hy|[-> _]]; [|congruence].
        apply (ih_fl_complete _ _ HI). assumption.
    + apply (ih_keys _ _ HI).
    + apply (ih_noempty _ _ HI).
    + apply (ih_ix_nodup _ _ HI).
    + intros k y Hin. destruct (ih_ix_sound _ _ HI _ _ Hin). split; [apply Hfa'|]; assumption.
    + intros k y Hy Hh. apply (ih_ix_complete _ _ HI); [apply Hfa'|]; assumption.
    + intros y Hy. destruct (ih_front_sound _ _ HI _ Hy). split; [apply Hfr'|]; assumption.
    + intros y Hy Hh. apply (ih_front_complete _ _ HI); [apply Hfr'|]; assumption.
  - unfold t1. rewrite live_app_sect. cbn [sect_live]. rewrite fixed_live_allfree, app_nil_r. reflexivity.
  - rewrite Hfl, Nat.eqb_refl. reflexivity.
Qed.

(* pop of a free quantum *)
Lemma pop_fixed_inv : forall t c s i rest bi,
  Inv t -> nth c (flist t) [] = (s, i) :: rest ->
  exists bs qsz qs,
    get_sect t s = SFixed bs qsz c qs /\ (c < nclasses)%nat /\ qsz = class_size c /\
    nth_error qs i = Some QFree /\
    let t' := mkSt (upd s (SFixed bs qsz c (upd i (QBusy bi) qs)) (sects t))
                   (upd c rest (flist t)) (index t) (front t) in
    Inv t' /\ Permutation (live t') (qblock s qsz i bi :: live t).
Proof.
  intros t c s i rest bi HI Hfl.
  assert (Hin : In (s, i) (nth c (flist t) [])) by (rewrite Hfl; left; reflexivity).
  pose proof (ih_fl_sound _ _ HI _ _ Hin) as Hfq. unfold fq in Hfq. cbn [fst snd] in Hfq.
  destruct (get_sect t s) as [bs qsz c' qs| |] eqn:Hs; try tauto. destruct Hfq as [-> Hn].
  pose proof (ih_sect _ _ HI s) as Hok. rewrite Hs in Hok. cbn [sect_ok] in Hok. destruct Hok as (Hc & Hqsz & Hlen).
  exists bs, qsz, qs. split; [reflexivity|]. split; [assumption|]. split; [assumption|]. split; [assumption|].
  cbv zeta. split.
  - assert (Hr : (s < length (sects t))%nat) by (apply get_sect_in_range; rewrite Hs; discriminate).
    assert (Hi : (i < length qs)%nat) by (apply nth_error_Some; congruence).
    assert (Hcl : (c < length (flist t))%nat) by (rewrite (ih_flen _ _ HI); assumption).
    set (t' := mkSt _ _ _ _).
    assert (Hget : forall s', get_sect t' s' = if Nat.eqb s s' then SFixed bs qsz c (upd i (QBusy bi) qs) else get_sect t s')
      by (intros; apply get_sect_mk_upd; assumption).
    assert (Hfa : forall x k, free_at t' x k <-> free_at t x k).
    { intros x k. rewrite !free_at_eq, Hget. destruct (Nat.eqb s (fst x)) eqn:E; [|tauto].
      apply Nat.eqb_eq in E. subst. rewrite Hs. cbn. tauto. }
    assert (Hfra : forall x, front_at t' x <-> front_at t x).
    { intros x. rewrite !front_at_eq, Hget. destruct (Nat.eqb s (fst x)) eqn:E; [|tauto].
      apply Nat.eqb_eq in E. subst. rewrite Hs. cbn. tauto. }
    assert (Hfq : forall c' x, fq t' c' x <-> fq t c' x /\ x <> (s, i)).
    { intros c' [sx ix]. rewrite !fq_eq, Hget. cbn [fst snd]. destruct (Nat.eqb s sx) eqn:E.
      - apply Nat.eqb_eq in E. subst sx. rewrite Hs. cbn.
        destruct (Nat.eq_dec i ix) as [->|Hne].
        + rewrite upd_nth_error_same by assumption. split; [intros [_ H]; discriminate | intros [_ H]; congruence].
        + rewrite upd_nth_error_other by assumption. intuition congruence.
      - apply Nat.eqb_neq in E. intuition congruence. }
    pose proof (ih_fl_nodup _ _ HI c) as Hnd. rewrite Hfl in Hnd. inversion Hnd as [|? ? Hnotin Hnd']; subst.
    constructor; cbn [flist index front sects t'].
    + rewrite upd_length. apply (ih_flen _ _ HI).
    + intros s'. rewrite Hget. destruct (Nat.eqb s s'); [|apply (ih_sect _ _ HI)].
      cbn. rewrite upd_length. auto.
    + intros c' x Hx. apply Hfq. rewrite nth_flist_upd in Hx by assumption.
      destruct (Nat.eqb c c') eqn:E.
      * apply Nat.eqb_eq in E. subst c'. split; [|intros ->; tauto].
        apply (ih_fl_sound _ _ HI). rewrite Hfl. right. assumption.
      * split; [apply (ih_fl_sound _ _ HI); assumption|]. intros ->.
        apply (ih_fl_sound _ _ HI) in Hx. unfold fq in Hx. cbn [fst snd] in Hx. rewrite Hs in Hx.
        apply Nat.eqb_neq in E. destruct Hx. congruence.
    + intros c'. rewrite nth_flist_upd by assumption. destruct (Nat.eqb c c'); [assumption | apply (ih_fl_nodup _ _ HI)].
    + intros c' x Hx. apply Hfq in Hx. destruct Hx as [Hx Hne]. rewrite nth_flist_upd by assumption.
      apply (ih_fl_complete _ _ HI) in Hx.
      destruct (Nat.eqb c c') eqn:E; [|assumption].
      apply Nat.eqb_eq in E. subst c'. rewrite Hfl in Hx. destruct Hx as [Hx|Hx]; [congruence | assumption].
    + apply (ih_keys _ _ HI).
    + apply (ih_noempty _ _ HI).
    + apply (ih_ix_nodup _ _ HI).
    + intros k x Hin'. destruct (ih_ix_sound _ _ HI _ _ Hin'). split; [apply Hfa|]; assumption.
    + intros k x Hx Hh. apply (ih_ix_complete _ _ HI); [apply Hfa|]; assumption.
    + intros x Hx. destruct (ih_front_sound _ _ HI _ Hx). split; [apply Hfra|]; assumption.
    + intros x Hx Hh. apply (ih_front_complete _ _ HI); [apply Hfra|]; assumption.
  - destruct (nth_error_split' _ _ _ _ Hn) as (q1 & q2 & -> & Hlen1). subst i.
    rewrite upd_app.
    destruct (live_replace_fixed t s bs qsz c q1 QFree (QBusy bi) q2 (upd c rest (flist t)) (index t) (front t) Hs)
      as (X & Y & H1 & H2).
    rewrite H2, H1. cbn [fixed_live app]. apply (perm_insert _ X Y).
Qed.

Definition aligned (a : addr) : Prop := snd a mod AlignMost = 0.

Theorem alloc_spec : forall t n code base t' o,
  Inv t -> 0 < n -> alloc t n code base = (t', o) ->
  Inv t' /\
  match o with
  | OAddr a z c => aligned a /\ n <= z /\ c = Z.land code QmCodeMask /\
                   Permutation (live t') ((a, z, new_binfo code) :: live t)
  | OErr => Permutation (live t') (live t)
  | _ => False
  end.
Proof.
  intros t n code base t' o HI Hn Ha. unfold alloc in Ha.
  destruct (n =? 0) eqn:E0; [lia|].
  destruct (n <=? FixedSizeMax) eqn:Ef.
  - (* fixed *)
    destruct (fixed_for_spec n ltac:(lia)) as (Hge & Hpos & Hc & Hcs & Hidx & _).
    set (c := Z.to_nat (fixedSizeIndexFor n)) in *.
    set (t1 := match nth c (flist t) [] with [] => _ | _ => t end) in Ha.
    assert (H1 : Inv t1 /\ live t1 = live t /\ nth c (flist t1) [] <> []).
    { unfold t1. destruct (nth c (flist t) []) as [|e l] eqn:Efl.
      - rewrite Hidx. fold c. rewrite <- Hcs.
        pose proof (fresh_fixed_inv t base c HI Hc Efl) as H. cbv zeta in H. rewrite Efl in H.
        destruct H as (HI1 & Hl1 & Hfl1).
        split; [exact HI1|]. split; [exact Hl1|].
        rewrite Hfl1. 
        destruct (per_class_all (class_size c) (class_size_in c Hc)) as (_ & _ & _ & _ & Hq).
        unfold nat_pairs. destruct (Z.to_nat (qm_count FixedSizePgGroup (class_size c))) eqn:En; [lia|].
        cbn. discriminate.
      - split; [assumption|]. split; [reflexivity|]. rewrite Efl. discriminate. }
    destruct H1 as (HI1 & Hl1 & Hne).
    destruct (nth c (flist t1) []) as [|[s i] rest] eqn:Efl1; [congruence|].
    destruct (pop_fixed_inv t1 c s i rest (new_binfo code) HI1 Efl1)
      as (bs & qsz & qs & Hs & Hc' & Hqsz & Hnq & HI' & Hlive').
    rewrite Hs in Ha. rewrite (qm_index_ok c qsz i Hc' Hqsz) in Ha. inversion Ha; subst t' o.
    split; [exact HI'|]. split; [|split; [|split]].
    + unfold aligned. cbn [snd]. rewrite Hqsz. rewrite Hcs. apply fixed_block_aligned. lia.
    + rewrite Hqsz, Hcs. assumption.
    + reflexivity.
    + rewrite <- Hl1. exact Hlive'.
  - (* mixed *)
    destruct (mixed_nb_spec n Hn) as (Hnb1 & Hnb2 & Hnb3).
    destruct (get_mixed t (mixed_nb n) code base) as [t1 [[s k]|]] eqn:Eg.
    + destruct (get_mixed_spec _ _ _ _ _ _ HI Hnb3 Hnb2 Eg) as [HI1 (b & pg & l1 & p & l2 & Hs & -> & Hk & Hsz & Hlive)].
      inversion Ha; subst t' o. split; [exact HI1|].
      unfold bref_addr, bref_size. rewrite Hs. cbn [mixed_pieces_of]. rewrite poff_app, pget_app.
      pose proof (ih_sect _ _ HI1 s) as Hok. rewrite Hs in Hok. cbn [sect_ok] in Hok. destruct Hok as [_ Hps].
      split; [|split; [|split]].
      * unfold aligned. cbn [snd]. apply mixed_block_aligned.
        pose proof (pso_sizes _ _ Hps) as Hq. apply quant_sizes_app in Hq. apply (quant_psum l1). tauto.
      * lia.
      * reflexivity.
      * exact Hlive.
    + destruct (get_mixed_spec _ _ _ _ _ _ HI Hnb3 Hnb2 Eg) as [HI1 _].
      pose proof (get_mixed_spec _ _ _ _ _ _ HI Hnb3 Hnb2 Eg) as [_ Hl]. clear Hl.
      destruct (get_mixed_spec _ _ _ _ _ _ HI Hnb3 Hnb2 Eg) as [_ Hl].
      inversion Ha; subst t' o. split; assumption.
Qed.

(* ---- the initial state ------------------------------------------------------ *)

Lemma nth_repeat_nil : forall (A : Type) n c, nth c (repeat (@nil A) n) [] = [].
Proof. induction n as [|n IH]; intros [|c]; cbn; auto. Qed.

Theorem inv_init : Inv st0.
Proof.
  constructor; cbn [st0 flist index front sects].
  - apply repeat_length.
  - intros s. unfold get_sect. cbn. destruct s; exact I.
  - intros c x Hx. rewrite nth_repeat_nil in Hx. destruct Hx.
  - intros c. rewrite nth_repeat_nil. constructor.
  - intros c x Hx. unfold fq, get_sect in Hx. cbn in Hx. destruct (fst x); destruct Hx.
  - exact I.
  - constructor.
  - intros k. constructor.
  - intros k x Hx. destruct Hx.
  - intros k x Hx. unfold free_at, get_sect in Hx. cbn in Hx. destruct (fst x); destruct Hx.
  - intros x Hx. discriminate.
  - intros x Hx. unfold front_at, get_sect in Hx. cbn in Hx. destruct (fst x); destruct Hx.
Qed.

(* ---- lookup and live --------------------------------------------------------- *)

Lemma lookup_live_fix : forall t a s i b, lookup t a = Some (BFix s i, b) ->
  exists bs qsz c q1 q2, get_sect t s = SFixed bs qsz c (q1 ++ QBusy b :: q2) /\ i = length q1 /\
                         a = (s, fdata_off qsz + Z.of_nat i * qsz).
Proof.
  intros t a s i b H. destruct (lookup_fix _ _ _ _ _ H) as (bs & qsz & c & qs & Hs & Hn & Hfst & Hq & Hsnd).
  destruct (nth_error_split' _ _ _ _ Hn) as (q1 & q2 & -> & Hlen).
  exists bs, qsz, c, q1, q2. repeat split; auto. destruct a; cbn in *; subst; reflexivity.
Qed.

Theorem free_spec : forall t a t' o, Inv t -> free t a = (t', o) ->
  Inv t' /\
  match o with
  | ONone => exists r b, lookup t a = Some (r, b) /\ Permutation (live t) ((a, bref_size t r, b) :: live t')
  | OErr => t' = t /\ lookup t a = None
  | _ => False
  end.
Proof.
  intros t a t' o HI Hf. split; [eapply free_inv; eassumption|].
  unfold free in Hf.
  destruct (lookup t a) as [[[s i|s k] b]|] eqn:El.
  - destruct (lookup_live_fix _ _ _ _ _ El) as (bs & qsz & c & q1 & q2 & Hs & -> & Ha).
    rewrite Hs in Hf.
    pose proof (ih_sect _ _ HI s) as Hok. rewrite Hs in Hok. cbn [sect_ok] in Hok. destruct Hok as (Hc & Hqsz & Hlen).
    rewrite (qm_index_ok c qsz _ Hc Hqsz) in Hf. inversion Hf; subst t' o.
    exists (BFix s (length q1)), b. split; [reflexivity|]. unfold bref_size. rewrite Hs. rewrite upd_app.
    destruct (live_replace_fixed t s bs qsz c q1 (QBusy b) QFree q2
                (upd c ((s, length q1) :: nth c (flist t) []) (flist t)) (index t) (front t) Hs)
      as (X & Y & H1 & H2).
    rewrite H1, H2. cbn [fixed_live app]. rewrite Ha. apply (perm_insert _ X Y).
  - destruct (lookup_mix _ _ _ _ _ El) as (bs & pg & l1 & p & l2 & Hs & -> & Hk & Hfst & Hsnd).
    inversion Hf; subst t' o.
    pose proof (ih_sect _ _ HI s) as Hok. rewrite Hs in Hok. cbn [sect_ok] in Hok. destruct Hok as [_ Hps].
    pose proof (quant_pos _ (pso_sizes _ _ Hps)) as Hpos. apply pos_sizes_app in Hpos.
    exists (BMix s (length l1)), b. split; [reflexivity|]. unfold bref_size. rewrite Hs. cbn [mixed_pieces_of].
    rewrite pget_app.
    destruct (put_mixed_st_live t s bs pg l1 p l2 Hs (pso_links _ _ Hps) ltac:(tauto)) as (X & Y & H1 & H2).
    rewrite H1, H2. rewrite (mixed_live_single_busy s pg p b) by assumption.
    unfold pblock. replace (s, mdata_off pg + psum l1 + MxMemHeadSize) with a
      by (destruct a; cbn in *; subst; reflexivity).
    apply (perm_insert _ X Y).
  - inversion Hf; subst. split; reflexivity.
Qed.

(* ---- owner operations ----------------------------------------------------- *)

Lemma set_binfo_live : forall t a r b b', Inv t -> lookup t a = Some (r, b) ->
  exists R, Permutation (live t) ((a, bref_size t r, b) :: R) /\
            Permutation (live (set_binfo t r b')) ((a, bref_size t r, b') :: R) /\
            bref_size (set_binfo t r b') r = bref_size t r.
Proof.
  intros t a r b b' HI Hl. destruct r as [s i|s k].
  - destruct (lookup_live_fix _ _ _ _ _ Hl) as (bs & qsz & c & q1 & q2 & Hs & -> & Ha).
    unfold set_binfo, bref_size. rewrite Hs. unfold set_sect. rewrite upd_app.
    destruct (live_replace_fixed t s bs qsz c q1 (QBusy b) (QBusy b') q2 (flist t) (index t) (front t) Hs)
      as (X & Y & H1 & H2).
    exists (X ++ Y). rewrite H1, H2. cbn [fixed_live app]. rewrite Ha.
    split; [apply (perm_insert _ X Y)|]. split; [apply (perm_insert _ X Y)|].
    assert (Hr : (s < length (sects t))%nat) by (apply get_sect_in_range; rewrite Hs; discriminate).
    rewrite get_sect_mk_upd by assumption. rewrite Nat.eqb_refl. reflexivity.
  - destruct (lookup_mix _ _ _ _ _ Hl) as (bs & pg & l1 & p & l2 & Hs & -> & Hk & Hfst & Hsnd).
    unfold set_binfo, bref_size. rewrite Hs. unfold set_sect. rewrite set_kind_app.
    destruct (live_replace_mixed t s bs pg l1 [p] l2 [mkP (pv p) (psz p) (KBusy b')] l2 (flist t) (index t) (front t)
                Hs ltac:(reflexivity) ltac:(reflexivity)) as (X & Y & H1 & H2).
    cbn [app] in H2. exists (X ++ Y). rewrite H1, H2.
    rewrite (mixed_live_single_busy s pg p b) by assumption.
    rewrite (mixed_live_single_busy s pg _ b') by reflexivity.
    cbn [mixed_pieces_of]. rewrite pget_app.
    assert (Ha : a = (s, mdata_off pg + psum l1 + MxMemHeadSize)) by (destruct a; cbn in *; subst; reflexivity).
    unfold pblock. cbn [psz]. rewrite <- Ha.
    split; [apply (perm_insert _ X Y)|]. split; [apply (perm_insert _ X Y)|].
    assert (Hr : (s < length (sects t))%nat) by (apply get_sect_in_range; rewrite Hs; discriminate).
    rewrite get_sect_mk_upd by assumption. rewrite Nat.eqb_refl. cbn [mixed_pieces_of].
    rewrite pget_app. reflexivity.
Qed.

(* stoRecode changes the object code of that block and nothing else *)
Theorem recode_spec : forall t a code t' o, Inv t -> recode t a code = (t', o) ->
  Inv t' /\
  match o with
  | OAddr a' z c =>
      a' = a /\ c = Z.land code QmCodeMask /\
      exists b R, Permutation (live t) ((a, z, b) :: R) /\
                  Permutation (live t') ((a, z, mkB c (bdata b) (bptrs b)) :: R)
  | OErr => t' = t /\ lookup t a = None
  | _ => False
  end.
Proof.
  intros t a code t' o HI Hr. unfold recode in Hr.
  destruct (lookup t a) as [[r b]|] eqn:El.
  - inversion Hr; subst t' o. split; [eapply set_binfo_inv; eassumption|].
    split; [reflexivity|]. split; [reflexivity|].
    destruct (set_binfo_live t a r b (mkB (Z.land code QmCodeMask) (bdata b) (bptrs b)) HI El) as (R & H1 & H2 & _).
    exists b, R. split; assumption.
  - inversion Hr; subst. split; [assumption|]. split; reflexivity.
Qed.

Theorem write_spec : forall t a d t' o, Inv t -> write t a d = (t', o) ->
  Inv t' /\
  match o with
  | ONone => exists z b R, Z.of_nat (length d) <= z /\ Permutation (live t) ((a, z, b) :: R) /\
                           Permutation (live t') ((a, z, mkB (bcode b) d (bptrs b)) :: R)
  | OErr => t' = t
  | _ => False
  end.
Proof.
  intros t a d t' o HI Hw. unfold write in Hw.
  destruct (lookup t a) as [[r b]|] eqn:El.
  - destruct (Z.of_nat (length d) <=? bref_size t r) eqn:E.
    + inversion Hw; subst t' o. split; [eapply set_binfo_inv; eassumption|].
      destruct (set_binfo_live t a r b (mkB (bcode b) d (bptrs b)) HI El) as (R & H1 & H2 & _).
      exists (bref_size t r), b, R. repeat split; try assumption. lia.
    + inversion Hw; subst. split; [assumption | reflexivity].
  - inversion Hw; subst. split; [assumption | reflexivity].
Qed.

Theorem setptr_spec : forall t a slot v t' o, Inv t -> setptr t a slot v = (t', o) ->
  Inv t' /\
  match o with
  | ONone => exists z b R, Permutation (live t) ((a, z, b) :: R) /\
               Permutation (live t')
                 ((a, z, mkB (bcode b) (bdata b)
                             (match v with Some x => (slot, x) :: del_slot slot (bptrs b)
                                         | None => del_slot slot (bptrs b) end)) :: R)
  | OErr => t' = t
  | _ => False
  end.
Proof.
  intros t a slot v t' o HI Hw. unfold setptr in Hw.
  destruct (lookup t a) as [[r b]|] eqn:El.
  - destruct ((0 <=? slot) && ((slot + 1) * WordSize <=? bref_size t r)) eqn:E.
    + inversion Hw; subst t' o. split; [eapply set_binfo_inv; eassumption|].
      destruct (set_binfo_live t a r b
                  (mkB (bcode b) (bdata b) (match v with Some x => (slot, x) :: del_slot slot (bptrs b)
                                                      | None => del_slot slot (bptrs b) end)) HI El)
        as (R & H1 & H2 & _).
      exists (bref_size t r), b, R. split; assumption.
    + inversion Hw; subst. split; [assumption | reflexivity].
  - inversion Hw; subst. split; [assumption | reflexivity].
Qed.
