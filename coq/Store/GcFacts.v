(* Facts about the abstract collector of Store/Gc.v (shared by C10 and C09).

   Part A (generic): the worklist [mark] computes exactly the set of blocks
   reachable from the roots ([mark_sound], [mark_complete]) when it is given
   [mark_fuel] fuel.
   Part B (abstract heap): [hgc] frees exactly the unreachable blocks and leaves
   the others untouched; a mutator program prints the same outputs whatever
   the collection schedule ([schedule_irrelevant], the C09 model property). *)
Require Import ZArith List Bool Lia.
Import ListNotations.
Require Import AV.Store.Gc.
Local Open Scope Z_scope.

(* ================================================================== *)
(* Part A: the generic marking closure                                 *)

Section MarkFacts.
  Variable V B : Type.
  Variable beq : B -> B -> bool.
  Variable resolve : V -> option B.
  Variable fields : B -> list V.
  Hypothesis beq_spec : forall a b, beq a b = true <-> a = b.

  Notation memb := (memb B beq).
  Notation mark := (mark V B beq resolve fields).
  Notation mark_fuel := (mark_fuel V B fields).

  (* block [b] is reachable from the root words [roots] *)
  Inductive reach (roots : list V) : B -> Prop :=
  | reach_root : forall v b, In v roots -> resolve v = Some b -> reach roots b
  | reach_step : forall b' v b,
      reach roots b' -> In v (fields b') -> resolve v = Some b -> reach roots b.

  Lemma memb_In : forall b l, memb b l = true <-> In b l.
  Proof.
    intros b l. unfold Gc.memb. rewrite existsb_exists. split.
    - intros [x [Hin Hbeq]]. apply beq_spec in Hbeq. subst x. exact Hin.
    - intros Hin. exists b. split; [exact Hin|]. apply beq_spec. reflexivity.
  Qed.

  Lemma memb_false_not_In : forall b l, memb b l = false -> ~ In b l.
  Proof.
    intros b l Hf Hin. apply memb_In in Hin. rewrite Hin in Hf. discriminate.
  Qed.

  (* reachability from roots whose targets are all reachable from [roots] *)
  Lemma reach_trans : forall roots roots',
      (forall v b, In v roots' -> resolve v = Some b -> reach roots b) ->
      forall b, reach roots' b -> reach roots b.
  Proof.
    intros roots roots' Hroots b Hr.
    induction Hr as [v b Hin Hres | b' v b Hr IH Hin Hres].
    - exact (Hroots v b Hin Hres).
    - exact (reach_step roots b' v b IH Hin Hres).
  Qed.

  Lemma reach_incl : forall roots roots', incl roots' roots ->
      forall b, reach roots' b -> reach roots b.
  Proof.
    intros roots roots' Hincl. apply reach_trans.
    intros v b Hin Hres. exact (reach_root roots v b (Hincl v Hin) Hres).
  Qed.

  (* ---- monotonicity: marks are never removed ---- *)
  Lemma mark_incl : forall fuel work marked b,
      In b marked -> In b (mark fuel work marked).
  Proof.
    induction fuel as [|fuel IH]; intros work marked b Hin.
    - exact Hin.
    - cbn [Gc.mark]. destruct work as [|v w]; [exact Hin|].
      destruct (resolve v) as [b0|]; [|apply IH; exact Hin].
      destruct (memb b0 marked); apply IH; [exact Hin|right; exact Hin].
  Qed.

  Lemma mark_monotone : forall fuel work marked, incl marked (mark fuel work marked).
  Proof. intros fuel work marked b. apply mark_incl. Qed.

  (* ---- soundness: only reachable blocks get marked (whatever the fuel) ---- *)
  Theorem mark_sound : forall fuel work marked b,
      In b (mark fuel work marked) -> In b marked \/ reach work b.
  Proof.
    induction fuel as [|fuel IH]; intros work marked b Hin.
    - left. exact Hin.
    - cbn [Gc.mark] in Hin. destruct work as [|v w]; [left; exact Hin|].
      destruct (resolve v) as [b0|] eqn:Hres.
      + destruct (memb b0 marked) eqn:Hm.
        * destruct (IH w marked b Hin) as [Hl|Hr]; [left; exact Hl|right].
          apply (reach_incl (v :: w) w); [|exact Hr].
          intros x Hx. right. exact Hx.
        * destruct (IH (fields b0 ++ w) (b0 :: marked) b Hin) as [[Heq|Hl]|Hr].
          -- right. subst b0. apply (reach_root (v :: w) v b); [left; reflexivity|exact Hres].
          -- left. exact Hl.
          -- right. apply (reach_trans (v :: w) (fields b0 ++ w)); [|exact Hr].
             intros v' b' Hin' Hres'. apply in_app_or in Hin'. destruct Hin' as [Hf|Hw].
             ++ apply (reach_step (v :: w) b0 v' b'); [|exact Hf|exact Hres'].
                apply (reach_root (v :: w) v b0); [left; reflexivity|exact Hres].
             ++ apply (reach_root (v :: w) v' b'); [right; exact Hw|exact Hres'].
      + destruct (IH w marked b Hin) as [Hl|Hr]; [left; exact Hl|right].
        apply (reach_incl (v :: w) w); [|exact Hr].
        intros x Hx. right. exact Hx.
  Qed.

  Corollary mark_sound_roots : forall fuel roots b,
      In b (mark fuel roots []) -> reach roots b.
  Proof.
    intros fuel roots b Hin. destruct (mark_sound fuel roots [] b Hin) as [Hnil|Hr].
    - destruct Hnil.
    - exact Hr.
  Qed.

  (* ---- completeness ---- *)

  (* weight of the blocks of [universe] that are not marked yet *)
  Definition weight (marked : list B) (universe : list B) : nat :=
    fold_right (fun u n => if memb u marked then n else (S (length (fields u)) + n)%nat) O universe.

  Definition total (universe : list B) : nat :=
    fold_right (fun b n => S (length (fields b)) + n)%nat O universe.

  Lemma weight_nil : forall universe, weight [] universe = total universe.
  Proof.
    induction universe as [|u U IH]; [reflexivity|].
    unfold weight, total in *. cbn [fold_right]. rewrite IH. reflexivity.
  Qed.

  Lemma memb_cons : forall u b0 marked, memb u (b0 :: marked) = beq u b0 || memb u marked.
  Proof. reflexivity. Qed.

  Lemma weight_unfold : forall marked u U,
      weight marked (u :: U) =
      if memb u marked then weight marked U else (S (length (fields u)) + weight marked U)%nat.
  Proof. reflexivity. Qed.

  Lemma weight_cons_le : forall b0 marked universe,
      (weight (b0 :: marked) universe <= weight marked universe)%nat.
  Proof.
    intros b0 marked. induction universe as [|u U IH]; [apply le_n|].
    rewrite !weight_unfold. rewrite memb_cons.
    destruct (memb u marked); [rewrite orb_true_r; exact IH|].
    rewrite orb_false_r. destruct (beq u b0); lia.
  Qed.

  Lemma weight_cons_lt : forall b0 marked universe,
      In b0 universe -> memb b0 marked = false ->
      (weight (b0 :: marked) universe + S (length (fields b0)) <= weight marked universe)%nat.
  Proof.
    intros b0 marked. induction universe as [|u U IH]; intros Hin Hm; [destruct Hin|].
    rewrite !weight_unfold. rewrite memb_cons.
    destruct Hin as [Heq|Hin].
    - subst u. rewrite Hm. assert (Hb : beq b0 b0 = true) by (apply beq_spec; reflexivity).
      rewrite Hb. cbn [orb].
      pose proof (weight_cons_le b0 marked U) as Hle. lia.
    - specialize (IH Hin Hm).
      destruct (memb u marked); [rewrite orb_true_r; exact IH|].
      rewrite orb_false_r. destruct (beq u b0); lia.
  Qed.

  (* [b] is marked or still has a work item pointing to it *)
  Definition covered (work : list V) (marked : list B) (b : B) : Prop :=
    In b marked \/ exists v', In v' work /\ resolve v' = Some b.

  Section Complete.
    Variable universe : list B.
    Hypothesis universe_ok : forall v b, resolve v = Some b -> In b universe.

    (* With fuel at least the potential [length work + weight marked universe]
       the loop ends with an empty worklist: all the targets of the work items
       are marked and the marked set is closed under [fields]. *)
    Lemma mark_closed : forall fuel work marked,
        (length work + weight marked universe <= fuel)%nat ->
        (forall b' v b, In b' marked -> In v (fields b') -> resolve v = Some b ->
                        covered work marked b) ->
        (forall v b, In v work -> resolve v = Some b -> In b (mark fuel work marked)) /\
        (forall b' v b, In b' (mark fuel work marked) -> In v (fields b') ->
                        resolve v = Some b -> In b (mark fuel work marked)).
    Proof.
      induction fuel as [|fuel IH]; intros work marked Hfuel Hinv.
      - destruct work as [|v w]; [|cbn [length] in Hfuel; lia].
        cbn [Gc.mark]. split.
        + intros v b [].
        + intros b' v b Hb' Hv Hres.
          destruct (Hinv b' v b Hb' Hv Hres) as [Hm|[v' [[] _]]]. exact Hm.
      - destruct work as [|v w].
        + cbn [Gc.mark]. split.
          * intros v b [].
          * intros b' v b Hb' Hv Hres.
            destruct (Hinv b' v b Hb' Hv Hres) as [Hm|[v' [[] _]]]. exact Hm.
        + cbn [Gc.mark]. cbn [length] in Hfuel.
          destruct (resolve v) as [b0|] eqn:Hres0.
          * destruct (memb b0 marked) eqn:Hm0.
            -- (* already marked: drop the work item *)
               assert (Hinv' : forall b' v0 b, In b' marked -> In v0 (fields b') ->
                                  resolve v0 = Some b -> covered w marked b).
               { intros b' v0 b Hb' Hv0 Hres.
                 destruct (Hinv b' v0 b Hb' Hv0 Hres) as [Hm|[v' [[Heq|Hw] Hres']]].
                 - left. exact Hm.
                 - subst v'. rewrite Hres0 in Hres'. injection Hres' as Heq. subst b.
                   left. apply memb_In. exact Hm0.
                 - right. exists v'. split; assumption. }
               destruct (IH w marked ltac:(lia) Hinv') as [IHw IHc]. split; [|exact IHc].
               intros v0 b [Heq|Hw] Hres.
               ++ subst v0. rewrite Hres0 in Hres. injection Hres as Heq. subst b.
                  apply mark_incl. apply memb_In. exact Hm0.
               ++ exact (IHw v0 b Hw Hres).
            -- (* new block: mark it and push its fields *)
               pose proof (weight_cons_lt b0 marked universe (universe_ok v b0 Hres0) Hm0) as Hw.
               assert (Hfuel' : (length (fields b0 ++ w) + weight (b0 :: marked) universe <= fuel)%nat).
               { rewrite app_length. lia. }
               assert (Hinv' : forall b' v0 b, In b' (b0 :: marked) -> In v0 (fields b') ->
                                  resolve v0 = Some b -> covered (fields b0 ++ w) (b0 :: marked) b).
               { intros b' v0 b [Heq|Hb'] Hv0 Hres.
                 - subst b'. right. exists v0. split; [apply in_or_app; left; exact Hv0|exact Hres].
                 - destruct (Hinv b' v0 b Hb' Hv0 Hres) as [Hm|[v' [[Heq|Hw'] Hres']]].
                   + left. right. exact Hm.
                   + subst v'. rewrite Hres0 in Hres'. injection Hres' as Heq. subst b.
                     left. left. reflexivity.
                   + right. exists v'. split; [apply in_or_app; right; exact Hw'|exact Hres']. }
               destruct (IH (fields b0 ++ w) (b0 :: marked) Hfuel' Hinv') as [IHw IHc].
               split; [|exact IHc].
               intros v0 b [Heq|Hw'] Hres.
               ++ subst v0. rewrite Hres0 in Hres. injection Hres as Heq. subst b.
                  apply mark_incl. left. reflexivity.
               ++ apply (IHw v0 b); [apply in_or_app; right; exact Hw'|exact Hres].
          * (* not a pointer: drop the work item *)
            assert (Hinv' : forall b' v0 b, In b' marked -> In v0 (fields b') ->
                               resolve v0 = Some b -> covered w marked b).
            { intros b' v0 b Hb' Hv0 Hres.
              destruct (Hinv b' v0 b Hb' Hv0 Hres) as [Hm|[v' [[Heq|Hw] Hres']]].
              - left. exact Hm.
              - subst v'. rewrite Hres0 in Hres'. discriminate.
              - right. exists v'. split; assumption. }
            destruct (IH w marked ltac:(lia) Hinv') as [IHw IHc]. split; [|exact IHc].
            intros v0 b [Heq|Hw] Hres.
            -- subst v0. rewrite Hres0 in Hres. discriminate.
            -- exact (IHw v0 b Hw Hres).
    Qed.

    Theorem mark_complete_aux : forall roots b,
        reach roots b -> In b (mark (mark_fuel universe roots) roots []).
    Proof.
      intros roots b Hr.
      assert (Hfuel : (length roots + weight [] universe <= mark_fuel universe roots)%nat).
      { rewrite weight_nil. unfold Gc.mark_fuel, total. lia. }
      assert (Hinv : forall b' v b, In b' (@nil B) -> In v (fields b') -> resolve v = Some b ->
                                    covered roots [] b).
      { intros b' v b0 []. }
      destruct (mark_closed (mark_fuel universe roots) roots [] Hfuel Hinv) as [Hroots Hclosed].
      induction Hr as [v b Hin Hres | b' v b Hr IH Hin Hres].
      - exact (Hroots v b Hin Hres).
      - exact (Hclosed b' v b IH Hin Hres).
    Qed.
  End Complete.

  (* every reachable block is marked, given the fuel computed by [mark_fuel]
     from any list [universe] that contains all the blocks pointers resolve to *)
  Theorem mark_complete : forall universe roots,
      (forall v b, resolve v = Some b -> In b universe) ->
      forall b, reach roots b ->
                In b (mark (mark_fuel universe roots) roots []).
  Proof.
    intros universe roots Huni b Hr. exact (mark_complete_aux universe Huni roots b Hr).
  Qed.

  Corollary mark_exact : forall universe roots,
      (forall v b, resolve v = Some b -> In b universe) ->
      forall b, In b (mark (mark_fuel universe roots) roots []) <-> reach roots b.
  Proof.
    intros universe roots Huni b. split.
    - apply mark_sound_roots.
    - apply mark_complete. exact Huni.
  Qed.
End MarkFacts.


(* Example (Part A): four blocks 0..3 named by [nat]; words below 4 are
   pointers, 7 is not; 0 -> 1 -> 2, 1 -> 0 (a cycle), 3 -> 0 but nothing
   points to 3. *)
Definition exg_resolve (v : nat) : option nat := if (v <? 4)%nat then Some v else None.
Definition exg_fields (b : nat) : list nat :=
  match b with
  | 0%nat => [1; 7]%nat
  | 1%nat => [0; 2]%nat
  | 3%nat => [0]%nat
  | _ => []
  end.
Definition exg_universe : list nat := [0; 1; 2; 3]%nat.
Definition exg_roots : list nat := [9; 0]%nat.

Example exg_universe_ok : forall v b, exg_resolve v = Some b -> In b exg_universe.
Proof.
  intros v b Hres. unfold exg_resolve in Hres. destruct (v <? 4)%nat eqn:Hlt; [|discriminate].
  injection Hres as Heq. subst b. apply Nat.ltb_lt in Hlt.
  destruct v as [|[|[|[|v]]]]; cbn; auto 6. lia.
Qed.

Example exg_mark :
  mark nat nat Nat.eqb exg_resolve exg_fields
       (mark_fuel nat nat exg_fields exg_universe exg_roots) exg_roots [] = [2; 1; 0]%nat.
Proof. vm_compute. reflexivity. Qed.

(* the hypothesis of [mark_complete] holds for block 2 ... *)
Example exg_reach_2 : reach nat nat exg_resolve exg_fields exg_roots 2%nat.
Proof.
  apply (reach_step _ _ _ _ _ 1%nat 2%nat); [|cbn; auto|reflexivity].
  apply (reach_step _ _ _ _ _ 0%nat 1%nat); [|cbn; auto|reflexivity].
  apply (reach_root _ _ _ _ _ 0%nat); [cbn; auto|reflexivity].
Qed.

Example exg_complete_2 :
  In 2%nat (mark nat nat Nat.eqb exg_resolve exg_fields
                 (mark_fuel nat nat exg_fields exg_universe exg_roots) exg_roots []).
Proof.
  exact (mark_complete nat nat Nat.eqb exg_resolve exg_fields Nat.eqb_eq
                       exg_universe exg_roots exg_universe_ok 2%nat exg_reach_2).
Qed.

(* ... and block 3 is not reachable, so [mark_sound_roots] says it is never
   marked, whatever the fuel *)
Example exg_unreach_3 : ~ reach nat nat exg_resolve exg_fields exg_roots 3%nat.
Proof.
  intro Hr.
  apply (mark_complete nat nat Nat.eqb exg_resolve exg_fields Nat.eqb_eq
                       exg_universe exg_roots exg_universe_ok) in Hr.
  vm_compute in Hr. intuition discriminate.
Qed.

Example exg_sound_3 : forall fuel,
    ~ In 3%nat (mark nat nat Nat.eqb exg_resolve exg_fields fuel exg_roots []).
Proof.
  intros fuel Hin. apply exg_unreach_3.
  exact (mark_sound_roots nat nat Nat.eqb exg_resolve exg_fields fuel exg_roots 3%nat Hin).
Qed.

(* ================================================================== *)
(* Part B: the abstract heap                                           *)

Definition hreach (h : heap) (roots : list value) (id : Z) : Prop :=
  reach value Z (vresolve h) (vfields h) roots id.

Lemma hreach_root : forall h roots v b,
    In v roots -> vresolve h v = Some b -> hreach h roots b.
Proof. intros h roots v b Hin Hres. exact (reach_root _ _ _ _ roots v b Hin Hres). Qed.

Lemma hreach_step : forall h roots b' v b,
    hreach h roots b' -> In v (vfields h b') -> vresolve h v = Some b -> hreach h roots b.
Proof. intros h roots b' v b Hr Hin Hres. exact (reach_step _ _ _ _ roots b' v b Hr Hin Hres). Qed.

Lemma hreach_induct : forall h roots (P : Z -> Prop),
    (forall v b, In v roots -> vresolve h v = Some b -> P b) ->
    (forall b' v b, hreach h roots b' -> P b' -> In v (vfields h b') ->
                    vresolve h v = Some b -> P b) ->
    forall b, hreach h roots b -> P b.
Proof.
  intros h roots P Hroot Hstep b Hr. unfold hreach in Hr.
  induction Hr as [v b Hin Hres | b' v b Hr IH Hin Hres].
  - exact (Hroot v b Hin Hres).
  - exact (Hstep b' v b Hr IH Hin Hres).
Qed.

Lemma hreach_trans : forall h roots roots',
    (forall v b, In v roots' -> vresolve h v = Some b -> hreach h roots b) ->
    forall b, hreach h roots' b -> hreach h roots b.
Proof. intros h roots roots' Hroots b Hr. exact (reach_trans _ _ _ _ roots roots' Hroots b Hr). Qed.

(* ---- lookup, resolution ---- *)

Lemma hget_In_ids : forall h id o, hget h id = Some o -> In id (map fst h).
Proof.
  induction h as [|[i x] t IH]; intros id o Hg; [discriminate|].
  cbn [hget] in Hg. cbn [map fst].
  destruct (i =? id) eqn:He.
  - left. apply Z.eqb_eq. exact He.
  - right. exact (IH id o Hg).
Qed.

Lemma vresolve_Some : forall h v b,
    vresolve h v = Some b ->
    exists off o, v = VPtr b off /\ hget h b = Some o /\ 0 <= off < o_size o.
Proof.
  intros h v b Hr. destruct v as [z|id off]; [discriminate|].
  cbn [vresolve] in Hr. destruct (hget h id) as [o|] eqn:Hg; [|discriminate].
  destruct ((0 <=? off) && (off <? o_size o)) eqn:Hc; [|discriminate].
  injection Hr as Heq. subst id. exists off, o.
  apply andb_true_iff in Hc. destruct Hc as [H0 H1].
  apply Z.leb_le in H0. apply Z.ltb_lt in H1. repeat split; assumption.
Qed.

Lemma vresolve_intro : forall h b off o,
    hget h b = Some o -> 0 <= off < o_size o -> vresolve h (VPtr b off) = Some b.
Proof.
  intros h b off o Hg [H0 H1]. cbn [vresolve]. rewrite Hg.
  apply Z.leb_le in H0. apply Z.ltb_lt in H1. rewrite H0, H1. reflexivity.
Qed.

(* resolution only looks at the block the pointer names *)
Lemma vresolve_agree : forall h h' v b,
    vresolve h v = Some b -> hget h' b = hget h b -> vresolve h' v = Some b.
Proof.
  intros h h' v b Hr Hg. destruct (vresolve_Some h v b Hr) as [off [o [Hv [Hgo Hrange]]]].
  subst v. apply (vresolve_intro h' b off o); [rewrite Hg; exact Hgo|exact Hrange].
Qed.

Lemma vfields_agree : forall h h' b, hget h' b = hget h b -> vfields h' b = vfields h b.
Proof. intros h h' b Hg. unfold vfields. rewrite Hg. reflexivity. Qed.

Lemma vresolve_universe : forall h v b, vresolve h v = Some b -> In b (map fst h).
Proof.
  intros h v b Hr. destruct (vresolve_Some h v b Hr) as [off [o [_ [Hg _]]]].
  exact (hget_In_ids h b o Hg).
Qed.

Lemma hreach_present : forall h roots id, hreach h roots id -> exists o, hget h id = Some o.
Proof.
  intros h roots. apply hreach_induct.
  - intros v b _ Hres. destruct (vresolve_Some h v b Hres) as [off [o [_ [Hg _]]]].
    exists o. exact Hg.
  - intros b' v b _ _ _ Hres. destruct (vresolve_Some h v b Hres) as [off [o [_ [Hg _]]]].
    exists o. exact Hg.
Qed.

(* ---- mark + sweep ---- *)

Lemma hget_hsweep : forall h marked id,
    hget (hsweep h marked) id = if memb Z Z.eqb id marked then hget h id else None.
Proof.
  intros h marked id. unfold memb. induction h as [|[i x] t IH].
  - cbn. destruct (existsb (Z.eqb id) marked); reflexivity.
  - unfold hsweep in *. cbn [filter fst]. cbn [hget].
    destruct (i =? id) eqn:He.
    + apply Z.eqb_eq in He. subst i. destruct (existsb (Z.eqb id) marked) eqn:Hm.
      * cbn [hget]. rewrite Z.eqb_refl. reflexivity.
      * exact IH.
    + destruct (existsb (Z.eqb i) marked).
      * cbn [hget]. rewrite He. exact IH.
      * exact IH.
Qed.

Theorem hmark_spec : forall h roots id, In id (hmark h roots) <-> hreach h roots id.
Proof.
  intros h roots id. unfold hmark, hreach.
  apply (mark_exact value Z Z.eqb (vresolve h) (vfields h) Z.eqb_eq (map fst h) roots).
  apply vresolve_universe.
Qed.

Lemma hgc_spec : forall h roots id,
    hget (hgc h roots) id = if memb Z Z.eqb id (hmark h roots) then hget h id else None.
Proof. intros h roots id. unfold hgc. apply hget_hsweep. Qed.

Lemma memb_hmark : forall h roots id,
    memb Z Z.eqb id (hmark h roots) = true <-> hreach h roots id.
Proof.
  intros h roots id. rewrite (memb_In Z Z.eqb Z.eqb_eq). apply hmark_spec.
Qed.

(* Example heap: block 1 is held by an interior pointer (offset 1) and holds an
   interior pointer into block 2; block 3 points to block 1 but is only
   named by an out-of-range pointer (offset 5 in a block of size 1), which
   keeps nothing alive. *)
Definition ex_heap : heap :=
  [ (1, mkObj 2 [VPtr 2 1; VInt 7]);
    (2, mkObj 3 [VInt 0; VInt 0; VInt 0]);
    (3, mkObj 1 [VPtr 1 0]) ].
Definition ex_roots : list value := [VInt 4; VPtr 1 1; VPtr 3 5].

Example ex_hmark : hmark ex_heap ex_roots = [2; 1].
Proof. vm_compute. reflexivity. Qed.

Example ex_hgc :
  hgc ex_heap ex_roots =
  [ (1, mkObj 2 [VPtr 2 1; VInt 7]); (2, mkObj 3 [VInt 0; VInt 0; VInt 0]) ].
Proof. vm_compute. reflexivity. Qed.

Example ex_reach_2 : hreach ex_heap ex_roots 2.
Proof.
  apply (hreach_step ex_heap ex_roots 1 (VPtr 2 1) 2); [|cbn; auto|reflexivity].
  apply (hreach_root ex_heap ex_roots (VPtr 1 1) 1); [cbn; auto|reflexivity].
Qed.

Example ex_unreach_3 : ~ hreach ex_heap ex_roots 3.
Proof.
  intro Hr. apply hmark_spec in Hr. rewrite ex_hmark in Hr.
  destruct Hr as [H|[H|[]]]; discriminate.
Qed.

(* 5: a reachable block survives the collection with its contents *)
Theorem hgc_keeps_reachable : forall h roots id,
    hreach h roots id -> hget (hgc h roots) id = hget h id.
Proof.
  intros h roots id Hr. rewrite hgc_spec. apply memb_hmark in Hr. rewrite Hr. reflexivity.
Qed.

Example ex_keeps_2 : hget (hgc ex_heap ex_roots) 2 = hget ex_heap 2.
Proof. exact (hgc_keeps_reachable ex_heap ex_roots 2 ex_reach_2). Qed.

(* 6: whatever survives was there, unchanged, and is reachable *)
Theorem hgc_frees_only_unmarked : forall h roots id o,
    hget (hgc h roots) id = Some o -> hget h id = Some o /\ hreach h roots id.
Proof.
  intros h roots id o Hg. rewrite hgc_spec in Hg.
  destruct (memb Z Z.eqb id (hmark h roots)) eqn:Hm; [|discriminate].
  split; [exact Hg|]. apply memb_hmark. exact Hm.
Qed.

Example ex_survivor_1 :
  hget (hgc ex_heap ex_roots) 1 = Some (mkObj 2 [VPtr 2 1; VInt 7]) /\
  hreach ex_heap ex_roots 1.
Proof.
  split; [vm_compute; reflexivity|].
  apply (hgc_frees_only_unmarked ex_heap ex_roots 1 (mkObj 2 [VPtr 2 1; VInt 7])).
  vm_compute. reflexivity.
Qed.

Theorem hgc_unreachable_freed : forall h roots id,
    ~ hreach h roots id -> hget (hgc h roots) id = None.
Proof.
  intros h roots id Hn. rewrite hgc_spec.
  destruct (memb Z Z.eqb id (hmark h roots)) eqn:Hm; [|reflexivity].
  exfalso. apply Hn. apply memb_hmark. exact Hm.
Qed.

Example ex_freed_3 : hget (hgc ex_heap ex_roots) 3 = None /\ hget ex_heap 3 <> None.
Proof.
  split; [exact (hgc_unreachable_freed ex_heap ex_roots 3 ex_unreach_3)|].
  vm_compute. discriminate.
Qed.

(* 7: the collection does not change what is reachable *)
Theorem hgc_preserves_reach : forall h roots id,
    hreach (hgc h roots) roots id <-> hreach h roots id.
Proof.
  intros h roots id. split.
  - revert id. apply hreach_induct.
    + intros v b Hin Hres. apply (hreach_root h roots v b Hin).
      destruct (vresolve_Some _ v b Hres) as [off [o [_ [Hg _]]]].
      destruct (hgc_frees_only_unmarked h roots b o Hg) as [Hg' _].
      apply (vresolve_agree (hgc h roots) h v b Hres). rewrite Hg, Hg'. reflexivity.
    + intros b' v b _ IH Hin Hres.
      pose proof (hgc_keeps_reachable h roots b' IH) as Hkeep.
      apply (hreach_step h roots b' v b IH).
      * rewrite <- (vfields_agree h (hgc h roots) b' Hkeep). exact Hin.
      * destruct (vresolve_Some _ v b Hres) as [off [o [_ [Hg _]]]].
        destruct (hgc_frees_only_unmarked h roots b o Hg) as [Hg' _].
        apply (vresolve_agree (hgc h roots) h v b Hres). rewrite Hg, Hg'. reflexivity.
  - revert id. apply hreach_induct.
    + intros v b Hin Hres. apply (hreach_root _ roots v b Hin).
      apply (vresolve_agree h (hgc h roots) v b Hres).
      apply hgc_keeps_reachable. exact (hreach_root h roots v b Hin Hres).
    + intros b' v b Hr IH Hin Hres.
      pose proof (hgc_keeps_reachable h roots b' Hr) as Hkeep.
      apply (hreach_step _ roots b' v b IH).
      * rewrite (vfields_agree h (hgc h roots) b' Hkeep). exact Hin.
      * apply (vresolve_agree h (hgc h roots) v b Hres).
        apply hgc_keeps_reachable. exact (hreach_step h roots b' v b Hr Hin Hres).
Qed.

Example ex_reach_after_gc : hreach (hgc ex_heap ex_roots) ex_roots 2.
Proof. apply hgc_preserves_reach. exact ex_reach_2. Qed.

(* ================================================================== *)
(* Part C: the mutator; the collection schedule is not observable      *)

(* ---- environment ---- *)

Lemma in_eset : forall x e w v, In v (eset e x w) -> v = w \/ In v e \/ v = VInt 0.
Proof.
  induction x as [|x IH]; intros e w v Hin; destruct e as [|a t]; cbn [eset] in Hin.
  - destruct Hin as [Heq|[]]. left. symmetry. exact Heq.
  - destruct Hin as [Heq|Hin]; [left; symmetry; exact Heq|right; left; right; exact Hin].
  - destruct Hin as [Heq|Hin]; [right; right; symmetry; exact Heq|].
    destruct (IH [] w v Hin) as [H|[[]|H]]; [left; exact H|right; right; exact H].
  - destruct Hin as [Heq|Hin]; [right; left; left; exact Heq|].
    destruct (IH t w v Hin) as [H|[H|H]].
    + left. exact H.
    + right. left. right. exact H.
    + right. right. exact H.
Qed.

Lemma eget_cases : forall e x, eget e x = VInt 0 \/ In (eget e x) e.
Proof.
  intros e x. unfold eget. destruct (nth_in_or_default x e (VInt 0)) as [H|H]; [right|left]; exact H.
Qed.

Lemma in_firstn : forall (A : Type) n (l : list A) x, In x (firstn n l) -> In x l.
Proof.
  intros A n l x Hin. rewrite <- (firstn_skipn n l). apply in_or_app. left. exact Hin.
Qed.

Lemma in_skipn : forall (A : Type) n (l : list A) x, In x (skipn n l) -> In x l.
Proof.
  intros A n l x Hin. rewrite <- (firstn_skipn n l). apply in_or_app. right. exact Hin.
Qed.

(* ---- well-formed values: pointers name blocks older than [next] and, when
        the block has a positive size, lie inside it.  (A pointer to a block
        of size 0 keeps nothing alive, and nothing can be done through it.) *)
Definition vok (h : heap) (next : Z) (v : value) : Prop :=
  match v with
  | VInt _ => True
  | VPtr id off =>
      id < next /\ forall o, hget h id = Some o -> 0 < o_size o -> 0 <= off < o_size o
  end.

Definition hwf (h : heap) (next : Z) (e : env) : Prop :=
  (forall v, In v e -> vok h next v) /\
  (forall id o v, hget h id = Some o -> In v (o_fields o) -> vok h next v).

Definition wfm (m : mstate) : Prop := hwf (m_heap m) (m_next m) (m_env m).

(* ---- the simulation: [h2] (with collections) is a sub-heap of [h1] (without)
        and contains, unchanged, every block reachable from the environment IN
        [h1].  (Agreement on what is reachable in [h2] would be too weak: it
        follows from the sub-heap condition alone and does not exclude that a
        block the mutator can still read has been freed.)  Freshness of
        [m_next] is not needed for the simulation itself: both sides put the
        new block in front of the heap under the same identity. *)
Definition hsim (h1 h2 : heap) (e : env) : Prop :=
  (forall id o, hget h2 id = Some o -> hget h1 id = Some o) /\
  (forall id, hreach h1 e id -> hget h2 id = hget h1 id).

Definition sim (m1 m2 : mstate) : Prop :=
  m_env m1 = m_env m2 /\ m_next m1 = m_next m2 /\ m_out m1 = m_out m2 /\
  hsim (m_heap m1) (m_heap m2) (m_env m1).

Lemma vok_eget : forall h next e x, hwf h next e -> vok h next (eget e x).
Proof.
  intros h next e x [Henv _]. destruct (eget_cases e x) as [H0|Hin].
  - rewrite H0. exact I.
  - exact (Henv _ Hin).
Qed.

Lemma hreach_eget : forall h e x b, vresolve h (eget e x) = Some b -> hreach h e b.
Proof.
  intros h e x b Hres. destruct (eget_cases e x) as [H0|Hin].
  - rewrite H0 in Hres. discriminate.
  - exact (hreach_root h e _ b Hin Hres).
Qed.

(* both heaps resolve a word the same way when its target (in the big heap)
   is reachable *)
Lemma hsim_resolve : forall h1 h2 e v,
    hsim h1 h2 e -> (forall b, vresolve h1 v = Some b -> hreach h1 e b) ->
    vresolve h2 v = vresolve h1 v.
Proof.
  intros h1 h2 e v [Hsub Hagree] Hv.
  destruct (vresolve h1 v) as [b|] eqn:H1.
  - apply (vresolve_agree h1 h2 v b H1). apply Hagree. apply Hv. reflexivity.
  - destruct (vresolve h2 v) as [b|] eqn:H2; [|reflexivity].
    destruct (vresolve_Some h2 v b H2) as [off [o [_ [Hg _]]]].
    pose proof (vresolve_agree h2 h1 v b H2) as H1'.
    rewrite Hg, (Hsub b o Hg) in H1'. rewrite (H1' eq_refl) in H1. discriminate.
Qed.

Lemma hsim_resolve_eget : forall h1 h2 e x,
    hsim h1 h2 e -> vresolve h2 (eget e x) = vresolve h1 (eget e x).
Proof.
  intros h1 h2 e x Hs. apply (hsim_resolve h1 h2 e _ Hs).
  intros b Hres. exact (hreach_eget h1 e x b Hres).
Qed.

(* the two heaps have the same reachable blocks *)
Lemma hsim_reach : forall h1 h2 e id, hsim h1 h2 e -> (hreach h2 e id <-> hreach h1 e id).
Proof.
  intros h1 h2 e id [Hsub Hagree]. split.
  - revert id. apply hreach_induct.
    + intros v b Hin Hres. apply (hreach_root h1 e v b Hin).
      destruct (vresolve_Some h2 v b Hres) as [off [o [_ [Hg _]]]].
      apply (vresolve_agree h2 h1 v b Hres). rewrite Hg. exact (Hsub b o Hg).
    + intros b' v b _ IH Hin Hres.
      apply (hreach_step h1 e b' v b IH).
      * rewrite <- (vfields_agree h1 h2 b' (Hagree b' IH)). exact Hin.
      * destruct (vresolve_Some h2 v b Hres) as [off [o [_ [Hg _]]]].
        apply (vresolve_agree h2 h1 v b Hres). rewrite Hg. exact (Hsub b o Hg).
  - revert id. apply hreach_induct.
    + intros v b Hin Hres. apply (hreach_root h2 e v b Hin).
      apply (vresolve_agree h1 h2 v b Hres). apply Hagree.
      exact (hreach_root h1 e v b Hin Hres).
    + intros b' v b Hr IH Hin Hres.
      apply (hreach_step h2 e b' v b IH).
      * rewrite (vfields_agree h1 h2 b' (Hagree b' Hr)). exact Hin.
      * apply (vresolve_agree h1 h2 v b Hres). apply Hagree.
        exact (hreach_step h1 e b' v b Hr Hin Hres).
Qed.

(* ---- a forced collection on side 2 preserves the simulation ---- *)
Lemma hsim_hgc : forall h1 h2 e, hsim h1 h2 e -> hsim h1 (hgc h2 e) e.
Proof.
  intros h1 h2 e Hs. pose proof Hs as [Hsub Hagree]. split.
  - intros id o Hg. destruct (hgc_frees_only_unmarked h2 e id o Hg) as [Hg2 _].
    exact (Hsub id o Hg2).
  - intros id Hr. rewrite <- (Hagree id Hr).
    apply hgc_keeps_reachable. apply (hsim_reach h1 h2 e id Hs). exact Hr.
Qed.

Lemma mgc_sim : forall m1 m2, sim m1 m2 -> sim m1 (mgc m2).
Proof.
  intros m1 m2 [He [Hn [Ho Hs]]]. unfold sim, mgc. cbn [m_heap m_env m_next m_out].
  repeat split; try assumption.
  - rewrite <- He. apply hsim_hgc. exact Hs.
  - rewrite <- He. apply hsim_hgc. exact Hs.
Qed.

(* ---- changing the environment only ---- *)
Lemma hsim_env : forall h1 h2 e e',
    hsim h1 h2 e ->
    (forall v b, In v e' -> vresolve h1 v = Some b -> hreach h1 e b) ->
    hsim h1 h2 e'.
Proof.
  intros h1 h2 e e' [Hsub Hagree] He'. split; [exact Hsub|].
  intros id Hr. apply Hagree. exact (hreach_trans h1 e e' He' id Hr).
Qed.

Lemma hsim_eset : forall h1 h2 e x w,
    hsim h1 h2 e -> (forall b, vresolve h1 w = Some b -> hreach h1 e b) ->
    hsim h1 h2 (eset e x w).
Proof.
  intros h1 h2 e x w Hs Hw. apply (hsim_env h1 h2 e _ Hs).
  intros v b Hin Hres. destruct (in_eset x e w v Hin) as [Heq|[Hin'|Heq]].
  - subst v. exact (Hw b Hres).
  - exact (hreach_root h1 e v b Hin' Hres).
  - subst v. discriminate.
Qed.

Lemma hwf_eset : forall h next e x w, hwf h next e -> vok h next w -> hwf h next (eset e x w).
Proof.
  intros h next e x w [Henv Hheap] Hw. split; [|exact Hheap].
  intros v Hin. destruct (in_eset x e w v Hin) as [Heq|[Hin'|Heq]].
  - subst v. exact Hw.
  - exact (Henv v Hin').
  - subst v. exact I.
Qed.

(* ---- allocation ---- *)
Lemma hsim_alloc : forall h1 h2 e x id n,
    hsim h1 h2 e ->
    hsim ((id, mkObj (Z.of_nat n) (repeat (VInt 0) n)) :: h1)
         ((id, mkObj (Z.of_nat n) (repeat (VInt 0) n)) :: h2)
         (eset e x (VPtr id 0)).
Proof.
  intros h1 h2 e x id n [Hsub Hagree].
  set (new := mkObj (Z.of_nat n) (repeat (VInt 0) n)).
  assert (Hother : forall h v b, b <> id -> vresolve ((id, new) :: h) v = Some b ->
                                 vresolve h v = Some b).
  { intros h v b Hne Hres. apply (vresolve_agree _ h v b Hres).
    cbn [hget]. destruct (id =? b) eqn:He; [|reflexivity].
    apply Z.eqb_eq in He. congruence. }
  assert (Hreach : forall b, hreach ((id, new) :: h1) (eset e x (VPtr id 0)) b ->
                             b = id \/ hreach h1 e b).
  { apply hreach_induct.
    - intros v b Hin Hres. destruct (Z.eq_dec b id) as [Heq|Hne]; [left; exact Heq|right].
      pose proof (Hother h1 v b Hne Hres) as Hres1.
      destruct (in_eset x e _ v Hin) as [Heq|[Hin'|Heq]].
      + subst v. destruct (vresolve_Some _ _ _ Hres1) as [off [o [Hv _]]]. congruence.
      + exact (hreach_root h1 e v b Hin' Hres1).
      + subst v. discriminate.
    - intros b' v b _ IH Hin Hres.
      destruct (Z.eq_dec b id) as [Heq|Hne]; [left; exact Heq|right].
      pose proof (Hother h1 v b Hne Hres) as Hres1.
      unfold vfields in Hin. cbn [hget] in Hin. destruct (id =? b') eqn:He.
      + cbn [o_fields new] in Hin. apply repeat_spec in Hin. subst v. discriminate.
      + apply Z.eqb_neq in He. destruct IH as [Heq|IH]; [congruence|].
        exact (hreach_step h1 e b' v b IH Hin Hres1). }
  split.
  - intros i o Hg. cbn [hget] in *. destruct (id =? i); [exact Hg|exact (Hsub i o Hg)].
  - intros i Hr. cbn [hget]. destruct (id =? i) eqn:He; [reflexivity|].
    apply Z.eqb_neq in He. destruct (Hreach i Hr) as [Heq|Hr1]; [congruence|].
    exact (Hagree i Hr1).
Qed.

Lemma vok_alloc : forall h next o v, vok h next v -> vok ((next, o) :: h) (next + 1) v.
Proof.
  intros h next o v Hv. destruct v as [z|id off]; [exact I|].
  destruct Hv as [Hlt Hrange]. split; [lia|].
  intros o' Hg. cbn [hget] in Hg. destruct (next =? id) eqn:He.
  - apply Z.eqb_eq in He. lia.
  - exact (Hrange o' Hg).
Qed.

Lemma hwf_alloc : forall h next e x n,
    hwf h next e ->
    hwf ((next, mkObj (Z.of_nat n) (repeat (VInt 0) n)) :: h) (next + 1)
        (eset e x (VPtr next 0)).
Proof.
  intros h next e x n [Henv Hheap].
  set (new := mkObj (Z.of_nat n) (repeat (VInt 0) n)).
  assert (Hwf : hwf ((next, new) :: h) (next + 1) e).
  { split.
    - intros v Hin. apply vok_alloc. exact (Henv v Hin).
    - intros id o v Hg Hin. cbn [hget] in Hg. destruct (next =? id).
      + injection Hg as Heq. subst o. cbn [o_fields new] in Hin.
        apply repeat_spec in Hin. subst v. exact I.
      + apply vok_alloc. exact (Hheap id o v Hg Hin). }
  apply hwf_eset; [exact Hwf|].
  split; [lia|]. intros o Hg Hpos. cbn [hget] in Hg. rewrite Z.eqb_refl in Hg.
  injection Hg as Heq. subst o. lia.
Qed.

(* ---- store ---- *)
Lemma hget_hset : forall h id o id',
    hget (hset h id o) id' =
    if id =? id' then match hget h id with Some _ => Some o | None => None end
    else hget h id'.
Proof.
  intros h id o id'. induction h as [|[i x] t IH].
  - cbn. destruct (id =? id'); reflexivity.
  - cbn [hset hget]. destruct (i =? id) eqn:Hi.
    + apply Z.eqb_eq in Hi. subst i. cbn [hget]. destruct (id =? id'); reflexivity.
    + cbn [hget]. destruct (i =? id') eqn:Hi'.
      * apply Z.eqb_eq in Hi'. subst i. rewrite Z.eqb_sym, Hi. reflexivity.
      * exact IH.
Qed.

Lemma vresolve_hset : forall h id o o' v,
    hget h id = Some o -> o_size o' = o_size o ->
    vresolve (hset h id o') v = vresolve h v.
Proof.
  intros h id o o' v Hg Hsz. destruct v as [z|i off]; [reflexivity|].
  cbn [vresolve]. rewrite hget_hset. destruct (id =? i) eqn:He; [|reflexivity].
  apply Z.eqb_eq in He. subst i. rewrite Hg, Hsz. reflexivity.
Qed.

Lemma hsim_hset : forall h1 h2 e id o o' w,
    hsim h1 h2 e -> hreach h1 e id -> hget h1 id = Some o ->
    o_size o' = o_size o ->
    (forall v, In v (o_fields o') -> In v (o_fields o) \/ v = w) ->
    (forall b, vresolve h1 w = Some b -> hreach h1 e b) ->
    hsim (hset h1 id o') (hset h2 id o') e.
Proof.
  intros h1 h2 e id o o' w [Hsub Hagree] Hrid Hg Hsz Hfields Hw.
  assert (Hreach : forall b, hreach (hset h1 id o') e b -> hreach h1 e b).
  { apply hreach_induct.
    - intros v b Hin Hres. rewrite (vresolve_hset h1 id o o' v Hg Hsz) in Hres.
      exact (hreach_root h1 e v b Hin Hres).
    - intros b' v b _ IH Hin Hres. rewrite (vresolve_hset h1 id o o' v Hg Hsz) in Hres.
      unfold vfields in Hin. rewrite hget_hset in Hin. destruct (id =? b') eqn:He.
      + apply Z.eqb_eq in He. subst b'. rewrite Hg in Hin.
        destruct (Hfields v Hin) as [Hold|Heq].
        * apply (hreach_step h1 e id v b IH); [|exact Hres].
          unfold vfields. rewrite Hg. exact Hold.
        * subst v. exact (Hw b Hres).
      + exact (hreach_step h1 e b' v b IH Hin Hres). }
  pose proof (Hagree id Hrid) as Hg2. split.
  - intros i oo Hgi. rewrite hget_hset in *. destruct (id =? i).
    + rewrite Hg2 in Hgi. exact Hgi.
    + exact (Hsub i oo Hgi).
  - intros i Hr. rewrite !hget_hset. destruct (id =? i).
    + rewrite Hg2. reflexivity.
    + exact (Hagree i (Hreach i Hr)).
Qed.

Lemma vok_hset : forall h next id o o' v,
    hget h id = Some o -> o_size o' = o_size o -> vok h next v -> vok (hset h id o') next v.
Proof.
  intros h next id o o' v Hg Hsz Hv. destruct v as [z|i off]; [exact I|].
  destruct Hv as [Hlt Hrange]. split; [exact Hlt|].
  intros oo Hgi. rewrite hget_hset in Hgi. destruct (id =? i) eqn:He.
  - apply Z.eqb_eq in He. subst i. rewrite Hg in Hgi. injection Hgi as Heq. subst oo.
    rewrite Hsz. exact (Hrange o Hg).
  - exact (Hrange oo Hgi).
Qed.

Lemma hwf_hset : forall h next e id o o' w,
    hwf h next e -> hget h id = Some o -> o_size o' = o_size o ->
    (forall v, In v (o_fields o') -> In v (o_fields o) \/ v = w) ->
    vok h next w ->
    hwf (hset h id o') next e.
Proof.
  intros h next e id o o' w [Henv Hheap] Hg Hsz Hfields Hw. split.
  - intros v Hin. apply (vok_hset h next id o o' v Hg Hsz). exact (Henv v Hin).
  - intros i oo v Hgi Hin. apply (vok_hset h next id o o' v Hg Hsz).
    rewrite hget_hset in Hgi. destruct (id =? i).
    + rewrite Hg in Hgi. injection Hgi as Heq. subst oo.
      destruct (Hfields v Hin) as [Hold|Heq]; [exact (Hheap id o v Hg Hold)|subst v; exact Hw].
    + exact (Hheap i oo v Hgi Hin).
Qed.

Lemma store_fields : forall f (l : list value) w v,
    In v (firstn f l ++ w :: skipn (S f) l) -> In v l \/ v = w.
Proof.
  intros f l w v Hin. apply in_app_or in Hin. destruct Hin as [Hf|[Heq|Hs]].
  - left. exact (in_firstn _ f l v Hf).
  - right. symmetry. exact Heq.
  - left. exact (in_skipn _ (S f) l v Hs).
Qed.

(* ---- one mutator step ---- *)
Lemma sim_intro : forall h1 h2 e next out,
    hsim h1 h2 e -> sim (mkM h1 e next out) (mkM h2 e next out).
Proof. intros h1 h2 e next out Hs. unfold sim. cbn. repeat split; apply Hs. Qed.

Lemma mstep_wf : forall i m, wfm m -> wfm (mstep m i).
Proof.
  intros i [h e next out] Hwf. unfold wfm in *. cbn [m_heap m_env m_next m_out] in Hwf.
  destruct i as [x n|x z|x y|x y d|x y f|x f y|x|x y]; cbn [mstep m_heap m_env m_next m_out].
  - apply hwf_alloc. exact Hwf.
  - apply hwf_eset; [exact Hwf|exact I].
  - apply hwf_eset; [exact Hwf|apply vok_eget; exact Hwf].
  - pose proof (vok_eget h next e y Hwf) as Hy.
    destruct (eget e y) as [z|id off]; [exact Hwf|].
    destruct (hget h id) as [o|] eqn:Hg; [|exact Hwf].
    destruct ((0 <=? off + d) && (off + d <? o_size o)) eqn:Hc; [|exact Hwf].
    cbn [m_heap m_env m_next m_out]. apply hwf_eset; [exact Hwf|].
    destruct Hy as [Hlt _]. split; [exact Hlt|]. intros o' Hg' _.
    rewrite Hg in Hg'. injection Hg' as Heq. subst o'.
    apply andb_true_iff in Hc. destruct Hc as [H0 H1].
    apply Z.leb_le in H0. apply Z.ltb_lt in H1. split; assumption.
  - destruct (vresolve h (eget e y)) as [id|] eqn:Hres; [|exact Hwf].
    cbn [m_heap m_env m_next m_out]. apply hwf_eset; [exact Hwf|].
    destruct (nth_in_or_default f (vfields h id) (VInt 0)) as [Hin|H0]; [|rewrite H0; exact I].
    destruct (vresolve_Some h _ id Hres) as [off [o [_ [Hg _]]]].
    unfold vfields in *. rewrite Hg in *. destruct Hwf as [_ Hheap].
    exact (Hheap id o _ Hg Hin).
  - destruct (vresolve h (eget e x)) as [id|] eqn:Hres; [|exact Hwf].
    destruct (hget h id) as [o|] eqn:Hg; [|exact Hwf].
    destruct (f <? length (o_fields o))%nat; [|exact Hwf].
    cbn [m_heap m_env m_next m_out].
    apply (hwf_hset h next e id o _ (eget e y) Hwf Hg); [reflexivity| |apply vok_eget; exact Hwf].
    intros v Hin. cbn [o_fields] in Hin. exact (store_fields f _ _ v Hin).
  - destruct (eget e x); exact Hwf.
  - exact Hwf.
Qed.

Lemma mstep_hsim : forall i h1 h2 e next out,
    hwf h1 next e -> hsim h1 h2 e ->
    sim (mstep (mkM h1 e next out) i) (mstep (mkM h2 e next out) i).
Proof.
  intros i h1 h2 e next out Hwf Hs.
  destruct i as [x n|x z|x y|x y d|x y f|x f y|x|x y]; cbn [mstep m_heap m_env m_next m_out].
  - (* IAlloc *) apply sim_intro. apply hsim_alloc. exact Hs.
  - (* IConst *) apply sim_intro. apply hsim_eset; [exact Hs|]. intros b Hres. discriminate.
  - (* IMove *) apply sim_intro. apply hsim_eset; [exact Hs|].
    intros b Hres. exact (hreach_eget h1 e y b Hres).
  - (* IInterior *)
    pose proof (vok_eget h1 next e y Hwf) as Hy.
    pose proof (hreach_eget h1 e y) as Hry.
    destruct (eget e y) as [z|id off]; [apply sim_intro; exact Hs|].
    destruct Hs as [Hsub Hagree]. destruct Hy as [_ Hrange].
    destruct (hget h1 id) as [o|] eqn:Hg1.
    + destruct ((0 <=? off + d) && (off + d <? o_size o)) eqn:Hc.
      * (* the step succeeds without collections: the block is reachable *)
        assert (Hin : 0 <= off + d < o_size o).
        { apply andb_true_iff in Hc. destruct Hc as [H0 H1].
          apply Z.leb_le in H0. apply Z.ltb_lt in H1. split; assumption. }
        assert (Hroot : vresolve h1 (VPtr id off) = Some id).
        { apply (vresolve_intro h1 id off o Hg1). apply (Hrange o eq_refl). lia. }
        pose proof (Hry id Hroot) as Hrid.
        rewrite (Hagree id Hrid), Hg1, Hc.
        apply sim_intro. apply hsim_eset; [split; assumption|].
        intros b Hres. destruct (vresolve_Some h1 _ b Hres) as [off' [o' [Hv _]]].
        injection Hv as Hb _. subst b. exact Hrid.
      * destruct (hget h2 id) as [o2|] eqn:Hg2.
        -- rewrite (Hsub id o2 Hg2) in Hg1. injection Hg1 as Heq. subst o2. rewrite Hc.
           apply sim_intro. split; assumption.
        -- apply sim_intro. split; assumption.
    + destruct (hget h2 id) as [o2|] eqn:Hg2.
      * rewrite (Hsub id o2 Hg2) in Hg1. discriminate.
      * apply sim_intro. split; assumption.
  - (* ILoad *)
    rewrite (hsim_resolve_eget h1 h2 e y Hs).
    destruct (vresolve h1 (eget e y)) as [id|] eqn:Hres; [|apply sim_intro; exact Hs].
    pose proof (hreach_eget h1 e y id Hres) as Hrid.
    pose proof Hs as [_ Hagree].
    rewrite (vfields_agree h1 h2 id (Hagree id Hrid)).
    apply sim_intro. apply hsim_eset; [exact Hs|].
    intros b Hresb.
    destruct (nth_in_or_default f (vfields h1 id) (VInt 0)) as [Hin|H0].
    + exact (hreach_step h1 e id _ b Hrid Hin Hresb).
    + rewrite H0 in Hresb. discriminate.
  - (* IStore *)
    rewrite (hsim_resolve_eget h1 h2 e x Hs).
    destruct (vresolve h1 (eget e x)) as [id|] eqn:Hres; [|apply sim_intro; exact Hs].
    pose proof (hreach_eget h1 e x id Hres) as Hrid.
    pose proof Hs as [_ Hagree]. rewrite (Hagree id Hrid).
    destruct (hget h1 id) as [o|] eqn:Hg; [|apply sim_intro; exact Hs].
    destruct (f <? length (o_fields o))%nat; [|apply sim_intro; exact Hs].
    apply sim_intro.
    apply (hsim_hset h1 h2 e id o _ (eget e y) Hs Hrid Hg); [reflexivity| |].
    + intros v Hin. cbn [o_fields] in Hin. exact (store_fields f _ _ v Hin).
    + intros b Hresb. exact (hreach_eget h1 e y b Hresb).
  - (* IOutput *) destruct (eget e x); apply sim_intro; exact Hs.
  - (* IEq *) apply sim_intro. exact Hs.
Qed.

Lemma mstep_sim : forall i m1 m2, wfm m1 -> sim m1 m2 -> sim (mstep m1 i) (mstep m2 i).
Proof.
  intros i [h1 e1 n1 o1] [h2 e2 n2 o2] Hwf [He [Hn [Ho Hs]]].
  unfold wfm in Hwf. cbn [m_heap m_env m_next m_out] in *. subst e2 n2 o2.
  apply mstep_hsim; assumption.
Qed.

(* ---- whole runs ---- *)
Lemma wfm_m0 : wfm m0.
Proof. split; [intros v []|intros id o v Hg; discriminate]. Qed.

Lemma sim_refl : forall m, sim m m.
Proof.
  intros m. unfold sim. repeat split; try reflexivity. intros id o Hg. exact Hg.
Qed.

(* The well-formedness invariant [wfm] is needed: from an arbitrary state the
   simulation is NOT preserved by [IInterior], which (unlike [ILoad] and
   [IStore]) does not go through [vresolve]: an out-of-range pointer keeps
   nothing alive, yet pointer arithmetic can bring it back into the block.
   Such a pointer never arises in a run from [m0] ([run_no_gc_wf]). *)
Definition ex_bad : mstate := mkM [(1, mkObj 2 [VInt 0; VInt 0])] [VPtr 1 5] 2 [].
Example ex_wfm_needed :
  sim ex_bad (mgc ex_bad) /\
  m_env (mstep ex_bad (IInterior 0 0 (-4))) = [VPtr 1 1] /\
  m_env (mstep (mgc ex_bad) (IInterior 0 0 (-4))) = [VPtr 1 5].
Proof.
  split; [apply mgc_sim; apply sim_refl|]. split; vm_compute; reflexivity.
Qed.

Lemma run_no_gc_wf : forall p k m, wfm m -> wfm (run (fun _ => false) k p m).
Proof.
  induction p as [|i rest IH]; intros k m Hwf; [exact Hwf|].
  cbn [run]. destruct (is_alloc i); apply IH; apply mstep_wf; exact Hwf.
Qed.

Lemma run_sim : forall p sched k k' m1 m2,
    wfm m1 -> sim m1 m2 ->
    sim (run (fun _ => false) k p m1) (run sched k' p m2).
Proof.
  induction p as [|i rest IH]; intros sched k k' m1 m2 Hwf Hs; [exact Hs|].
  cbn [run]. destruct (is_alloc i).
  - apply IH; [apply mstep_wf; exact Hwf|].
    apply mstep_sim; [exact Hwf|]. destruct (sched k'); [apply mgc_sim|]; exact Hs.
  - apply IH; [apply mstep_wf; exact Hwf|]. apply mstep_sim; assumption.
Qed.

Lemma run_with_gc_sim : forall sched prog, sim (run_no_gc prog) (run_with_gc sched prog).
Proof.
  intros sched prog. unfold run_no_gc, run_with_gc.
  apply run_sim; [exact wfm_m0|exact (sim_refl m0)].
Qed.

(* the hypotheses of [mstep_sim] hold in a state where the heaps differ
   (see [ex_heaps_differ] below) *)
Example ex_run_sim :
  forall sched prog, wfm (run_no_gc prog) /\ sim (run_no_gc prog) (run_with_gc sched prog).
Proof.
  intros sched prog. split; [apply run_no_gc_wf; exact wfm_m0|apply run_with_gc_sim].
Qed.

(* 8: THE C09 MODEL PROPERTY: what a program prints does not depend on when
   (or whether) the collector runs *)
Theorem schedule_irrelevant : forall (prog : list instr) (sched : nat -> bool),
    outputs (run_with_gc sched prog) = outputs (run_no_gc prog).
Proof.
  intros prog sched. destruct (run_with_gc_sim sched prog) as [_ [_ [Ho _]]].
  unfold outputs. rewrite Ho. reflexivity.
Qed.

(* Example: A (2 fields) and B (1 field) are allocated, B is stored into A and
   its variable overwritten, so that B is reachable only through A; C is
   allocated and dropped; D is allocated.  Then B is read back through an
   interior pointer into A, written, read.  With a collection forced at every
   allocation C is freed (the final heap has 3 blocks instead of 4), and the
   outputs are the same. *)
Definition ex_prog : list instr :=
  [ IAlloc 0 2; IAlloc 1 1; IStore 0 1 1; IConst 1 5; IAlloc 2 3; IConst 2 0; IAlloc 2 1;
    IInterior 3 0 1; ILoad 4 3 1; IStore 4 0 1; ILoad 5 4 0;
    IOutput 5; IEq 4 2; IEq 4 4; IOutput 1 ].
Definition ex_sched_always : nat -> bool := fun _ => true.
Definition ex_sched_even : nat -> bool := Nat.even.

Example ex_outputs_gc : outputs (run_with_gc ex_sched_always ex_prog) = [5; 0; 1; 5].
Proof. vm_compute. reflexivity. Qed.

Example ex_outputs_gc_even : outputs (run_with_gc ex_sched_even ex_prog) = [5; 0; 1; 5].
Proof. vm_compute. reflexivity. Qed.

Example ex_outputs_no_gc : outputs (run_no_gc ex_prog) = [5; 0; 1; 5].
Proof. vm_compute. reflexivity. Qed.

Example ex_heaps_differ :
  map fst (m_heap (run_with_gc ex_sched_always ex_prog)) = [3; 1; 0] /\
  map fst (m_heap (run_no_gc ex_prog)) = [3; 2; 1; 0].
Proof. split; vm_compute; reflexivity. Qed.

Example ex_schedule_irrelevant :
  outputs (run_with_gc ex_sched_always ex_prog) = outputs (run_no_gc ex_prog).
Proof. exact (schedule_irrelevant ex_prog ex_sched_always). Qed.

(* the variables hold the same values too *)
Theorem schedule_irrelevant_env : forall (prog : list instr) (sched : nat -> bool),
    m_env (run_with_gc sched prog) = m_env (run_no_gc prog) /\
    m_next (run_with_gc sched prog) = m_next (run_no_gc prog).
Proof.
  intros prog sched. destruct (run_with_gc_sim sched prog) as [He [Hn _]].
  split; symmetry; assumption.
Qed.

(* 9: a forced collection never frees a block the mutator can still read:
   every word of the environment resolves in the heap with collections
   exactly as it does in the heap without; the blocks reachable from the
   environment are the same and have the same contents; nothing is ever
   resurrected. *)
Theorem no_dangling : forall (prog : list instr) (sched : nat -> bool),
    let m1 := run_no_gc prog in
    let m2 := run_with_gc sched prog in
    (forall v, In v (m_env m2) -> vresolve (m_heap m2) v = vresolve (m_heap m1) v) /\
    (forall id, hreach (m_heap m2) (m_env m2) id <-> hreach (m_heap m1) (m_env m1) id) /\
    (forall id, hreach (m_heap m1) (m_env m1) id -> hget (m_heap m2) id = hget (m_heap m1) id) /\
    (forall id o, hget (m_heap m2) id = Some o -> hget (m_heap m1) id = Some o).
Proof.
  intros prog sched m1 m2. destruct (run_with_gc_sim sched prog) as [He [_ [_ Hs]]].
  fold m1 m2 in He, Hs. rewrite <- He. repeat split.
  - intros v Hin. apply (hsim_resolve _ _ _ v Hs).
    intros b Hres. exact (hreach_root _ _ v b Hin Hres).
  - apply (hsim_reach _ _ _ id Hs).
  - apply (hsim_reach _ _ _ id Hs).
  - apply Hs.
  - apply Hs.
Qed.

Example ex_no_dangling :
  vresolve (m_heap (run_with_gc ex_sched_always ex_prog)) (VPtr 1 0) = Some 1 /\
  In (VPtr 1 0) (m_env (run_with_gc ex_sched_always ex_prog)) /\
  ~ In (VPtr 2 0) (m_env (run_with_gc ex_sched_always ex_prog)).
Proof.
  split; [vm_compute; reflexivity|]. split.
  - vm_compute. auto 8.
  - vm_compute. intros H.
    repeat (destruct H as [H|H]; [discriminate|]). exact H.
Qed.
