(* Concrete, non-trivial instances of the hypotheses of the C10 theorems
   (all closed by computation on the model). *)
Require Import ZArith List Bool Lia.
Import ListNotations.
Require Import AV.Gen.StoreParams AV.Store.Gc AV.Store.Model AV.Store.Facts AV.Store.Steps AV.Store.GcStore AV.Store.MarkFacts AV.Store.Final.
Local Open Scope Z_scope.

(* a history with fixed and mixed blocks, a split, merges with both neighbours,
   a resize that moves, a recode, pointer fields, and a collection whose only
   root is an interior pointer *)
Definition ex_hist : list op :=
  [ OpAlloc 8 3 0;            (* class 0 *)
    OpAlloc 9 3 1;            (* class boundary: 16 bytes *)
    OpAlloc 257 2 3;          (* first mixed piece, fresh frontier section *)
    OpAlloc 700 2 0;
    OpAlloc 300 2 0;
    OpFree (2%nat, 800);      (* the 700-byte block *)
    OpAlloc 1000 1 0;
    OpWrite (0%nat, 496) [1; 2; 3; 4; 5; 6; 7; 8];
    OpResize (0%nat, 496) 20 4;
    OpRecode (1%nat, 288) 77;
    OpSetPtr (2%nat, 288) 2 (Some (3 * 4096 + 1600));     (* points into the 300-byte block *)
    OpGc [3 * 4096 + 300]     (* interior pointer into the 257-byte block *)
  ].

Example ex_hist_ok : Forall op_ok ex_hist.
Proof. repeat constructor; cbn; lia. Qed.

Example ex_live_before_gc :
  live_addrs (run_ops (firstn 11 ex_hist)) =
  [(1%nat, 288); (2%nat, 288); (2%nat, 1568); (2%nat, 2080); (3%nat, 208)].
Proof. vm_compute. reflexivity. Qed.

(* the collection keeps the rooted block and the block it points to, frees the rest *)
Example ex_live_after_gc :
  live_addrs (run_ops ex_hist) = [(2%nat, 288); (2%nat, 1568)].
Proof. vm_compute. reflexivity. Qed.

Example ex_resize_prefix :
  map (fun e => bdata (snd e)) (filter (fun e => addr_eqb (fst (fst e)) (3%nat, 208)) (live (run_ops (firstn 9 ex_hist))))
  = [[1; 2; 3; 4; 5; 6; 7; 8]].
Proof. vm_compute. reflexivity. Qed.

Example ex_alloc_out :
  snd (step (run_ops (firstn 2 ex_hist)) (OpAlloc 257 2 3)) = OAddr (2%nat, 288) 480 2.
Proof. vm_compute. reflexivity. Qed.

Example ex_interior_resolves :
  resolve (run_ops (firstn 11 ex_hist)) (3 * 4096 + 300) = Some (2%nat, 288).
Proof. vm_compute. reflexivity. Qed.

(* the concrete marker on the same history: stepping back over follow-quanta *)
Example ex_cresolve_interior :
  cresolve (run_ops (firstn 11 ex_hist)) (3 * 4096 + 300) = Some (2%nat, 288) /\
  cresolve (run_ops (firstn 11 ex_hist)) (3 * 4096 + 1600 + 10) = Some (2%nat, 1568) /\
  cgc_mark (run_ops (firstn 11 ex_hist)) [3 * 4096 + 300] = [(2%nat, 1568); (2%nat, 288)].
Proof. vm_compute. repeat split; reflexivity. Qed.
