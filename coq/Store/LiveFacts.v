(* The live blocks of a state that satisfies the invariant: pairwise disjoint,
   inside the data area of their section, no duplicates; and the bridge between
   [lookup] (block found by address) and [live] (enumeration). *)
Require Import ZArith List Bool Lia ZifyBool Permutation Sorting.Sorted.
Import ListNotations.
Require Import AV.Gen.StoreParams AV.Store.Gc AV.Store.Model AV.Store.ListFacts
        AV.Store.SizeFacts AV.Store.PieceFacts AV.Store.IndexFacts AV.Store.PutFacts AV.Store.Facts.
Local Open Scope Z_scope.
Ltac Zify.zify_post_hook ::= Z.div_mod_to_equations.

Definition blk := (addr * Z * binfo)%type.
Definition b_sect (e : blk) : nat := fst (fst (fst e)).
Definition b_off (e : blk) : Z := snd (fst (fst e)).
Definition b_size (e : blk) : Z := snd (fst e).

(* e1 lies entirely before e2 *)
Definition blk_before (e1 e2 : blk) : Prop :=
  (b_sect e1 < b_sect e2)%nat \/ (b_sect e1 = b_sect e2 /\ b_off e1 + b_size e1 <= b_off e2).

Definition blk_disjoint (e1 e2 : blk) : Prop :=
  b_sect e1 <> b_sect e2 \/ b_off e1 + b_size e1 <= b_off e2 \/ b_off e2 + b_size e2 <= b_off e1.

Lemma sorted_app : forall (A : Type) (R : A -> A -> Prop) l1 l2,
  StronglySorted R l1 -> StronglySorted R l2 ->
  (forall x y, In x l1 -> In y l2 -> R x y) -> StronglySorted R (l1 ++ l2).
Proof.
  intros A R l1 l2 H1 H2 H12. induction H1 as [|a l1 Hs IH Hf]; [assumption|].
  cbn [app]. constructor.
  - apply IH. intros x y Hx Hy. apply H12; [right|]; assumption.
  - apply Forall_app. split; [assumption|]. apply Forall_forall. intros y Hy. apply H12; [left; reflexivity | assumption].
Qed.

(* fixed sections *)
Lemma fixed_live_in : forall s qsz qs k e, In e (fixed_live s qsz qs k) ->
  exists i b, (k <= i)%nat /\ nth_error qs (i - k) = Some (QBusy b) /\ e = qblock s qsz i b.
Proof.
  induction qs as [|q qs IH]; intros k e Hin; cbn [fixed_live] in Hin; [destruct Hin|].
  destruct q as [|b].
  - destruct (IH _ _ Hin) as (i & b & Hk & Hn & He). exists i, b. split; [lia|]. split; [|assumption].
    replace (i - k)%nat with (S (i - S k)) by lia. exact Hn.
  - destruct Hin as [<-|Hin].
    + exists k, b. split; [lia|]. rewrite Nat.sub_diag. split; reflexivity.
    + destruct (IH _ _ Hin) as (i & b' & Hk & Hn & He). exists i, b'. split; [lia|]. split; [|assumption].
      replace (i - k)%nat with (S (i - S k)) by lia. exact Hn.
Qed.

Lemma fixed_live_sorted : forall s qsz qs k, 0 < qsz -> StronglySorted blk_before (fixed_live s qsz qs k).
Proof.
  induction qs as [|q qs IH]; intros k Hq; cbn [fixed_live]; [constructor|].
  destruct q as [|b]; [apply IH; assumption|].
  constructor; [apply IH; assumption|].
  apply Forall_forall. intros e He. apply fixed_live_in in He. destruct He as (i & b' & Hk & _ & ->).
  right. unfold b_sect, b_off, b_size, qblock. cbn. split; [reflexivity|].
  assert (Hz : Z.of_nat k + 1 <= Z.of_nat i) by lia. nia.
Qed.

(* mixed sections *)
Lemma mixed_live_in : forall s pg ps cur e, In e (mixed_live s pg ps cur) ->
  exists l1 p l2 b, ps = l1 ++ p :: l2 /\ pkd p = KBusy b /\ e = pblock s pg (cur + psum l1) p b.
Proof.
  induction ps as [|p ps IH]; intros cur e Hin; cbn [mixed_live] in Hin; [destruct Hin|].
  assert (Hrec : In e (mixed_live s pg ps (cur + psz p)) ->
                 exists l1 q l2 b, p :: ps = l1 ++ q :: l2 /\ pkd q = KBusy b /\ e = pblock s pg (cur + psum l1) q b).
  { intros H. destruct (IH _ _ H) as (l1 & q & l2 & b & -> & Hq & ->). exists (p :: l1), q, l2, b.
    split; [reflexivity|]. split; [assumption|]. cbn [psum].
    replace (cur + (psz p + psum l1)) with (cur + psz p + psum l1) by lia. reflexivity. }
  destruct (pkd p) as [| |b] eqn:Ek; try (apply Hrec; assumption).
  destruct Hin as [<-|Hin]; [|apply Hrec; assumption].
  exists [], p, ps, b. split; [reflexivity|]. split; [assumption|]. cbn [psum].
  rewrite Z.add_0_r. reflexivity.
Qed.

Lemma mixed_live_sorted : forall s pg ps cur, pos_sizes ps -> StronglySorted blk_before (mixed_live s pg ps cur).
Proof.
  induction ps as [|p ps IH]; intros cur Hpos; cbn [mixed_live]; [constructor|].
  inversion Hpos as [|? ? Hp Hps]; subst.
  destruct (pkd p) as [| |b]; try (apply IH; assumption).
  constructor; [apply IH; assumption|].
  apply Forall_forall. intros e He. apply mixed_live_in in He.
  destruct He as (l1 & q & l2 & b' & -> & _ & ->).
  apply pos_sizes_app in Hps. destruct Hps as [Hl1 _]. pose proof (psum_nonneg _ Hl1).
  right. unfold b_sect, b_off, b_size, pblock. cbn [fst snd]. split; [reflexivity|].
  unfold MxMemHeadSize. lia.
Qed.

Lemma sect_live_sect : forall s x e, In e (sect_live s x) -> b_sect e = s.
Proof.
  intros s [b qsz c qs|b pg ps|] e Hin; cbn [sect_live] in Hin; [| |destruct Hin].
  - apply fixed_live_in in Hin. destruct Hin as (i & b' & _ & _ & ->). reflexivity.
  - apply mixed_live_in in Hin. destruct Hin as (l1 & p & l2 & b' & _ & _ & ->). reflexivity.
Qed.

Lemma sects_live_in : forall l n e, In e (sects_live l n) ->
  exists s x, nth_error l (s - n) = Some x /\ (n <= s)%nat /\ In e (sect_live s x).
Proof.
  induction l as [|x l IH]; intros n e Hin; cbn [sects_live] in Hin; [destruct Hin|].
  apply in_app_or in Hin. destruct Hin as [Hin|Hin].
  - exists n, x. rewrite Nat.sub_diag. split; [reflexivity|]. split; [lia | assumption].
  - destruct (IH _ _ Hin) as (s & y & Hn & Hle & He). exists s, y. split; [|split; [lia | assumption]].
    replace (s - n)%nat with (S (s - S n)) by lia. exact Hn.
Qed.

Lemma sects_live_sorted : forall l n,
  (forall s x, nth_error l s = Some x -> sect_ok x) ->
  StronglySorted blk_before (sects_live l n).
Proof.
  induction l as [|x l IH]; intros n Hok; cbn [sects_live]; [constructor|].
  apply sorted_app.
  - specialize (Hok O x eq_refl). destruct x as [b qsz c qs|b pg ps|]; cbn [sect_live]; [| |constructor].
    + cbn [sect_ok] in Hok. destruct Hok as (Hc & -> & _). apply fixed_live_sorted.
      apply (per_class_all (class_size c) (class_size_in c Hc)).
    + cbn [sect_ok] in Hok. destruct Hok as [_ Hps]. apply mixed_live_sorted.
      apply quant_pos. apply (pso_sizes _ _ Hps).
  - apply IH. intros s y Hy. apply (Hok (S s)). exact Hy.
  - intros e1 e2 H1 H2. left. apply sect_live_sect in H1.
    apply sects_live_in in H2. destruct H2 as (s & y & _ & Hle & H2). apply sect_live_sect in H2. lia.
Qed.

Lemma inv_sects_ok : forall t h, InvH t h -> forall s x, nth_error (sects t) s = Some x -> sect_ok x.
Proof.
  intros t h HI s x Hn. pose proof (ih_sect _ _ HI s) as H. unfold get_sect in H.
  rewrite (nth_error_nth' _ _ _ _ SDead Hn) in H. exact H.
Qed.

Theorem live_sorted : forall t, Inv t -> StronglySorted blk_before (live t).
Proof. intros t HI. unfold live. apply sects_live_sorted. apply (inv_sects_ok _ _ HI). Qed.

(* every live block has a positive size *)
Lemma live_size_pos : forall t e, Inv t -> In e (live t) -> 0 < b_size e.
Proof.
  intros t e HI Hin. unfold live in Hin. apply sects_live_in in Hin.
  destruct Hin as (s & x & Hn & _ & He). rewrite Nat.sub_0_r in Hn.
  pose proof (inv_sects_ok _ _ HI _ _ Hn) as Hok.
  destruct x as [b qsz c qs|b pg ps|]; cbn [sect_live] in He; [| |destruct He].
  - apply fixed_live_in in He. destruct He as (i & b' & _ & _ & ->). cbn [sect_ok] in Hok.
    destruct Hok as (Hc & -> & _). unfold b_size, qblock. cbn.
    apply (per_class_all (class_size c) (class_size_in c Hc)).
  - apply mixed_live_in in He. destruct He as (l1 & p & l2 & b' & -> & _ & ->).
    cbn [sect_ok] in Hok. destruct Hok as [_ Hps]. pose proof (pso_sizes _ _ Hps) as Hq.
    apply quant_sizes_app in Hq. destruct Hq as [_ Hq]. inversion Hq as [|? ? [H1 H2] _]; subst.
    unfold b_size, pblock. cbn. unfold MixedSizeQuantum, MxMemHeadSize in *. lia.
Qed.

Lemma sorted_pairwise : forall l, StronglySorted blk_before l ->
  forall e1 e2, In e1 l -> In e2 l -> e1 = e2 \/ blk_before e1 e2 \/ blk_before e2 e1.
Proof.
  induction 1 as [|a l Hs IH Hf]; intros e1 e2 H1 H2; [destruct H1|].
  rewrite Forall_forall in Hf.
  destruct H1 as [<-|H1], H2 as [<-|H2]; auto.
Qed.

(* busy blocks are pairwise disjoint *)
Theorem live_disjoint : forall t e1 e2, Inv t -> In e1 (live t) -> In e2 (live t) ->
  e1 = e2 \/ blk_disjoint e1 e2.
Proof.
  intros t e1 e2 HI H1 H2.
  destruct (sorted_pairwise _ (live_sorted t HI) e1 e2 H1 H2) as [->|[Hb|Hb]]; [left; reflexivity| |];
    right; unfold blk_before, blk_disjoint in *; lia.
Qed.

Theorem live_nodup : forall t, Inv t -> NoDup (live t).
Proof.
  intros t HI. pose proof (live_sorted t HI) as Hs.
  assert (Hpos : forall e, In e (live t) -> 0 < b_size e) by (intros; eapply live_size_pos; eassumption).
  induction Hs as [|a l Hs IH Hf]; [constructor|].
  constructor.
  - intros Hin. rewrite Forall_forall in Hf. specialize (Hf a Hin).
    specialize (Hpos a (or_introl eq_refl)). unfold blk_before in Hf. lia.
  - apply IH. intros e He. apply Hpos. right. assumption.
Qed.

(* ... and lie inside the data area of their section *)
Theorem live_inside : forall t e, Inv t -> In e (live t) ->
  match get_sect t (b_sect e) with
  | SFixed _ qsz _ _ => fdata_off qsz <= b_off e /\ b_off e + b_size e <= FixedSizePgGroup * PgSize
                        /\ SectionInfoOff + qm_count FixedSizePgGroup qsz * QmInfoSize <= fdata_off qsz
  | SMixed _ pg _ => mdata_off pg + MxMemHeadSize <= b_off e /\ b_off e + b_size e <= pg * PgSize
                     /\ SectionInfoOff + qm_count pg MixedSizeQuantum * QmInfoSize <= mdata_off pg
  | SDead => False
  end.
Proof.
  intros t e HI Hin. unfold live in Hin. apply sects_live_in in Hin.
  destruct Hin as (s & x & Hn & _ & He). rewrite Nat.sub_0_r in Hn.
  pose proof (inv_sects_ok _ _ HI _ _ Hn) as Hok.
  pose proof (sect_live_sect _ _ _ He) as Hse. rewrite Hse.
  unfold get_sect. rewrite (nth_error_nth' _ _ _ _ SDead Hn).
  destruct x as [b qsz c qs|b pg ps|]; cbn [sect_live] in He; [| |destruct He].
  - apply fixed_live_in in He. destruct He as (i & b' & _ & Hi & ->). rewrite Nat.sub_0_r in Hi.
    cbn [sect_ok] in Hok. destruct Hok as (Hc & Hq & Hlen).
    destruct (per_class_all (class_size c) (class_size_in c Hc)) as (_ & _ & _ & Hpos & Hnq).
    rewrite <- Hq in *.
    assert (Hil : (i < length qs)%nat) by (apply nth_error_Some; congruence).
    destruct (info_fits FixedSizePgGroup qsz ltac:(unfold FixedSizePgGroup; lia) Hpos) as [Hinfo Hend].
    unfold b_off, b_size, qblock, fdata_off in *. cbn [fst snd].
    rewrite Hlen in Hil.
    assert (Hz : Z.of_nat i + 1 <= qm_count FixedSizePgGroup qsz) by lia.
    set (nq := qm_count FixedSizePgGroup qsz) in *. set (d := data_off FixedSizePgGroup qsz) in *.
    repeat split; try lia; nia.
  - apply mixed_live_in in He. destruct He as (l1 & p & l2 & b' & -> & _ & ->).
    cbn [sect_ok] in Hok. destruct Hok as [Hpg Hps]. pose proof (pso_sizes _ _ Hps) as Hq.
    pose proof (pso_sum _ _ Hps) as Hsum. rewrite psum_app in Hsum. cbn [psum] in Hsum.
    apply quant_sizes_app in Hq. destruct Hq as [Hq1 Hq2]. inversion Hq2 as [|? ? [H1 H2] Hq3]; subst.
    pose proof (quant_psum _ Hq1) as [Hn1 _]. pose proof (quant_psum _ Hq3) as [Hn3 _].
    destruct (info_fits pg MixedSizeQuantum Hpg ltac:(unfold MixedSizeQuantum; lia)) as [Hinfo Hend].
    unfold b_off, b_size, pblock, mdata_off in *. cbn [fst snd].
    set (nq := qm_count pg MixedSizeQuantum) in *. set (d := data_off pg MixedSizeQuantum) in *.
    unfold MxMemHeadSize in *. repeat split; lia.
Qed.

(* ---- lookup <-> live ---------------------------------------------------------- *)

Lemma lookup_in_live : forall t a r b, Inv t -> lookup t a = Some (r, b) -> In (a, bref_size t r, b) (live t).
Proof.
  intros t a r b HI Hl. destruct (set_binfo_live t a r b b HI Hl) as (R & H1 & _).
  eapply Permutation_in; [symmetry; exact H1 | left; reflexivity].
Qed.

Lemma live_lookup : forall t a z b, Inv t -> In (a, z, b) (live t) ->
  exists r, lookup t a = Some (r, b) /\ bref_size t r = z.
Proof.
  intros t a z b HI Hin. unfold live in Hin. apply sects_live_in in Hin.
  destruct Hin as (s & x & Hn & _ & He). rewrite Nat.sub_0_r in Hn.
  pose proof (inv_sects_ok _ _ HI _ _ Hn) as Hok.
  assert (Hs : get_sect t s = x) by (unfold get_sect; apply nth_error_nth'; assumption).
  destruct x as [bs qsz c qs|bs pg ps|]; cbn [sect_live] in He; [| |destruct He].
  - apply fixed_live_in in He. destruct He as (i & b' & _ & Hi & He). rewrite Nat.sub_0_r in Hi.
    unfold qblock in He. inversion He; subst a z b'. clear He.
    cbn [sect_ok] in Hok. destruct Hok as (Hc & Hq & Hlen).
    destruct (per_class_all (class_size c) (class_size_in c Hc)) as (_ & _ & _ & Hpos & _).
    rewrite <- Hq in Hpos.
    exists (BFix s i). unfold lookup, bref_size. cbn [fst snd]. rewrite Hs.
    replace (fdata_off qsz + Z.of_nat i * qsz - fdata_off qsz) with (Z.of_nat i * qsz) by lia.
    rewrite Z.mod_mul by lia. rewrite Z.div_mul by lia. rewrite Nat2Z.id. rewrite Hi.
    replace ((0 <=? Z.of_nat i * qsz) && (0 <? qsz) && (0 =? 0)) with true.
    + split; reflexivity.
    + symmetry. rewrite !andb_true_iff. repeat split; [apply Z.leb_le; nia | apply Z.ltb_lt; lia].
  - apply mixed_live_in in He. destruct He as (l1 & p & l2 & b' & -> & Hk & He).
    unfold pblock in He. inversion He; subst a z b'. clear He.
    cbn [sect_ok] in Hok. destruct Hok as [_ Hps].
    pose proof (quant_pos _ (pso_sizes _ _ Hps)) as Hpos. apply pos_sizes_app in Hpos.
    exists (BMix s (length l1)). unfold lookup, bref_size. cbn [fst snd]. rewrite Hs. cbn [mixed_pieces_of].
    replace (mdata_off pg + psum l1 + MxMemHeadSize - mdata_off pg - MxMemHeadSize) with (0 + psum l1) by lia.
    rewrite (pfind_app l1 p l2 0 0) by tauto. cbn [Nat.add]. rewrite pget_app, Hk.
    split; reflexivity.
Qed.

(* two live entries with the same address are the same entry *)
Lemma live_addr_unique : forall t a z b z' b', Inv t ->
  In (a, z, b) (live t) -> In (a, z', b') (live t) -> z = z' /\ b = b'.
Proof.
  intros t a z b z' b' HI H1 H2.
  destruct (live_lookup _ _ _ _ HI H1) as (r1 & Hl1 & Hz1).
  destruct (live_lookup _ _ _ _ HI H2) as (r2 & Hl2 & Hz2).
  rewrite Hl1 in Hl2. inversion Hl2; subst. split; reflexivity.
Qed.

Lemma zfirstn_idem : forall (A : Type) n (l : list A), zfirstn n (zfirstn n l) = zfirstn n l.
Proof.
  intros A n l. revert n. induction l as [|x l IH]; intros n; cbn [zfirstn]; [reflexivity|].
  destruct (0 <? n) eqn:E; [|reflexivity]. cbn [zfirstn]. rewrite E. f_equal. apply IH.
Qed.

(* ---- stoResize ------------------------------------------------------------------ *)

Theorem resize_spec : forall t a n base r b t' o,
  Inv t -> 0 < n -> lookup t a = Some (r, b) -> resize t a n base = (t', o) ->
  Inv t' /\
  match o with
  | OAddr na z c =>
      n <= z /\ (c = bcode b \/ c = Z.land (bcode b) QmCodeMask) /\
      exists R b', Permutation (live t) ((a, bref_size t r, b) :: R) /\
                   Permutation (live t') ((na, z, b') :: R) /\
                   bcode b' = c /\
                   zfirstn (Z.min n (bref_size t r)) (bdata b')
                   = zfirstn (Z.min n (bref_size t r)) (bdata b)
  | OErr => Permutation (live t') (live t)
  | _ => False
  end.
Proof.
  intros t a n base r b t' o HI Hn Hl Hr. unfold resize in Hr. rewrite Hl in Hr.
  destruct (set_binfo_live t a r b b HI Hl) as (R & HR & _).
  destruct (bref_size t r =? true_size n) eqn:Esame.
  - inversion Hr; subst t' o. split; [assumption|]. split; [|split; [left; reflexivity|]].
    + apply Z.eqb_eq in Esame. rewrite Esame. apply true_size_ge. assumption.
    + exists R, b. repeat split; try assumption.
  - destruct (alloc t n (bcode b) base) as [t1 o1] eqn:Ea.
    destruct (alloc_spec _ _ _ _ _ _ HI Hn Ea) as [HI1 Ho1].
    destruct o1 as [| | |na nsize ncode|]; try contradiction.
    + (* the allocator refused *)
      inversion Hr; subst t' o. split; assumption.
    + destruct Ho1 as (Hal & Hsz & Hcode & Hlive1).
      assert (Hin1 : In (na, nsize, new_binfo (bcode b)) (live t1))
        by (eapply Permutation_in; [symmetry; exact Hlive1 | left; reflexivity]).
      destruct (live_lookup _ _ _ _ HI1 Hin1) as (nr & Hlnr & Hsznr).
      rewrite Hlnr in Hr.
      set (b2 := mkB (bcode (new_binfo (bcode b))) (zfirstn (Z.min n (bref_size t r)) (bdata b))
                     (filter (fun e => (fst e + 1) * WordSize <=? Z.min n (bref_size t r)) (bptrs b))) in Hr.
      set (t2 := set_binfo t1 nr b2) in Hr.
      assert (HI2 : Inv t2) by (eapply set_binfo_inv; eassumption).
      destruct (set_binfo_live t1 na nr _ b2 HI1 Hlnr) as (R1 & HR1 & HR1' & _).
      fold t2 in HR1'. rewrite Hsznr in HR1, HR1'.
      assert (HR1t : Permutation R1 (live t)).
      { eapply Permutation_cons_inv. etransitivity; [symmetry; exact HR1 | exact Hlive1]. }
      assert (Hin2 : In (a, bref_size t r, b) (live t2)).
      { eapply Permutation_in; [symmetry; exact HR1'|]. right.
        eapply Permutation_in; [symmetry; exact HR1t|].
        eapply Permutation_in; [symmetry; exact HR | left; reflexivity]. }
      destruct (live_lookup _ _ _ _ HI2 Hin2) as (r2 & Hl2 & Hsz2).
      destruct (free t2 a) as [t3 o3] eqn:Ef.
      destruct (free_spec _ _ _ _ HI2 Ef) as [HI3 Ho3].
      inversion Hr; subst t' o. split; [exact HI3|].
      split; [assumption|]. split.
      * right. exact Hcode.
      * destruct o3; try contradiction.
        -- destruct Ho3 as (r3 & b3 & Hl3 & Hlive3). rewrite Hl2 in Hl3. inversion Hl3; subst r3 b3.
           rewrite Hsz2 in Hlive3.
           exists R, b2. split; [exact HR|]. split.
           ++ eapply Permutation_cons_inv with (a := (a, bref_size t r, b)).
              etransitivity; [symmetry; exact Hlive3|].
              etransitivity; [exact HR1'|].
              etransitivity; [|apply perm_swap].
              constructor. etransitivity; [exact HR1t | exact HR].
           ++ split; [|cbn [bdata b2]; apply zfirstn_idem].
              cbn [bcode b2 new_binfo]. symmetry. exact Hcode.
        -- destruct Ho3 as [_ Hc]. congruence.
Qed.
