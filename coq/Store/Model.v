(* Model of aldor/aldor/src/store.c (B-tree based allocator, STO_USE_BTREE),
   definitions only.  Three layers:

   1. size layer: the size-class tables exactly as stoInit builds them,
      mixed-size rounding, the layout of a section (sectQmCount, sectPrepare),
      the quantum-index computation by shift / division table.
   2. piece layer: a state machine [step : st -> op -> st * out] over
        - fixed sections (vector of quanta, free or busy),
        - mixed sections (pieces in address order, each with nbytesPrev,
          nbytesThis, free/frontier/busy),
        - the per-class LIFO free lists (fixedPieces[]),
        - the index of free mixed pieces (mixedPieces), and
        - mixedFrontier.
      The concrete B-tree (btree.c) is NOT modelled here: the index is an
      abstract ordered map size -> list of pieces (sorted association list,
      unique keys); the list per size is the doubly linked list of
      mxmemLink/mxmemUnlink with its exact insertion order.  btree.c itself is
      the subject of C20.
      The QmInfo tag array is represented by the piece list / quantum vector
      itself (kind and object code of a piece); mark bits are the [marked]
      list of the collector.
      Pages: where a fresh section is placed (pagesGet/pagesFind/pagesAdd, the
      OS) is NOT modelled: the base page of a fresh section is an input of
      the operation (reported by the harness), and only the relative order of
      the bases is used (sweep order, address order inside the index lists).
   3. collector layer: mark (Gc.v, instantiated with the store's notion of
      "which piece does this word point into") and stoGcSweep.

   Addresses: [addr = (section ordinal, byte offset from the start of the
   section's first page)].  A block is identified by the address stoAlloc
   returned for it. *)
Require Import ZArith List Bool.
Import ListNotations.
Require Import AV.Gen.StoreParams.
Require Import AV.Store.Gc.
Local Open Scope Z_scope.

(* ================================================================== *)
(* 1. size layer                                                        *)

(* stoInit:  for (sz0 = 0, i = 0; i < FixedSizeCount; sz0 = sz+1, i++) {
                sz = fixedSize[i];
                for (j = sz0; j <= sz; j++) { fixedSizeFor[j] = sz; fixedSizeIndexFor[j] = i; } }
   The arrays are static (zero-initialised); entry [n] holds the LAST write. *)
Fixpoint fixed_lookup (classes : list Z) (i sz0 n : Z) (acc : Z * Z) : Z * Z :=
  match classes with
  | [] => acc
  | sz :: rest =>
      fixed_lookup rest (i + 1) (sz + 1) n
                   (if (sz0 <=? n) && (n <=? sz) then (sz, i) else acc)
  end.

Definition fixed_for (n : Z) : Z * Z := fixed_lookup fixedSize 0 0 n (0, 0).
Definition fixedSizeFor (n : Z) : Z := fst (fixed_for n).
Definition fixedSizeIndexFor (n : Z) : Z := snd (fixed_for n).

Definition class_size (c : nat) : Z := nth c fixedSize 0.
Definition class_log (c : nat) : Z := nth c fixedSizeLog 0.

(* util.h *)
Definition round_up (n d : Z) : Z := if n mod d =? 0 then n else n + d - n mod d.
Definition quo_round_up (n d : Z) : Z := if n mod d =? 0 then n / d else n / d + 1.

(* stoAlloc / stoResize: true size of a piece for a request of n bytes *)
Definition mixed_nb (n : Z) : Z := round_up (n + MxMemHeadSize) MixedSizeQuantum.
Definition true_size (n : Z) : Z :=
  if n <=? FixedSizeMax then fixedSizeFor n else mixed_nb n - MxMemHeadSize.

(* sectQmCount, sectPrepare *)
Definition qm_count (pages sz : Z) : Z := (pages * PgSize - SectionHeadSize) / (sz + QmInfoSize).
Definition data_off (pages sz : Z) : Z := pages * PgSize - qm_count pages sz * sz.
Definition fdata_off (sz : Z) : Z := data_off FixedSizePgGroup sz.
Definition mdata_off (pages : Z) : Z := data_off pages MixedSizeQuantum.

(* pieceGetMixed: pages of a fresh mixed section for a piece of nb bytes *)
Definition mixed_pages (nb : Z) : Z :=
  let nq := quo_round_up nb MixedSizeQuantum in
  let bytes := SectionHeadSize + nq * (QmInfoSize + MixedSizeQuantum) in
  let np := quo_round_up bytes PgSize in
  if np <? MixedSizePgGroup then MixedSizePgGroup else np.

(* sectPrepare: qmLog, qmDiv; stoInit: stoDivTable[table][j] = j / fixedSize[i]
   for every class i with fixedSizeLog[i] < 0, table = -(fixedSizeLog[i]+1);
   a later class with the same table number overwrites an earlier one. *)
Definition sect_qmlog (c : nat) : Z := if class_log c <? 0 then 0 else class_log c + LgWordSize.
Definition sect_qmdiv (c : nat) : Z := if sect_qmlog c =? 0 then - (class_log c + 1) else 0.

Fixpoint div_table_size (logs sizes : list Z) (tbl : Z) (acc : Z) : Z :=
  match logs, sizes with
  | l :: logs', s :: sizes' =>
      div_table_size logs' sizes' tbl (if (l <? 0) && (- (l + 1) =? tbl) then s else acc)
  | _, _ => acc
  end.

(* qmLogNo / qmDivNo: quantum index of byte offset d (relative to sect->data) *)
Definition qm_index (c : nat) (d : Z) : Z :=
  if sect_qmlog c =? 0
  then d / div_table_size fixedSizeLog fixedSize (sect_qmdiv c) 0
  else Z.shiftr d (sect_qmlog c).

(* ================================================================== *)
(* 2. piece layer                                                       *)

Definition addr := (nat * Z)%type.

Definition addr_eqb (a b : addr) : bool := Nat.eqb (fst a) (fst b) && (snd a =? snd b).

(* what the owner knows about a busy block: object code (5 bits), the prefix
   of bytes it wrote, and the pointer-holding words (word number, value).
   A pointer VALUE is an absolute byte address (page number of the section's
   base * PgSize + offset), as in C: which section it points into is decided
   when the collector looks at it, not when it is stored. *)
Record binfo := mkB { bcode : Z; bdata : list Z; bptrs : list (Z * Z) }.

Inductive qstate := QFree | QBusy (b : binfo).
Inductive kind := KFree | KFront | KBusy (b : binfo).
Record piece := mkP { pv : Z; psz : Z; pkd : kind }.

Inductive sect :=
| SFixed (base : Z) (qsz : Z) (cls : nat) (qs : list qstate)
| SMixed (base : Z) (pages : Z) (ps : list piece)
| SDead.

(* a free mixed piece is named by (section, offset of its header in the data area) *)
Definition loc := (nat * Z)%type.
Definition loc_eqb (a b : loc) : bool := Nat.eqb (fst a) (fst b) && (snd a =? snd b).

Record st := mkSt {
  sects : list sect;                    (* position = section ordinal *)
  flist : list (list (nat * nat));      (* fixedPieces[class] : (section, quantum) *)
  index : list (Z * list loc);          (* mixedPieces : size -> DLL *)
  front : option loc                    (* mixedFrontier *)
}.

Definition st0 : st :=
  mkSt [] (repeat [] (length fixedSize)) [] None.

Inductive out :=
| ONone
| ONull
| OErr
| OAddr (a : addr) (size code : Z)
| OGc (freed : list addr) (released : list nat).

Inductive op :=
| OpAlloc (n code base : Z)
| OpFree (a : addr)
| OpResize (a : addr) (n base : Z)
| OpRecode (a : addr) (code : Z)
| OpWrite (a : addr) (d : list Z)
| OpSetPtr (a : addr) (slot : Z) (v : option Z)
| OpGc (roots : list Z).

(* firstn with a binary count (same as [firstn (Z.to_nat n)], see Facts) *)
Fixpoint zfirstn {A : Type} (n : Z) (l : list A) : list A :=
  match l with
  | [] => []
  | x :: t => if 0 <? n then x :: zfirstn (n - 1) t else []
  end.

Fixpoint upd {A : Type} (n : nat) (x : A) (l : list A) : list A :=
  match l, n with
  | [], _ => []
  | _ :: t, O => x :: t
  | h :: t, S n' => h :: upd n' x t
  end.

Definition get_sect (t : st) (s : nat) : sect := nth s (sects t) SDead.
Definition set_sect (t : st) (s : nat) (x : sect) : st :=
  mkSt (upd s x (sects t)) (flist t) (index t) (front t).
Definition set_flist (t : st) (c : nat) (l : list (nat * nat)) : st :=
  mkSt (sects t) (upd c l (flist t)) (index t) (front t).
Definition set_index (t : st) (ix : list (Z * list loc)) : st :=
  mkSt (sects t) (flist t) ix (front t).
Definition set_front (t : st) (f : option loc) : st :=
  mkSt (sects t) (flist t) (index t) f.

Definition sect_base (x : sect) : Z :=
  match x with SFixed b _ _ _ => b | SMixed b _ _ => b | SDead => 0 end.

(* absolute address (in bytes, relative to the page numbering of the bases)
   of a mixed piece header; only comparisons of these are used *)
Definition loc_abs (t : st) (l : loc) : Z :=
  match get_sect t (fst l) with
  | SMixed b pages _ => b * PgSize + mdata_off pages + snd l
  | _ => 0
  end.

(* ---- pieces of a mixed section ------------------------------------ *)

(* offset of piece number k *)
Fixpoint poff (ps : list piece) (k : nat) : Z :=
  match k, ps with
  | S k', p :: t => psz p + poff t k'
  | _, _ => 0
  end.

(* number of the piece whose header is at offset [target] *)
Fixpoint pfind (ps : list piece) (cur target : Z) (k : nat) : option nat :=
  match ps with
  | [] => None
  | p :: t => if cur =? target then Some k
              else if target <? cur then None
              else pfind t (cur + psz p) target (S k)
  end.

(* number of the piece that contains offset [target] *)
Fixpoint pcontaining (ps : list piece) (cur target : Z) (k : nat) : option nat :=
  match ps with
  | [] => None
  | p :: t => if target <? cur then None
              else if target <? cur + psz p then Some k
              else pcontaining t (cur + psz p) target (S k)
  end.

Definition pget (ps : list piece) (k : nat) : piece := nth k ps (mkP 0 0 KFree).

Definition set_pv (ps : list piece) (k : nat) (v : Z) : list piece :=
  match nth_error ps k with
  | Some p => upd k (mkP v (psz p) (pkd p)) ps
  | None => ps                       (* IF (N) ... : no next piece *)
  end.
Definition set_kind (ps : list piece) (k : nat) (kd : kind) : list piece :=
  match nth_error ps k with
  | Some p => upd k (mkP (pv p) (psz p) kd) ps
  | None => ps
  end.

Fixpoint remove_nth {A : Type} (k : nat) (l : list A) : list A :=
  match l, k with
  | [], _ => []
  | _ :: t, O => t
  | h :: t, S k' => h :: remove_nth k' t
  end.

Fixpoint insert_nth {A : Type} (k : nat) (x : A) (l : list A) : list A :=
  match k, l with
  | O, _ => x :: l
  | S k', h :: t => h :: insert_nth k' x t
  | S _, [] => [x]
  end.

(* mxmemMerge(curr = piece k, next = piece k+1) *)
Definition pmerge (ps : list piece) (k : nat) : list piece :=
  let c := pget ps k in
  let n := pget ps (S k) in
  let c' := mkP (pv c) (psz c + psz n) (pkd c) in
  (* curr->nbytesThis += next->nbytesThis; IF (N) N->nbytesPrev = curr->nbytesThis *)
  let ps1 := upd k c' ps in
  let ps2 := set_pv ps1 (S (S k)) (psz c') in
  remove_nth (S k) ps2.

(* mxmemSplit(curr = piece k, nbytes): the remainder becomes piece k+1 and
   inherits the kind given by the caller *)
Definition psplit (ps : list piece) (k : nat) (nbytes : Z) (rkind : kind) : list piece :=
  let c := pget ps k in
  let r := mkP nbytes (psz c - nbytes) rkind in
  let ps1 := set_pv ps (S k) (psz r) in                 (* IF (N) N->nbytesPrev = r->nbytesThis *)
  let ps2 := upd k (mkP (pv c) nbytes (pkd c)) ps1 in
  insert_nth (S k) r ps2.

(* ---- the index of free mixed pieces -------------------------------- *)

(* mxmemLink's walk along the doubly linked list of one size:
     u = dll->pieces; v = u->linkA;
     WHILE (mi > u && v) { u = v; v = u->linkA; }
     insert mi between u and v *)
Fixpoint dll_insert (abs : loc -> Z) (x : loc) (l : list loc) : list loc :=
  match l with
  | [] => [x]
  | u :: rest =>
      match rest with
      | [] => [u; x]
      | _ => if abs u <? abs x then u :: dll_insert abs x rest else u :: x :: rest
      end
  end.

Fixpoint dll_remove (x : loc) (l : list loc) : list loc :=
  match l with
  | [] => []
  | u :: rest => if loc_eqb u x then rest else u :: dll_remove x rest
  end.

(* btreeSearchGE: entry with the least key >= n *)
Fixpoint idx_search_ge (n : Z) (ix : list (Z * list loc)) : option (Z * list loc) :=
  match ix with
  | [] => None
  | (k, l) :: t => if n <=? k then Some (k, l) else idx_search_ge n t
  end.

Fixpoint idx_delete (key : Z) (ix : list (Z * list loc)) : list (Z * list loc) :=
  match ix with
  | [] => []
  | (k, l) :: t => if k =? key then t else (k, l) :: idx_delete key t
  end.

(* mxmemLink *)
Fixpoint idx_link (abs : loc -> Z) (key : Z) (x : loc) (ix : list (Z * list loc))
  : list (Z * list loc) :=
  match ix with
  | [] => [(key, [x])]
  | (k, l) :: t =>
      if k =? key then (k, dll_insert abs x l) :: t
      else if key <? k then (key, [x]) :: (k, l) :: t
      else (k, l) :: idx_link abs key x t
  end.

(* mxmemUnlink without the deletion of an emptied entry *)
Fixpoint idx_unlink_keep (key : Z) (x : loc) (ix : list (Z * list loc)) : list (Z * list loc) :=
  match ix with
  | [] => []
  | (k, l) :: t =>
      if k =? key then (k, dll_remove x l) :: t else (k, l) :: idx_unlink_keep key x t
  end.

Definition idx_get (key : Z) (ix : list (Z * list loc)) : list loc :=
  match idx_search_ge key ix with
  | Some (k, l) => if k =? key then l else []
  | None => []
  end.

(* mxmemUnlinkFromBTree *)
Definition idx_unlink (key : Z) (x : loc) (ix : list (Z * list loc)) : list (Z * list loc) :=
  let ix1 := idx_unlink_keep key x ix in
  match idx_get key ix1 with
  | [] => idx_delete key ix1
  | _ => ix1
  end.

(* ---- piecePutMixed -------------------------------------------------- *)

Definition is_free (k : kind) : bool := match k with KFree => true | _ => false end.
Definition is_busy (k : kind) : bool := match k with KBusy _ => true | _ => false end.

(* Works on section s (mixed, pieces ps), piece number k.  Returns the new
   piece list, the new index, and the number of the resulting free piece. *)
Definition put_mixed (t : st) (s : nat) (ps : list piece) (ix : list (Z * list loc)) (k : nat)
  : list piece * list (Z * list loc) * nat :=
  let mi := pget ps k in
  let off := poff ps k in
  (* 1. which neighbours are free *)
  let prev := match k with
              | O => None                                   (* isFirst *)
              | S _ => match pfind ps 0 (off - pv mi) O with
                       | Some j => if is_free (pkd (pget ps j)) then Some j else None
                       | None => None
                       end
              end in
  let next := match nth_error ps (S k) with
              | Some n => if is_free (pkd n) then Some (S k) else None
              | None => None                                (* isLast *)
              end in
  (* 2. unlink and merge *)
  let '(ps1, ix1) :=
    match next with
    | Some j => (pmerge ps k, idx_unlink (psz (pget ps j)) (s, poff ps j) ix)
    | None => (ps, ix)
    end in
  let '(ps2, ix2, k2) :=
    match prev with
    | Some j => (pmerge ps1 j, idx_unlink (psz (pget ps1 j)) (s, poff ps1 j) ix1, j)
    | None => (ps1, ix1, k)
    end in
  (* 3. link, 4. mark free *)
  let ps3 := set_kind ps2 k2 KFree in
  (ps3, idx_link (loc_abs t) (psz (pget ps3 k2)) (s, poff ps3 k2) ix2, k2).

Definition mixed_pages_of (x : sect) : Z := match x with SMixed _ pg _ => pg | _ => 0 end.
Definition mixed_pieces_of (x : sect) : list piece := match x with SMixed _ _ ps => ps | _ => [] end.

Definition put_mixed_st (t : st) (s : nat) (k : nat) : st :=
  match get_sect t s with
  | SMixed b pg ps =>
      let '(ps', ix', _) := put_mixed t s ps (index t) k in
      mkSt (upd s (SMixed b pg ps') (sects t)) (flist t) ix' (front t)
  | _ => t
  end.

(* ---- pieceGetMixed -------------------------------------------------- *)

Definition new_binfo (code : Z) : binfo := mkB (Z.land code QmCodeMask) [] [].

(* returns the state and the piece (section, number) that was taken, already
   tagged busy with [code] *)
Definition get_mixed (t : st) (nb code base : Z) : st * option (nat * nat) :=
  match idx_search_ge nb (index t) with
  | Some (key, mi :: restl) =>
      let s := fst mi in
      match get_sect t s with
      | SMixed b pg ps =>
          match pfind ps 0 (snd mi) O with
          | None => (t, None)
          | Some k =>
              let is1 := match restl with [] => true | _ => false end in
              (* mxmemUnlink(mi); mi->isFree = false *)
              let ix1 := idx_unlink_keep key mi (index t) in
              let ps1 := set_kind ps k (KBusy (new_binfo code)) in
              let mn := psz (pget ps1 k) in
              if nb + SplitSlack <? mn then
                let r := mn - nb in
                let ps2 := psplit ps1 k nb KFree in
                let t2 := mkSt (upd s (SMixed b pg ps2) (sects t)) (flist t) ix1 (front t) in
                if negb is1 then (put_mixed_st t2 s (S k), Some (s, k))
                else
                  let same := match idx_search_ge r ix1 with
                              | Some (k1, _) => k1 =? key
                              | None => false
                              end in
                  if negb same
                  then (put_mixed_st (set_index t2 (idx_delete key ix1)) s (S k), Some (s, k))
                  else (* reuse the btree entry: key := r, dll := [mt] *)
                    (set_index t2 (idx_link (loc_abs t2) r (s, snd mi + nb) (idx_delete key ix1)),
                     Some (s, k))
              else
                let t2 := mkSt (upd s (SMixed b pg ps1) (sects t)) (flist t)
                               (if is1 then idx_delete key ix1 else ix1) (front t) in
                (t2, Some (s, k))
          end
      | _ => (t, None)
      end
  | Some (_, []) => (t, None)
  | None =>
      (* no piece in the tree is big enough *)
      let t1 :=
        match front t with
        | Some f =>
            match get_sect t (fst f) with
            | SMixed _ _ ps =>
                match pfind ps 0 (snd f) O with
                | Some k => if psz (pget ps k) <? nb
                            then put_mixed_st (set_front t None) (fst f) k
                            else t
                | None => t
                end
            | _ => t
            end
        | None => t
        end in
      let t2 :=
        match front t1 with
        | Some _ => t1
        | None =>
            let pg := mixed_pages nb in
            let s := length (sects t1) in
            let nq := qm_count pg MixedSizeQuantum in
            (* sect->pgCount is a short: a section of more pages is not representable
               (sectPrepare only asserts npages < 1<<16); the model refuses it *)
            if PgCountMax <? pg then t1 else
            mkSt (sects t1 ++ [SMixed base pg [mkP 0 (nq * MixedSizeQuantum) KFront]])
                 (flist t1) (index t1) (Some (s, 0))
        end in
      match front t2 with
      | None => (t2, None)
      | Some f =>
          let s := fst f in
          match get_sect t2 s with
          | SMixed b pg ps =>
              match pfind ps 0 (snd f) O with
              | None => (t2, None)
              | Some k =>
                  let ps1 := set_kind ps k (KBusy (new_binfo code)) in
                  let mn := psz (pget ps1 k) in
                  if nb + SplitSlack <? mn then
                    let ps2 := psplit ps1 k nb KFront in
                    (mkSt (upd s (SMixed b pg ps2) (sects t2)) (flist t2) (index t2)
                          (Some (s, snd f + nb)), Some (s, k))
                  else
                    (mkSt (upd s (SMixed b pg ps1) (sects t2)) (flist t2) (index t2) None,
                     Some (s, k))
              end
          | _ => (t2, None)
          end
      end
  end.

(* ---- blocks --------------------------------------------------------- *)

Inductive bref := BFix (s : nat) (i : nat) | BMix (s : nat) (k : nat).

(* the busy block whose address (as returned by stoAlloc) is a *)
Definition lookup (t : st) (a : addr) : option (bref * binfo) :=
  let s := fst a in
  match get_sect t s with
  | SFixed _ qsz c qs =>
      let d := snd a - fdata_off qsz in
      if (0 <=? d) && (0 <? qsz) && (d mod qsz =? 0) then
        match nth_error qs (Z.to_nat (d / qsz)) with
        | Some (QBusy b) => Some (BFix s (Z.to_nat (d / qsz)), b)
        | _ => None
        end
      else None
  | SMixed _ pg ps =>
      match pfind ps 0 (snd a - mdata_off pg - MxMemHeadSize) O with
      | Some k => match pkd (pget ps k) with
                  | KBusy b => Some (BMix s k, b)
                  | _ => None
                  end
      | None => None
      end
  | SDead => None
  end.

Definition bref_addr (t : st) (r : bref) : addr :=
  match r with
  | BFix s i => match get_sect t s with
                | SFixed _ qsz _ _ => (s, fdata_off qsz + Z.of_nat i * qsz)
                | _ => (s, 0)
                end
  | BMix s k => match get_sect t s with
                | SMixed _ pg ps => (s, mdata_off pg + poff ps k + MxMemHeadSize)
                | _ => (s, 0)
                end
  end.

(* stoSize *)
Definition bref_size (t : st) (r : bref) : Z :=
  match r with
  | BFix s _ => match get_sect t s with SFixed _ qsz _ _ => qsz | _ => 0 end
  | BMix s k => psz (pget (mixed_pieces_of (get_sect t s)) k) - MxMemHeadSize
  end.

Definition set_binfo (t : st) (r : bref) (b : binfo) : st :=
  match r with
  | BFix s i => match get_sect t s with
                | SFixed bs qsz c qs => set_sect t s (SFixed bs qsz c (upd i (QBusy b) qs))
                | _ => t
                end
  | BMix s k => match get_sect t s with
                | SMixed bs pg ps => set_sect t s (SMixed bs pg (set_kind ps k (KBusy b)))
                | _ => t
                end
  end.

(* ---- stoAlloc ------------------------------------------------------- *)

Definition nat_pairs (s : nat) (n : nat) : list (nat * nat) := map (fun i => (s, i)) (seq 0 n).

Definition alloc (t : st) (n code base : Z) : st * out :=
  if n =? 0 then (t, ONull)
  else if n <=? FixedSizeMax then
    let sz := fixedSizeFor n in
    let c := Z.to_nat (fixedSizeIndexFor n) in
    (* piecesGetFixed when the free list of the class is empty *)
    let t1 :=
      match nth c (flist t) [] with
      | [] =>
          let s := length (sects t) in
          let nq := Z.to_nat (qm_count FixedSizePgGroup sz) in
          mkSt (sects t ++ [SFixed base sz (Z.to_nat (fixedSizeIndexFor sz)) (repeat QFree nq)])
               (upd c (nat_pairs s nq ++ nth c (flist t) []) (flist t)) (index t) (front t)
      | _ => t
      end in
    match nth c (flist t1) [] with
    | [] => (t1, OErr)
    | (s, i) :: rest =>
        match get_sect t1 s with
        | SFixed b qsz c' qs =>
            (* assert(qi == qmNo(p, sect)) *)
            if qm_index c' (Z.of_nat i * qsz) =? Z.of_nat i then
              (mkSt (upd s (SFixed b qsz c' (upd i (QBusy (new_binfo code)) qs)) (sects t1))
                    (upd c rest (flist t1)) (index t1) (front t1),
               OAddr (s, fdata_off qsz + Z.of_nat i * qsz) qsz (Z.land code QmCodeMask))
            else (t1, OErr)
        | _ => (t1, OErr)
        end
    end
  else
    let nb := mixed_nb n in
    match get_mixed t nb code base with
    | (t1, Some (s, k)) =>
        (t1, OAddr (bref_addr t1 (BMix s k)) (bref_size t1 (BMix s k)) (Z.land code QmCodeMask))
    | (t1, None) => (t1, OErr)
    end.

(* ---- stoFree -------------------------------------------------------- *)

Definition free (t : st) (a : addr) : st * out :=
  match lookup t a with
  | Some (BFix s i, _) =>
      match get_sect t s with
      | SFixed b qsz c qs =>
          if qm_index c (Z.of_nat i * qsz) =? Z.of_nat i then
            (mkSt (upd s (SFixed b qsz c (upd i QFree qs)) (sects t))
                  (upd c ((s, i) :: nth c (flist t) []) (flist t)) (index t) (front t), ONone)
          else (t, OErr)
      | _ => (t, OErr)
      end
  | Some (BMix s k, _) => (put_mixed_st t s k, ONone)
  | None => (t, OErr)
  end.

(* ---- stoRecode, owner writes --------------------------------------- *)

Definition recode (t : st) (a : addr) (code : Z) : st * out :=
  match lookup t a with
  | Some (r, b) =>
      (set_binfo t r (mkB (Z.land code QmCodeMask) (bdata b) (bptrs b)),
       OAddr a (bref_size t r) (Z.land code QmCodeMask))
  | None => (t, OErr)
  end.

Definition write (t : st) (a : addr) (d : list Z) : st * out :=
  match lookup t a with
  | Some (r, b) =>
      if Z.of_nat (length d) <=? bref_size t r
      then (set_binfo t r (mkB (bcode b) d (bptrs b)), ONone)
      else (t, OErr)
  | None => (t, OErr)
  end.

Definition del_slot (slot : Z) (l : list (Z * Z)) : list (Z * Z) :=
  filter (fun e => negb (fst e =? slot)) l.

Definition setptr (t : st) (a : addr) (slot : Z) (v : option Z) : st * out :=
  match lookup t a with
  | Some (r, b) =>
      if (0 <=? slot) && ((slot + 1) * WordSize <=? bref_size t r)
      then (set_binfo t r (mkB (bcode b) (bdata b)
                               (match v with
                                | Some x => (slot, x) :: del_slot slot (bptrs b)
                                | None => del_slot slot (bptrs b)
                                end)), ONone)
      else (t, OErr)
  | None => (t, OErr)
  end.

(* ---- stoResize ------------------------------------------------------ *)

Definition resize (t : st) (a : addr) (n base : Z) : st * out :=
  match lookup t a with
  | None => (t, OErr)
  | Some (r, b) =>
      let osz := bref_size t r in
      let nsz := true_size n in
      if osz =? nsz then (t, OAddr a osz (bcode b))
      else
        match alloc t n (bcode b) base with
        | (t1, OAddr na nsize ncode) =>
            (* memcpy(np, p, MIN(nbytes, osz)) *)
            let keep := Z.min n osz in
            let t2 :=
              match lookup t1 na with
              | Some (nr, nbi) =>
                  set_binfo t1 nr
                    (mkB (bcode nbi) (zfirstn keep (bdata b))
                         (filter (fun e => (fst e + 1) * WordSize <=? keep) (bptrs b)))
              | None => t1
              end in
            let '(t3, _) := free t2 a in
            (t3, OAddr na nsize ncode)
        | (t1, ONull) =>
            (* stoAlloc(oc, 0) == NULL; memcpy of 0 bytes; stoFree(p) *)
            let '(t3, _) := free t1 a in (t3, ONull)
        | (t1, _) => (t1, OErr)
        end
  end.

(* ================================================================== *)
(* 3. collector                                                         *)

(* pages of a section *)
Definition sect_pages (x : sect) : Z :=
  match x with SFixed _ _ _ _ => FixedSizePgGroup | SMixed _ pg _ => pg | SDead => 0 end.

(* pgMap lookup: the busy section whose pages contain the absolute address v *)
Fixpoint find_sect (l : list sect) (s : nat) (v : Z) : option nat :=
  match l with
  | [] => None
  | x :: r =>
      if match x with SDead => false | _ => true end
         && (sect_base x * PgSize <=? v) && (v <? (sect_base x + sect_pages x) * PgSize)
      then Some s else find_sect r (S s) v
  end.

Definition abs_of (t : st) (a : addr) : Z := sect_base (get_sect t (fst a)) * PgSize + snd a.

(* stoGcMarkRange: which busy block does the word value v keep alive *)
Definition resolve (t : st) (v : Z) : option addr :=
  match find_sect (sects t) O v with
  | None => None
  | Some s =>
  let off := v - sect_base (get_sect t s) * PgSize in
  match get_sect t s with
  | SFixed _ qsz c qs =>
      let d := off - fdata_off qsz in
      if 0 <=? d then
        let i := Z.to_nat (qm_index c d) in
        match nth_error qs i with
        | Some (QBusy _) => Some (s, fdata_off qsz + Z.of_nat i * qsz)
        | _ => None
        end
      else None
  | SMixed _ pg ps =>
      let d := off - mdata_off pg in
      if 0 <=? d then
        (* qmNo, then back to the first quantum of the piece *)
        match pcontaining ps 0 (d / MixedSizeQuantum * MixedSizeQuantum) O with
        | Some k => match pkd (pget ps k) with
                    | KBusy _ => Some (s, mdata_off pg + poff ps k + MxMemHeadSize)
                    | _ => None
                    end
        | None => None
        end
      else None
  | SDead => None
  end
  end.

Definition block_ptrs (t : st) (a : addr) : list Z :=
  match lookup t a with
  | Some (_, b) => map snd (bptrs b)
  | None => []
  end.

(* all busy blocks, section by section *)
Fixpoint fixed_live (s : nat) (qsz : Z) (qs : list qstate) (i : nat) : list (addr * Z * binfo) :=
  match qs with
  | [] => []
  | QBusy b :: t => ((s, fdata_off qsz + Z.of_nat i * qsz), qsz, b) :: fixed_live s qsz t (S i)
  | QFree :: t => fixed_live s qsz t (S i)
  end.

Fixpoint mixed_live (s : nat) (pg : Z) (ps : list piece) (cur : Z) : list (addr * Z * binfo) :=
  match ps with
  | [] => []
  | p :: t =>
      match pkd p with
      | KBusy b => ((s, mdata_off pg + cur + MxMemHeadSize), psz p - MxMemHeadSize, b)
                   :: mixed_live s pg t (cur + psz p)
      | _ => mixed_live s pg t (cur + psz p)
      end
  end.

Definition sect_live (s : nat) (x : sect) : list (addr * Z * binfo) :=
  match x with
  | SFixed _ qsz _ qs => fixed_live s qsz qs O
  | SMixed _ pg ps => mixed_live s pg ps 0
  | SDead => []
  end.

Fixpoint sects_live (l : list sect) (s : nat) : list (addr * Z * binfo) :=
  match l with
  | [] => []
  | x :: t => sect_live s x ++ sects_live t (S s)
  end.

(* live blocks: (address, true size, owner's information) *)
Definition live (t : st) : list (addr * Z * binfo) := sects_live (sects t) O.
Definition live_addrs (t : st) : list addr := map (fun e => fst (fst e)) (live t).

Definition gc_mark (t : st) (roots : list Z) : list addr :=
  mark Z addr addr_eqb (resolve t) (block_ptrs t)
       (mark_fuel Z addr (block_ptrs t) (live_addrs t) roots) roots [].

Definition is_marked (m : list addr) (a : addr) : bool := existsb (addr_eqb a) m.

(* ---- the marker, as coded in stoGcMarkRange ---------------------------------- *)
(* The QmInfo tags of a mixed section: the first quantum of a piece is tagged
   busy-first or free-first (the frontier is tagged free), the others "follow". *)
Inductive tag := TFollow | TFree | TBusy.

Definition piece_quanta (p : piece) : nat := Z.to_nat (psz p / MixedSizeQuantum).

Fixpoint piece_tags (ps : list piece) : list tag :=
  match ps with
  | [] => []
  | p :: t => (if is_busy (pkd p) then TBusy else TFree)
              :: repeat TFollow (piece_quanta p - 1) ++ piece_tags t
  end.

(* while (QmInfoKind(qmtag) == QmFollow) qmtag = sect->info[--qmno];
   GcInteriorMax >= 0: a source that gives up after that many steps back
   (for (back = 0; ...; back++) { if (back == Max) break; ... } if (still follow) continue;) *)
Fixpoint step_back (tags : list tag) (q : nat) (back : Z) : option nat :=
  match nth q tags TFree with
  | TFollow =>
      if (0 <=? GcInteriorMax) && (back =? GcInteriorMax) then None
      else match q with
           | O => None
           | S q' => step_back tags q' (back + 1)
           end
  | _ => Some q
  end.

(* for one word: which busy piece does it make the marker visit *)
Definition cresolve (t : st) (v : Z) : option addr :=
  match find_sect (sects t) O v with          (* isInHeap, pgMap: busy page, section header *)
  | None => None
  | Some s =>
  let off := v - sect_base (get_sect t s) * PgSize in
  match get_sect t s with
  | SFixed _ qsz c qs =>
      let d := off - fdata_off qsz in
      if 0 <=? d then                          (* ptrLT(p, sect->data) *)
        let i := Z.to_nat (qm_index c d) in
        match nth_error qs i with
        | Some (QBusy _) => Some (s, fdata_off qsz + Z.of_nat i * qsz)
        | _ => None
        end
      else None
  | SMixed _ pg ps =>
      let d := off - mdata_off pg in
      if 0 <=? d then
        let tags := piece_tags ps in
        match step_back tags (Z.to_nat (d / MixedSizeQuantum)) 0 with
        | Some q0 =>
            match nth q0 tags TFree with
            | TBusy => Some (s, mdata_off pg + Z.of_nat q0 * MixedSizeQuantum + MxMemHeadSize)
            | _ => None
            end
        | None => None
        end
      else None
  | SDead => None
  end
  end.

(* every word of the object, in address order: [Some v] a word the owner stored a
   pointer value in, [None] any other word (assumed not to look like a heap address) *)
Fixpoint slot_value (slot : Z) (l : list (Z * Z)) : option Z :=
  match l with
  | [] => None
  | (k, v) :: r => if k =? slot then Some v else slot_value slot r
  end.

Fixpoint zseq (start : Z) (n : nat) : list Z :=
  match n with O => [] | S n' => start :: zseq (start + 1) n' end.

Definition obj_words (t : st) (a : addr) : list (option Z) :=
  match lookup t a with
  | Some (r, b) => map (fun i => slot_value i (bptrs b))
                       (zseq 0 (Z.to_nat (bref_size t r / WordSize)))
  | None => []
  end.

Definition wresolve (t : st) (w : option Z) : option addr :=
  match w with Some v => cresolve t v | None => None end.

(* stoGcMarkRange(lo, hi): for every word of the range: not into a busy piece, or
   piece already marked -> next word; otherwise mark it and scan ALL the words of the
   piece by a nested call (for the last word of the range: in place), then go on with
   the next word.  [fuel]: each nested call has marked one more piece.
   GcMarkDepthMax >= 0: a source that stops nesting at that depth and carries on in
   place, which abandons the rest of the range. *)
Fixpoint cmark (fuel : nat) (t : st) (depth : Z) (words : list (option Z)) (marked : list addr)
  : list addr :=
  match fuel with
  | O => marked
  | S f =>
      (fix scan (ws : list (option Z)) (marked : list addr) {struct ws} : list addr :=
         match ws with
         | [] => marked
         | w :: rest =>
             match wresolve t w with
             | None => scan rest marked
             | Some b =>
                 if is_marked marked b then scan rest marked
                 else
                   match rest with
                   | [] => cmark f t depth (obj_words t b) (b :: marked)
                   | _ =>
                       if (0 <=? GcMarkDepthMax) && (depth =? GcMarkDepthMax)
                       then cmark f t depth (obj_words t b) (b :: marked)
                       else scan rest (cmark f t (depth + 1) (obj_words t b) (b :: marked))
                   end
             end
         end) words marked
  end.

Definition cgc_mark (t : st) (roots : list Z) : list addr :=
  cmark (S (length (live t))) t 0 (map Some roots) [].

(* stoGcSweepFixed: returns the new quantum vector, the pieces for the free
   list (free before or swept now), the number of marked busy quanta and the
   blocks freed *)
Fixpoint sweep_fixed (m : list addr) (s : nat) (qsz : Z) (qs : list qstate) (i : nat)
  : list qstate * list (nat * nat) * nat * list addr :=
  match qs with
  | [] => ([], [], O, [])
  | q :: t =>
      let '(qs', fl, nb, fr) := sweep_fixed m s qsz t (S i) in
      match q with
      | QFree => (QFree :: qs', (s, i) :: fl, nb, fr)
      | QBusy b =>
          let a := (s, fdata_off qsz + Z.of_nat i * qsz) in
          if is_marked m a then (QBusy b :: qs', fl, S nb, fr)
          else (QFree :: qs', (s, i) :: fl, nb, a :: fr)
      end
  end.

(* stoGcSweepMixed, the loop over the pieces: [k] is the current piece number,
   fuel bounds the number of iterations by the number of pieces *)
Fixpoint sweep_mixed (m : list addr) (fuel : nat) (t : st) (s : nat) (k : nat) (nbusy : nat)
         (fr : list addr) : st * nat * list addr :=
  match fuel with
  | O => (t, nbusy, fr)
  | S fuel' =>
      match get_sect t s with
      | SMixed b pg ps =>
          match nth_error ps k with
          | None => (t, nbusy, fr)
          | Some p =>
              match pkd p with
              | KBusy _ =>
                  let a := (s, mdata_off pg + poff ps k + MxMemHeadSize) in
                  if is_marked m a then sweep_mixed m fuel' t s (S k) (S nbusy) fr
                  else
                    let '(ps', ix', k') := put_mixed t s ps (index t) k in
                    let t' := mkSt (upd s (SMixed b pg ps') (sects t)) (flist t) ix' (front t) in
                    sweep_mixed m fuel' t' s (S k') nbusy (fr ++ [a])
              | _ => sweep_mixed m fuel' t s (S k) nbusy fr
              end
          end
      | _ => (t, nbusy, fr)
      end
  end.

(* insertion of a section ordinal into a list sorted by base page *)
Fixpoint insert_by_base (t : st) (s : nat) (l : list nat) : list nat :=
  match l with
  | [] => [s]
  | x :: r => if sect_base (get_sect t s) <? sect_base (get_sect t x)
              then s :: x :: r else x :: insert_by_base t s r
  end.

Definition live_sects (t : st) : list nat :=
  filter (fun s => match get_sect t s with SDead => false | _ => true end)
         (seq 0 (length (sects t))).

(* the order in which stoGcSweep visits the sections: by page number *)
Definition sweep_order (t : st) : list nat :=
  fold_right (insert_by_base t) [] (live_sects t).

(* one section of stoGcSweep; [acc] are the rebuilt fixed free lists *)
Definition sweep_sect (m : list addr) (s : nat)
           (x : st * list (list (nat * nat)) * list addr * list nat)
  : st * list (list (nat * nat)) * list addr * list nat :=
  let '(t, acc, fr, rel) := x in
  match get_sect t s with
  | SFixed b qsz c qs =>
      let '(qs', fl, nb, fr') := sweep_fixed m s qsz qs O in
      match nb with
      | O => (* no busy quantum left: pagesPut *)
          (set_sect t s SDead, acc, fr ++ fr', rel ++ [s])
      | S _ =>
          (set_sect t s (SFixed b qsz c qs'), upd c (nth c acc [] ++ fl) acc, fr ++ fr', rel)
      end
  | SMixed b pg ps =>
      let '(t1, nb, fr') := sweep_mixed m (length ps) t s O O [] in
      let has_front := match front t1 with Some f => Nat.eqb (fst f) s | None => false end in
      match nb with
      | O =>
          if has_front then (t1, acc, fr ++ fr', rel)
          else
            (* the section is a single free piece: unlink it, pagesPut *)
            let ps1 := mixed_pieces_of (get_sect t1 s) in
            let t2 := set_index t1 (idx_unlink (psz (pget ps1 O)) (s, 0) (index t1)) in
            (set_sect t2 s SDead, acc, fr ++ fr', rel ++ [s])
      | S _ => (t1, acc, fr ++ fr', rel)
      end
  | SDead => x
  end.

(* stoGcSweep for a given set of marked pieces *)
Definition gc_with (m : list addr) (t : st) : st * out :=
  let '(t1, acc, fr, rel) :=
    fold_left (fun x s => sweep_sect m s x) (sweep_order t)
              (t, repeat [] (length (flist t)), [], []) in
  (mkSt (sects t1) acc (index t1) (front t1), OGc fr rel).

(* stoGc: mark from the roots as stoGcMarkRange does, then sweep *)
Definition gc (t : st) (roots : list Z) : st * out := gc_with (cgc_mark t roots) t.

(* ================================================================== *)
(* the state machine                                                    *)

Definition step (t : st) (o : op) : st * out :=
  match o with
  | OpAlloc n code base => alloc t n code base
  | OpFree a => free t a
  | OpResize a n base => resize t a n base
  | OpRecode a code => recode t a code
  | OpWrite a d => write t a d
  | OpSetPtr a slot v => setptr t a slot v
  | OpGc roots => gc t roots
  end.

Definition run_ops (ops : list op) : st := fold_left (fun t o => fst (step t o)) ops st0.

(* ---- helpers for the extracted driver (printing only) -------------- *)
Definition new_sects (t t' : st) : list (Z * Z * Z * Z) :=
  map (fun s => match get_sect t' s with
                | SFixed _ _ c _ => (Z.of_nat s, 0, FixedSizePgGroup, Z.of_nat c)
                | SMixed _ pg _ => (Z.of_nat s, 1, pg, 0)
                | SDead => (Z.of_nat s, 2, 0, 0)
                end)
      (seq (length (sects t)) (length (sects t') - length (sects t))).
Definition addr_z (a : addr) : Z * Z := (Z.of_nat (fst a), snd a).
Definition mk_addr (s o : Z) : addr := (Z.to_nat s, o).
Definition nat_z (n : nat) : Z := Z.of_nat n.
Definition block_data (t : st) (a : addr) : list Z :=
  match lookup t a with Some (_, b) => bdata b | None => [] end.
