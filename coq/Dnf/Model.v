(* Model of /repo/aldor/aldor/src/dnf.c (disjunctive normal form used for conditional
   exports), function for function.  Definitions only; proofs are in Facts.v.

   Representation
     DNF_Atom  (int, non-zero; sign = polarity)          Z
     DNF_And   (struct dnf_And: argc, argv[])            list Z            (argc = length)
     DNF       (struct dnf_Or : argc, argv[])            list (list Z)
     a DNF under construction in dnfOrMerge/dnfAnd,
       where argv[i] may be NULL                         list (option (list Z))

   Not represented: storage (dnfAndNew/Copy/Free, the shared static dnfTrueValue /
   dnfFalseValue: a copy is the same value), `int` overflow (negating INT_MIN), dnfPrint /
   dnfFormatter (text), dnfFollow (identity), dnfAlias (marked "currently broken" in the
   source, mutates in place).  Pointer equality in dnfEqual is an explicit boolean. *)

Require Import ZArith List Bool.
Import ListNotations.
Local Open Scope Z_scope.

Definition atom := Z.
Definition conj := list atom.
Definition dnf  := list conj.

(* ---- dnfAtomLT ------------------------------------------------------------------- *)
Definition dnfAtomLT (l1 l2 : atom) : bool :=
  let l1 := if l1 <? 0 then - l1 else l1 in
  let l2 := if l2 <? 0 then - l2 else l2 in
  l1 <? l2.

(* ---- conjunctions ---------------------------------------------------------------- *)
Definition dnfAndIsTrue (xx : conj) : bool := Nat.eqb (length xx) 0.

(* The merge loop of dnfAndMerge:  None = "return NULL" (a literal and its negation). The
   two trailing while-loops are the [] cases.  In the last branch the C asserts
   xx[xxi] == -yy[yyi]; for integers that is implied by the failed tests before it. *)
Fixpoint mergeLoop (xx : conj) : conj -> option conj :=
  fix inner (yy : conj) : option conj :=
    match xx, yy with
    | [], _ => Some yy
    | _, [] => Some xx
    | x :: xt, y :: yt =>
        if dnfAtomLT x y then option_map (cons x) (mergeLoop xt yy)
        else if dnfAtomLT y x then option_map (cons y) (inner yt)
        else if x =? y then mergeLoop xt yy          (* xxi += 1 only *)
        else None
    end.

Definition dnfAndMerge (xx yy : conj) : option conj :=
  if dnfAndIsTrue xx then Some yy
  else if dnfAndIsTrue yy then Some xx
  else mergeLoop xx yy.

(* for-loop of dnfAndImplies; value = (yyi == yy->argc) at loop exit *)
Fixpoint impliesLoop (xx yy : conj) : bool :=
  match xx with
  | [] => Nat.eqb (length yy) 0
  | xa :: xt =>
      match yy with
      | [] => true
      | ya :: yt =>
          if dnfAtomLT xa ya then impliesLoop xt yy
          else if xa =? ya then impliesLoop xt yt
          else false
      end
  end.

Definition dnfAndImplies (xx yy : conj) : bool :=
  if Nat.ltb (length xx) (length yy) then false else impliesLoop xx yy.

Fixpoint impliesNegLoop (xx yy : conj) : bool :=
  match xx with
  | [] => Nat.eqb (length yy) 0
  | xa :: xt =>
      match yy with
      | [] => true
      | ya :: yt =>
          if dnfAtomLT xa ya then impliesNegLoop xt yy
          else if xa =? - ya then impliesNegLoop xt yt
          else false
      end
  end.

Definition dnfAndImpliesNegation (xx yy : conj) : bool :=
  if Nat.ltb (length xx) (length yy) then false else impliesNegLoop xx yy.

(* dnfAndCancelNegation: None = assert(false) reached, or yy not used up (then the C
   result would keep zero-filled slots); the caller only calls it after
   dnfAndImpliesNegation answered true, and Facts.cancel_defined shows None is then
   impossible. *)
Fixpoint cancelLoop (xx yy : conj) : option conj :=
  match xx with
  | [] => match yy with [] => Some [] | _ => None end
  | xa :: xt =>
      match yy with
      | [] => Some xx
      | ya :: yt =>
          if dnfAtomLT xa ya then option_map (cons xa) (cancelLoop xt yy)
          else if xa =? - ya then cancelLoop xt yt
          else None
      end
  end.

Definition dnfAndCancelNegation (xx yy : conj) : option conj :=
  if Nat.ltb (length xx) (length yy) then None else cancelLoop xx yy.

Definition dnfAndNot (xx : conj) : dnf := map (fun a => [- a]) xx.

(* ---- disjunctions ---------------------------------------------------------------- *)
Definition orArr := list (option conj).       (* argv[] with NULLs *)

Definition getc (a : orArr) (i : nat) : option conj :=
  match nth_error a i with Some (Some c) => Some c | _ => None end.

Fixpoint setc (a : orArr) (i : nat) (v : option conj) : orArr :=
  match a with
  | [] => []
  | h :: t => match i with O => v :: t | S i' => h :: setc t i' v end
  end.

(* body of the inner loop of dnfOrMerge for one (i,j): the two `if`s in sequence.

   CURRENT CODE (HEAD of /repo): the second `if` ("cancel negation") fires for ANY xj whose
   negated literals all occur in xi, i.e. it rewrites (R & ~y1 & .. & ~yk) | (y1 & .. & yk)
   to R | (y1 & .. & yk).  That is sound only for k = 1 (recorded finding F2; the
   repository's own test DNF2 pins the unsound answer, so the code was left as it is).
   The parameter `single` selects the rule:   single = false : the code as it is,
                                              single = true  : the rule restricted to
   xj->argc == 1 (the repair; used to state what is true and to classify failures). *)
Definition mergeStep1 (a : orArr) (i j : nat) : orArr :=
  if Nat.eqb i j then a else
  match getc a i, getc a j with
  | Some xi, Some xj => if dnfAndImplies xi xj then setc a i None else a
  | _, _ => a
  end.

Definition mergeStep2 (single : bool) (a : orArr) (i j : nat) : orArr :=
  if Nat.eqb i j then a else
  match getc a i, getc a j with
  | Some xi, Some xj =>
      if (negb single || Nat.eqb (length xj) 1) && dnfAndImpliesNegation xi xj
      then match dnfAndCancelNegation xi xj with
           | Some r => setc a i (Some r)
           | None => a                         (* unreachable, see cancel_defined *)
           end
      else a
  | _, _ => a
  end.

Definition mergeStep (single : bool) (a : orArr) (i j : nat) : orArr :=
  mergeStep2 single (mergeStep1 a i j) i j.

Fixpoint mergeInner (single : bool) (a : orArr) (i : nat) (js : list nat) : orArr :=
  match js with [] => a | j :: js' => mergeInner single (mergeStep single a i j) i js' end.

Fixpoint mergeOuter (single : bool) (a : orArr) (is : list nat) (n : nat) : orArr :=
  match is with
  | [] => a
  | i :: is' => mergeOuter single (mergeInner single a i (seq 0 n)) is' n
  end.

Fixpoint squeeze (a : orArr) : dnf :=
  match a with
  | [] => []
  | Some c :: t => c :: squeeze t
  | None :: t => squeeze t
  end.

Definition dnfOrMergeG (single : bool) (a : orArr) : dnf :=
  let n := length a in squeeze (mergeOuter single a (seq 0 n) n).

(* "the run of the current code never used the cancel rule with a multi-literal xj":
   multiFires is evaluated where the second `if` is evaluated (after the first). *)
Definition multiFires (a : orArr) (i j : nat) : bool :=
  if Nat.eqb i j then false else
  match getc a i, getc a j with
  | Some xi, Some xj => negb (Nat.eqb (length xj) 1) && dnfAndImpliesNegation xi xj
  | _, _ => false
  end.

Fixpoint quietInner (a : orArr) (i : nat) (js : list nat) : bool :=
  match js with
  | [] => true
  | j :: js' => negb (multiFires (mergeStep1 a i j) i j) && quietInner (mergeStep false a i j) i js'
  end.

Fixpoint quietOuter (a : orArr) (is : list nat) (n : nat) : bool :=
  match is with
  | [] => true
  | i :: is' => quietInner a i (seq 0 n) && quietOuter (mergeInner false a i (seq 0 n)) is' n
  end.

Definition quietMerge (a : orArr) : bool :=
  let n := length a in quietOuter a (seq 0 n) n.

(* ---- true / false / atoms ---------------------------------------------------------- *)
Definition dnfTrue  : dnf := [[]].
Definition dnfFalse : dnf := [].

Definition dnfIsTrue (xx : dnf) : bool :=
  match xx with [c] => dnfAndIsTrue c | _ => false end.      (* argc == 1 && ... *)
Definition dnfIsFalse (xx : dnf) : bool := Nat.eqb (length xx) 0.

Definition dnfAtom (a : atom) : dnf := [[a]].
Definition dnfNotAtom (a : atom) : dnf := dnfAtom (- a).

Definition dnfCopy (xx : dnf) : dnf := xx.

(* ---- or / and / not ---------------------------------------------------------------- *)
Definition orInput (xx yy : dnf) : orArr := map Some xx ++ map Some yy.
Definition andInput (xx yy : dnf) : orArr :=
  flat_map (fun xi => map (fun yj => dnfAndMerge xi yj) yy) xx.

Definition dnfOrG (single : bool) (xx yy : dnf) : dnf :=
  if dnfIsTrue xx || dnfIsTrue yy then dnfTrue
  else if dnfIsFalse xx then dnfCopy yy
  else if dnfIsFalse yy then dnfCopy xx
  else dnfOrMergeG single (orInput xx yy).

Definition dnfAndG (single : bool) (xx yy : dnf) : dnf :=
  if dnfIsFalse xx || dnfIsFalse yy then dnfFalse
  else if dnfIsTrue xx then dnfCopy yy
  else if dnfIsTrue yy then dnfCopy xx
  else dnfOrMergeG single (andInput xx yy).

Definition dnfNotG (single : bool) (xx : dnf) : dnf :=
  if dnfIsFalse xx then dnfTrue
  else if dnfIsTrue xx then dnfFalse
  else fold_left (fun rr xi => dnfAndG single rr (dnfAndNot xi)) xx dnfTrue.

(* the code as it is *)
Definition dnfOrMerge := dnfOrMergeG false.
Definition dnfOr  := dnfOrG false.
Definition dnfAnd := dnfAndG false.
Definition dnfNot := dnfNotG false.
(* with the cancel rule restricted to a single literal *)
Definition dnfOrMerge1 := dnfOrMergeG true.
Definition dnfOr1  := dnfOrG true.
Definition dnfAnd1 := dnfAndG true.
Definition dnfNot1 := dnfNotG true.

(* side conditions "no multi-literal cancellation happened in this call" *)
Definition no_multi_cancel_or (xx yy : dnf) : bool :=
  if dnfIsTrue xx || dnfIsTrue yy then true
  else if dnfIsFalse xx then true
  else if dnfIsFalse yy then true
  else quietMerge (orInput xx yy).

Definition no_multi_cancel_and (xx yy : dnf) : bool :=
  if dnfIsFalse xx || dnfIsFalse yy then true
  else if dnfIsTrue xx then true
  else if dnfIsTrue yy then true
  else quietMerge (andInput xx yy).

Fixpoint quietNotLoop (rr : dnf) (xs : dnf) : bool :=
  match xs with
  | [] => true
  | xi :: xt => no_multi_cancel_and rr (dnfAndNot xi) && quietNotLoop (dnfAnd rr (dnfAndNot xi)) xt
  end.

Definition no_multi_cancel_not (xx : dnf) : bool :=
  if dnfIsFalse xx then true else if dnfIsTrue xx then true else quietNotLoop dnfTrue xx.

(* ---- implies / equal ---------------------------------------------------------------- *)
Definition dnfImplies (xx yy : dnf) : bool :=
  forallb (fun xi => existsb (fun yj => dnfAndImplies xi yj) yy) xx.

(* `same` = the pointer test xx == yy *)
Definition dnfEqual (same : bool) (xx yy : dnf) : bool :=
  if same then true else dnfImplies xx yy && dnfImplies yy xx.

(* ---- dnfExpandImplies (caller-supplied test on pairs of literals) ----------------------- *)
Fixpoint expandLoop (testFn : atom -> atom -> bool) (whole xx yy : conj) : bool :=
  match yy with
  | [] => true
  | ya :: yt =>
      match xx with
      | [] => false                                   (* xxi == argc, yyi < argc *)
      | xa :: xt =>
          if xa =? ya then expandLoop testFn whole xt yt
          else if existsb (fun t => testFn t ya) whole then expandLoop testFn whole xx yt
          else false
      end
  end.

Definition dnfExpandAndImplies testFn (xx yy : conj) : bool :=
  if Nat.ltb (length xx) (length yy) then false else expandLoop testFn xx xx yy.

Definition dnfExpandImplies testFn (xx yy : dnf) : bool :=
  forallb (fun xi => existsb (fun yj => dnfExpandAndImplies testFn xi yj) yy) xx.

(* a concrete testFn given by a finite table (what the correspondence driver uses) *)
Definition tableTest (tbl : list (atom * atom)) (a b : atom) : bool :=
  existsb (fun p => (fst p =? a) && (snd p =? b)) tbl.

(* dnfMap: the literals handed to mapFn, in order, up to and including the first on which
   it answers true *)
Fixpoint visitUntil (f : atom -> bool) (l : list atom) : list atom :=
  match l with [] => [] | a :: t => if f a then [a] else a :: visitUntil f t end.
Definition dnfMapVisited (f : atom -> bool) (xx : dnf) : list atom := visitUntil f (concat xx).

(* ---- semantics and well-formedness ---------------------------------------------------- *)
Definition lit (rho : Z -> bool) (a : atom) : bool :=
  if 0 <? a then rho a else negb (rho (- a)).
Definition semc (rho : Z -> bool) (c : conj) : bool := forallb (lit rho) c.
Definition sem  (rho : Z -> bool) (d : dnf)  : bool := existsb (semc rho) d.

(* the formulas a DNF is built from *)
Inductive form :=
| FTrue | FFalse | FAtom (a : atom) | FNot (f : form) | FAnd (f g : form) | FOr (f g : form).

Fixpoint feval (rho : Z -> bool) (f : form) : bool :=
  match f with
  | FTrue => true | FFalse => false
  | FAtom a => lit rho a
  | FNot f => negb (feval rho f)
  | FAnd f g => feval rho f && feval rho g
  | FOr f g => feval rho f || feval rho g
  end.

Fixpoint buildG (single : bool) (f : form) : dnf :=
  match f with
  | FTrue => dnfTrue | FFalse => dnfFalse
  | FAtom a => dnfAtom a
  | FNot f => dnfNotG single (buildG single f)
  | FAnd f g => dnfAndG single (buildG single f) (buildG single g)
  | FOr f g => dnfOrG single (buildG single f) (buildG single g)
  end.
Definition build  := buildG false.
Definition build1 := buildG true.

(* the formula was built without any multi-literal cancellation *)
Fixpoint quietBuild (f : form) : bool :=
  match f with
  | FTrue | FFalse | FAtom _ => true
  | FNot f => quietBuild f && no_multi_cancel_not (build f)
  | FAnd f g => quietBuild f && quietBuild g && no_multi_cancel_and (build f) (build g)
  | FOr f g => quietBuild f && quietBuild g && no_multi_cancel_or (build f) (build g)
  end.

Fixpoint fatoms_ok (f : form) : bool :=
  match f with
  | FTrue | FFalse => true
  | FAtom a => negb (a =? 0)
  | FNot f => fatoms_ok f
  | FAnd f g | FOr f g => fatoms_ok f && fatoms_ok g
  end.

(* invariant: literals non-zero, strictly increasing in absolute value *)
Fixpoint wfc_from (m : Z) (c : conj) : Prop :=
  match c with [] => True | a :: t => m < Z.abs a /\ wfc_from (Z.abs a) t end.
Definition wfc (c : conj) : Prop := wfc_from 0 c.
Definition wfd (d : dnf) : Prop := Forall wfc d.

Fixpoint wfcb_from (m : Z) (c : conj) : bool :=
  match c with [] => true | a :: t => (m <? Z.abs a) && wfcb_from (Z.abs a) t end.
Definition wfdb (d : dnf) : bool := forallb (wfcb_from 0) d.
