(* Lemmas about the model of dnf.c. *)
Require Import ZArith List Bool Lia.
Require Import ZifyBool.
Import ListNotations.
Require Import AV.Dnf.Model.
Local Open Scope Z_scope.
Ltac Zify.zify_post_hook ::= Z.div_mod_to_equations.

(* ------------------------------------------------------------------ literals *)
Lemma atomLT_spec : forall a b, dnfAtomLT a b = (Z.abs a <? Z.abs b).
Proof.
  intros a b. unfold dnfAtomLT.
  destruct (a <? 0) eqn:Ha; destruct (b <? 0) eqn:Hb; lia.
Qed.

Lemma lit_neg : forall rho a, a <> 0 -> lit rho (- a) = negb (lit rho a).
Proof.
  intros rho a Ha. unfold lit.
  destruct (0 <? a) eqn:H1; destruct (0 <? - a) eqn:H2; try lia;
    rewrite ?Z.opp_involutive, ?negb_involutive; reflexivity.
Qed.

Lemma same_abs : forall x y, dnfAtomLT x y = false -> dnfAtomLT y x = false ->
  (x =? y) = false -> x = - y /\ x <> 0 /\ y <> 0.
Proof. intros x y. rewrite !atomLT_spec. lia. Qed.

(* ------------------------------------------------------------------ dnfAndMerge *)
Lemma semc_cons : forall rho a c, semc rho (a :: c) = lit rho a && semc rho c.
Proof. reflexivity. Qed.

Lemma mergeLoop_sem : forall rho xx yy,
  match mergeLoop xx yy with
  | Some r => semc rho r = semc rho xx && semc rho yy
  | None => semc rho xx && semc rho yy = false
  end.
Proof.
  intros rho xx. induction xx as [|x xt IHx]; intros yy.
  - destruct yy; reflexivity.
  - induction yy as [|y yt IHy].
    + cbn [mergeLoop]. now rewrite andb_true_r.
    + cbn [mergeLoop].
      destruct (dnfAtomLT x y) eqn:Hxy.
      { specialize (IHx (y :: yt)). destruct (mergeLoop xt (y :: yt)) as [r|]; cbn [option_map].
        - rewrite !semc_cons in *. rewrite IHx. now rewrite andb_assoc.
        - rewrite !semc_cons in *. rewrite <- andb_assoc. rewrite IHx. apply andb_false_r. }
      destruct (dnfAtomLT y x) eqn:Hyx.
      { cbn [mergeLoop] in IHy.
        match goal with |- match option_map _ ?m with _ => _ end => destruct m as [r|] end;
          cbn [option_map].
        - rewrite !semc_cons in *. rewrite IHy.
          destruct (lit rho x), (lit rho y), (semc rho xt), (semc rho yt); reflexivity.
        - rewrite !semc_cons in *.
          destruct (lit rho x), (lit rho y), (semc rho xt), (semc rho yt); cbn in *; congruence. }
      destruct (x =? y) eqn:Heq.
      { assert (x = y) by lia. subst y. specialize (IHx (x :: yt)).
        destruct (mergeLoop xt (x :: yt)) as [r|]; rewrite !semc_cons in *.
        - rewrite IHx. destruct (lit rho x), (semc rho xt), (semc rho yt); reflexivity.
        - destruct (lit rho x), (semc rho xt), (semc rho yt); cbn in *; congruence. }
      destruct (same_abs _ _ Hxy Hyx Heq) as (E & _ & Hy). subst x.
      rewrite !semc_cons. rewrite (lit_neg rho y Hy).
      destruct (lit rho y); cbn; [reflexivity | apply andb_false_r].
Qed.

Lemma isTrue_nil : forall c, dnfAndIsTrue c = true -> c = [].
Proof. intros [|a c]; [reflexivity | discriminate]. Qed.

Lemma dnfAndMerge_sem : forall rho xx yy,
  match dnfAndMerge xx yy with
  | Some r => semc rho r = semc rho xx && semc rho yy
  | None => semc rho xx && semc rho yy = false
  end.
Proof.
  intros rho xx yy. unfold dnfAndMerge.
  destruct (dnfAndIsTrue xx) eqn:Hx. { apply isTrue_nil in Hx. subst. reflexivity. }
  destruct (dnfAndIsTrue yy) eqn:Hy. { apply isTrue_nil in Hy. subst. now rewrite andb_true_r. }
  apply mergeLoop_sem.
Qed.

(* ------------------------------------------------------------------ dnfAndImplies *)
Lemma impliesLoop_sound : forall rho xx yy,
  impliesLoop xx yy = true -> semc rho xx = true -> semc rho yy = true.
Proof.
  intros rho xx. induction xx as [|xa xt IH]; intros yy H Hx.
  - destruct yy; [reflexivity | discriminate].
  - destruct yy as [|ya yt]; [reflexivity|]. cbn [impliesLoop] in H.
    rewrite semc_cons in Hx. apply andb_true_iff in Hx as [Hxa Hxt].
    destruct (dnfAtomLT xa ya). { now apply IH. }
    destruct (xa =? ya) eqn:E; [|discriminate].
    assert (xa = ya) by lia. subst. rewrite semc_cons, Hxa. cbn. now apply IH.
Qed.

Lemma dnfAndImplies_sound : forall rho xx yy,
  dnfAndImplies xx yy = true -> semc rho xx = true -> semc rho yy = true.
Proof.
  intros rho xx yy. unfold dnfAndImplies.
  destruct (Nat.ltb (length xx) (length yy)); [discriminate | apply impliesLoop_sound].
Qed.

Lemma impliesLoop_refl : forall xx, impliesLoop xx xx = true.
Proof.
  induction xx as [|a t IH]; [reflexivity|]. cbn [impliesLoop].
  rewrite atomLT_spec. rewrite Z.ltb_irrefl. now rewrite Z.eqb_refl.
Qed.

Lemma dnfAndImplies_refl : forall xx, dnfAndImplies xx xx = true.
Proof. intros. unfold dnfAndImplies. rewrite Nat.ltb_irrefl. apply impliesLoop_refl. Qed.

(* ------------------------------------------------------------------ cancel negation *)
Lemma cancel_defined_loop : forall xx yy,
  impliesNegLoop xx yy = true -> cancelLoop xx yy <> None.
Proof.
  induction xx as [|xa xt IH]; intros yy H.
  - destruct yy; [discriminate | discriminate].
  - destruct yy as [|ya yt]; [discriminate|]. cbn [impliesNegLoop cancelLoop] in *.
    destruct (dnfAtomLT xa ya).
    + specialize (IH _ H). destruct (cancelLoop xt (ya :: yt)); [discriminate | congruence].
    + destruct (xa =? - ya); [now apply IH | discriminate].
Qed.

Lemma cancel_defined : forall xx yy,
  dnfAndImpliesNegation xx yy = true -> dnfAndCancelNegation xx yy <> None.
Proof.
  intros xx yy. unfold dnfAndImpliesNegation, dnfAndCancelNegation.
  destruct (Nat.ltb (length xx) (length yy)); [discriminate | apply cancel_defined_loop].
Qed.

(* the result is a sub-conjunction: it can only be weaker *)
Lemma cancelLoop_weaker : forall rho xx yy r,
  cancelLoop xx yy = Some r -> semc rho xx = true -> semc rho r = true.
Proof.
  intros rho xx. induction xx as [|xa xt IH]; intros yy r H Hx.
  - destruct yy; inversion H. reflexivity.
  - destruct yy as [|ya yt]. { inversion H. subst. exact Hx. }
    cbn [cancelLoop] in H. rewrite semc_cons in Hx. apply andb_true_iff in Hx as [Hxa Hxt].
    destruct (dnfAtomLT xa ya).
    + destruct (cancelLoop xt (ya :: yt)) as [r'|] eqn:E; [|discriminate].
      inversion H. subst. rewrite semc_cons, Hxa. cbn. eapply IH; eauto.
    + destruct (xa =? - ya); [|discriminate]. eapply IH; eauto.
Qed.

Lemma dnfAndCancelNegation_weaker : forall rho xx yy r,
  dnfAndCancelNegation xx yy = Some r -> semc rho xx = true -> semc rho r = true.
Proof.
  intros rho xx yy r. unfold dnfAndCancelNegation.
  destruct (Nat.ltb (length xx) (length yy)); [discriminate | apply cancelLoop_weaker].
Qed.

(* single literal: (R & ~y) | y  ==  R | y *)
Lemma cancelLoop_single : forall rho xx y r, y <> 0 ->
  cancelLoop xx [y] = Some r ->
  semc rho r || lit rho y = semc rho xx || lit rho y.
Proof.
  intros rho xx y r Hy. revert r. induction xx as [|xa xt IH]; intros r H.
  - discriminate.
  - cbn [cancelLoop] in H. destruct (dnfAtomLT xa y).
    + destruct (cancelLoop xt [y]) as [r'|] eqn:E; [|discriminate]. inversion H. subst.
      rewrite !semc_cons. specialize (IH _ eq_refl).
      destruct (lit rho xa); cbn; [exact IH | reflexivity].
    + destruct (xa =? - y) eqn:E; [|discriminate]. assert (xa = - y) by lia. subst xa.
      assert (Er : r = xt) by (destruct xt; cbn [cancelLoop] in H; now inversion H).
      subst r. rewrite (semc_cons rho (- y) xt), (lit_neg rho y Hy).
      destruct (lit rho y); cbn; [now rewrite !orb_true_r | reflexivity].
Qed.

(* ------------------------------------------------------------------ well-formedness *)
Lemma wfc_from_weaken : forall c m m', m' <= m -> wfc_from m c -> wfc_from m' c.
Proof. intros [|a t] m m' H; cbn [wfc_from]; [trivial | intros [H1 H2]; split; [lia | exact H2]]. Qed.

Lemma wfcb_from_spec : forall c m, wfcb_from m c = true <-> wfc_from m c.
Proof.
  induction c as [|a t IH]; intros m; cbn [wfcb_from wfc_from]; [tauto|].
  rewrite andb_true_iff, IH, Z.ltb_lt. tauto.
Qed.

Lemma wfdb_spec : forall d, wfdb d = true <-> wfd d.
Proof.
  intros d. unfold wfdb, wfd. rewrite forallb_forall, Forall_forall.
  split; intros H c Hc; apply wfcb_from_spec; now apply H.
Qed.

Lemma wfc_from_nz : forall c m, 0 <= m -> wfc_from m c -> Forall (fun a => a <> 0) c.
Proof.
  induction c as [|a t IH]; intros m Hm H; constructor.
  - destruct H. lia.
  - destruct H as [H1 H2]. apply (IH (Z.abs a)); [lia | exact H2].
Qed.

Lemma wfc_nz : forall c, wfc c -> Forall (fun a => a <> 0) c.
Proof. intros c. apply wfc_from_nz. lia. Qed.

Lemma mergeLoop_wf : forall xx yy m r,
  wfc_from m xx -> wfc_from m yy -> mergeLoop xx yy = Some r -> wfc_from m r.
Proof.
  induction xx as [|x xt IHx]; intros yy m r Hx Hy H.
  - destruct yy; inversion H; subst; assumption.
  - revert m r Hx Hy H. induction yy as [|y yt IHy]; intros m r Hx Hy H.
    + inversion H. subst. exact Hx.
    + cbn [mergeLoop] in H. rewrite !atomLT_spec in H.
      destruct Hx as [Hx1 Hx2]. destruct Hy as [Hy1 Hy2].
      destruct (Z.abs x <? Z.abs y) eqn:Hxy.
      { destruct (mergeLoop xt (y :: yt)) as [r'|] eqn:E; [|discriminate]. inversion H. subst.
        split; [exact Hx1|]. apply (IHx (y :: yt)); [exact Hx2 | | exact E].
        split; [lia | exact Hy2]. }
      destruct (Z.abs y <? Z.abs x) eqn:Hyx.
      { cbn [mergeLoop] in IHy.
        match type of H with option_map _ ?m = _ => destruct m as [r'|] eqn:E end; [|discriminate].
        inversion H. subst. split; [exact Hy1|].
        apply IHy; [split; [lia | exact Hx2] | exact Hy2 | reflexivity]. }
      destruct (x =? y) eqn:Heq; [|discriminate].
      apply (IHx (y :: yt)); [ | split; [exact Hy1 | exact Hy2] | exact H].
      eapply wfc_from_weaken; [|exact Hx2]. lia.
Qed.

Lemma dnfAndMerge_wf : forall xx yy r,
  wfc xx -> wfc yy -> dnfAndMerge xx yy = Some r -> wfc r.
Proof.
  intros xx yy r Hx Hy. unfold dnfAndMerge.
  destruct (dnfAndIsTrue xx). { intros H; inversion H; subst; exact Hy. }
  destruct (dnfAndIsTrue yy). { intros H; inversion H; subst; exact Hx. }
  apply mergeLoop_wf; assumption.
Qed.

Lemma cancelLoop_wf : forall xx yy m r,
  wfc_from m xx -> cancelLoop xx yy = Some r -> wfc_from m r.
Proof.
  induction xx as [|xa xt IH]; intros yy m r Hx H.
  - destruct yy; inversion H. exact I.
  - destruct yy as [|ya yt]. { inversion H. subst. exact Hx. }
    cbn [cancelLoop] in H. destruct Hx as [Hx1 Hx2].
    destruct (dnfAtomLT xa ya).
    + destruct (cancelLoop xt (ya :: yt)) as [r'|] eqn:E; [|discriminate]. inversion H. subst.
      split; [exact Hx1 | eapply IH; eauto].
    + destruct (xa =? - ya); [|discriminate].
      eapply IH; [|exact H]. eapply wfc_from_weaken; [|exact Hx2]. lia.
Qed.

Lemma dnfAndCancelNegation_wf : forall xx yy r,
  wfc xx -> dnfAndCancelNegation xx yy = Some r -> wfc r.
Proof.
  intros xx yy r Hx. unfold dnfAndCancelNegation.
  destruct (Nat.ltb (length xx) (length yy)); [discriminate | now apply cancelLoop_wf].
Qed.

(* ------------------------------------------------------------------ arrays with NULLs *)
Definition semoc (rho : Z -> bool) (oc : option conj) : bool :=
  match oc with Some c => semc rho c | None => false end.
Definition semo (rho : Z -> bool) (a : orArr) : bool := existsb (semoc rho) a.
Definition wfoc (oc : option conj) : Prop := match oc with Some c => wfc c | None => True end.
Definition wfo (a : orArr) : Prop := Forall wfoc a.

Lemma semo_squeeze : forall rho a, sem rho (squeeze a) = semo rho a.
Proof.
  intros rho. induction a as [|[c|] t IH]; cbn; [reflexivity | | exact IH].
  unfold sem in IH. now rewrite IH.
Qed.

Lemma wf_squeeze : forall a, wfo a -> wfd (squeeze a).
Proof.
  induction a as [|[c|] t IH]; intros H; cbn.
  - constructor.
  - inversion H; subst. constructor; [assumption | now apply IH].
  - inversion H; subst. now apply IH.
Qed.

Lemma getc_Some : forall a i c, getc a i = Some c -> nth_error a i = Some (Some c).
Proof.
  intros a i c. unfold getc. destruct (nth_error a i) as [[c'|]|]; intros H; inversion H; reflexivity.
Qed.

Lemma setc_length : forall a i v, length (setc a i v) = length a.
Proof. induction a as [|h t IH]; intros [|i] v; cbn; auto. Qed.

Lemma wfo_nth : forall a i c, wfo a -> nth_error a i = Some (Some c) -> wfc c.
Proof.
  intros a i c H E. apply nth_error_In in E. unfold wfo in H. rewrite Forall_forall in H.
  exact (H _ E).
Qed.

Lemma wfo_setc : forall a i v, wfo a -> wfoc v -> wfo (setc a i v).
Proof.
  induction a as [|h t IH]; intros i v H Hv; cbn; [constructor|].
  inversion H as [|? ? Hh Ht]; subst. destruct i; constructor; auto.
  apply IH; [exact Ht | exact Hv].
Qed.

(* semo after replacing slot i, in terms of the rest *)
Lemma semo_setc : forall rho a i old v,
  nth_error a i = Some old ->
  (semoc rho v = semoc rho old) -> semo rho (setc a i v) = semo rho a.
Proof.
  intros rho. induction a as [|h t IH]; intros i old v Hn Hv.
  - destruct i; discriminate.
  - destruct i; cbn in *.
    + inversion Hn. subst. now rewrite Hv.
    + f_equal. eapply IH; eauto.
Qed.

(* replacing slot i by v when another slot j absorbs the difference *)
Lemma semo_cons : forall rho h t, semo rho (h :: t) = semoc rho h || semo rho t.
Proof. reflexivity. Qed.

Lemma semo_in : forall rho a j xj, nth_error a j = Some (Some xj) -> semc rho xj = true -> semo rho a = true.
Proof.
  intros rho a j xj Hj Hx. unfold semo. apply existsb_exists. exists (Some xj).
  split; [eapply nth_error_In; eauto | exact Hx].
Qed.

Lemma semo_setc_absorb : forall rho a i j xi xj v,
  i <> j -> nth_error a i = Some (Some xi) -> nth_error a j = Some (Some xj) ->
  semoc rho v || semc rho xj = semc rho xi || semc rho xj ->
  semo rho (setc a i v) = semo rho a.
Proof.
  intros rho. induction a as [|h t IH]; intros i j xi xj v Hij Hi Hj Hv.
  - destruct i; discriminate.
  - destruct i as [|i'], j as [|j']; cbn [setc nth_error] in *.
    + congruence.
    + inversion Hi. subst h. rewrite !semo_cons. cbn [semoc].
      destruct (semc rho xj) eqn:Exj.
      * rewrite (semo_in rho t j' xj Hj Exj). now rewrite !orb_true_r.
      * rewrite !orb_false_r in Hv. now rewrite Hv.
    + inversion Hj. subst h. rewrite !semo_cons. cbn [semoc].
      destruct (semc rho xj) eqn:Exj; [reflexivity|]. cbn [orb].
      rewrite !orb_false_r in Hv.
      eapply (semo_setc rho t i' (Some xi) v); [exact Hi | exact Hv].
    + rewrite !semo_cons. f_equal. eapply (IH i' j'); eauto.
Qed.

(* weaker replacement keeps truth *)
Lemma semo_setc_weaker : forall rho a i xi v,
  nth_error a i = Some (Some xi) ->
  (semc rho xi = true -> semoc rho v = true) ->
  semo rho a = true -> semo rho (setc a i v) = true.
Proof.
  intros rho. induction a as [|h t IH]; intros i xi v Hi Hv H.
  - discriminate.
  - destruct i; cbn [setc nth_error] in *; rewrite semo_cons in *.
    + inversion Hi. subst h. cbn [semoc] in H. apply orb_true_iff in H as [H|H].
      * rewrite (Hv H). reflexivity.
      * rewrite H. apply orb_true_r.
    + apply orb_true_iff in H as [H|H].
      * rewrite H. reflexivity.
      * rewrite (IH _ _ _ Hi Hv H). apply orb_true_r.
Qed.

(* ------------------------------------------------------------------ one step of dnfOrMerge *)
Lemma mergeStep1_sem : forall rho a i j, semo rho (mergeStep1 a i j) = semo rho a.
Proof.
  intros rho a i j. unfold mergeStep1.
  destruct (Nat.eqb i j) eqn:Eij; [reflexivity|]. apply Nat.eqb_neq in Eij.
  destruct (getc a i) as [xi|] eqn:Ei; [|reflexivity].
  destruct (getc a j) as [xj|] eqn:Ej; [|reflexivity].
  destruct (dnfAndImplies xi xj) eqn:Himp; [|reflexivity].
  apply getc_Some in Ei. apply getc_Some in Ej.
  eapply semo_setc_absorb; eauto. cbn.
  destruct (semc rho xi) eqn:Exi; [|reflexivity].
  now rewrite (dnfAndImplies_sound rho _ _ Himp Exi).
Qed.

Lemma mergeStep1_wf : forall a i j, wfo a -> wfo (mergeStep1 a i j).
Proof.
  intros a i j H. unfold mergeStep1.
  destruct (Nat.eqb i j); [exact H|].
  destruct (getc a i); [|exact H]. destruct (getc a j); [|exact H].
  destruct (dnfAndImplies c c0); [|exact H]. apply wfo_setc; [exact H | exact I].
Qed.

Lemma mergeStep1_length : forall a i j, length (mergeStep1 a i j) = length a.
Proof.
  intros a i j. unfold mergeStep1.
  destruct (Nat.eqb i j); [reflexivity|].
  destruct (getc a i); [|reflexivity]. destruct (getc a j); [|reflexivity].
  destruct (dnfAndImplies c c0); [apply setc_length | reflexivity].
Qed.

Lemma mergeStep2_weakens : forall rho single a i j,
  semo rho a = true -> semo rho (mergeStep2 single a i j) = true.
Proof.
  intros rho single a i j H. unfold mergeStep2.
  destruct (Nat.eqb i j); [exact H|].
  destruct (getc a i) as [xi|] eqn:Ei; [|exact H].
  destruct (getc a j) as [xj|] eqn:Ej; [|exact H].
  destruct ((negb single || Nat.eqb (length xj) 1) && dnfAndImpliesNegation xi xj); [|exact H].
  destruct (dnfAndCancelNegation xi xj) as [r|] eqn:Ec; [|exact H].
  apply getc_Some in Ei. eapply semo_setc_weaker; eauto.
  cbn. intros Hx. eapply dnfAndCancelNegation_weaker; eauto.
Qed.

Lemma length1 : forall (c : conj), Nat.eqb (length c) 1 = true -> exists y, c = [y].
Proof. intros [|y [|z t]] H; try discriminate. now exists y. Qed.

Lemma mergeStep2_single_sem : forall rho a i j, wfo a ->
  semo rho (mergeStep2 true a i j) = semo rho a.
Proof.
  intros rho a i j Hwf. unfold mergeStep2.
  destruct (Nat.eqb i j) eqn:Eij; [reflexivity|]. apply Nat.eqb_neq in Eij.
  destruct (getc a i) as [xi|] eqn:Ei; [|reflexivity].
  destruct (getc a j) as [xj|] eqn:Ej; [|reflexivity].
  cbn [negb orb].
  destruct (Nat.eqb (length xj) 1) eqn:El; [|reflexivity]. cbn [andb].
  destruct (dnfAndImpliesNegation xi xj) eqn:Hneg; [|reflexivity].
  destruct (dnfAndCancelNegation xi xj) as [r|] eqn:Ec; [|reflexivity].
  apply getc_Some in Ei. apply getc_Some in Ej.
  destruct (length1 _ El) as [y ->].
  assert (Hy : y <> 0).
  { pose proof (wfo_nth _ _ _ Hwf Ej) as W. apply wfc_nz in W. now inversion W. }
  eapply semo_setc_absorb; eauto. cbn [semoc].
  unfold dnfAndCancelNegation in Ec. destruct (Nat.ltb (length xi) (length [y])); [discriminate|].
  pose proof (cancelLoop_single rho xi y r Hy Ec) as E.
  unfold semc at 2 4. cbn [forallb]. now rewrite !andb_true_r.
Qed.

Lemma mergeStep2_wf : forall single a i j, wfo a -> wfo (mergeStep2 single a i j).
Proof.
  intros single a i j H. unfold mergeStep2.
  destruct (Nat.eqb i j); [exact H|].
  destruct (getc a i) as [xi|] eqn:Ei; [|exact H]. destruct (getc a j) as [xj|]; [|exact H].
  destruct ((negb single || Nat.eqb (length xj) 1) && dnfAndImpliesNegation xi xj); [|exact H].
  destruct (dnfAndCancelNegation xi xj) as [r|] eqn:Ec; [|exact H].
  apply wfo_setc; [exact H|]. cbn. eapply dnfAndCancelNegation_wf; [|exact Ec].
  eapply wfo_nth; [exact H | apply getc_Some; exact Ei].
Qed.

Lemma mergeStep2_length : forall single a i j, length (mergeStep2 single a i j) = length a.
Proof.
  intros single a i j. unfold mergeStep2.
  destruct (Nat.eqb i j); [reflexivity|].
  destruct (getc a i) as [xi|]; [|reflexivity]. destruct (getc a j) as [xj|]; [|reflexivity].
  destruct ((negb single || Nat.eqb (length xj) 1) && dnfAndImpliesNegation xi xj); [|reflexivity].
  destruct (dnfAndCancelNegation xi xj); [apply setc_length | reflexivity].
Qed.

(* when the multi-literal rule does not fire the two variants do the same *)
Lemma mergeStep2_quiet : forall a i j,
  multiFires a i j = false -> mergeStep2 false a i j = mergeStep2 true a i j.
Proof.
  intros a i j. unfold multiFires, mergeStep2.
  destruct (Nat.eqb i j); [reflexivity|].
  destruct (getc a i) as [xi|]; [|reflexivity]. destruct (getc a j) as [xj|]; [|reflexivity].
  cbn [negb orb]. destruct (Nat.eqb (length xj) 1); cbn [negb andb]; [reflexivity|].
  intros ->. reflexivity.
Qed.

(* ------------------------------------------------------------------ the loops *)
Section Loops.
  Variable rho : Z -> bool.

  Lemma mergeStep_weakens : forall single a i j,
    semo rho a = true -> semo rho (mergeStep single a i j) = true.
  Proof.
    intros. unfold mergeStep. apply mergeStep2_weakens. now rewrite mergeStep1_sem.
  Qed.

  Lemma mergeStep_single_sem : forall a i j, wfo a ->
    semo rho (mergeStep true a i j) = semo rho a.
  Proof.
    intros a i j H. unfold mergeStep.
    rewrite mergeStep2_single_sem; [apply mergeStep1_sem | now apply mergeStep1_wf].
  Qed.

  Lemma mergeStep_wf : forall single a i j, wfo a -> wfo (mergeStep single a i j).
  Proof. intros. unfold mergeStep. apply mergeStep2_wf. now apply mergeStep1_wf. Qed.

  Lemma mergeStep_length : forall single a i j, length (mergeStep single a i j) = length a.
  Proof. intros. unfold mergeStep. now rewrite mergeStep2_length, mergeStep1_length. Qed.

  Lemma mergeInner_weakens : forall single js a i,
    semo rho a = true -> semo rho (mergeInner single a i js) = true.
  Proof.
    induction js as [|j js IH]; intros a i H; cbn [mergeInner mergeOuter]; [exact H|].
    apply IH. now apply mergeStep_weakens.
  Qed.

  Lemma mergeInner_wf : forall single js a i, wfo a -> wfo (mergeInner single a i js).
  Proof.
    induction js as [|j js IH]; intros a i H; cbn [mergeInner mergeOuter]; [exact H|]. apply IH. now apply mergeStep_wf.
  Qed.

  Lemma mergeInner_single_sem : forall js a i, wfo a ->
    semo rho (mergeInner true a i js) = semo rho a.
  Proof.
    induction js as [|j js IH]; intros a i H; cbn [mergeInner mergeOuter]; [reflexivity|].
    rewrite IH; [now apply mergeStep_single_sem | now apply mergeStep_wf].
  Qed.

  Lemma mergeInner_quiet : forall js a i,
    quietInner a i js = true -> mergeInner false a i js = mergeInner true a i js.
  Proof.
    induction js as [|j js IH]; intros a i H; cbn [mergeInner mergeOuter quietInner quietOuter] in *; [reflexivity|].
    apply andb_true_iff in H as [H1 H2]. apply negb_true_iff in H1.
    assert (E : mergeStep false a i j = mergeStep true a i j).
    { unfold mergeStep. now apply mergeStep2_quiet. }
    rewrite <- E. now apply IH.
  Qed.

  Lemma mergeOuter_weakens : forall single is a n,
    semo rho a = true -> semo rho (mergeOuter single a is n) = true.
  Proof.
    induction is as [|i is IH]; intros a n H; cbn [mergeInner mergeOuter]; [exact H|].
    apply IH. now apply mergeInner_weakens.
  Qed.

  Lemma mergeOuter_wf : forall single is a n, wfo a -> wfo (mergeOuter single a is n).
  Proof.
    induction is as [|i is IH]; intros a n H; cbn [mergeInner mergeOuter]; [exact H|]. apply IH. now apply mergeInner_wf.
  Qed.

  Lemma mergeOuter_single_sem : forall is a n, wfo a ->
    semo rho (mergeOuter true a is n) = semo rho a.
  Proof.
    induction is as [|i is IH]; intros a n H; cbn [mergeInner mergeOuter]; [reflexivity|].
    rewrite IH; [now apply mergeInner_single_sem | now apply mergeInner_wf].
  Qed.

  Lemma mergeOuter_quiet : forall is a n,
    quietOuter a is n = true -> mergeOuter false a is n = mergeOuter true a is n.
  Proof.
    induction is as [|i is IH]; intros a n H; cbn [mergeInner mergeOuter quietInner quietOuter] in *; [reflexivity|].
    apply andb_true_iff in H as [H1 H2].
    rewrite <- (mergeInner_quiet _ _ _ H1). now apply IH.
  Qed.

  Lemma dnfOrMergeG_weakens : forall single a,
    semo rho a = true -> sem rho (dnfOrMergeG single a) = true.
  Proof. intros. unfold dnfOrMergeG. rewrite semo_squeeze. now apply mergeOuter_weakens. Qed.

  Lemma dnfOrMerge1_sem : forall a, wfo a -> sem rho (dnfOrMergeG true a) = semo rho a.
  Proof. intros. unfold dnfOrMergeG. rewrite semo_squeeze. now apply mergeOuter_single_sem. Qed.
End Loops.

Lemma dnfOrMergeG_wf : forall single a, wfo a -> wfd (dnfOrMergeG single a).
Proof. intros. unfold dnfOrMergeG. apply wf_squeeze. now apply mergeOuter_wf. Qed.

Lemma dnfOrMerge_quiet : forall a, quietMerge a = true -> dnfOrMergeG false a = dnfOrMergeG true a.
Proof. intros a H. unfold dnfOrMergeG. f_equal. now apply mergeOuter_quiet. Qed.

(* ------------------------------------------------------------------ inputs of the merges *)
Lemma semo_app : forall rho a b, semo rho (a ++ b) = semo rho a || semo rho b.
Proof. intros. unfold semo. apply existsb_app. Qed.

Lemma semo_mapSome : forall rho d, semo rho (map Some d) = sem rho d.
Proof. intros rho. induction d as [|c t IH]; cbn; [reflexivity|]. unfold semo in IH. now rewrite IH. Qed.

Lemma orInput_sem : forall rho x y, semo rho (orInput x y) = sem rho x || sem rho y.
Proof. intros. unfold orInput. now rewrite semo_app, !semo_mapSome. Qed.

Lemma wfo_mapSome : forall d, wfd d -> wfo (map Some d).
Proof.
  induction d as [|c t IH]; intros H; cbn [map]; constructor; inversion H; subst; [assumption|].
  now apply IH.
Qed.

Lemma wfo_app : forall a b, wfo a -> wfo b -> wfo (a ++ b).
Proof. intros. unfold wfo. apply Forall_app. now split. Qed.

Lemma orInput_wf : forall x y, wfd x -> wfd y -> wfo (orInput x y).
Proof. intros. unfold orInput. apply wfo_app; now apply wfo_mapSome. Qed.

Lemma andRow_sem : forall rho xi y,
  semo rho (map (fun yj => dnfAndMerge xi yj) y) = semc rho xi && sem rho y.
Proof.
  intros rho xi. induction y as [|yj yt IH]; cbn; [now rewrite andb_false_r|].
  unfold semo in IH. rewrite IH.
  pose proof (dnfAndMerge_sem rho xi yj) as M.
  destruct (dnfAndMerge xi yj) as [r|]; cbn [semoc].
  - rewrite M. now rewrite andb_orb_distrib_r.
  - rewrite andb_orb_distrib_r. now rewrite M.
Qed.

Lemma andInput_sem : forall rho x y, semo rho (andInput x y) = sem rho x && sem rho y.
Proof.
  intros rho x y. unfold andInput. induction x as [|xi xt IH]; [reflexivity|].
  cbn [flat_map]. rewrite semo_app, andRow_sem, IH.
  change (sem rho (xi :: xt)) with (semc rho xi || sem rho xt). now rewrite andb_orb_distrib_l.
Qed.

Lemma andRow_wf : forall xi y, wfc xi -> wfd y -> wfo (map (fun yj => dnfAndMerge xi yj) y).
Proof.
  intros xi y Hxi. induction y as [|yj yt IHy]; intros Hy; cbn [map]; [constructor|].
  inversion Hy as [|? ? Hyj Hyt]; subst. constructor; [|now apply IHy].
  destruct (dnfAndMerge xi yj) as [r|] eqn:E; cbn [wfoc]; [|exact I].
  exact (dnfAndMerge_wf _ _ _ Hxi Hyj E).
Qed.

Lemma andInput_wf : forall x y, wfd x -> wfd y -> wfo (andInput x y).
Proof.
  intros x y Hx Hy. unfold andInput. induction x as [|xi xt IH]; cbn [flat_map]; [constructor|].
  inversion Hx as [|? ? Hxi Hxt]; subst. apply wfo_app; [now apply andRow_wf | now apply IH].
Qed.

(* ------------------------------------------------------------------ constants, tests *)
Lemma dnfIsTrue_eq : forall x, dnfIsTrue x = true -> x = dnfTrue.
Proof.
  intros [|c [|c' t]] H; try discriminate. cbn in H. apply isTrue_nil in H. now subst.
Qed.
Lemma dnfIsFalse_eq : forall x, dnfIsFalse x = true -> x = dnfFalse.
Proof. intros [|c t] H; [reflexivity | discriminate]. Qed.

Lemma sem_true : forall rho, sem rho dnfTrue = true.   Proof. reflexivity. Qed.
Lemma sem_false : forall rho, sem rho dnfFalse = false. Proof. reflexivity. Qed.
Lemma sem_atom : forall rho a, sem rho (dnfAtom a) = lit rho a.
Proof. intros. cbn. now rewrite andb_true_r, orb_false_r. Qed.
Lemma sem_notAtom : forall rho a, a <> 0 -> sem rho (dnfNotAtom a) = negb (lit rho a).
Proof. intros. unfold dnfNotAtom. rewrite sem_atom. now apply lit_neg. Qed.

Lemma dnfIsTrue_sem : forall rho x, dnfIsTrue x = true -> sem rho x = true.
Proof. intros rho x H. apply dnfIsTrue_eq in H. now subst. Qed.
Lemma dnfIsFalse_sem : forall rho x, dnfIsFalse x = true -> sem rho x = false.
Proof. intros rho x H. apply dnfIsFalse_eq in H. now subst. Qed.

Lemma wfd_true : wfd dnfTrue.  Proof. constructor; [exact I | constructor]. Qed.
Lemma wfd_false : wfd dnfFalse. Proof. constructor. Qed.
Lemma wfd_atom : forall a, a <> 0 -> wfd (dnfAtom a).
Proof. intros a H. constructor; [|constructor]. cbn. split; [lia | exact I]. Qed.
Lemma wfd_notAtom : forall a, a <> 0 -> wfd (dnfNotAtom a).
Proof. intros a H. apply wfd_atom. lia. Qed.

(* ------------------------------------------------------------------ dnfOr *)
Ltac early x y :=
  let Tx := fresh "Tx" in let Ty := fresh "Ty" in let Fx := fresh "Fx" in let Fy := fresh "Fy" in
  destruct (dnfIsTrue x) eqn:Tx; destruct (dnfIsTrue y) eqn:Ty;
  destruct (dnfIsFalse x) eqn:Fx; destruct (dnfIsFalse y) eqn:Fy;
  try (apply dnfIsTrue_eq in Tx); try (apply dnfIsTrue_eq in Ty);
  try (apply dnfIsFalse_eq in Fx); try (apply dnfIsFalse_eq in Fy); subst; cbn [orb andb].

Lemma dnfOrG_weakens : forall rho single x y,
  sem rho x || sem rho y = true -> sem rho (dnfOrG single x y) = true.
Proof.
  intros rho single x y H. unfold dnfOrG, dnfCopy.
  early x y; try reflexivity; try discriminate;
    try (cbn in H; now rewrite ?orb_false_r in H).
  apply dnfOrMergeG_weakens. now rewrite orInput_sem.
Qed.

Lemma dnfOr1_sem : forall rho x y, wfd x -> wfd y ->
  sem rho (dnfOrG true x y) = sem rho x || sem rho y.
Proof.
  intros rho x y Hx Hy. unfold dnfOrG, dnfCopy.
  early x y; try reflexivity; try discriminate;
    try (cbn; now rewrite ?orb_false_r, ?orb_true_r).
  rewrite dnfOrMerge1_sem; [apply orInput_sem | now apply orInput_wf].
Qed.

Lemma dnfOrG_wf : forall single x y, wfd x -> wfd y -> wfd (dnfOrG single x y).
Proof.
  intros single x y Hx Hy. unfold dnfOrG, dnfCopy.
  destruct (dnfIsTrue x || dnfIsTrue y); [apply wfd_true|].
  destruct (dnfIsFalse x); [exact Hy|]. destruct (dnfIsFalse y); [exact Hx|].
  apply dnfOrMergeG_wf. now apply orInput_wf.
Qed.

Lemma dnfOr_quiet_eq : forall x y, no_multi_cancel_or x y = true -> dnfOrG false x y = dnfOrG true x y.
Proof.
  intros x y. unfold no_multi_cancel_or, dnfOrG.
  destruct (dnfIsTrue x || dnfIsTrue y); [reflexivity|].
  destruct (dnfIsFalse x); [reflexivity|]. destruct (dnfIsFalse y); [reflexivity|].
  apply dnfOrMerge_quiet.
Qed.

(* ------------------------------------------------------------------ dnfAnd *)
Lemma dnfAndG_weakens : forall rho single x y,
  sem rho x && sem rho y = true -> sem rho (dnfAndG single x y) = true.
Proof.
  intros rho single x y H. unfold dnfAndG, dnfCopy.
  early x y; try reflexivity; try discriminate;
    try (cbn in H; now rewrite ?andb_true_r, ?andb_false_r in H).
  apply dnfOrMergeG_weakens. now rewrite andInput_sem.
Qed.

Lemma dnfAnd1_sem : forall rho x y, wfd x -> wfd y ->
  sem rho (dnfAndG true x y) = sem rho x && sem rho y.
Proof.
  intros rho x y Hx Hy. unfold dnfAndG, dnfCopy.
  early x y; try reflexivity; try discriminate;
    try (cbn; now rewrite ?andb_true_r, ?andb_false_r, ?orb_false_r).
  rewrite dnfOrMerge1_sem; [apply andInput_sem | now apply andInput_wf].
Qed.

Lemma dnfAndG_wf : forall single x y, wfd x -> wfd y -> wfd (dnfAndG single x y).
Proof.
  intros single x y Hx Hy. unfold dnfAndG, dnfCopy.
  destruct (dnfIsFalse x || dnfIsFalse y); [apply wfd_false|].
  destruct (dnfIsTrue x); [exact Hy|]. destruct (dnfIsTrue y); [exact Hx|].
  apply dnfOrMergeG_wf. now apply andInput_wf.
Qed.

Lemma dnfAnd_quiet_eq : forall x y, no_multi_cancel_and x y = true -> dnfAndG false x y = dnfAndG true x y.
Proof.
  intros x y. unfold no_multi_cancel_and, dnfAndG.
  destruct (dnfIsFalse x || dnfIsFalse y); [reflexivity|].
  destruct (dnfIsTrue x); [reflexivity|]. destruct (dnfIsTrue y); [reflexivity|].
  apply dnfOrMerge_quiet.
Qed.

(* ------------------------------------------------------------------ dnfNot *)
Lemma sem_cons : forall rho c d, sem rho (c :: d) = semc rho c || sem rho d.
Proof. reflexivity. Qed.

Lemma dnfAndNot_sem : forall rho c, Forall (fun a => a <> 0) c ->
  sem rho (dnfAndNot c) = negb (semc rho c).
Proof.
  intros rho. induction c as [|a t IH]; intros H; [reflexivity|].
  inversion H as [|? ? Ha Ht]; subst. unfold dnfAndNot in *. cbn [map].
  rewrite sem_cons, (IH Ht), !semc_cons, negb_andb, (lit_neg rho a Ha).
  unfold semc at 1. cbn [forallb]. now rewrite andb_true_r.
Qed.

Lemma dnfAndNot_wf : forall c, wfc c -> wfd (dnfAndNot c).
Proof.
  intros c H. apply wfc_nz in H. unfold dnfAndNot, wfd. apply Forall_forall.
  intros c' Hin. apply in_map_iff in Hin as (a & <- & Ha). rewrite Forall_forall in H.
  specialize (H _ Ha). cbn. split; [lia | exact I].
Qed.

Definition allFalse (rho : Z -> bool) (xs : dnf) : bool := forallb (fun c => negb (semc rho c)) xs.

Lemma allFalse_sem : forall rho xs, allFalse rho xs = negb (sem rho xs).
Proof.
  intros rho. induction xs as [|c t IH]; [reflexivity|]. cbn. unfold allFalse in IH. rewrite IH.
  now rewrite negb_orb.
Qed.

Lemma notLoop_wf : forall single xs rr, wfd rr -> wfd xs ->
  wfd (fold_left (fun rr xi => dnfAndG single rr (dnfAndNot xi)) xs rr).
Proof.
  intros single. induction xs as [|xi xt IH]; intros rr Hr Hx; cbn [fold_left]; [exact Hr|].
  inversion Hx as [|? ? Wxi Wxt]; subst. apply IH; [|exact Wxt].
  apply dnfAndG_wf; [exact Hr | now apply dnfAndNot_wf].
Qed.

Lemma allFalse_cons : forall rho c t, allFalse rho (c :: t) = negb (semc rho c) && allFalse rho t.
Proof. reflexivity. Qed.

Lemma notLoop_weakens : forall rho single xs rr, wfd xs ->
  sem rho rr && allFalse rho xs = true ->
  sem rho (fold_left (fun rr xi => dnfAndG single rr (dnfAndNot xi)) xs rr) = true.
Proof.
  intros rho single. induction xs as [|xi xt IH]; intros rr Hx H; cbn [fold_left].
  - cbn in H. now rewrite andb_true_r in H.
  - inversion Hx as [|? ? Wxi Wxt]; subst. apply IH; [exact Wxt|].
    rewrite allFalse_cons in H.
    apply andb_true_iff in H as [E1 E2]. apply andb_true_iff in E2 as [E2 E3].
    rewrite E3, andb_true_r. apply dnfAndG_weakens.
    rewrite E1. cbn [andb]. rewrite dnfAndNot_sem; [exact E2 | now apply wfc_nz].
Qed.

Lemma notLoop1_sem : forall rho xs rr, wfd rr -> wfd xs ->
  sem rho (fold_left (fun rr xi => dnfAndG true rr (dnfAndNot xi)) xs rr)
  = sem rho rr && allFalse rho xs.
Proof.
  intros rho. induction xs as [|xi xt IH]; intros rr Hr Hx; cbn [fold_left].
  - cbn. now rewrite andb_true_r.
  - inversion Hx as [|? ? Wxi Wxt]; subst.
    rewrite IH; [|apply dnfAndG_wf; [exact Hr | now apply dnfAndNot_wf]|exact Wxt].
    rewrite dnfAnd1_sem; [|exact Hr | now apply dnfAndNot_wf].
    rewrite dnfAndNot_sem by now apply wfc_nz. rewrite allFalse_cons. now rewrite andb_assoc.
Qed.

Lemma dnfNotG_weakens : forall rho single x, wfd x ->
  negb (sem rho x) = true -> sem rho (dnfNotG single x) = true.
Proof.
  intros rho single x Hx H. unfold dnfNotG.
  destruct (dnfIsFalse x) eqn:F; [reflexivity|].
  destruct (dnfIsTrue x) eqn:T. { apply dnfIsTrue_eq in T. subst. discriminate. }
  apply notLoop_weakens; [exact Hx|]. now rewrite allFalse_sem.
Qed.

Lemma dnfNot1_sem : forall rho x, wfd x -> sem rho (dnfNotG true x) = negb (sem rho x).
Proof.
  intros rho x Hx. unfold dnfNotG.
  destruct (dnfIsFalse x) eqn:F. { apply dnfIsFalse_eq in F. now subst. }
  destruct (dnfIsTrue x) eqn:T. { apply dnfIsTrue_eq in T. now subst. }
  rewrite notLoop1_sem; [|apply wfd_true | exact Hx]. now rewrite allFalse_sem.
Qed.

Lemma dnfNotG_wf : forall single x, wfd x -> wfd (dnfNotG single x).
Proof.
  intros single x Hx. unfold dnfNotG.
  destruct (dnfIsFalse x); [apply wfd_true|]. destruct (dnfIsTrue x); [apply wfd_false|].
  apply notLoop_wf; [apply wfd_true | exact Hx].
Qed.

Lemma notLoop_quiet : forall xs rr, quietNotLoop rr xs = true ->
  fold_left (fun rr xi => dnfAndG false rr (dnfAndNot xi)) xs rr
  = fold_left (fun rr xi => dnfAndG true rr (dnfAndNot xi)) xs rr.
Proof.
  induction xs as [|xi xt IH]; intros rr H; cbn in *; [reflexivity|].
  apply andb_true_iff in H as [H1 H2]. unfold dnfAnd in H2.
  rewrite <- (dnfAnd_quiet_eq _ _ H1). now apply IH.
Qed.

Lemma dnfNot_quiet_eq : forall x, no_multi_cancel_not x = true -> dnfNotG false x = dnfNotG true x.
Proof.
  intros x. unfold no_multi_cancel_not, dnfNotG.
  destruct (dnfIsFalse x); [reflexivity|]. destruct (dnfIsTrue x); [reflexivity|].
  apply notLoop_quiet.
Qed.

(* ------------------------------------------------------------------ formulas *)
Lemma buildG_wf : forall single f, fatoms_ok f = true -> wfd (buildG single f).
Proof.
  intros single. induction f as [| |a|f IH|f IHf g IHg|f IHf g IHg]; cbn [buildG feval fatoms_ok quietBuild]; intros H.
  - apply wfd_true. - apply wfd_false.
  - apply wfd_atom. lia.
  - apply dnfNotG_wf. auto.
  - apply andb_true_iff in H as [H1 H2]. apply dnfAndG_wf; auto.
  - apply andb_true_iff in H as [H1 H2]. apply dnfOrG_wf; auto.
Qed.

Lemma build1_sem : forall rho f, fatoms_ok f = true -> sem rho (buildG true f) = feval rho f.
Proof.
  intros rho. induction f as [| |a|f IH|f IHf g IHg|f IHf g IHg]; cbn [buildG feval fatoms_ok quietBuild]; intros H.
  - reflexivity. - reflexivity.
  - apply sem_atom.
  - rewrite dnfNot1_sem; [now rewrite IH | now apply buildG_wf].
  - apply andb_true_iff in H as [H1 H2].
    rewrite dnfAnd1_sem; [now rewrite IHf, IHg | now apply buildG_wf | now apply buildG_wf].
  - apply andb_true_iff in H as [H1 H2].
    rewrite dnfOr1_sem; [now rewrite IHf, IHg | now apply buildG_wf | now apply buildG_wf].
Qed.

Lemma build_quiet_eq : forall f, quietBuild f = true -> buildG false f = buildG true f.
Proof.
  induction f as [| |a|f IH|f IHf g IHg|f IHf g IHg]; cbn [buildG feval fatoms_ok quietBuild]; intros H; try reflexivity.
  - apply andb_true_iff in H as [H1 H2]. unfold build in H2.
    rewrite <- (IH H1). now apply dnfNot_quiet_eq.
  - apply andb_true_iff in H as [H H3]. apply andb_true_iff in H as [H1 H2]. unfold build in H3.
    rewrite <- (IHf H1), <- (IHg H2). now apply dnfAnd_quiet_eq.
  - apply andb_true_iff in H as [H H3]. apply andb_true_iff in H as [H1 H2]. unfold build in H3.
    rewrite <- (IHf H1), <- (IHg H2). now apply dnfOr_quiet_eq.
Qed.

(* ------------------------------------------------------------------ implies / equal *)
Lemma dnfImplies_sound : forall rho x y,
  dnfImplies x y = true -> sem rho x = true -> sem rho y = true.
Proof.
  intros rho x y H Hx. unfold dnfImplies in H. rewrite forallb_forall in H.
  unfold sem in *. apply existsb_exists in Hx as (xi & Hin & Hxi).
  specialize (H _ Hin). apply existsb_exists in H as (yj & Hj & Himp).
  apply existsb_exists. exists yj. split; [exact Hj|]. eapply dnfAndImplies_sound; eauto.
Qed.

Lemma dnfImplies_refl : forall x, dnfImplies x x = true.
Proof.
  intros x. unfold dnfImplies. apply forallb_forall. intros xi Hin.
  apply existsb_exists. exists xi. split; [exact Hin | apply dnfAndImplies_refl].
Qed.

Lemma dnfEqual_sound : forall rho same x y, (same = true -> x = y) ->
  dnfEqual same x y = true -> sem rho x = sem rho y.
Proof.
  intros rho same x y Hs H. unfold dnfEqual in H. destruct same. { now rewrite Hs. }
  apply andb_true_iff in H as [H1 H2].
  destruct (sem rho x) eqn:Ex.
  - symmetry. eapply dnfImplies_sound; eauto.
  - destruct (sem rho y) eqn:Ey; [|reflexivity].
    rewrite (dnfImplies_sound rho _ _ H2 Ey) in Ex. discriminate.
Qed.

(* the pointer shortcut of dnfEqual is consistent with the general branch *)
Lemma dnfEqual_same_consistent : forall x, dnfEqual false x x = true.
Proof. intros. unfold dnfEqual. now rewrite dnfImplies_refl. Qed.

(* ------------------------------------------------------------------ dnfExpandImplies *)
Section Expand.
  Variable rho : Z -> bool.
  Variable testFn : atom -> atom -> bool.
  Hypothesis test_sound : forall a b, testFn a b = true -> lit rho a = true -> lit rho b = true.

  Lemma expandLoop_sound : forall whole yy xx,
    semc rho whole = true -> semc rho xx = true ->
    expandLoop testFn whole xx yy = true -> semc rho yy = true.
  Proof.
    intros whole. induction yy as [|ya yt IH]; intros xx Hw Hx H; [reflexivity|].
    destruct xx as [|xa xt]; [discriminate|]. cbn [expandLoop] in H.
    rewrite semc_cons in Hx. apply andb_true_iff in Hx as [Hxa Hxt].
    destruct (xa =? ya) eqn:E.
    - assert (xa = ya) by lia. subst. rewrite semc_cons, Hxa. cbn. eapply IH; eauto.
    - destruct (existsb (fun t => testFn t ya) whole) eqn:Ex; [|discriminate].
      apply existsb_exists in Ex as (t & Hin & Ht).
      unfold semc in Hw. rewrite forallb_forall in Hw.
      rewrite semc_cons, (test_sound _ _ Ht (Hw _ Hin)). cbn.
      apply (IH (xa :: xt)); [now apply forallb_forall | | exact H].
      rewrite semc_cons, Hxa. exact Hxt.
  Qed.

  Lemma dnfExpandImplies_sound : forall x y,
    dnfExpandImplies testFn x y = true -> sem rho x = true -> sem rho y = true.
  Proof.
    intros x y H Hx. unfold dnfExpandImplies in H. rewrite forallb_forall in H.
    unfold sem in *. apply existsb_exists in Hx as (xi & Hin & Hxi).
    specialize (H _ Hin). apply existsb_exists in H as (yj & Hj & Himp).
    apply existsb_exists. exists yj. split; [exact Hj|].
    unfold dnfExpandAndImplies in Himp. destruct (Nat.ltb (length xi) (length yj)); [discriminate|].
    eapply expandLoop_sound; eauto.
  Qed.
End Expand.

(* ------------------------------------------------------------------ what wf buys: satisfiability *)
(* a well-formed conjunction is satisfiable, hence for well-formed d:
   dnfIsFalse d = true  <->  d is unsatisfiable *)
Definition modelOf (c : conj) : Z -> bool := fun v => existsb (Z.eqb v) c.

Lemma wfc_from_in : forall c m a, wfc_from m c -> In a c -> m < Z.abs a.
Proof.
  induction c as [|b t IH]; intros m a H Hin; [contradiction|].
  destruct H as [H1 H2]. destruct Hin as [->|Hin]; [exact H1|].
  specialize (IH _ _ H2 Hin). lia.
Qed.

Lemma wfc_sat : forall c, wfc c -> semc (modelOf c) c = true.
Proof.
  intros c H. unfold semc. apply forallb_forall. intros a Ha.
  assert (Hnz : a <> 0). { pose proof (wfc_from_in _ _ _ H Ha). lia. }
  unfold lit. destruct (0 <? a) eqn:Hp.
  - unfold modelOf. apply existsb_exists. exists a. split; [exact Ha | apply Z.eqb_refl].
  - apply negb_true_iff. unfold modelOf.
    destruct (existsb (Z.eqb (- a)) c) eqn:E; [|reflexivity]. exfalso.
    apply existsb_exists in E as (b & Hb & Eb). assert (b = - a) by lia. subst b.
    (* a and -a both in a strictly |.|-increasing list *)
    clear Hp. revert H Ha Hb. unfold wfc. generalize 0. induction c as [|x t IH]; intros m H Ha Hb.
    + contradiction.
    + destruct H as [H1 H2]. destruct Ha as [->|Ha]; destruct Hb as [Hb|Hb].
      * lia.
      * pose proof (wfc_from_in _ _ _ H2 Hb). lia.
      * subst x. pose proof (wfc_from_in _ _ _ H2 Ha). lia.
      * eapply IH; eauto.
Qed.

Lemma dnfIsFalse_complete : forall d, wfd d ->
  (dnfIsFalse d = true <-> forall rho, sem rho d = false).
Proof.
  intros d H. split.
  - intros F rho. now apply dnfIsFalse_sem.
  - intros U. destruct d as [|c t]; [reflexivity|]. exfalso.
    inversion H; subst. specialize (U (modelOf c)). cbn in U.
    rewrite wfc_sat in U by assumption. discriminate.
Qed.

(* ================================================================== property-level lemmas *)
Lemma constants_ok : forall rho,
  sem rho dnfTrue = true /\ sem rho dnfFalse = false /\
  (forall x, dnfIsTrue x = true -> sem rho x = true) /\
  (forall x, dnfIsFalse x = true -> sem rho x = false).
Proof.
  intros rho. repeat split; [apply dnfIsTrue_sem | apply dnfIsFalse_sem].
Qed.

Lemma atoms_ok : forall rho a,
  sem rho (dnfAtom a) = lit rho a /\ (a <> 0 -> sem rho (dnfNotAtom a) = negb (lit rho a)).
Proof. intros. split; [apply sem_atom | apply sem_notAtom]. Qed.

Lemma and_weakens : forall rho x y, sem rho x && sem rho y = true -> sem rho (dnfAnd x y) = true.
Proof. intros. now apply dnfAndG_weakens. Qed.
Lemma or_weakens : forall rho x y, sem rho x || sem rho y = true -> sem rho (dnfOr x y) = true.
Proof. intros. now apply dnfOrG_weakens. Qed.
Lemma not_weakens : forall rho x, wfd x -> negb (sem rho x) = true -> sem rho (dnfNot x) = true.
Proof. intros. now apply dnfNotG_weakens. Qed.

Lemma and_exact_quiet : forall rho x y, wfd x -> wfd y -> no_multi_cancel_and x y = true ->
  sem rho (dnfAnd x y) = sem rho x && sem rho y.
Proof. intros rho x y Hx Hy Q. unfold dnfAnd. rewrite (dnfAnd_quiet_eq _ _ Q). now apply dnfAnd1_sem. Qed.
Lemma or_exact_quiet : forall rho x y, wfd x -> wfd y -> no_multi_cancel_or x y = true ->
  sem rho (dnfOr x y) = sem rho x || sem rho y.
Proof. intros rho x y Hx Hy Q. unfold dnfOr. rewrite (dnfOr_quiet_eq _ _ Q). now apply dnfOr1_sem. Qed.
Lemma not_exact_quiet : forall rho x, wfd x -> no_multi_cancel_not x = true ->
  sem rho (dnfNot x) = negb (sem rho x).
Proof. intros rho x Hx Q. unfold dnfNot. rewrite (dnfNot_quiet_eq _ Q). now apply dnfNot1_sem. Qed.
Lemma build_exact_quiet : forall rho f, fatoms_ok f = true -> quietBuild f = true ->
  sem rho (build f) = feval rho f.
Proof. intros rho f Hf Q. unfold build. rewrite (build_quiet_eq _ Q). now apply build1_sem. Qed.

Definition rho_of (l : list Z) : Z -> bool := fun v => existsb (Z.eqb v) l.

Lemma or_refuted : exists rho x y, wfd x /\ wfd y /\ sem rho (dnfOr x y) <> (sem rho x || sem rho y).
Proof.
  exists (rho_of [1]), [[-1; -2]], [[1; 2]].
  split; [apply wfdb_spec; reflexivity|]. split; [apply wfdb_spec; reflexivity|].
  vm_compute. discriminate.
Qed.

Lemma and_refuted : exists rho x y, wfd x /\ wfd y /\ sem rho (dnfAnd x y) <> (sem rho x && sem rho y).
Proof.
  exists (rho_of [1; 3; 4]), [[1; 2]; [3]], [[-1; -2; 4]; [1; 2]].
  split; [apply wfdb_spec; reflexivity|]. split; [apply wfdb_spec; reflexivity|].
  vm_compute. discriminate.
Qed.

Lemma not_refuted : exists rho x, wfd x /\ sem rho (dnfNot x) <> negb (sem rho x).
Proof.
  exists (rho_of [1]), [[1; -2]; [-1; 2]].
  split; [apply wfdb_spec; reflexivity|]. vm_compute. discriminate.
Qed.

Lemma build_refuted : exists rho f, fatoms_ok f = true /\ sem rho (build f) <> feval rho f.
Proof.
  exists (rho_of [1]), (FOr (FAnd (FAtom 1) (FAtom 2)) (FAnd (FAtom (-1)) (FAtom (-2)))).
  split; [reflexivity|]. vm_compute. discriminate.
Qed.

Lemma wf_established :
  wfd dnfTrue /\ wfd dnfFalse /\
  (forall a, a <> 0 -> wfd (dnfAtom a) /\ wfd (dnfNotAtom a)) /\
  (forall x y, wfd x -> wfd y -> wfd (dnfAnd x y) /\ wfd (dnfOr x y)) /\
  (forall x, wfd x -> wfd (dnfNot x) /\ wfd (dnfCopy x)) /\
  (forall f, fatoms_ok f = true -> wfd (build f)).
Proof.
  split; [apply wfd_true|]. split; [apply wfd_false|].
  split. { intros a H. split; [now apply wfd_atom | now apply wfd_notAtom]. }
  split. { intros x y Hx Hy. split; [now apply dnfAndG_wf | now apply dnfOrG_wf]. }
  split. { intros x Hx. split; [now apply dnfNotG_wf | exact Hx]. }
  intros f Hf. now apply buildG_wf.
Qed.

Lemma implies_sound : forall rho x y, dnfImplies x y = true -> sem rho x = true -> sem rho y = true.
Proof. exact dnfImplies_sound. Qed.

Lemma expand_sound : forall rho testFn,
  (forall a b, testFn a b = true -> lit rho a = true -> lit rho b = true) ->
  forall x y, dnfExpandImplies testFn x y = true -> sem rho x = true -> sem rho y = true.
Proof. intros rho testFn H x y. now apply dnfExpandImplies_sound. Qed.

(* ================================================================== examples: hypotheses are satisfiable *)
Example ex_wf : wfd [[1; -2; 5]; [-3]; [2; 4]].
Proof. apply wfdb_spec. reflexivity. Qed.
Example ex_not_wf : ~ wfd [[2; 1]].
Proof. intros H. apply wfdb_spec in H. discriminate. Qed.
Example ex_and : dnfAnd [[1]; [2]] [[-1]; [3]] = [[1; 3]; [-1; 2]; [2; 3]].
Proof. reflexivity. Qed.
Example ex_or_single_cancel : dnfOr [[-1; 2]] [[1]] = [[2]; [1]].
Proof. reflexivity. Qed.
Example ex_or_quiet : no_multi_cancel_or [[-1; 2]; [3]] [[1]; [-3; 4]] = true
                      /\ dnfOr [[-1; 2]; [3]] [[1]; [-3; 4]] = [[2]; [3]; [1]; [4]].
Proof. split; reflexivity. Qed.
Example ex_or_not_quiet : no_multi_cancel_or [[-1; -2]] [[1; 2]] = false /\ dnfOr [[-1; -2]] [[1; 2]] = dnfTrue
                          /\ dnfOr1 [[-1; -2]] [[1; 2]] = [[-1; -2]; [1; 2]].
Proof. repeat split; reflexivity. Qed.
Example ex_not : dnfNot [[1; 2]; [3]] = [[-1; -3]; [-2; -3]] /\ no_multi_cancel_not [[1; 2]; [3]] = true.
Proof. split; reflexivity. Qed.
Example ex_not_unsound : dnfNot [[1; -2]; [-1; 2]] = dnfTrue /\ dnfNot1 [[1; -2]; [-1; 2]] = [[-1; -2]; [1; 2]].
Proof. split; reflexivity. Qed.
Example ex_implies : dnfImplies [[1; 2]; [1; 3]] [[1]] = true /\ dnfImplies [[1]] [[1; 2]; [1; -2]] = false.
Proof. split; reflexivity. Qed.   (* second: semantically valid, syntactically not found: incomplete *)
Example ex_equal : dnfEqual false [[1]; [2]] [[2]; [1]] = true.
Proof. reflexivity. Qed.
Example ex_expand : dnfExpandImplies (tableTest [(1, 7)]) [[1; 2]] [[2; 7]] = false
                    /\ dnfExpandImplies (tableTest [(1, 7)]) [[1; 2]] [[1; 7]] = true.
Proof. split; reflexivity. Qed.
Example ex_build_quiet :
  quietBuild (FNot (FOr (FAnd (FAtom 1) (FAtom 2)) (FAtom 3))) = true
  /\ build (FNot (FOr (FAnd (FAtom 1) (FAtom 2)) (FAtom 3))) = [[-1; -3]; [-2; -3]].
Proof. split; reflexivity. Qed.
