Require Import ExtrOcamlBasic.
Require Import AV.Dnf.Model.
Extraction "Dnf/extracted/dnf_model.ml"
  dnfTrue dnfFalse dnfIsTrue dnfIsFalse dnfAtom dnfNotAtom dnfCopy
  dnfOrG dnfAndG dnfNotG dnfImplies dnfEqual dnfExpandImplies tableTest dnfMapVisited
  dnfAndMerge dnfAndImplies dnfAndImpliesNegation dnfAndCancelNegation dnfAndNot dnfOrMergeG
  no_multi_cancel_or no_multi_cancel_and no_multi_cancel_not quietMerge buildG quietBuild wfdb.
