(* C20/dnf model driver: same line syntax as harness/dnf/h.c.  All results come from the
   extracted definitions (Dnf_model); the driver only parses, converts numerals and prints.
   For and/or/not/form/ormerge the line has three tab separated fields:
     result of the code as it is <TAB> result with the single-literal rule <TAB> quiet flag *)
open Dnf_model

let rec pos_of_int n = if n = 1 then XH else if n land 1 = 0 then XO (pos_of_int (n lsr 1)) else XI (pos_of_int (n lsr 1))
let z_of_int n = if n = 0 then Z0 else if n > 0 then Zpos (pos_of_int n) else Zneg (pos_of_int (- n))
let rec int_of_pos = function XH -> 1 | XO p -> 2 * int_of_pos p | XI p -> 2 * int_of_pos p + 1
let int_of_z = function Z0 -> 0 | Zpos p -> int_of_pos p | Zneg p -> - (int_of_pos p)

let s = ref ""
let p = ref 0
let peek () = if !p < String.length !s then !s.[!p] else '\n'
let skipws () = while peek () = ' ' || peek () = '\t' do incr p done
let rdint () =
  skipws ();
  let st = !p in
  if peek () = '-' || peek () = '+' then incr p;
  while (match peek () with '0'..'9' -> true | _ -> false) do incr p done;
  int_of_string (String.sub !s st (!p - st))

(* DNF literal with optional NULL slots *)
let rdarr () : z list option list =
  skipws ();
  if peek () <> '{' then failwith "bad dnf";
  incr p;
  let cs = ref [] in
  while peek () <> '}' do
    if peek () = 'N' then begin incr p; incr p; cs := None :: !cs end
    else begin
      let ls = ref [] in
      while peek () <> ';' do
        ls := z_of_int (rdint ()) :: !ls;
        if peek () = ',' then incr p
      done;
      incr p;
      cs := Some (List.rev !ls) :: !cs
    end
  done;
  incr p;
  List.rev !cs

let rddnf () : z list list =
  List.map (function Some c -> c | None -> failwith "NULL slot") (rdarr ())
let rdconj () = match rddnf () with c :: _ -> c | [] -> failwith "no conj"

let prconj c = String.concat "," (List.map (fun a -> string_of_int (int_of_z a)) c)
let prdnf d = "{" ^ String.concat "" (List.map (fun c -> prconj c ^ ";") d) ^ "}"
let prb b = if b then "1" else "0"

let rec rdform () : form =
  skipws ();
  match peek () with
  | '&' -> incr p; let a = rdform () in let b = rdform () in FAnd (a, b)
  | '|' -> incr p; let a = rdform () in let b = rdform () in FOr (a, b)
  | '~' -> incr p; FNot (rdform ())
  | 'T' -> incr p; FTrue
  | 'F' -> incr p; FFalse
  | _ -> FAtom (z_of_int (rdint ()))

let three a b q = a ^ "\t" ^ b ^ "\t" ^ prb q

let doline line =
  s := line; p := 0;
  skipws ();
  let st = !p in
  while peek () <> ' ' && peek () <> '\n' do incr p done;
  let op = String.sub line st (!p - st) in
  match op with
  | "and" -> let x = rddnf () in let y = rddnf () in
      three (prdnf (dnfAndG false x y)) (prdnf (dnfAndG true x y)) (no_multi_cancel_and x y)
  | "or" -> let x = rddnf () in let y = rddnf () in
      three (prdnf (dnfOrG false x y)) (prdnf (dnfOrG true x y)) (no_multi_cancel_or x y)
  | "not" -> let x = rddnf () in
      three (prdnf (dnfNotG false x)) (prdnf (dnfNotG true x)) (no_multi_cancel_not x)
  | "copy" -> prdnf (dnfCopy (rddnf ()))
  | "atom" -> prdnf (dnfAtom (z_of_int (rdint ())))
  | "natom" -> prdnf (dnfNotAtom (z_of_int (rdint ())))
  | "true" -> prdnf dnfTrue
  | "false" -> prdnf dnfFalse
  | "istrue" -> prb (dnfIsTrue (rddnf ()))
  | "isfalse" -> prb (dnfIsFalse (rddnf ()))
  | "implies" -> let x = rddnf () in let y = rddnf () in prb (dnfImplies x y)
  | "equal" -> let x = rddnf () in let y = rddnf () in prb (dnfEqual false x y)
  | "equalsame" -> let x = rddnf () in prb (dnfEqual true x x)
  | "expand" ->
      skipws ();
      let tbl = ref [] in
      if peek () = '_' then incr p
      else begin
        let go = ref true in
        while !go do
          let a = rdint () in incr p; let b = rdint () in
          tbl := (z_of_int a, z_of_int b) :: !tbl;
          if peek () = ',' then incr p else go := false
        done
      end;
      let tbl = List.rev !tbl in
      let x = rddnf () in let y = rddnf () in
      prb (dnfExpandImplies (tableTest tbl) x y)
  | "map" -> let n = z_of_int (rdint ()) in let x = rddnf () in
      "v" ^ prconj (dnfMapVisited (fun a -> Z.eqb a n) x)
  | "amerge" -> let x = rdconj () in let y = rdconj () in
      (match dnfAndMerge x y with None -> "NULL" | Some c -> "[" ^ prconj c ^ "]")
  | "aimplies" -> let x = rdconj () in let y = rdconj () in prb (dnfAndImplies x y)
  | "aimpneg" -> let x = rdconj () in let y = rdconj () in prb (dnfAndImpliesNegation x y)
  | "acancel" -> let x = rdconj () in let y = rdconj () in
      if not (dnfAndImpliesNegation x y) then "PRE"
      else (match dnfAndCancelNegation x y with None -> "NONE" | Some c -> "[" ^ prconj c ^ "]")
  | "anot" -> prdnf (dnfAndNot (rdconj ()))
  | "ormerge" -> let a = rdarr () in
      three (prdnf (dnfOrMergeG false a)) (prdnf (dnfOrMergeG true a)) (quietMerge a)
  | "form" -> let f = rdform () in
      three (prdnf (buildG false f)) (prdnf (buildG true f)) (quietBuild f)
  | _ -> failwith ("unknown op " ^ op)

let () =
  try
    while true do
      let line = input_line stdin in
      if String.length line > 0 && line.[0] <> '#' then
        print_endline (try doline (line ^ "\n") with Failure m -> "error:" ^ m)
    done
  with End_of_file -> ()
