(* C20, part "dnf": the disjunctive normal form of dnf.c.
   `dnfOr/dnfAnd/dnfNot` are the CURRENT code of /repo (cancel-negation rule for any number of
   literals); `dnfOr1/dnfAnd1/dnfNot1/build1` are the same functions with that rule restricted
   to a single literal.

   FULL STATEMENTS ASKED FOR BY THE PROPERTY (false of the current code, see the ..._refuted theorems):
     forall rho x y, wfd x -> wfd y -> sem rho (dnfAnd x y) = sem rho x && sem rho y
     forall rho x y, wfd x -> wfd y -> sem rho (dnfOr  x y) = sem rho x || sem rho y
     forall rho x,   wfd x ->          sem rho (dnfNot x)   = negb (sem rho x)
     forall rho f,   fatoms_ok f = true -> sem rho (build f) = feval rho f
   What is proved instead: they hold for the single-literal rule (..._single_rule), they hold of
   the current code whenever the run used no multi-literal cancellation (..._exact_when_no_multi_cancel_partial),
   and the current code only ever weakens (..._weakens_partial).
   dnfImplies / dnfEqual: soundness (never contradicting a truth table).  Completeness of these
   syntactic tests is NOT claimed (Facts.ex_implies shows a valid implication they miss). *)
Require Import ZArith List Bool.
Import ListNotations.
Require Import AV.Dnf.Model AV.Dnf.Facts.
Local Open Scope Z_scope.

Theorem dnf_constants : forall rho,
  sem rho dnfTrue = true /\ sem rho dnfFalse = false /\
  (forall x, dnfIsTrue x = true -> sem rho x = true) /\
  (forall x, dnfIsFalse x = true -> sem rho x = false).
Proof. exact constants_ok. Qed.
Print Assumptions dnf_constants.

Theorem dnf_atoms : forall rho a,
  sem rho (dnfAtom a) = lit rho a /\ (a <> 0 -> sem rho (dnfNotAtom a) = negb (lit rho a)).
Proof. exact atoms_ok. Qed.
Print Assumptions dnf_atoms.

Theorem dnf_wf_established :
  wfd dnfTrue /\ wfd dnfFalse /\
  (forall a, a <> 0 -> wfd (dnfAtom a) /\ wfd (dnfNotAtom a)) /\
  (forall x y, wfd x -> wfd y -> wfd (dnfAnd x y) /\ wfd (dnfOr x y)) /\
  (forall x, wfd x -> wfd (dnfNot x) /\ wfd (dnfCopy x)) /\
  (forall f, fatoms_ok f = true -> wfd (build f)).
Proof. exact wf_established. Qed.
Print Assumptions dnf_wf_established.

(* ---- the current code ---- *)
Theorem dnfAnd_weakens_partial : forall rho x y,
  sem rho x && sem rho y = true -> sem rho (dnfAnd x y) = true.
Proof. exact and_weakens. Qed.
Print Assumptions dnfAnd_weakens_partial.

Theorem dnfOr_weakens_partial : forall rho x y,
  sem rho x || sem rho y = true -> sem rho (dnfOr x y) = true.
Proof. exact or_weakens. Qed.
Print Assumptions dnfOr_weakens_partial.

Theorem dnfNot_weakens_partial : forall rho x, wfd x ->
  negb (sem rho x) = true -> sem rho (dnfNot x) = true.
Proof. exact not_weakens. Qed.
Print Assumptions dnfNot_weakens_partial.

Theorem dnfAnd_exact_when_no_multi_cancel_partial : forall rho x y, wfd x -> wfd y ->
  no_multi_cancel_and x y = true -> sem rho (dnfAnd x y) = sem rho x && sem rho y.
Proof. exact and_exact_quiet. Qed.
Print Assumptions dnfAnd_exact_when_no_multi_cancel_partial.

Theorem dnfOr_exact_when_no_multi_cancel_partial : forall rho x y, wfd x -> wfd y ->
  no_multi_cancel_or x y = true -> sem rho (dnfOr x y) = sem rho x || sem rho y.
Proof. exact or_exact_quiet. Qed.
Print Assumptions dnfOr_exact_when_no_multi_cancel_partial.

Theorem dnfNot_exact_when_no_multi_cancel_partial : forall rho x, wfd x ->
  no_multi_cancel_not x = true -> sem rho (dnfNot x) = negb (sem rho x).
Proof. exact not_exact_quiet. Qed.
Print Assumptions dnfNot_exact_when_no_multi_cancel_partial.

Theorem dnf_build_exact_when_no_multi_cancel_partial : forall rho f, fatoms_ok f = true ->
  quietBuild f = true -> sem rho (build f) = feval rho f.
Proof. exact build_exact_quiet. Qed.
Print Assumptions dnf_build_exact_when_no_multi_cancel_partial.

Theorem dnfOr_refuted : exists rho x y,
  wfd x /\ wfd y /\ sem rho (dnfOr x y) <> (sem rho x || sem rho y).
Proof. exact or_refuted. Qed.
Print Assumptions dnfOr_refuted.

Theorem dnfAnd_refuted : exists rho x y,
  wfd x /\ wfd y /\ sem rho (dnfAnd x y) <> (sem rho x && sem rho y).
Proof. exact and_refuted. Qed.
Print Assumptions dnfAnd_refuted.

Theorem dnfNot_refuted : exists rho x, wfd x /\ sem rho (dnfNot x) <> negb (sem rho x).
Proof. exact not_refuted. Qed.
Print Assumptions dnfNot_refuted.

Theorem dnf_build_refuted : exists rho f, fatoms_ok f = true /\ sem rho (build f) <> feval rho f.
Proof. exact build_refuted. Qed.
Print Assumptions dnf_build_refuted.

(* ---- the same code with the cancel rule restricted to one literal: the full statements ---- *)
Theorem dnfAnd_single_rule : forall rho x y, wfd x -> wfd y ->
  sem rho (dnfAnd1 x y) = sem rho x && sem rho y.
Proof. exact dnfAnd1_sem. Qed.
Print Assumptions dnfAnd_single_rule.

Theorem dnfOr_single_rule : forall rho x y, wfd x -> wfd y ->
  sem rho (dnfOr1 x y) = sem rho x || sem rho y.
Proof. exact dnfOr1_sem. Qed.
Print Assumptions dnfOr_single_rule.

Theorem dnfNot_single_rule : forall rho x, wfd x -> sem rho (dnfNot1 x) = negb (sem rho x).
Proof. exact dnfNot1_sem. Qed.
Print Assumptions dnfNot_single_rule.

Theorem dnf_build_single_rule : forall rho f, fatoms_ok f = true ->
  sem rho (build1 f) = feval rho f.
Proof. exact build1_sem. Qed.
Print Assumptions dnf_build_single_rule.

(* ---- tests ---- *)
Theorem dnfImplies_sound : forall rho x y,
  dnfImplies x y = true -> sem rho x = true -> sem rho y = true.
Proof. exact implies_sound. Qed.
Print Assumptions dnfImplies_sound.

Theorem dnfEqual_sound : forall rho same x y, (same = true -> x = y) ->
  dnfEqual same x y = true -> sem rho x = sem rho y.
Proof. exact Facts.dnfEqual_sound. Qed.
Print Assumptions dnfEqual_sound.

Theorem dnfExpandImplies_sound : forall rho testFn,
  (forall a b, testFn a b = true -> lit rho a = true -> lit rho b = true) ->
  forall x y, dnfExpandImplies testFn x y = true -> sem rho x = true -> sem rho y = true.
Proof. exact expand_sound. Qed.
Print Assumptions dnfExpandImplies_sound.

Theorem dnfIsFalse_complete : forall d, wfd d ->
  (dnfIsFalse d = true <-> forall rho, sem rho d = false).
Proof. exact Facts.dnfIsFalse_complete. Qed.
Print Assumptions dnfIsFalse_complete.
