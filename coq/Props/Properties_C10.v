(* C10: The storage manager never hands out or reclaims live memory.
   Theorems about the model Store/Model.v of aldor/aldor/src/store.c (see the
   header of that file for what is and is not modelled; the tables in
   Gen/StoreParams.v are regenerated from store.c on every run).  Examples of
   non-trivial instances of the hypotheses: Store/Examples.v. *)
Require Import ZArith List Permutation.
Import ListNotations.
Require Import AV.Gen.StoreParams AV.Store.Gc AV.Store.GcFacts AV.Store.Model AV.Store.SizeFacts
        AV.Store.Facts AV.Store.LiveFacts AV.Store.Steps AV.Store.SweepFacts AV.Store.GcStore
        AV.Store.MarkFacts AV.Store.Final.
Local Open Scope Z_scope.

(* ---- size layer -------------------------------------------------------------- *)

(* fixedSizeFor[n] is the least size class >= n and fixedSizeIndexFor[n] its index *)
Theorem fixed_for_spec : forall n, 0 <= n <= FixedSizeMax ->
  n <= fixedSizeFor n /\ 0 < fixedSizeFor n /\
  (Z.to_nat (fixedSizeIndexFor n) < length fixedSize)%nat /\
  class_size (Z.to_nat (fixedSizeIndexFor n)) = fixedSizeFor n /\
  fixedSizeIndexFor (fixedSizeFor n) = fixedSizeIndexFor n /\
  (forall c, In c fixedSize -> n <= c -> fixedSizeFor n <= c).
Proof. exact AV.Store.SizeFacts.fixed_for_spec. Qed.
Print Assumptions fixed_for_spec.

Theorem true_size_ge : forall n, 0 < n -> n <= true_size n.
Proof. exact AV.Store.SizeFacts.true_size_ge. Qed.
Print Assumptions true_size_ge.

(* the QmInfo array of a section ends before its data area; the data area ends with the last page *)
Theorem info_fits : forall pages sz, 0 < pages -> 0 < sz ->
  SectionInfoOff + qm_count pages sz * QmInfoSize <= data_off pages sz /\
  data_off pages sz + qm_count pages sz * sz = pages * PgSize.
Proof. exact AV.Store.SizeFacts.info_fits. Qed.
Print Assumptions info_fits.

(* qmLogNo / qmDivNo (shift, division table) = qmNo (division) *)
Theorem qm_index_correct : forall c d, (c < length fixedSize)%nat -> 0 <= d ->
  qm_index c d = d / class_size c.
Proof. exact AV.Store.SizeFacts.qm_index_correct. Qed.
Print Assumptions qm_index_correct.

Theorem fresh_mixed_fits : forall nb, 0 < nb -> nb mod MixedSizeQuantum = 0 ->
  MixedSizePgGroup <= mixed_pages nb /\
  nb <= qm_count (mixed_pages nb) MixedSizeQuantum * MixedSizeQuantum.
Proof. exact AV.Store.SizeFacts.fresh_mixed_fits. Qed.
Print Assumptions fresh_mixed_fits.

(* ---- the invariant, for every history ----------------------------------------- *)
(* Inv t: every mixed section is tiled by pieces whose sizes are positive multiples
   of the quantum, nbytesPrev links are consistent, no two adjacent free pieces;
   every fixed section has the quantum count of its class; fixedPieces[c] is exactly
   (once each) the free quanta of the class-c sections; the index of free mixed
   pieces is sorted, without empty entries, and contains exactly (once each) the free
   pieces under their size; mixedFrontier is exactly the frontier piece. *)

Theorem inv_init : Inv st0.
Proof. exact AV.Store.Facts.inv_init. Qed.
Print Assumptions inv_init.

Theorem inv_step : forall t o, Inv t -> op_ok o -> Inv (fst (step t o)).
Proof. exact AV.Store.Final.inv_step. Qed.
Print Assumptions inv_step.

Theorem inv_run : forall ops, Forall op_ok ops -> Inv (run_ops ops).
Proof. exact AV.Store.Final.inv_run. Qed.
Print Assumptions inv_run.

(* busy blocks are pairwise disjoint, listed once, and inside the data area of their section *)
Theorem live_disjoint : forall t e1 e2, Inv t -> In e1 (live t) -> In e2 (live t) ->
  e1 = e2 \/ blk_disjoint e1 e2.
Proof. exact AV.Store.LiveFacts.live_disjoint. Qed.
Print Assumptions live_disjoint.

Theorem live_nodup : forall t, Inv t -> NoDup (live t).
Proof. exact AV.Store.LiveFacts.live_nodup. Qed.
Print Assumptions live_nodup.

Theorem live_inside : forall t e, Inv t -> In e (live t) ->
  match get_sect t (b_sect e) with
  | SFixed _ qsz _ _ => fdata_off qsz <= b_off e /\ b_off e + b_size e <= FixedSizePgGroup * PgSize
                        /\ SectionInfoOff + qm_count FixedSizePgGroup qsz * QmInfoSize <= fdata_off qsz
  | SMixed _ pg _ => mdata_off pg + MxMemHeadSize <= b_off e /\ b_off e + b_size e <= pg * PgSize
                     /\ SectionInfoOff + qm_count pg MixedSizeQuantum * QmInfoSize <= mdata_off pg
  | SDead => False
  end.
Proof. exact AV.Store.LiveFacts.live_inside. Qed.
Print Assumptions live_inside.

(* ---- the operations -------------------------------------------------------------- *)

(* stoAlloc: aligned, at least as large as requested; afterwards the live blocks are
   the old ones (address, size, code, contents, pointer fields unchanged) plus the new one *)
Theorem alloc_sound : forall t n code base t' o,
  Inv t -> 0 < n -> alloc t n code base = (t', o) ->
  Inv t' /\
  match o with
  | OAddr a z c => aligned a /\ n <= z /\ c = Z.land code QmCodeMask /\
                   Permutation (live t') ((a, z, new_binfo code) :: live t)
  | OErr => Permutation (live t') (live t)
  | _ => False
  end.
Proof. exact alloc_spec. Qed.
Print Assumptions alloc_sound.

(* ... and the new block is disjoint from every block that was live *)
Theorem alloc_disjoint : forall t n code base t' a z c,
  Inv t -> 0 < n -> alloc t n code base = (t', OAddr a z c) ->
  forall e, In e (live t) -> blk_disjoint (a, z, new_binfo code) e.
Proof. exact AV.Store.Final.alloc_disjoint. Qed.
Print Assumptions alloc_disjoint.

(* stoFree: only that block leaves the live set *)
Theorem free_sound : forall t a t' o, Inv t -> free t a = (t', o) ->
  Inv t' /\
  match o with
  | ONone => exists r b, lookup t a = Some (r, b) /\ Permutation (live t) ((a, bref_size t r, b) :: live t')
  | OErr => t' = t /\ lookup t a = None
  | _ => False
  end.
Proof. exact free_spec. Qed.
Print Assumptions free_sound.

(* stoResize: the new block is large enough, the other blocks are untouched, and the
   common prefix (MIN(nbytes, old true size) bytes) of the contents is preserved *)
Theorem resize_prefix : forall t a n base r b t' o,
  Inv t -> 0 < n -> lookup t a = Some (r, b) -> resize t a n base = (t', o) ->
  Inv t' /\
  match o with
  | OAddr na z c =>
      n <= z /\ (c = bcode b \/ c = Z.land (bcode b) QmCodeMask) /\
      exists R b', Permutation (live t) ((a, bref_size t r, b) :: R) /\
                   Permutation (live t') ((na, z, b') :: R) /\
                   bcode b' = c /\
                   zfirstn (Z.min n (bref_size t r)) (bdata b')
                   = zfirstn (Z.min n (bref_size t r)) (bdata b)
  | OErr => Permutation (live t') (live t)
  | _ => False
  end.
Proof. exact resize_spec. Qed.
Print Assumptions resize_prefix.

(* stoRecode changes the object code of that block and nothing else *)
Theorem recode_only_code : forall t a code t' o, Inv t -> recode t a code = (t', o) ->
  Inv t' /\
  match o with
  | OAddr a' z c =>
      a' = a /\ c = Z.land code QmCodeMask /\
      exists b R, Permutation (live t) ((a, z, b) :: R) /\
                  Permutation (live t') ((a, z, mkB c (bdata b) (bptrs b)) :: R)
  | OErr => t' = t /\ lookup t a = None
  | _ => False
  end.
Proof. exact recode_spec. Qed.
Print Assumptions recode_only_code.

(* ---- the collector ------------------------------------------------------------------ *)
(* The marker is modelled as coded in stoGcMarkRange (Model.v: piece_tags = the QmInfo
   first/follow tags, step_back, cresolve, cmark): for a word: find the section, step
   BACK over follow-quanta to the first quantum of the piece, skip free / already marked
   pieces, mark, then scan EVERY word of the piece by a nested call.  Two parameters are
   regenerated from the source: GcInteriorMax / GcMarkDepthMax (-1 = no bound, as on the
   current tree).  mark_interior and mark_closure_complete are stated for the modelled
   marker and proved through the facts GcInteriorMax = -1, GcMarkDepthMax = -1: a source
   that bounds the stepping back or the nesting makes them stop checking. *)

(* (1) an address anywhere inside a busy piece (any offset, any piece size) marks that piece *)
Theorem mark_interior : forall t e v, Inv t -> sections_disjoint t ->
  In e (live t) -> abs_range t e v -> cresolve t v = Some (fst (fst e)).
Proof. exact AV.Store.MarkFacts.mark_interior. Qed.
Print Assumptions mark_interior.

(* (2) after marking from the roots every piece reachable through ANY word of ANY marked
   piece, at any depth, is marked (and nothing else is) *)
Theorem mark_closure_complete : forall t roots a, Inv t -> creach t roots a -> In a (cgc_mark t roots).
Proof. exact AV.Store.MarkFacts.mark_closure_complete. Qed.
Print Assumptions mark_closure_complete.

Theorem mark_closure_exact : forall t roots a, Inv t -> (In a (cgc_mark t roots) <-> creach t roots a).
Proof. exact AV.Store.MarkFacts.mark_closure_exact. Qed.
Print Assumptions mark_closure_exact.

(* (3) stoGcSweep frees exactly the unmarked pieces, whatever the marks are *)
Theorem sweep_frees_only_unmarked : forall m t t' o, Inv t -> gc_with m t = (t', o) ->
  Inv t' /\ forall e, In e (live t') <-> In e (live t) /\ In (fst (fst e)) m.
Proof. exact AV.Store.Final.sweep_frees_only_unmarked. Qed.
Print Assumptions sweep_frees_only_unmarked.

(* stoGc (concrete marker + sweep) keeps the invariant; the live blocks afterwards are
   exactly the live blocks reachable from the roots, each with its address, size, code,
   contents and pointer fields *)
Theorem gc_live : forall t roots t' o, Inv t -> gc t roots = (t', o) ->
  Inv t' /\
  forall e, In e (live t') <-> In e (live t) /\ creach t roots (fst (fst e)).
Proof. exact AV.Store.Final.gc_live. Qed.
Print Assumptions gc_live.

Theorem gc_keeps_reachable : forall t roots t' o e, Inv t -> gc t roots = (t', o) ->
  In e (live t) -> creach t roots (fst (fst e)) -> In e (live t').
Proof. exact gc_keeps_reachable_store. Qed.
Print Assumptions gc_keeps_reachable.

Theorem gc_frees_only_unmarked : forall t roots t' o e, Inv t -> gc t roots = (t', o) ->
  In e (live t') -> In e (live t) /\ creach t roots (fst (fst e)).
Proof. exact gc_frees_only_unmarked_store. Qed.
Print Assumptions gc_frees_only_unmarked.

(* the same collector with the abstract worklist marker of Gc.v (C09's model) *)
Theorem gc_live_abstract : forall t roots t' o, Inv t -> gc_with (gc_mark t roots) t = (t', o) ->
  Inv t' /\
  forall e, In e (live t') <-> In e (live t) /\ sreach t roots (fst (fst e)).
Proof. exact AV.Store.GcStore.gc_live_abstract. Qed.
Print Assumptions gc_live_abstract.

(* a word pointing anywhere into a live block (interior pointer) is resolved to that
   block by the marker, provided the sections occupy disjoint page ranges (the page
   allocator is not modelled: this is the assumption about pagesGet) *)
Theorem resolve_interior : forall t e v, Inv t -> sections_disjoint t ->
  In e (live t) -> abs_range t e v -> resolve t v = Some (fst (fst e)).
Proof. exact AV.Store.GcStore.resolve_interior. Qed.
Print Assumptions resolve_interior.

(* NOT PROVED (full statement kept visible):
   audit_complete : forall t, Inv t <-> model_audit t = true
   -- no executable audit of the model was written; in the correspondence runs the
   implementation's own stoAudit is called after every step instead. *)
