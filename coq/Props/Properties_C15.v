(* Property C15 - Diagnostics point at the right file, line and column.
   Only statements, `exact`, and Print Assumptions.  Proofs: AV.SrcPos.Facts / TableFacts. *)
From Coq Require Import ZArith List Bool.
Require Import AV.Gen.SrcPosParams AV.SrcPos.Model AV.SrcPos.Facts AV.SrcPos.TableFacts.
Import ListNotations.
Local Open Scope Z_scope.

(* A token at column c of global line l: line exact, macro bit clear, column = min c CNO_MAX
   (for every l below the line-field limit and EVERY integer c: the column can never carry
   into the line number). *)
Theorem C15_pack_unpack : forall l c, 0 <= l < Lw ->
  let p := sposOffset (sposSet l 0) c in
  sposGlobalLine p = l /\ sposChar p = clampCno c /\ sposIsMacroExpanded p = 0.
Proof. exact pack_unpack. Qed.
Print Assumptions C15_pack_unpack.

(* For every word p whatsoever and every offset, sposOffset touches only the column field. *)
Theorem C15_offset_only_column : forall p c,
  sposGlobalLine (sposOffset p c) = sposGlobalLine p /\
  sposIsMacroExpanded (sposOffset p c) = sposIsMacroExpanded p /\
  sposChar (sposOffset p c) = clampCno (sposChar p + c).
Proof. exact (fun p c => conj (offset_gline p c) (conj (offset_mac p c) (offset_char p c))). Qed.
Print Assumptions C15_offset_only_column.

(* Every line that reaches sposNew - in any nesting of #include, #line (with or without a
   file name) and skipped #if branches, for any number of lines below the line-field limit -
   is later reported with its true file, its true (renumbered) line, and column 1. *)
Theorem C15_run_reports_truth : forall f0 items,
  f0 <> 0 -> wf_items f0 items -> nlines items < Lw - 1 ->
  let s := run (init f0) items in
  map (fun x => report (T s) (fst (fst x))) (rev (log s))
  = map (fun e => (snd (fst e), snd e, 1)) (spec_items f0 0 items).
Proof. exact run_reports_truth. Qed.
Print Assumptions C15_run_reports_truth.

(* Inserting k lines without code: every later line of that file moves by exactly k; earlier
   lines, lines of included files, files and columns are unchanged. *)
Theorem C15_blank_insert_shift : forall l1 l2 f ln k, 0 <= k -> no_top_hashline l2 ->
  exists f' ln' blanks, length blanks = Z.to_nat k /\
    spec_items f ln (l1 ++ l2) = spec_items f ln l1 ++ spec_items f' ln' l2 /\
    spec_items f ln (l1 ++ repeat Line (Z.to_nat k) ++ l2)
      = spec_items f ln l1 ++ blanks ++ map (shift_top k) (spec_items f' ln' l2).
Proof. exact blank_insert_shift. Qed.
Print Assumptions C15_blank_insert_shift.

(* Non-vacuity: a source with a nested include, a #line with and without file name and a
   skipped line satisfies the hypotheses, and the conclusion computes. *)
Definition ex_src : list item :=
  [Line; Include 7 [Line; Skip; Line; Include 9 [Line]; Line]; HashLine 100 0; Line; HashLine 5 8; Line; Line].
Example ex_wf : 1 <> 0 /\ wf_items 1 ex_src /\ nlines ex_src < Lw - 1.
Proof. split; [discriminate|]. split; [|vm_compute; reflexivity].
  cbn. repeat split; try discriminate; try (right; reflexivity);
  intro H; repeat (destruct H as [H|H]; [discriminate|]); contradiction. Qed.
Example ex_reports :
  map (fun x => report (T (run (init 1) ex_src)) (fst (fst x))) (rev (log (run (init 1) ex_src)))
  = [(1,1,1); (1,2,1); (7,1,1); (7,3,1); (7,4,1); (9,1,1); (7,5,1); (1,100,1); (8,5,1); (8,6,1)].
Proof. vm_compute. reflexivity. Qed.
Example ex_pack : let p := sposOffset (sposSet 3 0) 17045 in sposGlobalLine p = 3 /\ sposChar p = 16383.
Proof. vm_compute. split; reflexivity. Qed.
