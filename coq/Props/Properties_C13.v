(* C13 -- Interactive evaluation equals batch evaluation.

   Theorems about the loop MODEL of coq/Session/Model.v (a session is the fold of loop_step
   over the forms typed in; a form that does not type-check after the forms accepted so far
   leaves the state unchanged and prints nothing; batch is AV.Mini.Eval.eval of the whole
   file).  They hold for ALL lists of forms, all function tables, all fuels.  The real loop
   (axlcomp.c:compGLoopEval, fintphase.c:fintWrap, scobind.c:scoSetUndoState, the interpreter's
   persistent state) is tied to this model only by the runs of props/c13.py: `aldor -gloop`
   fed the forms versus `aldor -ginterp` on the file versus the model's expected output.     *)
Require Import List String Bool Arith ZArith.
Require Import AV.Mini.Syntax AV.Mini.Types AV.Mini.Eval AV.Mini.Session.
Require Import AV.Session.Model AV.Session.Growth AV.Session.Facts AV.Session.Bridge.
Import ListNotations.

(* First sentence of the property.  Feeding the forms of a file one after another (each accepted
   when it is entered) ends with the program having printed exactly the text the batch run of the
   whole file prints: same text, same order (the transcript is one string).                      *)
Theorem session_eq_batch : forall fuel p out,
    accepted_in_order [] p ->
    (eval fuel p = Done out StOk
     <-> exists x', session (funs_of p) fuel loop0 p = Some x' /\ transcript x' = out).
Proof. exact session_eq_batch_lemma. Qed.
Print Assumptions session_eq_batch.

(* ... from any loop state, for any function table *)
Theorem session_eq_batch_from : forall F fuel l x out,
    accepted_in_order (l_acc x) l ->
    (eval_items F fuel (l_st x) l = Done out StOk
     <-> exists x', session F fuel x l = Some x' /\ transcript x' = out).
Proof. exact session_eq_batch_items. Qed.
Print Assumptions session_eq_batch_from.

(* ... and form by form, in order: the transcript is what was printed before followed by the
   pieces printed by the forms in the order they were entered                                  *)
Theorem session_transcript_in_order : forall F fuel l x outs,
    session_outputs F fuel x l = Some outs ->
    exists x', session F fuel x l = Some x'
               /\ transcript x' = (transcript x ++ String.concat "" outs)%string.
Proof. exact session_transcript_lemma. Qed.
Print Assumptions session_transcript_in_order.

(* the per-form texts the tool (`mini forms`, AV.Mini.Session.forms_outputs) predicts are the
   session's per-form texts, and their concatenation is the batch output                       *)
Theorem batch_forms_session : forall fuel p out,
    accepted_in_order [] p ->
    eval fuel p = Done out StOk ->
    exists outs, forms_outputs fuel p = Some outs
                 /\ session_outputs (funs_of p) fuel loop0 p = Some outs
                 /\ String.concat "" outs = out.
Proof. exact batch_forms_session_lemma. Qed.
Print Assumptions batch_forms_session.

(* Second sentence.  For EVERY interleaving of good forms with forms that are rejected in every
   state the session over the good forms passes through, the session ends in the state -- hence
   with the transcript -- of the good forms alone.                                              *)
Theorem rejected_is_noop : forall F fuel goods bads l,
    interleave goods bads l ->
    forall x, (forall b, In b bads -> rejected_in_reach F fuel x goods b) ->
    session F fuel x l = session F fuel x goods.
Proof. exact rejected_is_noop_lemma. Qed.
Print Assumptions rejected_is_noop.

(* ... form by form: each good form prints what it prints without the rejected ones, each
   rejected form prints nothing                                                                *)
Theorem rejected_outputs : forall F fuel goods bads l,
    interleave goods bads l ->
    forall x, (forall b, In b bads -> rejected_in_reach F fuel x goods b) ->
    forall ol, session_outputs F fuel x l = Some ol ->
    exists og, session_outputs F fuel x goods = Some og
               /\ interleave og (map (fun _ => ""%string) bads) ol.
Proof. exact rejected_outputs_lemma. Qed.
Print Assumptions rejected_outputs.

Theorem rejected_transcript : forall F fuel goods bads l,
    interleave goods bads l ->
    forall x, (forall b, In b bads -> rejected_in_reach F fuel x goods b) ->
    forall og, session_outputs F fuel x goods = Some og ->
    exists x', session F fuel x l = Some x'
               /\ transcript x' = (transcript x ++ String.concat "" og)%string.
Proof. exact rejected_transcript_lemma. Qed.
Print Assumptions rejected_transcript.

(* ... with the stronger, simpler hypothesis "rejected in every state" *)
Theorem rejected_everywhere_is_noop : forall F fuel goods bads l x,
    interleave goods bads l ->
    (forall b, In b bads -> forall acc, accepts acc b = false) ->
    session F fuel x l = session F fuel x goods.
Proof. exact rejected_everywhere_noop_lemma. Qed.
Print Assumptions rejected_everywhere_is_noop.

(* the session goes on after a rejected form, from the state before it *)
Theorem rejected_then_continue : forall F fuel x b rest,
    accepts (l_acc x) b = false -> session F fuel x (b :: rest) = session F fuel x rest.
Proof. exact rejected_then_continue_lemma. Qed.
Print Assumptions rejected_then_continue.

(* evaluation only appends to the program's output (what makes "the text a form prints" well
   defined): one form                                                                         *)
Theorem form_output_appends : forall F fuel s it s', form_step F fuel s it = Some s' -> ext s s'.
Proof. exact form_step_ext. Qed.
Print Assumptions form_output_appends.

(* Non-vacuity: four good forms (a variable, a print, a function, a print of a call), three
   erroneous ones (undefined name, wrong argument type, wrong type of an initial value), one
   interleaving: the hypotheses hold, the batch run and the interleaved session print "3\n4\n",
   and the refused definition leaves no binding behind.                                         *)
Theorem nonvacuous_goods_accepted : accepted_in_order [] ex_goods.
Proof. exact ex_goods_accepted. Qed.
Print Assumptions nonvacuous_goods_accepted.

Theorem nonvacuous_interleaving : interleave ex_goods ex_bads ex_session.
Proof. exact ex_interleave. Qed.
Print Assumptions nonvacuous_interleaving.

Theorem nonvacuous_bads_rejected :
  forall b, In b ex_bads -> rejected_in_reach (funs_of ex_goods) ex_fuel loop0 ex_goods b.
Proof. exact ex_bads_rejected. Qed.
Print Assumptions nonvacuous_bads_rejected.

Theorem nonvacuous_batch : eval ex_fuel ex_goods = Done ("3" ++ nl ++ "4" ++ nl)%string StOk.
Proof. exact ex_batch. Qed.
Print Assumptions nonvacuous_batch.

Theorem nonvacuous_session :
  option_map transcript (session (funs_of ex_goods) ex_fuel loop0 ex_session)
  = Some ("3" ++ nl ++ "4" ++ nl)%string.
Proof. exact ex_session_runs. Qed.
Print Assumptions nonvacuous_session.
