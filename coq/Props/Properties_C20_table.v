(* C20, hash table part: "for every sequence of operations the hash table behaves as a finite map
   (lookup returns the last value stored for an equal key, removal removes exactly that key, iteration
   visits each entry once, size is the number of entries)".
   Model: AV.Table.Model (table.c function for function).  hashf / eqf are arbitrary (collisions, constant
   hash and eqFun = NULL included); the only requirement is that the equality BUCKET_SEARCH really uses,
   keq a b = (hashf a == hashf b) && eqf a b, is symmetric and transitive (key_equality).  TBL_MaxLoad
   is arbitrary, binPrimeArray any list of positive numbers, TBL_InitBuckC positive. *)
Require Import ZArith List Permutation SetoidList.
Require Import AV.Table.Model AV.Table.Facts.
Import ListNotations.
Local Open Scope Z_scope.

(* every history, started from tblNew, produces exactly the outputs of the same history on a naive
   association list (srun); an iteration may list the entries in any order (out_ok) *)
Theorem table_run_refines :
  forall (key elt : Type) (hashf : key -> Z) (eqf : key -> key -> bool) (initbuckc maxload : Z)
         (primes : list Z) (mapf : elt -> elt),
    key_equality hashf eqf -> primes_ok primes -> 0 < initbuckc ->
    forall ops : list (op key elt),
      Forall2 (out_ok key elt)
              (snd (run key elt hashf eqf maxload primes mapf (tblNew key elt initbuckc) ops))
              (snd (srun key elt hashf eqf mapf [] ops)).
Proof. exact P_run_refines. Qed.
Print Assumptions table_run_refines.

(* lookup returns the last value stored for an equal key (last_stored reads it off the history;
   a later drop of an equal key erases it, tblNMap maps it), else the default *)
Theorem table_lookup_last_stored :
  forall (key elt : Type) (hashf : key -> Z) (eqf : key -> key -> bool) (initbuckc maxload : Z)
         (primes : list Z) (mapf : elt -> elt),
    key_equality hashf eqf -> primes_ok primes -> 0 < initbuckc ->
    forall (ops : list (op key elt)) (k : key) (d : elt),
      snd (tblElt key elt hashf eqf
             (fst (run key elt hashf eqf maxload primes mapf (tblNew key elt initbuckc) ops)) k d)
      = dflt elt d (last_stored key elt hashf eqf mapf (rev ops) k).
Proof. exact P_lookup_last_stored. Qed.
Print Assumptions table_lookup_last_stored.

(* the invariant (no two equal keys; every entry in bucket hash mod buckc; count = number of entries;
   buckc buckets) holds after every history *)
Theorem table_reachable_inv :
  forall (key elt : Type) (hashf : key -> Z) (eqf : key -> key -> bool) (initbuckc maxload : Z)
         (primes : list Z) (mapf : elt -> elt),
    key_equality hashf eqf -> primes_ok primes -> 0 < initbuckc ->
    forall ops : list (op key elt),
      inv key elt hashf eqf (fst (run key elt hashf eqf maxload primes mapf (tblNew key elt initbuckc) ops)).
Proof. exact P_reachable_inv. Qed.
Print Assumptions table_reachable_inv.

(* tblElt: result = lookup in the abstract map; the map is unchanged (move-to-front only permutes) *)
Theorem table_elt_refines :
  forall (key elt : Type) (hashf : key -> Z) (eqf : key -> key -> bool),
    key_equality hashf eqf ->
    forall (t : tbl key elt) (k : key) (d : elt), inv key elt hashf eqf t ->
      let (t', r) := tblElt key elt hashf eqf t k d in
      inv key elt hashf eqf t' /\
      r = dflt elt d (get key elt hashf eqf k (abs key elt t)) /\
      (forall k', get key elt hashf eqf k' (abs key elt t') = get key elt hashf eqf k' (abs key elt t)) /\
      Permutation (abs key elt t') (abs key elt t) /\
      tblSize key elt t' = tblSize key elt t.
Proof. exact P_elt_refines. Qed.
Print Assumptions table_elt_refines.

(* tblSetElt refines map update (also across tblEnlarge) *)
Theorem table_set_refines :
  forall (key elt : Type) (hashf : key -> Z) (eqf : key -> key -> bool) (maxload : Z) (primes : list Z),
    key_equality hashf eqf -> primes_ok primes ->
    forall (t : tbl key elt) (k : key) (e : elt), inv key elt hashf eqf t ->
      let (t', r) := tblSetElt key elt hashf eqf maxload primes t k e in
      inv key elt hashf eqf t' /\ r = e /\
      Permutation (abs key elt t') (sset key elt hashf eqf k e (abs key elt t)) /\
      (forall k', get key elt hashf eqf k' (abs key elt t') =
                  if keq key hashf eqf k k' then Some e else get key elt hashf eqf k' (abs key elt t)).
Proof. exact P_set_refines. Qed.
Print Assumptions table_set_refines.

(* tblDrop removes exactly that key *)
Theorem table_drop_refines :
  forall (key elt : Type) (hashf : key -> Z) (eqf : key -> key -> bool),
    key_equality hashf eqf ->
    forall (t : tbl key elt) (k : key), inv key elt hashf eqf t ->
      inv key elt hashf eqf (tblDrop key elt hashf eqf t k) /\
      Permutation (abs key elt (tblDrop key elt hashf eqf t k)) (sdrop key elt hashf eqf k (abs key elt t)) /\
      (forall k', get key elt hashf eqf k' (abs key elt (tblDrop key elt hashf eqf t k)) =
                  if keq key hashf eqf k k' then None else get key elt hashf eqf k' (abs key elt t)).
Proof. exact P_drop_refines. Qed.
Print Assumptions table_drop_refines.

(* size is the number of entries, and no two of them have equal keys *)
Theorem table_size_is_card :
  forall (key elt : Type) (hashf : key -> Z) (eqf : key -> key -> bool) (t : tbl key elt),
    inv key elt hashf eqf t ->
    tblSize key elt t = Z.of_nat (length (abs key elt t)) /\
    NoDupA (eqk key hashf eqf) (map fst (abs key elt t)).
Proof. exact size_is_card. Qed.
Print Assumptions table_size_is_card.

(* tblITER/tblMORE/tblSTEP visit each entry exactly once *)
Theorem table_iter_once :
  forall (key elt : Type) (hashf : key -> Z) (eqf : key -> key -> bool) (t : tbl key elt),
    inv key elt hashf eqf t ->
    exists l, tblIterate key elt t = Some l /\ Permutation l (abs key elt t) /\
              NoDupA (eqk key hashf eqf) (map fst l) /\ Z.of_nat (length l) = tblSize key elt t.
Proof. exact iter_once. Qed.
Print Assumptions table_iter_once.
