(* Property C09 - Garbage collection never changes what a program computes.
   Only statements, `exact`, Print Assumptions.
   Model and proofs: AV.Store.Gc / AV.Store.GcFacts (abstract heap, mutator language, mark from
   the variables + sweep; shared with C10), AV.GcSched.Model/Facts (the schedules of the hook
   ALDOR_VERIF_GC), AV.GcSched.Junk (clearing dead variable slots before a collection: fintFreeJunk).

   FULL STATEMENT OF C09 (not provable here; the real-program part is explored by props/c09.py):
     for every Aldor program P, every route r in {aldor -ginterp, gcc-built executable + libfoam},
     every collection schedule s (never / when the heap fills / forced at any subset of allocation
     points):  (stdout, exit status) of P under (r, s) = (stdout, exit status) of P under (r, never),
     and no run ends in a storage fault.
   WHAT IS PROVED: the same statement for the abstract mutator language of AV.Store.Gc (allocate a
   block with pointer fields, constants = dropping a root, moves, interior pointers, load, store,
   output, pointer equality) over an abstract heap whose collector marks exactly the blocks
   reachable from the variables and frees the rest - for ALL programs and ALL schedules.
   WHAT IS MISSING (hence C09 as a whole is `partial'): the real collector finds its roots by
   conservatively scanning the C stack, the registers (setjmp buffer) and static data
   (store.c:stoGcMark / stoGcMarkRange over raw memory); the model's root set is exact by
   construction.  A pointer the C compiler keeps only in a place that is not scanned, a pointer
   hidden by an optimisation of the Aldor compiler (of_killp.c), a runtime function holding an
   intermediate result in an unscanned location (bigint.c temporaries), address reuse after a
   premature free: none of these exist in the model; only the schedule runs on the real
   implementation can show them. *)
Require Import ZArith List Bool.
Require Import AV.Store.Gc AV.Store.GcFacts AV.GcSched.Model AV.GcSched.Facts AV.GcSched.Junk.
Import ListNotations.
Local Open Scope Z_scope.

(* the mark phase computes exactly reachability from the roots (interior pointers resolve to
   their enclosing block, out-of-range and dangling words keep nothing alive) *)
Theorem C09_mark_is_reachability : forall h roots id, In id (hmark h roots) <-> hreach h roots id.
Proof. exact hmark_spec. Qed.
Print Assumptions C09_mark_is_reachability.

(* a reachable block survives a collection with its contents *)
Theorem gc_keeps_reachable : forall h roots id,
    hreach h roots id -> hget (hgc h roots) id = hget h id.
Proof. exact hgc_keeps_reachable. Qed.
Print Assumptions gc_keeps_reachable.

(* whatever survives was there before, unchanged, and is reachable: nothing is invented or altered *)
Theorem gc_frees_only_unmarked : forall h roots id o,
    hget (hgc h roots) id = Some o -> hget h id = Some o /\ hreach h roots id.
Proof. exact hgc_frees_only_unmarked. Qed.
Print Assumptions gc_frees_only_unmarked.

(* the collector does free: an unreachable block is gone (so the theorems below are not about a
   collector that does nothing) *)
Theorem gc_unreachable_freed : forall h roots id,
    ~ hreach h roots id -> hget (hgc h roots) id = None.
Proof. exact hgc_unreachable_freed. Qed.
Print Assumptions gc_unreachable_freed.

(* a collection is the identity on the reachable sub-heap *)
Theorem gc_preserves_reachable : forall h roots id,
    hreach (hgc h roots) roots id <-> hreach h roots id.
Proof. exact hgc_preserves_reach. Qed.
Print Assumptions gc_preserves_reachable.

(* THE PROPERTY AT MODEL LEVEL: for every mutator program and every subset of allocation points
   at which a collection is forced, the outputs equal those of the run without collections *)
Theorem schedule_irrelevant : forall (prog : list instr) (sched : nat -> bool),
    outputs (run_with_gc sched prog) = outputs (run_no_gc prog).
Proof. exact AV.Store.GcFacts.schedule_irrelevant. Qed.
Print Assumptions schedule_irrelevant.

(* ... the variables and the allocation counter are the same too *)
Theorem schedule_irrelevant_env : forall (prog : list instr) (sched : nat -> bool),
    m_env (run_with_gc sched prog) = m_env (run_no_gc prog) /\
    m_next (run_with_gc sched prog) = m_next (run_no_gc prog).
Proof. exact AV.Store.GcFacts.schedule_irrelevant_env. Qed.
Print Assumptions schedule_irrelevant_env.

(* "runs when the heap happens to fill" is some schedule nobody chose: any two schedules agree *)
Theorem C09_any_two_schedules : forall (prog : list instr) (s1 s2 : nat -> bool),
    outputs (run_with_gc s1 prog) = outputs (run_with_gc s2 prog).
Proof. exact any_two_schedules. Qed.
Print Assumptions C09_any_two_schedules.

(* the schedules the hook produces: ALDOR_VERIF_GC=k:j collects before the n-th allocation
   when n mod k = j (all k, all j - no bound) *)
Theorem C09_periodic_irrelevant : forall (prog : list instr) (k j : nat),
    outputs (run_with_gc (periodic k j) prog) = outputs (run_no_gc prog).
Proof. exact periodic_irrelevant. Qed.
Print Assumptions C09_periodic_irrelevant.

(* a forced collection never frees a block the mutator can still read: every variable resolves
   as in the run without collections, the reachable blocks are the same with the same contents,
   and nothing is resurrected *)
Theorem no_dangling : forall (prog : list instr) (sched : nat -> bool),
    let m1 := run_no_gc prog in
    let m2 := run_with_gc sched prog in
    (forall v, In v (m_env m2) -> vresolve (m_heap m2) v = vresolve (m_heap m1) v) /\
    (forall id, hreach (m_heap m2) (m_env m2) id <-> hreach (m_heap m1) (m_env m1) id) /\
    (forall id, hreach (m_heap m1) (m_env m1) id -> hget (m_heap m2) id = hget (m_heap m1) id) /\
    (forall id o, hget (m_heap m2) id = Some o -> hget (m_heap m1) id = Some o).
Proof. exact AV.Store.GcFacts.no_dangling. Qed.
Print Assumptions no_dangling.

(* The interpreter's pre-collection stack cleaning (fint.c:fintFreeJunk zeroes the stack, then stoGc()):
   zeroing the variable slots above [live] and collecting, at a point where those slots are dead for
   the rest of the program [p2] (along its execution no slot >= live is read before p2 has written it),
   is not observable - whatever the schedules before ([s1]) and after ([s2]). *)
Theorem fint_free_junk_safe : forall (p1 p2 : list instr) (live : nat) (s1 s2 : nat -> bool) (k2 : nat),
    safe_from live [] p2 (run_no_gc p1) = true ->
    outputs (run s2 k2 p2 (mgc (clean live (run_with_gc s1 p1)))) = outputs (run_no_gc (p1 ++ p2)).
Proof. exact AV.GcSched.Junk.fint_free_junk_safe. Qed.
Print Assumptions fint_free_junk_safe.

(* ... and the deadness hypothesis is necessary: clearing a slot that is still read changes the output *)
Theorem C09_junk_clearing_needs_deadness :
  safe_from 1 [] jk_p2_bad (run_no_gc jk_p1) = false /\
  outputs (run never 0 jk_p2_bad (mgc (clean 1 (run_no_gc jk_p1)))) <> outputs (run_no_gc (jk_p1 ++ jk_p2_bad)).
Proof. exact junk_unsafe_example. Qed.
Print Assumptions C09_junk_clearing_needs_deadness.

(* Non-vacuity: a program that stores a block inside another, drops roots, reads back through an
   interior pointer; collecting at every allocation frees a block (3 blocks left instead of 4) and
   prints the same. *)
Example ex_C09_nonvacuous :
  outputs (run_with_gc always ex_prog) = [5; 0; 1; 5] /\
  outputs (run_no_gc ex_prog) = [5; 0; 1; 5] /\
  map fst (m_heap (run_with_gc always ex_prog)) = [3; 1; 0] /\
  map fst (m_heap (run_no_gc ex_prog)) = [3; 2; 1; 0].
Proof. repeat split; vm_compute; reflexivity. Qed.

Example ex_C09_junk_nonvacuous :
  safe_from 1 [] jk_p2 (run_no_gc jk_p1) = true /\
  outputs (run always 0 jk_p2 (mgc (clean 1 (run_with_gc always jk_p1)))) = [7; 9; 1] /\
  length (m_heap (mgc (clean 1 (run_with_gc always jk_p1)))) = 2%nat /\
  length (m_heap (run_no_gc jk_p1)) = 3%nat.
Proof. repeat split; vm_compute; reflexivity. Qed.
