(* C20, part "bitv": bit vectors of bitv.c as sets.  c : class with nwords = ceil(nbits/64)
   (wfc, what bitvClassCreate builds); vectors are ANY lists of nwords 64-bit words (wfv): in
   particular the unused bits of the last word are arbitrary (bitvNew leaves storage
   uninitialised, bitvNot/bitvSetAll fill them with ones).  `bits c v` is the set as list bool. *)
Require Import ZArith List Bool.
Import ListNotations.
Require Import AV.Bitv.Model AV.Bitv.Facts.
Local Open Scope Z_scope.

Theorem bitv_class : forall n, wfc (bitvClassCreate n) /\ nbits (bitvClassCreate n) = n /\
  (n <= 64 * nwords (bitvClassCreate n) < n + 64)%nat.
Proof. exact class_ok. Qed.
Print Assumptions bitv_class.

(* and / or / minus / not, for any length *)
Theorem bitv_set_algebra : forall c a b, wfc c ->
  bits c (bitvAnd c a b) = zipb andb (bits c a) (bits c b) /\
  bits c (bitvOr c a b) = zipb orb (bits c a) (bits c b) /\
  bits c (bitvMinus c a b) = zipb (fun x y => x && negb y) (bits c a) (bits c b) /\
  bits c (bitvNot c a) = map negb (bits c a).
Proof. exact set_algebra. Qed.
Print Assumptions bitv_set_algebra.

Theorem bitv_algebra_wf : forall c a b, wfv c a -> wfv c b ->
  wfv c (bitvAnd c a b) /\ wfv c (bitvOr c a b) /\ wfv c (bitvMinus c a b) /\ wfv c (bitvNot c a) /\
  bitvCopy c a = a.
Proof. exact algebra_wf. Qed.
Print Assumptions bitv_algebra_wf.

Theorem bitv_set_clear_all : forall c r, wfc c -> length r = nwords c ->
  bits c (bitvSetAll c r) = repeat true (nbits c) /\ bits c (bitvClearAll c r) = repeat false (nbits c).
Proof. exact set_clear_all. Qed.
Print Assumptions bitv_set_clear_all.

Theorem bitv_set_clear_all_wf : forall c r, wfc c -> length r = nwords c ->
  wfv c (bitvSetAll c r) /\ wfv c (bitvClearAll c r).
Proof. exact all_wf. Qed.
Print Assumptions bitv_set_clear_all_wf.

(* set / clear / test of one element (the C asserts ix < nbits) *)
Theorem bitv_elements : forall c r ix k, wfc c -> wfv c r -> (ix < nbits c)%nat ->
  bitvTest c (bitvSet c r ix) k = (if Nat.eqb k ix then true else bitvTest c r k) /\
  bitvTest c (bitvClear c r ix) k = (if Nat.eqb k ix then false else bitvTest c r k) /\
  wfv c (bitvSet c r ix) /\ wfv c (bitvClear c r ix).
Proof. exact elements_ok. Qed.
Print Assumptions bitv_elements.

(* equality ignores exactly the unused bits of the last word *)
Theorem bitv_equal : forall c a b, wfc c -> wfv c a -> wfv c b ->
  (bitvEqual c a b = true <-> bits c a = bits c b).
Proof. exact equal_spec. Qed.
Print Assumptions bitv_equal.

Theorem bitv_count : forall c v, bitvCount c v = countTrue (bits c v).
Proof. exact count_spec. Qed.
Print Assumptions bitv_count.

Theorem bitv_count_to : forall c v n, (n <= nbits c)%nat ->
  bitvCountTo c v n = countTrue (firstn n (bits c v)).
Proof. exact countTo_spec. Qed.
Print Assumptions bitv_count_to.

Theorem bitv_max : forall c v,
  (bitvMax c v = -1 /\ forall i, (i < nbits c)%nat -> bitvTest c v i = false) \/
  (exists m, bitvMax c v = Z.of_nat m /\ (m < nbits c)%nat /\ bitvTest c v m = true /\
             forall i, (m < i < nbits c)%nat -> bitvTest c v i = false).
Proof. exact max_spec. Qed.
Print Assumptions bitv_max.

Theorem bitv_unique1 : forall c v org lim,
  let r := bitvUnique1IndexInRange c v org lim in
  let k := countTrue (map (bitvTest c v) (seq org (lim - org))) in
  (r = -1 /\ k <> 1%nat) \/
  (k = 1%nat /\ exists m, r = Z.of_nat m /\ (org <= m < lim)%nat /\ bitvTest c v m = true).
Proof. exact unique_spec. Qed.
Print Assumptions bitv_unique1.

Theorem bitv_from_int : forall c fresh n, wfc c -> length fresh = nwords c ->
  bits c (bitvFromInt c fresh n) = map (fun i => Z.testbit n (Z.of_nat i)) (seq 0 (nbits c)).
Proof. exact fromInt_spec. Qed.
Print Assumptions bitv_from_int.

Theorem bitv_to_int : forall c fresh n, wfc c -> length fresh = nwords c ->
  bitvToInt c (bitvFromInt c fresh n) = n mod 2 ^ Z.of_nat (nbits c).
Proof. exact toInt_fromInt. Qed.
Print Assumptions bitv_to_int.

(* resize keeps the old elements (values only; storage is not modelled) *)
Theorem bitv_resize_keeps : forall newc oldc fresh b ix, wfc oldc -> length b = nwords oldc ->
  (ix < nbits oldc)%nat ->
  bitvTest newc (bitvResize newc oldc fresh b) ix = bitvTest oldc b ix.
Proof. exact resize_spec. Qed.
Print Assumptions bitv_resize_keeps.

(* the printers bitvToString / bitvPrint: the text is "[", one digit per element with a space after every
   fifth, "]"; reading the digits back gives exactly the set, so two vectors print alike iff they are the
   same set (unused bits of the last word never show), for every length *)
Theorem bitv_print_reads_back : forall c a, unprint (bitvToString c a) = bits c a.
Proof. exact toString_reads_back. Qed.
Print Assumptions bitv_print_reads_back.

Theorem bitv_print_length : forall c a, length (bitvToString c a) = (2 + nbits c + nbits c / 5)%nat.
Proof. exact toString_length. Qed.
Print Assumptions bitv_print_length.

Theorem bitv_print_injective : forall c a b, bitvToString c a = bitvToString c b <-> bits c a = bits c b.
Proof. exact toString_inj. Qed.
Print Assumptions bitv_print_injective.

Theorem bitv_print_file : forall c a,
  fst (bitvPrint c a) = bitvToString c a /\ snd (bitvPrint c a) = length (bitvToString c a).
Proof. exact print_is_toString. Qed.
Print Assumptions bitv_print_file.

(* cardinalities across the algebra (inclusion-exclusion, difference, complement), for any length and any
   content of the unused bits *)
Theorem bitv_count_algebra : forall c a b, wfc c ->
  (bitvCount c (bitvOr c a b) + bitvCount c (bitvAnd c a b) = bitvCount c a + bitvCount c b)%nat /\
  (bitvCount c (bitvMinus c a b) + bitvCount c (bitvAnd c a b) = bitvCount c a)%nat /\
  (bitvCount c (bitvNot c a) + bitvCount c a = nbits c)%nat.
Proof. exact count_algebra. Qed.
Print Assumptions bitv_count_algebra.

(* vectors that bitvEqual accepts cannot be told apart by test, count, count-to or the printers *)
Theorem bitv_equal_observational : forall c a b, wfc c -> wfv c a -> wfv c b -> bitvEqual c a b = true ->
  (bitvCount c a = bitvCount c b)%nat /\ (bitvToString c a = bitvToString c b :> list pch) /\
  (forall n, (n <= nbits c)%nat -> bitvCountTo c a n = bitvCountTo c b n) /\
  (forall i, (i < nbits c)%nat -> bitvTest c a i = bitvTest c b i).
Proof. exact equal_observational. Qed.
Print Assumptions bitv_equal_observational.
