(* Property C08 - supporting lemmas (the property itself is decided by metamorphic runs).
   Statements, `exact`, Print Assumptions only.  Proofs: AV.Determ.Facts. *)
From Coq Require Import ZArith List Permutation.
Require Import AV.Determ.Model AV.Determ.Facts.
Import ListNotations.
Local Open Scope Z_scope.

(* A pointer-keyed table visits exactly the inserted entries, whatever the addresses... *)
Theorem C08_table_iter_perm : forall (item : Type) (addr : item -> Z) (nb : Z) (items : list item),
  0 < nb -> Permutation (iter item addr nb items) items.
Proof. exact (fun item addr nb items H => iter_perm item addr nb H items). Qed.
Print Assumptions C08_table_iter_perm.

(* ... but in an order that depends on them: *)
Theorem C08_iter_order_addr_dependent :
  exists (addr1 addr2 : Z -> Z) (items : list Z), iter Z addr1 2 items <> iter Z addr2 2 items.
Proof. exact iter_order_addr_dependent. Qed.
Print Assumptions C08_iter_order_addr_dependent.

(* Ordering the visited entries by a content key that is unique per entry removes the
   dependence, for every pair of address assignments and table sizes. *)
Theorem C08_sorted_emit_addr_indep : forall (item : Type) (key : item -> Z) (addr1 addr2 : item -> Z)
  (nb1 nb2 : Z) (items : list item), 0 < nb1 -> 0 < nb2 -> NoDup (map key items) ->
  sort_by item key (iter item addr1 nb1 items) = sort_by item key (iter item addr2 nb2 items).
Proof. exact sorted_emit_addr_indep. Qed.
Print Assumptions C08_sorted_emit_addr_indep.

Example ex_nonvacuous : NoDup (map (fun x : Z => x) [5; 3; 9]) /\
  sort_by Z (fun x => x) (iter Z (fun x => x * 7) 4 [5; 3; 9]) = [3; 5; 9].
Proof. split; [repeat constructor; cbn; intuition discriminate|vm_compute; reflexivity]. Qed.
