(* C16 - Generated C is valid under every C-generation option: the part that is a theorem.

   Proved for ALL names of any length over the bytes 1..255; injectivity is stated for PRINTABLE names
   (every character has an escape or is alphanumeric): genc.c drops every other byte (blank, control
   characters, bytes >= 127), so names differing only in dropped bytes are separated by the hash prefix
   alone.  Everything is over the escape table, VAR_HASH, strHash constants, default limit and caller
   tags regenerated from the current genc.c / strops.c (AV.Gen.CNameTbl).

   The property's sentence "distinct program entities ... never end up with the same C name" is NOT
   a theorem of this code and cannot be one: global names keep 22 characters of the encoding and a
   residue of strHash modulo VAR_HASH (< 2^26), so by pigeonhole some distinct names share a C name.
   What holds is `global_collision_needs_hash_collision_partial` (a collision needs equal residues
   AND equal truncated encodings); the check therefore also tests the actual name sets of every
   generated program, and `global_names_distinct_refuted` / `module_init_names_distinct_refuted`
   keep two concrete counterexamples as checked statements.
   Not modelled: ccode.c printing, file splitting (emit.c), gcc - end-to-end runs only. *)
Require Import NArith List.
Require Import AV.CName.Model AV.CName.Facts AV.Gen.CNameTbl AV.CName.Current.
Require Import AV.CSplit.Model AV.CSplit.Facts AV.Gen.CSplitOps AV.CSplit.Current.
Import ListNotations.
Local Open Scope N_scope.

(* the escape table of the current genc.c is a prefix code on the printable characters *)
Theorem prefix_code : prefix_code_ok tbl = true.
Proof. exact prefix_code_current. Qed.
Print Assumptions prefix_code.

(* the encoder is injective on printable names of any length *)
Theorem enc_injective : forall s1 s2,
  Forall printable s1 -> Forall printable s2 -> enc s1 = enc s2 -> s1 = s2.
Proof. exact Current.enc_injective. Qed.
Print Assumptions enc_injective.

(* every mangled name matches [A-Za-z_][A-Za-z0-9_]* and is not a C keyword *)
Theorem enc_is_c_identifier : forall idlen idhash t i b,
  global_tag t \/ tag_ok idlen t ->
  c_identifier (mangle idlen idhash t i b) /\ ~ In (mangle idlen idhash t i b) c_keywords.
Proof. exact Current.enc_is_c_identifier. Qed.
Print Assumptions enc_is_c_identifier.

(* the tags genc.c passes satisfy the hypothesis above at every limit >= the default (and at 0) *)
Theorem caller_tags_ok : forall idlen t, In t tags -> idlen = 0 \/ idlen_default <= idlen ->
  global_tag t \/ tag_ok idlen t.
Proof. exact Current.caller_tags_ok. Qed.
Print Assumptions caller_tags_ok.

(* names made from a tag and an index differ as soon as (tag, index) differ, whatever the names *)
Theorem local_names_distinct : forall idlen idhash t1 i1 b1 t2 i2 b2,
  tag_ok idlen t1 -> tag_ok idlen t2 -> i1 < 2 ^ 31 -> i2 < 2 ^ 31 ->
  (t1, i1) <> (t2, i2) ->
  mangle idlen idhash t1 i1 b1 <> mangle idlen idhash t2 i2 b2.
Proof. exact Current.local_names_distinct. Qed.
Print Assumptions local_names_distinct.

(* a (tag, index) name with an alphabetic tag is never equal to a global name *)
Theorem local_global_distinct : forall idlen idhash idlen' idhash' t i b a j s,
  tag_ok idlen t -> Forall (fun c => is_alpha c = true) t -> global_tag a ->
  mangle idlen idhash t i b <> mangle idlen' idhash' a j s.
Proof. exact Current.local_global_distinct. Qed.
Print Assumptions local_global_distinct.

(* idlen = 0: distinct (tag, name) give distinct global names, with or without the hash prefix *)
Theorem global_distinct_no_trunc : forall idhash a1 a2 i1 i2 s1 s2,
  global_tag a1 -> global_tag a2 -> Forall printable s1 -> Forall printable s2 ->
  (a1, s1) <> (a2, s2) ->
  mangle 0 idhash a1 i1 s1 <> mangle 0 idhash a2 i2 s2.
Proof. exact Current.global_distinct_no_trunc. Qed.
Print Assumptions global_distinct_no_trunc.

(* any limit: names whose whole encoding fits are never confused *)
Theorem global_distinct_when_fits : forall idlen idhash a i1 i2 s1 s2,
  global_tag a -> Forall printable s1 -> Forall printable s2 ->
  (idlen = 0 \/ len a + 7 + len (enc s1) <= idlen /\ len a + 7 + len (enc s2) <= idlen) ->
  s1 <> s2 -> mangle idlen idhash a i1 s1 <> mangle idlen idhash a i2 s2.
Proof. exact Current.global_distinct_when_fits. Qed.
Print Assumptions global_distinct_when_fits.

(* PARTIAL (see header): with truncation and the hash prefix, one C name for two entities needs the
   same tag, the same residue of strHash modulo VAR_HASH and the same truncated encoding *)
Theorem global_collision_needs_hash_collision_partial : forall idlen a1 a2 i1 i2 s1 s2,
  global_tag a1 -> global_tag a2 ->
  mangle idlen true a1 i1 s1 = mangle idlen true a2 i2 s2 ->
  a1 = a2 /\ residue s1 = residue s2 /\
  valid_id idlen (len a1 + 2 + len (id_hash s1)) s1 = valid_id idlen (len a1 + 2 + len (id_hash s1)) s2.
Proof. exact Current.global_collision_needs_hash_collision_partial. Qed.
Print Assumptions global_collision_needs_hash_collision_partial.

(* truncation yields the complete encoding of a prefix of the name (no escape is cut), stops only at
   the end or before a character whose escape would cross the limit, and stays within the limit *)
Theorem no_split_escape : forall idlen pos s,
  (exists n, valid_id idlen pos s = enc (firstn n s) /\
     (n = List.length s \/
      exists c, nth_error s n = Some c /\ idlen <> 0 /\ idlen < pos + len (enc (firstn n s)) + len (cw c))) /\
  (idlen <> 0 -> pos <= idlen -> pos + len (valid_id idlen pos s) <= idlen).
Proof. exact Current.no_split_escape. Qed.
Print Assumptions no_split_escape.

(* REFUTED full-strength statements, kept as checked facts about the code as it is *)
Theorem global_names_distinct_refuted :
  collide1 <> collide2 /\ Forall printable collide1 /\ Forall printable collide2 /\
  mangle idlen_default true tagG 0 collide1 = mangle idlen_default true tagG 0 collide2.
Proof. exact Current.global_names_distinct_refuted. Qed.
Print Assumptions global_names_distinct_refuted.

Theorem module_init_names_distinct_refuted :
  In init_tag tags /\ unit_one <> unit_two /\
  mangle idlen_default idhash_default init_tag 0 unit_one = mangle idlen_default idhash_default init_tag 0 unit_two.
Proof. exact Current.module_init_names_distinct_refuted. Qed.
Print Assumptions module_init_names_distinct_refuted.

(* ------------------------------------------------------------------ file splitting (-Csmax)
   Model of gc0ExternDecls' piece loop, gc0OverSMax and emitTheC's reading of the list (CSplit/Model.v),
   over the comparison operators read from the current genc.c / emit.c (Gen/CSplitOps.v); for ALL lists of
   top-level definitions whose definition 0 is the initialisation Prog (`init_first`, which the C relies
   on: nDefs >= 1) and ALL limits.  Not modelled: what is printed into each part (declarations, extern
   versus static, the INIT functions' bodies) - end-to-end only. *)

(* every definition lands in exactly one part, in the original order: the pieces in order, then the
   last part (definition 0 at its head), enumerate 0 .. D-1 *)
Theorem split_partition_order : forall smax ds, init_first ds ->
  let s := csplit smax ds in
  concat (l_pieces s) ++ l_rest s ++ l_glo s = tl (indexed ds) /\
  0%nat :: map fst (concat (l_pieces s) ++ l_rest s ++ l_glo s) = seq 0 (List.length ds).
Proof. exact Current.split_partition_order. Qed.
Print Assumptions split_partition_order.

(* the three notions of `is split` agree: no piece <-> gc0OverSMax() false <-> emitTheC writes one file;
   when split the header is the first list element and the only thing written to <unit>.h; when not
   split the single part carries the header *)
Theorem split_notions_agree : forall smax ds,
  let s := csplit smax ds in
  (l_pieces s = [] <-> l_over s = false) /\
  emit_is_split split_ops (l_elems s) = l_over s /\
  (l_over s = true -> exists rest, cemit (l_elems s) = (HFile, Header) :: rest /\ forall e, In (HFile, e) rest -> False) /\
  (l_over s = false -> exists defs, cemit (l_elems s) = [(CFile 0, Main true defs)]).
Proof. exact Current.split_notions_agree. Qed.
Print Assumptions split_notions_agree.

(* split exactly when the guessed statement count exceeds a positive limit *)
Theorem over_smax_meaning : forall smax ds,
  l_over (csplit smax ds) = true <-> 0 < smax /\ smax < n_stmts ds.
Proof. exact Current.over_smax_meaning. Qed.
Print Assumptions over_smax_meaning.

(* the limit as the code intends it: within a piece everything before its last definition costs less
   than smax (a piece may overshoot by its last definition only; the last part is not limited) *)
Theorem split_respects_limit : forall smax ds p, In p (l_pieces (csplit smax ds)) ->
  forall q x t, p = q ++ x :: t -> sum_cost q < smax.
Proof. exact Current.split_respects_limit. Qed.
Print Assumptions split_respects_limit.

(* number of pieces before the last part: ceil(nStmts / smax) - 1 *)
Theorem split_piece_count : forall smax ds, 0 < smax ->
  List.length (l_pieces (csplit smax ds)) = N.to_nat ((n_stmts ds - 1) / smax).
Proof. exact Current.split_piece_count. Qed.
Print Assumptions split_piece_count.
