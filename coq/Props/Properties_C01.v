(* C01 -- Programs produce the result the language defines.
   The reference semantics (AV.Mini) is the oracle; these theorems say that the oracle is
   well defined on the whole generated family and independent of the fuel.  Equality with
   the compiler is the correspondence run of props/c01.py.                               *)
Require Import List ZArith String.
Require Import AV.Mini.Syntax AV.Mini.Types AV.Mini.Eval AV.Mini.Gen.
Require Import AV.Mini.Facts AV.Mini.Sound AV.Mini.GenFacts.

Theorem eval_fuel_mono : forall f f' p out st,
    eval f p = Done out st -> f <= f' -> eval f' p = Done out st.
Proof. exact eval_fuel_mono_lemma. Qed.
Print Assumptions eval_fuel_mono.

Theorem typecheck_sound : forall p, typecheck p = true -> forall f, eval f p <> Stuck.
Proof. exact typecheck_sound_lemma. Qed.
Print Assumptions typecheck_sound.

Theorem gen_well_typed : forall seed size, typecheck (gen seed size) = true.
Proof. exact gen_well_typed_lemma. Qed.
Print Assumptions gen_well_typed.

Theorem gen_terminates : forall seed size, exists fuel, eval fuel (gen seed size) <> OutOfFuel.
Proof. exact gen_terminates_lemma. Qed.
Print Assumptions gen_terminates.

(* expected_defined / gen_total_ub_free: every generated program has an expected output and
   status; in particular it never reaches an operation the definition leaves open (Undef). *)
Theorem expected_defined : forall seed size, exists out st, eval gen_fuel (gen seed size) = Done out st.
Proof. exact gen_defined_lemma. Qed.
Print Assumptions expected_defined.

Theorem expected_unique : forall seed size f out st out' st',
    eval gen_fuel (gen seed size) = Done out st ->
    gen_fuel <= f -> eval f (gen seed size) = Done out' st' -> out = out' /\ st = st'.
Proof. exact gen_result_unique_lemma. Qed.
Print Assumptions expected_unique.
