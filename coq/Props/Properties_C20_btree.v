(* C20, B-tree part: "for every sequence of operations the B-tree behaves as an ordered multimap".
   Model: AV.BTree.Model (btree.c function for function; CLRS B-tree of minimum degree t, duplicates kept).
   wfb t x = well-formed: key counts (root <= 2t-1, at least 1 if not a leaf; others t-1..2t-1), a non-leaf
   with n keys has n+1 branches, all leaves at the same depth, in-order contents `elements x` sorted by key.
   btreeNew is well-formed and every operation preserves wfb, so the statements below apply to every state
   reachable by any history of inserts and deletes (2 <= t: 2, 3, 16, ...). *)
Require Import ZArith List Permutation.
Require Import AV.BTree.Model AV.BTree.Facts AV.BTree.FactsIns AV.BTree.FactsDel AV.BTree.FactsSearch
               AV.BTree.FactsCheck.
Import ListNotations.
Local Open Scope Z_scope.

(* insert = sorted insertion into the in-order contents (duplicates kept; the place among equal keys is the
   one the code picks: `inserted` says old = l1 ++ l2, new = l1 ++ (k,e) :: l2, l1 <= k <= l2) *)
Theorem btree_insert_refines :
  forall t : nat, (2 <= t)%nat -> forall (k : key) (e : entry) (x : bt), wfb t x ->
    exists x', btreeInsert t x k e = Some x' /\ wfb t x' /\ inserted k e (elements x) (elements x').
Proof. exact insert_refines. Qed.
Print Assumptions btree_insert_refines.

(* delete: a present key loses exactly one occurrence (k, v), v is what *pe receives
   (`deleted k (Some v) old new` = Permutation old ((k,v) :: new)); an absent key leaves the contents
   unchanged and *pe unwritten (`deleted k None old new` = new = old /\ k not a key of old);
   the result is well-formed (in particular still sorted) *)
Theorem btree_delete_refines :
  forall t : nat, (2 <= t)%nat -> forall (x : bt) (k : key), wfb t x ->
    exists x' pe, btreeDelete t x k = Some (x', pe) /\ wfb t x' /\ deleted k pe (elements x) (elements x').
Proof. exact delete_refines. Qed.
Print Assumptions btree_delete_refines.

Theorem btree_delete_present :
  forall t : nat, (2 <= t)%nat -> forall (x : bt) (k : key), wfb t x -> In k (map fst (elements x)) ->
    exists x' v, btreeDelete t x k = Some (x', Some v) /\ wfb t x' /\
                 Permutation (elements x) ((k, v) :: elements x').
Proof. exact delete_present. Qed.
Print Assumptions btree_delete_present.

Theorem btree_delete_absent :
  forall t : nat, (2 <= t)%nat -> forall (x : bt) (k : key), wfb t x -> ~ In k (map fst (elements x)) ->
    exists x', btreeDelete t x k = Some (x', None) /\ wfb t x' /\ elements x' = elements x.
Proof. exact delete_absent. Qed.
Print Assumptions btree_delete_absent.

(* with pairwise distinct keys the statement is an equality of lists *)
Theorem btree_delete_distinct :
  forall (t : nat) (x : bt) (k : key), (2 <= t)%nat -> wfb t x -> NoDup (map fst (elements x)) ->
    exists x' pe, btreeDelete t x k = Some (x', pe) /\ wfb t x' /\
                  elements x' = filter (fun p => negb (fst p =? k)) (elements x) /\
                  pe = option_map snd (find (fun p => fst p =? k) (elements x)).
Proof. exact delete_distinct. Qed.
Print Assumptions btree_delete_distinct.

(* btreeSearchEQ finds a key iff it is present *)
Theorem btree_searchEQ_finds_iff_present :
  forall t : nat, (2 <= t)%nat -> forall (x : bt) (k : key), wfb t x ->
    (In k (map fst (elements x)) ->
       exists y j, btreeSearchEQ x k = SFound y (Z.of_nat j) /\ (j < nKeys y)%nat /\
                   fst (nth j (keysOf y) dkv) = k /\ In (nth j (keysOf y) dkv) (elements x)) /\
    (~ In k (map fst (elements x)) -> btreeSearchEQ x k = SNotFound).
Proof. exact searchEQ_finds_iff_present. Qed.
Print Assumptions btree_searchEQ_finds_iff_present.

(* btreeSearchGE returns an entry with the least key >= k, or nothing when all keys are < k *)
Theorem btree_searchGE_least :
  forall t : nat, (2 <= t)%nat -> forall (x : bt) (k : key), wfb t x ->
    (exists y j, btreeSearchGE x k = SFound y (Z.of_nat j) /\ (j < nKeys y)%nat /\
                 In (nth j (keysOf y) dkv) (elements x) /\ k <= fst (nth j (keysOf y) dkv) /\
                 forall q, In q (elements x) -> k <= fst q -> fst (nth j (keysOf y) dkv) <= fst q)
    \/ (btreeSearchGE x k = SNotFound /\ forall q, In q (elements x) -> fst q < k).
Proof. exact searchGE_least. Qed.
Print Assumptions btree_searchGE_least.

Theorem btree_searchMin_is_min :
  forall t : nat, (2 <= t)%nat -> forall x : bt, wfb t x -> (1 <= nKeys x)%nat ->
    exists y j l, btreeSearchMin x = SFound y j /\ elements x = nth (Z.to_nat j) (keysOf y) dkv :: l.
Proof. exact searchMin_is_min. Qed.
Print Assumptions btree_searchMin_is_min.

Theorem btree_searchMax_is_max :
  forall t : nat, (2 <= t)%nat -> forall x : bt, wfb t x -> (1 <= nKeys x)%nat ->
    exists y j l, btreeSearchMax x = SFound y j /\ elements x = l ++ [nth (Z.to_nat j) (keysOf y) dkv].
Proof. exact searchMax_is_max. Qed.
Print Assumptions btree_searchMax_is_max.

(* btreeNew is well-formed and empty; a well-formed tree passes btreeCheck *)
Theorem btree_new_wf : forall t : nat, wfb t btreeNew /\ elements btreeNew = [].
Proof. exact new_wf. Qed.
Print Assumptions btree_new_wf.

Theorem btree_wf_passes_check :
  forall t : nat, (2 <= t)%nat -> forall x : bt, wfb t x -> btreeCheck t x = 0.
Proof. exact wf_passes_check. Qed.
Print Assumptions btree_wf_passes_check.

(* every history: the contents after a history are those of the same history on a sorted list *)
Theorem btree_run_refines :
  forall t : nat, (2 <= t)%nat -> forall ops : list bop,
    exists x, brun t btreeNew ops = Some x /\ wfb t x /\ history_ok ops (elements x).
Proof. exact run_refines. Qed.
Print Assumptions btree_run_refines.
