(* C20, part "priq": the array heap of priq.c.  Keys are integers in the model (any total
   order; NaN doubles are outside it); extraction from an EMPTY queue is excluded: the C guard
   tests pq->size (never 0) instead of pq->argc, so the C does not reject it (reported). *)
Require Import ZArith List Bool Permutation.
Import ListNotations.
Require Import AV.PriQ.Model AV.PriQ.Facts.
Local Open Scope Z_scope.

(* a new queue is a well-formed empty heap with 1 <= size *)
Theorem priq_new_ok : forall g, inv (priqNew g) /\ argv (priqNew g) = [].
Proof. exact priqNew_inv. Qed.
Print Assumptions priq_new_ok.

(* size is the least power of two >= argcGuess (for the guesses on which cielLg terminates) *)
Theorem priq_new_size : forall g, g <= 2 ^ 63 ->
  g <= 2 ^ Z.of_nat (cielLg g) /\ (forall k, (k < cielLg g)%nat -> 2 ^ Z.of_nat k < g).
Proof. exact cielLg_spec. Qed.
Print Assumptions priq_new_size.

(* insert: heap order kept, contents = old contents + the new part, the written slot lies inside
   the allocation (argc < size after the doubling test), size stays or doubles *)
Theorem priq_insert_refines : forall q k e, inv q ->
  inv (priqInsert q k e) /\ Permutation (argv (priqInsert q k e)) ((k, e) :: argv q) /\
  argc q < size (priqInsert q k e) /\
  (size (priqInsert q k e) = size q \/ size (priqInsert q k e) = 2 * size q).
Proof. exact priqInsert_spec. Qed.
Print Assumptions priq_insert_refines.

(* extract: returns a part with a minimum key of the current multiset, removes exactly it *)
Theorem priq_extract_is_min : forall q, inv q -> argv q <> [] ->
  exists q' m, priqExtractMin q = Some (q', m) /\ inv q' /\
    Permutation (m :: argv q') (argv q) /\ Forall (fun x => fst m <= fst x) (argv q) /\
    size q' = size q.
Proof. exact priqExtractMin_spec. Qed.
Print Assumptions priq_extract_is_min.

Theorem priq_peek_is_min : forall q, inv q -> argv q <> [] ->
  exists m, priqPeekMin q = Some m /\ In m (argv q) /\ Forall (fun x => fst m <= fst x) (argv q).
Proof. exact priqPeekMin_spec. Qed.
Print Assumptions priq_peek_is_min.

(* any interleaving of inserts / extracts / peeks from a new queue: the keys returned are those of
   the reference queue kept as a sorted list (RBad exactly when the reference is empty) *)
Theorem priq_extract_sequence_sorted : forall g ops,
  let '(q', rs) := run (priqNew g) ops in map keyOf rs = krun [] ops /\ inv q'.
Proof. exact run_refines. Qed.
Print Assumptions priq_extract_sequence_sorted.

(* ... and the payloads are conserved: extracted ++ still queued is a permutation of inserted *)
Theorem priq_multiset_preserved : forall g ops,
  let '(q', rs) := run (priqNew g) ops in
  Permutation (extracted ops rs ++ argv q') (inserted ops).
Proof. exact run_conserves. Qed.
Print Assumptions priq_multiset_preserved.

(* priqCheck: sound, but it calls bug() on legitimate heaps with equal keys on an edge *)
Theorem priq_check_sound : forall h, heapCheck h = true -> wfheap h.
Proof. exact heapCheck_sound. Qed.
Print Assumptions priq_check_sound.

Theorem priq_check_complete_refuted :
  exists h, wfheap h /\ h = heapInsert (heapInsert [] 1 10) 1 11 /\ heapCheck h = false.
Proof. exact heapCheck_incomplete. Qed.
Print Assumptions priq_check_complete_refuted.
