(* C05 -- Saved intermediate forms and separate compilation lose nothing.
   Model: Foam/Buf.v, Foam/Syntax.v, Foam/Codec.v, Foam/LibHdr.v over the table and
   constants generated from the current foam.c / foam.h / lib.c / lib.h (Gen/FoamInfo.v).
   Witnesses for the hypotheses: Foam/Current.v (ex_node_wf, ex_node_not_canonical,
   ex_node_roundtrip, ex_sint_min, ex_lunit_wf, ex_hdr_wf). *)
Require Import ZArith List.
Require Import AV.Foam.Buf AV.Foam.Syntax AV.Foam.Codec AV.Foam.SExpr AV.Foam.SLex AV.Foam.LibHdr AV.Gen.FoamInfo AV.Foam.Current.
Import ListNotations.
Local Open Scope Z_scope.

(* foamFrBuffer (foamToBuffer n) = the normal form of n, for every node of any
   size and nesting, whatever follows in the buffer, for every state of the
   label-format latch; the latch after decoding equals the latch after encoding *)
Theorem dec_enc : forall (st : Z) (n : node) (rest : bytes),
  wf FP st n = true ->
  dec FP st (fst (enc FP st n) ++ rest) = Some (canon FP n, rest, snd (enc FP st n)).
Proof. exact dec_enc_current. Qed.
Print Assumptions dec_enc.

(* the portable re-expression of an integer wider than 31 bits denotes the
   same 64-bit value (64-bit meaning of SIntShiftUp / SIntOr / SIntNegate), SIntMin included *)
Theorem sintreduce_value : forall v : Z,
  is_int64 v -> eval_sint FP (sint_reduce FP v) = Some v.
Proof. exact sintreduce_value_current. Qed.
Print Assumptions sintreduce_value.

(* loading normalises once: a loaded unit is already in normal form *)
Theorem canon_idempotent : forall n : node, canon FP (canon FP n) = canon FP n.
Proof. exact canon_idempotent_current. Qed.
Print Assumptions canon_idempotent.

(* hence re-saving a loaded unit is byte-identical (and leaves the same latch) *)
Theorem resave_identical : forall (st : Z) (n : node), enc FP st (canon FP n) = enc FP st n.
Proof. exact resave_identical_current. Qed.
Print Assumptions resave_identical.

(* the library header: reading what libPutHeader wrote gives the header back *)
Theorem hdr_roundtrip : forall (h : hdr) (rest : bytes),
  wf_hdr LP h -> parse_hdr LP (write_hdr h ++ rest) = Some (h, rest).
Proof. exact hdr_roundtrip_current. Qed.
Print Assumptions hdr_roundtrip.

(* the section table the writer builds passes libChkHeader (first offset = header
   size, each offset = previous offset + previous length), the last section ends
   exactly at the end of the file, and libGetSection returns every section byte for byte *)
Theorem sections_contiguous : forall u : lunit,
  wf_lunit LP u ->
  chk_header LP (mk_hdr LP u) = ChkOk /\
  (let h := mk_hdr LP u in
   let sl := nth (Z.to_nat (h_num h - 1)) (h_sects h) (dflt_sect LP) in
   s_off sl + s_len sl = Z.of_nat (length (write_lib LP u))) /\
  (forall pre n c post, u = pre ++ (n, c) :: post ->
     get_section LP (mk_hdr LP u) (write_lib LP u) n = Content c).
Proof. exact sections_contiguous_current. Qed.
Print Assumptions sections_contiguous.

(* ---- the text form (.fm).  Witnesses: Current.ex_text_wf, ex_text_not_canonical, ex_text_roundtrip. *)

(* foamFrSExpr (sxiRead (text of n)) = n with the 'w' field (syme index) of every Decl at -1 (the
   writer prints -1 there; a GDecl keeps its return type), for every tree, whatever follows in the token stream and whatever the
   identifier context (the fex variables) the writer is in *)
Theorem sexpr_roundtrip : forall (c : ctx) (n : node) (rest : list token),
  wf_text FP TP n = true -> rd FP TP (wr FP TP c n ++ rest) = Some (tcanon FP n, rest).
Proof. exact sexpr_roundtrip_current. Qed.
Print Assumptions sexpr_roundtrip.

(* re-saving a loaded .fm reproduces it token for token (identifier symbols included) *)
Theorem resave_text : forall (c : ctx) (n : node),
  wf_text FP TP n = true -> wr FP TP c (tcanon FP n) = wr FP TP c n.
Proof. exact resave_text_current. Qed.
Print Assumptions resave_text.

(* the spelling of the atoms: integers of any width and strings with any bytes read back as written *)
Theorem int_atom_roundtrip : forall z : Z, rd_int (pr_int z) = Some z.
Proof. exact rd_pr_int. Qed.
Print Assumptions int_atom_roundtrip.

Theorem str_atom_roundtrip : forall (s rest : bytes), rd_str (pr_str s ++ rest) = Some (s, rest).
Proof. exact rd_pr_str. Qed.
Print Assumptions str_atom_roundtrip.
