(* C05 -- Saved intermediate forms and separate compilation lose nothing.
   Model: Foam/Buf.v, Foam/Syntax.v, Foam/Codec.v, Foam/LibHdr.v over the table and
   constants generated from the current foam.c / foam.h / lib.c / lib.h (Gen/FoamInfo.v).
   Witnesses for the hypotheses: Foam/Current.v (ex_node_wf, ex_node_not_canonical,
   ex_node_roundtrip, ex_sint_min, ex_lunit_wf, ex_hdr_wf). *)
Require Import ZArith List.
Require Import AV.Foam.Buf AV.Foam.Syntax AV.Foam.Codec AV.Foam.LibHdr AV.Gen.FoamInfo AV.Foam.Current.
Import ListNotations.
Local Open Scope Z_scope.

(* foamFrBuffer (foamToBuffer n) = the normal form of n, for every node of any
   size and nesting, whatever follows in the buffer, for every state of the
   label-format latch; the latch after decoding equals the latch after encoding *)
Theorem dec_enc : forall (st : Z) (n : node) (rest : bytes),
  wf FP st n = true ->
  dec FP st (fst (enc FP st n) ++ rest) = Some (canon FP n, rest, snd (enc FP st n)).
Proof. exact dec_enc_current. Qed.
Print Assumptions dec_enc.

(* the portable re-expression of an integer wider than 31 bits denotes the
   same 64-bit value (64-bit meaning of SIntShiftUp / SIntOr / SIntNegate), SIntMin included *)
Theorem sintreduce_value : forall v : Z,
  is_int64 v -> eval_sint FP (sint_reduce FP v) = Some v.
Proof. exact sintreduce_value_current. Qed.
Print Assumptions sintreduce_value.

(* loading normalises once: a loaded unit is already in normal form *)
Theorem canon_idempotent : forall n : node, canon FP (canon FP n) = canon FP n.
Proof. exact canon_idempotent_current. Qed.
Print Assumptions canon_idempotent.

(* hence re-saving a loaded unit is byte-identical (and leaves the same latch) *)
Theorem resave_identical : forall (st : Z) (n : node), enc FP st (canon FP n) = enc FP st n.
Proof. exact resave_identical_current. Qed.
Print Assumptions resave_identical.

(* the library header: reading what libPutHeader wrote gives the header back *)
Theorem hdr_roundtrip : forall (h : hdr) (rest : bytes),
  wf_hdr LP h -> parse_hdr LP (write_hdr h ++ rest) = Some (h, rest).
Proof. exact hdr_roundtrip_current. Qed.
Print Assumptions hdr_roundtrip.

(* the section table the writer builds passes libChkHeader (first offset = header
   size, each offset = previous offset + previous length), the last section ends
   exactly at the end of the file, and libGetSection returns every section byte for byte *)
Theorem sections_contiguous : forall u : lunit,
  wf_lunit LP u ->
  chk_header LP (mk_hdr LP u) = ChkOk /\
  (let h := mk_hdr LP u in
   let sl := nth (Z.to_nat (h_num h - 1)) (h_sects h) (dflt_sect LP) in
   s_off sl + s_len sl = Z.of_nat (length (write_lib LP u))) /\
  (forall pre n c post, u = pre ++ (n, c) :: post ->
     get_section LP (mk_hdr LP u) (write_lib LP u) n = Content c).
Proof. exact sections_contiguous_current. Qed.
Print Assumptions sections_contiguous.
