(* C05 -- Saved intermediate forms and separate compilation lose nothing.
   Model: Foam/Buf.v, Foam/Syntax.v, Foam/Codec.v, Foam/LibHdr.v over the table and
   constants generated from the current foam.c / foam.h / lib.c / lib.h (Gen/FoamInfo.v).
   Witnesses for the hypotheses: Foam/Current.v (ex_node_wf, ex_node_not_canonical,
   ex_node_roundtrip, ex_sint_min, ex_lunit_wf, ex_hdr_wf). *)
Require Import ZArith List.
Require String.
Require Import AV.XFloat.TextModel AV.XFloat.TextFacts.
Require Import AV.Foam.Buf AV.Foam.Syntax AV.Foam.Codec AV.Foam.SExpr AV.Foam.SLex AV.Foam.SFlo AV.Foam.LibHdr AV.Foam.LibSect AV.Foam.LibSectFacts AV.Gen.FoamInfo AV.Foam.Current.
Import ListNotations.
Local Open Scope Z_scope.

(* foamFrBuffer (foamToBuffer n) = the normal form of n, for every node of any
   size and nesting, whatever follows in the buffer, for every state of the
   label-format latch; the latch after decoding equals the latch after encoding *)
Theorem dec_enc : forall (st : Z) (n : node) (rest : bytes),
  wf FP st n = true ->
  dec FP st (fst (enc FP st n) ++ rest) = Some (canon FP n, rest, snd (enc FP st n)).
Proof. exact dec_enc_current. Qed.
Print Assumptions dec_enc.

(* the portable re-expression of an integer wider than 31 bits denotes the
   same 64-bit value (64-bit meaning of SIntShiftUp / SIntOr / SIntNegate), SIntMin included *)
Theorem sintreduce_value : forall v : Z,
  is_int64 v -> eval_sint FP (sint_reduce FP v) = Some v.
Proof. exact sintreduce_value_current. Qed.
Print Assumptions sintreduce_value.

(* loading normalises once: a loaded unit is already in normal form *)
Theorem canon_idempotent : forall n : node, canon FP (canon FP n) = canon FP n.
Proof. exact canon_idempotent_current. Qed.
Print Assumptions canon_idempotent.

(* hence re-saving a loaded unit is byte-identical (and leaves the same latch) *)
Theorem resave_identical : forall (st : Z) (n : node), enc FP st (canon FP n) = enc FP st n.
Proof. exact resave_identical_current. Qed.
Print Assumptions resave_identical.

(* the library header: reading what libPutHeader wrote gives the header back *)
Theorem hdr_roundtrip : forall (h : hdr) (rest : bytes),
  wf_hdr LP h -> parse_hdr LP (write_hdr h ++ rest) = Some (h, rest).
Proof. exact hdr_roundtrip_current. Qed.
Print Assumptions hdr_roundtrip.

(* the section table the writer builds passes libChkHeader (first offset = header
   size, each offset = previous offset + previous length), the last section ends
   exactly at the end of the file, and libGetSection returns every section byte for byte *)
Theorem sections_contiguous : forall u : lunit,
  wf_lunit LP u ->
  chk_header LP (mk_hdr LP u) = ChkOk /\
  (let h := mk_hdr LP u in
   let sl := nth (Z.to_nat (h_num h - 1)) (h_sects h) (dflt_sect LP) in
   s_off sl + s_len sl = Z.of_nat (length (write_lib LP u))) /\
  (forall pre n c post, u = pre ++ (n, c) :: post ->
     get_section LP (mk_hdr LP u) (write_lib LP u) n = Content c).
Proof. exact sections_contiguous_current. Qed.
Print Assumptions sections_contiguous.

(* ---- the text form (.fm).  Witnesses: Current.ex_text_wf, ex_text_not_canonical, ex_text_roundtrip. *)

(* foamFrSExpr (sxiRead (text of n)) = n with the 'w' field (syme index) of every Decl at -1 (the
   writer prints -1 there; a GDecl keeps its return type), for every tree, whatever follows in the token stream and whatever the
   identifier context (the fex variables) the writer is in *)
Theorem sexpr_roundtrip : forall (c : ctx) (n : node) (rest : list token),
  wf_text FP TP n = true -> rd FP TP (wr FP TP c n ++ rest) = Some (tcanon FP n, rest).
Proof. exact sexpr_roundtrip_current. Qed.
Print Assumptions sexpr_roundtrip.

(* re-saving a loaded .fm reproduces it token for token (identifier symbols included) *)
Theorem resave_text : forall (c : ctx) (n : node),
  wf_text FP TP n = true -> wr FP TP c (tcanon FP n) = wr FP TP c n.
Proof. exact resave_text_current. Qed.
Print Assumptions resave_text.

(* the spelling of the atoms: integers of any width and strings with any bytes read back as written *)
Theorem int_atom_roundtrip : forall z : Z, rd_int (pr_int z) = Some z.
Proof. exact rd_pr_int. Qed.
Print Assumptions int_atom_roundtrip.

Theorem str_atom_roundtrip : forall (s rest : bytes), rd_str (pr_str s ++ rest) = Some (s, rest).
Proof. exact rd_pr_str. Qed.
Print Assumptions str_atom_roundtrip.

(* float atoms (SFlo / DFlo), on C19's model of DFloatSprint + the exponent marker: every FINITE
   value reads back as written, for the 's' and the 'e' marker, +0.0 and -0.0 included.  libc's
   printf and the scanners are oracles; the hypotheses are C19's two (a 17-digit correctly rounded
   print/read is the identity; the reader reads the zero texts) and two about the marker.  Non-finite
   constants (folded arithmetic) are excluded by [finite64]: the listed C19 finding.
   Witness of the decision part: XFloat.TextFacts.ex_sprint_negzero, ex_sx_mark_zero, ex_sx_mark_exp. *)
Theorem flo_atom_roundtrip :
  forall (printf_g : String.string -> Z -> Z -> String.string) (strtod sx_scan : String.string -> option Z),
    g17_roundtrip printf_g strtod -> reader_reads_zero_text strtod ->
    printf_exponent_letter printf_g -> scanner_reads_marker strtod sx_scan ->
    forall (single : bool) (bits : Z), 0 <= bits < 2 ^ 64 -> finite64 bits = true ->
      sx_scan (pr_flo printf_g single bits) = Some bits.
Proof. exact AV.Foam.SFlo.flo_atom_roundtrip. Qed.
Print Assumptions flo_atom_roundtrip.

(* ---- contents of .ao sections beyond the FOAM byte code (the container -- header, section table,
   offsets, lengths, order, contiguity, libGetSection for all 17 section names -- is hdr_roundtrip /
   sections_contiguous above and the C17 theorems).  Witnesses: Current.ex_names_raw, ex_names_bytes,
   ex_names_cstrings. *)

(* LIB_Id: bufWrString / bufRdString *)
Theorem fileid_roundtrip : forall (s rest : bytes),
  is_cstring s -> Z.of_nat (length s) + 1 < 4294967296 ->
  dec_fileid (enc_fileid s ++ rest) = Some (s, rest).
Proof. exact AV.Foam.LibSectFacts.fileid_roundtrip. Qed.
Print Assumptions fileid_roundtrip.

(* LIB_Name: the list of syme names, with repeated symbols stored as back references, reads back as
   the same list (and the same count of top-level symes), whatever follows in the buffer *)
Theorem names_section_roundtrip : forall (topc : Z) (names : list bytes) (rest : bytes),
  Forall is_cstring names -> Z.of_nat (length names) < 65536 -> 0 <= topc < 65536 ->
  exists raw, dec_names (enc_names (names_to_raw topc names) ++ rest) = Some (raw, rest) /\
              names_of raw = Some names /\ n_topc raw = topc.
Proof. exact AV.Foam.LibSectFacts.names_section_roundtrip. Qed.
Print Assumptions names_section_roundtrip.

(* LIB_Kind (one byte per syme), LIB_Lazy ((index, library syme, type hash) records closed by symec),
   LIB_File ((index, kind, file name) records closed by symec) *)
Theorem kinds_roundtrip : forall (ks : list Z) (rest : bytes),
  Forall (fun k => 0 <= k < 256) ks ->
  dec_kinds (Z.of_nat (length ks)) (enc_kinds ks ++ rest) = Some (ks, rest).
Proof. exact AV.Foam.LibSectFacts.kinds_roundtrip. Qed.
Print Assumptions kinds_roundtrip.

Theorem lazy_section_roundtrip : forall (symec : Z) (rs : list (Z * Z * Z)),
  0 <= symec < 65536 ->
  Forall (fun r => 0 <= fst (fst r) < symec /\ 0 <= snd (fst r) < 65536 /\ 0 <= snd r < 4294967296) rs ->
  dec_lazy_sect symec (enc_lazy_sect symec rs) = Some (rs, []).
Proof. exact AV.Foam.LibSectFacts.lazy_section_roundtrip. Qed.
Print Assumptions lazy_section_roundtrip.

Theorem file_section_roundtrip : forall (symec : Z) (rs : list (Z * Z * bytes)),
  0 <= symec < 65536 ->
  Forall (fun r => 0 <= fst (fst r) < symec /\ 0 <= snd (fst r) < 256 /\ is_cstring (snd r)) rs ->
  dec_file_sect symec (enc_file_sect symec rs) = Some (rs, []).
Proof. exact AV.Foam.LibSectFacts.file_section_roundtrip. Qed.
Print Assumptions file_section_roundtrip.
