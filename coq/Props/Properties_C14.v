(* C14 — Parsing does not depend on layout: the lineariser (linear.c) part, proved on the model
   AV.Linear.Model for ALL token lists.  Statements only; proofs are in AV.Linear.Facts and
   AV.Linear.Grammar. *)
Require Import NArith List.
Require Import AV.Gen.TokenInfo AV.Linear.Model AV.Linear.Facts.
Import ListNotations.
Local Open Scope N_scope.

(* Any strictly monotone re-mapping f of columns (any indentation width / tab policy that keeps the
   order of the first-token columns) and any re-mapping g of line numbers commutes with linearize:
   same brackets, and every output token carries the re-mapped position of the same input token.
   Column 0 is "no position" (sposNone); scanner columns start at 1. *)
Theorem lin_monotone_reindent : forall (f g : N -> N),
  (forall a b, a < b -> f a < f b) -> f 0 = 0 ->
  forall ts, linearize (map (retok f g) ts) = option_map (map (retok f g)) (linearize ts).
Proof. exact lin_monotone_reindent_pos. Qed.
Print Assumptions lin_monotone_reindent.

(* ... for re-mappings given only on the columns the scanner produces (>= 1), up to positions *)
Theorem lin_monotone_reindent_scanner_columns : forall (f g : N -> N),
  (forall a b, 1 <= a -> a < b -> f a < f b) -> (forall a, 1 <= a -> 1 <= f a) ->
  forall ts, Forall (fun t => match tpos t with Some (_, c) => 1 <= c | None => True end) ts ->
  oerase (linearize (map (retok f g) ts)) = oerase (linearize ts).
Proof. exact lin_monotone_reindent_from1. Qed.
Print Assumptions lin_monotone_reindent_scanner_columns.

(* Inserting / deleting comment tokens anywhere and newline tokens at the beginning of a line
   (blank lines, comment-only lines; also directly after `#pile`), in any number and order,
   changes nothing at all. *)
Theorem lin_blank_comment_insens : forall a b, layout_eq a b -> linearize a = linearize b.
Proof. exact Facts.lin_blank_comment_insens. Qed.
Print Assumptions lin_blank_comment_insens.

(* ... and with the line numbers of the following tokens shifted by the inserted lines *)
Theorem lin_blank_comment_insens_relined : forall a b (g : N -> N),
  layout_eq a b ->
  oerase (linearize (map (retok (fun c => c) g) b)) = oerase (linearize a).
Proof. exact Facts.lin_blank_comment_insens_relined. Qed.
Print Assumptions lin_blank_comment_insens_relined.

(* Outside #pile the lineariser is a filter followed by the two `;` rules: no position is read. *)
Theorem lin_nonpile_is_filter : forall ts, no_pile ts ->
  linearize ts = Some (linUseNeededSep (linXTokens KW_NewLine (linXTokens TK_Comment ts))).
Proof. exact Facts.lin_nonpile_is_filter. Qed.
Print Assumptions lin_nonpile_is_filter.

Theorem lin_nonpile_pos_indep : forall ts ts', no_pile ts -> no_pile ts' ->
  erase (linXTokens KW_NewLine (linXTokens TK_Comment ts))
  = erase (linXTokens KW_NewLine (linXTokens TK_Comment ts')) ->
  oerase (linearize ts) = oerase (linearize ts').
Proof. exact Facts.lin_nonpile_pos_indep. Qed.
Print Assumptions lin_nonpile_pos_indep.

(* Indentation strings ordered by prefix have strictly increasing columns (blanks = false,
   tabs = true; TABSTOP from cport.h): the hypothesis "strictly increasing depth -> column map"
   holds for every renderer that indents a body by its parent's indentation plus any white space. *)
Theorem indent_prefix_mono : forall ws ws' i, ws' <> [] -> indentLevel ws i < indentLevel (ws ++ ws') i.
Proof. exact Facts.indent_prefix_mono. Qed.
Print Assumptions indent_prefix_mono.

(* ------------------------------------------------------------------ braces versus piles *)
Require Import AV.Linear.Grammar AV.Linear.GrammarFacts.

(* The piled rendering (one line per header, bodies one level deeper, ANY strictly increasing
   depth -> column map) of ANY well-formed program of the grammar linearises to the canonical
   bracketed stream ... *)
Theorem piled_canon : forall (col : nat -> N), (forall d, col d < col (S d)) ->
  forall b, wf_block b = true -> b <> [] ->
  oerase (linearize (piled col b)) = Some (canonPiled b).
Proof. exact GrammarFacts.piled_canon. Qed.
Print Assumptions piled_canon.

(* ... the braced rendering (tokens at ANY positions) is left alone by the two `;` rules ... *)
Theorem braced_canon : forall (pos : nat -> option (N * N)) b, wf_block b = true ->
  oerase (linearize (braced pos b)) = Some (canonBraced b).
Proof. exact GrammarFacts.braced_canon. Qed.
Print Assumptions braced_canon.

(* ... and the two agree up to  `{` ~ SetTab, `;` ~ BackSet, `}` ~ BackTab. *)
Theorem braced_equals_piled :
  forall (col : nat -> N) (pos : nat -> option (N * N)) (b : list item),
  (forall d, col d < col (S d)) -> wf_block b = true -> b <> [] ->
  option_map (map brace2tab) (oerase (linearize (braced pos b)))
  = oerase (linearize (piled col b)).
Proof. exact braced_equals_piled_grammar. Qed.
Print Assumptions braced_equals_piled.

(* ------------------------------------------------------------------ the scanner's cursor (include.c / scan.c) *)
Require Import AV.Linear.Scan AV.Linear.ScanFacts.

(* include.c's inclCalcIndentLevel and scan.c's scAdvance0 compute the same column for EVERY
   string w of blanks and tabs: the column of the character after w, w following a character at
   column k, is the indentation of w standing after k + 1 columns. *)
Theorem incl_indent_eq_scan_column : forall w a x r rs k l sy e f,
  wsOnly w -> isBlankTab x = false ->
  col (iter (S (length w)) adv0 (mkSt (a :: w ++ x :: r) rs k l sy e f))
  = fst (inclIndent (w ++ x :: r) (k + 1)).
Proof. exact ScanFacts.incl_indent_eq_scan_column. Qed.
Print Assumptions incl_indent_eq_scan_column.

(* A rendered statement: tokens (escape-free texts the abstract recogniser [munch] cuts off in the
   float state the scanner is in: the state before the line for the first token, floatCanFollow of the
   previous token afterwards) separated by gaps — any blanks / tabs, nothing at all where the
   recogniser separates the neighbours anyway, or `blanks _ blanks newline`, any number of blank lines
   and a continuation line of any indentation (the float state survives the escaped break).  The
   scanner delivers exactly the tokens, then the newline. *)
Theorem scan_logical_line : forall (munch : N -> list (N * bool) -> nat * N) F its wsEnd rest0 s,
  itemsOK munch F (fls s) its wsEnd rest0 ->
  (cur s, rest s) = layout its wsEnd rest0 -> sys s = false -> esc s = false ->
  exists tks sNL,
    takeToks munch F (S (length its)) s
      = Some (tks, setFls (adv F false sNL) (floatCanFollow KW_NewLine)) /\
    map stTag tks = map itag its ++ [KW_NewLine] /\
    cur sNL = [cNL] /\ rest sNL = rest0.
Proof. exact ScanFacts.scan_logical_line. Qed.
Print Assumptions scan_logical_line.

(* Two renderings of one token sequence that differ only in the blanks and tabs between tokens
   scan to the same tokens up to columns. *)
Theorem scan_spacing_insens : forall (munch : N -> list (N * bool) -> nat * N)
    F its its' wsEnd wsEnd' rest0 s s',
  map itext its = map itext its' -> map itag its = map itag its' ->
  allPlain its -> allPlain its' -> fls s = fls s' ->
  itemsOK munch F (fls s) its wsEnd rest0 -> itemsOK munch F (fls s') its' wsEnd' rest0 ->
  (cur s, rest s) = layout its wsEnd rest0 -> (cur s', rest s') = layout its' wsEnd' rest0 ->
  sys s = false -> esc s = false -> sys s' = false -> esc s' = false ->
  exists tks tks' e e',
    takeToks munch F (S (length its)) s = Some (tks, e) /\
    takeToks munch F (S (length its')) s' = Some (tks', e') /\
    map stTag tks = map stTag tks'.
Proof. exact ScanFacts.scan_spacing_insens. Qed.
Print Assumptions scan_spacing_insens.

(* An escaped line break — any blanks after the `_`, any number of blank lines, any indentation of
   the continuation — scans like the unbroken line (the recogniser is asked in the same float state
   for every token of both renderings), and leaves the scanner before the same text. *)
Theorem escape_join_insens : forall (munch : N -> list (N * bool) -> nat * N)
    F its its' wsEnd wsEnd' rest0 s s',
  map itext its = map itext its' -> map itag its = map itag its' ->
  allPlain its' -> fls s = fls s' ->
  itemsOK munch F (fls s) its wsEnd rest0 -> itemsOK munch F (fls s') its' wsEnd' rest0 ->
  (cur s, rest s) = layout its wsEnd rest0 -> (cur s', rest s') = layout its' wsEnd' rest0 ->
  sys s = false -> esc s = false -> sys s' = false -> esc s' = false ->
  exists tks tks' sNL sNL',
    takeToks munch F (S (length its)) s
      = Some (tks, setFls (adv F false sNL) (floatCanFollow KW_NewLine)) /\
    takeToks munch F (S (length its')) s'
      = Some (tks', setFls (adv F false sNL') (floatCanFollow KW_NewLine)) /\
    map stTag tks = map stTag tks' /\
    cur sNL = cur sNL' /\ rest sNL = rest sNL'.
Proof. exact ScanFacts.escape_join_insens. Qed.
Print Assumptions escape_join_insens.
