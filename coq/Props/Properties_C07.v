(* Property C07 - sub-claims that are decidable for ALL inputs.  Statements, `exact`,
   Print Assumptions only.  AV.Gen.DiagParams is regenerated from token.c / main.c. *)
From Coq Require Import ZArith Bool.
Require Import AV.Gen.DiagParams AV.Diag.Model AV.Diag.Facts.
Local Open Scope Z_scope.

(* Whatever byte a word starts with, the keyword lookup either declines or indexes keyIx in bounds. *)
Theorem C07_key_index_in_bounds : forall b, 0 <= b < 256 ->
  key_guard (char_of_byte b) = false -> 0 <= char_of_byte b < keyIx_size.
Proof. exact key_index_in_bounds. Qed.
Print Assumptions C07_key_index_in_bounds.

(* For every error count, the exit status is non-zero exactly when errors were reported. *)
Theorem C07_status_honest : forall n, 0 <= n -> (exit_status n <> 0 <-> n <> 0).
Proof. exact status_honest. Qed.
Print Assumptions C07_status_honest.

Example ex_256 : exit_status 256 = 255 /\ exit_status 0 = 0 /\ exit_status 7 = 7.
Proof. repeat split. Qed.
Example ex_highbyte : key_guard (char_of_byte 128) = true.
Proof. reflexivity. Qed.
