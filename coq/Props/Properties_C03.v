(* Property C03: interpreter and native executable agree.
   Proved part.  (1) How a run ENDS: the statement lists that decide exit status and messages
   are REGENERATED from fint.c / emit.c / util.c / foam_c.c / the generated main()
   (coq/Gen/ExitClasses.v) before this file is checked.  (2) Builtins: C04's theorem
   restricted to the two run-time evaluators.  Everything else of C03 (control flow,
   environments, closures, data) is decided by the differential runs of props/c03.py. *)
Require Import ZArith List String Bool.
Require Import AV.Routes.Model AV.Routes.Facts AV.Gen.ExitClasses AV.Routes.Proofs.
Require Import AV.Builtins.CInt AV.Builtins.Spec AV.Builtins.Facts AV.Gen.Builtins AV.Props.Properties_C04.
Import ListNotations.
Local Open Scope Z_scope.

(* For every ending (normal / exception nobody catches / halt(n) for EVERY integer n: failed
   assertion 104, never 102, bad union branch 103, error() and explicit halts), in every
   environment (library handlers installed or not), both routes end in the same status class,
   and it is the class the kind of ending must have: success exactly for the normal end. *)
Theorem exit_class_same : forall e x, ~ bad_ending known_bad_halt x ->
  class_at fint_route e x = class_at crt_route e x /\ class_at fint_route e x = want_class x.
Proof. exact exit_class_same_p. Qed.
Print Assumptions exit_class_same.

(* ... and, the library handlers being installed, with the same messages on the same streams
   (stack traces apart on standard error; on standard output apart only while the
   interpreter's trace there is a listed finding). *)
Theorem exit_messages_same : forall x, ~ bad_ending known_bad_halt x ->
  no_trace (on StdErr (events_at fint_route installed x)) = no_trace (on StdErr (events_at crt_route installed x)) /\
  stdout_view known_trace_on_stdout (events_at fint_route installed x)
  = stdout_view known_trace_on_stdout (events_at crt_route installed x).
Proof. exact exit_messages_same_p. Qed.
Print Assumptions exit_messages_same.

(* The same as tables: row by row of either switch on the halt code, and the default arms. *)
Theorem halt_tables_agree :
  rows_ok fint_route crt_route (halt_cmp known_trace_on_stdout) known_bad_halt /\
  default_ok fint_route crt_route (halt_cmp known_trace_on_stdout).
Proof. exact (conj rows_l default_l). Qed.
Print Assumptions halt_tables_agree.

(* The exceptions are real: on a listed halt code the routes end in different classes. *)
Theorem known_bad_still_bad :
  Forall (fun n => class_at fint_route installed (EndHalt n) <> class_at crt_route installed (EndHalt n))
         known_bad_halt.
Proof. exact known_bad_still_bad_l. Qed.
Print Assumptions known_bad_still_bad.

(* The theorems above are not about `Unknown': every modelled path is fully translated. *)
Theorem endings_defined :
  forallb (fun x => defined_at fint_route x && defined_at crt_route x)
          (EndNormal :: EndUncaught :: map EndHalt (zrange (-2) 300)) = true.
Proof. exact all_defined_l. Qed.
Print Assumptions endings_defined.

(* Builtin level (C04, restated): on every well-typed operand tuple in the domain the
   interpreter's row and the generated-C row of a specified builtin give the same value. *)
Theorem builtins_interp_c_agree : forall n o ei eg args,
  sop_of n = Some o ->
  In ei fint_tbl -> rname ei = n -> ~ In n known_bad_fint ->
  In eg genc_tbl -> rname eg = n -> ~ In n known_bad_genc ->
  typed (fst (sop_sig o)) args -> in_dom o args = true ->
  sem args (rexp ei) = sem args (rexp eg).
Proof. exact interp_c_agree. Qed.
Print Assumptions builtins_interp_c_agree.

(* the hypotheses are satisfiable: a failed assertion is not a listed exception, and the
   model says what happens there on both routes *)
Example ex_assert : ~ bad_ending known_bad_halt (EndHalt 104)
  /\ class_at fint_route installed (EndHalt 104) = SFail
  /\ events_at crt_route installed (EndHalt 104) = [EUnhandled (ExnRuntime "(Aldor error) Assertion failed.")].
Proof. split; [cbn; intuition discriminate|split; vm_compute; reflexivity]. Qed.
