(* Property C18 - A successful exit means every requested output was written.
   Only statements, `exact`, Print Assumptions.  Proofs: AV.Emit.Facts.
   AV.Gen.EmitSites is regenerated from the current emit.c / lib.c on every run. *)
From Coq Require Import List Bool String Arith.
Local Open Scope nat_scope.
Require Import AV.Gen.EmitSites AV.Emit.Model AV.Emit.Facts.
Import ListNotations.

(* Every emitter of the current source closes its streams through the checked close. *)
Theorem C18_sites_all_checked : forallb snd emit_sites = true.
Proof. vm_compute. reflexivity. Qed.
Print Assumptions C18_sites_all_checked.

(* For any selection and order of requested outputs (each written by a checked site) and
   any outcome of every open / write / close:  exit status 0  ->  every output complete. *)
Theorem C18_exit0_all_complete : forall sites : list (bool * out_ev),
  forallb fst sites = true -> exit_status sites = 0 ->
  forallb (fun s => complete (snd s)) sites = true.
Proof. exact exit0_all_complete. Qed.
Print Assumptions C18_exit0_all_complete.

(* ... and any failing open, write, flush or close gives a non-zero status. *)
Theorem C18_failure_reported : forall sites : list (bool * out_ev),
  forallb fst sites = true -> forallb (fun s => complete (snd s)) sites = false ->
  exit_status sites <> 0.
Proof. exact failure_reported. Qed.
Print Assumptions C18_failure_reported.

(* No false alarm: when nothing fails, every output is attempted and the status is 0. *)
Theorem C18_all_complete_exit0 : forall sites : list (bool * out_ev),
  forallb (fun s => complete (snd s)) sites = true -> run sites = (0, List.length sites).
Proof. exact all_complete_exit0. Qed.
Print Assumptions C18_all_complete_exit0.

(* Why the first theorem matters: one unchecked site refutes the property. *)
Theorem C18_unchecked_site_refuted : exists e, exit_status [(false, e)] = 0 /\ complete e = false.
Proof. exact unchecked_refuted. Qed.
Print Assumptions C18_unchecked_site_refuted.

Example ex_nonvacuous :
  let sites := [(true, {| ev_open := Ok; ev_writes := [Ok; Ok]; ev_close := Ok |});
                (true, {| ev_open := Ok; ev_writes := [Ok; Err]; ev_close := Ok |})] in
  forallb fst sites = true /\ exit_status sites = 1.
Proof. split; reflexivity. Qed.
