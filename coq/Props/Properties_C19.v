(* C19 -- Floating-point constants keep their exact value.
   Statements only; every proof is one lemma of AV.XFloat.Facts. *)
Require Import ZArith String Ascii.
Require Import AV.Gen.XFloatParams AV.XFloat.LitShape AV.XFloat.Model AV.XFloat.Facts.
Require Import AV.XFloat.TextShape AV.XFloat.TextModel AV.XFloat.TextFacts.
Local Open Scope Z_scope.

(* The generated constants are the ones the model derives, and the modelling
   restrictions (fraction starts in byte 1, buffers as wide as the value, little-endian
   8-bit-byte host, SFloat = float) hold for the current sources. *)
Theorem xfloat_params_tie :
  fracShift sf = XP.SF_FracShift /\ fracIx0 sf = XP.SF_FracIx0 /\ fracSh0 sf = XP.SF_FracSh0 /\
  signMask = XP.SF_SignMask /\ fracMask sf = XP.SF_FracMask /\ exponMask sf = XP.SF_ExponMask /\
  exponMin sf = XP.SF_ExponMin /\ exponNaN sf = XP.SF_ExponNAN /\ lgBase sf = XP.SF_LgBase /\
  fracShift df = XP.DF_FracShift /\ fracIx0 df = XP.DF_FracIx0 /\ fracSh0 df = XP.DF_FracSh0 /\
  signMask = XP.DF_SignMask /\ fracMask df = XP.DF_FracMask /\ exponMask df = XP.DF_ExponMask /\
  exponMin df = XP.DF_ExponMin /\ exponNaN df = XP.DF_ExponNAN /\ lgBase df = XP.DF_LgBase /\
  fracShift xsf = XP.XSF_FracShift /\ fracIx0 xsf = XP.XSF_FracIx0 /\ fracSh0 xsf = XP.XSF_FracSh0 /\
  signMask = XP.XSF_SignMask /\ fracMask xsf = XP.XSF_FracMask /\ exponMask xsf = XP.XSF_ExponMask /\
  exponMin xsf = XP.XSF_ExponMin /\ exponNaN xsf = XP.XSF_ExponNAN /\ lgBase xsf = XP.XSF_LgBase /\
  fracShift xdf = XP.XDF_FracShift /\ fracIx0 xdf = XP.XDF_FracIx0 /\ fracSh0 xdf = XP.XDF_FracSh0 /\
  signMask = XP.XDF_SignMask /\ fracMask xdf = XP.XDF_FracMask /\ exponMask xdf = XP.XDF_ExponMask /\
  exponMin xdf = XP.XDF_ExponMin /\ exponNaN xdf = XP.XDF_ExponNAN /\ lgBase xdf = XP.XDF_LgBase /\
  fracIx0 sf = 1 /\ fracIx0 df = 1 /\
  pbTot xsf = f_bytes sf /\ pbTot xdf = f_bytes df /\
  XP.sizeof_float = f_bytes sf /\ XP.sizeof_SFloat = f_bytes sf /\ XP.sizeof_DFloat = f_bytes df /\
  XP.XSFLOAT_BYTES = f_bytes xsf /\ XP.XDFLOAT_BYTES = f_bytes xdf /\
  XP.sizeof_FiSFlo = f_bytes sf /\ XP.sizeof_FiDFlo = f_bytes df /\ XP.sizeof_FiDFlo <= XP.sizeof_FiWord /\
  XP.CC_little_endian = 1 /\ XP.CC_vax_endian = 0 /\ XP.CC_SF_is_double = 0 /\
  XP.CHAR_BIT = 8 /\ XP.BYTE_BITS = 8 /\ XP.USHORT_BIT = 16.
Proof. exact params_wf. Qed.
Print Assumptions xfloat_params_tie.

(* ALL 2^32 single bit patterns survive the portable encoding bit for bit: signed zero,
   subnormals, infinities, and NaNs including their sign and payload (stronger than the
   "NaN stays NaN" the property asks for).  By proof, not enumeration. *)
Theorem xsf_roundtrip :
  forall bits, 0 <= bits < 2 ^ 32 -> xsfToNative (xsfFrNative bits) = bits.
Proof. exact xsf_roundtrip_all. Qed.
Print Assumptions xsf_roundtrip.

(* ALL 2^64 double bit patterns. *)
Theorem xdf_roundtrip :
  forall bits, 0 <= bits < 2 ^ 64 -> xdfToNative (xdfFrNative bits) = bits.
Proof. exact xdf_roundtrip_all. Qed.
Print Assumptions xdf_roundtrip.

(* the property's literal wording for NaNs, as a corollary *)
Theorem nan_stays_nan :
  (forall bits, 0 <= bits < 2 ^ 32 -> sf_is_nan (xsfToNative (xsfFrNative bits)) = sf_is_nan bits) /\
  (forall bits, 0 <= bits < 2 ^ 64 -> df_is_nan (xdfToNative (xdfFrNative bits)) = df_is_nan bits).
Proof. exact nan_stays_nan_all. Qed.
Print Assumptions nan_stays_nan.

(* different values have different portable encodings *)
Theorem xsf_injective :
  forall a b, 0 <= a < 2 ^ 32 -> 0 <= b < 2 ^ 32 -> xsfFrNative a = xsfFrNative b -> a = b.
Proof. exact xsf_injective_all. Qed.
Print Assumptions xsf_injective.

Theorem xdf_injective :
  forall a b, 0 <= a < 2 ^ 64 -> 0 <= b < 2 ^ 64 -> xdfFrNative a = xdfFrNative b -> a = b.
Proof. exact xdf_injective_all. Qed.
Print Assumptions xdf_injective.

(* sfDissemble ; sfAssemble  and  dfDissemble ; dfAssemble  are the identity *)
Theorem sf_dissemble_assemble_id :
  forall bits, 0 <= bits < 2 ^ 32 ->
    let '(sign, expon, frac, _) := natDissemble sf bits in natAssemble sf sign expon frac = bits.
Proof. exact sf_dissemble_assemble_all. Qed.
Print Assumptions sf_dissemble_assemble_id.

Theorem df_dissemble_assemble_id :
  forall bits, 0 <= bits < 2 ^ 64 ->
    let '(sign, expon, frac, _) := natDissemble df bits in natAssemble df sign expon frac = bits.
Proof. exact df_dissemble_assemble_all. Qed.
Print Assumptions df_dissemble_assemble_id.

(* the run-time pair of foam_c.c; [junk] is what the callee leaves unwritten: the upper
   half of the caller's word (single), the whole second word (double) *)
Theorem fiSFlo_dissemble_assemble_id :
  forall junk bits, 0 <= junk -> 0 <= bits < 2 ^ 32 ->
    let '(sign, expon, sig0) := fiSFloDissemble junk bits in fiSFloAssemble sign expon sig0 = bits.
Proof. exact fiSFlo_dissemble_assemble_all. Qed.
Print Assumptions fiSFlo_dissemble_assemble_id.

Theorem fiDFlo_dissemble_assemble_id :
  forall junk bits, 0 <= bits < 2 ^ 64 ->
    let '(sign, expon, sig0, sig1) := fiDFloDissemble junk bits in
    fiDFloAssemble sign expon sig0 sig1 = bits.
Proof. exact fiDFlo_dissemble_assemble_all. Qed.
Print Assumptions fiDFlo_dissemble_assemble_id.

(* classification: xxClassify computes the IEEE class, and the portable form keeps it
   (subnormals are stored normalised) *)
Theorem sf_classify_correct :
  forall s e f, 0 <= s <= 1 -> 0 <= e < 256 -> 0 <= f < 8388608 ->
    natClassify sf (s * 2147483648 + e * 8388608 + f) = sf_class_of_fields e f.
Proof. exact sf_classify. Qed.
Print Assumptions sf_classify_correct.

Theorem df_classify_correct :
  forall s e f, 0 <= s <= 1 -> 0 <= e < 2048 -> 0 <= f < 4503599627370496 ->
    natClassify df (s * 9223372036854775808 + e * 4503599627370496 + f) = df_class_of_fields e f.
Proof. exact df_classify. Qed.
Print Assumptions df_classify_correct.

Theorem xsf_classify_frnative :
  forall bits, 0 <= bits < 2 ^ 32 -> xClassify xsf (xsfFrNative bits) = x_class_of (natClassify sf bits).
Proof. exact xsf_classify_frnative_all. Qed.
Print Assumptions xsf_classify_frnative.

Theorem xdf_classify_frnative :
  forall bits, 0 <= bits < 2 ^ 64 -> xClassify xdf (xdfFrNative bits) = x_class_of (natClassify df bits).
Proof. exact xdf_classify_frnative_all. Qed.
Print Assumptions xdf_classify_frnative.

(* FULL STATEMENT (C19, last clause): a decimal literal converted at compile time denotes
   the same value as the same literal converted by the run time.
   PROVED (partial): whenever the constant folder (of_cfold.c, ArrToSFlo/ArrToDFlo) folds a
   literal, the constant is what the run time (foam_c.c fiArrToSFlo/fiArrToDFlo) computes
   from the same text -- same libc function, same destination type -- and it is finite;
   the folder declines (keeps the run-time call) exactly when that value is not finite
   (/repo a5dd6ea: an infinity has no spelling in C, Lisp or FOAM text); the run-time
   sites never decline.  For every behaviour of libc ([libc]), of the hardware conversions
   ([d2f], [f2d]) and every text.  MISSING: that the text is the same on both routes (glue
   shapes only, see lit_routes) and that libc's atof is a deterministic, correctly
   rounding function of its text (trusted). *)
Theorem lit_same_function_partial :
  forall (libc : string -> string -> Z) (d2f f2d : Z -> Z) (other : string -> cval) (text : string),
    (forall v, site_fold libc d2f f2d other XP.fold_sflo text = Some v ->
               v = site_value libc d2f f2d other XP.rt_sflo text /\ cval_finite v = true) /\
    (forall v, site_fold libc d2f f2d other XP.fold_dflo text = Some v ->
               v = site_value libc d2f f2d other XP.rt_dflo text /\ cval_finite v = true) /\
    (site_fold libc d2f f2d other XP.fold_sflo text = None <->
       cval_finite (site_value libc d2f f2d other XP.rt_sflo text) = false) /\
    (site_fold libc d2f f2d other XP.fold_dflo text = None <->
       cval_finite (site_value libc d2f f2d other XP.rt_dflo text) = false) /\
    site_fold libc d2f f2d other XP.rt_sflo text = Some (site_value libc d2f f2d other XP.rt_sflo text) /\
    site_fold libc d2f f2d other XP.rt_dflo text = Some (site_value libc d2f f2d other XP.rt_dflo text).
Proof. exact lit_same_function_all. Qed.
Print Assumptions lit_same_function_partial.

Theorem lit_routes :
  ls_glue XP.fold_sflo = GCopyNul /\ ls_glue XP.fold_dflo = GCopyNul /\
  ls_glue XP.rt_sflo = GArrayItself /\ ls_glue XP.rt_dflo = GArrayItself /\
  ls_dest XP.fold_sflo = CFloat /\ ls_dest XP.rt_sflo = CFloat /\
  ls_dest XP.fold_dflo = CDouble /\ ls_dest XP.rt_dflo = CDouble /\
  XP.fint_sflo = "fiArrToSFlo"%string /\ XP.genc_sflo = "fiArrToSFlo"%string /\
  XP.fint_dflo = "fiArrToDFlo"%string /\ XP.genc_dflo = "fiArrToDFlo"%string /\
  ls_guard XP.fold_sflo = true /\ ls_guard XP.fold_dflo = true /\
  ls_guard XP.rt_sflo = false /\ ls_guard XP.rt_dflo = false.
Proof. exact lit_routes_all. Qed.
Print Assumptions lit_routes.

(* ---- the TEXT routes of a constant: generated C, Lisp, .fm (util.c DFloatSprint) ---- *)

(* the current DFloatSprint has the modelled statement shape in both modes; the general
   case is sprintf("%#.*g") with DBL_DIG + 2 = 17 (default) / DBL_DIG = 15 (-Wfloatrep)
   significant digits *)
Theorem dfloat_sprint_shape :
  sm_ok sprint_default = true /\ sm_ok sprint_floatrep = true /\
  sm_fmt sprint_default = "%#.*g"%string /\ sm_fmt sprint_floatrep = "%#.*g"%string /\
  sm_prec sprint_default = XP.DBL_DIG + 2 /\ sm_prec sprint_floatrep = XP.DBL_DIG /\
  XP.DBL_DIG = 15.
Proof. exact sprint_shape_all. Qed.
Print Assumptions dfloat_sprint_shape.

(* the zero special case keeps the sign bit: +0.0 and -0.0 get different texts and each
   reads back as itself, as written (C, Lisp) and with sexpr.c's exponent marker (.fm,
   .lsp), in both precision modes *)
Theorem dfloat_sprint_zero_keeps_sign :
  forall bits, 0 <= bits < 2 ^ 64 -> is_zero64 bits = true ->
    zero_text_reads_back sprint_default bits /\ zero_text_reads_back sprint_floatrep bits.
Proof. exact sprint_zero_keeps_sign_all. Qed.
Print Assumptions dfloat_sprint_zero_keeps_sign.

(* FULL STATEMENT: every finite constant written as text reads back with the same bits.
   PROVED (partial): this holds for DFloatSprint's default mode PROVIDED libc behaves as
   the two named hypotheses say: [g17_roundtrip] (printf with 17 significant digits
   followed by a correctly rounding reader is the identity on finite non-zero binary64)
   and [reader_reads_zero_text].  Neither is proved here; both are exercised by the
   correspondence run (real DFloatSprint output re-read, all exponents x boundary
   fractions).  Not covered: -Wfloatrep (15 digits do not determine a double: by design
   of that option) and non-finite constants (printf prints inf / nan, which no reader of
   C, Lisp or .fm text accepts -- see the end-to-end stage). *)
Theorem dfloat_sprint_readback_partial :
  forall (printf_g : string -> Z -> Z -> string) (strtod : string -> option Z),
    g17_roundtrip printf_g strtod -> reader_reads_zero_text strtod ->
    forall bits, 0 <= bits < 2 ^ 64 -> finite64 bits = true ->
      strtod (render printf_g (dfloatSprint sprint_default bits)) = Some bits.
Proof. exact sprint_default_readback_all. Qed.
Print Assumptions dfloat_sprint_readback_partial.

(* ---- sexpr.c: the float atom writer and what the scanner accepts (/repo 5586a2c) ---- *)

(* the current sexpr.c has the modelled SX_Float writer INCLUDING the '0' written after a
   trailing point before the marker; the exponent markers of the scanner are "esfdlESFDL" *)
Theorem sx_writer_shape :
  XP.sx_writer_ok = true /\ XP.sx_pad_point = true /\ XP.sx_expt_markers = "esfdlESFDL"%string.
Proof. exact sx_writer_shape_all. Qed.
Print Assumptions sx_writer_shape.

(* What the scanner accepts (TextModel.sx_float_token: [sign] {digit}* '.' {digit}+
   [marker [sign] {digit}+]), trailing-point case: "%#.17g" prints a value in [1e16, 1e17)
   (15 digits: [1e14, 1e15)) as 17 (15) integer digits and a bare point; for EVERY such
   text [-]ds"." the atom the writer produces is a float token of the scanner.  (The other
   printf shapes carry digits after the point; see TextFacts.ex_sx_tokens_accepted; that
   printf only produces these shapes is libc's, named in C05's flo_atom_roundtrip.) *)
Theorem sx_trailing_point_accepted :
  forall (neg : bool) (ds : string) (mk : Ascii.ascii),
    all_digits ds = true -> ds <> EmptyString -> (mk = "s"%char \/ mk = "e"%char) ->
    sx_float_token (sx_mark mk ((if neg then "-" else "") ++ ds ++ ".")%string) = true.
Proof. exact sx_trailing_point_accepted_all. Qed.
Print Assumptions sx_trailing_point_accepted.
