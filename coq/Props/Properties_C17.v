(* C17 -- Damaged library files are refused, never silently used.
   Model: Foam/LibHdr.v (libGetHeader / libChkHeader / libGetSection as repaired:
   failed header check fatal, short reads fatal, last section must end within the file).
   Witnesses: Foam/Current.v (ex_lunit_wf). *)
Require Import ZArith List.
Require Import AV.Foam.Buf AV.Foam.LibHdr AV.Gen.FoamInfo AV.Foam.Current.
Import ListNotations.
Local Open Scope Z_scope.

(* the header reader is total; on every byte string it either refuses with a
   diagnostic or accepts a header that passes every check (no other outcome exists) *)
Theorem reader_total : forall file : bytes,
  (exists m, read_lib LP file = Refused m) \/
  (exists h, read_lib LP file = Loaded h /\ chk_header LP h = ChkOk).
Proof. exact reader_total_current. Qed.
Print Assumptions reader_total.

Theorem intact_loaded : forall u : lunit,
  wf_lunit LP u -> read_lib LP (write_lib LP u) = Loaded (mk_hdr LP u).
Proof. exact intact_loaded_current. Qed.
Print Assumptions intact_loaded.

(* every proper prefix of a written library file is refused *)
Theorem truncation_refused : forall (u : lunit) (k : nat),
  wf_lunit LP u -> (k < length (write_lib LP u))%nat ->
  exists m, read_lib LP (firstn k (write_lib LP u)) = Refused m.
Proof. exact truncation_refused_current. Qed.
Print Assumptions truncation_refused.

(* Full statement (single_byte_header_dichotomy): see Foam/LibHdrFacts2.v -- for every offset and
   replacement byte the reader refuses or loads (a duplicated section name is refused).  Proved for every unit, offset and byte: damage in the body is invisible to the
   header reader (it loads the written header: detection is left to the section decoders), and a
   changed byte of the magic number is refused.  The other header fields: enumerated on every run
   against this same read_lib (extracted) and the compiler. *)
Theorem single_byte_header_dichotomy_partial : forall (u : lunit) (k : nat) (b : Z),
  wf_lunit LP u ->
  ((Z.to_nat (lp_hdr_size LP) <= k)%nat ->
     read_lib LP (subst_nth k b (write_lib LP u)) = Loaded (mk_hdr LP u)) /\
  ((k < 2)%nat -> 0 <= b < 256 -> b <> nth k (write_lib LP u) 0 ->
     read_lib LP (subst_nth k b (write_lib LP u)) = Refused BadMagic).
Proof. exact single_byte_header_dichotomy_partial_current. Qed.
Print Assumptions single_byte_header_dichotomy_partial.
