(* C17 -- Damaged library files are refused, never silently used.
   Model: Foam/LibHdr.v (libGetHeader / libChkHeader / libGetSection as repaired:
   failed header check fatal, short reads fatal, last section must end within the file).
   Witnesses: Foam/Current.v (ex_lunit_wf). *)
Require Import ZArith List.
Require Import AV.Foam.Buf AV.Foam.LibHdr AV.Gen.FoamInfo AV.Foam.Current.
Import ListNotations.
Local Open Scope Z_scope.

(* the header reader is total; on every byte string it refuses with a
   diagnostic, or hits the one bug() of libChkHeader, or accepts a header that
   passes every check *)
Theorem reader_total : forall file : bytes,
  (exists m, read_lib LP file = Refused m) \/ read_lib LP file = Fault \/
  (exists h, read_lib LP file = Loaded h /\ chk_header LP h = ChkOk).
Proof. exact reader_total_current. Qed.
Print Assumptions reader_total.

Theorem intact_loaded : forall u : lunit,
  wf_lunit LP u -> read_lib LP (write_lib LP u) = Loaded (mk_hdr LP u).
Proof. exact intact_loaded_current. Qed.
Print Assumptions intact_loaded.

(* every proper prefix of a written library file is refused *)
Theorem truncation_refused : forall (u : lunit) (k : nat),
  wf_lunit LP u -> (k < length (write_lib LP u))%nat ->
  exists m, read_lib LP (firstn k (write_lib LP u)) = Refused m.
Proof. exact truncation_refused_current. Qed.
Print Assumptions truncation_refused.
