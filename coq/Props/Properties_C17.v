(* C17 -- Damaged library files are refused, never silently used.
   Model: Foam/LibHdr.v (libGetHeader / libChkHeader / libGetSection as repaired:
   failed header check fatal, short reads fatal, last section must end within the file).
   Witnesses: Foam/Current.v (ex_lunit_wf). *)
Require Import ZArith List.
Require Import AV.Foam.Buf AV.Foam.LibHdr AV.Foam.Archive AV.Gen.FoamInfo AV.Foam.Current.
Import ListNotations.
Local Open Scope Z_scope.

(* the header reader is total; on every byte string it either refuses with a
   diagnostic or accepts a header that passes every check (no other outcome exists) *)
Theorem reader_total : forall file : bytes,
  (exists m, read_lib LP file = Refused m) \/
  (exists h, read_lib LP file = Loaded h /\ chk_header LP h = ChkOk).
Proof. exact reader_total_current. Qed.
Print Assumptions reader_total.

Theorem intact_loaded : forall u : lunit,
  wf_lunit LP u -> read_lib LP (write_lib LP u) = Loaded (mk_hdr LP u).
Proof. exact intact_loaded_current. Qed.
Print Assumptions intact_loaded.

(* every proper prefix of a written library file is refused *)
Theorem truncation_refused : forall (u : lunit) (k : nat),
  wf_lunit LP u -> (k < length (write_lib LP u))%nat ->
  exists m, read_lib LP (firstn k (write_lib LP u)) = Refused m.
Proof. exact truncation_refused_current. Qed.
Print Assumptions truncation_refused.

(* Full statement (single_byte_header_dichotomy): see Foam/LibHdrFacts2.v -- for every offset and
   replacement byte the reader refuses or loads (a duplicated section name is refused).  Proved for every unit, offset and byte: damage in the body is invisible to the
   header reader (it loads the written header: detection is left to the section decoders), and a
   changed byte of the magic number is refused.  The other header fields: enumerated on every run
   against this same read_lib (extracted) and the compiler. *)
Theorem single_byte_header_dichotomy_partial : forall (u : lunit) (k : nat) (b : Z),
  wf_lunit LP u ->
  ((Z.to_nat (lp_hdr_size LP) <= k)%nat ->
     read_lib LP (subst_nth k b (write_lib LP u)) = Loaded (mk_hdr LP u)) /\
  ((k < 2)%nat -> 0 <= b < 256 -> b <> nth k (write_lib LP u) 0 ->
     read_lib LP (subst_nth k b (write_lib LP u)) = Refused BadMagic).
Proof. exact single_byte_header_dichotomy_partial_current. Qed.
Print Assumptions single_byte_header_dichotomy_partial.

(* ---- archives (.al).  Model: Foam/Archive.v (arRdTable / arRdItemArch0 / arReadNameTable / arReadNumber
   as a total function of the bytes; after /repo 90e0eb4 a member whose data leaves the file is reported).
   Writer of the statements: Foam/ArchiveFacts2.write_ar (ar(1) layout, member names of at most 15
   characters).  Witnesses: Current.ex_ar_is_written, ex_ar_members_valid, ex_ar_intact_found,
   ex_ar_truncated_header, ex_ar_truncated_data, ex_ar_boundary_cut. *)
Require Import AV.Foam.ArchiveFacts2.

(* whatever the bytes: a member is only ever recorded inside the file, behind the magic and one header *)
Theorem ar_members_inside : forall (file : bytes) (ms : list (bytes * Z)) (dg : list ar_diag),
  read_ar file = Members ms dg -> Forall (fun m => 68 <= snd m < Z.of_nat (length file)) ms.
Proof. exact ar_members_inside_current. Qed.
Print Assumptions ar_members_inside.

(* every member of an intact archive is found at the offset of its data; no diagnostic *)
Theorem ar_intact_found : forall ms : list (bytes * bytes),
  Forall valid_member ms -> read_ar (write_ar ms) = Members (found 8 ms) [].
Proof. exact ar_intact_found_current. Qed.
Print Assumptions ar_intact_found.

(* a cut strictly inside a member (any byte of its 60-byte header, any byte of its data) is reported *)
Theorem ar_truncation_refused : forall (ms1 : list (bytes * bytes)) (m : bytes * bytes) (ms2 : list (bytes * bytes)) (j : Z),
  Forall valid_member (ms1 ++ m :: ms2) ->
  0 < j < 60 + Z.of_nat (length (snd m)) ->
  exists fm dg,
    read_ar (firstn (Z.to_nat (8 + total ms1 + j)) (write_ar (ms1 ++ m :: ms2))) = Members fm dg /\ dg <> [].
Proof. exact ar_truncation_refused_current. Qed.
Print Assumptions ar_truncation_refused.

(* the property FAILS at a cut exactly on a member boundary, and necessarily so: such a prefix is the
   archive ar(1) would write for the first members alone, and it is accepted without a diagnostic
   (finding al:cut-at-member-boundary:silent-different -- the format carries no member count).
   The only other accepted cut drops nothing but the final padding byte of an odd-sized member. *)
Theorem ar_boundary_cut_accepted : forall ms1 ms2 : list (bytes * bytes),
  Forall valid_member (ms1 ++ ms2) ->
  firstn (Z.to_nat (8 + total ms1)) (write_ar (ms1 ++ ms2)) = write_ar ms1 /\
  read_ar (firstn (Z.to_nat (8 + total ms1)) (write_ar (ms1 ++ ms2))) = Members (found 8 ms1) [].
Proof. exact ar_boundary_cut_accepted_current. Qed.
Print Assumptions ar_boundary_cut_accepted.
