(* C06 -- Ill-typed programs are rejected, well-typed ones accepted.

   What is proved here is about the ORACLE (the type checker `typecheck` of the MiniAldor
   reference semantics, AV.Mini.Types, and the fault catalogue AV.Mini.Mut), not about the
   compiler: Aldor's own type satisfaction relation (tfsat.c:tfSat, ti_bup.c, ti_tdn.c) is
   NOT modelled.  `eligible k p site` runs the oracle's checker on the mutant, so
   mutant_ill_typed holds by that construction; its worth is that a mutation only replaces
   or adds literals and names (Mut.v), so the reason why the oracle rejects the mutant -- a
   name without meaning, a call with no / two meanings, an assigned constant, a result of
   the wrong type -- is a rule Aldor shares.  Whether the compiler built from the current
   tree draws the same line is decided by the differential runs of props/c06.py.          *)
Require Import List ZArith String Bool.
Require Import AV.Mini.Syntax AV.Mini.Types AV.Mini.Gen AV.Mini.Mut.
Require Import AV.Mini.MutFacts AV.Mini.GenFacts AV.Reject.Facts.
Import ListNotations.

(* the planted fault is a violation of the oracle's typing rules: every kind, program, site *)
Theorem mutant_ill_typed : forall k p site,
    typecheck p = true -> eligible k p site = true -> typecheck (mutate k p site) = false.
Proof. exact mutant_ill_typed_lemma. Qed.
Print Assumptions mutant_ill_typed.

(* ... kind by kind (the catalogue entries of the property statement that are modelled) *)
Theorem mutant_ill_typed_wrong_argument_type : forall p site,
    typecheck p = true -> eligible KArgType p site = true -> typecheck (mutate KArgType p site) = false.
Proof. exact (mutant_ill_typed_lemma KArgType). Qed.
Print Assumptions mutant_ill_typed_wrong_argument_type.

Theorem mutant_ill_typed_wrong_arity : forall p site,
    typecheck p = true -> eligible KArity p site = true -> typecheck (mutate KArity p site) = false.
Proof. exact (mutant_ill_typed_lemma KArity). Qed.
Print Assumptions mutant_ill_typed_wrong_arity.

Theorem mutant_ill_typed_undefined_name : forall p site,
    typecheck p = true -> eligible KUndefName p site = true -> typecheck (mutate KUndefName p site) = false.
Proof. exact (mutant_ill_typed_lemma KUndefName). Qed.
Print Assumptions mutant_ill_typed_undefined_name.

Theorem mutant_ill_typed_ambiguous_overload : forall p site,
    typecheck p = true -> eligible KAmbiguous p site = true -> typecheck (mutate KAmbiguous p site) = false.
Proof. exact (mutant_ill_typed_lemma KAmbiguous). Qed.
Print Assumptions mutant_ill_typed_ambiguous_overload.

Theorem mutant_ill_typed_assign_to_constant : forall p site,
    typecheck p = true -> eligible KConstAssign p site = true -> typecheck (mutate KConstAssign p site) = false.
Proof. exact (mutant_ill_typed_lemma KConstAssign). Qed.
Print Assumptions mutant_ill_typed_assign_to_constant.

Theorem mutant_ill_typed_wrong_return_type : forall p site,
    typecheck p = true -> eligible KRetType p site = true -> typecheck (mutate KRetType p site) = false.
Proof. exact (mutant_ill_typed_lemma KRetType). Qed.
Print Assumptions mutant_ill_typed_wrong_return_type.

(* the mutant stays ill-typed when every definition of the file is visible everywhere: it is
   not rejected merely for the subset's "defined before use" restriction, which Aldor lacks *)
Theorem mutant_ill_typed_file_scope : forall k p site,
    eligible k p site = true -> typecheck_lax (mutate k p site) = false.
Proof. exact mutant_ill_typed_lax. Qed.
Print Assumptions mutant_ill_typed_file_scope.

Theorem mutant_differs : forall k p site,
    typecheck p = true -> eligible k p site = true -> mutate k p site <> p.
Proof. exact mutant_differs_lemma. Qed.
Print Assumptions mutant_differs.

(* eligibility is decidable, and the enumeration the tool runs over is exactly the eligible
   sites, each once: "planted at every eligible site" is a finite, complete enumeration      *)
Theorem eligible_dec : forall k p site, {eligible k p site = true} + {eligible k p site = false}.
Proof. exact eligible_dec_lemma. Qed.
Print Assumptions eligible_dec.

Theorem eligible_sites_sound : forall k p site, In site (eligible_sites k p) -> eligible k p site = true.
Proof. exact AV.Mini.MutFacts.eligible_sites_sound. Qed.
Print Assumptions eligible_sites_sound.

Theorem eligible_sites_complete : forall k p site, eligible k p site = true -> In site (eligible_sites k p).
Proof. exact eligible_sites_complete_lemma. Qed.
Print Assumptions eligible_sites_complete.

Theorem eligible_sites_nodup : forall k p, NoDup (eligible_sites k p).
Proof. exact eligible_sites_nodup_lemma. Qed.
Print Assumptions eligible_sites_nodup.

(* an eligible site names one mutant and the top-level form that holds its fault *)
Theorem eligible_in_range : forall k p site,
    eligible k p site = true -> exists i q, nth_error (muts k p) site = Some (i, q) /\ mutate k p site = q.
Proof. exact AV.Mini.MutFacts.eligible_in_range. Qed.
Print Assumptions eligible_in_range.

Theorem all_kinds_complete : forall k, In k all_kinds.
Proof. exact all_kinds_complete_lemma. Qed.
Print Assumptions all_kinds_complete.

(* the positive half: every program of the generated family is well typed (C01 development) *)
Theorem gen_well_typed : forall seed size, typecheck (gen seed size) = true.
Proof. exact gen_well_typed_lemma. Qed.
Print Assumptions gen_well_typed.

(* both halves on the generated family *)
Theorem gen_mutant : forall seed size k site,
    eligible k (gen seed size) site = true ->
    typecheck (gen seed size) = true
    /\ typecheck (mutate k (gen seed size) site) = false
    /\ typecheck_lax (mutate k (gen seed size) site) = false.
Proof. exact gen_mutant_lemma. Qed.
Print Assumptions gen_mutant.

(* non-vacuity: a generated program (ex_mut_prog := gen 1 12, MutFacts.v) has eligible sites
   of every kind; the run measures the site counts of every program it uses               *)
Theorem gen_has_sites :
  forallb (fun k => negb (Nat.eqb (List.length (eligible_sites k ex_mut_prog)) 0)) all_kinds = true.
Proof. exact ex_sites_all_kinds. Qed.
Print Assumptions gen_has_sites.
