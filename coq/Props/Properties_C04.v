(* Property C04: every builtin operation means the same wherever it is evaluated.
   Tables cfold_tbl / fint_tbl / genc_tbl / bval_sig are REGENERATED from the
   current C sources (coq/Gen/Builtins.v) before this file is checked. *)
Require Import ZArith List String.
Require Import AV.Builtins.CInt AV.Builtins.Spec AV.Builtins.Facts AV.Gen.Builtins.
Require Import AV.Builtins.ProofsFint AV.Builtins.ProofsGenc AV.Builtins.ProofsCfold AV.Builtins.ProofsCover AV.Builtins.ProofsFault.
Import ListNotations.

(* Interpreter: every row of a specified builtin (not listed as a known finding)
   has the expected signature and, on ALL well-typed operands in the domain, is
   defined and yields the mathematical value. *)
Theorem fint_meets_spec : meets_spec known_bad_fint fint_tbl.
Proof. exact fint_meets_spec_l. Qed.
Print Assumptions fint_meets_spec.

(* Generated C + runtime macros/leaf functions. *)
Theorem genc_meets_spec : meets_spec known_bad_genc genc_tbl.
Proof. exact genc_meets_spec_l. Qed.
Print Assumptions genc_meets_spec.

(* Folder: a row declines (leaves the call in place) or yields the mathematical value. *)
Theorem cfold_declines_or_meets_spec : folds_to_spec known_bad_cfold cfold_tbl.
Proof. exact cfold_folds_to_spec_l. Qed.
Print Assumptions cfold_declines_or_meets_spec.

(* The folder never evaluates a trapping operation (division, remainder, modular
   ops) outside its domain: there the row declines, whatever the operands. *)
Theorem cfold_never_faults : fold_fault_free known_fault_cfold cfold_tbl.
Proof. exact cfold_never_faults_l. Qed.
Print Assumptions cfold_never_faults.

(* Exported for C02 (Fold.v): a folding row computes spec. *)
Theorem cfold_meets_spec : forall e o args,
  In e cfold_tbl -> ~ In (rname e) known_bad_cfold -> rexp e <> Declined ->
  sop_of (rname e) = Some o -> typed (fst (sop_sig o)) args -> in_dom o args = true ->
  sem args (rexp e) = Some (spec o args).
Proof. exact (cfold_row_spec known_bad_cfold cfold_tbl cfold_folds_to_spec_l). Qed.
Print Assumptions cfold_meets_spec.

(* The three evaluators agree with each other and with the definition. *)
Theorem three_agree : forall n o ec ei eg args,
  sop_of n = Some o ->
  In ec cfold_tbl -> rname ec = n -> rexp ec <> Declined -> ~ In n known_bad_cfold ->
  In ei fint_tbl -> rname ei = n -> ~ In n known_bad_fint ->
  In eg genc_tbl -> rname eg = n -> ~ In n known_bad_genc ->
  typed (fst (sop_sig o)) args -> in_dom o args = true ->
  sem args (rexp ec) = Some (spec o args) /\
  sem args (rexp ei) = Some (spec o args) /\
  sem args (rexp eg) = Some (spec o args).
Proof.
  exact (three_agree_gen known_bad_cfold known_bad_fint known_bad_genc cfold_tbl fint_tbl genc_tbl
           cfold_folds_to_spec_l fint_meets_spec_l genc_meets_spec_l).
Qed.
Print Assumptions three_agree.

(* C03's builtin-level statement: interpreter and generated C agree. *)
Theorem interp_c_agree : forall n o ei eg args,
  sop_of n = Some o ->
  In ei fint_tbl -> rname ei = n -> ~ In n known_bad_fint ->
  In eg genc_tbl -> rname eg = n -> ~ In n known_bad_genc ->
  typed (fst (sop_sig o)) args -> in_dom o args = true ->
  sem args (rexp ei) = sem args (rexp eg).
Proof.
  exact (interp_c_agree_gen known_bad_fint known_bad_genc fint_tbl genc_tbl
           fint_meets_spec_l genc_meets_spec_l).
Qed.
Print Assumptions interp_c_agree.

(* Same-operation class (floats, big integers, runtime-only integer functions,
   literal conversions): the evaluators that implement the builtin embed the
   same C operation / the same runtime call. *)
Theorem sameop_agree : Forall sameop_ok sameop_names.
Proof. exact sameop_agree_l. Qed.
Print Assumptions sameop_agree.

(* Every builtin of foamBValInfoTable (= every enumerator of foam.h) is in
   exactly one class: specified / same-operation / excluded by name. *)
Theorem coverage_complete : coverage bval_sig bval_enum.
Proof. exact coverage_complete_l. Qed.
Print Assumptions coverage_complete.

(* ... and a specified builtin has the expected signature and a row in both
   run-time tables, so the table theorems say something about it. *)
Theorem specified_present :
  Forall (fun p => present (bval_sig ++ bval_comp_sig) fint_tbl genc_tbl (fst p) (snd p)) sop_table.
Proof. exact specified_present_l. Qed.
Print Assumptions specified_present.

(* Hypotheses are satisfiable: SIntQuo on (-7, 2) is typed and in the domain,
   and LONG_MIN / -1 is excluded. *)
Example ex_typed : typed (fst (sop_sig SIntQuo)) [(-7)%Z; 2%Z] /\ in_dom SIntQuo [(-7)%Z; 2%Z] = true
                   /\ spec SIntQuo [(-7)%Z; 2%Z] = (-3)%Z
                   /\ in_dom SIntQuo [(-9223372036854775808)%Z; (-1)%Z] = false.
Proof. repeat split; try reflexivity. repeat constructor; cbn; auto with zarith. Qed.
