(* Property C12: the Java back end agrees with the other execution routes.
   Proved part: the builtin level.  The table java_tbl (one Java expression per FOAM builtin,
   static methods of foamj.Math inlined) is REGENERATED from java/genjava.c, java/javacode.c,
   foam.c and lib/java/src/foamj/Math.java (coq/Gen/JavaBuiltins.v) before this file is checked.
   The program level (javac, the JVM, Foam.java's data structures, control flow) is decided
   by the differential runs of props/c12.py. *)
Require Import ZArith List String Bool.
Require Import AV.Builtins.CInt AV.Builtins.Spec AV.Builtins.Facts AV.Gen.Builtins AV.Props.Properties_C04.
Require Import AV.Java.Model AV.Java.Facts AV.Gen.JavaBuiltins AV.Java.Proofs.
Import ListNotations.
Local Open Scope Z_scope.

(* Every row of a specified builtin (rows listed as known findings apart) either says itself
   that the Java route does not support the builtin, or has the expected signature and Java
   type and, on ALL well-typed operands in the domain that satisfy fits_java - operands,
   result and the named intermediates inside the 32-bit Java int (ASCII for characters, below
   128 for bytes, shift counts below 32) - is defined and yields the mathematical value. *)
Theorem java_meets_spec_on_int32 : java_meets_spec known_bad_java java_tbl.
Proof. exact java_meets_spec_l. Qed.
Print Assumptions java_meets_spec_on_int32.

(* Every builtin of foamBValInfoTable that has a specification has a row in the Java table
   and the row embeds (possibly as `unsupported'): none slips past the theorem above. *)
Theorem java_covers_subset : java_covers java_tbl java_bval_names.
Proof. exact java_covers_l. Qed.
Print Assumptions java_covers_subset.

(* Java and the interpreter compute the same value of every supported specified builtin
   inside the side condition (with C04's theorem about fint.c). *)
Theorem java_interp_agree : forall n o ej ei args,
  sop_of n = Some o ->
  In ej java_tbl -> jname ej = n -> ~ In n known_bad_java -> junsupported (jbody ej) = false ->
  In ei fint_tbl -> rname ei = n -> ~ In n known_bad_fint ->
  typed (fst (sop_sig o)) args -> in_dom o args = true -> fits_java o args ->
  jsem args (jbody ej) = sem args (rexp ei).
Proof.
  exact (fun n o ej ei args =>
           java_interp_agree_gen known_bad_java known_bad_fint java_tbl fint_tbl n o ej ei args
             java_meets_spec_l fint_meets_spec).
Qed.
Print Assumptions java_interp_agree.

(* Integer constants: whatever gj0BInt emits for a big-integer constant v - BigInteger.ZERO / ONE,
   BigInteger.valueOf(<int literal as jcLiteralInteger prints it>) up to the regenerated length threshold, or
   new BigInteger("<digits>") - is accepted by javac and denotes exactly v, for EVERY integer v, immediate or boxed. *)
Theorem java_bint_literal_exact : forall small v, denote_blit (emit_bint java_bint_params small v) = Some v.
Proof. exact java_bint_literal_exact_l. Qed.
Print Assumptions java_bint_literal_exact.

(* the hypotheses are satisfiable: SIntQuo on (-7, 2) is typed, in the domain, inside the side
   condition, and 2^31 + 1 is outside it *)
Example ex_fits : typed (fst (sop_sig SIntQuo)) [(-7)%Z; 2%Z] /\ in_dom SIntQuo [(-7)%Z; 2%Z] = true
                  /\ fits_java SIntQuo [(-7)%Z; 2%Z] /\ ~ fits_java SIntPlus [2147483647%Z; 2%Z].
Proof.
  repeat split; try reflexivity; try (repeat constructor; cbn; unfold int32; auto with zarith; fail).
  intros (_ & H & _). cbn in H. unfold int32 in H. vm_compute in H. destruct H as [_ H]. apply H. reflexivity.
Qed.
