(* C09, model level: the abstract collector (Store/Gc.v) never changes what a
   mutator program computes.  Shared with C10 (same mark / sweep). *)
Require Import ZArith List.
Import ListNotations.
Require Import AV.Store.Gc AV.Store.GcFacts.

(* mark = exactly the blocks reachable from the roots (interior pointers
   resolved by [resolve]) *)
Theorem mark_sound_roots :
  forall (V B : Type) (beq : B -> B -> bool) (resolve : V -> option B) (fields : B -> list V)
         (fuel : nat) (roots : list V) (b : B),
    In b (mark V B beq resolve fields fuel roots []) -> reach V B resolve fields roots b.
Proof. exact AV.Store.GcFacts.mark_sound_roots. Qed.
Print Assumptions mark_sound_roots.

Theorem mark_complete :
  forall (V B : Type) (beq : B -> B -> bool) (resolve : V -> option B) (fields : B -> list V),
    (forall a b, beq a b = true <-> a = b) ->
    forall (universe : list B) (roots : list V),
      (forall v b, resolve v = Some b -> In b universe) ->
      forall b, reach V B resolve fields roots b ->
                In b (mark V B beq resolve fields (mark_fuel V B fields universe roots) roots []).
Proof. exact AV.Store.GcFacts.mark_complete. Qed.
Print Assumptions mark_complete.

(* a block reachable from the roots survives a collection with its contents *)
Theorem gc_keeps_reachable :
  forall h roots id, hreach h roots id -> hget (hgc h roots) id = hget h id.
Proof. exact hgc_keeps_reachable. Qed.
Print Assumptions gc_keeps_reachable.

(* whatever survives was there, unchanged, and is reachable: only unmarked blocks are freed *)
Theorem gc_frees_only_unmarked :
  forall h roots id o, hget (hgc h roots) id = Some o -> hget h id = Some o /\ hreach h roots id.
Proof. exact hgc_frees_only_unmarked. Qed.
Print Assumptions gc_frees_only_unmarked.

Theorem gc_preserves_reachable :
  forall h roots id, hreach (hgc h roots) roots id <-> hreach h roots id.
Proof. exact hgc_preserves_reach. Qed.
Print Assumptions gc_preserves_reachable.

(* THE PROPERTY at model level: for every mutator program and every subset of
   allocation points at which a collection is forced, the outputs equal those
   of the run without collections *)
Theorem schedule_irrelevant :
  forall (prog : list instr) (sched : nat -> bool),
    outputs (run_with_gc sched prog) = outputs (run_no_gc prog).
Proof. exact AV.Store.GcFacts.schedule_irrelevant. Qed.
Print Assumptions schedule_irrelevant.

(* a forced collection never frees a block the mutator can still read *)
Theorem no_dangling :
  forall (prog : list instr) (sched : nat -> bool),
    let m1 := run_no_gc prog in
    let m2 := run_with_gc sched prog in
    (forall v, In v (m_env m2) -> vresolve (m_heap m2) v = vresolve (m_heap m1) v) /\
    (forall id, hreach (m_heap m2) (m_env m2) id <-> hreach (m_heap m1) (m_env m1) id) /\
    (forall id, hreach (m_heap m1) (m_env m1) id -> hget (m_heap m2) id = hget (m_heap m1) id) /\
    (forall id o, hget (m_heap m2) id = Some o -> hget (m_heap m1) id = Some o).
Proof. exact AV.Store.GcFacts.no_dangling. Qed.
Print Assumptions no_dangling.
