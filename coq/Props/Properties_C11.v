(* C11 - Big-integer arithmetic is exact: the property theorems; proofs in AV.BigInt.Facts and the FactsXxx files. *)
Require Import ZArith List Bool.
Require Import AV.BigInt.Model AV.BigInt.Facts AV.BigInt.FactsCmp AV.BigInt.FactsAdd AV.BigInt.FactsMul
               AV.BigInt.FactsBits AV.BigInt.FactsDivS AV.BigInt.FactsStr AV.BigInt.FactsScan
               AV.BigInt.FactsShift AV.BigInt.FactsPow AV.BigInt.FactsConv AV.BigInt.FactsDiv5 AV.BigInt.FactsGcd AV.BigInt.FactsMod AV.BigInt.FactsPowMod AV.BigInt.FactsRadix
               AV.BigInt.FactsShiftRem AV.BigInt.FactsRepr AV.BigInt.FactsAll AV.Gen.BigIntRadix AV.BigInt.FactsRadixGen.
Local Open Scope Z_scope.

Theorem plus_exact : forall a b, norm a -> norm b ->
  val (bintPlus a b) = val a + val b /\ norm (bintPlus a b).
Proof. exact FactsAdd.plus_exact. Qed.
Print Assumptions plus_exact.

Theorem minus_exact : forall a b, norm a -> norm b ->
  val (bintMinus a b) = val a - val b /\ norm (bintMinus a b).
Proof. exact FactsAdd.minus_exact. Qed.
Print Assumptions minus_exact.

Theorem times_exact : forall a b, norm a -> norm b ->
  val (bintTimes a b) = val a * val b /\ norm (bintTimes a b).
Proof. exact FactsMul.times_exact. Qed.
Print Assumptions times_exact.

Theorem negate_exact : forall a, norm a -> val (bintNegate a) = - val a /\ norm (bintNegate a).
Proof. exact FactsCmp.negate_exact. Qed.
Print Assumptions negate_exact.

Theorem abs_exact : forall a, norm a -> val (bintAbs a) = Z.abs (val a) /\ norm (bintAbs a).
Proof. exact FactsCmp.abs_exact. Qed.
Print Assumptions abs_exact.

Theorem eq_exact : forall a b, norm a -> norm b -> bintEQ a b = (val a =? val b).
Proof. exact FactsCmp.eq_exact. Qed.
Print Assumptions eq_exact.

Theorem lt_exact : forall a b, norm a -> norm b -> bintLT a b = (val a <? val b).
Proof. exact FactsCmp.lt_exact. Qed.
Print Assumptions lt_exact.

Theorem gt_exact : forall a b, norm a -> norm b -> bintGT a b = (val b <? val a).
Proof. exact FactsCmp.gt_exact. Qed.
Print Assumptions gt_exact.

Theorem sign_tests_exact : forall a, norm a ->
  bintIsNeg a = (val a <? 0) /\ bintIsZero a = (val a =? 0) /\ bintIsPos a = (0 <? val a).
Proof. exact FactsCmp.sign_tests_exact. Qed.
Print Assumptions sign_tests_exact.

Theorem length_exact : forall a, norm a -> bintLength a = bitlen (Z.abs (val a)).
Proof. exact FactsBits.length_exact. Qed.
Print Assumptions length_exact.

Theorem bit_exact : forall a ix, norm a -> 0 <= ix -> bintBit a ix = Z.testbit (Z.abs (val a)) ix.
Proof. exact FactsBits.bit_exact. Qed.
Print Assumptions bit_exact.

(* shift_val v n = sgn v * (|v| * 2^n) for n >= 0, sgn v * (|v| / 2^(-n)) for n < 0 (the code shifts the magnitude) *)
Theorem shift_exact : forall b n, norm b ->
  val (bintShift b n) = shift_val (val b) n /\ norm (bintShift b n).
Proof. exact FactsShift.shift_exact. Qed.
Print Assumptions shift_exact.

(* dec_repr s v: s is the shortest decimal text of v ('-' only for negative v, no leading zeros);
   parse_dec is the usual reader (optional '-', Horner over the digits) *)
Theorem to_string_exact : forall a, norm a ->
  exists s, bintToString a = Some s /\ dec_repr s (val a) /\ parse_dec s = val a.
Proof. exact FactsStr.to_string_exact. Qed.
Print Assumptions to_string_exact.

Theorem fr_string_exact : forall (neg : bool) (ds rest : list Z),
  alldig ds -> ds <> nil -> notdig_head rest ->
  let r := bintScanFrString ((if neg then 45 :: nil else nil) ++ ds ++ rest) in
  val (fst r) = (if neg then - dval ds else dval ds) /\ norm (fst r) /\ snd r = rest.
Proof. exact FactsScan.fr_string_exact. Qed.
Print Assumptions fr_string_exact.

Theorem power_si_exact : forall a b, norm a -> 0 <= b < H63 ->
  exists r, fiBIntSIPower a b = Some r /\ val r = val a ^ b /\ norm r.
Proof. exact FactsPow.power_si_exact. Qed.
Print Assumptions power_si_exact.

Theorem power_bi_exact : forall a b, norm a -> norm b -> 0 <= val b ->
  exists r, fiBIntBIPower a b = Some r /\ val r = val a ^ val b /\ norm r.
Proof. exact FactsPow.power_bi_exact. Qed.
Print Assumptions power_bi_exact.

Theorem of_long_exact : forall n, - H63 <= n < H63 -> val (fiBIntFrInt n) = n /\ norm (fiBIntFrInt n).
Proof. exact FactsConv.of_long_exact. Qed.
Print Assumptions of_long_exact.

Theorem to_long_exact : forall a, norm a -> Z.abs (val a) < H63 -> fiBIntToSInt a = val a.
Proof. exact FactsConv.to_long_exact. Qed.
Print Assumptions to_long_exact.

Theorem is_single_exact : forall a, norm a -> fiBIntIsSingle a = (Z.abs (val a) <? H63).
Proof. exact FactsConv.is_single_exact. Qed.
Print Assumptions is_single_exact.

(* Knuth's Algorithm D as coded (normalisation, qhat estimate and its two-step correction, multiply-subtract,
   add-back, unnormalisation), for all operands: truncated quotient, remainder with the dividend's sign *)
Theorem divide_exact : forall a b, norm a -> norm b -> val b <> 0 ->
  let q := fst (bintDivide a b) in let r := snd (bintDivide a b) in
  val a = val q * val b + val r /\ Z.abs (val r) < Z.abs (val b) /\
  (val r = 0 \/ Z.sgn (val r) = Z.sgn (val a)) /\
  val q = Z.quot (val a) (val b) /\ val r = Z.rem (val a) (val b) /\ norm q /\ norm r.
Proof. exact FactsDiv5.divide_exact. Qed.
Print Assumptions divide_exact.

(* bintMod / fiBIntMod / fiBIntRem: the remainder, with the sign of the dividend (the code's convention), through
   all three branches (one-place Horner, xxModDouble of dword.c for 2^32 <= |b| < 2^63, bintDivide) *)
Theorem mod_exact : forall a b, norm a -> norm b -> val b <> 0 ->
  exists r, bintMod a b = Some r /\ val r = Z.rem (val a) (val b) /\ norm r.
Proof. exact FactsMod.mod_exact. Qed.
Print Assumptions mod_exact.

Theorem gcd_exact : forall a b, norm a -> norm b ->
  exists g, fiBIntGcd a b = Some g /\ val g = Z.gcd (val a) (val b) /\ norm g.
Proof. exact FactsGcd.gcd_exact. Qed.
Print Assumptions gcd_exact.

(* fiBIntPowerMod: remainder (sign of the dividend) of the exact power, every exponent >= 0, every modulus <> 0 *)
Theorem powermod_exact : forall a b c, norm a -> norm b -> norm c -> val c <> 0 -> 0 <= val b ->
  exists r, fiBIntPowerMod a b c = Some r /\ val r = Z.rem (val a ^ val b) (val c) /\ norm r.
Proof. exact FactsPowMod.powermod_exact. Qed.
Print Assumptions powermod_exact.

(* radix input "[sign] RR r WW": RR the radix 2..36 in decimal, WW digits [0-9A-Z] of that radix;
   rval is the value of WW in that radix *)
Theorem radix_scan_exact : forall (sg : list Z) (neg : bool) (lead whole rest : list Z) (radix : Z),
  sign_of sg neg -> alldig lead -> lead <> nil -> dval lead = radix -> 2 <= radix <= 36 ->
  allr radix whole -> notalnum_head rest ->
  let r := bintRadixScanFrString (sg ++ lead ++ (114 :: nil) ++ whole ++ rest) in
  val (fst r) = (if neg then - rval radix whole else rval radix whole) /\ norm (fst r) /\ snd r = rest.
Proof. exact FactsRadix.radix_scan_exact. Qed.
Print Assumptions radix_scan_exact.

Theorem radix_scan_decimal_exact : forall (sg : list Z) (neg : bool) (ds rest : list Z),
  sign_of sg neg -> alldig ds -> ds <> nil -> notdig_head rest -> (match rest with 114 :: _ => False | _ => True end) ->
  let r := bintRadixScanFrString (sg ++ ds ++ rest) in
  val (fst r) = (if neg then - dval ds else dval ds) /\ norm (fst r) /\ snd r = rest.
Proof. exact FactsRadix.radix_scan_decimal_exact. Qed.
Print Assumptions radix_scan_decimal_exact.

Theorem frplacev_exact : forall neg data, dok data ->
  val (bintFrPlacev neg data) = (if neg then - lval data else lval data) /\ norm (bintFrPlacev neg data).
Proof. exact FactsConv.frplacev_exact. Qed.
Print Assumptions frplacev_exact.

(* bintShiftRem / fiBIntShiftRem ("lowest n bits") on the inputs on which the C is defined (int mask: n <= 30 for an
   immediate; 1 <= n, top bit count <= 30, no more places than b has, for an allocated number); normal form when the
   result has at most two places or a non-zero top place.  Outside: FactsExamples.shiftrem_*_refuted. *)
Theorem shiftrem_exact : forall b n, norm b -> 0 <= val b -> shiftrem_defined b n = true ->
  val (bintShiftRem b n) = val b mod 2 ^ n /\ (shiftrem_normal b n = true -> norm (bintShiftRem b n)).
Proof. exact FactsShiftRem.shiftrem_exact. Qed.
Print Assumptions shiftrem_exact.

(* the representation: one normal form per integer; xintImmedIfCan immediate exactly on |v| <= 2^62-1 *)
Theorem norm_unique : forall a b, norm a -> norm b -> val a = val b -> a = b.
Proof. exact FactsRepr.norm_unique. Qed.
Print Assumptions norm_unique.

Theorem immed_if_can_repr : forall neg ds, res_ok ds ->
  let r := xintImmedIfCan (Sto neg ds) in
  val r = val (Sto neg ds) /\ norm r /\ (bintIsSmall r = true <-> lval ds <= IMM_MAX).
Proof. exact FactsRepr.immed_if_can_repr. Qed.
Print Assumptions immed_if_can_repr.

Theorem every_result_normal : forall a b c n k,
  norm a -> norm b -> norm c -> - H63 <= k < H63 ->
  norm (bintPlus a b) /\ norm (bintMinus a b) /\ norm (bintTimes a b) /\ norm (fiBIntTimesPlus a b c) /\
  norm (bintNegate a) /\ norm (bintAbs a) /\ norm (bintShift a n) /\ norm (bintNew k) /\
  (val b <> 0 -> norm (fst (bintDivide a b)) /\ norm (snd (bintDivide a b)) /\
                 exists r, bintMod a b = Some r /\ norm r) /\
  (exists g, fiBIntGcd a b = Some g /\ norm g) /\
  (0 <= k -> exists p, fiBIntSIPower a k = Some p /\ norm p) /\
  (0 <= val b -> exists p, fiBIntBIPower a b = Some p /\ norm p) /\
  (0 <= val b -> val c <> 0 -> exists p, fiBIntPowerMod a b c = Some p /\ norm p).
Proof. exact FactsAll.every_result_normal. Qed.
Print Assumptions every_result_normal.

(* 16-bit places (fiBIntFrPlacev builds the big literals of generated code), every count parity *)
Theorem frplacevS_exact : forall neg data, u16ok data ->
  val (bintFrPlacevS neg data) = (if neg then - lval16 data else lval16 data) /\ norm (bintFrPlacevS neg data).
Proof. exact FactsRepr.frplacevS_exact. Qed.
Print Assumptions frplacevS_exact.

Theorem toplacevS_exact : forall b, norm b ->
  lval16 (bintToPlacevS b) = Z.abs (val b) /\ u16ok (bintToPlacevS b).
Proof. exact FactsRepr.toplacevS_exact. Qed.
Print Assumptions toplacevS_exact.

Theorem placevS_roundtrip : forall b, norm b -> bintFrPlacevS (bintIsNeg b) (bintToPlacevS b) = b.
Proof. exact FactsRepr.placevS_roundtrip. Qed.
Print Assumptions placevS_roundtrip.

Theorem placevS_roundtrip_val : forall neg data, u16ok data ->
  lval16 (bintToPlacevS (bintFrPlacevS neg data)) = lval16 data.
Proof. exact FactsRepr.placevS_roundtrip_val. Qed.
Print Assumptions placevS_roundtrip_val.

(* chunk width and multiplier of the scanners, REGENERATED from the current bigint.c (coq/Gen/BigIntRadix.v):
   for every radix 2..36 the multiplier is radix^dio, survives the (BIntS) cast (< 2^32) and is the model's *)
Theorem radix_chunk_regen_ok :
  radix_chunk_translated = true /\
  map (fun row => fst (fst row)) radix_chunk_tbl = map Z.of_nat (seq 2 35) /\
  forall radix rio dio, In (radix, rio, dio) radix_chunk_tbl ->
    0 < rio < 2 ^ 32 /\ toS rio = rio /\ rio = radix ^ dio /\ 1 <= dio /\ model_chunk radix = (rio, dio).
Proof. exact FactsRadixGen.radix_chunk_regen_ok. Qed.
Print Assumptions radix_chunk_regen_ok.

Theorem dec_chunk_regen_ok : dec_chunk = dec_rio /\ 0 < fst dec_chunk < 2 ^ 32 /\ fst dec_chunk = 10 ^ snd dec_chunk.
Proof. exact FactsRadixGen.dec_chunk_regen_ok. Qed.
Print Assumptions dec_chunk_regen_ok.
