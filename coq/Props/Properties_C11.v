(* C11 — Big-integer arithmetic is exact: the property theorems (proofs in AV.BigInt.Facts). *)
Require Import ZArith List Bool.
Require Import AV.BigInt.Model AV.BigInt.Facts.
Local Open Scope Z_scope.

Theorem negate_exact : forall a, norm a -> val (bintNegate a) = - val a /\ norm (bintNegate a).
Proof. exact Facts.negate_exact. Qed.
Print Assumptions negate_exact.
