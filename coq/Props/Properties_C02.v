(* Property C02 - Optimisation settings never change program behaviour.
   Only statements, `exact`, and Print Assumptions.  Proofs: AV.Opt.Facts (option decoding,
   over the table / decoder / pipeline REGENERATED from optfoam.c on every run).

   What is proved here is that the configurations the differential run enumerates are the
   ones it thinks they are: for EVERY sequence of earlier arguments `pre` that the compiler
   accepts, what a further -Q<n>, -O, -Q<pass>, -Qno-<pass>, -Qall, -Qinline-limit=<n> does
   to the table printed by -WD+optf (`shown`), to optLevel (`lvl`) and to the list of passes
   optimizeFoam runs (`trace`).  That optimised and unoptimised programs behave alike is
   decided by the differential run (the global passes are not modelled). *)
Require Import ZArith List String Ascii Bool.
Require Import AV.Opt.Ctl AV.Gen.OptCtl AV.Opt.Model AV.Opt.Facts.
Import ListNotations.
Local Open Scope Z_scope.
Local Open Scope string_scope.

(* -Q<n> after anything sets exactly column min(n, OPT_MaxLevel) of every row (and, above it,
   the inline limit of optQInlineLimit[]), whatever was set before; optLevel = n. *)
Theorem C02_opt_levels_table : forall pre f n, opt_state pre = Some f -> 0 <= n <= max_q ->
  exists f', opt_state (pre ++ [level_arg n]) = Some f' /\ shown f' = column n /\ lvl f' = n.
Proof. exact levels_table. Qed.
Print Assumptions C02_opt_levels_table.

Theorem C02_column_is_min : forall n r, In r opt_ctl -> rname r <> "inline-limit" ->
  In (rname r, V (nth (Z.to_nat (Z.min n max_col)) (rvals r) 0)) (column n).
Proof. exact column_is_min. Qed.
Print Assumptions C02_column_is_min.

(* -O is -Q2 *)
Theorem C02_opt_O : forall pre f, opt_state pre = Some f ->
  exists f', opt_state (pre ++ ["-O"]) = Some f' /\ shown f' = column 2 /\ lvl f' = 2.
Proof. exact O_sets. Qed.
Print Assumptions C02_opt_O.

(* no optimisation argument: column OPT_DefaultLevel *)
Theorem C02_opt_default :
  match opt_state [], default_level with
  | Some f, Some d => shown f = column d /\ lvl f = d
  | _, _ => False
  end.
Proof. exact default_state. Qed.
Print Assumptions C02_opt_default.

(* -Q<p> switches on exactly the entry p (every flag row but inline-all), -Qno-<p> switches
   off exactly the entry p (every flag row): all other entries and optLevel are unchanged. *)
Theorem C02_opt_single_on : forall pre f p, opt_state pre = Some f -> In p plain_names ->
  exists f', opt_state (pre ++ ["-Q" ++ p]) = Some f' /\
             shown f' = set_shown p (V 1) (shown f) /\ lvl f' = lvl f.
Proof. exact single_on. Qed.
Print Assumptions C02_opt_single_on.

Theorem C02_opt_single_off : forall pre f p, opt_state pre = Some f -> In p flag_names ->
  exists f', opt_state (pre ++ ["-Qno-" ++ p]) = Some f' /\
             shown f' = set_shown p (V 0) (shown f) /\ lvl f' = lvl f.
Proof. exact single_off. Qed.
Print Assumptions C02_opt_single_off.

(* set_shown is "exactly one entry" *)
Theorem C02_set_shown_exact : forall p x l q y, q <> p -> In (q, y) l -> In (q, y) (set_shown p x l).
Proof. exact set_shown_other. Qed.
Print Assumptions C02_set_shown_exact.

(* the one flag with a statement of its own: -Qinline-all also switches inline on *)
Theorem C02_opt_inline_all : forall pre f, opt_state pre = Some f ->
  exists f', opt_state (pre ++ ["-Qinline-all"]) = Some f' /\
             shown f' = set_shown "inline" (V 1) (set_shown "inline-all" (V 1) (shown f)) /\ lvl f' = lvl f.
Proof. exact inline_all_single. Qed.
Print Assumptions C02_opt_inline_all.

(* -Q0 -Q<p> enables exactly p; -Q9 -Qno-<p> disables exactly p *)
Theorem C02_opt_q0_pass : forall pre f p, opt_state pre = Some f -> In p plain_names ->
  exists f', opt_state (pre ++ [level_arg 0; "-Q" ++ p]) = Some f' /\ enabled (shown f') = [p].
Proof. exact q0_pass_enabled. Qed.
Print Assumptions C02_opt_q0_pass.

Theorem C02_opt_qmax_no_pass : forall pre f p, opt_state pre = Some f -> In p flag_names ->
  exists f', opt_state (pre ++ [level_arg max_q; "-Qno-" ++ p]) = Some f' /\
             enabled (shown f') = filter (fun q => negb (String.eqb q p)) (enabled (column max_q)).
Proof. exact qmax_no_pass_enabled. Qed.
Print Assumptions C02_opt_qmax_no_pass.

(* -Qall / -Qno-all: every flag row, no numeric row, optLevel unchanged *)
Theorem C02_opt_all : forall pre f on, opt_state pre = Some f ->
  exists f', opt_state (pre ++ [toggle_arg on "all"]) = Some f' /\ shown f' = all_shown on f /\ lvl f' = lvl f.
Proof. exact all_single. Qed.
Print Assumptions C02_opt_all.

(* -Qinline-limit=<decimal of at most 7 digits> stores 100 * it *)
Theorem C02_opt_inline_limit : forall pre f s, opt_state pre = Some f -> short_decimal s = true ->
  exists f', opt_state (pre ++ ["-Qinline-limit=" ++ s]) = Some f' /\
             shown f' = set_shown "inline-limit" (V (100 * dec_acc 0 s)) (shown f) /\ lvl f' = lvl f.
Proof. exact inline_limit_sets. Qed.
Print Assumptions C02_opt_inline_limit.

(* later arguments override earlier ones *)
Theorem C02_opt_last_toggle_wins : forall pre f p, opt_state pre = Some f -> In p plain_names ->
  (exists f', opt_state (pre ++ ["-Q" ++ p; "-Qno-" ++ p]) = Some f' /\ shown f' = set_shown p (V 0) (shown f)) /\
  (exists f', opt_state (pre ++ ["-Qno-" ++ p; "-Q" ++ p]) = Some f' /\ shown f' = set_shown p (V 1) (shown f)).
Proof. exact last_toggle_wins. Qed.
Print Assumptions C02_opt_last_toggle_wins.

Theorem C02_opt_rejected_stays : forall pre f a post,
  opt_state pre = Some f -> opt_arg f a = None -> opt_state (pre ++ a :: post) = None.
Proof. exact opt_state_rejected. Qed.
Print Assumptions C02_opt_rejected_stays.

(* -Q0 -Q<p> makes optimizeFoam run exactly the steps guarded by p's variable *)
Theorem C02_isolated_pass_trace : forall pre f p, opt_state pre = Some f -> In p plain_names ->
  exists f' r, opt_state (pre ++ [level_arg 0; "-Q" ++ p]) = Some f' /\ In r opt_ctl /\ rname r = p /\
               trace f' = Some (flat_map (steps_of 1 [rvar r]) pipeline).
Proof. exact isolated_trace. Qed.
Print Assumptions C02_isolated_pass_trace.

(* Non-vacuity: accepted sequences exist, the conclusions compute to the expected tables *)
Example ex_seq : match opt_state ["-Q3"; "-Qno-cse"; "-qNO-no-peep"; "-Qinline-limit=12"] with
                 | Some f => lvl f = 3 /\ In ("cse", V 0) (shown f) /\ In ("peep", V 1) (shown f) /\
                             In ("inline-limit", V 1200) (shown f) /\ In ("inline-all", V 1) (shown f)
                 | None => False
                 end.
Proof. vm_compute. tauto. Qed.
Example ex_q0_peep : match opt_state ["-O"; "-Q0"; "-Qpeep"] with
                     | Some f => enabled (shown f) = ["peep"] /\
                                 trace f = Some ["STARTING LOOP (%d)"; "Starting peep..."; "Starting peep...";
                                                 "(Starting patchUnit...)"; "Optimizations finished."]
                     | None => False
                     end.
Proof. vm_compute. split; reflexivity. Qed.
Example ex_levels : max_q = 9 /\ max_col = 4 /\ In "cprop" plain_names /\ In "inline-all" flag_names /\
                    ~ In "inline-all" plain_names /\ In ("inline-limit", V 3000) (column 8) /\
                    In ("inline-limit", V 800) (column 4) /\ In ("cfold", V 1) (column 1) /\ In ("ffold", V 0) (column 1).
Proof. vm_compute. intuition congruence. Qed.
Example ex_rejected : opt_state ["-Qfoo"] = None /\ opt_state ["-Q"] = None /\ opt_state ["-Qinline-limit"] = None
                      /\ opt_state ["-Q10"] = None /\ opt_state ["-QPeep"] = None /\ opt_state ["-Qno-ALL"] <> None.
Proof. vm_compute. intuition congruence. Qed.
