(* Property C02 - Optimisation settings never change program behaviour.
   Only statements, `exact`, and Print Assumptions.  Proofs: AV.Opt.Facts (option decoding,
   over the table / decoder / pipeline REGENERATED from optfoam.c on every run).

   What is proved here is that the configurations the differential run enumerates are the
   ones it thinks they are: for EVERY sequence of earlier arguments `pre` that the compiler
   accepts, what a further -Q<n>, -O, -Q<pass>, -Qno-<pass>, -Qall, -Qinline-limit=<n> does
   to the table printed by -WD+optf (`shown`), to optLevel (`lvl`) and to the list of passes
   optimizeFoam runs (`trace`).  That optimised and unoptimised programs behave alike is
   decided by the differential run (the global passes are not modelled). *)
Require Import ZArith List String Ascii Bool.
Require Import AV.Builtins.CInt AV.Builtins.Spec AV.Builtins.Facts AV.Gen.Builtins AV.Builtins.ProofsCfold.
Require Import AV.Opt.Ctl AV.Gen.OptCtl AV.Opt.Model AV.Opt.Facts.
Require Import AV.Opt.PeepCtl AV.Gen.PeepTbl AV.Opt.FoamSem AV.Opt.Fold AV.Opt.FoldFacts.
Require Import AV.Opt.PeepSem AV.Opt.Peep AV.Opt.PeepTblFacts AV.Opt.PeepFacts.
Import ListNotations.
Local Open Scope Z_scope.
Local Open Scope string_scope.

(* -Q<n> after anything sets exactly column min(n, OPT_MaxLevel) of every row (and, above it,
   the inline limit of optQInlineLimit[]), whatever was set before; optLevel = n. *)
Theorem C02_opt_levels_table : forall pre f n, opt_state pre = Some f -> 0 <= n <= max_q ->
  exists f', opt_state (pre ++ [level_arg n]) = Some f' /\ shown f' = column n /\ lvl f' = n.
Proof. exact levels_table. Qed.
Print Assumptions C02_opt_levels_table.

Theorem C02_column_is_min : forall n r, In r opt_ctl -> rname r <> "inline-limit" ->
  In (rname r, V (nth (Z.to_nat (Z.min n max_col)) (rvals r) 0)) (column n).
Proof. exact column_is_min. Qed.
Print Assumptions C02_column_is_min.

(* -O is -Q2 *)
Theorem C02_opt_O : forall pre f, opt_state pre = Some f ->
  exists f', opt_state (pre ++ ["-O"]) = Some f' /\ shown f' = column 2 /\ lvl f' = 2.
Proof. exact O_sets. Qed.
Print Assumptions C02_opt_O.

(* no optimisation argument: column OPT_DefaultLevel *)
Theorem C02_opt_default :
  match opt_state [], default_level with
  | Some f, Some d => shown f = column d /\ lvl f = d
  | _, _ => False
  end.
Proof. exact default_state. Qed.
Print Assumptions C02_opt_default.

(* -Q<p> switches on exactly the entry p (every flag row but inline-all), -Qno-<p> switches
   off exactly the entry p (every flag row): all other entries and optLevel are unchanged. *)
Theorem C02_opt_single_on : forall pre f p, opt_state pre = Some f -> In p plain_names ->
  exists f', opt_state (pre ++ ["-Q" ++ p]) = Some f' /\
             shown f' = set_shown p (V 1) (shown f) /\ lvl f' = lvl f.
Proof. exact single_on. Qed.
Print Assumptions C02_opt_single_on.

Theorem C02_opt_single_off : forall pre f p, opt_state pre = Some f -> In p flag_names ->
  exists f', opt_state (pre ++ ["-Qno-" ++ p]) = Some f' /\
             shown f' = set_shown p (V 0) (shown f) /\ lvl f' = lvl f.
Proof. exact single_off. Qed.
Print Assumptions C02_opt_single_off.

(* set_shown is "exactly one entry" *)
Theorem C02_set_shown_exact : forall p x l q y, q <> p -> In (q, y) l -> In (q, y) (set_shown p x l).
Proof. exact set_shown_other. Qed.
Print Assumptions C02_set_shown_exact.

(* the one flag with a statement of its own: -Qinline-all also switches inline on *)
Theorem C02_opt_inline_all : forall pre f, opt_state pre = Some f ->
  exists f', opt_state (pre ++ ["-Qinline-all"]) = Some f' /\
             shown f' = set_shown "inline" (V 1) (set_shown "inline-all" (V 1) (shown f)) /\ lvl f' = lvl f.
Proof. exact inline_all_single. Qed.
Print Assumptions C02_opt_inline_all.

(* -Q0 -Q<p> enables exactly p; -Q9 -Qno-<p> disables exactly p *)
Theorem C02_opt_q0_pass : forall pre f p, opt_state pre = Some f -> In p plain_names ->
  exists f', opt_state (pre ++ [level_arg 0; "-Q" ++ p]) = Some f' /\ enabled (shown f') = [p].
Proof. exact q0_pass_enabled. Qed.
Print Assumptions C02_opt_q0_pass.

Theorem C02_opt_qmax_no_pass : forall pre f p, opt_state pre = Some f -> In p flag_names ->
  exists f', opt_state (pre ++ [level_arg max_q; "-Qno-" ++ p]) = Some f' /\
             enabled (shown f') = filter (fun q => negb (String.eqb q p)) (enabled (column max_q)).
Proof. exact qmax_no_pass_enabled. Qed.
Print Assumptions C02_opt_qmax_no_pass.

(* -Qall / -Qno-all: every flag row, no numeric row, optLevel unchanged *)
Theorem C02_opt_all : forall pre f on, opt_state pre = Some f ->
  exists f', opt_state (pre ++ [toggle_arg on "all"]) = Some f' /\ shown f' = all_shown on f /\ lvl f' = lvl f.
Proof. exact all_single. Qed.
Print Assumptions C02_opt_all.

(* -Qinline-limit=<decimal of at most 7 digits> stores 100 * it *)
Theorem C02_opt_inline_limit : forall pre f s, opt_state pre = Some f -> short_decimal s = true ->
  exists f', opt_state (pre ++ ["-Qinline-limit=" ++ s]) = Some f' /\
             shown f' = set_shown "inline-limit" (V (100 * dec_acc 0 s)) (shown f) /\ lvl f' = lvl f.
Proof. exact inline_limit_sets. Qed.
Print Assumptions C02_opt_inline_limit.

(* later arguments override earlier ones *)
Theorem C02_opt_last_toggle_wins : forall pre f p, opt_state pre = Some f -> In p plain_names ->
  (exists f', opt_state (pre ++ ["-Q" ++ p; "-Qno-" ++ p]) = Some f' /\ shown f' = set_shown p (V 0) (shown f)) /\
  (exists f', opt_state (pre ++ ["-Qno-" ++ p; "-Q" ++ p]) = Some f' /\ shown f' = set_shown p (V 1) (shown f)).
Proof. exact last_toggle_wins. Qed.
Print Assumptions C02_opt_last_toggle_wins.

Theorem C02_opt_rejected_stays : forall pre f a post,
  opt_state pre = Some f -> opt_arg f a = None -> opt_state (pre ++ a :: post) = None.
Proof. exact opt_state_rejected. Qed.
Print Assumptions C02_opt_rejected_stays.

(* -Q0 -Q<p> makes optimizeFoam run exactly the steps guarded by p's variable *)
Theorem C02_isolated_pass_trace : forall pre f p, opt_state pre = Some f -> In p plain_names ->
  exists f' r, opt_state (pre ++ [level_arg 0; "-Q" ++ p]) = Some f' /\ In r opt_ctl /\ rname r = p /\
               trace f' = Some (flat_map (steps_of 1 [rvar r]) pipeline).
Proof. exact isolated_trace. Qed.
Print Assumptions C02_isolated_pass_trace.

(* The level table of optfoam.c is the one the compiler documents (`aldor -h Q`), row by row
   (cc-fnonstd excepted: documented at -Q4, never enabled by a level); the default level and -O
   are the documented ones.  A row switched on a level early or late breaks THIS theorem (it is
   not by itself a change of any program's behaviour: the differential run decides that). *)
Theorem C02_opt_table_as_documented : forall r, In r opt_ctl -> rnat r = NFlag -> help_row_ok r.
Proof. exact help_agrees. Qed.
Print Assumptions C02_opt_table_as_documented.

Theorem C02_opt_default_as_documented :
  help_default = default_level /\ match help_O, std_opt with Some n, Some s => s = digit n | _, _ => False end.
Proof. exact help_default_agrees. Qed.
Print Assumptions C02_opt_default_as_documented.

(* ------------------------------------------------------------------ the local rewriting passes

   Semantics (AV.Opt.FoamSem): big step over an ABSTRACT machine state S; `rd` reads a variable,
   `lv` is the value of a side-effect-free opaque node (may depend on the state), `call` runs an
   opaque node with side effects (value and new state).  All of S, rd, lv, call are universally
   quantified.  Statements are refinements: if the original has a value and a final state, the
   rewritten expression has the same value and the same final state. *)

(* cfold_preserves: the constant folder (bottom-up application of the GENERATED folder table to
   calls whose operands are data nodes, and cfoldCast) preserves every expression, of any size.
   Rests on C04's per-row statement about the generated table. *)
Theorem C02_cfold_preserves : forall (S : Type) rd lv call fold_all e,
  bad_free e = true -> forall s r, ev S rd lv call s e = Some r -> ev S rd lv call s (cfold fold_all e) = Some r.
Proof. exact (fun S rd lv call => cfold_preserves_l S rd lv call cfold_folds_to_spec_l). Qed.
Print Assumptions C02_cfold_preserves.

(* rewrite_under_context: soundness of a rewriting is closed under the contexts of the fragment
   (operand of a call, operand of a cast), so it lifts from an expression to the expressions and
   statements containing it *)
Theorem C02_rewrite_under_context : forall (S : Type) rd lv call (f : expr -> expr),
  (forall a s r, ev S rd lv call s a = Some r -> ev S rd lv call s (f a) = Some r) ->
  (forall op args s r, ev S rd lv call s (BCall op args) = Some r -> ev S rd lv call s (BCall op (map f args)) = Some r) /\
  (forall t a s r, ev S rd lv call s (Cast t a) = Some r -> ev S rd lv call s (Cast t (f a)) = Some r).
Proof. exact context_closed. Qed.
Print Assumptions C02_rewrite_under_context.

(* peep_rule_sound, table part: every row of the two tables regenerated from of_peep.c means what
   PeepSem says (each "replace by" field is an identity of the operation for every operand of the
   type; duals are inverses / negations; a table builtin stands for its abstract operation) *)
Theorem C02_peep_rule_tables_sound :
  Forall op_ok peep_ops /\ Forall bv_ok peep_bvals_slow /\ Forall bv_ok peep_bvals_fast.
Proof. exact (conj ops_ok (conj bvals_slow_ok bvals_fast_ok)). Qed.
Print Assumptions C02_peep_rule_tables_sound.

(* peep_preserves (with peep_rule_sound for every rule, rewrite_under_context for the fragment's
   contexts): the peephole pass - unit, zero and absorbing elements, l = r, powers of two, double
   negation, inverse operations, negated comparisons, negated operands, and/or with a constant,
   cast collapse, each with the side-effect guard the C applies - preserves the value and the
   final state of every expression, of any size, for any amount of fuel of the fixpoint loops.
   No hypothesis on the expression or on the run. *)
Theorem C02_peep_preserves : forall (S : Type) rd lv call ff e,
  forall s r, ev S rd lv call s e = Some r -> ev S rd lv call s (fst (peep ff e)) = Some r.
Proof. exact peep_preserves_full. Qed.
Print Assumptions C02_peep_preserves.

(* SCOPE of C02_peep_preserves: integer-like types only.  Every SFlo / DFlo / BInt row of the two rule tables
   names a builtin that has NO value in the model (`bval` is None on every operand list), so an expression
   containing one has no value and the theorem says nothing about it - in particular nothing about the
   float rows of foamBValOpInfoTableFast (-Qffold), whose generic identities x - x = 0, x / x = 1,
   x * 0 = 0, x = x, not (a <= b) = (b < a) ... are false for NaN, infinities and signed zeros.  Those are
   decided by running (tools/c02_float.py; known findings peep:fast-float-table:<shape>). *)
Theorem C02_peep_float_rows_not_covered : forall r vs,
  In r (peep_bvals_fast ++ peep_bvals_slow) -> outside_model_ty (btype r) = true -> bval (bname r) vs = None.
Proof. exact float_rows_not_covered. Qed.
Print Assumptions C02_peep_float_rows_not_covered.

(* the same, for any fuel of peepAux, stated on the pair the model returns *)
Theorem C02_peep_preserves_any_fuel : forall (S : Type) rd lv call ff e e',
  peep ff e = (e', true) -> forall s r, ev S rd lv call s e = Some r -> ev S rd lv call s e' = Some r.
Proof. exact peep_preserves_l. Qed.
Print Assumptions C02_peep_preserves_any_fuel.

(* peep_rule_sound for the two rules that EXCHANGE the evaluation order of operands, with the guard
   exactly as coded after fix 159355b (both operands free of side effects; before it, one rule had
   no guard and the other required only one operand to be free of side effects - both were wrong:
   see the regression items below and corpus/C02/hand-peep-*.json):
   peepNegate  not (a op b) ==> b dual a ;  peepAdditiveOp  (-a) + b ==> b - a,  a +/- (-b) ==> a -/+ b *)
Theorem C02_peep_negate_rule_sound : forall (S : Type) rd lv call ff a e ok,
  negate (peep_tbl ff) a = Some (e, ok) ->
  forall s v s1, ev S rd lv call s (BCall "BoolNot" [a]) = Some (v, s1) -> ev S rd lv call s e = Some (v, s1).
Proof. exact negate_rule_sound. Qed.
Print Assumptions C02_peep_negate_rule_sound.

Theorem C02_peep_additive_rule_sound : forall (S : Type) rd lv call ff t p l r e ok,
  additive (peep_tbl ff) t p l r = Some (e, ok) -> (p = OpPlus \/ p = OpMinus) ->
  forall s vl s1 vr s2 v, ev S rd lv call s l = Some (vl, s1) -> ev S rd lv call s1 r = Some (vr, s2) ->
    in_ty_b t vl = true -> in_ty_b t vr = true -> den2 p t vl vr = Some v ->
    ev S rd lv call s e = Some (v, s2).
Proof. exact additive_rule_sound. Qed.
Print Assumptions C02_peep_additive_rule_sound.

(* no exchange of operands the model would call unsafe can happen (the ghost flag of Peep.v) *)
Theorem C02_peep_flag : forall tbl fuel e, snd (peep_aux tbl fuel e) = true.
Proof. exact peep_aux_flag. Qed.
Print Assumptions C02_peep_flag.

(* regression items of fix 159355b: the exchanges are refused when an operand has a side effect and
   still made when none has *)
Theorem C02_peep_swap_rules_guarded :
  peep false ex_negate = (ex_negate, true) /\
  peep false ex_additive = (ex_additive, true) /\
  peep false (BCall "BoolNot" [BCall "SIntLE" [Var FSInt 0; Leaf FSInt 1 false]])
  = (BCall "SIntLT" [Leaf FSInt 1 false; Var FSInt 0], true) /\
  peep false (BCall "SIntPlus" [BCall "SIntNegate" [Var FSInt 1]; Leaf FSInt 2 false])
  = (BCall "SIntMinus" [Leaf FSInt 2 false; Var FSInt 1], true) /\
  ev rS r_rd r_lv r_call 1 ex_negate = Some (0, 11) /\
  ev rS r_rd r_lv r_call 0 ex_additive = Some (0, 12).
Proof. exact swap_rules_guarded. Qed.
Print Assumptions C02_peep_swap_rules_guarded.

(* peep_drop_needs_pure: the operations that make peepMakeUnaryOp drop its operand have arity 0 in
   the regenerated peepBValOpInfo (the C's guard "arity 0 and operand has a side effect -> leave
   the call"); dropping an operand WITH a side effect changes the final state; the pass keeps such
   a call and drops the operand only when it has no side effect.  (That no rule ever drops an
   effectful operand is part of C02_peep_preserves: the final state is preserved.) *)
Theorem C02_peep_drop_needs_pure :
  forallb (fun p => (arity_of p =? 0)%Z) const_ops = true /\
  ev rS r_rd r_lv (fun x s => (1, 10 * s + Z.of_nat x)) 0 ex_drop = Some (0, 3) /\
  ev rS r_rd r_lv (fun x s => (1, 10 * s + Z.of_nat x)) 0 (Const FBool 0) = Some (0, 0) /\
  peep false ex_drop = (ex_drop, true) /\
  peep false (BCall "BoolAnd" [Const FBool 0; Leaf FBool 3 false]) = (Const FBool 0, true) /\
  peep false (BCall "SIntTimes" [Const FSInt 0; Leaf FSInt 3 true]) = (BCall "SIntTimes" [Const FSInt 0; Leaf FSInt 3 true], true) /\
  peep false (BCall "SIntTimes" [Const FSInt 0; Leaf FSInt 3 false]) = (Const FSInt 0, true).
Proof. exact (conj const_arities drop_needs_pure). Qed.
Print Assumptions C02_peep_drop_needs_pure.

(* Non-vacuity: accepted sequences exist, the conclusions compute to the expected tables *)
Example ex_seq : match opt_state ["-Q3"; "-Qno-cse"; "-qNO-no-peep"; "-Qinline-limit=12"] with
                 | Some f => lvl f = 3 /\ In ("cse", V 0) (shown f) /\ In ("peep", V 1) (shown f) /\
                             In ("inline-limit", V 1200) (shown f) /\ In ("inline-all", V 1) (shown f)
                 | None => False
                 end.
Proof. vm_compute. tauto. Qed.
Example ex_q0_peep : match opt_state ["-O"; "-Q0"; "-Qpeep"] with
                     | Some f => enabled (shown f) = ["peep"] /\
                                 trace f = Some ["STARTING LOOP (%d)"; "Starting peep..."; "Starting peep...";
                                                 "(Starting patchUnit...)"; "Optimizations finished."]
                     | None => False
                     end.
Proof. vm_compute. split; reflexivity. Qed.
Example ex_levels : max_q = 9 /\ max_col = 4 /\ In "cprop" plain_names /\ In "inline-all" flag_names /\
                    ~ In "inline-all" plain_names /\ In ("inline-limit", V 3000) (column 8) /\
                    In ("inline-limit", V 800) (column 4) /\ In ("cfold", V 1) (column 1) /\ In ("ffold", V 0) (column 1).
Proof. vm_compute. intuition congruence. Qed.
Example ex_rejected : opt_state ["-Qfoo"] = None /\ opt_state ["-Q"] = None /\ opt_state ["-Qinline-limit"] = None
                      /\ opt_state ["-Q10"] = None /\ opt_state ["-QPeep"] = None /\ opt_state ["-Qno-ALL"] <> None.
Proof. vm_compute. intuition congruence. Qed.
Example ex_fold : cfold true (BCall "SIntPlus" [BCall "SIntTimes" [Const FSInt 6; Const FSInt 7]; Var FSInt 0])
                  = BCall "SIntPlus" [Const FSInt 42; Var FSInt 0] /\
                  cfold true (BCall "SIntNext" [Const FSInt 9223372036854775807]) = Const FSInt (-9223372036854775808) /\
                  bad_free (BCall "SIntPlus" [Const FSInt 1; Var FSInt 0]) = true.
Proof. vm_compute. repeat split; reflexivity. Qed.
Example ex_peep : peep false (BCall "SIntPlus" [BCall "SIntTimes" [Var FSInt 0; Const FSInt 8]; Const FSInt 0])
                  = (BCall "SIntShiftUp" [Var FSInt 0; Const FSInt 3], true) /\
                  peep false (BCall "BoolNot" [BCall "BoolNot" [Var FBool 1]]) = (Var FBool 1, true) /\
                  peep false (BCall "SIntLE" [Const FSInt 0; Leaf FSInt 2 false])
                  = (BCall "BoolNot" [BCall "SIntIsNeg" [Leaf FSInt 2 false]], true).
Proof. vm_compute. repeat split; reflexivity. Qed.
