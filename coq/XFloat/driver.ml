(* C19 driver for the extracted model (Xfloat).  One operation per line on stdin, one
   result per line on stdout, same protocol and output format as harness/xfloat/h.c ops.
   This file only converts between text and Coq's binary Z; every computation is a call
   into the extracted code. *)
open Xfloat

(* ---- text <-> Z (representation changes only) ---- *)

let hexval c =
  match c with
  | '0'..'9' -> Char.code c - 48
  | 'a'..'f' -> Char.code c - 87
  | 'A'..'F' -> Char.code c - 55
  | _ -> raise Exit

(* push one more low bit under a positive-or-zero *)
let push (acc : positive option) (b : bool) : positive option =
  match acc with
  | None -> if b then Some XH else None
  | Some p -> Some (if b then XI p else XO p)

let z_of_hex_raw (s : Stdlib.String.t) : z =
  let acc = ref None in
  String.iter (fun c ->
      let v = hexval c in
      List.iter (fun k -> acc := push !acc ((v lsr k) land 1 = 1)) [3; 2; 1; 0]) s;
  match !acc with None -> Z0 | Some p -> Zpos p

(* input validation as in the C harness: at most [n] hex digits *)
let hx (n : int) (s : Stdlib.String.t) : z =
  if String.length s > n then raise Exit else z_of_hex_raw s

(* bits of a positive, least significant first *)
let rec bits_of_pos (p : positive) : bool list =
  match p with
  | XH -> [true]
  | XO q -> false :: bits_of_pos q
  | XI q -> true :: bits_of_pos q

let hex_of_z (width : int) (v : z) : Stdlib.String.t =
  let bits = match v with Z0 -> [] | Zpos p -> bits_of_pos p | Zneg _ -> raise Exit in
  let a = Array.make (max width ((List.length bits + 3) / 4)) 0 in
  List.iteri (fun i b -> if b then a.(i / 4) <- a.(i / 4) lor (1 lsl (i mod 4))) bits;
  let n = Array.length a in
  if n > width then raise Exit;
  String.init n (fun i -> "0123456789abcdef".[a.(n - 1 - i)])

let z_of_int (n : int) : z =
  let rec pos k = (* k > 0 *)
    if k = 1 then XH else if k land 1 = 1 then XI (pos (k lsr 1)) else XO (pos (k lsr 1)) in
  if n = 0 then Z0 else if n > 0 then Zpos (pos n) else Zneg (pos (- n))

let int_of_z (v : z) : int =
  let rec ip p = match p with XH -> 1 | XO q -> 2 * ip q | XI q -> 2 * ip q + 1 in
  match v with Z0 -> 0 | Zpos p -> ip p | Zneg p -> - (ip p)

let dec s = z_of_int (int_of_string s)

(* Coq string (list of 8-bit ascii, least significant bit first) -> OCaml string *)
let char_of_ascii (a : ascii) : char =
  match a with
  | Ascii (b0, b1, b2, b3, b4, b5, b6, b7) ->
      let bit b k = if b then 1 lsl k else 0 in
      Char.chr (bit b0 0 lor bit b1 1 lor bit b2 2 lor bit b3 3 lor bit b4 4 lor bit b5 5 lor bit b6 6 lor bit b7 7)
let rec ostring_of (s : string) : Stdlib.String.t =
  match s with
  | EmptyString -> ""
  | String (a, t) -> Stdlib.String.make 1 (char_of_ascii a) ^ ostring_of t

(* the C harness rejects nb outside 1..16, negative shift counts, and (for the
   out-of-place shape) shift counts >= CHAR_BIT: the C code asserts / is not used there *)
let hxnb (nb : Stdlib.String.t) (h : Stdlib.String.t) : z =
  let n = int_of_string nb in
  if n < 1 || n > 16 then raise Exit else hx (2 * n) h
let nonneg (s : Stdlib.String.t) : z = let n = int_of_string s in if n < 0 then raise Exit else z_of_int n
let nonneg7 (s : Stdlib.String.t) : z = let n = int_of_string s in if n < 0 || n > 7 then raise Exit else z_of_int n
let sdec v = string_of_int (int_of_z v)
let b01 b = if b then "1" else "0"

(* C's atoi(tok) != 0 for a Bool argument *)
let boolarg s = int_of_string s <> 0

let run (tok : Stdlib.String.t list) : Stdlib.String.t =
  match tok with
  | ["srt"; h] ->
      let x = xsfFrNative (hx 8 h) in
      Printf.sprintf "X=%s back=%s" (hex_of_z 12 x) (hex_of_z 8 (xsfToNative x))
  | ["drt"; h] ->
      let x = xdfFrNative (hx 16 h) in
      Printf.sprintf "X=%s back=%s" (hex_of_z 20 x) (hex_of_z 16 (xdfToNative x))
  | ["sto"; h] -> hex_of_z 8 (xsfToNative (hx 12 h))
  | ["dto"; h] -> hex_of_z 16 (xdfToNative (hx 20 h))
  | ["sdis"; h] ->
      let (((s, e), f), z) = natDissemble sf (hx 8 h) in
      Printf.sprintf "%s %s %s %s" (b01 s) (sdec e) (hex_of_z 8 f) (b01 z)
  | ["ddis"; h] ->
      let (((s, e), f), z) = natDissemble df (hx 16 h) in
      Printf.sprintf "%s %s %s %s" (b01 s) (sdec e) (hex_of_z 16 f) (b01 z)
  | ["sasm"; s; e; f] -> hex_of_z 8 (natAssemble sf (boolarg s) (dec e) (hx 8 f))
  | ["dasm"; s; e; f] -> hex_of_z 16 (natAssemble df (boolarg s) (dec e) (hx 16 f))
  | ["xsdis"; h] ->
      let ((s, e), f) = xDissemble xsf (hx 12 h) in
      Printf.sprintf "%s %s %s" (b01 s) (sdec e) (hex_of_z 8 f)
  | ["xddis"; h] ->
      let ((s, e), f) = xDissemble xdf (hx 20 h) in
      Printf.sprintf "%s %s %s" (b01 s) (sdec e) (hex_of_z 16 f)
  | ["xsasm"; s; e; f] -> hex_of_z 12 (xAssemble xsf (boolarg s) (dec e) (hx 8 f))
  | ["xdasm"; s; e; f] -> hex_of_z 20 (xAssemble xdf (boolarg s) (dec e) (hx 16 f))
  | ["fsd"; h; j] ->
      let ((s, e), w) = fiSFloDissemble (hx 16 j) (hx 8 h) in
      Printf.sprintf "%s %s %s" (sdec s) (sdec e) (hex_of_z 16 w)
  | ["fsa"; s; e; w] -> hex_of_z 8 (fiSFloAssemble (dec s) (dec e) (hx 16 w))
  | ["fdd"; h] ->
      let (((s, e), w0), _) = fiDFloDissemble Z0 (hx 16 h) in
      Printf.sprintf "%s %s %s" (sdec s) (sdec e) (hex_of_z 16 w0)
  | ["fda"; s; e; w0; w1] -> hex_of_z 16 (fiDFloAssemble (dec s) (dec e) (hx 16 w0) (hx 16 w1))
  | ["sda"; h] ->
      let (((s, e), f), _) = natDissemble sf (hx 8 h) in hex_of_z 8 (natAssemble sf s e f)
  | ["dda"; h] ->
      let (((s, e), f), _) = natDissemble df (hx 16 h) in hex_of_z 16 (natAssemble df s e f)
  | ["fsr"; h; j] ->
      let ((s, e), w) = fiSFloDissemble (hx 16 j) (hx 8 h) in hex_of_z 8 (fiSFloAssemble s e w)
  | ["fdr"; h] ->
      let (((s, e), w0), w1) = fiDFloDissemble Z0 (hx 16 h) in hex_of_z 16 (fiDFloAssemble s e w0 w1)
  | ["dsp"; rep; h] ->
      (* DFloatSprint's decision: T <fixed text> or P <printf format> <precision> *)
      let m = if int_of_string rep <> 0 then sprint_floatrep0 else sprint_default0 in
      (match dfloatSprint m (hx 16 h) with
       | SText t -> "T " ^ ostring_of t
       | SPrintf (f, p, _) -> "P " ^ ostring_of f ^ " " ^ sdec p)
  | ["shu"; nb; h; nsh] -> hex_of_z (2 * int_of_string nb) (bfShiftUp (dec nb) (hxnb nb h) (nonneg nsh))
  | ["shd"; nb; h; nsh; b1] ->
      hex_of_z (2 * int_of_string nb) (bfShiftDn (dec nb) (hxnb nb h) (nonneg nsh) (boolarg b1))
  | ["shdo"; nb; h; nsh] ->
      hex_of_z (2 * int_of_string nb) (bfShiftDn (dec nb) (hxnb nb h) (nonneg7 nsh) false)
  | ["ff1"; nb; h] -> sdec (bfFirst1 (dec nb) (hxnb nb h))
  | ["fnorm"; e; nb; h] ->
      let (e', p) = fracNormalize (dec e) (dec nb) (hxnb nb h) in
      Printf.sprintf "%s %s" (sdec e') (hex_of_z (2 * int_of_string nb) p)
  | ["fden"; e; emin; nb; h; lglg; hn1] ->
      let (e', p) = fracDenormalize (dec e) (dec emin) (dec nb) (hxnb nb h) (dec lglg) (boolarg hn1) in
      Printf.sprintf "%s %s" (sdec e') (hex_of_z (2 * int_of_string nb) p)
  | ["scl"; h] -> sdec (class_code (natClassify sf (hx 8 h)))
  | ["dcl"; h] -> sdec (class_code (natClassify df (hx 16 h)))
  | ["xscl"; h] -> sdec (class_code (xClassify xsf (hx 12 h)))
  | ["xdcl"; h] -> sdec (class_code (xClassify xdf (hx 20 h)))
  | [] -> ""
  | _ -> "ERR"

let () =
  try
    while true do
      let line = input_line stdin in
      let tok = List.filter (fun s -> s <> "") (String.split_on_char ' ' (String.trim line)) in
      let out = try run tok with _ -> "ERR" in
      print_string out; print_char '\n'
    done
  with End_of_file -> ()
