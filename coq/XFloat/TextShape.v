(* C19 -- shape of util.c:DFloatSprint, the one function through which every float
   constant reaches a TEXT output (generated C via ccode.h:ccoFloatOf, Lisp and .fm via
   sexpr.c:sxiWrUnscanToken).  Definitions only; Gen/XFloatParams.v imports this file and
   defines one [sprint_mode] per value of cmdFloatRepFlag, extracted from the current
   source text by props/c19.py. *)
Require Import ZArith String.
Local Open Scope Z_scope.

(*   if (d == 0.0) sprintf(buf, ZFMT [, signbit(d) ? NEG : POS]);
     else          sprintf(buf, GFMT, PREC, d);                                  *)
Record sprint_mode := {
  sm_ok          : bool;    (* the source has exactly the statement shape above *)
  sm_zero_signed : bool;    (* ZFMT starts with %s and the argument is signbit(d) ? NEG : POS *)
  sm_neg         : string;  (* NEG *)
  sm_pos         : string;  (* POS *)
  sm_zero_body   : string;  (* ZFMT without the leading %s *)
  sm_fmt         : string;  (* GFMT *)
  sm_prec        : Z        (* value of PREC (DBL_DIG + 2, or DBL_DIG under -Wfloatrep) *)
}.
