(* C19 -- extraction of the executable model for the correspondence run.
   Only ExtrOcamlBasic: Z stays Coq's binary Z, nothing is mapped to OCaml integers. *)
Require Import ExtrOcamlBasic.
Require Import AV.Gen.XFloatParams.
Require Import AV.XFloat.Model.
Require Import AV.XFloat.TextShape AV.XFloat.TextModel.

Extraction "XFloat/extracted/xfloat.ml"
  sf df xsf xdf
  bfShiftUp bfShiftDn bfFirst1 fracNormalize fracDenormalize
  natDissemble natAssemble xDissemble xAssemble
  xsfFrNative xsfToNative xdfFrNative xdfToNative
  natClassify xClassify class_code
  fiSFloDissemble fiSFloAssemble fiDFloDissemble fiDFloAssemble
  dfloatSprint sprint_default sprint_floatrep sx_mark.
