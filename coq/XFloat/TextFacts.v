(* C19 -- facts about the text route of a float constant (TextModel.v). *)
Require Import ZArith Lia Bool String Ascii.
Require Import AV.XFloat.TextShape AV.Gen.XFloatParams AV.XFloat.TextModel.
Local Open Scope Z_scope.

(* the current source has the modelled statement shape, the general case prints with
   "%#.*g", and the precisions are DBL_DIG + 2 (default) and DBL_DIG (-Wfloatrep) *)
Lemma sprint_shape_all :
  sm_ok sprint_default = true /\ sm_ok sprint_floatrep = true /\
  sm_fmt sprint_default = "%#.*g"%string /\ sm_fmt sprint_floatrep = "%#.*g"%string /\
  sm_prec sprint_default = XP.DBL_DIG + 2 /\ sm_prec sprint_floatrep = XP.DBL_DIG /\
  XP.DBL_DIG = 15.
Proof. vm_compute. repeat split; reflexivity. Qed.

Lemma zero_patterns bits : 0 <= bits < 2 ^ 64 -> is_zero64 bits = true -> bits = 0 \/ bits = 2 ^ 63.
Proof.
  unfold is_zero64. change (2 ^ 64) with 18446744073709551616. change (2 ^ 63) with 9223372036854775808.
  intros H Hz. apply Z.eqb_eq in Hz.
  assert (bits = 9223372036854775808 * (bits / 9223372036854775808) + bits mod 9223372036854775808)
    by (apply Z.div_mod; lia).
  assert (0 <= bits / 9223372036854775808 < 2).
  { split. apply Z.div_pos; lia. apply Z.div_lt_upper_bound; lia. }
  lia.
Qed.

(* what a reader gets back from the zero text, directly (C, Lisp) and after sexpr.c has
   put the exponent marker in *)
Definition zero_text_reads_back (m : sprint_mode) (bits : Z) : Prop :=
  exists t, dfloatSprint m bits = SText t /\
            scan_zero_text t = Some bits /\
            scan_zero_text (sx_mark "e"%char t) = Some bits /\
            scan_zero_text (sx_mark "s"%char t) = Some bits.

(* THE ZERO CASE PRESERVES THE SIGN BIT: +0.0 and -0.0 are written as different texts,
   each of which reads back as the zero it came from, in both precision modes *)
Lemma sprint_zero_keeps_sign_all :
  forall bits, 0 <= bits < 2 ^ 64 -> is_zero64 bits = true ->
    zero_text_reads_back sprint_default bits /\ zero_text_reads_back sprint_floatrep bits.
Proof.
  intros bits H Hz. destruct (zero_patterns bits H Hz) as [-> | ->];
    (split; eexists; (split; [vm_compute; reflexivity|]); vm_compute; repeat split; reflexivity).
Qed.

(* every other value goes to printf with the mode's precision *)
Lemma sprint_nonzero_all :
  forall m bits, is_zero64 bits = false -> dfloatSprint m bits = SPrintf (sm_fmt m) (sm_prec m) bits.
Proof. intros m bits H. unfold dfloatSprint. rewrite H. reflexivity. Qed.

(* ---- reading back the general case: libc / C compiler / Lisp reader as named oracles ---- *)
Section ReadBack.
  (* [printf_g fmt prec bits]: the text sprintf(buf, fmt, prec, d) writes;
     [strtod s]: the double a reader (strtod, C floating constant, Lisp reader) makes of s *)
  Variable printf_g : string -> Z -> Z -> string.
  Variable strtod   : string -> option Z.

  (* finite: exponent field not all ones *)
  Definition finite64 (bits : Z) : bool := negb ((bits / 2 ^ 52) mod 2048 =? 2047).

  (* TRUSTED, NAMED (not proved here): a correctly rounding printf with 17 significant
     digits followed by a correctly rounding reader is the identity on finite binary64
     values (10^16 > 2^53; D. Matula 1968; glibc and gcc are correctly rounding). *)
  Definition g17_roundtrip : Prop :=
    forall bits, 0 <= bits < 2 ^ 64 -> finite64 bits = true -> is_zero64 bits = false ->
      strtod (printf_g "%#.*g"%string 17 bits) = Some bits.
  (* the reader agrees with the zero-text fragment modelled in TextModel *)
  Definition reader_reads_zero_text : Prop :=
    forall s z, scan_zero_text s = Some z -> strtod s = Some z.

  Definition render (r : sprint_res) : string :=
    match r with SText s => s | SPrintf f p b => printf_g f p b end.

  (* Every finite double constant written by DFloatSprint in the default mode reads back
     as the same bits -- GIVEN the two hypotheses about libc above. *)
  Lemma sprint_default_readback_all :
    g17_roundtrip -> reader_reads_zero_text ->
    forall bits, 0 <= bits < 2 ^ 64 -> finite64 bits = true ->
      strtod (render (dfloatSprint sprint_default bits)) = Some bits.
  Proof.
    intros H17 Hz bits Hb Hf.
    destruct (is_zero64 bits) eqn:E.
    - destruct (sprint_zero_keeps_sign_all bits Hb E) as [(t & Ht & Hs & _) _].
      rewrite Ht. cbn [render]. apply Hz. assumption.
    - rewrite sprint_nonzero_all by assumption. cbn [render].
      change (sm_fmt sprint_default) with "%#.*g"%string. change (sm_prec sprint_default) with 17.
      apply H17; assumption.
  Qed.
End ReadBack.

(* ---- examples ---- *)
Example ex_sprint_negzero : dfloatSprint sprint_default (2 ^ 63) = SText "-0.0000000000000000"%string.
Proof. vm_compute. reflexivity. Qed.
Example ex_sprint_poszero : dfloatSprint sprint_default 0 = SText "0.0000000000000000"%string.
Proof. vm_compute. reflexivity. Qed.
Example ex_sx_mark_zero : sx_mark "s"%char "-0.0000000000000000"%string = "-0.0000000000000000s0"%string.
Proof. vm_compute. reflexivity. Qed.
Example ex_sx_mark_exp : sx_mark "s"%char "1.4012984643248171e-45"%string = "1.4012984643248171s-45"%string.
Proof. vm_compute. reflexivity. Qed.
(* what sexpr.c makes of printf's output for an infinity / a NaN: no reader accepts it *)
Example ex_sx_mark_inf : sx_mark "e"%char "inf"%string = "enf"%string /\ sx_mark "s"%char "-nan"%string = "-san"%string.
Proof. vm_compute. split; reflexivity. Qed.
Example ex_scan_reject : scan_zero_text "enf"%string = None /\ scan_zero_text "0.1"%string = None /\ scan_zero_text "-0.0e0"%string = Some (2 ^ 63).
Proof. vm_compute. repeat split; reflexivity. Qed.
Example ex_sprint_one : dfloatSprint sprint_default 0x3ff0000000000000 = SPrintf "%#.*g"%string 17 0x3ff0000000000000.
Proof. vm_compute. reflexivity. Qed.
(* the pre-fix shape (zero text without the sign) does NOT have the property *)
Example ex_unsigned_zero_loses_sign :
  let old := Build_sprint_mode true false ""%string ""%string "0.0000000000000000"%string "%#.*g"%string 17 in
  dfloatSprint old (2 ^ 63) = SText "0.0000000000000000"%string /\ scan_zero_text "0.0000000000000000"%string = Some 0.
Proof. vm_compute. split; reflexivity. Qed.

(* ---- sexpr.c writer / scanner (5586a2c) ---- *)

(* the current sexpr.c has the modelled writer, including the '0' after a trailing point *)
Lemma sx_writer_shape_all :
  XP.sx_writer_ok = true /\ XP.sx_pad_point = true /\ XP.sx_expt_markers = "esfdlESFDL"%string.
Proof. vm_compute. repeat split; reflexivity. Qed.

Fixpoint all_digits (s : string) : bool :=
  match s with EmptyString => true | String c t => is_digit c && all_digits t end.

Lemma digit_not_alpha c : is_digit c = true -> is_alpha c = false.
Proof.
  unfold is_digit, is_alpha. intros H.
  destruct (Z.of_nat (nat_of_ascii c)) eqn:E; lia.
Qed.

Lemma digit_not_point c : is_digit c = true -> Ascii.eqb c "."%char = false.
Proof.
  intros H. destruct (Ascii.eqb_spec c "."%char) as [->|]; [vm_compute in H; discriminate|reflexivity].
Qed.

(* writer on  digits "."  : nothing is a letter, so the point is padded and the marker added *)
Lemma sx_mark_aux_digits_point mk prev ds :
  all_digits ds = true ->
  sx_mark_aux true mk prev (ds ++ "."%string)%string = (ds ++ ".0"%string ++ String mk "0"%string)%string.
Proof.
  revert prev. induction ds as [|c t IH]; intros prev H.
  - reflexivity.
  - cbn [all_digits] in H. apply andb_prop in H. destruct H as [Hc Ht].
    cbn [append sx_mark_aux]. rewrite (digit_not_alpha c Hc). f_equal. apply IH. exact Ht.
Qed.

Lemma skip_digits_app ds rest :
  all_digits ds = true -> starts_digit rest = false -> skip_digits (ds ++ rest)%string = rest.
Proof.
  induction ds as [|c t IH]; intros H Hr.
  - cbn [append]. destruct rest as [|r u]; [reflexivity|]. cbn [starts_digit] in Hr. cbn [skip_digits]. rewrite Hr. reflexivity.
  - cbn [all_digits] in H. apply andb_prop in H. destruct H as [Hc Ht].
    cbn [append skip_digits]. rewrite Hc. apply IH; assumption.
Qed.

(* WHAT THE SCANNER ACCEPTS, trailing-point case (the case 5586a2c repairs): for every
   non-empty digit string ds, optional '-', and marker s or e, the atom written for the
   printf text  [-]ds"."  is a float token of sexpr.c's scanner. *)
Lemma sx_trailing_point_accepted_all :
  forall (neg : bool) (ds : string) (mk : ascii),
    all_digits ds = true -> ds <> EmptyString -> (mk = "s"%char \/ mk = "e"%char) ->
    sx_float_token (sx_mark mk ((if neg then "-"%string else ""%string) ++ ds ++ "."%string)%string) = true.
Proof.
  intros neg ds mk Hd Hne Hmk.
  unfold sx_mark, sx_mark_gen. change XP.sx_pad_point with true.
  assert (Hw : sx_mark_aux true mk false ((if neg then "-"%string else ""%string) ++ ds ++ "."%string)%string
               = ((if neg then "-"%string else ""%string) ++ ds ++ ".0"%string ++ String mk "0"%string)%string).
  { destruct neg.
    - cbn [append sx_mark_aux]. change (is_alpha "-"%char) with false. cbv iota.
      f_equal. apply sx_mark_aux_digits_point. exact Hd.
    - cbn [append]. apply sx_mark_aux_digits_point. exact Hd. }
  rewrite Hw. unfold sx_float_token.
  assert (Hs : strip_sign ((if neg then "-"%string else ""%string) ++ ds ++ ".0"%string ++ String mk "0"%string)%string
               = (ds ++ ".0"%string ++ String mk "0"%string)%string).
  { destruct neg; cbn [append strip_sign].
    - reflexivity.
    - destruct ds as [|c t]; [congruence|]. cbn [all_digits] in Hd. apply andb_prop in Hd. destruct Hd as [Hc _].
      cbn [append strip_sign]. replace (is_sign c) with false; [reflexivity|].
      unfold is_sign. destruct (Ascii.eqb_spec c "-"%char) as [->|]; [vm_compute in Hc; discriminate|].
      destruct (Ascii.eqb_spec c "+"%char) as [->|]; [vm_compute in Hc; discriminate|reflexivity]. }
  rewrite Hs. rewrite skip_digits_app by (assumption || reflexivity).
  destruct Hmk as [-> | ->]; vm_compute; reflexivity.
Qed.

(* the writer before 5586a2c produced a token the scanner refuses *)
Example ex_sx_old_writer_rejected :
  sx_mark_gen false "s"%char "16092042014752768."%string = "16092042014752768.s0"%string /\
  sx_float_token "16092042014752768.s0"%string = false /\
  sx_mark "s"%char "16092042014752768."%string = "16092042014752768.0s0"%string /\
  sx_float_token "16092042014752768.0s0"%string = true.
Proof. vm_compute. repeat split; reflexivity. Qed.
(* the other shapes of "%#.17g" and the zero text *)
Example ex_sx_tokens_accepted :
  sx_float_token (sx_mark "e"%char "4.9406564584124654e-324"%string) = true /\
  sx_float_token (sx_mark "s"%char "-0.0000000000000000"%string) = true /\
  sx_float_token (sx_mark "e"%char "1.7976931348623157e+308"%string) = true /\
  sx_float_token (sx_mark "s"%char "0.10000000149011612"%string) = true /\
  sx_float_token (sx_mark "e"%char "inf"%string) = false.
Proof. vm_compute. repeat split; reflexivity. Qed.
