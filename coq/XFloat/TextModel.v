(* C19 -- model of the text route of a float constant.

     util.c   DFloatSprint(buf, d)      decision: zero -> fixed text with sign, else printf
     sexpr.c  sxiWrUnscanToken SX_Float: the first letter of that text is overwritten by the
              exponent marker ('e' for DFlo, 's' for SFlo); when there is no letter the
              marker and "0" are appended

   A double is its IEEE bit pattern (0 <= bits < 2^64); an SFlo constant is widened to
   double by the callers (exactly) before it is printed.  What printf("%#.*g") prints for
   a non-zero value, and what strtod / the C compiler / the Lisp reader read back, is
   libc's business: [SPrintf] is left symbolic and the theorems that need it take the
   behaviour as a named hypothesis.  The ZERO case is decided entirely in the C source and
   is modelled completely, including a reader for exactly the texts it can produce.

   Definitions only. *)
Require Import ZArith Bool String Ascii.
Require Import AV.XFloat.TextShape AV.Gen.XFloatParams.
Local Open Scope Z_scope.

(* d == 0.0 : true for +0.0 and -0.0 only (IEEE comparison) *)
Definition is_zero64 (bits : Z) : bool := bits mod 2 ^ 63 =? 0.
(* signbit(d) *)
Definition signbit64 (bits : Z) : bool := 2 ^ 63 <=? bits.

Inductive sprint_res :=
| SText   (s : string)                        (* text fixed by the source *)
| SPrintf (fmt : string) (prec : Z) (bits : Z). (* sprintf(buf, fmt, prec, d) *)

Definition dfloatSprint (m : sprint_mode) (bits : Z) : sprint_res :=
  if is_zero64 bits then
    SText ((if sm_zero_signed m then (if signbit64 bits then sm_neg m else sm_pos m) else ""%string)
           ++ sm_zero_body m)%string
  else SPrintf (sm_fmt m) (sm_prec m) bits.

(* the two instances of the current source: cmdFloatRepFlag = false / true *)
Definition sprint_default  := XP.sprint_default.
Definition sprint_floatrep := XP.sprint_floatrep.

(* ---- sexpr.c: exponent marker ---- *)

Definition is_alpha (c : ascii) : bool :=
  let n := Z.of_nat (nat_of_ascii c) in
  ((65 <=? n) && (n <=? 90)) || ((97 <=? n) && (n <=? 122)).

(* for (c = buf; *c; c++) if (isalpha( *c)) { *c = marker; break; }
   if (! *c) { append marker, '0' } *)
Fixpoint sx_mark (marker : ascii) (s : string) : string :=
  match s with
  | EmptyString => String marker "0"%string
  | String c t => if is_alpha c then String marker t else String c (sx_mark marker t)
  end.

(* ---- reader for the texts the zero case can produce ----
   [-] zero-digits-and-point [ marker zero-digits ]   denotes a zero with the written
   sign, in C (strtod, floating constant), in Lisp and in sexpr.c's own scanner; anything
   else is outside this fragment (None). *)
Definition is_zero_digit (c : ascii) : bool :=
  (Ascii.eqb c "0"%char) || (Ascii.eqb c "."%char).

Fixpoint all_zero_digits (s : string) : bool :=
  match s with
  | EmptyString => true
  | String c t => is_zero_digit c && all_zero_digits t
  end.

(* mantissa part up to the first letter, and what follows the letter *)
Fixpoint split_marker (s : string) : string * option string :=
  match s with
  | EmptyString => (EmptyString, None)
  | String c t =>
      if is_alpha c then (EmptyString, Some t)
      else let '(a, b) := split_marker t in (String c a, b)
  end.

Definition zero_body_ok (s : string) : bool :=
  let '(mant, ex) := split_marker s in
  negb (String.eqb mant ""%string) && all_zero_digits mant &&
  match ex with
  | None => true
  | Some e => negb (String.eqb e ""%string) && all_zero_digits e
  end.

Definition scan_zero_text (s : string) : option Z :=
  match s with
  | String "-"%char t => if zero_body_ok t then Some (2 ^ 63) else None
  | _ => if zero_body_ok s then Some 0 else None
  end.
