(* C19 -- model of the text route of a float constant.

     util.c   DFloatSprint(buf, d)      decision: zero -> fixed text with sign, else printf
     sexpr.c  sxiWrUnscanToken SX_Float: the first letter of that text is overwritten by the
              exponent marker ('e' for DFlo, 's' for SFlo); when there is no letter the
              marker and "0" are appended

   A double is its IEEE bit pattern (0 <= bits < 2^64); an SFlo constant is widened to
   double by the callers (exactly) before it is printed.  What printf("%#.*g") prints for
   a non-zero value, and what strtod / the C compiler / the Lisp reader read back, is
   libc's business: [SPrintf] is left symbolic and the theorems that need it take the
   behaviour as a named hypothesis.  The ZERO case is decided entirely in the C source and
   is modelled completely, including a reader for exactly the texts it can produce.

   Definitions only. *)
Require Import ZArith Bool String Ascii.
Require Import AV.XFloat.TextShape AV.Gen.XFloatParams.
Local Open Scope Z_scope.

(* d == 0.0 : true for +0.0 and -0.0 only (IEEE comparison) *)
Definition is_zero64 (bits : Z) : bool := bits mod 2 ^ 63 =? 0.
(* signbit(d) *)
Definition signbit64 (bits : Z) : bool := 2 ^ 63 <=? bits.

Inductive sprint_res :=
| SText   (s : string)                        (* text fixed by the source *)
| SPrintf (fmt : string) (prec : Z) (bits : Z). (* sprintf(buf, fmt, prec, d) *)

Definition dfloatSprint (m : sprint_mode) (bits : Z) : sprint_res :=
  if is_zero64 bits then
    SText ((if sm_zero_signed m then (if signbit64 bits then sm_neg m else sm_pos m) else ""%string)
           ++ sm_zero_body m)%string
  else SPrintf (sm_fmt m) (sm_prec m) bits.

(* the two instances of the current source: cmdFloatRepFlag = false / true *)
Definition sprint_default  := XP.sprint_default.
Definition sprint_floatrep := XP.sprint_floatrep.

(* ---- sexpr.c: exponent marker ---- *)

Definition is_alpha (c : ascii) : bool :=
  let n := Z.of_nat (nat_of_ascii c) in
  ((65 <=? n) && (n <=? 90)) || ((97 <=? n) && (n <=? 122)).

(* for (c = buf; *c; c++) if (isalpha( *c)) { *c = marker; break; }
   if (! *c) { [if (c > buf && c[-1] == '.') *c++ = '0';]  append marker, '0' }
   The bracketed statement exists since /repo 5586a2c ("123." + marker is not a float
   token for the reader); [pad] says whether the current source has it
   (XP.sx_pad_point, parsed from sexpr.c on every run). [prev_point]: c > buf && c[-1] == '.' *)
Fixpoint sx_mark_aux (pad : bool) (marker : ascii) (prev_point : bool) (s : string) : string :=
  match s with
  | EmptyString =>
      ((if pad && prev_point then "0" else "") ++ String marker "0")%string
  | String c t =>
      if is_alpha c then String marker t
      else String c (sx_mark_aux pad marker (Ascii.eqb c "."%char) t)
  end.
Definition sx_mark_gen (pad : bool) (marker : ascii) (s : string) : string :=
  sx_mark_aux pad marker false s.
(* the writer of the current source *)
Definition sx_mark (marker : ascii) (s : string) : string := sx_mark_gen XP.sx_pad_point marker s.

(* ---- sexpr.c's scanner: the float branch of the "potential number" rules for a token
   that contains a decimal point (every text DFloatSprint produces has one: '#' flag):
       [sign] {digit}* '.' {digit}+ [ marker [sign] {digit}+ ]
   marker is one of XP.sx_expt_markers ("esfdlESFDL").  Anything else with digits is a
   "meaningless potential number" (read error). *)
Definition is_digit (c : ascii) : bool :=
  let n := Z.of_nat (nat_of_ascii c) in (48 <=? n) && (n <=? 57).
Definition is_sign (c : ascii) : bool := Ascii.eqb c "-"%char || Ascii.eqb c "+"%char.
Fixpoint mem_ascii (c : ascii) (s : string) : bool :=
  match s with EmptyString => false | String d t => Ascii.eqb c d || mem_ascii c t end.
Definition is_expt_marker (c : ascii) : bool := mem_ascii c XP.sx_expt_markers.

Fixpoint skip_digits (s : string) : string :=
  match s with
  | String c t => if is_digit c then skip_digits t else s
  | EmptyString => EmptyString
  end.
Definition starts_digit (s : string) : bool :=
  match s with String c _ => is_digit c | EmptyString => false end.
Definition strip_sign (s : string) : string :=
  match s with String c t => if is_sign c then t else s | EmptyString => s end.

Definition sx_exponent_ok (s : string) : bool :=
  let s := strip_sign s in
  starts_digit s && String.eqb (skip_digits s) ""%string.

Definition sx_float_token (s : string) : bool :=
  match skip_digits (strip_sign s) with
  | String "."%char t =>
      starts_digit t &&
      match skip_digits t with
      | EmptyString => true
      | String m u => is_expt_marker m && sx_exponent_ok u
      end
  | _ => false
  end.

(* ---- reader for the texts the zero case can produce ----
   [-] zero-digits-and-point [ marker zero-digits ]   denotes a zero with the written
   sign, in C (strtod, floating constant), in Lisp and in sexpr.c's own scanner; anything
   else is outside this fragment (None). *)
Definition is_zero_digit (c : ascii) : bool :=
  (Ascii.eqb c "0"%char) || (Ascii.eqb c "."%char).

Fixpoint all_zero_digits (s : string) : bool :=
  match s with
  | EmptyString => true
  | String c t => is_zero_digit c && all_zero_digits t
  end.

(* mantissa part up to the first letter, and what follows the letter *)
Fixpoint split_marker (s : string) : string * option string :=
  match s with
  | EmptyString => (EmptyString, None)
  | String c t =>
      if is_alpha c then (EmptyString, Some t)
      else let '(a, b) := split_marker t in (String c a, b)
  end.

Definition zero_body_ok (s : string) : bool :=
  let '(mant, ex) := split_marker s in
  negb (String.eqb mant ""%string) && all_zero_digits mant &&
  match ex with
  | None => true
  | Some e => negb (String.eqb e ""%string) && all_zero_digits e
  end.

Definition scan_zero_text (s : string) : option Z :=
  match s with
  | String "-"%char t => if zero_body_ok t then Some (2 ^ 63) else None
  | _ => if zero_body_ok s then Some 0 else None
  end.
