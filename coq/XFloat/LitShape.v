(* C19 -- shape of a literal-conversion expression, as extracted by the translator
   (props/c19.py) from of_cfold.c (the constant folder) and foam_c.c (the run time).

   Definitions only.  The generated file Gen/XFloatParams.v imports this file and
   defines one [lexp] per conversion site. *)
Require Import ZArith Bool String List.
Local Open Scope Z_scope.

(* The C arithmetic types that can occur in these expressions. *)
Inductive cty := CFloat | CDouble.

(* An expression over the literal text:  f(text)  or  (T) e.
   [LOther s] is anything the translator could not parse into the two forms above;
   it is carried as text so that two different unparsed expressions stay different. *)
Inductive lexp :=
| LCall  (fn : string)            (* libc function applied to the NUL-terminated literal text *)
| LCast  (t : cty) (e : lexp)
| LOther (s : string).

(* How the literal text reaches the conversion (the "array-to-string glue"). *)
Inductive glue :=
| GCopyNul      (* folder: cfoldArrToString = copy argc-1 characters, append NUL *)
| GArrayItself  (* run time: the character array is used as the C string *)
| GOther (s : string).

(* A value of a C arithmetic type, as a bit pattern. *)
Definition cval := (cty * Z)%type.

Section Eval.
  (* Trusted oracles, never instantiated:
     [libc fn text] = bit pattern of the double returned by libc's function [fn]
                      (atof / strtod) on [text];
     [d2f] / [f2d]  = the hardware double->float / float->double conversions;
     [other s]      = value of an unparsed expression. *)
  Variable libc  : string -> string -> Z.
  Variable d2f   : Z -> Z.
  Variable f2d   : Z -> Z.
  Variable other : string -> cval.

  Definition conv (v : cval) (t : cty) : cval :=
    match v, t with
    | (CDouble, b), CDouble => (CDouble, b)
    | (CFloat,  b), CFloat  => (CFloat, b)
    | (CDouble, b), CFloat  => (CFloat, d2f b)
    | (CFloat,  b), CDouble => (CDouble, f2d b)
    end.

  Fixpoint leval (text : string) (e : lexp) : cval :=
    match e with
    | LCall fn  => (CDouble, libc fn text)       (* atof/strtod return double *)
    | LCast t e => conv (leval text e) t
    | LOther s  => other s
    end.

  (* value stored: the expression converted (implicitly, by the C assignment /
     parameter passing) to the destination type *)
  Definition leval_to (dest : cty) (text : string) (e : lexp) : cval :=
    conv (leval text e) dest.
End Eval.

(* One conversion site.  [ls_guard]: the site is followed by
     if (!isfinite(<the stored value>)) { <drop the constant, keep the run-time call> }
   (the constant folder since /repo a5dd6ea; never at the run-time sites). *)
Record litsite := { ls_glue : glue; ls_dest : cty; ls_exp : lexp; ls_guard : bool }.

(* isfinite on a stored value: exponent field not all ones *)
Definition cval_finite (v : cval) : bool :=
  match v with
  | (CFloat, b)  => negb ((b / 2 ^ 23) mod 256 =? 255)
  | (CDouble, b) => negb ((b / 2 ^ 52) mod 2048 =? 2047)
  end.

Section Fold.
  Variable libc  : string -> string -> Z.
  Variable d2f   : Z -> Z.
  Variable f2d   : Z -> Z.
  Variable other : string -> cval.

  (* what a site does with a literal: Some v = the constant v replaces the call;
     None = the site declines and the conversion is left to the run time *)
  Definition site_value (s : litsite) (text : string) : cval :=
    leval_to libc d2f f2d other (ls_dest s) text (ls_exp s).
  Definition site_fold (s : litsite) (text : string) : option cval :=
    let v := site_value s text in
    if ls_guard s && negb (cval_finite v) then None else Some v.
End Fold.
