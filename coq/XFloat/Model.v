(* C19 -- model of /repo/aldor/aldor/src/xfloat.c (+ the three bit-field helpers of
   util.c it uses, + the run-time dissemble/assemble pair of foam_c.c).

   Definitions only; proofs are in Facts.v.

   Representation.  Every C byte buffer is modelled by the non-negative integer whose
   big-endian digits (base 256) are the bytes of the buffer IN THE ORDER THE CODE
   INDEXES THEM:
     - a native float/double is accessed only through SF_UByte / DF_UByte(p, i), "the i-th
       byte in big-endian order" (cport.h), so its model is simply its IEEE bit pattern
       [bits] (0 <= bits < 2^(8*bytes));
     - a fraction buffer  UByte pb[n]       is  sum pb[i] * 256^(n-1-i);
     - an XSFloat / XDFloat (6 / 10 bytes)  is  sum byte[i] * 256^(len-1-i).
   The formats are described by a record [fmt] whose fields are the macros of
   cport.h / xfloat.h; the instances sf, df, xsf, xdf are built from the REGENERATED
   constants of Gen/XFloatParams.v.  The model keeps the branch structure of the C for
   every value of the parameters (HasNANs, HasNorm1, LgLgBase ...); the theorems are
   about the generated instances.

   Two modelling restrictions, both checked on the generated constants by
   [Facts.params_wf] (a changed constant makes that lemma, hence the proofs, fail):
     (R1) FracIx0 = 1 for the native formats (the fraction starts in byte 1).  Then
          xxAssemble's  "byte[FracIx0+0] |= pb[0]; byte[FracIx0+i] = pb[i]"  is a
          bitwise OR of the exponent short (shifted) with the shifted fraction.
     (R2) the fraction buffers have as many bytes as the native value
          (sizeof(XSFloat) - XSF_FracIx0 = sizeof(float), same for double), so that
          sfDissemble, which writes sizeof(float) bytes, fills pb exactly. *)
Require Import ZArith Bool List.
Require Import AV.Gen.XFloatParams.
Local Open Scope Z_scope.

(* ------------------------------------------------------------------------- *)
(* util.c : bit-field helpers, on the integer value of the nb-byte buffer      *)
(* ------------------------------------------------------------------------- *)

(* bfShiftUp(nb, b, nsh, b, 0): in place, zero shifted in, bits shifted out lost.
   (xfloat.c only calls it in place with bF = 0; requires nsh >= 0 -- the C asserts) *)
Definition bfShiftUp (nb v nsh : Z) : Z := (v * 2 ^ nsh) mod 2 ^ (XP.CHAR_BIT * nb).

(* bfShiftDn(nb, r, nsh, b, 0, b1): zeros shifted in, except that the FIRST bit shifted
   in is b1 (the implicit normalisation bit); nothing is shifted in when nsh = 0.
   (in place, or out of place with nsh < CHAR_BIT: the two shapes xfloat.c uses) *)
Definition bfShiftDn (nb v nsh : Z) (b1 : bool) : Z :=
  v / 2 ^ nsh + (if b1 && (0 <? nsh) then 2 ^ (XP.CHAR_BIT * nb - nsh) else 0).

(* bfFirst1: index of the first 1 bit counted from the most significant end, -1 if none *)
Definition bfFirst1 (nb v : Z) : Z :=
  if v =? 0 then -1 else XP.CHAR_BIT * nb - 1 - Z.log2 v.

(* util.h *)
Definition ROUND_UP (n d : Z) : Z := if Z.rem n d =? 0 then n else n + d - Z.rem n d.
(* xfloat.c *)
Definition ROUND_UP0 (e lgB : Z) : Z :=
  if 0 <? e then ROUND_UP e lgB else - (ROUND_UP (- e) lgB - lgB).

(* ------------------------------------------------------------------------- *)
(* formats                                                                     *)
(* ------------------------------------------------------------------------- *)

Record fmt := {
  f_bytes    : Z;      (* sizeof of the C object *)
  f_hasNaNs  : bool;
  f_hasNorm1 : bool;
  f_lgLgBase : Z;
  f_excess   : Z;
  f_fracOff  : Z
}.

Definition ztob (z : Z) : bool := negb (z =? 0).

Definition sf  : fmt := Build_fmt XP.sizeof_SF      (ztob XP.SF_HasNANs)  (ztob XP.SF_HasNorm1)  XP.SF_LgLgBase  XP.SF_Excess  XP.SF_FracOff.
Definition df  : fmt := Build_fmt XP.sizeof_DF      (ztob XP.DF_HasNANs)  (ztob XP.DF_HasNorm1)  XP.DF_LgLgBase  XP.DF_Excess  XP.DF_FracOff.
Definition xsf : fmt := Build_fmt XP.sizeof_XSFloat (ztob XP.XSF_HasNANs) (ztob XP.XSF_HasNorm1) XP.XSF_LgLgBase XP.XSF_Excess XP.XSF_FracOff.
Definition xdf : fmt := Build_fmt XP.sizeof_XDFloat (ztob XP.XDF_HasNANs) (ztob XP.XDF_HasNorm1) XP.XDF_LgLgBase XP.XDF_Excess XP.XDF_FracOff.

(* the derived macros at the top of xfloat.c (same text for SF_, DF_, XSF_, XDF_) *)
Definition fracShift (f : fmt) : Z := XP.USHORT_BIT - f_fracOff f.
Definition fracIx0   (f : fmt) : Z := f_fracOff f / XP.CHAR_BIT.
Definition fracSh0   (f : fmt) : Z := f_fracOff f mod XP.CHAR_BIT.
Definition signMask           : Z := Z.shiftl 1 (XP.USHORT_BIT - 1).
Definition fracMask  (f : fmt) : Z := Z.shiftl 1 (fracShift f) - 1.
Definition exponMask (f : fmt) : Z :=
  Z.land (Z.land (Z.shiftl 1 XP.USHORT_BIT - 1) (Z.lnot signMask)) (Z.lnot (fracMask f)).
Definition exponMin  (f : fmt) : Z := - f_excess f.
Definition exponNaN  (f : fmt) : Z := Z.shiftr (exponMask f) (fracShift f) - f_excess f.
Definition lgBase    (f : fmt) : Z := Z.shiftl 1 (f_lgLgBase f).

(* number of fraction bytes of a portable value: sizeof(X?Float) - X?F_FracIx0 *)
Definition pbTot (x : fmt) : Z := f_bytes x - fracIx0 x.

(* ------------------------------------------------------------------------- *)
(* sfDissemble / dfDissemble  (native -> sign, exponent, fraction bytes, iszero) *)
(* ------------------------------------------------------------------------- *)

(* SF_UShort(p, 0): the most significant 16 bits *)
Definition natUShort0 (n : fmt) (bits : Z) : Z := bits / 2 ^ (XP.CHAR_BIT * (f_bytes n - 2)).

Definition natDissemble (n : fmt) (bits : Z) : bool * Z * Z * bool :=
  let us    := natUShort0 n bits in
  let sign  := negb (Z.land us signMask =? 0) in
  let expon := Z.shiftr (Z.land us (exponMask n)) (fracShift n) - f_excess n in
  (* pfracbytes[i] = byte(FracIx0 + i) for i < bytes - FracIx0, then 0 *)
  let frac0 := (bits mod 2 ^ (XP.CHAR_BIT * (f_bytes n - fracIx0 n))) * 2 ^ (XP.CHAR_BIT * fracIx0 n) in
  let frac  := bfShiftUp (f_bytes n) frac0 (fracSh0 n) in
  (* iszero := ( * psf == 0.0 ) : IEEE comparison, true exactly for +0 and -0 (hardware, trusted) *)
  let iszero := (bits mod 2 ^ (XP.CHAR_BIT * f_bytes n - 1) =? 0) in
  (sign, expon, frac, iszero).

(* ------------------------------------------------------------------------- *)
(* sfAssemble / dfAssemble                                                     *)
(* ------------------------------------------------------------------------- *)

Definition natAssemble (n : fmt) (sign : bool) (expon frac : Z) : Z :=
  let us0 := if sign then signMask else 0 in
  let us  := Z.lor us0 (Z.land (Z.shiftl (expon + f_excess n) (fracShift n)) (exponMask n)) in
  let b0  := Z.land (Z.shiftr us XP.CHAR_BIT) 255 in
  let b1  := Z.land us 255 in
  let pb  := bfShiftDn (f_bytes n) frac (fracSh0 n) false in
  (* bytes 0,1 := b0,b1 ; byte FracIx0 |= pb[0] ; bytes FracIx0+i := pb[i]   (R1) *)
  Z.lor ((b0 * 2 ^ XP.CHAR_BIT + b1) * 2 ^ (XP.CHAR_BIT * (f_bytes n - 2)))
        (pb / 2 ^ (XP.CHAR_BIT * fracIx0 n)).

(* ------------------------------------------------------------------------- *)
(* xsfDissemble / xdfDissemble, xsfAssemble / xdfAssemble                      *)
(* ------------------------------------------------------------------------- *)

Definition xDissemble (x : fmt) (xv : Z) : bool * Z * Z :=
  let w0    := xv / 2 ^ (XP.BYTE_BITS * pbTot x) in      (* UNBYTE2(byte 1, byte 0) *)
  let sign  := negb (Z.land w0 signMask =? 0) in
  let expon := Z.land w0 (exponMask x) - f_excess x in   (* no shift by FracShift in the C *)
  let frac  := xv mod 2 ^ (XP.BYTE_BITS * pbTot x) in
  (sign, expon, frac).

Definition xAssemble (x : fmt) (sign : bool) (expon frac : Z) : Z :=
  let w0 := Z.lor (if sign then signMask else 0) (Z.land (expon + f_excess x) (exponMask x)) in
  let b0 := Z.land (Z.shiftr w0 XP.BYTE_BITS) 255 in     (* BYTE1(w0) *)
  let b1 := Z.land w0 255 in                             (* BYTE0(w0) *)
  (b0 * 2 ^ XP.BYTE_BITS + b1) * 2 ^ (XP.BYTE_BITS * pbTot x) + frac mod 2 ^ (XP.BYTE_BITS * pbTot x).

(* ------------------------------------------------------------------------- *)
(* fracNormalize / fracDenormalize                                             *)
(* ------------------------------------------------------------------------- *)

Definition fracNormalize (expon nb pb : Z) : Z * Z :=
  let ix1 := bfFirst1 nb pb in
  if ix1 =? -1 then (expon, pb)
  else (expon - (ix1 + 1), bfShiftUp nb pb (ix1 + 1)).

Definition fracDenormalize (expon expmin nb pb lglgBase : Z) (hasNorm1 : bool) : Z * Z :=
  if expmin <? expon then (expon, pb)
  else
    let ix1 := expmin - expon in
    (expon + ix1, bfShiftDn nb pb (Z.shiftl ix1 lglgBase) hasNorm1).

(* ------------------------------------------------------------------------- *)
(* xsfFrNative / xdfFrNative                                                   *)
(* ------------------------------------------------------------------------- *)

Definition xFrNative (n x : fmt) (bits : Z) : Z :=
  let '(sign, expon, pb, _) := natDissemble n bits in
  let hasFrac := negb (pb =? 0) in
  if f_hasNaNs n && (expon =? exponNaN n) then             (* <A> NaN or Inf *)
    xAssemble x sign (exponNaN x) pb
  else if (expon =? exponMin n) && negb hasFrac then       (* <E> zero *)
    xAssemble x sign (exponMin x) pb
  else if (expon =? exponMin n) && hasFrac then            (* <B> subnormal becomes normal *)
    let '(expon', pb') := fracNormalize (expon * lgBase n) (pbTot x) pb in
    xAssemble x sign expon' pb'
  else
    let expon := expon * lgBase n in
    if f_hasNorm1 x && negb (f_hasNorm1 n) then
      if hasFrac then                                       (* <Dn> *)
        let '(expon', pb') := fracNormalize expon (pbTot x) pb in
        xAssemble x sign expon' pb'
      else                                                  (* <Z> *)
        xAssemble x sign (exponMin x) pb
    else xAssemble x sign expon pb.                         (* <C> normal *)

(* ------------------------------------------------------------------------- *)
(* xsfToNative / xdfToNative                                                   *)
(* ------------------------------------------------------------------------- *)

(* [dn_nb] is the byte count handed to fracDenormalize: xsfToNative passes
   sizeof(float), xdfToNative passes sizeof(double). *)
Definition xToNative (n x : fmt) (dn_nb : Z) (xv : Z) : Z :=
  let '(sign, expon, pb) := xDissemble x xv in
  let hasFrac := negb (pb =? 0) in
  if expon =? exponNaN x then                               (* <A> *)
    let pb := if f_hasNaNs n then pb else 2 ^ (XP.CHAR_BIT * f_bytes n) - 1 in
    natAssemble n sign (exponNaN n) pb
  else if exponNaN n <=? Z.shiftr expon (f_lgLgBase n) then (* <B> overflow to Inf *)
    let fill := if f_hasNaNs n then 0 else 2 ^ (XP.CHAR_BIT * pbTot x) - 1 in
    natAssemble n sign (exponNaN n) fill
  else if (expon =? exponMin x) && negb hasFrac then        (* <E> zero *)
    natAssemble n sign (exponMin n) pb
  else
    let '(pb, expon) :=
      if f_hasNorm1 x && negb (f_hasNorm1 n)                (* <I1> *)
      then (bfShiftDn (pbTot x) pb 1 true, expon + 1) else (pb, expon) in
    let exponMod := Z.rem expon (lgBase n) in
    let '(pb, expon) :=
      if negb (exponMod =? 0) then                          (* <R> *)
        let p := ROUND_UP0 expon (lgBase n) in
        (bfShiftDn (pbTot x) pb (- expon + p) false, p)
      else (pb, expon) in
    let expon := Z.shiftr expon (f_lgLgBase n) in
    if expon <=? exponMin n then                            (* <C> becomes subnormal or zero *)
      let '(expon, pb) :=
        fracDenormalize expon (exponMin n) dn_nb pb (f_lgLgBase n) (f_hasNorm1 n) in
      let b := negb (pb =? 0) in
      let expon := if hasFrac && negb b then exponMin n else expon in
      natAssemble n sign expon pb
    else natAssemble n sign expon pb.                       (* <D> normal *)

(* the instances used by buffer.c: bufWrSFloat/bufRdSFloat, bufWrDFloat/bufRdDFloat *)
Definition xsfFrNative := xFrNative sf xsf.
Definition xsfToNative := xToNative sf xsf XP.sizeof_float.
Definition xdfFrNative := xFrNative df xdf.
Definition xdfToNative := xToNative df xdf XP.sizeof_DF.

(* ------------------------------------------------------------------------- *)
(* sfClassify / dfClassify / xsfClassify / xdfClassify                         *)
(* ------------------------------------------------------------------------- *)

Inductive fclass := FNorm | FDenorm | FZero | FNaN | FInf.

Definition class_code (c : fclass) : Z :=
  match c with
  | FNorm => XP.FLOAT_NORM | FDenorm => XP.FLOAT_DENORM | FZero => XP.FLOAT_ZERO
  | FNaN => XP.FLOAT_NAN | FInf => XP.FLOAT_INF
  end.

Definition classify_of (expbits expmask : Z) (hasFrac hasnans : bool) : fclass :=
  if expbits =? 0 then (if hasFrac then FDenorm else FZero)
  else if (expbits =? expmask) && hasnans then (if hasFrac then FNaN else FInf)
  else FNorm.

(* native: the loop ORs byte FracIx0 masked with FracMask and all following bytes,
   i.e. it tests the bits below the exponent field *)
Definition natClassify (n : fmt) (bits : Z) : fclass :=
  let expbits := Z.land (natUShort0 n bits) (exponMask n) in
  let b0      := (bits / 2 ^ (XP.CHAR_BIT * (f_bytes n - 1 - fracIx0 n))) mod 2 ^ XP.CHAR_BIT in
  let rest    := bits mod 2 ^ (XP.CHAR_BIT * (f_bytes n - 1 - fracIx0 n)) in
  let hasFrac := negb (Z.land b0 (fracMask n) =? 0) || negb (rest =? 0) in
  classify_of expbits (exponMask n) hasFrac (f_hasNaNs n).

Definition xClassify (x : fmt) (xv : Z) : fclass :=
  let expbits := Z.land (xv / 2 ^ (XP.BYTE_BITS * pbTot x)) (exponMask x) in
  let hasFrac := negb (xv mod 2 ^ (XP.BYTE_BITS * pbTot x) =? 0) in
  classify_of expbits (exponMask x) hasFrac (f_hasNaNs x).

(* ------------------------------------------------------------------------- *)
(* foam_c.c : fiSFloDissemble / fiSFloAssemble, fiDFloDissemble / fiDFloAssemble *)
(* ------------------------------------------------------------------------- *)

(* [n] bytes written in buffer order b[0] b[1] ... (= the big-endian digits of the
   buffer's model value v) and then read back as one machine word of a little-endian
   host (FiWord; Facts.params_wf checks CC_little_endian = 1):
     to_le n v          the n base-256 digits of v, least significant first;
     rev (to_le n v)    the bytes in memory order b[0], b[1], ...;
     of_le m            the little-endian word made of memory bytes m. *)
Fixpoint to_le (n : nat) (v : Z) : list Z :=
  match n with
  | O => nil
  | S k => v mod 256 :: to_le k (v / 256)
  end.

Fixpoint of_le (l : list Z) : Z :=
  match l with
  | nil => 0
  | b :: t => b + 256 * of_le t
  end.

Definition bswap (n : nat) (v : Z) : Z := of_le (rev (to_le n v)).

(* C conversions long -> int (two's complement truncation) and long/int -> Bool test *)
Definition to_int (z : Z) : Z :=
  let m := z mod 2 ^ (XP.CHAR_BIT * XP.sizeof_int) in
  if m <? 2 ^ (XP.CHAR_BIT * XP.sizeof_int - 1) then m else m - 2 ^ (XP.CHAR_BIT * XP.sizeof_int).

(* fiSFloDissemble(sf, &sign, &expon, &sig0): sfDissemble writes sizeof(float) bytes at
   the START of the caller's FiWord; the remaining bytes keep whatever the caller had
   there ([junk]: the previous value of *psig0). *)
Definition fiSFloDissemble (junk bits : Z) : Z * Z * Z :=
  let '(sign, expon, frac, _) := natDissemble sf bits in
  let nbits := XP.CHAR_BIT * XP.sizeof_FiSFlo in
  ((if sign then 1 else 0), expon,
   (junk / 2 ^ nbits) * 2 ^ nbits + bswap (Z.to_nat XP.sizeof_FiSFlo) frac).

(* fiSFloAssemble(sign, expon, sig0): sfAssemble reads sizeof(float) bytes from &sig0 *)
Definition fiSFloAssemble (sign expon sig0 : Z) : Z :=
  let nbits := XP.CHAR_BIT * XP.sizeof_FiSFlo in
  natAssemble sf (ztob (to_int sign)) (to_int expon)
              (bswap (Z.to_nat XP.sizeof_FiSFlo) (sig0 mod 2 ^ nbits)).

(* fiDFloDissemble: dfDissemble fills fracb[0] (8 bytes); fracb[1] is never written, so
   *psig1 receives an indeterminate value [junk]. *)
Definition fiDFloDissemble (junk bits : Z) : Z * Z * Z * Z :=
  let '(sign, expon, frac, _) := natDissemble df bits in
  ((if sign then 1 else 0), expon, bswap (Z.to_nat XP.sizeof_FiDFlo) frac, junk).

(* fiDFloAssemble: dfAssemble reads sizeof(double) bytes: all of sig0, nothing of sig1 *)
Definition fiDFloAssemble (sign expon sig0 sig1 : Z) : Z :=
  natAssemble df (ztob (to_int sign)) (to_int expon)
              (bswap (Z.to_nat XP.sizeof_FiDFlo) (sig0 mod 2 ^ (XP.CHAR_BIT * XP.sizeof_FiDFlo))).
