(* C19 -- facts about the model of xfloat.c (Model.v).

   Structure:
     1. bit-operation lemmas (land with a shifted mask, lor of disjoint fields);
     2. [params_wf]: the derived macros computed by the model equal the values the C
        compiler computed for the macros of xfloat.c (Gen/XFloatParams.v), and the two
        modelling restrictions R1, R2 of Model.v hold for the generated constants;
     3. [shift_out_in]: normalising a non-zero fraction (shift the leading 1 out) and
        de-normalising it (shift it back in through b1) is the identity -- for every
        width and every position of the leading 1;
     4. per format (single, double): field-level characterisation of dissemble /
        assemble, then the round-trip theorem by the case split
        NaN-Inf / zero / subnormal / normal on the exponent field;
     5. run-time pair (byte reversal is an involution);
     6. classification; 7. literal conversion.

   The single and double sections are the same script instantiated with the constants
   of the two formats.  Every constant that appears as a literal below is checked
   against the generated parameters by the [_unfold] lemmas ([reflexivity] between the
   model applied to the generated formats and its concrete reading): if a parameter of
   the current sources changes, those lemmas stop compiling. *)
Require Import ZArith Lia Bool ZifyBool String List.
Require Import AV.Gen.XFloatParams AV.XFloat.LitShape AV.XFloat.Model.
Local Open Scope Z_scope.
Ltac Zify.zify_post_hook ::= Z.div_mod_to_equations.

(* ------------------------------------------------------------------------- *)
(* 1. bit operations                                                           *)
(* ------------------------------------------------------------------------- *)

Lemma land_shiftl_ones x a b : 0 <= a -> 0 <= b ->
  Z.land x (Z.shiftl (Z.ones a) b) = ((x / 2 ^ b) mod 2 ^ a) * 2 ^ b.
Proof.
  intros Ha Hb.
  rewrite <- Z.shiftr_div_pow2, <- Z.land_ones, <- Z.shiftl_mul_pow2 by assumption.
  apply Z.bits_inj'. intros n Hn.
  rewrite Z.land_spec.
  destruct (Z.ltb_spec n b) as [Hlt|Hge].
  - rewrite !Z.shiftl_spec_low by assumption. apply andb_false_r.
  - rewrite !Z.shiftl_spec by assumption. rewrite Z.land_spec, Z.shiftr_spec by lia.
    f_equal. f_equal. lia.
Qed.

Lemma lor_disjoint a b k : 0 <= k -> 0 <= b < 2 ^ k -> Z.lor (a * 2 ^ k) b = a * 2 ^ k + b.
Proof.
  intros Hk Hb.
  assert (Hl : Z.land (a * 2 ^ k) b = 0).
  { apply Z.bits_inj'. intros n Hn. rewrite Z.land_spec, Z.bits_0.
    destruct (Z.ltb_spec n k) as [Hlt|Hge].
    - rewrite Z.mul_pow2_bits_low by lia. reflexivity.
    - replace (Z.testbit b n) with false. apply andb_false_r.
      symmetry. destruct (Z.eq_dec b 0) as [->|Hnz]. apply Z.bits_0.
      assert (2 ^ k <= 2 ^ n) by (apply Z.pow_le_mono_r; lia).
      apply Z.bits_above_log2. lia. apply Z.log2_lt_pow2; lia. }
  rewrite <- Z.lxor_lor by assumption. symmetry. apply Z.add_nocarry_lxor. assumption.
Qed.

(* evaluate closed powers of two *)
Ltac pows :=
  repeat match goal with
  | |- context [2 ^ (Zpos ?p)] =>
      let v := eval vm_compute in (2 ^ (Zpos p)) in change (2 ^ (Zpos p)) with v
  | |- context [2 ^ 0] => change (2 ^ 0) with 1
  end.

(* rewrite  land _ m  where m is the closed mask  ones a << b *)
Ltac mask m a b :=
  change m with (Z.shiftl (Z.ones a) b); rewrite (land_shiftl_ones _ a b) by lia;
  change (Z.shiftl (Z.ones a) b) with m.

Definition b2z (b : bool) : Z := if b then 1 else 0.

Lemma b2z_range b : 0 <= b2z b <= 1.
Proof. destruct b; cbn; lia. Qed.

Lemma b2z_eqb b : (b2z b =? 1) = b.
Proof. destruct b; reflexivity. Qed.

(* ------------------------------------------------------------------------- *)
(* 2. the generated parameters                                                 *)
(* ------------------------------------------------------------------------- *)

Lemma params_wf :
  (* derived macros: model's derivation = the C compiler's evaluation *)
  fracShift sf = XP.SF_FracShift /\ fracIx0 sf = XP.SF_FracIx0 /\ fracSh0 sf = XP.SF_FracSh0 /\
  signMask = XP.SF_SignMask /\ fracMask sf = XP.SF_FracMask /\ exponMask sf = XP.SF_ExponMask /\
  exponMin sf = XP.SF_ExponMin /\ exponNaN sf = XP.SF_ExponNAN /\ lgBase sf = XP.SF_LgBase /\
  fracShift df = XP.DF_FracShift /\ fracIx0 df = XP.DF_FracIx0 /\ fracSh0 df = XP.DF_FracSh0 /\
  signMask = XP.DF_SignMask /\ fracMask df = XP.DF_FracMask /\ exponMask df = XP.DF_ExponMask /\
  exponMin df = XP.DF_ExponMin /\ exponNaN df = XP.DF_ExponNAN /\ lgBase df = XP.DF_LgBase /\
  fracShift xsf = XP.XSF_FracShift /\ fracIx0 xsf = XP.XSF_FracIx0 /\ fracSh0 xsf = XP.XSF_FracSh0 /\
  signMask = XP.XSF_SignMask /\ fracMask xsf = XP.XSF_FracMask /\ exponMask xsf = XP.XSF_ExponMask /\
  exponMin xsf = XP.XSF_ExponMin /\ exponNaN xsf = XP.XSF_ExponNAN /\ lgBase xsf = XP.XSF_LgBase /\
  fracShift xdf = XP.XDF_FracShift /\ fracIx0 xdf = XP.XDF_FracIx0 /\ fracSh0 xdf = XP.XDF_FracSh0 /\
  signMask = XP.XDF_SignMask /\ fracMask xdf = XP.XDF_FracMask /\ exponMask xdf = XP.XDF_ExponMask /\
  exponMin xdf = XP.XDF_ExponMin /\ exponNaN xdf = XP.XDF_ExponNAN /\ lgBase xdf = XP.XDF_LgBase /\
  (* R1: the native fraction starts in byte 1 *)
  fracIx0 sf = 1 /\ fracIx0 df = 1 /\
  (* R2: fraction buffers have the size of the native value; file sizes = struct sizes *)
  pbTot xsf = f_bytes sf /\ pbTot xdf = f_bytes df /\
  XP.sizeof_float = f_bytes sf /\ XP.sizeof_SFloat = f_bytes sf /\ XP.sizeof_DFloat = f_bytes df /\
  XP.XSFLOAT_BYTES = f_bytes xsf /\ XP.XDFLOAT_BYTES = f_bytes xdf /\
  XP.sizeof_FiSFlo = f_bytes sf /\ XP.sizeof_FiDFlo = f_bytes df /\ XP.sizeof_FiDFlo <= XP.sizeof_FiWord /\
  (* host: little-endian, byte = 8 bits, SFloat is float *)
  XP.CC_little_endian = 1 /\ XP.CC_vax_endian = 0 /\ XP.CC_SF_is_double = 0 /\
  XP.CHAR_BIT = 8 /\ XP.BYTE_BITS = 8 /\ XP.USHORT_BIT = 16.
Proof. vm_compute. repeat split; congruence. Qed.

(* ------------------------------------------------------------------------- *)
(* 3. normalise / de-normalise                                                 *)
(* ------------------------------------------------------------------------- *)

(* N = width of the fraction buffer in bits, k = position of the leading 1 of pb,
   sh = N - k = ix1 + 1 = the shift applied by fracNormalize.
   (pb << sh) mod 2^N drops the leading 1; >> sh and b1 = 1 puts it back. *)
Lemma shift_out_in N pb : 0 < pb < 2 ^ N ->
  let sh := N - Z.log2 pb in
  1 <= sh <= N /\
  0 <= (pb * 2 ^ sh) mod 2 ^ N < 2 ^ N /\
  (pb * 2 ^ sh) mod 2 ^ N / 2 ^ sh + 2 ^ (N - sh) = pb.
Proof.
  intros Hpb sh.
  assert (HN : 0 < N).
  { destruct (Z.ltb_spec 0 N) as [H|H]; [assumption|].
    exfalso. assert (2 ^ N <= 2 ^ 0) by (apply Z.pow_le_mono_r; lia). change (2 ^ 0) with 1 in *. lia. }
  pose proof (Z.log2_spec pb ltac:(lia)) as Hk.
  pose proof (Z.log2_nonneg pb) as Hk0.
  assert (Hkn : Z.log2 pb < N) by (apply Z.log2_lt_pow2; lia).
  set (k := Z.log2 pb) in *.
  assert (Hsh : 1 <= sh <= N) by (unfold sh; lia).
  assert (Hsplit : 2 ^ N = 2 ^ k * 2 ^ sh).
  { rewrite <- Z.pow_add_r by lia. f_equal. unfold sh. lia. }
  assert (Hsucc : 2 ^ Z.succ k = 2 * 2 ^ k) by (apply Z.pow_succ_r; lia).
  assert (Hpk : 0 < 2 ^ k) by (apply Z.pow_pos_nonneg; lia).
  assert (Hps : 0 < 2 ^ sh) by (apply Z.pow_pos_nonneg; lia).
  set (r := pb - 2 ^ k).
  assert (Hr : 0 <= r < 2 ^ k) by (unfold r; lia).
  assert (Hmod : (pb * 2 ^ sh) mod 2 ^ N = r * 2 ^ sh).
  { replace (pb * 2 ^ sh) with (r * 2 ^ sh + 1 * 2 ^ N) by (unfold r; rewrite Hsplit; ring).
    rewrite Z.mod_add by lia. apply Z.mod_small. rewrite Hsplit. split.
    - apply Z.mul_nonneg_nonneg; lia.
    - apply Z.mul_lt_mono_pos_r; lia. }
  split; [assumption|]. split.
  - apply Z.mod_pos_bound. apply Z.pow_pos_nonneg; lia.
  - rewrite Hmod. rewrite Z.div_mul by lia.
    replace (N - sh) with k by (unfold sh; lia). unfold r. lia.
Qed.

Lemma log2_bounds N pb : 0 < pb < 2 ^ N -> 0 <= Z.log2 pb < N.
Proof.
  intros H. split. apply Z.log2_nonneg.
  assert (0 < N).
  { destruct (Z.ltb_spec 0 N) as [H0|H0]; [assumption|].
    exfalso. assert (2 ^ N <= 2 ^ 0) by (apply Z.pow_le_mono_r; lia). change (2 ^ 0) with 1 in *. lia. }
  apply Z.log2_lt_pow2; lia.
Qed.

(* ------------------------------------------------------------------------- *)
(* 4a. single precision                                                            *)
(* ------------------------------------------------------------------------- *)

(* concrete reading of the model at the generated parameters *)
Lemma sf_dis_unfold bits :
  natDissemble sf bits =
  (negb (Z.land (bits / 65536) 32768 =? 0),
   Z.shiftr (Z.land (bits / 65536) 32640) 7 - 127,
   (((bits mod 16777216) * 256) * 2 ^ 1) mod 4294967296,
   (bits mod 2147483648 =? 0)).
Proof. reflexivity. Qed.

Lemma sf_asm_unfold sign ex pb :
  natAssemble sf sign ex pb =
  let us := Z.lor (if sign then 32768 else 0) (Z.land (Z.shiftl (ex + 127) 7) 32640) in
  Z.lor ((Z.land (Z.shiftr us 8) 255 * 2 ^ 8 + Z.land us 255) * 65536)
        ((pb / 2 ^ 1 + 0) / 2 ^ 8).
Proof. reflexivity. Qed.

Lemma xsf_dis_unfold xv :
  xDissemble xsf xv =
  (negb (Z.land (xv / 4294967296) 32768 =? 0), Z.land (xv / 4294967296) 32767 - 16382, xv mod 4294967296).
Proof. reflexivity. Qed.

Lemma xsf_asm_unfold sign ex pb :
  xAssemble xsf sign ex pb =
  let w0 := Z.lor (if sign then 32768 else 0) (Z.land (ex + 16382) 32767) in
  (Z.land (Z.shiftr w0 8) 255 * 2 ^ 8 + Z.land w0 255) * 4294967296 + pb mod 4294967296.
Proof. reflexivity. Qed.

Lemma xsfFrNative_unfold bits :
  xsfFrNative bits =
  let '(sign, expon, pb, _) := natDissemble sf bits in
  let hasFrac := negb (pb =? 0) in
  if expon =? 128 then xAssemble xsf sign 16385 pb
  else if (expon =? - 127) && negb hasFrac then xAssemble xsf sign (-16382) pb
  else if (expon =? - 127) && hasFrac then
    let '(expon', pb') := fracNormalize (expon * 1) 4 pb in xAssemble xsf sign expon' pb'
  else xAssemble xsf sign (expon * 1) pb.
Proof. reflexivity. Qed.

Lemma xsfToNative_unfold xv :
  xsfToNative xv =
  let '(sign, expon, pb) := xDissemble xsf xv in
  let hasFrac := negb (pb =? 0) in
  if expon =? 16385 then natAssemble sf sign 128 pb
  else if 128 <=? Z.shiftr expon 0 then natAssemble sf sign 128 0
  else if (expon =? -16382) && negb hasFrac then natAssemble sf sign (- 127) pb
  else
    let exponMod := Z.rem expon 1 in
    let '(pb, expon) :=
      if negb (exponMod =? 0) then
        let p := ROUND_UP0 expon 1 in (bfShiftDn 4 pb (- expon + p) false, p)
      else (pb, expon) in
    let expon := Z.shiftr expon 0 in
    if expon <=? - 127 then
      let '(expon, pb) := fracDenormalize expon (- 127) 4 pb 0 true in
      let b := negb (pb =? 0) in
      let expon := if hasFrac && negb b then - 127 else expon in
      natAssemble sf sign expon pb
    else natAssemble sf sign expon pb.
Proof. reflexivity. Qed.

(* field-level characterisation: bits = s * 2^31 + e * 2^23 + f *)
Lemma sf_dis s e f : 0 <= s <= 1 -> 0 <= e < 256 -> 0 <= f < 8388608 ->
  natDissemble sf (s * 2147483648 + e * 8388608 + f) =
  (s =? 1, e - 127, f * 512, (e =? 0) && (f =? 0)).
Proof.
  intros Hs He Hf. rewrite sf_dis_unfold.
  mask 32768 1 15. mask 32640 8 7. rewrite Z.shiftr_div_pow2 by lia. pows.
  f_equal; [f_equal; [f_equal|]|]; lia.
Qed.

Lemma sf_asm sign ex pb : 0 <= ex + 127 < 256 -> 0 <= pb < 4294967296 ->
  natAssemble sf sign ex pb = b2z sign * 2147483648 + (ex + 127) * 8388608 + pb / 512.
Proof.
  intros He Hp. rewrite sf_asm_unfold. cbv zeta.
  rewrite Z.shiftl_mul_pow2 by lia. mask 32640 8 7.
  replace (if sign then 32768 else 0) with (b2z sign * 2 ^ 15) by (destruct sign; reflexivity).
  rewrite (lor_disjoint (b2z sign) _ 15) by (pows; lia).
  rewrite Z.shiftr_div_pow2 by lia.
  change 255 with (Z.ones 8). rewrite !Z.land_ones by lia.
  pose proof (b2z_range sign) as Hb.
  set (S := b2z sign) in *.
  pows.
  match goal with |- Z.lor (?u * 65536) _ = _ =>
    replace (u * 65536) with ((S * 256 + (ex + 127)) * 2 ^ 23) by (pows; lia) end.
  rewrite lor_disjoint by (pows; lia). pows. lia.
Qed.

Lemma xsf_asm sign ex pb : 0 <= ex + 16382 < 32768 -> 0 <= pb < 4294967296 ->
  xAssemble xsf sign ex pb = (b2z sign * 32768 + (ex + 16382)) * 4294967296 + pb.
Proof.
  intros He Hp. rewrite xsf_asm_unfold. cbv zeta.
  change 32767 with (Z.ones 15). rewrite Z.land_ones by lia.
  replace (if sign then 32768 else 0) with (b2z sign * 2 ^ 15) by (destruct sign; reflexivity).
  rewrite (lor_disjoint (b2z sign) _ 15) by (pows; lia).
  rewrite Z.shiftr_div_pow2 by lia.
  change 255 with (Z.ones 8). rewrite !Z.land_ones by lia.
  pose proof (b2z_range sign) as Hb.
  set (S := b2z sign) in *.
  pows. lia.
Qed.

Lemma xsf_dis S E pb : 0 <= S <= 1 -> 0 <= E < 32768 -> 0 <= pb < 4294967296 ->
  xDissemble xsf ((S * 32768 + E) * 4294967296 + pb) = (S =? 1, E - 16382, pb).
Proof.
  intros HS HE Hp. rewrite xsf_dis_unfold.
  mask 32768 1 15. change 32767 with (Z.ones 15). rewrite Z.land_ones by lia. pows.
  f_equal; [f_equal|]; lia.
Qed.

(* portable assemble followed by portable dissemble *)
Lemma xsf_asm_dis sign ex pb : 0 <= ex + 16382 < 32768 -> 0 <= pb < 4294967296 ->
  xDissemble xsf (xAssemble xsf sign ex pb) = (sign, ex, pb).
Proof.
  intros He Hp. rewrite xsf_asm by assumption.
  rewrite xsf_dis by (try apply b2z_range; lia).
  rewrite b2z_eqb. f_equal. f_equal. lia.
Qed.

(* the four classes *)

Lemma sf_rt_nan s e f : 0 <= s <= 1 -> e = 255 -> 0 <= f < 8388608 ->
  xsfToNative (xsfFrNative (s * 2147483648 + e * 8388608 + f)) = s * 2147483648 + e * 8388608 + f.
Proof.
  intros Hs He Hf. subst e.
  rewrite xsfFrNative_unfold, sf_dis by lia. cbv beta iota zeta.
  replace (255 - 127 =? 128) with true by lia.
  rewrite xsfToNative_unfold, xsf_asm_dis by lia. cbv beta iota zeta.
  replace (16385 =? 16385) with true by reflexivity.
  rewrite sf_asm by lia.
  replace (b2z (s =? 1)) with s by (unfold b2z; destruct (Z.eqb_spec s 1); lia). lia.
Qed.

Lemma sf_rt_zero s : 0 <= s <= 1 ->
  xsfToNative (xsfFrNative (s * 2147483648 + 0 * 8388608 + 0)) = s * 2147483648 + 0 * 8388608 + 0.
Proof.
  intros Hs.
  rewrite xsfFrNative_unfold, sf_dis by lia. cbv beta iota zeta.
  replace (0 - 127 =? 128) with false by lia.
  replace ((0 - 127 =? - 127) && negb (negb (0 * 512 =? 0))) with true by lia.
  rewrite xsfToNative_unfold, xsf_asm_dis by lia. cbv beta iota zeta.
  replace (-16382 =? 16385) with false by reflexivity.
  rewrite Z.shiftr_0_r.
  replace (128 <=? -16382) with false by reflexivity.
  replace ((-16382 =? -16382) && negb (negb (0 * 512 =? 0))) with true by reflexivity.
  rewrite sf_asm by lia.
  replace (b2z (s =? 1)) with s by (unfold b2z; destruct (Z.eqb_spec s 1); lia). lia.
Qed.

Lemma sf_rt_sub s f : 0 <= s <= 1 -> 0 < f < 8388608 ->
  xsfToNative (xsfFrNative (s * 2147483648 + 0 * 8388608 + f)) = s * 2147483648 + 0 * 8388608 + f.
Proof.
  intros Hs Hf.
  rewrite xsfFrNative_unfold, sf_dis by lia. cbv beta iota zeta.
  replace (0 - 127 =? 128) with false by lia.
  replace ((0 - 127 =? - 127) && negb (negb (f * 512 =? 0))) with false by lia.
  replace ((0 - 127 =? - 127) && negb (f * 512 =? 0)) with true by lia.
  (* fracNormalize on pb = f * 2^9 <> 0 *)
  set (pb := f * 512).
  assert (Hpb : 0 < pb < 2 ^ 32) by (unfold pb; pows; lia).
  destruct (shift_out_in 32 pb Hpb) as (Hsh & Hrange & Hback).
  pose proof (log2_bounds 32 pb Hpb) as Hlog.
  unfold fracNormalize, bfFirst1.
  replace (pb =? 0) with false by lia.
  change (XP.CHAR_BIT * 4) with 32.
  replace (32 - 1 - Z.log2 pb =? -1) with false by lia.
  replace (32 - 1 - Z.log2 pb + 1) with (32 - Z.log2 pb) by lia.
  unfold bfShiftUp. change (XP.CHAR_BIT * 4) with 32.
  set (sh := 32 - Z.log2 pb) in *.
  set (pb' := (pb * 2 ^ sh) mod 2 ^ 32) in *.
  change (2 ^ 32) with 4294967296 in Hrange.
  rewrite xsfToNative_unfold, xsf_asm_dis by lia. cbv beta iota zeta.
  replace ((0 - 127) * 1 - sh =? 16385) with false by lia.
  rewrite !Z.shiftr_0_r.
  replace (128 <=? (0 - 127) * 1 - sh) with false by lia.
  replace (((0 - 127) * 1 - sh =? -16382)) with false by lia.
  rewrite andb_false_l.
  rewrite Z.rem_1_r. replace (negb (0 =? 0)) with false by reflexivity.
  cbv beta iota zeta. rewrite !Z.shiftr_0_r.
  replace ((0 - 127) * 1 - sh <=? - 127) with true by lia.
  unfold fracDenormalize.
  replace (- 127 <? (0 - 127) * 1 - sh) with false by lia.
  rewrite Z.shiftl_0_r.
  replace (- 127 - ((0 - 127) * 1 - sh)) with sh by lia.
  unfold bfShiftDn. change (XP.CHAR_BIT * 4) with 32.
  replace (true && (0 <? sh)) with true by lia.
  rewrite Hback.
  replace (negb (pb =? 0)) with true by lia.
  rewrite andb_false_r.
  replace ((0 - 127) * 1 - sh + sh) with (- 127) by lia.
  rewrite sf_asm by (unfold pb; lia).
  replace (b2z (s =? 1)) with s by (unfold b2z; destruct (Z.eqb_spec s 1); lia).
  unfold pb. lia.
Qed.

Lemma sf_rt_norm s e f : 0 <= s <= 1 -> 1 <= e < 255 -> 0 <= f < 8388608 ->
  xsfToNative (xsfFrNative (s * 2147483648 + e * 8388608 + f)) = s * 2147483648 + e * 8388608 + f.
Proof.
  intros Hs He Hf.
  rewrite xsfFrNative_unfold, sf_dis by lia. cbv beta iota zeta.
  replace (e - 127 =? 128) with false by lia.
  replace (e - 127 =? - 127) with false by lia.
  rewrite !andb_false_l.
  rewrite xsfToNative_unfold, xsf_asm_dis by lia. cbv beta iota zeta.
  replace ((e - 127) * 1 =? 16385) with false by lia.
  rewrite !Z.shiftr_0_r.
  replace (128 <=? (e - 127) * 1) with false by lia.
  replace ((e - 127) * 1 =? -16382) with false by lia.
  rewrite andb_false_l.
  rewrite Z.rem_1_r. replace (negb (0 =? 0)) with false by reflexivity.
  cbv beta iota zeta. rewrite !Z.shiftr_0_r.
  replace ((e - 127) * 1 <=? - 127) with false by lia.
  rewrite sf_asm by lia.
  replace (b2z (s =? 1)) with s by (unfold b2z; destruct (Z.eqb_spec s 1); lia). lia.
Qed.

(* every bit pattern decomposes into the three fields *)
Lemma sf_fields bits : 0 <= bits < 4294967296 ->
  exists s e f, 0 <= s <= 1 /\ 0 <= e < 256 /\ 0 <= f < 8388608 /\ bits = s * 2147483648 + e * 8388608 + f.
Proof.
  intros H. exists (bits / 2147483648), ((bits / 8388608) mod 256), (bits mod 8388608). lia.
Qed.

(* FULL STATEMENT: every native bit pattern survives the portable encoding unchanged
   (signed zero, subnormals, infinities, and NaNs with their sign and payload). *)
Lemma xsf_roundtrip_all bits : 0 <= bits < 2 ^ 32 -> xsfToNative (xsfFrNative bits) = bits.
Proof.
  change (2 ^ 32) with 4294967296. intros H.
  destruct (sf_fields bits H) as (s & e & f & Hs & He & Hf & ->).
  destruct (Z.eq_dec e 255) as [Hn|Hn]; [apply sf_rt_nan; assumption|].
  destruct (Z.eq_dec e 0) as [Hz|Hz].
  - subst e. destruct (Z.eq_dec f 0) as [Hf0|Hf0].
    + subst f. apply sf_rt_zero; assumption.
    + apply sf_rt_sub; [assumption|lia].
  - apply sf_rt_norm; [assumption|lia|assumption].
Qed.

(* dissemble then assemble *)
Lemma sf_dissemble_assemble_all bits : 0 <= bits < 2 ^ 32 ->
  let '(sign, expon, frac, _) := natDissemble sf bits in natAssemble sf sign expon frac = bits.
Proof.
  change (2 ^ 32) with 4294967296. intros H.
  destruct (sf_fields bits H) as (s & e & f & Hs & He & Hf & ->).
  rewrite sf_dis by assumption. rewrite sf_asm by lia.
  replace (b2z (s =? 1)) with s by (unfold b2z; destruct (Z.eqb_spec s 1); lia). lia.
Qed.

(* ------------------------------------------------------------------------- *)
(* 4b. double precision                                                            *)
(* ------------------------------------------------------------------------- *)

(* concrete reading of the model at the generated parameters *)
Lemma df_dis_unfold bits :
  natDissemble df bits =
  (negb (Z.land (bits / 281474976710656) 32768 =? 0),
   Z.shiftr (Z.land (bits / 281474976710656) 32752) 4 - 1023,
   (((bits mod 72057594037927936) * 256) * 2 ^ 4) mod 18446744073709551616,
   (bits mod 9223372036854775808 =? 0)).
Proof. reflexivity. Qed.

Lemma df_asm_unfold sign ex pb :
  natAssemble df sign ex pb =
  let us := Z.lor (if sign then 32768 else 0) (Z.land (Z.shiftl (ex + 1023) 4) 32752) in
  Z.lor ((Z.land (Z.shiftr us 8) 255 * 2 ^ 8 + Z.land us 255) * 281474976710656)
        ((pb / 2 ^ 4 + 0) / 2 ^ 8).
Proof. reflexivity. Qed.

Lemma xdf_dis_unfold xv :
  xDissemble xdf xv =
  (negb (Z.land (xv / 18446744073709551616) 32768 =? 0), Z.land (xv / 18446744073709551616) 32767 - 16382, xv mod 18446744073709551616).
Proof. reflexivity. Qed.

Lemma xdf_asm_unfold sign ex pb :
  xAssemble xdf sign ex pb =
  let w0 := Z.lor (if sign then 32768 else 0) (Z.land (ex + 16382) 32767) in
  (Z.land (Z.shiftr w0 8) 255 * 2 ^ 8 + Z.land w0 255) * 18446744073709551616 + pb mod 18446744073709551616.
Proof. reflexivity. Qed.

Lemma xdfFrNative_unfold bits :
  xdfFrNative bits =
  let '(sign, expon, pb, _) := natDissemble df bits in
  let hasFrac := negb (pb =? 0) in
  if expon =? 1024 then xAssemble xdf sign 16385 pb
  else if (expon =? - 1023) && negb hasFrac then xAssemble xdf sign (-16382) pb
  else if (expon =? - 1023) && hasFrac then
    let '(expon', pb') := fracNormalize (expon * 1) 8 pb in xAssemble xdf sign expon' pb'
  else xAssemble xdf sign (expon * 1) pb.
Proof. reflexivity. Qed.

Lemma xdfToNative_unfold xv :
  xdfToNative xv =
  let '(sign, expon, pb) := xDissemble xdf xv in
  let hasFrac := negb (pb =? 0) in
  if expon =? 16385 then natAssemble df sign 1024 pb
  else if 1024 <=? Z.shiftr expon 0 then natAssemble df sign 1024 0
  else if (expon =? -16382) && negb hasFrac then natAssemble df sign (- 1023) pb
  else
    let exponMod := Z.rem expon 1 in
    let '(pb, expon) :=
      if negb (exponMod =? 0) then
        let p := ROUND_UP0 expon 1 in (bfShiftDn 8 pb (- expon + p) false, p)
      else (pb, expon) in
    let expon := Z.shiftr expon 0 in
    if expon <=? - 1023 then
      let '(expon, pb) := fracDenormalize expon (- 1023) 8 pb 0 true in
      let b := negb (pb =? 0) in
      let expon := if hasFrac && negb b then - 1023 else expon in
      natAssemble df sign expon pb
    else natAssemble df sign expon pb.
Proof. reflexivity. Qed.

(* field-level characterisation: bits = s * 2^63 + e * 2^52 + f *)
Lemma df_dis s e f : 0 <= s <= 1 -> 0 <= e < 2048 -> 0 <= f < 4503599627370496 ->
  natDissemble df (s * 9223372036854775808 + e * 4503599627370496 + f) =
  (s =? 1, e - 1023, f * 4096, (e =? 0) && (f =? 0)).
Proof.
  intros Hs He Hf. rewrite df_dis_unfold.
  mask 32768 1 15. mask 32752 11 4. rewrite Z.shiftr_div_pow2 by lia. pows.
  f_equal; [f_equal; [f_equal|]|]; lia.
Qed.

Lemma df_asm sign ex pb : 0 <= ex + 1023 < 2048 -> 0 <= pb < 18446744073709551616 ->
  natAssemble df sign ex pb = b2z sign * 9223372036854775808 + (ex + 1023) * 4503599627370496 + pb / 4096.
Proof.
  intros He Hp. rewrite df_asm_unfold. cbv zeta.
  rewrite Z.shiftl_mul_pow2 by lia. mask 32752 11 4.
  replace (if sign then 32768 else 0) with (b2z sign * 2 ^ 15) by (destruct sign; reflexivity).
  rewrite (lor_disjoint (b2z sign) _ 15) by (pows; lia).
  rewrite Z.shiftr_div_pow2 by lia.
  change 255 with (Z.ones 8). rewrite !Z.land_ones by lia.
  pose proof (b2z_range sign) as Hb.
  set (S := b2z sign) in *.
  pows.
  match goal with |- Z.lor (?u * 281474976710656) _ = _ =>
    replace (u * 281474976710656) with ((S * 2048 + (ex + 1023)) * 2 ^ 52) by (pows; lia) end.
  rewrite lor_disjoint by (pows; lia). pows. lia.
Qed.

Lemma xdf_asm sign ex pb : 0 <= ex + 16382 < 32768 -> 0 <= pb < 18446744073709551616 ->
  xAssemble xdf sign ex pb = (b2z sign * 32768 + (ex + 16382)) * 18446744073709551616 + pb.
Proof.
  intros He Hp. rewrite xdf_asm_unfold. cbv zeta.
  change 32767 with (Z.ones 15). rewrite Z.land_ones by lia.
  replace (if sign then 32768 else 0) with (b2z sign * 2 ^ 15) by (destruct sign; reflexivity).
  rewrite (lor_disjoint (b2z sign) _ 15) by (pows; lia).
  rewrite Z.shiftr_div_pow2 by lia.
  change 255 with (Z.ones 8). rewrite !Z.land_ones by lia.
  pose proof (b2z_range sign) as Hb.
  set (S := b2z sign) in *.
  pows. lia.
Qed.

Lemma xdf_dis S E pb : 0 <= S <= 1 -> 0 <= E < 32768 -> 0 <= pb < 18446744073709551616 ->
  xDissemble xdf ((S * 32768 + E) * 18446744073709551616 + pb) = (S =? 1, E - 16382, pb).
Proof.
  intros HS HE Hp. rewrite xdf_dis_unfold.
  mask 32768 1 15. change 32767 with (Z.ones 15). rewrite Z.land_ones by lia. pows.
  f_equal; [f_equal|]; lia.
Qed.

(* portable assemble followed by portable dissemble *)
Lemma xdf_asm_dis sign ex pb : 0 <= ex + 16382 < 32768 -> 0 <= pb < 18446744073709551616 ->
  xDissemble xdf (xAssemble xdf sign ex pb) = (sign, ex, pb).
Proof.
  intros He Hp. rewrite xdf_asm by assumption.
  rewrite xdf_dis by (try apply b2z_range; lia).
  rewrite b2z_eqb. f_equal. f_equal. lia.
Qed.

(* the four classes *)

Lemma df_rt_nan s e f : 0 <= s <= 1 -> e = 2047 -> 0 <= f < 4503599627370496 ->
  xdfToNative (xdfFrNative (s * 9223372036854775808 + e * 4503599627370496 + f)) = s * 9223372036854775808 + e * 4503599627370496 + f.
Proof.
  intros Hs He Hf. subst e.
  rewrite xdfFrNative_unfold, df_dis by lia. cbv beta iota zeta.
  replace (2047 - 1023 =? 1024) with true by lia.
  rewrite xdfToNative_unfold, xdf_asm_dis by lia. cbv beta iota zeta.
  replace (16385 =? 16385) with true by reflexivity.
  rewrite df_asm by lia.
  replace (b2z (s =? 1)) with s by (unfold b2z; destruct (Z.eqb_spec s 1); lia). lia.
Qed.

Lemma df_rt_zero s : 0 <= s <= 1 ->
  xdfToNative (xdfFrNative (s * 9223372036854775808 + 0 * 4503599627370496 + 0)) = s * 9223372036854775808 + 0 * 4503599627370496 + 0.
Proof.
  intros Hs.
  rewrite xdfFrNative_unfold, df_dis by lia. cbv beta iota zeta.
  replace (0 - 1023 =? 1024) with false by lia.
  replace ((0 - 1023 =? - 1023) && negb (negb (0 * 4096 =? 0))) with true by lia.
  rewrite xdfToNative_unfold, xdf_asm_dis by lia. cbv beta iota zeta.
  replace (-16382 =? 16385) with false by reflexivity.
  rewrite Z.shiftr_0_r.
  replace (1024 <=? -16382) with false by reflexivity.
  replace ((-16382 =? -16382) && negb (negb (0 * 4096 =? 0))) with true by reflexivity.
  rewrite df_asm by lia.
  replace (b2z (s =? 1)) with s by (unfold b2z; destruct (Z.eqb_spec s 1); lia). lia.
Qed.

Lemma df_rt_sub s f : 0 <= s <= 1 -> 0 < f < 4503599627370496 ->
  xdfToNative (xdfFrNative (s * 9223372036854775808 + 0 * 4503599627370496 + f)) = s * 9223372036854775808 + 0 * 4503599627370496 + f.
Proof.
  intros Hs Hf.
  rewrite xdfFrNative_unfold, df_dis by lia. cbv beta iota zeta.
  replace (0 - 1023 =? 1024) with false by lia.
  replace ((0 - 1023 =? - 1023) && negb (negb (f * 4096 =? 0))) with false by lia.
  replace ((0 - 1023 =? - 1023) && negb (f * 4096 =? 0)) with true by lia.
  (* fracNormalize on pb = f * 2^12 <> 0 *)
  set (pb := f * 4096).
  assert (Hpb : 0 < pb < 2 ^ 64) by (unfold pb; pows; lia).
  destruct (shift_out_in 64 pb Hpb) as (Hsh & Hrange & Hback).
  pose proof (log2_bounds 64 pb Hpb) as Hlog.
  unfold fracNormalize, bfFirst1.
  replace (pb =? 0) with false by lia.
  change (XP.CHAR_BIT * 8) with 64.
  replace (64 - 1 - Z.log2 pb =? -1) with false by lia.
  replace (64 - 1 - Z.log2 pb + 1) with (64 - Z.log2 pb) by lia.
  unfold bfShiftUp. change (XP.CHAR_BIT * 8) with 64.
  set (sh := 64 - Z.log2 pb) in *.
  set (pb' := (pb * 2 ^ sh) mod 2 ^ 64) in *.
  change (2 ^ 64) with 18446744073709551616 in Hrange.
  rewrite xdfToNative_unfold, xdf_asm_dis by lia. cbv beta iota zeta.
  replace ((0 - 1023) * 1 - sh =? 16385) with false by lia.
  rewrite !Z.shiftr_0_r.
  replace (1024 <=? (0 - 1023) * 1 - sh) with false by lia.
  replace (((0 - 1023) * 1 - sh =? -16382)) with false by lia.
  rewrite andb_false_l.
  rewrite Z.rem_1_r. replace (negb (0 =? 0)) with false by reflexivity.
  cbv beta iota zeta. rewrite !Z.shiftr_0_r.
  replace ((0 - 1023) * 1 - sh <=? - 1023) with true by lia.
  unfold fracDenormalize.
  replace (- 1023 <? (0 - 1023) * 1 - sh) with false by lia.
  rewrite Z.shiftl_0_r.
  replace (- 1023 - ((0 - 1023) * 1 - sh)) with sh by lia.
  unfold bfShiftDn. change (XP.CHAR_BIT * 8) with 64.
  replace (true && (0 <? sh)) with true by lia.
  rewrite Hback.
  replace (negb (pb =? 0)) with true by lia.
  rewrite andb_false_r.
  replace ((0 - 1023) * 1 - sh + sh) with (- 1023) by lia.
  rewrite df_asm by (unfold pb; lia).
  replace (b2z (s =? 1)) with s by (unfold b2z; destruct (Z.eqb_spec s 1); lia).
  unfold pb. lia.
Qed.

Lemma df_rt_norm s e f : 0 <= s <= 1 -> 1 <= e < 2047 -> 0 <= f < 4503599627370496 ->
  xdfToNative (xdfFrNative (s * 9223372036854775808 + e * 4503599627370496 + f)) = s * 9223372036854775808 + e * 4503599627370496 + f.
Proof.
  intros Hs He Hf.
  rewrite xdfFrNative_unfold, df_dis by lia. cbv beta iota zeta.
  replace (e - 1023 =? 1024) with false by lia.
  replace (e - 1023 =? - 1023) with false by lia.
  rewrite !andb_false_l.
  rewrite xdfToNative_unfold, xdf_asm_dis by lia. cbv beta iota zeta.
  replace ((e - 1023) * 1 =? 16385) with false by lia.
  rewrite !Z.shiftr_0_r.
  replace (1024 <=? (e - 1023) * 1) with false by lia.
  replace ((e - 1023) * 1 =? -16382) with false by lia.
  rewrite andb_false_l.
  rewrite Z.rem_1_r. replace (negb (0 =? 0)) with false by reflexivity.
  cbv beta iota zeta. rewrite !Z.shiftr_0_r.
  replace ((e - 1023) * 1 <=? - 1023) with false by lia.
  rewrite df_asm by lia.
  replace (b2z (s =? 1)) with s by (unfold b2z; destruct (Z.eqb_spec s 1); lia). lia.
Qed.

(* every bit pattern decomposes into the three fields *)
Lemma df_fields bits : 0 <= bits < 18446744073709551616 ->
  exists s e f, 0 <= s <= 1 /\ 0 <= e < 2048 /\ 0 <= f < 4503599627370496 /\ bits = s * 9223372036854775808 + e * 4503599627370496 + f.
Proof.
  intros H. exists (bits / 9223372036854775808), ((bits / 4503599627370496) mod 2048), (bits mod 4503599627370496). lia.
Qed.

(* FULL STATEMENT: every native bit pattern survives the portable encoding unchanged
   (signed zero, subnormals, infinities, and NaNs with their sign and payload). *)
Lemma xdf_roundtrip_all bits : 0 <= bits < 2 ^ 64 -> xdfToNative (xdfFrNative bits) = bits.
Proof.
  change (2 ^ 64) with 18446744073709551616. intros H.
  destruct (df_fields bits H) as (s & e & f & Hs & He & Hf & ->).
  destruct (Z.eq_dec e 2047) as [Hn|Hn]; [apply df_rt_nan; assumption|].
  destruct (Z.eq_dec e 0) as [Hz|Hz].
  - subst e. destruct (Z.eq_dec f 0) as [Hf0|Hf0].
    + subst f. apply df_rt_zero; assumption.
    + apply df_rt_sub; [assumption|lia].
  - apply df_rt_norm; [assumption|lia|assumption].
Qed.

(* dissemble then assemble *)
Lemma df_dissemble_assemble_all bits : 0 <= bits < 2 ^ 64 ->
  let '(sign, expon, frac, _) := natDissemble df bits in natAssemble df sign expon frac = bits.
Proof.
  change (2 ^ 64) with 18446744073709551616. intros H.
  destruct (df_fields bits H) as (s & e & f & Hs & He & Hf & ->).
  rewrite df_dis by assumption. rewrite df_asm by lia.
  replace (b2z (s =? 1)) with s by (unfold b2z; destruct (Z.eqb_spec s 1); lia). lia.
Qed.

(* ---- 6a. classification, single precision ---- *)

Lemma sf_classify_unfold bits :
  natClassify sf bits =
  classify_of (Z.land (bits / 65536) 32640) 32640
    (negb (Z.land ((bits / 65536) mod 2 ^ 8) 127 =? 0) || negb (bits mod 65536 =? 0)) true.
Proof. reflexivity. Qed.

Lemma xsf_classify_unfold xv :
  xClassify xsf xv = classify_of (Z.land (xv / 4294967296) 32767) 32767 (negb (xv mod 4294967296 =? 0)) true.
Proof. reflexivity. Qed.

Definition sf_class_of_fields (e f : Z) : fclass :=
  if e =? 0 then (if f =? 0 then FZero else FDenorm)
  else if e =? 255 then (if f =? 0 then FInf else FNaN)
  else FNorm.

(* sfClassify / dfClassify compute the IEEE class of the bit pattern *)
Lemma sf_classify s e f : 0 <= s <= 1 -> 0 <= e < 256 -> 0 <= f < 8388608 ->
  natClassify sf (s * 2147483648 + e * 8388608 + f) = sf_class_of_fields e f.
Proof.
  intros Hs He Hf. rewrite sf_classify_unfold.
  mask 32640 8 7. change 127 with (Z.ones 7). rewrite Z.land_ones by lia. pows.
  unfold classify_of, sf_class_of_fields.
  set (bits := s * 2147483648 + e * 8388608 + f).
  replace (bits / 65536 / 128 mod 256 * 128 =? 0) with (e =? 0) by (unfold bits; lia).
  replace (bits / 65536 / 128 mod 256 * 128 =? 32640) with (e =? 255) by (unfold bits; lia).
  replace (negb (bits / 65536 mod 256 mod 128 =? 0) || negb (bits mod 65536 =? 0))
    with (negb (f =? 0)) by (unfold bits; lia).
  rewrite andb_true_r.
  destruct (e =? 0); destruct (e =? 255); destruct (f =? 0); reflexivity.
Qed.

Definition x_class_of (c : fclass) : fclass := match c with FDenorm => FNorm | c => c end.

Lemma xsf_classify_asm sign ex pb : 0 <= ex + 16382 < 32768 -> 0 <= pb < 4294967296 ->
  xClassify xsf (xAssemble xsf sign ex pb) =
  classify_of (ex + 16382) 32767 (negb (pb =? 0)) true.
Proof.
  intros He Hp. rewrite xsf_asm by assumption. rewrite xsf_classify_unfold.
  change 32767 with (Z.ones 15) at 1. rewrite Z.land_ones by lia. pows.
  pose proof (b2z_range sign) as Hb. set (S := b2z sign) in *.
  replace (((S * 32768 + (ex + 16382)) * 4294967296 + pb) / 4294967296 mod 32768) with (ex + 16382) by lia.
  replace (((S * 32768 + (ex + 16382)) * 4294967296 + pb) mod 4294967296) with pb by lia.
  reflexivity.
Qed.

(* the portable form of a value has the class of the value, except that subnormals are
   stored normalised *)
Lemma xsf_classify_frnative_all bits : 0 <= bits < 2 ^ 32 ->
  xClassify xsf (xsfFrNative bits) = x_class_of (natClassify sf bits).
Proof.
  change (2 ^ 32) with 4294967296. intros H.
  destruct (sf_fields bits H) as (s & e & f & Hs & He & Hf & ->).
  rewrite sf_classify by assumption.
  rewrite xsfFrNative_unfold, sf_dis by lia. cbv beta iota zeta.
  unfold sf_class_of_fields.
  destruct (Z.eqb_spec e 255) as [Hn|Hn].
  - subst e. replace (255 - 127 =? 128) with true by lia.
    rewrite xsf_classify_asm by lia. unfold classify_of.
    replace (255 =? 0) with false by reflexivity.
    replace (16385 + 16382 =? 0) with false by reflexivity.
    replace (16385 + 16382 =? 32767) with true by reflexivity.
    replace (f * 512 =? 0) with (f =? 0) by lia.
    destruct (f =? 0); reflexivity.
  - replace (e - 127 =? 128) with false by lia.
    destruct (Z.eqb_spec e 0) as [Hz|Hz].
    + subst e. replace (0 - 127 =? - 127) with true by lia. rewrite !andb_true_l.
      destruct (Z.eqb_spec f 0) as [Hf0|Hf0].
      * subst f. replace (negb (negb (0 * 512 =? 0))) with true by reflexivity.
        rewrite xsf_classify_asm by lia. reflexivity.
      * replace (negb (negb (f * 512 =? 0))) with false by lia.
        replace (negb (f * 512 =? 0)) with true by lia.
        set (pb := f * 512).
        assert (Hpb : 0 < pb < 2 ^ 32) by (unfold pb; pows; lia).
        destruct (shift_out_in 32 pb Hpb) as (Hsh & Hrange & Hback).
        pose proof (log2_bounds 32 pb Hpb) as Hlog.
        unfold fracNormalize, bfFirst1.
        replace (pb =? 0) with false by lia.
        change (XP.CHAR_BIT * 4) with 32.
        replace (32 - 1 - Z.log2 pb =? -1) with false by lia.
        replace (32 - 1 - Z.log2 pb + 1) with (32 - Z.log2 pb) by lia.
        unfold bfShiftUp. change (XP.CHAR_BIT * 4) with 32.
        set (sh := 32 - Z.log2 pb) in *.
        change (2 ^ 32) with 4294967296 in Hrange.
        rewrite xsf_classify_asm by lia. unfold classify_of.
        replace ((0 - 127) * 1 - sh + 16382 =? 0) with false by lia.
        replace ((0 - 127) * 1 - sh + 16382 =? 32767) with false by lia.
        reflexivity.
    + replace (e - 127 =? - 127) with false by lia. rewrite !andb_false_l.
      rewrite xsf_classify_asm by lia. unfold classify_of.
      replace ((e - 127) * 1 + 16382 =? 0) with false by lia.
      replace ((e - 127) * 1 + 16382 =? 32767) with false by lia.
      reflexivity.
Qed.

(* ---- 6b. classification, double precision ---- *)

Lemma df_classify_unfold bits :
  natClassify df bits =
  classify_of (Z.land (bits / 281474976710656) 32752) 32752
    (negb (Z.land ((bits / 281474976710656) mod 2 ^ 8) 15 =? 0) || negb (bits mod 281474976710656 =? 0)) true.
Proof. reflexivity. Qed.

Lemma xdf_classify_unfold xv :
  xClassify xdf xv = classify_of (Z.land (xv / 18446744073709551616) 32767) 32767 (negb (xv mod 18446744073709551616 =? 0)) true.
Proof. reflexivity. Qed.

Definition df_class_of_fields (e f : Z) : fclass :=
  if e =? 0 then (if f =? 0 then FZero else FDenorm)
  else if e =? 2047 then (if f =? 0 then FInf else FNaN)
  else FNorm.

(* sfClassify / dfClassify compute the IEEE class of the bit pattern *)
Lemma df_classify s e f : 0 <= s <= 1 -> 0 <= e < 2048 -> 0 <= f < 4503599627370496 ->
  natClassify df (s * 9223372036854775808 + e * 4503599627370496 + f) = df_class_of_fields e f.
Proof.
  intros Hs He Hf. rewrite df_classify_unfold.
  mask 32752 11 4. change 15 with (Z.ones 4). rewrite Z.land_ones by lia. pows.
  unfold classify_of, df_class_of_fields.
  set (bits := s * 9223372036854775808 + e * 4503599627370496 + f).
  replace (bits / 281474976710656 / 16 mod 2048 * 16 =? 0) with (e =? 0) by (unfold bits; lia).
  replace (bits / 281474976710656 / 16 mod 2048 * 16 =? 32752) with (e =? 2047) by (unfold bits; lia).
  replace (negb (bits / 281474976710656 mod 256 mod 16 =? 0) || negb (bits mod 281474976710656 =? 0))
    with (negb (f =? 0)) by (unfold bits; lia).
  rewrite andb_true_r.
  destruct (e =? 0); destruct (e =? 2047); destruct (f =? 0); reflexivity.
Qed.

Lemma xdf_classify_asm sign ex pb : 0 <= ex + 16382 < 32768 -> 0 <= pb < 18446744073709551616 ->
  xClassify xdf (xAssemble xdf sign ex pb) =
  classify_of (ex + 16382) 32767 (negb (pb =? 0)) true.
Proof.
  intros He Hp. rewrite xdf_asm by assumption. rewrite xdf_classify_unfold.
  change 32767 with (Z.ones 15) at 1. rewrite Z.land_ones by lia. pows.
  pose proof (b2z_range sign) as Hb. set (S := b2z sign) in *.
  replace (((S * 32768 + (ex + 16382)) * 18446744073709551616 + pb) / 18446744073709551616 mod 32768) with (ex + 16382) by lia.
  replace (((S * 32768 + (ex + 16382)) * 18446744073709551616 + pb) mod 18446744073709551616) with pb by lia.
  reflexivity.
Qed.

(* the portable form of a value has the class of the value, except that subnormals are
   stored normalised *)
Lemma xdf_classify_frnative_all bits : 0 <= bits < 2 ^ 64 ->
  xClassify xdf (xdfFrNative bits) = x_class_of (natClassify df bits).
Proof.
  change (2 ^ 64) with 18446744073709551616. intros H.
  destruct (df_fields bits H) as (s & e & f & Hs & He & Hf & ->).
  rewrite df_classify by assumption.
  rewrite xdfFrNative_unfold, df_dis by lia. cbv beta iota zeta.
  unfold df_class_of_fields.
  destruct (Z.eqb_spec e 2047) as [Hn|Hn].
  - subst e. replace (2047 - 1023 =? 1024) with true by lia.
    rewrite xdf_classify_asm by lia. unfold classify_of.
    replace (2047 =? 0) with false by reflexivity.
    replace (16385 + 16382 =? 0) with false by reflexivity.
    replace (16385 + 16382 =? 32767) with true by reflexivity.
    replace (f * 4096 =? 0) with (f =? 0) by lia.
    destruct (f =? 0); reflexivity.
  - replace (e - 1023 =? 1024) with false by lia.
    destruct (Z.eqb_spec e 0) as [Hz|Hz].
    + subst e. replace (0 - 1023 =? - 1023) with true by lia. rewrite !andb_true_l.
      destruct (Z.eqb_spec f 0) as [Hf0|Hf0].
      * subst f. replace (negb (negb (0 * 4096 =? 0))) with true by reflexivity.
        rewrite xdf_classify_asm by lia. reflexivity.
      * replace (negb (negb (f * 4096 =? 0))) with false by lia.
        replace (negb (f * 4096 =? 0)) with true by lia.
        set (pb := f * 4096).
        assert (Hpb : 0 < pb < 2 ^ 64) by (unfold pb; pows; lia).
        destruct (shift_out_in 64 pb Hpb) as (Hsh & Hrange & Hback).
        pose proof (log2_bounds 64 pb Hpb) as Hlog.
        unfold fracNormalize, bfFirst1.
        replace (pb =? 0) with false by lia.
        change (XP.CHAR_BIT * 8) with 64.
        replace (64 - 1 - Z.log2 pb =? -1) with false by lia.
        replace (64 - 1 - Z.log2 pb + 1) with (64 - Z.log2 pb) by lia.
        unfold bfShiftUp. change (XP.CHAR_BIT * 8) with 64.
        set (sh := 64 - Z.log2 pb) in *.
        change (2 ^ 64) with 18446744073709551616 in Hrange.
        rewrite xdf_classify_asm by lia. unfold classify_of.
        replace ((0 - 1023) * 1 - sh + 16382 =? 0) with false by lia.
        replace ((0 - 1023) * 1 - sh + 16382 =? 32767) with false by lia.
        reflexivity.
    + replace (e - 1023 =? - 1023) with false by lia. rewrite !andb_false_l.
      rewrite xdf_classify_asm by lia. unfold classify_of.
      replace ((e - 1023) * 1 + 16382 =? 0) with false by lia.
      replace ((e - 1023) * 1 + 16382 =? 32767) with false by lia.
      reflexivity.
Qed.

(* ------------------------------------------------------------------------- *)
(* 5. run-time pair  fiSFloDissemble/fiSFloAssemble, fiDFloDissemble/fiDFloAssemble *)
(* ------------------------------------------------------------------------- *)

Definition bytes (l : list Z) : Prop := Forall (fun b => 0 <= b < 256) l.

Lemma to_le_bytes n v : bytes (to_le n v).
Proof.
  revert v. induction n as [|k IH]; intros v; cbn [to_le]; constructor.
  - apply Z.mod_pos_bound. lia.
  - apply IH.
Qed.

Lemma to_le_length n v : length (to_le n v) = n.
Proof. revert v. induction n as [|k IH]; intros v; cbn [to_le length]; [reflexivity|f_equal; apply IH]. Qed.

Lemma to_le_of_le l : bytes l -> to_le (length l) (of_le l) = l.
Proof.
  induction l as [|b t IH]; intros Hb; [reflexivity|].
  inversion Hb as [|b' t' Hb0 Ht]; subst.
  cbn [length to_le of_le]. f_equal.
  - lia.
  - replace ((b + 256 * of_le t) / 256) with (of_le t) by lia. apply IH. assumption.
Qed.

Lemma of_le_to_le n v : 0 <= v < 256 ^ Z.of_nat n -> of_le (to_le n v) = v.
Proof.
  revert v. induction n as [|k IH]; intros v Hv.
  - change (256 ^ Z.of_nat 0) with 1 in Hv. cbn. lia.
  - cbn [to_le of_le]. rewrite Nat2Z.inj_succ, Z.pow_succ_r in Hv by lia.
    rewrite IH by lia. lia.
Qed.

Lemma of_le_range l : bytes l -> 0 <= of_le l < 256 ^ Z.of_nat (length l).
Proof.
  induction l as [|b t IH]; intros Hb.
  - cbn. lia.
  - inversion Hb as [|b' t' Hb0 Ht]; subst. specialize (IH Ht).
    cbn [of_le length]. rewrite Nat2Z.inj_succ, Z.pow_succ_r by lia. lia.
Qed.

Lemma bytes_rev l : bytes l -> bytes (rev l).
Proof. unfold bytes. intros H. apply Forall_rev. assumption. Qed.

Lemma bswap_range n v : 0 <= bswap n v < 256 ^ Z.of_nat n.
Proof.
  unfold bswap.
  pose proof (of_le_range (rev (to_le n v)) (bytes_rev _ (to_le_bytes n v))) as H.
  rewrite rev_length, to_le_length in H. assumption.
Qed.

(* byte reversal is an involution *)
Lemma bswap_involutive n v : 0 <= v < 256 ^ Z.of_nat n -> bswap n (bswap n v) = v.
Proof.
  intros Hv. unfold bswap.
  replace n with (length (rev (to_le n v))) at 1 by (rewrite rev_length; apply to_le_length).
  rewrite to_le_of_le by (apply bytes_rev, to_le_bytes).
  rewrite rev_involutive. apply of_le_to_le. assumption.
Qed.

Lemma to_int_small z : - 2147483648 <= z < 2147483648 -> to_int z = z.
Proof.
  intros H. unfold to_int. change (XP.CHAR_BIT * XP.sizeof_int) with 32. change (32 - 1) with 31. pows.
  destruct (Z.ltb_spec (z mod 4294967296) 2147483648); lia.
Qed.

Lemma ztob_b2z (b : bool) : ztob (if b then 1 else 0) = b.
Proof. destruct b; reflexivity. Qed.

Lemma sf_dis_ranges bits : 0 <= bits < 2 ^ 32 ->
  let '(sign, expon, frac, _) := natDissemble sf bits in
  -127 <= expon <= 128 /\ 0 <= frac < 2 ^ 32.
Proof.
  change (2 ^ 32) with 4294967296. intros H.
  destruct (sf_fields bits H) as (s & e & f & Hs & He & Hf & ->).
  rewrite sf_dis by assumption. lia.
Qed.

Lemma df_dis_ranges bits : 0 <= bits < 2 ^ 64 ->
  let '(sign, expon, frac, _) := natDissemble df bits in
  -1023 <= expon <= 1024 /\ 0 <= frac < 2 ^ 64.
Proof.
  change (2 ^ 64) with 18446744073709551616. intros H.
  destruct (df_fields bits H) as (s & e & f & Hs & He & Hf & ->).
  rewrite df_dis by assumption. lia.
Qed.

(* [junk] = previous content of the caller's word; any 64-bit value *)
Lemma fiSFlo_dissemble_assemble_all junk bits : 0 <= junk -> 0 <= bits < 2 ^ 32 ->
  let '(sign, expon, sig0) := fiSFloDissemble junk bits in fiSFloAssemble sign expon sig0 = bits.
Proof.
  intros Hj Hb. unfold fiSFloDissemble, fiSFloAssemble.
  pose proof (sf_dis_ranges bits Hb) as Hr.
  pose proof (sf_dissemble_assemble_all bits Hb) as Hda.
  destruct (natDissemble sf bits) as [[[sign expon] frac] z].
  destruct Hr as [He Hf].
  change (XP.CHAR_BIT * XP.sizeof_FiSFlo) with 32.
  change (Z.to_nat XP.sizeof_FiSFlo) with 4%nat.
  pose proof (bswap_range 4 frac) as Hbs. change (256 ^ Z.of_nat 4) with (2 ^ 32) in Hbs.
  replace ((junk / 2 ^ 32 * 2 ^ 32 + bswap 4 frac) mod 2 ^ 32) with (bswap 4 frac)
    by (revert Hbs; pows; lia).
  rewrite bswap_involutive by (change (256 ^ Z.of_nat 4) with (2 ^ 32); assumption).
  rewrite !to_int_small by (destruct sign; lia).
  rewrite ztob_b2z. assumption.
Qed.

(* [junk] = the indeterminate value returned through psig1 *)
Lemma fiDFlo_dissemble_assemble_all junk bits : 0 <= bits < 2 ^ 64 ->
  let '(sign, expon, sig0, sig1) := fiDFloDissemble junk bits in
  fiDFloAssemble sign expon sig0 sig1 = bits.
Proof.
  intros Hb. unfold fiDFloDissemble, fiDFloAssemble.
  pose proof (df_dis_ranges bits Hb) as Hr.
  pose proof (df_dissemble_assemble_all bits Hb) as Hda.
  destruct (natDissemble df bits) as [[[sign expon] frac] z].
  destruct Hr as [He Hf].
  change (XP.CHAR_BIT * XP.sizeof_FiDFlo) with 64.
  change (Z.to_nat XP.sizeof_FiDFlo) with 8%nat.
  pose proof (bswap_range 8 frac) as Hbs. change (256 ^ Z.of_nat 8) with (2 ^ 64) in Hbs.
  rewrite Z.mod_small by assumption.
  rewrite bswap_involutive by (change (256 ^ Z.of_nat 8) with (2 ^ 64); assumption).
  rewrite !to_int_small by (destruct sign; lia).
  rewrite ztob_b2z. assumption.
Qed.

(* ------------------------------------------------------------------------- *)
(* corollaries                                                                 *)
(* ------------------------------------------------------------------------- *)

Lemma xsf_injective_all a b : 0 <= a < 2 ^ 32 -> 0 <= b < 2 ^ 32 ->
  xsfFrNative a = xsfFrNative b -> a = b.
Proof.
  intros Ha Hb H. rewrite <- (xsf_roundtrip_all a Ha), <- (xsf_roundtrip_all b Hb), H. reflexivity.
Qed.

Lemma xdf_injective_all a b : 0 <= a < 2 ^ 64 -> 0 <= b < 2 ^ 64 ->
  xdfFrNative a = xdfFrNative b -> a = b.
Proof.
  intros Ha Hb H. rewrite <- (xdf_roundtrip_all a Ha), <- (xdf_roundtrip_all b Hb), H. reflexivity.
Qed.

(* "NaN stays NaN" (the weak reading of the property) follows from the bit-exact one *)
Definition sf_is_nan (bits : Z) : bool := ((bits / 8388608) mod 256 =? 255) && negb (bits mod 8388608 =? 0).
Definition df_is_nan (bits : Z) : bool := ((bits / 4503599627370496) mod 2048 =? 2047) && negb (bits mod 4503599627370496 =? 0).

Lemma nan_stays_nan_all :
  (forall bits, 0 <= bits < 2 ^ 32 -> sf_is_nan (xsfToNative (xsfFrNative bits)) = sf_is_nan bits) /\
  (forall bits, 0 <= bits < 2 ^ 64 -> df_is_nan (xdfToNative (xdfFrNative bits)) = df_is_nan bits).
Proof.
  split; intros bits H; [rewrite xsf_roundtrip_all|rewrite xdf_roundtrip_all]; auto.
Qed.

(* ------------------------------------------------------------------------- *)
(* 7. literal conversion: folder and run time are the same function of the text *)
(* ------------------------------------------------------------------------- *)

Lemma lit_same_value_all :
  forall (libc : string -> string -> Z) (d2f f2d : Z -> Z) (other : string -> cval) (text : string),
    site_value libc d2f f2d other XP.fold_sflo text = site_value libc d2f f2d other XP.rt_sflo text /\
    site_value libc d2f f2d other XP.fold_dflo text = site_value libc d2f f2d other XP.rt_dflo text.
Proof. intros. split; reflexivity. Qed.

(* Whenever the folder folds a literal, the constant is the run-time value of the same
   text; and the folder declines (leaves the run-time call in place) exactly when that
   value is not finite. *)
Lemma lit_same_function_all :
  forall (libc : string -> string -> Z) (d2f f2d : Z -> Z) (other : string -> cval) (text : string),
    (forall v, site_fold libc d2f f2d other XP.fold_sflo text = Some v ->
               v = site_value libc d2f f2d other XP.rt_sflo text /\ cval_finite v = true) /\
    (forall v, site_fold libc d2f f2d other XP.fold_dflo text = Some v ->
               v = site_value libc d2f f2d other XP.rt_dflo text /\ cval_finite v = true) /\
    (site_fold libc d2f f2d other XP.fold_sflo text = None <->
       cval_finite (site_value libc d2f f2d other XP.rt_sflo text) = false) /\
    (site_fold libc d2f f2d other XP.fold_dflo text = None <->
       cval_finite (site_value libc d2f f2d other XP.rt_dflo text) = false) /\
    (* the run-time sites never decline *)
    site_fold libc d2f f2d other XP.rt_sflo text = Some (site_value libc d2f f2d other XP.rt_sflo text) /\
    site_fold libc d2f f2d other XP.rt_dflo text = Some (site_value libc d2f f2d other XP.rt_dflo text).
Proof.
  intros libc d2f f2d other text.
  destruct (lit_same_value_all libc d2f f2d other text) as [Es Ed].
  unfold site_fold.
  change (ls_guard XP.fold_sflo) with true. change (ls_guard XP.fold_dflo) with true.
  change (ls_guard XP.rt_sflo) with false. change (ls_guard XP.rt_dflo) with false.
  rewrite Es, Ed. cbn [andb].
  repeat split.
  - destruct (cval_finite (site_value libc d2f f2d other XP.rt_sflo text)) eqn:E; cbn [negb] in *; congruence.
  - destruct (cval_finite (site_value libc d2f f2d other XP.rt_sflo text)) eqn:E; cbn [negb] in *; congruence.
  - destruct (cval_finite (site_value libc d2f f2d other XP.rt_dflo text)) eqn:E; cbn [negb] in *; congruence.
  - destruct (cval_finite (site_value libc d2f f2d other XP.rt_dflo text)) eqn:E; cbn [negb] in *; congruence.
  - destruct (cval_finite (site_value libc d2f f2d other XP.rt_sflo text)); cbn [negb]; congruence.
  - destruct (cval_finite (site_value libc d2f f2d other XP.rt_sflo text)); cbn [negb]; congruence.
  - destruct (cval_finite (site_value libc d2f f2d other XP.rt_dflo text)); cbn [negb]; congruence.
  - destruct (cval_finite (site_value libc d2f f2d other XP.rt_dflo text)); cbn [negb]; congruence.
Qed.

(* the literal text reaches the conversion through the two known glue shapes, the
   stored type is float / double, and interpreter and generated C both call the
   run-time function that was compared above *)
Lemma lit_routes_all :
  ls_glue XP.fold_sflo = GCopyNul /\ ls_glue XP.fold_dflo = GCopyNul /\
  ls_glue XP.rt_sflo = GArrayItself /\ ls_glue XP.rt_dflo = GArrayItself /\
  ls_dest XP.fold_sflo = CFloat /\ ls_dest XP.rt_sflo = CFloat /\
  ls_dest XP.fold_dflo = CDouble /\ ls_dest XP.rt_dflo = CDouble /\
  XP.fint_sflo = "fiArrToSFlo"%string /\ XP.genc_sflo = "fiArrToSFlo"%string /\
  XP.fint_dflo = "fiArrToDFlo"%string /\ XP.genc_dflo = "fiArrToDFlo"%string /\
  ls_guard XP.fold_sflo = true /\ ls_guard XP.fold_dflo = true /\
  ls_guard XP.rt_sflo = false /\ ls_guard XP.rt_dflo = false.
Proof. repeat split; reflexivity. Qed.

(* ------------------------------------------------------------------------- *)
(* Examples: the hypotheses of the theorems are satisfiable and the functions    *)
(* are not constant (values as observed from the C harness on the pinned tree)   *)
(* ------------------------------------------------------------------------- *)

(* 1.0f, smallest subnormal, -0.0, a NaN with sign and payload, -Inf *)
Example ex_xsf_one   : xsfFrNative 0x3f800000 = 0x3ffe00000000 /\ xsfToNative 0x3ffe00000000 = 0x3f800000.
Proof. vm_compute. split; reflexivity. Qed.
Example ex_xsf_sub   : xsfFrNative 0x00000001 = 0x3f6800000000 /\ xsfToNative 0x3f6800000000 = 0x00000001.
Proof. vm_compute. split; reflexivity. Qed.
Example ex_xsf_mzero : xsfFrNative 0x80000000 = 0x800000000000 /\ xsfToNative 0x800000000000 = 0x80000000.
Proof. vm_compute. split; reflexivity. Qed.
Example ex_xsf_nan   : xsfFrNative 0xffc00001 = 0xffff80000200 /\ xsfToNative 0xffff80000200 = 0xffc00001.
Proof. vm_compute. split; reflexivity. Qed.
Example ex_xsf_minf  : xsfFrNative 0xff800000 = 0xffff00000000 /\ xsfToNative 0xffff00000000 = 0xff800000.
Proof. vm_compute. split; reflexivity. Qed.
(* doubles: smallest subnormal, a signalling NaN with payload 1, largest finite *)
Example ex_xdf_sub   : xdfFrNative 0x0000000000000001 = 0x3bcb0000000000000000 /\ xdfToNative 0x3bcb0000000000000000 = 1.
Proof. vm_compute. split; reflexivity. Qed.
Example ex_xdf_nan   : xdfFrNative 0x7ff0000000000001 = 0x7fff0000000000001000 /\ xdfToNative 0x7fff0000000000001000 = 0x7ff0000000000001.
Proof. vm_compute. split; reflexivity. Qed.
Example ex_xdf_max   : xdfToNative (xdfFrNative 0x7fefffffffffffff) = 0x7fefffffffffffff.
Proof. vm_compute. reflexivity. Qed.
(* dissemble: 1.5f = sign 0, exponent 0, fraction bytes 80 00 00 00 *)
Example ex_sf_dis    : natDissemble sf 0x3fc00000 = (false, 0, 0x80000000, false).
Proof. vm_compute. reflexivity. Qed.
Example ex_fiS       : fiSFloDissemble 0x1122334455667788 0x3fc00000 = (0, 0, 0x1122334400000080).
Proof. vm_compute. reflexivity. Qed.
Example ex_fiD       : fiDFloDissemble 7 0x3ff8000000000000 = (0, 0, 0x80, 7).
Proof. vm_compute. reflexivity. Qed.
(* the portable decoder is not injective on arbitrary byte strings (only FrNative's image
   matters): an out-of-range exponent saturates to Inf *)
Example ex_xsf_overflow : xsfToNative 0x7ffe12345678 = 0x7f800000.
Proof. vm_compute. reflexivity. Qed.
Example ex_classify  : natClassify sf 1 = FDenorm /\ xClassify xsf (xsfFrNative 1) = FNorm.
Proof. vm_compute. split; reflexivity. Qed.
(* a literal site that differs (strtof instead of (float)atof) is NOT identified with the
   run-time site by the evaluation used in lit_same_function_all *)
Example ex_lit_differs :
  forall libc d2f f2d other text,
    leval_to libc d2f f2d other CFloat text (LCast CFloat (LCall "atof")) = (CFloat, d2f (libc "atof"%string text)) /\
    leval_to libc d2f f2d other CFloat text (LCall "strtod") = (CFloat, d2f (libc "strtod"%string text)).
Proof. intros. split; reflexivity. Qed.
(* the folder declines an overflowing literal and folds an ordinary one (libc instantiated
   by constant functions just for the example) *)
Example ex_lit_declines :
  site_fold (fun _ _ => 0x7ff0000000000000) (fun b => b) (fun b => b) (fun _ => (CDouble, 0)) XP.fold_dflo "1.0e400"%string = None /\
  site_fold (fun _ _ => 0x3ff0000000000000) (fun b => b) (fun b => b) (fun _ => (CDouble, 0)) XP.fold_dflo "1.0"%string
    = Some (CDouble, 0x3ff0000000000000) /\
  site_fold (fun _ _ => 0x7ff0000000000000) (fun b => b) (fun b => b) (fun _ => (CDouble, 0)) XP.rt_dflo "1.0e400"%string
    = Some (CDouble, 0x7ff0000000000000).
Proof. vm_compute. repeat split; reflexivity. Qed.
