(* Routes/Proofs.v - the lemmas of Routes/Facts.v instantiated with the tables REGENERATED
   from the current sources (coq/Gen/ExitClasses.v). *)
Require Import ZArith List String Bool.
Require Import AV.Routes.Model AV.Routes.Facts AV.Gen.ExitClasses.
Import ListNotations.
Local Open Scope Z_scope.

(* the two halt tables agree row by row (a changed row fails here, by its code) *)
Lemma rows_l : rows_ok fint_route crt_route (halt_cmp known_trace_on_stdout) known_bad_halt.
Proof. walk_rows. Qed.

(* codes that have no row: the default arms, for every low byte of the code *)
Lemma default_l : default_ok fint_route crt_route (halt_cmp known_trace_on_stdout).
Proof. vm_compute. reflexivity. Qed.

Lemma normal_l : plain_cmp known_trace_on_stdout SOk fint_route crt_route EndNormal = true.
Proof. vm_compute. reflexivity. Qed.

Lemma uncaught_l : plain_cmp known_trace_on_stdout SFail fint_route crt_route EndUncaught = true.
Proof. vm_compute. reflexivity. Qed.

Definition exit_class_same_p :=
  exit_class_same_l fint_route crt_route known_trace_on_stdout known_bad_halt rows_l default_l normal_l uncaught_l.

Definition exit_messages_same_p :=
  exit_messages_same_l fint_route crt_route known_trace_on_stdout known_bad_halt rows_l default_l normal_l uncaught_l.

(* a halt code listed as a known finding is still one: the two routes really differ there *)
Lemma known_bad_still_bad_l :
  Forall (fun n => class_at fint_route installed (EndHalt n) <> class_at crt_route installed (EndHalt n))
         known_bad_halt.
Proof. repeat (apply Forall_cons; [vm_compute; discriminate|]). apply Forall_nil. Qed.

(* no statement of the modelled regions was left untranslated on a path the model walks *)
Definition defined_at (r : route) (x : ending) : bool :=
  forallb (fun e => negb (sclass_eqb (class_at r e x) SUnknown)) envs.

Lemma all_defined_l :
  forallb (fun x => defined_at fint_route x && defined_at crt_route x)
          (EndNormal :: EndUncaught :: map EndHalt (zrange (-2) 300)) = true.
Proof. vm_compute. reflexivity. Qed.
