(* Extraction of the ending model applied to the regenerated tables (used by props/c03.py to
   compare the model's predictions with the real binaries). *)
Require Import ExtrOcamlBasic.
Require Import ZArith List String.
Require Import AV.Routes.Model AV.Routes.Facts AV.Gen.ExitClasses.
Extraction "Routes/extracted/routes.ml" run fint_route crt_route installed mkenv halt_codes known_bad_halt
  known_trace_on_stdout class_of.
