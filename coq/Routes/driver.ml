(* Driver for the ending model of property C03.  One query per line on stdin:
     <fint|crt> <rt:0|1> <unh:0|1> normal | uncaught | halt <n>
   one JSON object per line on stdout.  No semantics here: conversion of numerals and
   strings between OCaml and the extracted Coq types, and printing. *)
open Routes

let rec pos_of_int n = if n = 1 then XH else if n land 1 = 0 then XO (pos_of_int (n lsr 1)) else XI (pos_of_int (n lsr 1))
let z_of_int n = if n = 0 then Z0 else if n > 0 then Zpos (pos_of_int n) else Zneg (pos_of_int (-n))
let rec int_of_pos = function XH -> 1 | XO p -> 2 * int_of_pos p | XI p -> 2 * int_of_pos p + 1
let int_of_z = function Z0 -> 0 | Zpos p -> int_of_pos p | Zneg p -> - (int_of_pos p)

let char_of_ascii (Ascii (b0, b1, b2, b3, b4, b5, b6, b7)) =
  let v b i = if b then 1 lsl i else 0 in
  Char.chr (v b0 0 lor v b1 1 lor v b2 2 lor v b3 3 lor v b4 4 lor v b5 5 lor v b6 6 lor v b7 7)

let of_coq (s : Routes.string) : Stdlib.String.t =
  let b = Buffer.create 64 in
  let rec go = function EmptyString -> () | String (a, r) -> Buffer.add_char b (char_of_ascii a); go r in
  go s; Buffer.contents b

let json_str (s : Stdlib.String.t) =
  let b = Buffer.create (Stdlib.String.length s + 8) in
  Buffer.add_char b '"';
  Stdlib.String.iter (fun c -> match c with
    | '"' -> Buffer.add_string b "\\\"" | '\\' -> Buffer.add_string b "\\\\"
    | '\n' -> Buffer.add_string b "\\n" | '\t' -> Buffer.add_string b "\\t"
    | c when Char.code c < 32 || Char.code c > 126 -> Buffer.add_string b (Printf.sprintf "\\u%04x" (Char.code c))
    | c -> Buffer.add_char b c) s;
  Buffer.add_char b '"'; Buffer.contents b

let stream_s = function StdOut -> "stdout" | StdErr -> "stderr"

let event_s = function
  | EPrint (s, f, a) -> Printf.sprintf "{\"ev\":\"print\",\"stream\":\"%s\",\"fmt\":%s,\"arg\":%s}" (stream_s s) (json_str (of_coq f)) (json_str (of_coq a))
  | ETrace s -> Printf.sprintf "{\"ev\":\"trace\",\"stream\":\"%s\"}" (stream_s s)
  | EUnhandled ExnUser -> "{\"ev\":\"unhandled\",\"stream\":\"stderr\",\"exn\":\"user\"}"
  | EUnhandled (ExnRuntime m) -> Printf.sprintf "{\"ev\":\"unhandled\",\"stream\":\"stderr\",\"exn\":\"runtime\",\"msg\":%s}" (json_str (of_coq m))

let result_s = function
  | RExit z -> Printf.sprintf "\"result\":\"exit\",\"status\":%d" (int_of_z z)
  | RCrash -> "\"result\":\"crash\""
  | RResume -> "\"result\":\"resume\""
  | RUnknown w -> Printf.sprintf "\"result\":\"unknown\",\"why\":%s" (json_str (of_coq w))

let class_s = function SOk -> "ok" | SFail -> "fail" | SResume -> "resume" | SUnknown -> "unknown"

let answer ws =
  match ws with
  | ["info"] ->
    Printf.sprintf "{\"halt_codes\":{%s},\"known_bad_halt\":[%s],\"known_trace_on_stdout\":%b}"
      (Stdlib.String.concat "," (List.map (fun (n, z) -> Printf.sprintf "%s:%d" (json_str (of_coq n)) (int_of_z z)) halt_codes))
      (Stdlib.String.concat "," (List.map (fun z -> string_of_int (int_of_z z)) known_bad_halt))
      known_trace_on_stdout
  | route :: rt :: unh :: rest ->
    let r = if route = "fint" then fint_route else crt_route in
    let e = { e_rt = (rt = "1"); e_unh = (unh = "1") } in
    let x = (match rest with
      | ["normal"] -> EndNormal | ["uncaught"] -> EndUncaught
      | ["halt"; n] -> EndHalt (z_of_int (int_of_string n))
      | _ -> failwith "bad ending") in
    let (res, evs) = run r e x in
    Printf.sprintf "{\"route\":\"%s\",%s,\"class\":\"%s\",\"events\":[%s]}" route (result_s res) (class_s (class_of res))
      (Stdlib.String.concat "," (List.map event_s evs))
  | _ -> "{\"error\":\"bad query\"}"

let () =
  try
    while true do
      let line = input_line stdin in
      let ws = List.filter (fun w -> w <> "") (Stdlib.String.split_on_char ' ' (Stdlib.String.trim line)) in
      if ws <> [] then (print_endline (try answer ws with Failure m -> "{\"error\":" ^ json_str m ^ "}"); flush stdout)
    done
  with End_of_file -> ()
