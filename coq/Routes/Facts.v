(* Routes/Facts.v - lemmas for property C03, generic in the two routes (hand-written).
   Nothing here mentions the generated tables; coq/Routes/Proofs.v instantiates. *)
Require Import ZArith List String Bool Lia.
Require Import AV.Routes.Model.
Import ListNotations.
Local Open Scope Z_scope.

(* ------------------------------------------------------------------ boolean equalities *)

Lemma stream_eqb_eq a b : stream_eqb a b = true -> a = b.
Proof. destruct a, b; cbn; intro H; try reflexivity; discriminate. Qed.

Lemma exn_eqb_eq a b : exn_eqb a b = true -> a = b.
Proof.
  destruct a as [|x], b as [|y]; cbn; intro H; try reflexivity; try discriminate.
  apply String.eqb_eq in H. congruence.
Qed.

Lemma event_eqb_eq a b : event_eqb a b = true -> a = b.
Proof.
  destruct a, b; cbn; intro H; try discriminate.
  - apply andb_true_iff in H as [H H3]. apply andb_true_iff in H as [H1 H2].
    apply stream_eqb_eq in H1. apply String.eqb_eq in H2. apply String.eqb_eq in H3. congruence.
  - apply stream_eqb_eq in H. congruence.
  - apply exn_eqb_eq in H. congruence.
Qed.

Lemma events_eqb_eq a : forall b, events_eqb a b = true -> a = b.
Proof.
  induction a as [|x a IH]; intros [|y b] H; cbn in H; try discriminate; try reflexivity.
  apply andb_true_iff in H as [H1 H2]. apply event_eqb_eq in H1. f_equal; auto.
Qed.

Lemma sclass_eqb_eq a b : sclass_eqb a b = true -> a = b.
Proof. destruct a, b; cbn; intro H; try reflexivity; discriminate. Qed.

(* ------------------------------------------------------------------ the halt code matters only modulo 256 *)

Lemma status8_idem z : status8 (status8 z) = status8 z.
Proof. unfold status8. apply Z.mod_mod. lia. Qed.

Lemma run_top_status8 h x l : forall out, run_top h x l out = run_top (status8 h) x l out.
Proof.
  induction l as [|a l IH]; intro out; cbn [run_top]; [reflexivity|].
  destruct a; try reflexivity; try apply IH.
  - rewrite status8_idem. reflexivity.
  - destruct x; [apply IH|reflexivity].
Qed.

Lemma run_halt_status8 r e n l : forall out, run_halt r e n l out = run_halt r e (status8 n) l out.
Proof.
  induction l as [|a l IH]; intro out; cbn [run_halt]; [reflexivity|].
  destruct a; try reflexivity; try apply IH.
  - destruct (run_raise (raise_body r e) msg out); [apply run_top_status8|reflexivity|apply IH].
  - rewrite status8_idem. reflexivity.
Qed.

(* ------------------------------------------------------------------ arms *)

Lemma suffix_from_none n arms : ~ In n (labels arms) -> suffix_from (Some n) arms = None.
Proof.
  induction arms as [|[l a] t IH]; intro H; cbn [suffix_from]; [reflexivity|].
  destruct l as [z|].
  - cbn [labels In] in H. destruct (Z.eqb_spec z n) as [->|Hne].
    + exfalso. apply H. left; reflexivity.
    + apply IH. intro Hin. apply H. right; exact Hin.
  - cbn [labels] in H. apply IH. exact H.
Qed.

Definition default_arm (arms : list (option Z * list act)) : list act :=
  match suffix_from None arms with Some l => upto_break l | None => [] end.

Definition default_acts (r : route) : list act :=
  r_halt_pre r ++ default_arm (r_halt_arms r) ++ r_halt_post r.

Lemma halt_acts_default r n : ~ In n (labels (r_halt_arms r)) -> halt_acts r n = default_acts r.
Proof.
  intro H. unfold halt_acts, default_acts, select_arm, default_arm.
  rewrite (suffix_from_none _ _ H). reflexivity.
Qed.

(* ------------------------------------------------------------------ lifting a per-row check to every halt code *)

Fixpoint zrange (lo : Z) (n : nat) : list Z :=
  match n with O => [] | S k => lo :: zrange (lo + 1) k end.

Lemma zrange_in n : forall lo z, lo <= z < lo + Z.of_nat n -> In z (zrange lo n).
Proof.
  induction n as [|n IH]; intros lo z H; cbn [zrange].
  - lia.
  - destruct (Z.eq_dec z lo) as [->|Hne]; [left; reflexivity|right]. apply IH. lia.
Qed.

Lemma env_in_envs e : In e envs.
Proof. destruct e as [[|] [|]]; cbn; auto. Qed.

Section Lift.
  Variables r1 r2 : route.
  Variable P : env -> outcome -> outcome -> bool.     (* the comparison *)
  Variable bad : list Z.

  (* one row: the halt code n, in every environment *)
  Definition row_ok (n : Z) : Prop :=
    forallb (fun e => P e (run r1 e (EndHalt n)) (run r2 e (EndHalt n))) envs = true.

  (* the tables agree row by row (rows of either switch), rows listed as known findings apart *)
  Definition rows_ok : Prop :=
    Forall (fun n => In n bad \/ row_ok n) (labels (r_halt_arms r1) ++ labels (r_halt_arms r2)).

  (* codes without a row: the default arms agree whatever the low byte of the code *)
  Definition default_ok : Prop :=
    forallb (fun m => forallb (fun e => P e (run_halt r1 e m (default_acts r1) [])
                                           (run_halt r2 e m (default_acts r2) [])) envs)
            (zrange 0 256) = true.

  Lemma halt_all : rows_ok -> default_ok ->
    forall n e, ~ In n bad -> P e (run r1 e (EndHalt n)) (run r2 e (EndHalt n)) = true.
  Proof.
    intros Hrows Hdef n e Hnb.
    destruct (in_dec Z.eq_dec n (labels (r_halt_arms r1) ++ labels (r_halt_arms r2))) as [Hin|Hout].
    - unfold rows_ok in Hrows. rewrite Forall_forall in Hrows.
      destruct (Hrows n Hin) as [Hb|Hok]; [contradiction|].
      unfold row_ok in Hok. rewrite forallb_forall in Hok. apply Hok. apply env_in_envs.
    - assert (H1 : ~ In n (labels (r_halt_arms r1))) by (intro H; apply Hout; apply in_or_app; left; exact H).
      assert (H2 : ~ In n (labels (r_halt_arms r2))) by (intro H; apply Hout; apply in_or_app; right; exact H).
      cbn [run]. rewrite (halt_acts_default r1 n H1), (halt_acts_default r2 n H2).
      rewrite (run_halt_status8 r1 e n), (run_halt_status8 r2 e n).
      unfold default_ok in Hdef. rewrite forallb_forall in Hdef.
      assert (Hm : In (status8 n) (zrange 0 256)).
      { apply zrange_in. unfold status8. pose proof (Z.mod_pos_bound n 256). lia. }
      specialize (Hdef _ Hm). rewrite forallb_forall in Hdef. apply Hdef. apply env_in_envs.
  Qed.
End Lift.

(* ------------------------------------------------------------------ the comparisons *)

Definition no_trace (l : list event) : list event := filter (fun v => negb (is_trace v)) l.

(* standard output as the property compares it; when the interpreter's stack trace on
   standard output is a listed finding, traces are left out of the comparison *)
Definition stdout_view (trace_known : bool) (l : list event) : list event :=
  if trace_known then no_trace (on StdOut l) else on StdOut l.

(* a run that ends by halt: failure on both routes, in every environment; with the library
   handlers installed also the same messages *)
Definition halt_cmp (trace_known : bool) (e : env) (o1 o2 : outcome) : bool :=
  sclass_eqb (class_of (fst o1)) SFail && sclass_eqb (class_of (fst o2)) SFail
  && (negb (e_rt e && e_unh e)
      || (events_eqb (no_trace (on StdErr (snd o1))) (no_trace (on StdErr (snd o2)))
          && events_eqb (stdout_view trace_known (snd o1)) (stdout_view trace_known (snd o2)))).

Lemma halt_cmp_class k e o1 o2 : halt_cmp k e o1 o2 = true ->
  class_of (fst o1) = SFail /\ class_of (fst o2) = SFail.
Proof.
  unfold halt_cmp. intro H. apply andb_true_iff in H as [H _]. apply andb_true_iff in H as [H1 H2].
  split; apply sclass_eqb_eq; assumption.
Qed.

Lemma halt_cmp_msgs k o1 o2 : halt_cmp k installed o1 o2 = true ->
  no_trace (on StdErr (snd o1)) = no_trace (on StdErr (snd o2)) /\
  stdout_view k (snd o1) = stdout_view k (snd o2).
Proof.
  unfold halt_cmp. intro H. apply andb_true_iff in H as [_ H]. cbn in H.
  apply andb_true_iff in H as [H1 H2]. split; apply events_eqb_eq; assumption.
Qed.

(* endings without a halt code *)
Definition plain_cmp (trace_known : bool) (want : sclass) (r1 r2 : route) (x : ending) : bool :=
  forallb (fun e => sclass_eqb (class_at r1 e x) want && sclass_eqb (class_at r2 e x) want) envs
  && events_eqb (no_trace (on StdErr (events_at r1 installed x))) (no_trace (on StdErr (events_at r2 installed x)))
  && events_eqb (stdout_view trace_known (events_at r1 installed x)) (stdout_view trace_known (events_at r2 installed x)).

Definition want_class (x : ending) : sclass := match x with EndNormal => SOk | _ => SFail end.

Definition bad_ending (bad : list Z) (x : ending) : Prop :=
  match x with EndHalt n => In n bad | _ => False end.

Section Main.
  Variables r1 r2 : route.
  Variable k : bool.
  Variable bad : list Z.
  Hypothesis Hrows : rows_ok r1 r2 (halt_cmp k) bad.
  Hypothesis Hdef : default_ok r1 r2 (halt_cmp k).
  Hypothesis Hnormal : plain_cmp k SOk r1 r2 EndNormal = true.
  Hypothesis Huncaught : plain_cmp k SFail r1 r2 EndUncaught = true.

  Lemma plain_class want x e : plain_cmp k want r1 r2 x = true ->
    class_at r1 e x = want /\ class_at r2 e x = want.
  Proof.
    unfold plain_cmp. intro H. apply andb_true_iff in H as [H _]. apply andb_true_iff in H as [H _].
    rewrite forallb_forall in H. specialize (H e (env_in_envs e)).
    apply andb_true_iff in H as [H1 H2]. split; apply sclass_eqb_eq; assumption.
  Qed.

  Lemma plain_msgs want x : plain_cmp k want r1 r2 x = true ->
    no_trace (on StdErr (events_at r1 installed x)) = no_trace (on StdErr (events_at r2 installed x)) /\
    stdout_view k (events_at r1 installed x) = stdout_view k (events_at r2 installed x).
  Proof.
    unfold plain_cmp. intro H. apply andb_true_iff in H as [H H3]. apply andb_true_iff in H as [_ H2].
    split; apply events_eqb_eq; assumption.
  Qed.

  (* same status class on both routes, and the class an ending of that kind must have *)
  Lemma exit_class_same_l : forall e x, ~ bad_ending bad x ->
    class_at r1 e x = class_at r2 e x /\ class_at r1 e x = want_class x.
  Proof.
    intros e x Hnb. destruct x as [| |n]; cbn [want_class].
    - destruct (plain_class SOk EndNormal e Hnormal) as [H1 H2]. rewrite H1, H2. split; reflexivity.
    - destruct (plain_class SFail EndUncaught e Huncaught) as [H1 H2]. rewrite H1, H2. split; reflexivity.
    - cbn [bad_ending] in Hnb.
      pose proof (halt_all r1 r2 (halt_cmp k) bad Hrows Hdef n e Hnb) as H.
      apply halt_cmp_class in H as [H1 H2]. unfold class_at. rewrite H1, H2. split; reflexivity.
  Qed.

  (* same messages, the library handlers being installed *)
  Lemma exit_messages_same_l : forall x, ~ bad_ending bad x ->
    no_trace (on StdErr (events_at r1 installed x)) = no_trace (on StdErr (events_at r2 installed x)) /\
    stdout_view k (events_at r1 installed x) = stdout_view k (events_at r2 installed x).
  Proof.
    intros x Hnb. destruct x as [| |n].
    - exact (plain_msgs SOk EndNormal Hnormal).
    - exact (plain_msgs SFail EndUncaught Huncaught).
    - cbn [bad_ending] in Hnb.
      pose proof (halt_all r1 r2 (halt_cmp k) bad Hrows Hdef n installed Hnb) as H.
      apply halt_cmp_msgs in H. exact H.
  Qed.
End Main.

(* ------------------------------------------------------------------ tactics for the generated tables *)

Ltac in_list := cbn [In]; repeat first [left; reflexivity | right]; fail.

Ltac row_failed :=
  lazymatch goal with
  | |- In ?n _ \/ _ => fail 1000 "ROW-FAILED halt code" n
  end.

Ltac solve_row := first [ left; solve [in_list] | right; vm_compute; reflexivity | row_failed ].

Ltac walk_rows :=
  lazymatch goal with
  | |- rows_ok ?r1 ?r2 ?P ?bad =>
      unfold rows_ok;
      let l := eval vm_compute in (labels (r_halt_arms r1) ++ labels (r_halt_arms r2)) in
      change (labels (r_halt_arms r1) ++ labels (r_halt_arms r2)) with l;
      repeat (apply Forall_cons; [solve_row|]); apply Forall_nil
  end.
