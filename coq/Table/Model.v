(* Model of /repo/aldor/aldor/src/table.c (open hashing with move-to-front and resize),
   function for function.  Definitions only; proofs are in Facts.v.

   Representation
     struct TblSlot {key, elt, hash, next}      slot = (skey, selt, shash); a chain is a `list slot`
     struct table   {hashFun, eqFun, info,
                     count, buckc, buckv}       tbl = (count, buckc, buckv : list (list slot))
     hashFun / eqFun                            Section variables `hashf`, `eqf`.
                                                eqFun == NULL is the instance eqf = fun _ _ => true
                                                (BUCKET_SEARCH tests `b->hash == h` first and then
                                                `!efun || efun(k, b->key)`); hashFun == NULL is the
                                                instance hashf = the pointer value (ptrCanon).
     TBL_InitBuckC, TBL_MaxLoad, binPrimeArray  Section variables `initbuckc`, `maxload`, `primes`:
                                                the check reads their current values from table.c /
                                                util.c and hands them to the extracted model; the
                                                theorems hold for every value (primes positive).
     TableIterator {curr, last, link}           curr = the suffix of buckv that starts at *curr
                                                (curr > last  <->  suffix empty), link = rest of chain.

   Not represented: storage (stoAlloc/stoFree, tblFree, tblFreeDeeply), the `info` field, tblPrint /
   tblColumnPrint (text), tblRemoveIf (sets elt to NULL, does not remove), C integer widths: `int x`
   and `int nbuckc` hold values < 2^31 (needs > 10^10 entries to fail), binPrime(n) for n > 32 reads
   past binPrimeArray (model: default 1), cielLg loops forever above 2^63 (model: 64 rounds). *)

Require Import ZArith List Bool.
Import ListNotations.
Local Open Scope Z_scope.

(* list access with a Z index (the bucket array) *)
Fixpoint nthZ {A} (l : list A) (i : Z) (d : A) : A :=
  match l with
  | [] => d
  | a :: r => if i =? 0 then a else nthZ r (i - 1) d
  end.

Fixpoint updZ {A} (l : list A) (i : Z) (f : A -> A) : list A :=
  match l with
  | [] => []
  | a :: r => if i =? 0 then f a :: r else a :: updZ r (i - 1) f
  end.

(* ---- util.c: cielLg, binPrime ---------------------------------------------------- *)
(* for (i = 0, p = 1; ; i++, p <<= 1) if (n <= p) return i; *)
Fixpoint cielLg_loop (fuel : nat) (n p i : Z) : Z :=
  match fuel with
  | O => i
  | S f => if n <=? p then i else cielLg_loop f n (2 * p) (i + 1)
  end.
Definition cielLg (n : Z) : Z := cielLg_loop 64 n 1 0.

Section Tbl.
Variables key elt : Type.
Variable hashf : key -> Z.             (* t->hashFun (or ptrCanon) *)
Variable eqf : key -> key -> bool.     (* t->eqFun   (or "true")   *)
Variable initbuckc : Z.                (* TBL_InitBuckC *)
Variable maxload : Z.                  (* TBL_MaxLoad   *)
Variable primes : list Z.              (* binPrimeArray *)
Variable mapf : elt -> elt.            (* the argument of tblNMap *)

Record slot := Slot { skey : key; selt : elt; shash : Z }.
Record tbl := Tbl { count : Z; buckc : Z; buckv : list (list slot) }.

Definition binPrime (nbits : Z) : Z := nthZ primes nbits 1.

(* ---- tblNew / tblNew0 ------------------------------------------------------------ *)
Definition empty_buckets (n : Z) : list (list slot) := repeat [] (Z.to_nat n).
Definition tblNew0 (bc : Z) : tbl := Tbl 0 bc (empty_buckets bc).
Definition tblNew : tbl := tblNew0 initbuckc.

(* ---- tblSize --------------------------------------------------------------------- *)
Definition tblSize (t : tbl) : Z := count t.

(* ---- BUCKET_SEARCH: first slot of the chain with hash == h and eq(k, key);
        result (slots before it, the slot, slots after it) ----------------------------- *)
Fixpoint bsearch (h : Z) (k : key) (b : list slot) : option (list slot * slot * list slot) :=
  match b with
  | [] => None
  | s :: r =>
      if (shash s =? h) && eqf k (skey s) then Some ([], s, r)
      else match bsearch h k r with
           | Some (pre, s', post) => Some (s :: pre, s', post)
           | None => None
           end
  end.

(* ---- tblElt: move the hit to the front of its chain, return its elt -------------- *)
Definition tblElt (t : tbl) (k : key) (notFound : elt) : tbl * elt :=
  let h := hashf k in
  let x := h mod buckc t in
  match bsearch h k (nthZ (buckv t) x []) with
  | Some (pre, s, post) =>
      (Tbl (count t) (buckc t) (updZ (buckv t) x (fun _ => s :: pre ++ post)), selt s)
  | None => (t, notFound)
  end.

(* ---- tblEnlarge ------------------------------------------------------------------ *)
Definition rehash1 (nb : Z) (acc : list (list slot)) (s : slot) : list (list slot) :=
  updZ acc (shash s mod nb) (cons s).

Definition tblEnlarge (t : tbl) : tbl :=
  let nb := binPrime (cielLg (buckc t) + 1) in
  Tbl (count t) nb
      (fold_left (fun acc b => fold_left (rehash1 nb) b acc) (buckv t) (empty_buckets nb)).

(* ---- tblSetElt ------------------------------------------------------------------- *)
Definition tblSetElt (t : tbl) (k : key) (e : elt) : tbl * elt :=
  let h := hashf k in
  let x := h mod buckc t in
  match bsearch h k (nthZ (buckv t) x []) with
  | Some (pre, s, post) =>
      (Tbl (count t) (buckc t)
           (updZ (buckv t) x (fun _ => Slot (skey s) e (shash s) :: pre ++ post)), e)
  | None =>
      let t1 := Tbl (count t + 1) (buckc t) (updZ (buckv t) x (cons (Slot k e h))) in
      ((if count t1 >? maxload * buckc t1 then tblEnlarge t1 else t1), e)
  end.

(* ---- tblDrop --------------------------------------------------------------------- *)
Definition tblDrop (t : tbl) (k : key) : tbl :=
  let h := hashf k in
  let x := h mod buckc t in
  match bsearch h k (nthZ (buckv t) x []) with
  | Some (pre, s, post) =>
      Tbl (count t - 1) (buckc t) (updZ (buckv t) x (fun _ => pre ++ post))
  | None => t
  end.

(* ---- tblCopy, tblNMap ------------------------------------------------------------ *)
Definition tblCopy (t : tbl) : tbl :=
  Tbl (count t) (buckc t)
      (map (map (fun ob => Slot (skey ob) (selt ob) (shash ob))) (buckv t)).

Definition tblNMap (t : tbl) : tbl :=
  Tbl (count t) (buckc t)
      (map (map (fun b => Slot (skey b) (mapf (selt b)) (shash b))) (buckv t)).

(* ---- iteration: tblITER / tblMORE / tblSTEP / tblKEY / tblELT -------------------- *)
Record titer := TIter { curr : list (list slot); link : list slot }.

(* _tblSTEP: do { curr++; if (curr > last) return 0; } while (!curr[0]); link = curr[0]; *)
Fixpoint tblSTEP0 (cur : list (list slot)) : titer :=
  match cur with
  | [] => TIter [] []
  | _ :: cur' =>
      match cur' with
      | [] => TIter [] []
      | b :: _ => match b with [] => tblSTEP0 cur' | _ => TIter cur' b end
      end
  end.

Definition tblITER (t : tbl) : titer :=
  let b0 := hd [] (buckv t) in
  match b0 with
  | [] => tblSTEP0 (buckv t)
  | _ => TIter (buckv t) b0
  end.

Definition tblMORE (it : titer) : bool := match curr it with [] => false | _ => true end.

Definition tblSTEP (it : titer) : titer :=
  match tl (link it) with
  | [] => tblSTEP0 (curr it)
  | l => TIter (curr it) l
  end.

Definition tblKEYELT (it : titer) : option (key * elt) :=
  match link it with s :: _ => Some (skey s, selt s) | [] => None end.

(* for (tblITER(it,t); tblMORE(it); tblSTEP(it)) visit (tblKEY(it), tblELT(it));
   None = out of fuel or a NULL link dereferenced. *)
Fixpoint iter_loop (fuel : nat) (it : titer) : option (list (key * elt)) :=
  match fuel with
  | O => None
  | S f =>
      if tblMORE it then
        match tblKEYELT it with
        | Some ke => match iter_loop f (tblSTEP it) with
                     | Some r => Some (ke :: r)
                     | None => None
                     end
        | None => None
        end
      else Some []
  end.

Definition tblIterate (t : tbl) : option (list (key * elt)) :=
  iter_loop (S (length (concat (buckv t)))) (tblITER t).

(* ---- operation histories ---------------------------------------------------------- *)
Inductive op :=
| OElt (k : key) (d : elt) | OSet (k : key) (e : elt) | ODrop (k : key)
| OSize | OIter | OCopy | ONMap.

Inductive out :=
| RElt (e : elt) | RSize (n : Z) | RIter (l : option (list (key * elt))) | RUnit.

Definition step (t : tbl) (o : op) : tbl * out :=
  match o with
  | OElt k d => let (t', r) := tblElt t k d in (t', RElt r)
  | OSet k e => let (t', r) := tblSetElt t k e in (t', RElt r)
  | ODrop k => (tblDrop t k, RUnit)
  | OSize => (t, RSize (tblSize t))
  | OIter => (t, RIter (tblIterate t))
  | OCopy => (tblCopy t, RUnit)
  | ONMap => (tblNMap t, RUnit)
  end.

Fixpoint run (t : tbl) (ops : list op) : tbl * list out :=
  match ops with
  | [] => (t, [])
  | o :: r => let (t1, x) := step t o in let (t2, xs) := run t1 r in (t2, x :: xs)
  end.

End Tbl.

Arguments Slot {key elt}.
Arguments skey {key elt}.
Arguments selt {key elt}.
Arguments shash {key elt}.
Arguments Tbl {key elt}.
Arguments count {key elt}.
Arguments buckc {key elt}.
Arguments buckv {key elt}.
Arguments OElt {key elt}.
Arguments OSet {key elt}.
Arguments ODrop {key elt}.
Arguments OSize {key elt}.
Arguments OIter {key elt}.
Arguments OCopy {key elt}.
Arguments ONMap {key elt}.
Arguments RElt {key elt}.
Arguments RSize {key elt}.
Arguments RIter {key elt}.
Arguments RUnit {key elt}.

(* ---- the hash / equality instances used by the correspondence (keys are Z) -------- *)
(* mode 0: hashFun = NULL, eqFun = NULL  (pointer identity)
   mode 1: h = k mod 4,       eq = (==)      (heavy collisions)
   mode 2: h = 42,            eq = (==)      (constant hash)
   mode 3: h = (k/8)*7919+3,  eq = k/8==k'/8 (equal but not identical keys)
   mode 4: h = k*1000003 mod 2^64, eq = (==) (spread)
   mode 5: h = k/4,           eqFun = NULL   (equality by hash alone)
   mode 6: h = (k mod 16) * 2^32 + 5, eq = (==)   (hashes that differ only above 32 bits) *)
Definition mode_hash (m : Z) (k : Z) : Z :=
  if m =? 0 then k
  else if m =? 1 then k mod 4
  else if m =? 2 then 42
  else if m =? 3 then (k / 8) * 7919 + 3
  else if m =? 4 then (k * 1000003) mod 18446744073709551616
  else if m =? 5 then k / 4
  else (k mod 16) * 4294967296 + 5.

Definition mode_eq (m : Z) (a b : Z) : bool :=
  if m =? 0 then true
  else if m =? 3 then a / 8 =? b / 8
  else if m =? 5 then true
  else a =? b.

(* the function handed to tblNMap by the correspondence harness *)
Definition mode_mapf (e : Z) : Z := e + 1.
