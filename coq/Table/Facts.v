(* Proofs about the model of table.c: refinement of a finite map, for every history. *)
Require Import ZArith List Bool Lia Permutation SetoidList.
Require Import AV.Table.Model.
Import ListNotations.
Local Open Scope Z_scope.

(* ------------------------------------------------------------------ list access *)
Lemma split_at {A} (l : list A) (x : Z) (d : A) :
  0 <= x < Z.of_nat (length l) ->
  exists P b Q, l = P ++ b :: Q /\ Z.of_nat (length P) = x /\ nthZ l x d = b /\
                forall f, updZ l x f = P ++ f b :: Q.
Proof.
  revert x. induction l as [|a r IH]; intros x Hx; cbn [length] in Hx.
  - lia.
  - cbn [nthZ updZ]. destruct (x =? 0) eqn:E.
    + exists [], a, r. cbn. repeat split; try reflexivity. lia.
    + destruct (IH (x - 1)) as (P & b & Q & H1 & H2 & H3 & H4); [lia|].
      exists (a :: P), b, Q. cbn [app length]. repeat split.
      * now rewrite H1 at 1.
      * lia.
      * exact H3.
      * intros f. now rewrite H4.
Qed.

Lemma nthZ_pos (l : list Z) (i : Z) : Forall (fun p => 0 < p) l -> 0 < nthZ l i 1.
Proof.
  intros H. revert i. induction H as [|a r Ha _ IH]; intros i; cbn [nthZ]; [lia|].
  destruct (i =? 0); [exact Ha | apply IH].
Qed.

Section Facts.
Variables key elt : Type.
Variable hashf : key -> Z.
Variable eqf : key -> key -> bool.
Variable initbuckc maxload : Z.
Variable primes : list Z.
Variable mapf : elt -> elt.

Notation slot := (slot key elt).
Notation tbl := (tbl key elt).
Notation bsearch := (bsearch key elt eqf).
Notation tblElt := (tblElt key elt hashf eqf).
Notation tblEnlarge := (tblEnlarge key elt primes).
Notation tblSetElt := (tblSetElt key elt hashf eqf maxload primes).
Notation tblDrop := (tblDrop key elt hashf eqf).
Notation tblNew := (tblNew key elt initbuckc).
Notation step := (step key elt hashf eqf maxload primes mapf).
Notation run := (run key elt hashf eqf maxload primes mapf).

(* The equality BUCKET_SEARCH really uses: same hash and (no eqFun or eqFun says equal). *)
Definition keq (a b : key) : bool := (hashf a =? hashf b) && eqf a b.

Hypothesis keq_refl : forall a, keq a a = true.
Hypothesis keq_sym : forall a b, keq a b = true -> keq b a = true.
Hypothesis keq_trans : forall a b c, keq a b = true -> keq b c = true -> keq a c = true.
Hypothesis primes_pos : Forall (fun p => 0 < p) primes.
Hypothesis initbuckc_pos : 0 < initbuckc.

Lemma keq_sym_false a b : keq a b = false -> keq b a = false.
Proof. intros H. destruct (keq b a) eqn:E; [|reflexivity]. apply keq_sym in E. congruence. Qed.

Lemma keq_congr_l a b c : keq a b = true -> keq a c = keq b c.
Proof.
  intros H. destruct (keq b c) eqn:E.
  - eapply keq_trans; eauto.
  - destruct (keq a c) eqn:E2; [|reflexivity].
    assert (keq b c = true) by (eapply keq_trans; [apply keq_sym; exact H | exact E2]). congruence.
Qed.

Lemma keq_congr_r a b c : keq a b = true -> keq c a = keq c b.
Proof.
  intros H. destruct (keq c b) eqn:E.
  - eapply keq_trans; [exact E | apply keq_sym; exact H].
  - destruct (keq c a) eqn:E2; [|reflexivity].
    assert (keq c b = true) by (eapply keq_trans; eauto). congruence.
Qed.

(* ------------------------------------------------------------------ the finite-map specification *)
Definition amap := list (key * elt).

Fixpoint get (k : key) (m : amap) : option elt :=
  match m with
  | [] => None
  | (k0, e0) :: r => if keq k k0 then Some e0 else get k r
  end.

Fixpoint sset (k : key) (e : elt) (m : amap) : amap :=
  match m with
  | [] => [(k, e)]
  | (k0, e0) :: r => if keq k k0 then (k0, e) :: r else (k0, e0) :: sset k e r
  end.

Fixpoint sdrop (k : key) (m : amap) : amap :=
  match m with
  | [] => []
  | (k0, e0) :: r => if keq k k0 then r else (k0, e0) :: sdrop k r
  end.

Definition eqk (a b : key) : Prop := keq a b = true.
Definition nodupm (m : amap) : Prop := NoDupA eqk (map fst m).
Definition nomatch (k : key) (m : amap) : Prop := Forall (fun p => keq k (fst p) = false) m.

Lemma InA_nomatch k m : nomatch k m <-> ~ InA eqk k (map fst m).
Proof.
  unfold nomatch. induction m as [|[k0 e0] r IH]; cbn [map fst].
  - split; [intros _ H; inversion H | constructor].
  - split.
    + intros H. inversion H as [|? ? H1 H2]; subst. cbn in H1. intros HA.
      inversion HA as [? ? E|? ? HA']; subst.
      * unfold eqk in E. congruence.
      * apply IH in H2. contradiction.
    + intros H. constructor.
      * cbn. destruct (keq k k0) eqn:E; [|reflexivity]. exfalso. apply H. now constructor.
      * apply IH. intros HA. apply H. now constructor 2.
Qed.

Lemma nodupm_cons k e m : nodupm ((k, e) :: m) <-> nomatch k m /\ nodupm m.
Proof.
  unfold nodupm. cbn [map fst]. split.
  - intros H. inversion H; subst. split; [now apply InA_nomatch | assumption].
  - intros [H1 H2]. constructor; [now apply InA_nomatch | assumption].
Qed.

Lemma nomatch_perm k m m' : Permutation m m' -> nomatch k m -> nomatch k m'.
Proof. intros P H. unfold nomatch in *. eapply Permutation_Forall; eauto. Qed.

Lemma nomatch_congr a b m : keq a b = true -> nomatch a m -> nomatch b m.
Proof.
  intros E H. unfold nomatch in *. eapply Forall_impl; [|exact H].
  intros p Hp. cbn in *. rewrite <- (keq_congr_l a b (fst p) E). exact Hp.
Qed.

Lemma nodupm_perm m m' : Permutation m m' -> nodupm m -> nodupm m'.
Proof.
  induction 1 as [| [k e] l l' P IH | [k1 e1] [k2 e2] l | l1 l2 l3 P1 IH1 P2 IH2]; intros H.
  - exact H.
  - apply nodupm_cons in H as [H1 H2]. apply nodupm_cons. split; [eapply nomatch_perm; eauto | auto].
  - apply nodupm_cons in H as [H1 H2]. apply nodupm_cons in H2 as [H2 H3].
    inversion H1 as [|? ? Hk Hr]; subst. cbn in Hk.
    apply nodupm_cons. split.
    + constructor; [cbn; now apply keq_sym_false | exact H2].
    + apply nodupm_cons. split; assumption.
  - auto.
Qed.

Lemma get_nomatch k m : nomatch k m -> get k m = None.
Proof.
  induction 1 as [|[k0 e0] r H _ IH]; cbn [get]; [reflexivity|]. cbn in H. now rewrite H.
Qed.

Lemma get_None_nomatch k m : get k m = None -> nomatch k m.
Proof.
  induction m as [|[k0 e0] r IH]; cbn [get]; intros H; [constructor|].
  destruct (keq k k0) eqn:E; [discriminate|]. constructor; [exact E | now apply IH].
Qed.

Lemma get_perm k m m' : Permutation m m' -> nodupm m -> get k m = get k m'.
Proof.
  induction 1 as [| [k0 e0] l l' P IH | [k1 e1] [k2 e2] l | l1 l2 l3 P1 IH1 P2 IH2]; intros H.
  - reflexivity.
  - apply nodupm_cons in H as [_ H]. cbn [get]. now rewrite IH.
  - apply nodupm_cons in H as [H1 _]. inversion H1 as [|? ? Hk _]; subst. cbn in Hk.
    cbn [get]. destruct (keq k k1) eqn:E1, (keq k k2) eqn:E2; try reflexivity.
    exfalso. assert (keq k2 k1 = true) by (eapply keq_trans; [apply keq_sym; exact E2 | exact E1]).
    congruence.
  - rewrite IH1 by assumption. apply IH2. eapply nodupm_perm; eauto.
Qed.

Lemma get_congr a b m : keq a b = true -> get a m = get b m.
Proof.
  intros E. induction m as [|[k0 e0] r IH]; cbn [get]; [reflexivity|].
  rewrite (keq_congr_l a b k0 E). now rewrite IH.
Qed.

(* sset / sdrop are map update / removal *)
Lemma keq_comm a b : keq a b = keq b a.
Proof.
  destruct (keq a b) eqn:E; symmetry; [now apply keq_sym | now apply keq_sym_false].
Qed.

Lemma get_sset k e m k' : get k' (sset k e m) = if keq k k' then Some e else get k' m.
Proof.
  induction m as [|[k0 e0] r IH]; cbn [sset get].
  - now rewrite (keq_comm k' k).
  - destruct (keq k k0) eqn:E0; cbn [get].
    + rewrite <- (keq_congr_r k k0 k' E0), (keq_comm k' k). now destruct (keq k k').
    + rewrite IH. destruct (keq k' k0) eqn:E1; [|reflexivity].
      destruct (keq k k') eqn:E2; [|reflexivity].
      assert (keq k k0 = true) by (eapply keq_trans; eauto). congruence.
Qed.

Lemma nomatch_sdrop k k' m : nomatch k' m -> nomatch k' (sdrop k m).
Proof.
  induction 1 as [|[k0 e0] r H Hr IH]; cbn [sdrop]; [constructor|].
  destruct (keq k k0); [exact Hr | constructor; assumption].
Qed.

Lemma get_sdrop k m k' : nodupm m -> get k' (sdrop k m) = if keq k k' then None else get k' m.
Proof.
  induction m as [|[k0 e0] r IH]; intros ND; cbn [sdrop get].
  - now destruct (keq k k').
  - apply nodupm_cons in ND as [N1 N2]. destruct (keq k k0) eqn:E0; cbn [get].
    + destruct (keq k k') eqn:E1.
      * apply get_nomatch. eapply nomatch_congr; [|exact N1].
        eapply keq_trans; [apply keq_sym; exact E0 | exact E1].
      * replace (keq k' k0) with false; [reflexivity|]. symmetry.
        destruct (keq k' k0) eqn:E2; [|reflexivity].
        assert (keq k k' = true) by (eapply keq_trans; [exact E0 | now apply keq_sym]). congruence.
    + rewrite IH by assumption. destruct (keq k' k0) eqn:E1; [|reflexivity].
      replace (keq k k') with false; [reflexivity|]. symmetry.
      destruct (keq k k') eqn:E2; [|reflexivity].
      assert (keq k k0 = true) by (eapply keq_trans; eauto). congruence.
Qed.

Lemma sset_nomatch k e m : nomatch k m -> sset k e m = m ++ [(k, e)].
Proof.
  induction 1 as [|[k0 e0] r H _ IH]; cbn [sset app]; [reflexivity|]. cbn in H. rewrite H. now rewrite IH.
Qed.

Lemma sdrop_nomatch k m : nomatch k m -> sdrop k m = m.
Proof.
  induction 1 as [|[k0 e0] r H _ IH]; cbn [sdrop]; [reflexivity|]. cbn in H. rewrite H. now rewrite IH.
Qed.

Lemma nomatch_sset k e k' m : keq k' k = false -> nomatch k' m -> nomatch k' (sset k e m).
Proof.
  intros E. induction 1 as [|[k0 e0] r H Hr IH]; cbn [sset].
  - constructor; [exact E | constructor].
  - destruct (keq k k0); constructor; assumption.
Qed.

Lemma nodupm_sset k e m : nodupm m -> nodupm (sset k e m).
Proof.
  induction m as [|[k0 e0] r IH]; intros ND; cbn [sset].
  - apply nodupm_cons. split; constructor.
  - apply nodupm_cons in ND as [N1 N2]. destruct (keq k k0) eqn:E.
    + apply nodupm_cons. split; assumption.
    + apply nodupm_cons. split; [|auto]. apply nomatch_sset; [|exact N1]. now apply keq_sym_false.
Qed.

Lemma nodupm_sdrop k m : nodupm m -> nodupm (sdrop k m).
Proof.
  induction m as [|[k0 e0] r IH]; intros ND; cbn [sdrop]; [exact ND|].
  apply nodupm_cons in ND as [N1 N2]. destruct (keq k k0); [exact N2|].
  apply nodupm_cons. split; [now apply nomatch_sdrop | auto].
Qed.

Lemma sset_perm k e m m' : Permutation m m' -> nodupm m -> Permutation (sset k e m) (sset k e m').
Proof.
  induction 1 as [| [k0 e0] l l' P IH | [k1 e1] [k2 e2] l | l1 l2 l3 P1 IH1 P2 IH2]; intros ND.
  - apply Permutation_refl.
  - apply nodupm_cons in ND as [_ ND]. cbn [sset]. destruct (keq k k0).
    + now apply perm_skip.
    + apply perm_skip. auto.
  - apply nodupm_cons in ND as [N1 _]. inversion N1 as [|? ? Hk _]; subst. cbn in Hk.
    cbn [sset]. destruct (keq k k1) eqn:E1, (keq k k2) eqn:E2; try apply perm_swap.
    exfalso. assert (keq k2 k1 = true) by (eapply keq_trans; [apply keq_sym; exact E2 | exact E1]).
    congruence.
  - eapply Permutation_trans; [apply IH1; assumption|]. apply IH2. eapply nodupm_perm; eauto.
Qed.

Lemma sdrop_perm k m m' : Permutation m m' -> nodupm m -> Permutation (sdrop k m) (sdrop k m').
Proof.
  induction 1 as [| [k0 e0] l l' P IH | [k1 e1] [k2 e2] l | l1 l2 l3 P1 IH1 P2 IH2]; intros ND.
  - apply Permutation_refl.
  - apply nodupm_cons in ND as [_ ND]. cbn [sdrop]. destruct (keq k k0); [exact P | apply perm_skip; auto].
  - apply nodupm_cons in ND as [N1 N2]. inversion N1 as [|? ? Hk Hr]; subst. cbn in Hk.
    apply nodupm_cons in N2 as [N2 N3].
    cbn [sdrop]. destruct (keq k k1) eqn:E1, (keq k k2) eqn:E2.
    + exfalso. assert (keq k2 k1 = true) by (eapply keq_trans; [apply keq_sym; exact E2 | exact E1]).
      congruence.
    + apply Permutation_refl.
    + apply Permutation_refl.
    + apply perm_swap.
  - eapply Permutation_trans; [apply IH1; assumption|]. apply IH2. eapply nodupm_perm; eauto.
Qed.

(* ------------------------------------------------------------------ abstraction and invariant *)
Definition kv (s : slot) : key * elt := (skey s, selt s).
Definition kvs (l : list slot) : amap := map kv l.
Definition abs (t : tbl) : amap := kvs (concat (buckv t)).

Definition slot_ok (bc i : Z) (s : slot) : Prop := shash s = hashf (skey s) /\ shash s mod bc = i.

Fixpoint placed (bc i : Z) (bs : list (list slot)) : Prop :=
  match bs with
  | [] => True
  | b :: r => Forall (slot_ok bc i) b /\ placed bc (i + 1) r
  end.

Record inv (t : tbl) : Prop := {
  inv_pos : 0 < buckc t;
  inv_len : Z.of_nat (length (buckv t)) = buckc t;
  inv_placed : placed (buckc t) 0 (buckv t);        (* every entry in bucket hash mod buckc *)
  inv_nodup : nodupm (abs t);                       (* no two equal keys *)
  inv_count : count t = Z.of_nat (length (abs t))
}.

Lemma placed_app bc i P Q :
  placed bc i (P ++ Q) <-> placed bc i P /\ placed bc (i + Z.of_nat (length P)) Q.
Proof.
  revert i. induction P as [|b r IH]; intros i; cbn [app placed length].
  - rewrite Z.add_0_r. tauto.
  - rewrite IH. replace (i + 1 + Z.of_nat (length r)) with (i + Z.of_nat (S (length r))) by lia. tauto.
Qed.

Lemma placed_nomatch bc i bs k :
  placed bc i bs -> (hashf k mod bc < i \/ i + Z.of_nat (length bs) <= hashf k mod bc) ->
  nomatch k (kvs (concat bs)).
Proof.
  revert i. induction bs as [|b r IH]; intros i Hp Hx; cbn [concat].
  - constructor.
  - destruct Hp as [Hb Hr]. unfold kvs, nomatch. rewrite map_app. apply Forall_app. split.
    + apply Forall_forall. intros p Hin. apply in_map_iff in Hin as (s & <- & Hs).
      rewrite Forall_forall in Hb. destruct (Hb s Hs) as [H1 H2]. cbn.
      unfold keq. destruct (hashf k =? hashf (skey s)) eqn:E; [|reflexivity].
      apply Z.eqb_eq in E. exfalso. rewrite <- E in H1. rewrite H1 in H2. cbn [length] in Hx. lia.
    + apply (IH (i + 1) Hr). cbn [length] in Hx. lia.
Qed.

Lemma placed_hash bc i bs : placed bc i bs -> Forall (fun s => shash s = hashf (skey s)) (concat bs).
Proof.
  revert i. induction bs as [|b r IH]; intros i Hp; cbn [concat]; [constructor|].
  destruct Hp as [Hb Hr]. apply Forall_app. split; [|eauto].
  eapply Forall_impl; [|exact Hb]. intros s [H _]. exact H.
Qed.

(* BUCKET_SEARCH *)
Definition smatch (h : Z) (k : key) (s : slot) : bool := (shash s =? h) && eqf k (skey s).

Lemma bsearch_some h k b pre s post :
  bsearch h k b = Some (pre, s, post) ->
  b = pre ++ s :: post /\ smatch h k s = true /\ Forall (fun s' => smatch h k s' = false) pre.
Proof.
  revert pre. induction b as [|a r IH]; intros pre H; cbn [bsearch] in H; [discriminate|].
  fold (smatch h k a) in H. destruct (smatch h k a) eqn:E.
  - inversion H; subst. repeat split; auto.
  - destruct (bsearch h k r) as [[[pre' s'] post']|] eqn:E2; [|discriminate].
    inversion H; subst. destruct (IH pre' eq_refl) as (H1 & H2 & H3).
    repeat split; [now rewrite H1 at 1 | exact H2 | constructor; assumption].
Qed.

Lemma bsearch_none h k b : bsearch h k b = None -> Forall (fun s' => smatch h k s' = false) b.
Proof.
  induction b as [|a r IH]; intros H; cbn [bsearch] in H; [constructor|].
  fold (smatch h k a) in H. destruct (smatch h k a) eqn:E; [discriminate|].
  destruct (bsearch h k r) as [[[pre' s'] post']|] eqn:E2; [discriminate|].
  constructor; auto.
Qed.

Lemma smatch_keq bc i k s : slot_ok bc i s -> smatch (hashf k) k s = keq k (skey s).
Proof.
  intros [H _]. unfold smatch, keq. rewrite H. rewrite (Z.eqb_sym (hashf (skey s))). reflexivity.
Qed.

Lemma nosmatch_nomatch bc i k l :
  Forall (slot_ok bc i) l -> Forall (fun s' => smatch (hashf k) k s' = false) l -> nomatch k (kvs l).
Proof.
  intros H1 H2. unfold nomatch, kvs. apply Forall_forall. intros p Hin.
  apply in_map_iff in Hin as (s & <- & Hs). rewrite Forall_forall in H1, H2. cbn.
  rewrite <- (smatch_keq bc i k s (H1 s Hs)). auto.
Qed.

(* Everything one needs to know about the bucket an operation on key k works in. *)
Lemma locate t k :
  inv t ->
  exists P b Q,
    buckv t = P ++ b :: Q /\
    nthZ (buckv t) (hashf k mod buckc t) [] = b /\
    (forall f, updZ (buckv t) (hashf k mod buckc t) f = P ++ f b :: Q) /\
    Z.of_nat (length P) = hashf k mod buckc t /\
    placed (buckc t) 0 P /\ Forall (slot_ok (buckc t) (hashf k mod buckc t)) b /\
    placed (buckc t) (hashf k mod buckc t + 1) Q /\
    nomatch k (kvs (concat P)) /\ nomatch k (kvs (concat Q)).
Proof.
  intros I. destruct I as [Hpos Hlen Hpl _ _].
  assert (Hx : 0 <= hashf k mod buckc t < Z.of_nat (length (buckv t))).
  { rewrite Hlen. apply Z.mod_pos_bound. exact Hpos. }
  destruct (split_at (buckv t) _ [] Hx) as (P & b & Q & H1 & H2 & H3 & H4).
  exists P, b, Q. rewrite H1 in Hpl. apply placed_app in Hpl as [HP HQ]. cbn [placed] in HQ.
  destruct HQ as [Hb HQ]. rewrite Z.add_0_l in Hb, HQ. rewrite H2 in Hb, HQ.
  repeat split; auto.
  - eapply placed_nomatch; [exact HP|]. right. lia.
  - eapply placed_nomatch; [exact HQ|]. left. lia.
Qed.

Lemma kvs_app a b : kvs (a ++ b) = kvs a ++ kvs b.
Proof. apply map_app. Qed.

Lemma abs_split c bc P b Q : abs (Tbl c bc (P ++ b :: Q)) = kvs (concat P) ++ kvs b ++ kvs (concat Q).
Proof. unfold abs. cbn [buckv]. rewrite concat_app. cbn [concat]. now rewrite !kvs_app. Qed.

Lemma abs_of t P b Q : buckv t = P ++ b :: Q -> abs t = kvs (concat P) ++ kvs b ++ kvs (concat Q).
Proof. unfold abs. intros ->. rewrite concat_app. cbn [concat]. now rewrite !kvs_app. Qed.

Lemma perm_front {A} (X : list A) pre s post Y :
  Permutation (X ++ (pre ++ s :: post) ++ Y) (s :: X ++ (pre ++ post) ++ Y).
Proof.
  rewrite <- !app_assoc. cbn [app].
  eapply Permutation_trans; [apply Permutation_app_head; apply Permutation_sym; apply Permutation_middle|].
  apply Permutation_sym. apply Permutation_middle.
Qed.

Lemma perm_front2 {A} (X : list A) s l Y : Permutation (X ++ (s :: l) ++ Y) (s :: X ++ l ++ Y).
Proof. apply (perm_front X [] s l Y). Qed.

Lemma perm_front_kvs X pre s post Y :
  Permutation (X ++ kvs (pre ++ s :: post) ++ Y) (kv s :: X ++ kvs (pre ++ post) ++ Y).
Proof. unfold kvs. rewrite !map_app. cbn [map]. apply perm_front. Qed.

Lemma rebuild_placed bc P b Q x :
  Z.of_nat (length P) = x -> placed bc 0 P -> Forall (slot_ok bc x) b -> placed bc (x + 1) Q ->
  placed bc 0 (P ++ b :: Q).
Proof.
  intros HL HP Hb HQ. apply placed_app. split; [exact HP|]. cbn [placed]. rewrite Z.add_0_l, HL. auto.
Qed.

Lemma app_len_Z {A} (P : list A) b Q : Z.of_nat (length (P ++ b :: Q)) = Z.of_nat (length P) + 1 + Z.of_nat (length Q).
Proof. rewrite app_length. cbn [length]. lia. Qed.

Definition dflt (d : elt) (o : option elt) : elt := match o with Some e => e | None => d end.

(* ------------------------------------------------------------------ tblElt *)
Lemma elt_spec t k d :
  inv t ->
  inv (fst (tblElt t k d)) /\
  snd (tblElt t k d) = dflt d (get k (abs t)) /\
  Permutation (abs (fst (tblElt t k d))) (abs t) /\
  count (fst (tblElt t k d)) = count t.
Proof.
  intros I. destruct (locate t k I) as (P & b & Q & HB & Hn & Hu & HL & HP & Hb & HQ & NP & NQ).
  unfold tblElt. rewrite Hn. clear Hn. destruct (bsearch (hashf k) k b) as [[[pre s] post]|] eqn:E.
  - apply bsearch_some in E as (Eb & Em & Epre). cbn [fst snd]. rewrite Hu. subst b.
    assert (Habs : abs t = kvs (concat P) ++ kvs (pre ++ s :: post) ++ kvs (concat Q)).
    { now apply abs_of. }
    assert (Pm : Permutation (abs (Tbl (count t) (buckc t) (P ++ (s :: pre ++ post) :: Q))) (abs t)).
    { rewrite abs_split, Habs. apply Permutation_app_head. apply Permutation_app_tail.
      unfold kvs. apply Permutation_map. apply Permutation_middle. }
    assert (Hs : slot_ok (buckc t) (hashf k mod buckc t) s).
    { rewrite Forall_forall in Hb. apply Hb. apply in_or_app. right. now left. }
    split; [|split; [|split]]; [| | exact Pm | reflexivity].
    + constructor; cbn [count buckc buckv].
      * apply I.
      * rewrite <- (inv_len t I), HB. rewrite !app_len_Z. reflexivity.
      * eapply rebuild_placed; eauto. apply Forall_app in Hb as [Hb1 Hb2].
        inversion Hb2; subst. constructor; [assumption|]. apply Forall_app. split; assumption.
      * eapply nodupm_perm; [apply Permutation_sym; exact Pm | apply I].
      * etransitivity; [apply (inv_count t I)|]. f_equal. apply Permutation_length. now apply Permutation_sym.
    + assert (Pm0 : Permutation (abs t)
                 (kv s :: kvs (concat P) ++ kvs (pre ++ post) ++ kvs (concat Q))).
      { rewrite Habs. apply perm_front_kvs. }
      rewrite (get_perm k _ _ Pm0) by apply I.
      unfold kv. cbn [get]. rewrite <- (smatch_keq _ _ k s Hs), Em. reflexivity.
  - apply bsearch_none in E. cbn [fst snd].
    split; [exact I | split; [| split; [apply Permutation_refl | reflexivity]]].
    assert (Habs : abs t = kvs (concat P) ++ kvs b ++ kvs (concat Q)).
    { now apply abs_of. }
    rewrite Habs, get_nomatch; [reflexivity|]. unfold nomatch. rewrite !Forall_app. repeat split; auto.
    eapply nosmatch_nomatch; eauto.
Qed.

(* ------------------------------------------------------------------ tblEnlarge *)
Notation rehash1 := (rehash1 key elt).
Notation empty_buckets := (empty_buckets key elt).

Lemma empty_buckets_spec n bc : 0 <= n ->
  Z.of_nat (length (empty_buckets n)) = n /\ concat (empty_buckets n) = [] /\
  forall i, placed bc i (empty_buckets n).
Proof.
  intros Hn. unfold empty_buckets. rewrite repeat_length. split; [lia|].
  generalize (Z.to_nat n) as m. intros m. split.
  - induction m; cbn; auto.
  - induction m; intros i; cbn [repeat placed]; auto.
Qed.

Lemma rehash1_spec nb acc s :
  0 < nb -> Z.of_nat (length acc) = nb -> placed nb 0 acc -> shash s = hashf (skey s) ->
  Z.of_nat (length (rehash1 nb acc s)) = nb /\ placed nb 0 (rehash1 nb acc s) /\
  Permutation (concat (rehash1 nb acc s)) (s :: concat acc).
Proof.
  intros Hnb Hlen Hpl Hs. unfold rehash1.
  assert (Hx : 0 <= shash s mod nb < Z.of_nat (length acc)) by (rewrite Hlen; now apply Z.mod_pos_bound).
  destruct (split_at acc _ [] Hx) as (P & b & Q & H1 & H2 & _ & H4). rewrite H4.
  subst acc. apply placed_app in Hpl as [HP HQ]. cbn [placed] in HQ. destruct HQ as [Hb HQ].
  rewrite Z.add_0_l in Hb, HQ. rewrite H2 in Hb, HQ. repeat split.
  - rewrite <- Hlen. rewrite !app_len_Z. reflexivity.
  - eapply rebuild_placed; eauto. constructor; [split; auto | exact Hb].
  - rewrite !concat_app. cbn [concat]. apply (perm_front2 (concat P) s b (concat Q)).
Qed.

Lemma rehash_bucket nb b acc :
  0 < nb -> Z.of_nat (length acc) = nb -> placed nb 0 acc ->
  Forall (fun s => shash s = hashf (skey s)) b ->
  Z.of_nat (length (fold_left (rehash1 nb) b acc)) = nb /\ placed nb 0 (fold_left (rehash1 nb) b acc) /\
  Permutation (concat (fold_left (rehash1 nb) b acc)) (b ++ concat acc).
Proof.
  intros Hnb. revert acc. induction b as [|s r IH]; intros acc Hlen Hpl Hb; cbn [fold_left].
  - repeat split; auto.
  - apply Forall_cons_iff in Hb as [Hs Hr].
    destruct (rehash1_spec nb acc s Hnb Hlen Hpl Hs) as (L1 & P1 & Pm1).
    destruct (IH _ L1 P1 Hr) as (L2 & P2 & Pm2). repeat split; auto.
    eapply Permutation_trans; [exact Pm2|]. cbn [app].
    eapply Permutation_trans; [apply Permutation_app_head; exact Pm1|].
    apply Permutation_sym. apply Permutation_middle.
Qed.

Lemma rehash_all nb bs acc :
  0 < nb -> Z.of_nat (length acc) = nb -> placed nb 0 acc ->
  Forall (fun s => shash s = hashf (skey s)) (concat bs) ->
  let r := fold_left (fun acc b => fold_left (rehash1 nb) b acc) bs acc in
  Z.of_nat (length r) = nb /\ placed nb 0 r /\ Permutation (concat r) (concat bs ++ concat acc).
Proof.
  intros Hnb. revert acc. induction bs as [|b r IH]; intros acc Hlen Hpl Hb; cbn [fold_left concat].
  - repeat split; auto.
  - cbn [concat] in Hb. apply Forall_app in Hb as [Hb Hr].
    destruct (rehash_bucket nb b acc Hnb Hlen Hpl Hb) as (L1 & P1 & Pm1).
    destruct (IH _ L1 P1 Hr) as (L2 & P2 & Pm2). repeat split; auto.
    eapply Permutation_trans; [exact Pm2|]. rewrite <- app_assoc.
    eapply Permutation_trans; [apply Permutation_app_head; exact Pm1|].
    rewrite !app_assoc. apply Permutation_app_tail. apply Permutation_app_comm.
Qed.

Lemma enlarge_spec t :
  inv t -> inv (tblEnlarge t) /\ Permutation (abs (tblEnlarge t)) (abs t) /\ count (tblEnlarge t) = count t.
Proof.
  intros I. unfold tblEnlarge.
  set (nb := binPrime primes (cielLg (buckc t) + 1)).
  assert (Hnb : 0 < nb) by (apply nthZ_pos; exact primes_pos).
  destruct (empty_buckets_spec nb nb (Z.lt_le_incl _ _ Hnb)) as (EL & EC & EP).
  destruct (rehash_all nb (buckv t) (empty_buckets nb) Hnb EL (EP 0)
              (placed_hash _ _ _ (inv_placed t I))) as (L & Pl & Pm).
  rewrite EC, app_nil_r in Pm.
  assert (Pm' : Permutation (abs (Tbl (count t) nb
                   (fold_left (fun acc b => fold_left (rehash1 nb) b acc) (buckv t) (empty_buckets nb)))) (abs t)).
  { unfold abs, kvs. cbn [buckv]. apply Permutation_map. exact Pm. }
  split; [|split; [exact Pm' | reflexivity]].
  constructor; cbn [count buckc buckv]; auto.
  - eapply nodupm_perm; [apply Permutation_sym; exact Pm' | apply I].
  - rewrite (inv_count t I). f_equal. apply Permutation_length. now apply Permutation_sym.
Qed.

(* ------------------------------------------------------------------ tblSetElt *)
Lemma set_spec t k e :
  inv t ->
  inv (fst (tblSetElt t k e)) /\ snd (tblSetElt t k e) = e /\
  Permutation (abs (fst (tblSetElt t k e))) (sset k e (abs t)).
Proof.
  intros I. destruct (locate t k I) as (P & b & Q & HB & Hn & Hu & HL & HP & Hb & HQ & NP & NQ).
  assert (Habs : abs t = kvs (concat P) ++ kvs b ++ kvs (concat Q)).
  { now apply abs_of. }
  unfold tblSetElt. rewrite Hn. clear Hn. destruct (bsearch (hashf k) k b) as [[[pre s] post]|] eqn:E.
  - apply bsearch_some in E as (Eb & Em & Epre). cbn [fst snd]. rewrite Hu. subst b.
    assert (Hs : slot_ok (buckc t) (hashf k mod buckc t) s).
    { rewrite Forall_forall in Hb. apply Hb. apply in_or_app. right. now left. }
    set (rest := kvs (concat P) ++ kvs (pre ++ post) ++ kvs (concat Q)).
    assert (Pm0 : Permutation (abs t) (kv s :: rest)).
    { rewrite Habs. unfold rest. apply perm_front_kvs. }
    assert (Pm1 : Permutation (abs (Tbl (count t) (buckc t)
                      (P ++ (Slot (skey s) e (shash s) :: pre ++ post) :: Q))) ((skey s, e) :: rest)).
    { rewrite abs_split. unfold rest. cbn [kvs map kv skey selt]. apply perm_front2. }
    assert (ND0 : nodupm (kv s :: rest)) by (eapply nodupm_perm; [exact Pm0 | apply I]).
    assert (ND1 : nodupm ((skey s, e) :: rest)).
    { unfold kv in ND0. apply nodupm_cons in ND0. now apply nodupm_cons. }
    split; [|split; [reflexivity|]].
    + constructor; cbn [count buckc buckv].
      * apply I.
      * rewrite <- (inv_len t I), HB. rewrite !app_len_Z. reflexivity.
      * eapply rebuild_placed; eauto. apply Forall_app in Hb as [Hb1 Hb2].
        inversion Hb2; subst. constructor; [exact Hs|]. apply Forall_app. split; assumption.
      * eapply nodupm_perm; [apply Permutation_sym; exact Pm1 | exact ND1].
      * etransitivity; [apply (inv_count t I)|]. f_equal.
        rewrite (Permutation_length Pm0), (Permutation_length Pm1). reflexivity.
    + eapply Permutation_trans; [exact Pm1|]. apply Permutation_sym.
      eapply Permutation_trans; [apply sset_perm; [exact Pm0 | apply I]|].
      unfold kv. cbn [sset]. rewrite <- (smatch_keq _ _ k s Hs), Em. apply Permutation_refl.
  - apply bsearch_none in E. rewrite Hu.
    assert (NM : nomatch k (abs t)).
    { rewrite Habs. unfold nomatch. rewrite !Forall_app. repeat split; auto.
      eapply nosmatch_nomatch; eauto. }
    set (t1 := Tbl (count t + 1) (buckc t) (P ++ (Slot k e (hashf k) :: b) :: Q)).
    assert (Pm1 : Permutation (abs t1) ((k, e) :: abs t)).
    { unfold t1. rewrite abs_split, Habs. cbn [kvs map kv skey selt]. apply perm_front2. }
    assert (I1 : inv t1).
    { constructor; unfold t1; cbn [count buckc buckv].
      - apply I.
      - rewrite <- (inv_len t I), HB. rewrite !app_len_Z. reflexivity.
      - eapply rebuild_placed; eauto. constructor; [|exact Hb]. split; reflexivity.
      - fold t1. eapply nodupm_perm; [apply Permutation_sym; exact Pm1|]. apply nodupm_cons.
        split; [exact NM | apply I].
      - fold t1. rewrite (Permutation_length Pm1). cbn [length]. rewrite (inv_count t I). lia. }
    assert (PmS : Permutation (abs t1) (sset k e (abs t))).
    { eapply Permutation_trans; [exact Pm1|]. rewrite sset_nomatch by exact NM.
      apply Permutation_cons_append. }
    fold t1. destruct (count t1 >? maxload * buckc t1); cbn [fst snd].
    + destruct (enlarge_spec t1 I1) as (I2 & Pm2 & _). split; [exact I2|]. split; [reflexivity|].
      eapply Permutation_trans; eauto.
    + auto.
Qed.

(* ------------------------------------------------------------------ tblDrop *)
Lemma drop_spec t k :
  inv t -> inv (tblDrop t k) /\ Permutation (abs (tblDrop t k)) (sdrop k (abs t)).
Proof.
  intros I. destruct (locate t k I) as (P & b & Q & HB & Hn & Hu & HL & HP & Hb & HQ & NP & NQ).
  assert (Habs : abs t = kvs (concat P) ++ kvs b ++ kvs (concat Q)).
  { now apply abs_of. }
  unfold tblDrop. rewrite Hn. clear Hn. destruct (bsearch (hashf k) k b) as [[[pre s] post]|] eqn:E.
  - apply bsearch_some in E as (Eb & Em & Epre). rewrite Hu. subst b.
    assert (Hs : slot_ok (buckc t) (hashf k mod buckc t) s).
    { rewrite Forall_forall in Hb. apply Hb. apply in_or_app. right. now left. }
    set (rest := kvs (concat P) ++ kvs (pre ++ post) ++ kvs (concat Q)).
    assert (Pm0 : Permutation (abs t) (kv s :: rest)).
    { rewrite Habs. unfold rest. apply perm_front_kvs. }
    assert (E1 : abs (Tbl (count t - 1) (buckc t) (P ++ (pre ++ post) :: Q)) = rest).
    { rewrite abs_split. reflexivity. }
    assert (ND0 : nodupm (kv s :: rest)) by (eapply nodupm_perm; [exact Pm0 | apply I]).
    split.
    + constructor; cbn [count buckc buckv].
      * apply I.
      * rewrite <- (inv_len t I), HB. rewrite !app_len_Z. reflexivity.
      * eapply rebuild_placed; eauto. apply Forall_app in Hb as [Hb1 Hb2].
        inversion Hb2; subst. apply Forall_app. split; assumption.
      * rewrite E1. unfold kv in ND0. now apply nodupm_cons in ND0.
      * rewrite E1. rewrite (inv_count t I), (Permutation_length Pm0). cbn [length]. lia.
    + rewrite E1. apply Permutation_sym.
      eapply Permutation_trans; [apply sdrop_perm; [exact Pm0 | apply I]|].
      unfold kv. cbn [sdrop]. rewrite <- (smatch_keq _ _ k s Hs), Em. apply Permutation_refl.
  - apply bsearch_none in E. split; [exact I|]. rewrite sdrop_nomatch; [apply Permutation_refl|].
    rewrite Habs. unfold nomatch. rewrite !Forall_app. repeat split; auto.
    eapply nosmatch_nomatch; eauto.
Qed.

(* ------------------------------------------------------------------ tblNew, tblCopy, tblNMap *)
Lemma new_spec : inv tblNew /\ abs tblNew = [].
Proof.
  unfold tblNew, tblNew0.
  destruct (empty_buckets_spec initbuckc initbuckc (Z.lt_le_incl _ _ initbuckc_pos)) as (EL & EC & EP).
  assert (A : abs (Tbl 0 initbuckc (empty_buckets initbuckc)) = []).
  { unfold abs. cbn [buckv]. now rewrite EC. }
  split; [|exact A]. constructor; cbn [count buckc buckv]; auto.
  - rewrite A. constructor.
  - rewrite A. reflexivity.
Qed.

Definition slotmap (g : elt -> elt) (s : slot) : slot := Slot (skey s) (g (selt s)) (shash s).
Definition tmap (g : elt -> elt) (t : tbl) : tbl :=
  Tbl (count t) (buckc t) (map (map (slotmap g)) (buckv t)).

Lemma placed_map bc i g bs : placed bc i bs -> placed bc i (map (map (slotmap g)) bs).
Proof.
  revert i. induction bs as [|b r IH]; intros i Hp; cbn [map placed]; [exact I|].
  destruct Hp as [Hb Hr]. split; [|auto]. apply Forall_forall. intros s' Hin.
  apply in_map_iff in Hin as (s & <- & Hs). rewrite Forall_forall in Hb. exact (Hb s Hs).
Qed.

Lemma abs_tmap g t : abs (tmap g t) = map (fun p => (fst p, g (snd p))) (abs t).
Proof.
  unfold abs, tmap, kvs. cbn [buckv]. rewrite <- concat_map. rewrite !map_map. reflexivity.
Qed.

Lemma tmap_spec g t : inv t -> inv (tmap g t) /\ abs (tmap g t) = map (fun p => (fst p, g (snd p))) (abs t).
Proof.
  intros I. split; [|apply abs_tmap]. constructor.
  - apply I.
  - unfold tmap. cbn [buckc buckv]. rewrite map_length. apply I.
  - unfold tmap. cbn [buckc buckv]. apply placed_map. apply I.
  - unfold nodupm. rewrite abs_tmap, map_map. cbn [fst]. apply I.
  - rewrite abs_tmap, map_length. apply I.
Qed.

Lemma copy_is_tmap t : tblCopy key elt t = tmap (fun e => e) t.
Proof. reflexivity. Qed.

Lemma nmap_is_tmap t : tblNMap key elt mapf t = tmap mapf t.
Proof. reflexivity. Qed.

Lemma map_id_amap (m : amap) : map (fun p => (fst p, snd p)) m = m.
Proof. induction m as [|[a b] r IH]; cbn; [reflexivity | now rewrite IH]. Qed.

(* ------------------------------------------------------------------ iteration *)
Notation tblSTEP0 := (tblSTEP0 key elt).
Notation iter_loop := (iter_loop key elt).
Notation TIter := (TIter key elt).

Lemma iter_aux (rest : list (list slot)) :
  (forall b fuel, (length (concat rest) < fuel)%nat ->
     iter_loop fuel (tblSTEP0 (b :: rest)) = Some (kvs (concat rest))) /\
  (forall b l fuel, l <> [] -> (length l + length (concat rest) < fuel)%nat ->
     iter_loop fuel (TIter (b :: rest) l) = Some (kvs l ++ kvs (concat rest))).
Proof.
  induction rest as [|b' rest' [IHQ IHM]].
  - assert (Q : forall (b : list slot) fuel, (length (concat (@nil (list slot))) < fuel)%nat ->
               iter_loop fuel (tblSTEP0 [b]) = Some (kvs (concat []))).
    { intros b fuel Hf. destruct fuel; [cbn in Hf; lia|]. reflexivity. }
    split; [exact Q|].
    intros b l. induction l as [|s l' IHl]; intros fuel Hne Hf; [congruence|].
    destruct fuel; [lia|]. cbn [iter_loop tblMORE curr tblKEYELT link].
    unfold tblSTEP. cbn [link tl curr]. destruct l' as [|s' l''].
    + rewrite Q by (cbn in *; lia). reflexivity.
    + rewrite IHl; [reflexivity | discriminate | cbn [length] in *; lia].
  - assert (Q : forall (b : list slot) fuel, (length (concat (b' :: rest')) < fuel)%nat ->
               iter_loop fuel (tblSTEP0 (b :: b' :: rest')) = Some (kvs (concat (b' :: rest')))).
    { intros b fuel Hf. destruct b' as [|s0 b0].
      - change (tblSTEP0 (b :: [] :: rest')) with (tblSTEP0 ([] :: rest')).
        apply (IHQ [] fuel). exact Hf.
      - change (tblSTEP0 (b :: (s0 :: b0) :: rest')) with (TIter ((s0 :: b0) :: rest') (s0 :: b0)).
        cbn [concat]. rewrite kvs_app. apply IHM; [discriminate|].
        cbn [concat] in Hf. rewrite app_length in Hf. exact Hf. }
    split; [exact Q|].
    intros b l. induction l as [|s l' IHl]; intros fuel Hne Hf; [congruence|].
    destruct fuel; [lia|]. cbn [iter_loop tblMORE curr tblKEYELT link].
    unfold tblSTEP. cbn [link tl curr]. destruct l' as [|s' l''].
    + rewrite Q by (cbn [length] in *; lia). reflexivity.
    + rewrite IHl; [reflexivity | discriminate | cbn [length] in *; lia].
Qed.

Lemma iterate_spec t : tblIterate key elt t = Some (abs t).
Proof.
  unfold tblIterate, tblITER, abs. destruct (buckv t) as [|b0 rest]; [reflexivity|].
  cbn [hd]. destruct (iter_aux rest) as [Q M]. destruct b0 as [|s0 b0'].
  - cbn [concat app]. apply Q. lia.
  - cbn [concat]. rewrite kvs_app. apply M; [discriminate|]. rewrite app_length. lia.
Qed.

(* ------------------------------------------------------------------ histories *)
Notation op := (op key elt).
Notation out := (out key elt).

(* the specification: the same history on a naive association list *)
Definition sstep (m : amap) (o : op) : amap * out :=
  match o with
  | OElt k d => (m, RElt (dflt d (get k m)))
  | OSet k e => (sset k e m, RElt e)
  | ODrop k => (sdrop k m, RUnit)
  | OSize => (m, RSize (Z.of_nat (length m)))
  | OIter => (m, RIter (Some m))
  | OCopy => (m, RUnit)
  | ONMap => (map (fun p => (fst p, mapf (snd p))) m, RUnit)
  end.

Fixpoint srun (m : amap) (ops : list op) : amap * list out :=
  match ops with
  | [] => (m, [])
  | o :: r => let (m1, x) := sstep m o in let (m2, xs) := srun m1 r in (m2, x :: xs)
  end.

(* outputs agree; an iteration may list the entries in any order *)
Definition out_ok (a b : out) : Prop :=
  match a, b with
  | RIter (Some l), RIter (Some m) => Permutation l m
  | RIter _, _ => False
  | _, RIter _ => False
  | _, _ => a = b
  end.

Definition R (t : tbl) (m : amap) : Prop := inv t /\ Permutation (abs t) m.

Lemma nodupm_mapelt g m : nodupm m -> nodupm (map (fun p : key * elt => (fst p, g (snd p))) m).
Proof. unfold nodupm. rewrite map_map. cbn [fst]. auto. Qed.

Lemma step_refines t m o :
  R t m -> R (fst (step t o)) (fst (sstep m o)) /\ out_ok (snd (step t o)) (snd (sstep m o)).
Proof.
  intros [I Pm]. assert (ND : nodupm (abs t)) by apply I.
  destruct o as [k d|k e|k| | | |]; cbn [step sstep].
  - destruct (elt_spec t k d I) as (I' & Hr & Pm' & _).
    destruct (tblElt t k d) as [t' r]. cbn [fst snd] in *. split; [split|].
    + exact I'.
    + eapply Permutation_trans; eauto.
    + cbn. rewrite Hr. now rewrite (get_perm k _ _ Pm ND).
  - destruct (set_spec t k e I) as (I' & Hr & Pm').
    destruct (tblSetElt t k e) as [t' r]. cbn [fst snd] in *. split; [split|].
    + exact I'.
    + eapply Permutation_trans; [exact Pm'|]. now apply sset_perm.
    + cbn. now rewrite Hr.
  - destruct (drop_spec t k I) as (I' & Pm'). cbn [fst snd]. split; [split|]; [exact I'| |reflexivity].
    eapply Permutation_trans; [exact Pm'|]. now apply sdrop_perm.
  - cbn [fst snd]. split; [split; assumption|]. cbn. unfold tblSize.
    rewrite (inv_count t I), (Permutation_length Pm). reflexivity.
  - cbn [fst snd]. split; [split; assumption|]. rewrite iterate_spec. cbn. exact Pm.
  - cbn [fst snd]. rewrite copy_is_tmap. destruct (tmap_spec (fun e => e) t I) as [I' A].
    split; [split|reflexivity]; [exact I'|]. rewrite A, map_id_amap. exact Pm.
  - cbn [fst snd]. rewrite nmap_is_tmap. destruct (tmap_spec mapf t I) as [I' A].
    split; [split|reflexivity]; [exact I'|]. rewrite A. now apply Permutation_map.
Qed.

Lemma run_refines_R ops : forall t m,
  R t m -> R (fst (run t ops)) (fst (srun m ops)) /\ Forall2 out_ok (snd (run t ops)) (snd (srun m ops)).
Proof.
  induction ops as [|o r IH]; intros t m HR; cbn [run srun].
  - cbn. split; [exact HR | constructor].
  - destruct (step_refines t m o HR) as [HR1 Ho].
    destruct (step t o) as [t1 x]. destruct (sstep m o) as [m1 y]. cbn [fst snd] in *.
    destruct (IH t1 m1 HR1) as [HR2 Hos].
    destruct (run t1 r) as [t2 xs]. destruct (srun m1 r) as [m2 ys]. cbn [fst snd] in *.
    split; [exact HR2 | constructor; assumption].
Qed.

Lemma R_new : R tblNew [].
Proof. destruct new_spec as [I A]. split; [exact I | rewrite A; constructor]. Qed.

(* ---- the five statements of the property, for every history ---- *)

(* every state reachable by a history from tblNew satisfies the invariant *)
Theorem reachable_inv ops : inv (fst (run tblNew ops)).
Proof. apply (run_refines_R ops tblNew [] R_new). Qed.

Theorem run_refines ops :
  Forall2 out_ok (snd (run tblNew ops)) (snd (srun [] ops)).
Proof. apply (run_refines_R ops tblNew [] R_new). Qed.

Theorem elt_refines t k d : inv t ->
  let (t', r) := tblElt t k d in
  inv t' /\ r = dflt d (get k (abs t)) /\ (forall k', get k' (abs t') = get k' (abs t)) /\
  Permutation (abs t') (abs t) /\ tblSize key elt t' = tblSize key elt t.
Proof.
  intros I. destruct (elt_spec t k d I) as (I' & Hr & Pm & Hc).
  destruct (tblElt t k d) as [t' r]. cbn [fst snd] in *.
  split; [exact I'|]. split; [exact Hr|]. split; [|split; [exact Pm | exact Hc]].
  intros k'. apply get_perm; [exact Pm | apply I'].
Qed.

Theorem set_refines t k e : inv t ->
  let (t', r) := tblSetElt t k e in
  inv t' /\ r = e /\ Permutation (abs t') (sset k e (abs t)) /\
  (forall k', get k' (abs t') = if keq k k' then Some e else get k' (abs t)).
Proof.
  intros I. destruct (set_spec t k e I) as (I' & Hr & Pm).
  destruct (tblSetElt t k e) as [t' r]. cbn [fst snd] in *.
  split; [exact I'|]. split; [exact Hr|]. split; [exact Pm|].
  intros k'. rewrite (get_perm k' _ _ Pm) by apply I'. apply get_sset.
Qed.

Theorem drop_refines t k : inv t ->
  inv (tblDrop t k) /\ Permutation (abs (tblDrop t k)) (sdrop k (abs t)) /\
  (forall k', get k' (abs (tblDrop t k)) = if keq k k' then None else get k' (abs t)).
Proof.
  intros I. destruct (drop_spec t k I) as (I' & Pm).
  split; [exact I'|]. split; [exact Pm|].
  intros k'. rewrite (get_perm k' _ _ Pm) by apply I'. apply get_sdrop. apply I.
Qed.

Theorem size_is_card t : inv t ->
  tblSize key elt t = Z.of_nat (length (abs t)) /\ NoDupA eqk (map fst (abs t)).
Proof. intros I. split; apply I. Qed.

Theorem iter_once t : inv t ->
  exists l, tblIterate key elt t = Some l /\ Permutation l (abs t) /\ NoDupA eqk (map fst l) /\
            Z.of_nat (length l) = tblSize key elt t.
Proof.
  intros I. exists (abs t). rewrite iterate_spec. repeat split; auto.
  - apply I.
  - symmetry. apply I.
Qed.

(* "lookup returns the last value stored for an equal key": read off the history itself.
   `rops` is the history so far, newest operation first. *)
Fixpoint last_stored (rops : list op) (k : key) : option elt :=
  match rops with
  | [] => None
  | OSet k' e :: r => if keq k' k then Some e else last_stored r k
  | ODrop k' :: r => if keq k' k then None else last_stored r k
  | ONMap :: r => option_map mapf (last_stored r k)
  | _ :: r => last_stored r k
  end.

Lemma get_mapelt k m : get k (map (fun p : key * elt => (fst p, mapf (snd p))) m) = option_map mapf (get k m).
Proof.
  induction m as [|[k0 e0] r IH]; cbn [map get fst snd]; [reflexivity|].
  destruct (keq k k0); [reflexivity | exact IH].
Qed.

Lemma srun_app m ops1 ops2 :
  fst (srun m (ops1 ++ ops2)) = fst (srun (fst (srun m ops1)) ops2).
Proof.
  revert m. induction ops1 as [|o r IH]; intros m; cbn [app srun]; [reflexivity|].
  destruct (sstep m o) as [m1 x]. specialize (IH m1).
  destruct (srun m1 (r ++ ops2)) as [m2 xs]. destruct (srun m1 r) as [m3 ys]. cbn [fst] in *. exact IH.
Qed.

Lemma srun_nodup ops : forall m, nodupm m -> nodupm (fst (srun m ops)).
Proof.
  induction ops as [|o r IH]; intros m ND; cbn [srun]; [exact ND|].
  destruct (sstep m o) as [m1 x] eqn:E. specialize (IH m1).
  destruct (srun m1 r) as [m2 xs]. cbn [fst] in *. apply IH.
  destruct o; cbn [sstep] in E; inversion E; subst; auto using nodupm_sset, nodupm_sdrop, nodupm_mapelt.
Qed.

Lemma srun_last ops : forall k, get k (fst (srun [] (rev ops))) = last_stored ops k.
Proof.
  induction ops as [|o r IH]; intros k; cbn [rev]; [reflexivity|].
  rewrite srun_app. set (m := fst (srun [] (rev r))) in *.
  assert (ND : nodupm m) by (apply srun_nodup; constructor).
  destruct o as [k' d|k' e|k'| | | |]; cbn [srun sstep fst last_stored]; try apply IH.
  - rewrite get_sset. now rewrite IH.
  - rewrite get_sdrop by exact ND. now rewrite IH.
  - rewrite get_mapelt. now rewrite IH.
Qed.

Lemma run_app t ops1 ops2 :
  fst (run t (ops1 ++ ops2)) = fst (run (fst (run t ops1)) ops2).
Proof.
  revert t. induction ops1 as [|o r IH]; intros t; cbn [app run]; [reflexivity|].
  destruct (step t o) as [t1 x]. specialize (IH t1).
  destruct (run t1 (r ++ ops2)) as [t2 xs]. destruct (run t1 r) as [t3 ys]. cbn [fst] in *. exact IH.
Qed.

Theorem lookup_last_stored ops k d :
  snd (tblElt (fst (run tblNew ops)) k d) = dflt d (last_stored (rev ops) k).
Proof.
  destruct (run_refines_R ops tblNew [] R_new) as [[I Pm] _].
  destruct (elt_spec _ k d I) as (_ & Hr & _). rewrite Hr.
  rewrite (get_perm k _ _ Pm) by apply I.
  rewrite <- (rev_involutive ops) at 1. now rewrite srun_last.
Qed.

End Facts.


(* ------------------------------------------------------------------ the instances used by the correspondence *)
Definition mode_class (m a : Z) : Z := if m =? 3 then a / 8 else if m =? 5 then a / 4 else a.

Lemma mode_keq_iff m a b :
  keq Z (mode_hash m) (mode_eq m) a b = true <-> mode_class m a = mode_class m b.
Proof.
  unfold keq, mode_hash, mode_eq, mode_class.
  repeat match goal with
         | |- context [m =? ?c] => destruct (Z.eqb_spec m c); [subst m; cbn [Z.eqb Pos.eqb] |]
         end;
    rewrite ?andb_true_iff, ?Z.eqb_eq; intuition congruence.
Qed.

Lemma mode_keq_equiv m :
  (forall a, keq Z (mode_hash m) (mode_eq m) a a = true) /\
  (forall a b, keq Z (mode_hash m) (mode_eq m) a b = true -> keq Z (mode_hash m) (mode_eq m) b a = true) /\
  (forall a b c, keq Z (mode_hash m) (mode_eq m) a b = true -> keq Z (mode_hash m) (mode_eq m) b c = true ->
                 keq Z (mode_hash m) (mode_eq m) a c = true).
Proof.
  repeat split; intros *; rewrite ?mode_keq_iff; congruence.
Qed.

(* An equivalence eqf that is consistent with the hash function gives the hypotheses of the section. *)
Lemma consistent_keq {key : Type} (hashf : key -> Z) (eqf : key -> key -> bool) :
  (forall a, eqf a a = true) -> (forall a b, eqf a b = true -> eqf b a = true) ->
  (forall a b c, eqf a b = true -> eqf b c = true -> eqf a c = true) ->
  (forall a b, eqf a b = true -> hashf a = hashf b) ->
  (forall a b, keq key hashf eqf a b = eqf a b) /\
  (forall a, keq key hashf eqf a a = true) /\
  (forall a b, keq key hashf eqf a b = true -> keq key hashf eqf b a = true) /\
  (forall a b c, keq key hashf eqf a b = true -> keq key hashf eqf b c = true -> keq key hashf eqf a c = true).
Proof.
  intros Hr Hs Ht Hh.
  assert (E : forall a b, keq key hashf eqf a b = eqf a b).
  { intros a b. unfold keq. destruct (eqf a b) eqn:E; [|apply andb_false_r].
    rewrite (Hh a b E), Z.eqb_refl. reflexivity. }
  split; [exact E|]. repeat split; intros *; rewrite ?E; eauto.
Qed.

(* ------------------------------------------------------------------ packaged statements (used by Props) *)
(* The equality the table really uses (same hash, and eqFun absent or true) is symmetric and transitive. *)
Definition key_equality {key : Type} (hashf : key -> Z) (eqf : key -> key -> bool) : Prop :=
  (forall a b, keq key hashf eqf a b = true -> keq key hashf eqf b a = true) /\
  (forall a b c, keq key hashf eqf a b = true -> keq key hashf eqf b c = true -> keq key hashf eqf a c = true).

Definition primes_ok (primes : list Z) : Prop := Forall (fun p => 0 < p) primes.

Section Packaged.
Variables key elt : Type.
Variable hashf : key -> Z.
Variable eqf : key -> key -> bool.
Variable initbuckc maxload : Z.
Variable primes : list Z.
Variable mapf : elt -> elt.
Hypothesis KE : key_equality hashf eqf.
Hypothesis PO : primes_ok primes.
Hypothesis IB : 0 < initbuckc.

Lemma P_reachable_inv ops :
  inv key elt hashf eqf (fst (run key elt hashf eqf maxload primes mapf (tblNew key elt initbuckc) ops)).
Proof. destruct KE. now apply reachable_inv. Qed.

Lemma P_run_refines ops :
  Forall2 (out_ok key elt)
          (snd (run key elt hashf eqf maxload primes mapf (tblNew key elt initbuckc) ops))
          (snd (srun key elt hashf eqf mapf [] ops)).
Proof. destruct KE. now apply run_refines. Qed.

Lemma P_lookup_last_stored ops k d :
  snd (tblElt key elt hashf eqf
         (fst (run key elt hashf eqf maxload primes mapf (tblNew key elt initbuckc) ops)) k d)
  = dflt elt d (last_stored key elt hashf eqf mapf (rev ops) k).
Proof. destruct KE. now apply lookup_last_stored. Qed.

Lemma P_elt_refines t k d : inv key elt hashf eqf t ->
  let (t', r) := tblElt key elt hashf eqf t k d in
  inv key elt hashf eqf t' /\
  r = dflt elt d (get key elt hashf eqf k (abs key elt t)) /\
  (forall k', get key elt hashf eqf k' (abs key elt t') = get key elt hashf eqf k' (abs key elt t)) /\
  Permutation (abs key elt t') (abs key elt t) /\
  tblSize key elt t' = tblSize key elt t.
Proof. destruct KE. now apply elt_refines. Qed.

Lemma P_set_refines t k e : inv key elt hashf eqf t ->
  let (t', r) := tblSetElt key elt hashf eqf maxload primes t k e in
  inv key elt hashf eqf t' /\ r = e /\
  Permutation (abs key elt t') (sset key elt hashf eqf k e (abs key elt t)) /\
  (forall k', get key elt hashf eqf k' (abs key elt t') =
              if keq key hashf eqf k k' then Some e else get key elt hashf eqf k' (abs key elt t)).
Proof. destruct KE. now apply set_refines. Qed.

Lemma P_drop_refines t k : inv key elt hashf eqf t ->
  inv key elt hashf eqf (tblDrop key elt hashf eqf t k) /\
  Permutation (abs key elt (tblDrop key elt hashf eqf t k)) (sdrop key elt hashf eqf k (abs key elt t)) /\
  (forall k', get key elt hashf eqf k' (abs key elt (tblDrop key elt hashf eqf t k)) =
              if keq key hashf eqf k k' then None else get key elt hashf eqf k' (abs key elt t)).
Proof. destruct KE. now apply drop_refines. Qed.

End Packaged.

(* ------------------------------------------------------------------ the hypotheses are satisfiable; the statements are not vacuous *)
Definition c_primes : list Z :=
  [1; 2; 3; 7; 13; 31; 61; 127; 251; 509; 1021; 2039; 4093; 8191; 16381; 32749; 65521; 131071; 262139;
   524287; 1048573; 2097143; 4194301; 8388593; 16777213; 33554393; 67108859; 134217689; 268435399;
   536870909; 1073741789; 2147483647; 4294967291].

Example ex_primes_ok : primes_ok c_primes.
Proof. unfold primes_ok, c_primes. repeat constructor. Qed.

Example ex_key_equality : forall m, key_equality (mode_hash m) (mode_eq m).
Proof. intros m. destruct (mode_keq_equiv m) as (_ & S & T). split; assumption. Qed.

(* 40 keys 8 apart in mode 3 (equal-but-not-identical keys): the 36th store passes the load threshold 5*7,
   the table grows to 13 buckets; key 9 is equal to the stored key 8; dropping 17 removes the entry of 16. *)
Definition ex_ops : list (op Z Z) :=
  map (fun i => OSet (8 * Z.of_nat i) (100 + Z.of_nat i)) (seq 0 40)
  ++ [OSet 9 7; OElt 15 (-1); ODrop 17; OElt 16 (-1); OSize; OIter].

Example ex_run :
  let r := run Z Z (mode_hash 3) (mode_eq 3) 5 c_primes mode_mapf (tblNew Z Z 7) ex_ops in
  buckc (fst r) = 13 /\ count (fst r) = 39 /\
  nth 41 (snd r) RUnit = RElt 7 /\ nth 43 (snd r) RUnit = RElt (-1) /\ nth 44 (snd r) RUnit = RSize 39.
Proof. vm_compute. repeat split. Qed.

Example ex_inv : inv Z Z (mode_hash 3) (mode_eq 3)
                     (fst (run Z Z (mode_hash 3) (mode_eq 3) 5 c_primes mode_mapf (tblNew Z Z 7) ex_ops)).
Proof. apply P_reachable_inv; [apply ex_key_equality | apply ex_primes_ok | reflexivity]. Qed.
