Require Import ExtrOcamlBasic.
Require Import AV.Table.Model.
Extraction "Table/extracted/table_model.ml"
  tblNew tblElt tblSetElt tblDrop tblSize tblIterate tblCopy tblNMap mode_hash mode_eq mode_mapf.
