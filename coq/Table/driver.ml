(* Driver for the extracted model of table.c: one operation per line on stdin, one result per line.
   Only I/O conversions (decimal text <-> the extracted binary Z) are done here. *)
open Table_model

let rec pos_of_int64 (n : int64) : positive =
  if Int64.equal n 1L then XH
  else if Int64.equal (Int64.logand n 1L) 0L then XO (pos_of_int64 (Int64.shift_right_logical n 1))
  else XI (pos_of_int64 (Int64.shift_right_logical n 1))

let z_of_int64 (n : int64) : z =
  if Int64.equal n 0L then Z0
  else if Int64.compare n 0L > 0 then Zpos (pos_of_int64 n)
  else Zneg (pos_of_int64 (Int64.neg n))

(* values below 2^64 are printed as the C prints an unsigned long *)
let rec int64_of_pos (p : positive) : int64 =
  match p with
  | XH -> 1L
  | XO q -> Int64.shift_left (int64_of_pos q) 1
  | XI q -> Int64.logor (Int64.shift_left (int64_of_pos q) 1) 1L

let str_of_z (x : z) : string =
  match x with
  | Z0 -> "0"
  | Zpos p -> Printf.sprintf "%Lu" (int64_of_pos p)
  | Zneg p -> "-" ^ Printf.sprintf "%Lu" (int64_of_pos p)

let z_of_string s = z_of_int64 (Int64.of_string s)

let () =
  let mode = ref Z0 and maxload = ref Z0 and primes = ref [] in
  let t : (z, z) tbl ref = ref (tblNew Z0) in
  let hf k = mode_hash !mode k and ef a b = mode_eq !mode a b in
  let buf = Buffer.create 65536 in
  let kes l = String.concat " " (List.map (fun (k, e) -> str_of_z k ^ "=" ^ str_of_z e) l) in
  (try
     while true do
       let line = input_line stdin in
       (match String.split_on_char ' ' (String.trim line) with
        | ["new"; m; ib; ml; ps] ->
          mode := z_of_string m; maxload := z_of_string ml;
          primes := List.map z_of_string (String.split_on_char ',' ps);
          t := tblNew (z_of_string ib);
          Buffer.add_string buf "ok\n"
        | ["set"; k; e] ->
          let (t', r) = tblSetElt hf ef !maxload !primes !t (z_of_string k) (z_of_string e) in
          t := t'; Buffer.add_string buf ("= " ^ str_of_z r ^ "\n")
        | ["get"; k; d] ->
          let (t', r) = tblElt hf ef !t (z_of_string k) (z_of_string d) in
          t := t'; Buffer.add_string buf ("= " ^ str_of_z r ^ "\n")
        | ["drop"; k] ->
          t := tblDrop hf ef !t (z_of_string k); Buffer.add_string buf "ok\n"
        | ["size"] -> Buffer.add_string buf ("= " ^ str_of_z (tblSize !t) ^ "\n")
        | ["iter"] ->
          (match tblIterate !t with
           | Some l -> Buffer.add_string buf ("iter " ^ kes l ^ "\n")
           | None -> Buffer.add_string buf "iter ERROR\n")
        | ["copy"] -> t := tblCopy !t; Buffer.add_string buf "ok\n"
        | ["nmap"] -> t := tblNMap mode_mapf !t; Buffer.add_string buf "ok\n"
        | ["dump"] ->
          Buffer.add_string buf ("dump " ^ str_of_z !t.count ^ " " ^ str_of_z !t.buckc);
          let i = ref 0 in
          List.iter (fun b ->
              (match b with
               | [] -> ()
               | _ ->
                 Buffer.add_string buf (Printf.sprintf " | %d:" !i);
                 List.iter (fun s ->
                     Buffer.add_string buf
                       (" " ^ str_of_z s.skey ^ "=" ^ str_of_z s.selt ^ "#" ^ str_of_z s.shash)) b);
              incr i) !t.buckv;
          Buffer.add_string buf (Printf.sprintf " | n=%d\n" !i)
        | [""] -> ()
        | _ -> Buffer.add_string buf ("?? " ^ line ^ "\n"));
       if Buffer.length buf > 60000 then (print_string (Buffer.contents buf); Buffer.clear buf)
     done
   with End_of_file -> ());
  print_string (Buffer.contents buf)
