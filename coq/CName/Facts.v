(* C16 - lemmas about the name encoder model (generic over the escape table). *)
Require Import NArith ZArith List Bool Lia ZifyBool.
Require Import AV.CName.Model.
Import ListNotations.
Local Open Scope N_scope.
Ltac Zify.zify_post_hook ::= Z.div_mod_to_equations.

(* ------------------------------------------------------------------ lists *)

Lemma len_app : forall a b : str, len (a ++ b) = len a + len b.
Proof. intros a b. unfold len. rewrite app_length. lia. Qed.

Lemma len_nil : len [] = 0.
Proof. reflexivity. Qed.

Lemma len_cons : forall (c : N) (s : str), len (c :: s) = 1 + len s.
Proof. intros c s. unfold len. cbn [List.length]. lia. Qed.

Lemma len_0 : forall s : str, len s = 0 -> s = [].
Proof. intros [|c s] H; [reflexivity|]. rewrite len_cons in H. lia. Qed.

Lemma is_prefix_app : forall a l : str, is_prefix a (a ++ l) = true.
Proof.
  induction a as [|x a IH]; intros l; cbn [is_prefix app]; [reflexivity|].
  rewrite N.eqb_refl, IH. reflexivity.
Qed.

Lemma str_eqb_eq : forall a b : str, str_eqb a b = true <-> a = b.
Proof.
  induction a as [|x a IH]; intros [|y b]; cbn [str_eqb]; split; intro H; try reflexivity; try discriminate.
  - apply andb_true_iff in H. destruct H as [Hxy Hab]. apply N.eqb_eq in Hxy. apply IH in Hab. congruence.
  - injection H as Hxy Hab. subst. rewrite N.eqb_refl. cbn. apply IH. reflexivity.
Qed.

(* x1 ++ x2 = y1 ++ y2 : one head is a prefix of the other *)
Lemma app_eq_prefix : forall x1 x2 y1 y2 : str,
  x1 ++ x2 = y1 ++ y2 -> is_prefix x1 y1 = true \/ is_prefix y1 x1 = true.
Proof.
  induction x1 as [|a x1 IH]; intros x2 y1 y2 H.
  - left. reflexivity.
  - destruct y1 as [|b y1].
    + right. reflexivity.
    + cbn [app] in H. injection H as Hab Hr. subst b.
      destruct (IH _ _ _ Hr) as [Hp|Hp]; [left|right]; cbn [is_prefix]; rewrite N.eqb_refl, Hp; reflexivity.
Qed.

(* splitting at the first character with property p *)
Lemma split_first : forall (p : N -> bool) (e1 e2 r1 r2 : str) (d1 d2 : N),
  Forall (fun x => p x = false) e1 -> Forall (fun x => p x = false) e2 ->
  p d1 = true -> p d2 = true ->
  e1 ++ d1 :: r1 = e2 ++ d2 :: r2 -> e1 = e2 /\ d1 = d2 /\ r1 = r2.
Proof.
  intros p. induction e1 as [|a e1 IH]; intros e2 r1 r2 d1 d2 He1 He2 Hd1 Hd2 H.
  - destruct e2 as [|b e2].
    + cbn in H. injection H as H1 H2. auto.
    + cbn in H. injection H as H1 H2. subst b. inversion He2 as [|? ? Hb ?]; subst. congruence.
  - destruct e2 as [|b e2].
    + cbn in H. injection H as H1 H2. subst a. inversion He1 as [|? ? Ha ?]; subst. congruence.
    + cbn in H. injection H as H1 H2. subst b.
      inversion He1; subst. inversion He2; subst.
      destruct (IH e2 r1 r2 d1 d2) as (E & D & R); auto. subst. auto.
Qed.

(* a maximal run of p-characters followed by nothing or a non-p character *)
Lemma split_run : forall (p : N -> bool) (d1 d2 r1 r2 : str),
  Forall (fun x => p x = true) d1 -> Forall (fun x => p x = true) d2 ->
  (match r1 with [] => True | c :: _ => p c = false end) ->
  (match r2 with [] => True | c :: _ => p c = false end) ->
  d1 ++ r1 = d2 ++ r2 -> d1 = d2 /\ r1 = r2.
Proof.
  intros p. induction d1 as [|a d1 IH]; intros d2 r1 r2 H1 H2 Hr1 Hr2 H.
  - destruct d2 as [|b d2]; [auto|].
    cbn in H. subst r1. inversion H2; subst. congruence.
  - destruct d2 as [|b d2].
    + cbn in H. subst r2. inversion H1; subst. congruence.
    + cbn in H. injection H as Hab Hr. subst b. inversion H1; subst. inversion H2; subst.
      destruct (IH d2 r1 r2) as (D & R); auto. subst. auto.
Qed.

Lemma map_inj_on : forall (f : N -> N) (P : N -> Prop),
  (forall x y, P x -> P y -> f x = f y -> x = y) ->
  forall l1 l2, Forall P l1 -> Forall P l2 -> map f l1 = map f l2 -> l1 = l2.
Proof.
  intros f P Hinj. induction l1 as [|a l1 IH]; intros [|b l2] H1 H2 H; cbn in H; try discriminate; [reflexivity|].
  injection H as Hab Hr. inversion H1; subst. inversion H2; subst.
  f_equal; [apply Hinj; assumption | apply IH; assumption].
Qed.

(* ------------------------------------------------------------------ digits *)

Definition val (base : N) (l : list N) (a : N) : N := fold_left (fun a d => a * base + d) l a.

Lemma digits_loop_val : forall base fuel n acc,
  1 < base -> n < base ^ N.of_nat fuel ->
  val base (digits_loop base fuel n acc) 0 = val base acc n.
Proof.
  intros base. induction fuel as [|f IH]; intros n acc Hb Hn.
  - cbn [digits_loop]. change (N.of_nat 0) with 0 in Hn. rewrite N.pow_0_r in Hn.
    assert (n = 0) by lia. subst. reflexivity.
  - cbn [digits_loop]. destruct (n =? 0) eqn:E.
    + apply N.eqb_eq in E. subst. reflexivity.
    + rewrite IH; [|assumption|].
      * unfold val. cbn [fold_left]. f_equal.
        pose proof (N.div_mod n base). lia.
      * rewrite Nat2N.inj_succ, N.pow_succ_r' in Hn.
        apply N.div_lt_upper_bound; lia.
Qed.

Lemma digits_loop_inj : forall base fuel n m,
  1 < base -> n < base ^ N.of_nat fuel -> m < base ^ N.of_nat fuel ->
  digits_loop base fuel n [] = digits_loop base fuel m [] -> n = m.
Proof.
  intros base fuel n m Hb Hn Hm H.
  pose proof (digits_loop_val base fuel n [] Hb Hn) as A.
  pose proof (digits_loop_val base fuel m [] Hb Hm) as B.
  rewrite H in A. rewrite A in B. exact B.
Qed.

Lemma digits_loop_bound : forall base fuel n acc,
  1 < base -> Forall (fun d => d < base) acc -> Forall (fun d => d < base) (digits_loop base fuel n acc).
Proof.
  intros base. induction fuel as [|f IH]; intros n acc Hb Ha; cbn [digits_loop]; [assumption|].
  destruct (n =? 0); [assumption|].
  apply IH; [assumption|]. constructor; [|assumption]. apply N.mod_lt. lia.
Qed.

Lemma digits_loop_nonempty : forall base fuel n acc,
  (acc <> [] \/ (n <> 0 /\ fuel <> O)) -> digits_loop base fuel n acc <> [].
Proof.
  intros base. induction fuel as [|f IH]; intros n acc H; cbn [digits_loop].
  - destruct H as [H|[_ H]]; [assumption|congruence].
  - destruct (n =? 0) eqn:E.
    + apply N.eqb_eq in E. destruct H as [H|[H _]]; [assumption|congruence].
    + apply IH. left. discriminate.
Qed.

(* bufPuti *)
Lemma puti_digits : forall i, Forall (fun c => is_digit c = true) (puti i).
Proof.
  intros i. unfold puti. destruct (i =? 0).
  - repeat constructor.
  - apply Forall_map.
    assert (B : Forall (fun d => d < 10) (digits_loop 10 40 i [])) by (apply digits_loop_bound; [lia|constructor]).
    eapply Forall_impl; [|exact B]. intros d Hd. cbn beta in *. unfold is_digit.
    apply andb_true_iff; split; apply N.leb_le; lia.
Qed.

Lemma puti_nonempty : forall i, puti i <> [].
Proof.
  intros i. unfold puti. destruct (i =? 0) eqn:E; [discriminate|].
  intro H. apply map_eq_nil in H. revert H. apply digits_loop_nonempty. right.
  apply N.eqb_neq in E. split; [assumption|discriminate].
Qed.

Lemma pow10_40 : 2 ^ 31 < 10 ^ N.of_nat 40.
Proof. vm_compute. reflexivity. Qed.

Lemma digits_not_zero : forall base fuel n,
  1 < base -> n <> 0 -> n < base ^ N.of_nat fuel -> digits_loop base fuel n [] <> [0].
Proof.
  intros base fuel n Hb Hn Hlt H.
  pose proof (digits_loop_val base fuel n [] Hb Hlt) as V. rewrite H in V.
  unfold val in V. cbn [fold_left] in V. lia.
Qed.

Lemma map_add48_single : forall ds : list N, [48] = map (fun d => 48 + d) ds -> ds = [0].
Proof.
  intros [|d [|d' r]] H; cbn [map] in H; try discriminate.
  assert (E : 48 = 48 + d) by congruence. f_equal. lia.
Qed.

Lemma puti_inj : forall i j, i < 2 ^ 31 -> j < 2 ^ 31 -> puti i = puti j -> i = j.
Proof.
  intros i j Hi Hj H. unfold puti in H.
  assert (Pi : i < 10 ^ N.of_nat 40) by (pose proof pow10_40; lia).
  assert (Pj : j < 10 ^ N.of_nat 40) by (pose proof pow10_40; lia).
  clear Hi Hj.
  destruct (i =? 0) eqn:Ei; destruct (j =? 0) eqn:Ej.
  - apply N.eqb_eq in Ei, Ej. congruence.
  - exfalso. apply N.eqb_neq in Ej. apply map_add48_single in H.
    revert H. apply digits_not_zero; [lia|assumption|assumption].
  - exfalso. apply N.eqb_neq in Ei. symmetry in H. apply map_add48_single in H.
    revert H. apply digits_not_zero; [lia|assumption|assumption].
  - apply (digits_loop_inj 10 40); [lia|assumption|assumption|].
    eapply (map_inj_on (fun d => 48 + d) (fun _ => True)); [intros; lia| | |exact H];
      apply Forall_forall; intros; exact I.
Qed.

Lemma hchar_inj : forall x y, x < 36 -> y < 36 -> hchar x = hchar y -> x = y.
Proof. intros x y Hx Hy. unfold hchar. destruct (x <? 10) eqn:A, (y <? 10) eqn:B; lia. Qed.

Lemma hchar_range : forall d, d < 36 -> (is_digit (hchar d) || is_upper (hchar d)) = true.
Proof. intros d Hd. unfold hchar, is_digit, is_upper. destruct (d <? 10) eqn:A; lia. Qed.

(* ------------------------------------------------------------------ the encoder *)

Section EncFacts.

Variable tbl : list (N * str).
Variable var_hash : N.
Variables hshift hadd hmask : N.

Notation codeword := (codeword tbl).
Notation enc := (enc tbl).
Notation valid_id := (valid_id tbl).
Notation printable := (printable tbl).
Notation printableb := (printableb tbl).
Notation id_hash := (id_hash var_hash hshift hadd hmask).
Notation hash_residue := (hash_residue var_hash hshift hadd hmask).
Notation mult_var_id := (mult_var_id tbl var_hash hshift hadd hmask).
Notation var_id := (var_id tbl).

Lemma cchar_b : forall c, ccharb c = true <-> cchar c.
Proof. intros c. unfold ccharb, cchar. lia. Qed.

Lemma printable_b : forall c, printableb c = true <-> printable c.
Proof.
  intros c. unfold Model.printableb, Model.printable. rewrite andb_true_iff, cchar_b.
  destruct (codeword c); split; intros [A B]; split; try assumption; try discriminate; congruence.
Qed.

Lemma in_chars_all : forall c, cchar c -> In c chars_all.
Proof.
  intros c [H0 H1]. unfold chars_all.
  replace c with (N.of_nat (N.to_nat c)) by apply N2Nat.id.
  apply in_map. apply in_seq. lia.
Qed.

(* tbl_find returns the accumulator or the string of a row for c *)
Lemma tbl_find_spec : forall t c acc,
  tbl_find t c acc = acc \/ In (c, match tbl_find t c acc with Some w => w | None => [] end) t /\ tbl_find t c acc <> None.
Proof.
  induction t as [|[ch w] t IH]; intros c acc; cbn [tbl_find]; [left; reflexivity|].
  destruct (IH c (if ch =? c then Some w else acc)) as [E|[E NE]].
  - destruct (ch =? c) eqn:Ec.
    + right. rewrite E. apply N.eqb_eq in Ec. subst. split; [left; reflexivity|discriminate].
    + left. exact E.
  - right. split; [right; exact E|exact NE].
Qed.

Lemma codeword_cases : forall c,
  (In (c, codeword c) tbl) \/ (codeword c = [c] /\ is_alnum c = true) \/ (codeword c = [] /\ is_alnum c = false).
Proof.
  intros c. unfold Model.codeword.
  destruct (tbl_find_spec tbl c None) as [E|[E NE]].
  - rewrite E. destruct (is_alnum c); [right; left|right; right]; auto.
  - left. destruct (tbl_find tbl c None); [exact E|congruence].
Qed.

(* prefix code: lifting the computed check *)
Lemma prefix_code_spec : prefix_code_ok tbl = true ->
  forall c1 c2, printable c1 -> printable c2 -> is_prefix (codeword c1) (codeword c2) = true -> c1 = c2.
Proof.
  intros H c1 c2 P1 P2 Hp. unfold prefix_code_ok in H.
  rewrite forallb_forall in H. specialize (H c1 (in_chars_all c1 (proj1 P1))).
  rewrite forallb_forall in H. specialize (H c2 (in_chars_all c2 (proj1 P2))).
  apply printable_b in P1, P2. rewrite P1, P2, Hp in H. cbn in H. apply N.eqb_eq. exact H.
Qed.

(* a prefix code extends injectively to strings *)
Lemma enc_inj : prefix_code_ok tbl = true ->
  forall s1 s2, Forall printable s1 -> Forall printable s2 -> enc s1 = enc s2 -> s1 = s2.
Proof.
  intros PC. induction s1 as [|c1 s1 IH]; intros [|c2 s2] F1 F2 H.
  - reflexivity.
  - exfalso. inversion F2 as [|? ? [_ P] ?]; subst. cbn [Model.enc flat_map] in H.
    symmetry in H. apply app_eq_nil in H. tauto.
  - exfalso. inversion F1 as [|? ? [_ P] ?]; subst. cbn [Model.enc flat_map] in H.
    apply app_eq_nil in H. tauto.
  - inversion F1 as [|? ? P1 F1']; subst. inversion F2 as [|? ? P2 F2']; subst.
    cbn [Model.enc flat_map] in H.
    assert (c1 = c2) as ->.
    { destruct (app_eq_prefix _ _ _ _ H) as [Hp|Hp].
      - apply (prefix_code_spec PC); assumption.
      - symmetry. apply (prefix_code_spec PC); assumption. }
    apply app_inv_head in H. f_equal. apply IH; assumption.
Qed.

Lemma enc_app : forall a b, enc (a ++ b) = enc a ++ enc b.
Proof. intros a b. unfold Model.enc. apply flat_map_app. Qed.

(* idlen = 0: no limit *)
Lemma valid_id_nolimit : forall s pos, valid_id 0 pos s = enc s.
Proof.
  induction s as [|c s IH]; intros pos; cbn [Model.valid_id Model.enc flat_map]; [reflexivity|].
  unfold under_idlen. cbn [N.eqb orb]. rewrite IH. reflexivity.
Qed.

(* everything fits: no truncation *)
Lemma valid_id_fits : forall idlen s pos,
  idlen = 0 \/ pos + len (enc s) <= idlen -> valid_id idlen pos s = enc s.
Proof.
  intros idlen. induction s as [|c s IH]; intros pos H; cbn [Model.valid_id Model.enc flat_map]; [reflexivity|].
  cbn [Model.enc flat_map] in H. rewrite len_app in H.
  assert (U : under_idlen tbl idlen pos c = true) by (unfold under_idlen; lia).
  rewrite U. f_equal. apply IH. fold (enc s) in H. lia.
Qed.

(* no_split_escape: the result is the complete encoding of a prefix of the name, it stays within the
   limit, and it stops only at the end or before a character whose escape would cross the limit *)
Lemma valid_id_prefix : forall idlen s pos,
  exists n, valid_id idlen pos s = enc (firstn n s) /\
            (n = List.length s \/
             exists c, nth_error s n = Some c /\ idlen <> 0 /\ idlen < pos + len (enc (firstn n s)) + len (codeword c)).
Proof.
  intros idlen. induction s as [|c s IH]; intros pos.
  - exists O. split; [reflexivity|left; reflexivity].
  - cbn [Model.valid_id]. destruct (under_idlen tbl idlen pos c) eqn:U.
    + destruct (IH (pos + len (codeword c))) as (n & E & T). exists (S n). split.
      * cbn [firstn Model.enc flat_map]. rewrite E. reflexivity.
      * destruct T as [T|(c' & Hn & Hz & Hlt)]; [left; cbn; congruence|].
        right. exists c'. split; [exact Hn|]. split; [exact Hz|].
        cbn [firstn Model.enc flat_map]. rewrite len_app. fold (enc (firstn n s)). lia.
    + exists O. split; [reflexivity|]. right. exists c. split; [reflexivity|].
      unfold under_idlen in U. cbn [firstn Model.enc flat_map]. rewrite len_nil. lia.
Qed.

Lemma valid_id_within : forall idlen s pos,
  idlen <> 0 -> pos <= idlen -> pos + len (valid_id idlen pos s) <= idlen.
Proof.
  intros idlen. induction s as [|c s IH]; intros pos Hz Hp; cbn [Model.valid_id].
  - rewrite len_nil. lia.
  - destruct (under_idlen tbl idlen pos c) eqn:U.
    + rewrite len_app. unfold under_idlen in U.
      assert (Hq : pos + len (codeword c) <= idlen) by lia.
      specialize (IH (pos + len (codeword c)) Hz Hq). lia.
    + rewrite len_nil. lia.
Qed.

(* identifier characters *)
Lemma tbl_wf_row : tbl_wf tbl = true -> forall ch w, In (ch, w) tbl ->
  rowcharb ch = true /\ is_alnum ch = false /\ Forall (fun x => is_idchar x = true) w /\ Forall (fun x => is_digit x = false) w.
Proof.
  intros H ch w Hin. unfold tbl_wf in H. rewrite forallb_forall in H. specialize (H _ Hin). cbn beta iota in H.
  apply andb_true_iff in H. destruct H as [H HD].
  apply andb_true_iff in H. destruct H as [H HC].
  apply andb_true_iff in H. destruct H as [HA HB].
  split; [exact HA|]. split; [destruct (is_alnum ch); [discriminate|reflexivity]|]. split.
  - apply Forall_forall. intros x Hx. rewrite forallb_forall in HC. apply HC. exact Hx.
  - apply Forall_forall. intros x Hx. rewrite forallb_forall in HD. specialize (HD _ Hx).
    destruct (is_digit x); [discriminate|reflexivity].
Qed.

Lemma codeword_idchars : tbl_wf tbl = true -> forall c, Forall (fun x => is_idchar x = true) (codeword c).
Proof.
  intros W c. destruct (codeword_cases c) as [Hin|[[E A]|[E _]]].
  - apply (tbl_wf_row W) in Hin. tauto.
  - rewrite E. constructor; [|constructor]. unfold is_idchar. rewrite A. reflexivity.
  - rewrite E. constructor.
Qed.

Lemma codeword_alnum : tbl_wf tbl = true -> forall c, is_alnum c = true -> codeword c = [c].
Proof.
  intros W c A. destruct (codeword_cases c) as [Hin|[[E _]|[_ E]]].
  - apply (tbl_wf_row W) in Hin. destruct Hin as (_ & B & _). congruence.
  - exact E.
  - congruence.
Qed.

Lemma codeword_nodigit : tbl_wf tbl = true -> forall c, is_digit c = false ->
  Forall (fun x => is_digit x = false) (codeword c).
Proof.
  intros W c D. destruct (codeword_cases c) as [Hin|[[E A]|[E _]]].
  - apply (tbl_wf_row W) in Hin. tauto.
  - rewrite E. constructor; [exact D|constructor].
  - rewrite E. constructor.
Qed.

Lemma enc_idchars : tbl_wf tbl = true -> forall s, Forall (fun x => is_idchar x = true) (enc s).
Proof.
  intros W. induction s as [|c s IH]; cbn [Model.enc flat_map]; [constructor|].
  apply Forall_app. split; [apply codeword_idchars; exact W|exact IH].
Qed.

Lemma valid_id_idchars : tbl_wf tbl = true -> forall idlen s pos,
  Forall (fun x => is_idchar x = true) (valid_id idlen pos s).
Proof.
  intros W idlen s pos. destruct (valid_id_prefix idlen s pos) as (n & E & _). rewrite E.
  apply enc_idchars. exact W.
Qed.

Lemma enc_nodigit : tbl_wf tbl = true -> forall s, Forall (fun c => is_digit c = false) s ->
  Forall (fun x => is_digit x = false) (enc s).
Proof.
  intros W. induction s as [|c s IH]; intros F; cbn [Model.enc flat_map]; [constructor|].
  inversion F; subst. apply Forall_app. split; [apply codeword_nodigit; assumption|apply IH; assumption].
Qed.


(* ------------------------------------------------------------------ hash prefix *)

Lemma pow36_64 : 2 ^ 64 < 36 ^ N.of_nat 64.
Proof. vm_compute. reflexivity. Qed.

Lemma id_hash_chars : forall s, Forall (fun c => (is_digit c || is_upper c) = true) (id_hash s).
Proof.
  intros s. unfold Model.id_hash. apply Forall_map.
  assert (B : Forall (fun d => d < 36) (digits_loop 36 64 (hash_residue s) [])) by (apply digits_loop_bound; [lia|constructor]).
  eapply Forall_impl; [|exact B]. intros d Hd. cbn beta in *. apply hchar_range. exact Hd.
Qed.

Lemma id_hash_no_underscore : forall s, Forall (fun c => (c =? 95) = false) (id_hash s).
Proof.
  intros s. eapply Forall_impl; [|apply id_hash_chars]. intros c H. cbn beta in *.
  unfold is_digit, is_upper in H. lia.
Qed.

Lemma id_hash_idchars : forall s, Forall (fun c => is_idchar c = true) (id_hash s).
Proof.
  intros s. eapply Forall_impl; [|apply id_hash_chars]. intros c H. cbn beta in *.
  unfold is_idchar, is_alnum, is_alpha. unfold is_digit, is_upper, is_lower in *. lia.
Qed.

Lemma id_hash_inj : 0 < var_hash -> var_hash < 2 ^ 64 ->
  forall s1 s2, id_hash s1 = id_hash s2 -> hash_residue s1 = hash_residue s2.
Proof.
  intros H0 H1 s1 s2 H. unfold Model.id_hash in H.
  assert (R : forall s, hash_residue s < 36 ^ N.of_nat 64).
  { intros s. pose proof pow36_64. unfold Model.hash_residue.
    assert (str_hash hshift hadd hmask s mod var_hash < var_hash) by (apply N.mod_lt; lia). lia. }
  apply (digits_loop_inj 36 64); [lia|apply R|apply R|].
  eapply (map_inj_on hchar (fun d => d < 36)); [intros; apply hchar_inj; assumption| | |exact H];
    apply digits_loop_bound; try lia; constructor.
Qed.

(* ------------------------------------------------------------------ global names *)

Definition global_tag (a : str) : Prop := a = [71] \/ a = [112; 71].

Lemma global_tag_b : forall a, is_G a || is_pG a = true <-> global_tag a.
Proof.
  intros a. unfold is_G, is_pG, global_tag. rewrite orb_true_iff, !str_eqb_eq. tauto.
Qed.

Lemma global_form : forall idlen idhash a i s, global_tag a ->
  mult_var_id idlen idhash a i s =
  a ++ 95 :: (if idhash then id_hash s ++ [95] else []) ++
    valid_id idlen (len a + 1 + (if idhash then len (id_hash s) + 1 else 0)) s.
Proof.
  intros idlen idhash a i s G. unfold Model.mult_var_id.
  apply global_tag_b in G. rewrite G. destruct idhash.
  - rewrite !len_app, len_cons, len_nil, <- !app_assoc. cbn [app]. do 4 f_equal; try lia.
  - rewrite !len_app, len_cons, len_nil, <- !app_assoc. cbn [app]. do 3 f_equal; try lia.
Qed.

(* equal global names: same tag, same hash residue, same truncated encoding *)
Lemma global_collision : 0 < var_hash -> var_hash < 2 ^ 64 ->
  forall idlen a1 a2 i1 i2 s1 s2, global_tag a1 -> global_tag a2 ->
  mult_var_id idlen true a1 i1 s1 = mult_var_id idlen true a2 i2 s2 ->
  a1 = a2 /\ hash_residue s1 = hash_residue s2 /\
  valid_id idlen (len a1 + 2 + len (id_hash s1)) s1 = valid_id idlen (len a1 + 2 + len (id_hash s1)) s2.
Proof.
  intros H0 H1 idlen a1 a2 i1 i2 s1 s2 G1 G2 H.
  rewrite (global_form idlen true a1 i1 s1 G1), (global_form idlen true a2 i2 s2 G2) in H.
  assert (a1 = a2) as <-.
  { destruct G1 as [-> | ->], G2 as [-> | ->]; try reflexivity; cbn [app] in H; discriminate. }
  split; [reflexivity|].
  apply app_inv_head in H. injection H as H. rewrite <- !app_assoc in H. cbn [app] in H.
  destruct (split_first (fun c => c =? 95) _ _ _ _ 95 95 (id_hash_no_underscore s1) (id_hash_no_underscore s2)
              eq_refl eq_refl H) as (E & _ & R).
  split; [apply id_hash_inj; assumption|].
  rewrite <- E in R.
  replace (len a1 + 2 + len (id_hash s1)) with (len a1 + 1 + (len (id_hash s1) + 1)) by lia. exact R.
Qed.

(* idlen = 0: global names are injective on printable names (with or without the hash prefix) *)
Lemma global_no_trunc : prefix_code_ok tbl = true ->
  forall idhash a1 a2 i1 i2 s1 s2, global_tag a1 -> global_tag a2 ->
  Forall printable s1 -> Forall printable s2 ->
  mult_var_id 0 idhash a1 i1 s1 = mult_var_id 0 idhash a2 i2 s2 -> a1 = a2 /\ s1 = s2.
Proof.
  intros PC idhash a1 a2 i1 i2 s1 s2 G1 G2 P1 P2 H.
  rewrite (global_form 0 idhash a1 i1 s1 G1), (global_form 0 idhash a2 i2 s2 G2) in H.
  assert (a1 = a2) as <-.
  { destruct G1 as [-> | ->], G2 as [-> | ->]; try reflexivity; cbn [app] in H; discriminate. }
  split; [reflexivity|].
  apply app_inv_head in H. injection H as H. rewrite !valid_id_nolimit in H.
  destruct idhash.
  - rewrite <- !app_assoc in H. cbn [app] in H.
    destruct (split_first (fun c => c =? 95) _ _ _ _ 95 95 (id_hash_no_underscore s1) (id_hash_no_underscore s2)
                eq_refl eq_refl H) as (_ & _ & R).
    apply (enc_inj PC); assumption.
  - cbn [app] in H. apply (enc_inj PC); assumption.
Qed.

(* both names fit: injective at any limit *)
Lemma global_fits : prefix_code_ok tbl = true ->
  forall idlen idhash a i1 i2 s1 s2, global_tag a ->
  Forall printable s1 -> Forall printable s2 ->
  (idlen = 0 \/ len a + 7 + len (enc s1) <= idlen /\ len a + 7 + len (enc s2) <= idlen) ->
  0 < var_hash -> var_hash <= 36 ^ 5 ->
  mult_var_id idlen idhash a i1 s1 = mult_var_id idlen idhash a i2 s2 -> s1 = s2.
Proof.
  intros PC idlen idhash a i1 i2 s1 s2 G P1 P2 F H0 H5 H.
  assert (L : forall s, len (id_hash s) <= 5).
  { intros s. unfold Model.id_hash, len. rewrite map_length.
    assert (R : hash_residue s < 36 ^ 5).
    { unfold Model.hash_residue. assert (str_hash hshift hadd hmask s mod var_hash < var_hash) by (apply N.mod_lt; lia). lia. }
    revert R. generalize (hash_residue s). intros n R.
    (* five divisions by 36 bring n < 36^5 to 0 *)
    cbn [digits_loop].
    destruct (n =? 0) eqn:E0; [cbn; lia|].
    destruct (n / 36 =? 0) eqn:E1; [cbn; lia|].
    destruct (n / 36 / 36 =? 0) eqn:E2; [cbn; lia|].
    destruct (n / 36 / 36 / 36 =? 0) eqn:E3; [cbn; lia|].
    destruct (n / 36 / 36 / 36 / 36 =? 0) eqn:E4; [cbn; lia|].
    destruct (n / 36 / 36 / 36 / 36 / 36 =? 0) eqn:E5; [cbn; lia|].
    exfalso. change (36 ^ 5) with 60466176 in R. lia. }
  rewrite (global_form idlen idhash a i1 s1 G), (global_form idlen idhash a i2 s2 G) in H.
  apply app_inv_head in H. injection H as H.
  assert (V : forall s, (idlen = 0 \/ len a + 7 + len (enc s) <= idlen) ->
            valid_id idlen (len a + 1 + (if idhash then len (id_hash s) + 1 else 0)) s = enc s).
  { intros s Fs. apply valid_id_fits. destruct Fs as [Fs|Fs]; [left; exact Fs|right].
    specialize (L s). destruct idhash; lia. }
  rewrite (V s1), (V s2) in H by tauto.
  destruct idhash.
  - rewrite <- !app_assoc in H. cbn [app] in H.
    destruct (split_first (fun c => c =? 95) _ _ _ _ 95 95 (id_hash_no_underscore s1) (id_hash_no_underscore s2)
                eq_refl eq_refl H) as (_ & _ & R).
    apply (enc_inj PC); assumption.
  - cbn [app] in H. apply (enc_inj PC); assumption.
Qed.

(* ------------------------------------------------------------------ local names: <tag><index>[_<enc name>] *)

Lemma tag_okb_spec : forall idlen t, tag_okb tbl idlen t = true ->
  t <> [] /\ Forall printable t /\ Forall (fun c => is_digit c = false) t /\
  (idlen = 0 \/ len (enc t) <= idlen) /\ is_G t || is_pG t = false.
Proof.
  intros idlen t H. unfold tag_okb in H.
  apply andb_true_iff in H. destruct H as [H H5].
  apply andb_true_iff in H. destruct H as [H H4].
  apply andb_true_iff in H. destruct H as [H H3].
  apply andb_true_iff in H. destruct H as [H1 H2].
  split; [destruct t; [discriminate|discriminate]|].
  rewrite forallb_forall in H2.
  split; [apply Forall_forall; intros c Hc; specialize (H2 c Hc); apply andb_true_iff in H2; apply printable_b; tauto|].
  split; [apply Forall_forall; intros c Hc; specialize (H2 c Hc); apply andb_true_iff in H2;
          destruct H2 as [_ D]; destruct (is_digit c); [discriminate|reflexivity]|].
  split; [lia|]. destruct (is_G t), (is_pG t); try discriminate; reflexivity.
Qed.

Lemma tag_okb_mono : forall i1 i2 t, tag_okb tbl i1 t = true -> i1 <> 0 -> (i2 = 0 \/ i1 <= i2) ->
  tag_okb tbl i2 t = true.
Proof.
  intros i1 i2 t H Hz Hle. unfold tag_okb in *.
  apply andb_true_iff in H. destruct H as [H H5].
  apply andb_true_iff in H. destruct H as [H H4].
  apply andb_true_iff in H. destruct H as [H H3].
  rewrite H, H4, H5. cbn [andb]. rewrite andb_true_r. lia.
Qed.

Lemma local_form : tbl_wf tbl = true -> forall idlen idhash t i b, tag_okb tbl idlen t = true ->
  mult_var_id idlen idhash t i b =
  enc t ++ puti i ++ match b with [] => [] | _ => 95 :: valid_id idlen (len (enc t ++ puti i) + 1) b end.
Proof.
  intros W idlen idhash t i b H. destruct (tag_okb_spec idlen t H) as (NE & P & D & F & G).
  unfold Model.mult_var_id. rewrite G.
  assert (FD : first_is_digit t = false).
  { destruct t as [|c t]; [reflexivity|]. inversion D; subst. assumption. }
  rewrite FD. cbn [app].
  assert (V : valid_id idlen 0 t = enc t) by (apply valid_id_fits; lia).
  rewrite V.
  assert (A1 : forall a, is_alpha a = true -> [a] = enc [a]).
  { intros a A. cbn [Model.enc flat_map]. rewrite app_nil_r. symmetry. apply (codeword_alnum W).
    unfold is_alnum. rewrite A. reflexivity. }
  assert (K : forall x : str, match b with
              | [] => x ++ puti i
              | _ :: _ => (x ++ puti i) ++ [95] ++ valid_id idlen (len (x ++ puti i) + 1) b end =
              x ++ puti i ++ match b with [] => [] | _ => 95 :: valid_id idlen (len (x ++ puti i) + 1) b end).
  { intros x. destruct b as [|c b]; [rewrite app_nil_r; reflexivity|]. rewrite <- app_assoc. reflexivity. }
  destruct t as [|a [|a' t']].
  - congruence.
  - destruct (is_alpha a) eqn:A.
    + rewrite <- (A1 a A). apply (K [a]).
    + apply K.
  - apply K.
Qed.

Lemma local_names_inj : prefix_code_ok tbl = true -> tbl_wf tbl = true ->
  forall idlen idhash t1 i1 b1 t2 i2 b2,
  tag_okb tbl idlen t1 = true -> tag_okb tbl idlen t2 = true -> i1 < 2 ^ 31 -> i2 < 2 ^ 31 ->
  mult_var_id idlen idhash t1 i1 b1 = mult_var_id idlen idhash t2 i2 b2 -> t1 = t2 /\ i1 = i2.
Proof.
  intros PC W idlen idhash t1 i1 b1 t2 i2 b2 T1 T2 I1 I2 H.
  rewrite (local_form W idlen idhash t1 i1 b1 T1), (local_form W idlen idhash t2 i2 b2 T2) in H.
  destruct (tag_okb_spec idlen t1 T1) as (_ & P1 & D1 & _ & _).
  destruct (tag_okb_spec idlen t2 T2) as (_ & P2 & D2 & _ & _).
  pose proof (puti_digits i1) as PD1. pose proof (puti_digits i2) as PD2.
  pose proof (puti_nonempty i1) as PN1. pose proof (puti_nonempty i2) as PN2.
  destruct (puti i1) as [|d1 r1] eqn:E1; [congruence|]. destruct (puti i2) as [|d2 r2] eqn:E2; [congruence|].
  cbn [app] in H.
  inversion PD1 as [|? ? Hd1 Hr1]; subst. inversion PD2 as [|? ? Hd2 Hr2]; subst.
  destruct (split_first is_digit _ _ _ _ d1 d2 (enc_nodigit W t1 D1) (enc_nodigit W t2 D2) Hd1 Hd2 H)
    as (E & Ed & R).
  split; [apply (enc_inj PC); assumption|].
  apply puti_inj; [assumption|assumption|]. rewrite E1, E2. f_equal; [exact Ed|].
  refine (proj1 (split_run is_digit r1 r2 _ _ Hr1 Hr2 _ _ R)).
  - destruct b1; [exact I|reflexivity].
  - destruct b2; [exact I|reflexivity].
Qed.

(* ------------------------------------------------------------------ valid C identifiers, never keywords *)

Lemma idchar_nodigit : forall c, is_idchar c = true -> is_digit c = false -> is_alpha c = true \/ c = 95.
Proof.
  intros c H D. unfold is_idchar, is_alnum in H. rewrite D in H.
  destruct (is_alpha c); [left; reflexivity|right]. cbn in H. apply N.eqb_eq. exact H.
Qed.

Lemma puti_idchars : forall i, Forall (fun c => is_idchar c = true) (puti i).
Proof.
  intros i. eapply Forall_impl; [|apply puti_digits]. intros c H. cbn beta in *.
  unfold is_idchar, is_alnum. rewrite H. destruct (is_alpha c); reflexivity.
Qed.

Lemma mangled_c_identifier : tbl_wf tbl = true ->
  forall idlen idhash t i b, (global_tag t \/ tag_okb tbl idlen t = true) ->
  c_identifier (mult_var_id idlen idhash t i b).
Proof.
  intros W idlen idhash t i b [G|T].
  - rewrite (global_form idlen idhash t i b G).
    assert (R : Forall (fun x => is_idchar x = true)
                  (95 :: (if idhash then id_hash b ++ [95] else []) ++
                   valid_id idlen (len t + 1 + (if idhash then len (id_hash b) + 1 else 0)) b)).
    { constructor; [reflexivity|]. apply Forall_app. split.
      - destruct idhash; [|constructor]. apply Forall_app. split; [apply id_hash_idchars|repeat constructor].
      - apply valid_id_idchars. exact W. }
    destruct G as [-> | ->]; cbn [app c_identifier].
    + split; [left; reflexivity|exact R].
    + split; [left; reflexivity|]. constructor; [reflexivity|exact R].
  - rewrite (local_form W idlen idhash t i b T).
    destruct (tag_okb_spec idlen t T) as (NE & P & D & _ & _).
    assert (R : Forall (fun x => is_idchar x = true)
                  (enc t ++ puti i ++ match b with [] => [] | _ => 95 :: valid_id idlen (len (enc t ++ puti i) + 1) b end)).
    { apply Forall_app. split; [apply enc_idchars; exact W|]. apply Forall_app. split; [apply puti_idchars|].
      destruct b; [constructor|]. constructor; [reflexivity|apply valid_id_idchars; exact W]. }
    destruct t as [|c t]; [congruence|].
    inversion P as [|? ? [_ Pc] _]; subst. inversion D as [|? ? Dc _]; subst.
    cbn [Model.enc flat_map] in *. fold (enc t) in *.
    pose proof (codeword_idchars W c) as CI. pose proof (codeword_nodigit W c Dc) as CD.
    destruct (codeword c) as [|x w]; [congruence|].
    cbn [app] in *. cbn [c_identifier]. inversion R; subst. split; [|assumption].
    inversion CI; subst. inversion CD; subst. apply idchar_nodigit; assumption.
Qed.

Definition kw_no_digit : bool := forallb (fun k => forallb (fun c => negb (is_digit c)) k) c_keywords.
Definition kw_no_G : bool := forallb (fun k => negb (is_prefix [71] k) && negb (is_prefix [112; 71] k)) c_keywords.

Lemma kw_checks : kw_no_digit = true /\ kw_no_G = true.
Proof. split; vm_compute; reflexivity. Qed.

Lemma mangled_not_keyword : tbl_wf tbl = true ->
  forall idlen idhash t i b, (global_tag t \/ tag_okb tbl idlen t = true) ->
  ~ In (mult_var_id idlen idhash t i b) c_keywords.
Proof.
  intros W idlen idhash t i b [G|T] Hin.
  - destruct kw_checks as [_ K]. unfold kw_no_G in K. rewrite forallb_forall in K. specialize (K _ Hin).
    rewrite (global_form idlen idhash t i b G) in K.
    destruct G as [-> | ->].
    + rewrite (is_prefix_app [71]) in K. discriminate.
    + change ([112; 71] ++ ?x) with ([112; 71] ++ x) in K. rewrite (is_prefix_app [112; 71]) in K.
      rewrite andb_false_r in K. discriminate.
  - destruct kw_checks as [K _]. unfold kw_no_digit in K. rewrite forallb_forall in K. specialize (K _ Hin).
    rewrite (local_form W idlen idhash t i b T) in K. rewrite forallb_forall in K.
    pose proof (puti_digits i) as PD. pose proof (puti_nonempty i) as PN.
    destruct (puti i) as [|d r]; [congruence|]. inversion PD as [|? ? Hd _]; subst.
    specialize (K d). rewrite Hd in K. cbn in K.
    assert (false = true); [|discriminate]. apply K. apply in_or_app. right. left. reflexivity.
Qed.

(* ------------------------------------------------------------------ a local name is never a global name *)

Lemma enc_alpha : tbl_wf tbl = true -> forall t, Forall (fun c => is_alpha c = true) t -> enc t = t.
Proof.
  intros W. induction t as [|c t IH]; intros F; [reflexivity|].
  inversion F as [|? ? A F']; subst. cbn [Model.enc flat_map]. fold (enc t).
  rewrite (codeword_alnum W c) by (unfold is_alnum; rewrite A; reflexivity).
  rewrite (IH F'). reflexivity.
Qed.

Lemma digit_not_95 : forall d, is_digit d = true -> d <> 95.
Proof. intros d H. unfold is_digit in H. lia. Qed.

Lemma digit_not_71 : forall d, is_digit d = true -> d <> 71.
Proof. intros d H. unfold is_digit in H. lia. Qed.

Lemma alpha_not_95 : forall c, is_alpha c = true -> c <> 95.
Proof. intros c H. unfold is_alpha, is_upper, is_lower in H. lia. Qed.

Lemma local_global_neq : tbl_wf tbl = true ->
  forall idlen idhash idlen' idhash' t i b a j s,
  tag_okb tbl idlen t = true -> Forall (fun c => is_alpha c = true) t -> global_tag a ->
  mult_var_id idlen idhash t i b <> mult_var_id idlen' idhash' a j s.
Proof.
  intros W idlen idhash idlen' idhash' t i b a j s T A G H.
  rewrite (local_form W idlen idhash t i b T), (global_form idlen' idhash' a j s G) in H.
  rewrite (enc_alpha W t A) in H.
  destruct (tag_okb_spec idlen t T) as (NE & _ & _ & _ & NG).
  pose proof (puti_digits i) as PD. pose proof (puti_nonempty i) as PN.
  destruct (puti i) as [|d r]; [congruence|]. inversion PD as [|? ? Hd _]; subst.
  apply orb_false_iff in NG. destruct NG as [NG NpG].
  destruct G as [-> | ->].
  - destruct t as [|c [|c' t']]; [congruence| |].
    + cbn [app] in H. injection H as Hc Hd'. apply (digit_not_95 d Hd). exact Hd'.
    + cbn [app] in H. injection H as Hc Hc' Hrest.
      pose proof (Forall_inv (Forall_inv_tail A)) as Ac'. cbn beta in Ac'.
      apply (alpha_not_95 c' Ac'). exact Hc'.
  - destruct t as [|c [|c' [|c'' t'']]]; [congruence| | |].
    + cbn [app] in H. injection H as Hc Hd'. apply (digit_not_71 d Hd). exact Hd'.
    + cbn [app] in H. injection H as Hc Hc' Hd'. apply (digit_not_95 d Hd). exact Hd'.
    + cbn [app] in H. injection H as Hc Hc' Hc'' Hrest.
      pose proof (Forall_inv (Forall_inv_tail (Forall_inv_tail A))) as Ac''. cbn beta in Ac''.
      apply (alpha_not_95 c'' Ac''). exact Hc''.
Qed.

End EncFacts.
