(* C16 - the generic facts instantiated with the table and constants GENERATED from the current
   genc.c / strops.c (coq/Gen/CNameTbl.v).  The side conditions on the table are closed here by
   vm_compute over the finite table / the 255 characters a C string can hold. *)
Require Import NArith ZArith List Bool Lia String.
Require Import AV.CName.Model AV.CName.Facts AV.Gen.CNameTbl.
Import ListNotations.
Local Open Scope N_scope.
Local Open Scope string_scope.

Definition cw := codeword tbl.
Definition enc := Model.enc tbl.
Definition valid_id := Model.valid_id tbl.
Definition printable := Model.printable tbl.
Definition mangle := mult_var_id tbl var_hash hash_shift hash_add hash_mask.
Definition residue := hash_residue var_hash hash_shift hash_add hash_mask.
Definition id_hash := Model.id_hash var_hash hash_shift hash_add hash_mask.
Definition tag_ok (idlen : N) (t : str) : Prop := tag_okb tbl idlen t = true.
Definition tagG : str := [71].        (* "G"  *)
Definition tagpG : str := [112; 71].  (* "pG" *)

(* ---- computed side conditions (these are what an edit of the table / constants can break) *)

Lemma prefix_code_current : prefix_code_ok tbl = true.
Proof. vm_compute. reflexivity. Qed.

Lemma tbl_wf_current : tbl_wf tbl = true.
Proof. vm_compute. reflexivity. Qed.

Lemma var_hash_current : 0 < var_hash /\ var_hash < 2 ^ 64 /\ var_hash <= 36 ^ 5.
Proof. vm_compute. repeat split; congruence. Qed.

Lemma idlen_default_current : idlen_default <> 0.
Proof. vm_compute. congruence. Qed.

Lemma caller_tags_current :
  forallb (fun t => is_G t || is_pG t || tag_okb tbl idlen_default t) tags = true.
Proof. vm_compute. reflexivity. Qed.

(* ---- the property theorems *)

Lemma enc_injective : forall s1 s2,
  Forall printable s1 -> Forall printable s2 -> enc s1 = enc s2 -> s1 = s2.
Proof. exact (enc_inj tbl prefix_code_current). Qed.

Lemma enc_is_c_identifier : forall idlen idhash t i b,
  global_tag t \/ tag_ok idlen t ->
  c_identifier (mangle idlen idhash t i b) /\ ~ In (mangle idlen idhash t i b) c_keywords.
Proof.
  intros idlen idhash t i b H. split.
  - apply mangled_c_identifier; [exact tbl_wf_current|exact H].
  - apply mangled_not_keyword; [exact tbl_wf_current|exact H].
Qed.

(* every tag the callers in genc.c pass is either G / pG or leaves the index unambiguous, at the
   default limit and at every larger one *)
Lemma caller_tags_ok : forall idlen t, In t tags -> idlen = 0 \/ idlen_default <= idlen ->
  global_tag t \/ tag_ok idlen t.
Proof.
  intros idlen t Hin Hle. pose proof caller_tags_current as H. rewrite forallb_forall in H.
  specialize (H t Hin). apply orb_true_iff in H. destruct H as [H|H].
  - left. apply global_tag_b. exact H.
  - right. unfold tag_ok. apply (tag_okb_mono tbl idlen_default idlen t H idlen_default_current Hle).
Qed.

Lemma local_names_distinct : forall idlen idhash t1 i1 b1 t2 i2 b2,
  tag_ok idlen t1 -> tag_ok idlen t2 -> i1 < 2 ^ 31 -> i2 < 2 ^ 31 ->
  (t1, i1) <> (t2, i2) ->
  mangle idlen idhash t1 i1 b1 <> mangle idlen idhash t2 i2 b2.
Proof.
  intros idlen idhash t1 i1 b1 t2 i2 b2 T1 T2 I1 I2 NE H. apply NE.
  destruct (local_names_inj tbl var_hash hash_shift hash_add hash_mask prefix_code_current tbl_wf_current
              idlen idhash t1 i1 b1 t2 i2 b2 T1 T2 I1 I2 H) as [-> ->]. reflexivity.
Qed.

Lemma global_distinct_no_trunc : forall idhash a1 a2 i1 i2 s1 s2,
  global_tag a1 -> global_tag a2 -> Forall printable s1 -> Forall printable s2 ->
  (a1, s1) <> (a2, s2) ->
  mangle 0 idhash a1 i1 s1 <> mangle 0 idhash a2 i2 s2.
Proof.
  intros idhash a1 a2 i1 i2 s1 s2 G1 G2 P1 P2 NE H. apply NE.
  destruct (global_no_trunc tbl var_hash hash_shift hash_add hash_mask prefix_code_current
              idhash a1 a2 i1 i2 s1 s2 G1 G2 P1 P2 H) as [-> ->]. reflexivity.
Qed.

Lemma global_distinct_when_fits : forall idlen idhash a i1 i2 s1 s2,
  global_tag a -> Forall printable s1 -> Forall printable s2 ->
  (idlen = 0 \/ len a + 7 + len (enc s1) <= idlen /\ len a + 7 + len (enc s2) <= idlen) ->
  s1 <> s2 -> mangle idlen idhash a i1 s1 <> mangle idlen idhash a i2 s2.
Proof.
  intros idlen idhash a i1 i2 s1 s2 G P1 P2 F NE H. apply NE.
  destruct var_hash_current as (V0 & _ & V5).
  exact (global_fits tbl var_hash hash_shift hash_add hash_mask prefix_code_current
           idlen idhash a i1 i2 s1 s2 G P1 P2 F V0 V5 H).
Qed.

Lemma global_collision_needs_hash_collision_partial : forall idlen a1 a2 i1 i2 s1 s2,
  global_tag a1 -> global_tag a2 ->
  mangle idlen true a1 i1 s1 = mangle idlen true a2 i2 s2 ->
  a1 = a2 /\ residue s1 = residue s2 /\
  valid_id idlen (len a1 + 2 + len (id_hash s1)) s1 = valid_id idlen (len a1 + 2 + len (id_hash s1)) s2.
Proof.
  destruct var_hash_current as (V0 & V1 & _).
  exact (global_collision tbl var_hash hash_shift hash_add hash_mask V0 V1).
Qed.

Lemma no_split_escape : forall idlen pos s,
  (exists n, valid_id idlen pos s = enc (firstn n s) /\
     (n = List.length s \/
      exists c, nth_error s n = Some c /\ idlen <> 0 /\ idlen < pos + len (enc (firstn n s)) + len (cw c))) /\
  (idlen <> 0 -> pos <= idlen -> pos + len (valid_id idlen pos s) <= idlen).
Proof.
  intros idlen pos s. split.
  - exact (valid_id_prefix tbl idlen s pos).
  - exact (valid_id_within tbl idlen s pos).
Qed.

(* a name made from an alphabetic tag and an index is never a global name (G_... / pG_...),
   whatever the limits and names; every caller tag except INIT_ (which starts with I) is alphabetic *)
Lemma local_global_distinct : forall idlen idhash idlen' idhash' t i b a j s,
  tag_ok idlen t -> Forall (fun c => is_alpha c = true) t -> global_tag a ->
  mangle idlen idhash t i b <> mangle idlen' idhash' a j s.
Proof. exact (local_global_neq tbl var_hash hash_shift hash_add hash_mask tbl_wf_current). Qed.

Lemma caller_tags_alphabetic :
  forallb (fun t => forallb is_alpha t || str_eqb t (s2l "INIT_")) tags = true.
Proof. vm_compute. reflexivity. Qed.

(* ---- what is NOT true of the code as it is (kept as checked statements, not hidden) *)

(* full strength for global names would be
     forall idlen >= default, s1 <> s2 -> mangle idlen true G i1 s1 <> mangle idlen true G i2 s2;
   refuted at the default limit by a pair found by the generator (equal residue, equal 22-character
   truncation).  A 26-bit residue cannot give "never" (pigeonhole). *)
Lemma global_names_distinct_refuted :
  collide1 <> collide2 /\ Forall printable collide1 /\ Forall printable collide2 /\
  mangle idlen_default true tagG 0 collide1 = mangle idlen_default true tagG 0 collide2.
Proof.
  split; [vm_compute; congruence|].
  split; [apply Forall_forall; intros c Hc; apply (proj1 (printable_b tbl c));
          revert c Hc; apply forallb_forall; vm_compute; reflexivity|].
  split; [apply Forall_forall; intros c Hc; apply (proj1 (printable_b tbl c));
          revert c Hc; apply forallb_forall; vm_compute; reflexivity|].
  vm_compute. reflexivity.
Qed.

(* The module initialiser is named gc0MultVarId("INIT_", 0, <file name>): same tag, same index, no
   hash, so two units whose file names share the characters that survive truncation get ONE name
   (confirmed on the real compiler: link error `multiple definition of INIT__0_...`). *)
Definition init_tag : str := s2l "INIT_".
Definition unit_one : str := s2l "averyveryverylongfilenameprefixone".
Definition unit_two : str := s2l "averyveryverylongfilenameprefixtwo".

Lemma module_init_names_distinct_refuted :
  In init_tag tags /\ unit_one <> unit_two /\
  mangle idlen_default idhash_default init_tag 0 unit_one = mangle idlen_default idhash_default init_tag 0 unit_two.
Proof.
  split; [vm_compute; tauto|]. split; [vm_compute; congruence|]. vm_compute. reflexivity.
Qed.

(* ---- Examples: the hypotheses are satisfiable by non-trivial values *)

Example ex_printable : Forall printable (s2l "set!<=?_x9").
Proof.
  apply Forall_forall; intros c Hc; apply (proj1 (printable_b tbl c));
    revert c Hc; apply forallb_forall; vm_compute; reflexivity.
Qed.

Example ex_enc : enc (s2l "set!<=?_x9") = s2l "set_BANG__LT__EQ__QMARK___x9".
Proof. vm_compute. reflexivity. Qed.

Example ex_tag_ok : tag_ok 30 (s2l "tmpClos") /\ tag_ok 30 (s2l "T") /\ tag_ok 0 (s2l "INIT_").
Proof. repeat split; vm_compute; reflexivity. Qed.

Example ex_global_tag : global_tag tagG /\ global_tag tagpG.
Proof. split; [left|right]; reflexivity. Qed.

Example ex_local : mangle 30 true (s2l "T") 12 (s2l "x?") = s2l "T12_x_QMARK_".
Proof. vm_compute. reflexivity. Qed.

(* truncation stops BEFORE the escape that would cross the limit: 8 + 18 + 6 > 30 *)
Example ex_global_trunc :
  mangle 30 true tagG 0 (s2l "rtDelayedGetExport!") = s2l "G_QRAZA_rtDelayedGetExport".
Proof. vm_compute. reflexivity. Qed.

Example ex_global_notrunc :
  mangle 0 true tagG 0 (s2l "rtDelayedGetExport!") = s2l "G_QRAZA_rtDelayedGetExport_BANG_".
Proof. vm_compute. reflexivity. Qed.

Example ex_fits : len tagG + 7 + len (enc (s2l "lazyForceImport")) <= 30.
Proof. vm_compute. congruence. Qed.

Example ex_no_split : valid_id 30 26 (s2l "ab!cd") = enc (firstn 2 (s2l "ab!cd")).
Proof. vm_compute. reflexivity. Qed.
