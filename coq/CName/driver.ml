(* C16 driver: same line protocol as harness/cname/h.c (ops M V E H S).  Only conversions between
   OCaml ints / hex text and the extracted N / list N; every computation is the extracted model. *)
open Cname

let rec pos_of_int (i : int) : positive =
  if i = 1 then XH else if i land 1 = 0 then XO (pos_of_int (i lsr 1)) else XI (pos_of_int (i lsr 1))
let n_of_int (i : int) : n = if i = 0 then N0 else Npos (pos_of_int i)
let rec int_of_pos (p : positive) : int =
  match p with XH -> 1 | XO q -> 2 * int_of_pos q | XI q -> 2 * int_of_pos q + 1
let int_of_n (x : n) : int = match x with N0 -> 0 | Npos p -> int_of_pos p

let hexv c = match c with
  | '0'..'9' -> Char.code c - 48 | 'a'..'f' -> Char.code c - 87 | _ -> Char.code c - 55

let unhex (h : string) : n list =
  if h = "-" then [] else
  let rec go i acc = if i < 0 then acc
    else go (i - 2) (n_of_int (hexv h.[i] * 16 + hexv h.[i + 1]) :: acc) in
  go (String.length h - 2) []

let tohex (s : n list) : string =
  if s = [] then "-" else String.concat "" (List.map (fun c -> Printf.sprintf "%02x" (int_of_n c)) s)

let () =
  try
    while true do
      let line = input_line stdin in
      let f = List.filter (fun x -> x <> "") (String.split_on_char ' ' line) in
      let out =
        try
          match f with
          | ["M"; idlen; idhash; a; id; b] ->
              tohex (x_mangle (n_of_int (int_of_string idlen)) (int_of_string idhash <> 0) (unhex a)
                       (n_of_int (int_of_string id)) (unhex b))
          | ["V"; idlen; s; id] ->
              tohex (x_var_id (n_of_int (int_of_string idlen)) (unhex s) (n_of_int (int_of_string id)))
          | ["E"; idlen; pos; s] ->
              tohex (x_valid_id (n_of_int (int_of_string idlen)) (n_of_int (int_of_string pos)) (unhex s))
          | ["H"; s] -> tohex (x_id_hash (unhex s))
          | ["S"; s] -> string_of_int (int_of_n (x_str_hash (unhex s)))
          | _ -> "?"
        with _ -> "?" in
      print_endline out
    done
  with End_of_file -> ()
