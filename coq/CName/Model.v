(* C16 - model of the C-name encoder of genc.c (definitions only).

   Modelled function for function:
     gc0InitSpecialChars   -> codeword   (alnum -> itself, table char -> its string, LATER table rows
                                          override earlier ones and override alnum, anything else -> nothing)
     gc0UnderIdLen         -> under_idlen
     gc0ValidIdInBuf       -> valid_id   (loop over the characters; stops at the first character whose
                                          whole escape would cross idlen; idlen = 0 means no limit)
     strHash (strops.c)    -> str_hash   (Hash = unsigned long, 64 bit: wrap written explicitly)
     gc0IdHashInBuf        -> id_hash    (strHash % VAR_HASH in base 36, most significant digit first,
                                          NO digit at all for residue 0)
     bufPuti (buffer.c)    -> puti       (decimal; the callers pass indices >= 0)
     gc0VarId              -> var_id
     gc0MultVarId          -> mult_var_id
     genCSetIdLen/SMax     -> set_idlen / set_smax

   Characters are their codes (N); a C string is the list of its characters up to, not including,
   the terminating 0.  The C indexes gcvIdChars[(UByte)*s], arrays of UCHAR_MAX+1 entries filled for
   every i < UCHAR_MAX+1 (isalnum is false above 127 in the C locale): defined for the characters
   1..255 (`cchar`); a byte >= 127 has no escape and is DROPPED, so it is not `printable` and the
   injectivity theorems do not speak about names that differ only in dropped characters.  The rows of
   the table itself must have characters 1..126 (checked in tbl_wf; ccIdChar is a plain char).
   The escape table, VAR_HASH and the strHash constants are Section variables here; Props instantiates
   them with the table generated from the current genc.c. *)
Require Import NArith ZArith List Bool String Ascii.
Import ListNotations.
Local Open Scope N_scope.

Definition str := list N.

Definition len (s : str) : N := N.of_nat (List.length s).

Definition is_digit (c : N) : bool := (48 <=? c) && (c <=? 57).
Definition is_upper (c : N) : bool := (65 <=? c) && (c <=? 90).
Definition is_lower (c : N) : bool := (97 <=? c) && (c <=? 122).
Definition is_alpha (c : N) : bool := is_upper c || is_lower c.
Definition is_alnum (c : N) : bool := is_alpha c || is_digit c.
Definition is_idchar (c : N) : bool := is_alnum c || (c =? 95).

(* characters of a C string: *s <> 0, one byte; gcvIdChars[UCHAR_MAX+1] is defined for all of them *)
Definition cchar (c : N) : Prop := 0 < c /\ c < 256.
Definition ccharb (c : N) : bool := (0 <? c) && (c <? 256).
(* characters a table row may have (plain char, positive) *)
Definition rowcharb (c : N) : bool := (0 <? c) && (c <? 127).

(* readable literals in Examples / keyword list *)
Definition s2l (s : string) : str := map N_of_ascii (list_ascii_of_string s).

Fixpoint is_prefix (a b : str) : bool :=
  match a, b with
  | [], _ => true
  | _ :: _, [] => false
  | x :: a', y :: b' => (x =? y) && is_prefix a' b'
  end.

Fixpoint str_eqb (a b : str) : bool :=
  match a, b with
  | [], [] => true
  | x :: a', y :: b' => (x =? y) && str_eqb a' b'
  | _, _ => false
  end.

(* ------------------------------------------------------------------ digits *)

(* for (ndig = 0; n; n /= base, ndig++) d[ndig] = n % base;  while (ndig--) emit d[ndig];
   the accumulator is the emitted (most significant first) order. Out of fuel returns what it has:
   the theorems state n < base^fuel. *)
Fixpoint digits_loop (base : N) (fuel : nat) (n : N) (acc : list N) : list N :=
  match fuel with
  | O => acc
  | S f => if n =? 0 then acc else digits_loop base f (n / base) (n mod base :: acc)
  end.

(* bufPuti, i >= 0; int is 32 bit: i < 2^31 < 10^40 *)
Definition puti (i : N) : str :=
  if i =? 0 then [48] else map (fun d => 48 + d) (digits_loop 10 40 i []).

Definition hchar (d : N) : N := if d <? 10 then 48 + d else 65 + (d - 10).

(* ------------------------------------------------------------------ option setters *)

Definition set_idlen (n : Z) : N := if (n <? 0)%Z then 1 else Z.to_N n.
Definition set_smax (n : Z) : N := if (n <? 0)%Z then 1 else Z.to_N n.

Section Enc.

Variable tbl : list (N * str).          (* ccSpecCharIdTable *)
Variable var_hash : N.                   (* VAR_HASH *)
Variables hshift hadd hmask : N.         (* strHash constants *)

(* gc0InitSpecialChars: for (i = 0; ccIdChar(i) != 0; i++) gcvIdChars[ccIdChar(i)] = i; *)
Fixpoint tbl_find (t : list (N * str)) (c : N) (acc : option str) : option str :=
  match t with
  | [] => acc
  | (ch, w) :: t' => tbl_find t' c (if ch =? c then Some w else acc)
  end.

(* what gc0ValidIdInBuf appends for character c; gcvIdCharc[c] is its length *)
Definition codeword (c : N) : str :=
  match tbl_find tbl c None with
  | Some w => w
  | None => if is_alnum c then [c] else []
  end.

Definition printable (c : N) : Prop := cchar c /\ codeword c <> [].
Definition printableb (c : N) : bool :=
  ccharb c && match codeword c with [] => false | _ => true end.

Definition under_idlen (idlen pos : N) (c : N) : bool :=
  (idlen =? 0) || (pos + len (codeword c) <=? idlen).

(* gc0ValidIdInBuf, buffer position `pos` on entry; returns what is appended *)
Fixpoint valid_id (idlen pos : N) (s : str) : str :=
  match s with
  | [] => []
  | c :: s' =>
      if under_idlen idlen pos c
      then codeword c ++ valid_id idlen (pos + len (codeword c)) s'
      else []
  end.

(* the encoder without a limit *)
Definition enc (s : str) : str := flat_map codeword s.

(* strHash.  c = *s++ is an int made from a signed char *)
Definition wrap64 (x : N) : N := x mod 2 ^ 64.
Definition char_add (c : N) : N := if c <? 128 then c + hadd else c + hadd - 256.
Definition hash_step (h c : N) : N :=
  N.land (wrap64 (wrap64 (N.lxor h (wrap64 (N.shiftl h hshift))) + char_add c)) hmask.
Definition str_hash (s : str) : N := fold_left hash_step s 0.

Definition hash_residue (s : str) : N := str_hash s mod var_hash.

(* gc0IdHashInBuf *)
Definition id_hash (s : str) : str := map hchar (digits_loop 36 64 (hash_residue s) []).

(* gc0VarId *)
Definition var_id (idlen : N) (s : str) (id : N) : str :=
  valid_id idlen 0 s ++ puti id.

Definition is_G (a : str) : bool := str_eqb a [71].
Definition is_pG (a : str) : bool := str_eqb a [112; 71].

Definition first_is_digit (a : str) : bool := match a with c :: _ => is_digit c | [] => false end.

(* gc0MultVarId.  `id` is ignored for the global tags G and pG. *)
Definition mult_var_id (idlen : N) (idhash : bool) (strA : str) (id : N) (strB : str) : str :=
  if is_G strA || is_pG strA then
    let b0 := strA ++ [95] in
    let b1 := if idhash then b0 ++ id_hash strB ++ [95] else b0 in
    b1 ++ valid_id idlen (len b1) strB
  else
    let general :=
      (if first_is_digit strA then [95] else []) ++
      valid_id idlen (if first_is_digit strA then 1 else 0) strA in
    let b0 :=
      match strA with
      | [a] => if is_alpha a then [a] else general
      | _ => general
      end in
    let b1 := b0 ++ puti id in
    match strB with
    | [] => b1
    | _ => b1 ++ [95] ++ valid_id idlen (len b1 + 1) strB
    end.

(* ---- computable side conditions on the table (closed by vm_compute on the generated table) *)

Definition chars_all : list N := map N.of_nat (seq 1 255).

(* no printable character's escape is a prefix of another's *)
Definition prefix_code_ok : bool :=
  forallb (fun c1 => forallb (fun c2 =>
     implb (printableb c1 && printableb c2 && is_prefix (codeword c1) (codeword c2)) (c1 =? c2))
     chars_all) chars_all.

(* every escape consists of identifier characters, none contains a digit, none starts with a digit,
   no row overrides an alphanumeric character, every row character is in 1..126 *)
Definition tbl_wf : bool :=
  forallb (fun r => let '(ch, w) := r in
     rowcharb ch && negb (is_alnum ch) && forallb is_idchar w && forallb (fun x => negb (is_digit x)) w) tbl.

(* a tag (first argument of gc0MultVarId other than G / pG) after which the index is unambiguous *)
Definition tag_okb (idlen : N) (t : str) : bool :=
  match t with [] => false | _ => true end
  && forallb (fun c => printableb c && negb (is_digit c)) t
  && ((idlen =? 0) || (len (enc t) <=? idlen))
  && negb (is_G t) && negb (is_pG t).

End Enc.

(* ------------------------------------------------------------------ C keywords (C89, C99, C11) *)

Definition c_keywords : list str := map s2l
  ["auto"; "break"; "case"; "char"; "const"; "continue"; "default"; "do"; "double"; "else"; "enum";
   "extern"; "float"; "for"; "goto"; "if"; "inline"; "int"; "long"; "register"; "restrict"; "return";
   "short"; "signed"; "sizeof"; "static"; "struct"; "switch"; "typedef"; "union"; "unsigned"; "void";
   "volatile"; "while"; "_Bool"; "_Complex"; "_Imaginary"; "_Alignas"; "_Alignof"; "_Atomic";
   "_Generic"; "_Noreturn"; "_Static_assert"; "_Thread_local"; "asm"; "typeof"; "fortran"]%string.

(* [A-Za-z_][A-Za-z0-9_]* *)
Definition c_identifier (s : str) : Prop :=
  match s with
  | [] => False
  | c :: r => (is_alpha c = true \/ c = 95) /\ Forall (fun x => is_idchar x = true) r
  end.
