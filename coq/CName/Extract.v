(* C16 - extraction of the executable model, instantiated with the generated table and constants.
   Depends only on Model.v and Gen/CNameTbl.v, so the model stays runnable when a proof breaks. *)
Require Import ExtrOcamlBasic.
Require Import AV.CName.Model AV.Gen.CNameTbl.

Definition x_mangle := Model.mult_var_id tbl var_hash hash_shift hash_add hash_mask.
Definition x_var_id := Model.var_id tbl.
Definition x_valid_id := Model.valid_id tbl.
Definition x_id_hash := Model.id_hash var_hash hash_shift hash_add hash_mask.
Definition x_str_hash := Model.str_hash hash_shift hash_add hash_mask.
Definition x_enc := Model.enc tbl.

Extraction "CName/extracted/cname.ml" x_mangle x_var_id x_valid_id x_id_hash x_str_hash x_enc.
