(* C16 - the splitting facts instantiated with the comparison operators read from the current
   genc.c / emit.c (coq/Gen/CSplitOps.v). *)
Require Import NArith List Bool Lia.
Require Import AV.CSplit.Model AV.CSplit.Facts AV.Gen.CSplitOps.
Import ListNotations.
Local Open Scope N_scope.

Definition csplit := split split_ops.
Definition cemit := emit split_ops.

(* what a change of one comparison breaks: the loop, gc0OverSMax and emitTheC use the same test *)
Lemma ops_agree_current : loop_cmp split_ops = over_cmp split_ops /\ emit_cmp split_ops = Gt /\ loop_cmp split_ops = Gt.
Proof. repeat split; reflexivity. Qed.

Lemma split_partition_order : forall smax ds, init_first ds ->
  let s := csplit smax ds in
  concat (l_pieces s) ++ l_rest s ++ l_glo s = tl (indexed ds) /\
  0%nat :: map fst (concat (l_pieces s) ++ l_rest s ++ l_glo s) = seq 0 (List.length ds).
Proof. intros smax ds H. split; [apply split_partition|apply split_indices]; exact H. Qed.

Lemma split_notions_agree : forall smax ds,
  let s := csplit smax ds in
  (l_pieces s = [] <-> l_over s = false) /\
  emit_is_split split_ops (l_elems s) = l_over s /\
  (l_over s = true -> exists rest, cemit (l_elems s) = (HFile, Header) :: rest /\ forall e, In (HFile, e) rest -> False) /\
  (l_over s = false -> exists defs, cemit (l_elems s) = [(CFile 0, Main true defs)]).
Proof.
  intros smax ds. destruct ops_agree_current as (A & B & _). split.
  - exact (split_agree split_ops smax ds A).
  - exact (emit_agree split_ops smax ds A B).
Qed.

Lemma over_smax_meaning : forall smax ds,
  l_over (csplit smax ds) = true <-> 0 < smax /\ smax < n_stmts ds.
Proof.
  intros smax ds. destruct (split_fields split_ops smax ds) as (_ & _ & _ & E & _).
  unfold csplit. rewrite E. unfold over_smax. cbn. lia.
Qed.

Lemma split_respects_limit : forall smax ds p, In p (l_pieces (csplit smax ds)) ->
  forall q x t, p = q ++ x :: t -> sum_cost q < smax.
Proof.
  intros smax ds p Hin q x t Hp. pose proof (split_limit split_ops smax ds p Hin q x t Hp) as L.
  cbn in L. lia.
Qed.

Lemma split_piece_count : forall smax ds, 0 < smax ->
  List.length (l_pieces (csplit smax ds)) = N.to_nat ((n_stmts ds - 1) / smax).
Proof. intros smax ds H. destruct ops_agree_current as (_ & _ & G). exact (split_count split_ops smax ds G H). Qed.

(* Examples: a unit of 110 guessed statements (the sp.as of the seeded round), limits around it *)
Definition ex_unit : list def :=
  [Prog 51; Prog 1; Prog 10; Prog 5; Prog 7; Prog 8; Prog 5; Prog 5; Prog 5; Prog 5; Prog 5; Other; Other; Other].

Example ex_init_first : init_first ex_unit.
Proof. unfold init_first, ex_unit. eauto. Qed.

Example ex_total : n_stmts ex_unit = 110.
Proof. reflexivity. Qed.

Example ex_split_50 :
  map (fun e => match e with Header => [] | Piece _ d => d | Main _ d => d end) (l_elems (csplit 50 ex_unit))
  = [[]; [1; 2; 3; 4; 5; 6; 7; 8]; [9; 10]; [0; 11; 12; 13]]%nat.
Proof. vm_compute. reflexivity. Qed.

Example ex_boundary : l_over (csplit 110 ex_unit) = false /\ l_over (csplit 109 ex_unit) = true /\
                      List.length (l_pieces (csplit 55 ex_unit)) = 1%nat.
Proof. repeat split; vm_compute; reflexivity. Qed.
