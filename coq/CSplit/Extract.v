(* C16 - extraction of the splitting model with the operators of the current sources. *)
Require Import ExtrOcamlBasic.
Require Import AV.CSplit.Model AV.Gen.CSplitOps.

Definition x_split := split split_ops.
Definition x_emit := emit split_ops.
Definition x_n_stmts := n_stmts.

Extraction "CSplit/extracted/csplit.ml" x_split x_emit x_n_stmts.
