(* C16 - model of the file-splitting decision of genc.c:gc0ExternDecls / gc0OverSMax and of
   emit.c:emitTheC's reading of the result (definitions only).

   Input : the top-level definitions of the unit in order (gcvDefs), each a Prog with foamArgc(body) = b
           statements or something else (a global definition), and smax (-Csmax, 0 = never split).
   As coded:
     guess loop      nStmts = sum (Prog b -> b | other -> 1) over ALL definitions, nDefs = number of Progs;
                     gcvNStmts = nStmts (never changed afterwards)
     gc0OverSMax()   gcvSMax > 0 && gcvNStmts OVER gcvSMax                       (OVER read from the source)
     piece loop      while (nStmts LOOP gcvSMax && gcvSMax > 0) {                (LOOP read from the source)
                        for (i = n; i < nDefs-1 && stmtCounter INNER gcvSMax; i++)  (INNER read from the source)
                            stmtCounter += (Prog b -> b+1 | other -> 1) of definition i+1; place it in the piece
                        n = i; piece gets INIT function number ++nBrothers; stmtCounter = 0; nStmts -= gcvSMax }
     rest            definition 0, definitions n+1 .. nDefs-1, definitions nDefs .. (global definitions) go to the
                     last part; the header goes INTO the last part unless gc0OverSMax(), else it is a list
                     element of its own, pushed in front
     emitTheC        l = length of the list; l SPLIT 1 -> element 0 is written to <unit>.h, element 1 to
                     <unit>.c, element i >= 2 to <first 5 chars>NNN.c with NNN = i-1; otherwise element 0 is <unit>.c
   Definition indices are positions in gcvDefs (= constant numbers for the Progs).
   The C relies on nDefs >= 1 (definition 0 is the unit's initialisation Prog): guard `init_first`. *)
Require Import NArith List Bool.
Import ListNotations.
Local Open Scope N_scope.

Inductive def := Prog (body : N) | Other.

Definition weight (d : def) : N := match d with Prog b => b | Other => 1 end.      (* guess loop *)
Definition cost (d : def) : N := match d with Prog b => b + 1 | Other => 1 end.    (* stmtCounter *)
Definition is_prog (d : def) : bool := match d with Prog _ => true | Other => false end.

Definition n_stmts (ds : list def) : N := fold_right (fun d a => weight d + a) 0 ds.
Definition n_defs (ds : list def) : nat := List.length (filter is_prog ds).

(* `a > b` / `a >= b` as written in the source; Unknown = the translator did not recognise the text *)
Inductive cmp := Gt | Ge | UnknownCmp.
Definition test (c : cmp) (a b : N) : bool :=
  match c with Gt => b <? a | Ge => b <=? a | UnknownCmp => false end.
(* `a < b` / `a <= b` *)
Inductive lcmp := Lt | Le.
Definition ltest (c : lcmp) (a b : N) : bool := match c with Lt => a <? b | Le => a <=? b end.

Record ops := { loop_cmp : cmp; over_cmp : cmp; inner_cmp : lcmp; emit_cmp : cmp }.

Definition init_first (ds : list def) : Prop := exists b r, ds = Prog b :: r.

Section Split.
Variable o : ops.
Variable smax : N.

Definition over_smax (total : N) : bool := (0 <? smax) && test (over_cmp o) total smax.

(* the inner for loop: definitions are (index, def) pairs *)
Fixpoint take_piece (counter : N) (rest : list (nat * def)) : list (nat * def) * list (nat * def) :=
  match rest with
  | [] => ([], [])
  | d :: r =>
      if ltest (inner_cmp o) counter smax
      then let (p, r') := take_piece (counter + cost (snd d)) r in (d :: p, r')
      else ([], rest)
  end.

(* the while loop; every turn takes smax off nStmts, so nStmts+1 turns of fuel are enough *)
Fixpoint pieces (fuel : nat) (nst : N) (rest : list (nat * def)) : list (list (nat * def)) * list (nat * def) :=
  match fuel with
  | O => ([], rest)
  | S f =>
      if test (loop_cmp o) nst smax && (0 <? smax)
      then let (p, r) := take_piece 0 rest in
           let (ps, r') := pieces f (nst - smax) r in (p :: ps, r')
      else ([], rest)
  end.

Definition indexed (ds : list def) : list (nat * def) := combine (seq 0 (List.length ds)) ds.

Inductive elem :=
| Header                                       (* declarations only *)
| Piece (k : nat) (defs : list nat)            (* definitions + INIT function number k *)
| Main (with_header : bool) (defs : list nat). (* definition 0, the rest, global definitions, INIT 0 *)

Fixpoint number_pieces (k : nat) (ps : list (list (nat * def))) : list elem :=
  match ps with [] => [] | p :: r => Piece k (map fst p) :: number_pieces (S k) r end.

Record layout := { l_pieces : list (list (nat * def)); l_rest : list (nat * def);
                   l_glo : list (nat * def); l_over : bool; l_elems : list elem }.

(* gc0ExternDecls: the returned list, first element first *)
Definition split (ds : list def) : layout :=
  let total := n_stmts ds in
  let nd := n_defs ds in
  let ix := indexed ds in
  let placeable := firstn (nd - 1) (tl ix) in
  let glo := skipn nd ix in
  let '(ps, rest) := pieces (S (N.to_nat total)) total placeable in
  let over := over_smax total in
  {| l_pieces := ps; l_rest := rest; l_glo := glo; l_over := over;
     l_elems := (if over then [Header] else []) ++ number_pieces 1 ps ++
                [Main (negb over) (0%nat :: map fst rest ++ map fst glo)] |}.

(* emitTheC *)
Definition emit_is_split (es : list elem) : bool := test (emit_cmp o) (N.of_nat (List.length es)) 1.

Inductive file := HFile | CFile (nnn : nat).    (* CFile 0 = <unit>.c, CFile n = <5 chars>NNN.c *)

Fixpoint emit_from (i : nat) (es : list elem) : list (file * elem) :=
  match es with
  | [] => []
  | e :: r => (match i with O => HFile | S j => CFile j end, e) :: emit_from (S i) r
  end.

Definition emit (es : list elem) : list (file * elem) :=
  if emit_is_split es then emit_from 0 es
  else match es with e :: _ => [(CFile 0, e)] | [] => [] end.

End Split.
