(* C16 - facts about the splitting model, for all definition lists and all limits. *)
Require Import NArith List Bool Lia ZifyBool.
Require Import AV.CSplit.Model.
Import ListNotations.
Local Open Scope N_scope.

Definition sum_cost (p : list (nat * def)) : N := fold_right (fun d a => cost (snd d) + a) 0 p.

Section SplitFacts.
Variable o : ops.
Variable smax : N.

Notation take_piece := (take_piece o smax).
Notation pieces := (pieces o smax).

Lemma take_piece_app : forall rest c p r, take_piece c rest = (p, r) -> p ++ r = rest.
Proof.
  induction rest as [|d rest IH]; intros c p r H; cbn [Model.take_piece] in H.
  - injection H as <- <-. reflexivity.
  - destruct (ltest (inner_cmp o) c smax).
    + destruct (take_piece (c + cost (snd d)) rest) as [p' r'] eqn:E.
      injection H as <- <-. cbn [app]. f_equal. exact (IH _ _ _ E).
    + injection H as <- <-. reflexivity.
Qed.

Lemma pieces_app : forall fuel nst rest ps r, pieces fuel nst rest = (ps, r) -> concat ps ++ r = rest.
Proof.
  induction fuel as [|f IH]; intros nst rest ps r H; cbn [Model.pieces] in H.
  - injection H as <- <-. reflexivity.
  - destruct (test (loop_cmp o) nst smax && (0 <? smax)).
    + destruct (take_piece 0 rest) as [p r1] eqn:E1.
      destruct (pieces f (nst - smax) r1) as [ps' r2] eqn:E2.
      injection H as <- <-. cbn [concat]. rewrite <- app_assoc.
      rewrite (IH _ _ _ _ E2). exact (take_piece_app _ _ _ _ E1).
    + injection H as <- <-. reflexivity.
Qed.

(* every definition of a piece but its last one was added while the counter was under the limit *)
Lemma take_piece_limit : forall rest c p r, take_piece c rest = (p, r) ->
  forall q x t, p = q ++ x :: t -> ltest (inner_cmp o) (c + sum_cost q) smax = true.
Proof.
  induction rest as [|d rest IH]; intros c p r H q x t Hp; cbn [Model.take_piece] in H.
  - injection H as <- <-. destruct q; discriminate.
  - destruct (ltest (inner_cmp o) c smax) eqn:L.
    + destruct (take_piece (c + cost (snd d)) rest) as [p' r'] eqn:E.
      injection H as <- <-. destruct q as [|y q].
      * cbn [sum_cost fold_right]. rewrite N.add_0_r. exact L.
      * cbn [app] in Hp. injection Hp as <- Hp.
        specialize (IH _ _ _ E q x t Hp). cbn [sum_cost fold_right]. fold (sum_cost q).
        rewrite N.add_assoc. exact IH.
    + injection H as <- <-. destruct q; discriminate.
Qed.

Lemma pieces_limit : forall fuel nst rest ps r, pieces fuel nst rest = (ps, r) ->
  forall p, In p ps -> forall q x t, p = q ++ x :: t -> ltest (inner_cmp o) (sum_cost q) smax = true.
Proof.
  induction fuel as [|f IH]; intros nst rest ps r H p Hin; cbn [Model.pieces] in H.
  - injection H as <- <-. destruct Hin.
  - destruct (test (loop_cmp o) nst smax && (0 <? smax)).
    + destruct (take_piece 0 rest) as [p1 r1] eqn:E1.
      destruct (pieces f (nst - smax) r1) as [ps' r2] eqn:E2.
      injection H as <- <-. destruct Hin as [<- | Hin].
      * intros q x t Hp. pose proof (take_piece_limit _ _ _ _ E1 q x t Hp) as L.
        rewrite N.add_0_l in L. exact L.
      * exact (IH _ _ _ _ E2 p Hin).
    + injection H as <- <-. destruct Hin.
Qed.

(* the first turn decides whether there is any piece *)
Lemma pieces_nil_iff : forall f nst rest,
  fst (pieces (S f) nst rest) = [] <-> test (loop_cmp o) nst smax && (0 <? smax) = false.
Proof.
  intros f nst rest. cbn [Model.pieces].
  destruct (test (loop_cmp o) nst smax && (0 <? smax)).
  - destruct (take_piece 0 rest) as [p r1]. destruct (pieces f (nst - smax) r1) as [ps r2]. cbn [fst].
    split; discriminate.
  - cbn [fst]. split; reflexivity.
Qed.

(* number of turns of `while (nStmts > smax && smax > 0) nStmts -= smax` *)
Lemma pieces_count_gt : loop_cmp o = Gt -> 0 < smax ->
  forall fuel nst rest, (N.to_nat nst < fuel)%nat ->
  List.length (fst (pieces fuel nst rest)) = N.to_nat ((nst - 1) / smax).
Proof.
  intros HG Hs. induction fuel as [|f IH]; intros nst rest Hf; [lia|].
  cbn [Model.pieces]. rewrite HG. cbn [test].
  destruct ((smax <? nst) && (0 <? smax)) eqn:E.
  - destruct (take_piece 0 rest) as [p r1]. destruct (pieces f (nst - smax) r1) as [ps r2] eqn:E2.
    cbn [fst List.length].
    assert (Hlt : (N.to_nat (nst - smax) < f)%nat) by lia.
    specialize (IH (nst - smax) r1 Hlt). rewrite E2 in IH. cbn [fst] in IH. rewrite IH.
    replace (nst - 1) with ((nst - smax - 1) + 1 * smax) by lia.
    rewrite N.div_add by lia. lia.
  - cbn [fst List.length]. assert (nst <= smax) by lia.
    rewrite N.div_small by lia. reflexivity.
Qed.

End SplitFacts.

(* ------------------------------------------------------------------ the whole layout *)

Lemma map_fst_combine : forall (A B : Type) (l : list A) (l' : list B),
  List.length l = List.length l' -> map fst (combine l l') = l.
Proof.
  induction l as [|a l IH]; intros [|b l'] H; cbn in *; try reflexivity; try discriminate.
  f_equal. apply IH. congruence.
Qed.

Lemma number_pieces_length : forall ps k, List.length (number_pieces k ps) = List.length ps.
Proof. induction ps as [|p ps IH]; intros k; cbn; [reflexivity|]. rewrite IH. reflexivity. Qed.

Lemma split_fields : forall o smax ds,
  let total := n_stmts ds in
  let pr := pieces o smax (S (N.to_nat total)) total (firstn (n_defs ds - 1) (tl (indexed ds))) in
  l_pieces (split o smax ds) = fst pr /\ l_rest (split o smax ds) = snd pr /\
  l_glo (split o smax ds) = skipn (n_defs ds) (indexed ds) /\
  l_over (split o smax ds) = over_smax o smax total /\
  l_elems (split o smax ds) =
    (if over_smax o smax total then [Header] else []) ++ number_pieces 1 (fst pr) ++
    [Main (negb (over_smax o smax total)) (0%nat :: map fst (snd pr) ++ map fst (skipn (n_defs ds) (indexed ds)))].
Proof.
  intros o smax ds total pr. unfold split. fold total. fold pr. destruct pr as [ps rest]. cbn. tauto.
Qed.

(* partition, order preserved: the pieces in order, then what stays in the last part, are exactly the
   definitions 1 .. D-1 in order (definition 0 is the head of the last part) *)
Lemma split_partition : forall o smax ds, init_first ds ->
  concat (l_pieces (split o smax ds)) ++ l_rest (split o smax ds) ++ l_glo (split o smax ds) = tl (indexed ds).
Proof.
  intros o smax ds (b & r & ->).
  destruct (split_fields o smax (Prog b :: r)) as (E1 & E2 & E3 & _). rewrite E1, E2, E3.
  set (ds := Prog b :: r). set (total := n_stmts ds).
  destruct (pieces o smax (S (N.to_nat total)) total (firstn (n_defs ds - 1) (tl (indexed ds)))) as [ps rest] eqn:E.
  cbn [fst snd]. rewrite app_assoc. rewrite (pieces_app _ _ _ _ _ _ _ E).
  assert (ND : exists k, n_defs ds = S k) by (unfold n_defs, ds; cbn; eauto).
  destruct ND as [k ->]. replace (S k - 1)%nat with k by lia.
  unfold ds, indexed. cbn [List.length seq combine tl skipn]. apply firstn_skipn.
Qed.

Lemma split_indices : forall o smax ds, init_first ds ->
  0%nat :: map fst (concat (l_pieces (split o smax ds)) ++ l_rest (split o smax ds) ++ l_glo (split o smax ds))
  = seq 0 (List.length ds).
Proof.
  intros o smax ds H. rewrite (split_partition o smax ds H).
  destruct H as (b & r & ->). unfold indexed. cbn [List.length seq combine tl].
  rewrite map_fst_combine by (rewrite seq_length; reflexivity). reflexivity.
Qed.

(* genc's two notions of `is split` agree exactly when the two comparisons are the same *)
Lemma split_agree : forall o smax ds, loop_cmp o = over_cmp o ->
  (l_pieces (split o smax ds) = [] <-> l_over (split o smax ds) = false).
Proof.
  intros o smax ds H. destruct (split_fields o smax ds) as (E1 & _ & _ & E4 & _). rewrite E1, E4.
  rewrite pieces_nil_iff. unfold over_smax. rewrite H. rewrite andb_comm. tauto.
Qed.

(* and then emit's reading (l > 1) is the same notion, the header element is first, and only it
   goes to the .h file *)
Lemma emit_agree : forall o smax ds, loop_cmp o = over_cmp o -> emit_cmp o = Gt ->
  emit_is_split o (l_elems (split o smax ds)) = l_over (split o smax ds) /\
  (l_over (split o smax ds) = true ->
     exists rest, emit o (l_elems (split o smax ds)) = (HFile, Header) :: rest /\
                  forall e, In (HFile, e) rest -> False) /\
  (l_over (split o smax ds) = false ->
     exists defs, emit o (l_elems (split o smax ds)) = [(CFile 0, Main true defs)]).
Proof.
  intros o smax ds H HE. pose proof (split_agree o smax ds H) as A.
  destruct (split_fields o smax ds) as (E1 & _ & _ & E4 & E5).
  rewrite E4 in *. rewrite E1 in A. rewrite E5. clear E1 E4 E5.
  set (total := n_stmts ds) in *.
  set (pr := pieces o smax (S (N.to_nat total)) total (firstn (n_defs ds - 1) (tl (indexed ds)))) in *.
  assert (NF : forall i es e, In (HFile, e) (emit_from (S i) es) -> False).
  { intros i es. revert i. induction es as [|x es IH]; intros i e Hin; cbn in Hin; [exact Hin|].
    destruct Hin as [Hin|Hin]; [discriminate|]. exact (IH _ _ Hin). }
  destruct (over_smax o smax total) eqn:OV.
  - assert (S1 : emit_is_split o ([Header] ++ number_pieces 1 (fst pr) ++
              [Main (negb true) (0%nat :: map fst (snd pr) ++ map fst (skipn (n_defs ds) (indexed ds)))]) = true).
    { unfold emit_is_split. rewrite HE. cbn [test]. rewrite !app_length. cbn [List.length]. lia. }
    split; [exact S1|]. split; [|discriminate]. intros _.
    unfold emit. rewrite S1. cbn [app emit_from]. eexists. split; [reflexivity|].
    intros e Hin. exact (NF _ _ _ Hin).
  - assert (P : fst pr = []) by (apply A; reflexivity). rewrite P. cbn [number_pieces app negb].
    assert (S0 : emit_is_split o [Main true (0%nat :: map fst (snd pr) ++ map fst (skipn (n_defs ds) (indexed ds)))] = false).
    { unfold emit_is_split. rewrite HE. reflexivity. }
    split; [exact S0|]. split; [discriminate|]. intros _. unfold emit. rewrite S0. eexists. reflexivity.
Qed.

(* the intended limit: inside a piece, everything before its last definition stays under the limit *)
Lemma split_limit : forall o smax ds p, In p (l_pieces (split o smax ds)) ->
  forall q x t, p = q ++ x :: t -> ltest (inner_cmp o) (sum_cost q) smax = true.
Proof.
  intros o smax ds p Hin. destruct (split_fields o smax ds) as (E1 & _). rewrite E1 in Hin.
  set (total := n_stmts ds) in *.
  destruct (pieces o smax (S (N.to_nat total)) total (firstn (n_defs ds - 1) (tl (indexed ds)))) as [ps rest] eqn:E.
  cbn [fst] in Hin. exact (pieces_limit o smax _ _ _ _ _ E p Hin).
Qed.

(* how many pieces: with `>` it is (nStmts - 1) / smax, i.e. ceil(nStmts/smax) - 1 *)
Lemma split_count : forall o smax ds, loop_cmp o = Gt -> 0 < smax ->
  List.length (l_pieces (split o smax ds)) = N.to_nat ((n_stmts ds - 1) / smax).
Proof.
  intros o smax ds H Hs. destruct (split_fields o smax ds) as (E1 & _). rewrite E1.
  apply pieces_count_gt; [exact H|exact Hs|lia].
Qed.
