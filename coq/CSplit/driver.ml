(* C16 split driver: one line "smax d1 d2 ..." (di = body size of a Prog, or "o" for another
   definition) -> the files emitTheC writes and which definitions land in each, per the extracted
   model.  Only conversions between OCaml ints/text and the extracted types. *)
open Csplit

let rec pos_of_int (i : int) : positive =
  if i = 1 then XH else if i land 1 = 0 then XO (pos_of_int (i lsr 1)) else XI (pos_of_int (i lsr 1))
let n_of_int (i : int) : n = if i <= 0 then N0 else Npos (pos_of_int i)
let rec int_of_pos (p : positive) : int =
  match p with XH -> 1 | XO q -> 2 * int_of_pos q | XI q -> 2 * int_of_pos q + 1
let int_of_n (x : n) : int = match x with N0 -> 0 | Npos p -> int_of_pos p
let rec int_of_nat (x : nat) : int = match x with O -> 0 | S y -> 1 + int_of_nat y

let ints l = String.concat "," (List.map (fun x -> string_of_int (int_of_nat x)) l)
let show_elem e = match e with
  | Header -> "H"
  | Piece (k, ds) -> Printf.sprintf "P%d:%s" (int_of_nat k) (ints ds)
  | Main (h, ds) -> Printf.sprintf "M%d:%s" (if h then 1 else 0) (ints ds)
let show_file f = match f with HFile -> "h" | CFile k -> Printf.sprintf "c%d" (int_of_nat k)

let () =
  try
    while true do
      let line = input_line stdin in
      let f = List.filter (fun x -> x <> "") (String.split_on_char ' ' line) in
      let out =
        try
          match f with
          | smax :: ds ->
              let defs = List.map (fun d -> if d = "o" then Other else Prog (n_of_int (int_of_string d))) ds in
              let lay = x_split (n_of_int (int_of_string smax)) defs in
              let files = x_emit lay.l_elems in
              Printf.sprintf "T=%d over=%d | %s" (int_of_n (x_n_stmts defs)) (if lay.l_over then 1 else 0)
                (String.concat " | " (List.map (fun (fl, e) -> show_file fl ^ "=" ^ show_elem e) files))
          | _ -> "?"
        with _ -> "?" in
      print_endline out
    done
  with End_of_file -> ()
