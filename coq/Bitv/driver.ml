(* C20/bitv model driver: same line syntax as harness/bitv/h.c; results come from the extracted
   definitions (Bitv_model); the driver parses, converts numerals (bit by bit), prints. *)
open Bitv_model

let rec nat_of_int n = if n <= 0 then O else S (nat_of_int (n - 1))
let rec int_of_nat = function O -> 0 | S n -> 1 + int_of_nat n

let rec pos_of_int n = if n = 1 then XH else if n land 1 = 0 then XO (pos_of_int (n lsr 1)) else XI (pos_of_int (n lsr 1))
let z_of_int n = if n = 0 then Z0 else if n > 0 then Zpos (pos_of_int n) else Zneg (pos_of_int (- n))
let rec int_of_pos = function XH -> 1 | XO p -> 2 * int_of_pos p | XI p -> 2 * int_of_pos p + 1
let int_of_z = function Z0 -> 0 | Zpos p -> int_of_pos p | Zneg p -> - (int_of_pos p)

(* hex <-> Z through the list of bits, least significant first *)
let bits_of_hex (s : string) : bool list =
  let l = ref [] in
  String.iter (fun ch ->
    let d = match ch with
      | '0'..'9' -> Char.code ch - 48 | 'a'..'f' -> Char.code ch - 87 | 'A'..'F' -> Char.code ch - 55
      | _ -> failwith "hex" in
    (* most significant digit first: prepend its bits so the final list is lsb first *)
    l := (d land 1 = 1) :: (d land 2 = 2) :: (d land 4 = 4) :: (d land 8 = 8) :: !l) s;
  !l
let rec pos_of_bits = function          (* lsb first, must contain a true *)
  | [] -> None
  | b :: t -> (match pos_of_bits t with
               | None -> if b then Some XH else None
               | Some p -> Some (if b then XI p else XO p))
let z_of_hex s = match pos_of_bits (bits_of_hex s) with None -> Z0 | Some p -> Zpos p
let rec bits_of_pos = function XH -> [true] | XO p -> false :: bits_of_pos p | XI p -> true :: bits_of_pos p
let hex_of_z z =
  match z with
  | Z0 -> "0"
  | Zneg _ -> "NEG"
  | Zpos p ->
      let bs = Array.of_list (bits_of_pos p) in
      let n = Array.length bs in
      let nd = (n + 3) / 4 in
      let b = Buffer.create nd in
      for d = nd - 1 downto 0 do
        let v = ref 0 in
        for k = 3 downto 0 do
          let i = 4 * d + k in
          v := 2 * !v + (if i < n && bs.(i) then 1 else 0)
        done;
        Buffer.add_char b "0123456789abcdef".[!v]
      done;
      Buffer.contents b

let cls = ref (bitvClassCreate O)
let reg : z list array = Array.make 8 []

let raw v = if v = [] then "-" else String.concat " " (List.map hex_of_z v)
let bitstr l = if l = [] then "-" else String.concat "" (List.map (fun b -> if b then "1" else "0") l)
let rec firstn n l = if n <= 0 then [] else match l with [] -> [] | x :: t -> x :: firstn (n - 1) t
let zeros n = List.init n (fun _ -> Z0)

let doline line =
  let toks = List.filter (fun s -> s <> "") (String.split_on_char ' ' (String.trim line)) in
  let i k = int_of_string (List.nth toks k) in
  let r k = reg.(i k) in
  let c = !cls in
  match List.hd toks with
  | "class" -> Array.fill reg 0 8 []; cls := bitvClassCreate (nat_of_int (i 1)); string_of_int (int_of_nat !cls.nwords)
  | "new" ->
      let nw = int_of_nat c.nwords in
      let ws = List.map z_of_hex (List.tl (List.tl toks)) in
      let ws = firstn nw (ws @ zeros nw) in
      reg.(i 1) <- ws; raw ws
  | "setall" -> reg.(i 1) <- bitvSetAll c (r 1); raw (r 1)
  | "clearall" -> reg.(i 1) <- bitvClearAll c (r 1); raw (r 1)
  | "set" -> reg.(i 1) <- bitvSet c (r 1) (nat_of_int (i 2)); raw (r 1)
  | "clear" -> reg.(i 1) <- bitvClear c (r 1) (nat_of_int (i 2)); raw (r 1)
  | "copy" -> reg.(i 1) <- bitvCopy c (r 2); raw (r 1)
  | "not" -> reg.(i 1) <- bitvNot c (r 2); raw (r 1)
  | "and" -> reg.(i 1) <- bitvAnd c (r 2) (r 3); raw (r 1)
  | "or" -> reg.(i 1) <- bitvOr c (r 2) (r 3); raw (r 1)
  | "minus" -> reg.(i 1) <- bitvMinus c (r 2) (r 3); raw (r 1)
  | "test" -> if bitvTest c (r 1) (nat_of_int (i 2)) then "1" else "0"
  | "equal" -> if bitvEqual c (r 1) (r 2) then "1" else "0"
  | "max" -> string_of_int (int_of_z (bitvMax c (r 1)))
  | "count" -> string_of_int (int_of_nat (bitvCount c (r 1)))
  | "countto" -> string_of_int (int_of_nat (bitvCountTo c (r 1) (nat_of_int (i 2))))
  | "unique" -> string_of_int (int_of_z (bitvUnique1IndexInRange c (r 1) (nat_of_int (i 2)) (nat_of_int (i 3))))
  | "toint" -> string_of_int (int_of_z (bitvToInt c (r 1)))
  | "tostring" ->
      let txt l = String.concat "" (List.map (function PLbr -> "[" | PRbr -> "]" | PZero -> "0" | POne -> "1" | PSpace -> " ") l) in
      let (pt, cc) = bitvPrint c (r 1) in
      txt (bitvToString c (r 1)) ^ "|" ^ txt pt ^ "|" ^ string_of_int (int_of_nat cc)
  | "fromint" ->
      reg.(i 1) <- bitvFromInt c (zeros (int_of_nat c.nwords)) (z_of_int (i 2));
      bitstr (bits c (r 1))
  | "bits" -> bitstr (bits c (r 1))
  | "resize" ->
      let newc = bitvClassCreate (nat_of_int (i 2)) in
      let keep = min (int_of_nat c.nbits) (i 2) in
      let nv = bitvResize newc c (zeros (int_of_nat newc.nwords)) (r 1) in
      let k = i 1 in
      Array.fill reg 0 8 []; reg.(k) <- nv; cls := newc;
      bitstr (firstn keep (bits newc nv))
  | "manynew" ->
      let n = i 1 in
      if n = 0 then "-"
      else String.concat " " (List.init n (fun _ -> bitstr (bits c (bitvClearAll c (zeros (int_of_nat c.nwords))))))
  | _ -> failwith ("bad line " ^ line)

let () =
  try
    while true do
      let line = input_line stdin in
      if String.length line > 0 && line.[0] <> '#' then print_endline (doline line)
    done
  with End_of_file -> ()
