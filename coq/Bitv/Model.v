(* Model of /repo/aldor/aldor/src/bitv.c (bit vectors as arrays of 64-bit words whose length
   lives in a separate BitvClass), function for function.  Definitions only.

   Representation
     BitvWord (ULong, 64 bit)     Z in [0, 2^64)            (wrap-around written explicitly)
     Bitv                         list Z  (nwords words)
     struct _BitvClass            record { nbits : nat; nwords : nat }
   bit ix of a vector is bit (ix mod 64) of word (ix / 64).  The bits of the last word at
   positions >= nbits mod 64 are "unused": bitvNot and bitvSetAll fill them with ones, and
   every reader (bitvTest callers, bitvEqual's mask) must ignore them.
   C facts made explicit: `1L << k` for k = 63 is the sign bit and converts to 2^63 in the
   unsigned word; `~w` on a word is 2^64-1-w; `(~0UL) << r` drops the high bits.
   Not represented: storage (bitvNew leaves the words uninitialised: a fresh vector is ANY
   list of nwords words, theorems quantify over it), bitvManyNew's single-block layout,
   bitvPrint/bitvToString text, bitvFree.  bitvResize is modelled at the value level only (which
   pointer it hands to bitvFree is storage behaviour: the harness notices a wrong one as a crash). *)

Require Import ZArith List Bool.
Import ListNotations.
Local Open Scope Z_scope.

Definition BpW : nat := 64.
Definition word := Z.
Definition bitv := list word.
Record bclass := mkClass { nbits : nat; nwords : nat }.

Definition ones64 : Z := Z.ones 64.
Definition wrap64 (x : Z) : Z := Z.land x ones64.           (* conversion to unsigned long *)
Definition wnot (w : word) : word := wrap64 (Z.lnot w).      (* ~w on a 64-bit word *)

(* QUO_ROUND_UP(n,d) = n % d ? n/d + 1 : n/d *)
Definition quoRoundUp (n d : nat) : nat :=
  if Nat.eqb (Nat.modulo n d) 0 then Nat.div n d else (Nat.div n d + 1)%nat.

Definition bitvClassCreate (n : nat) : bclass := mkClass n (quoRoundUp n BpW).

(* word i of a vector; reading outside the vector is outside the C's contract *)
Definition wd (v : bitv) (i : nat) : word := nth i v 0.

Fixpoint updw (v : bitv) (i : nat) (w : word) : bitv :=
  match v with
  | [] => []
  | x :: t => match i with O => w :: t | S i' => x :: updw t i' w end
  end.

(* the mask of bit ix inside its word: (1L << (ix % BpW)) seen as an unsigned word *)
Definition bitmask (ix : nat) : word := wrap64 (Z.shiftl 1 (Z.of_nat (Nat.modulo ix BpW))).

(* ---- element operations (the C asserts ix < nbits) ---- *)
Definition bitvTest (c : bclass) (r : bitv) (ix : nat) : bool :=
  negb (Z.land (wd r (Nat.div ix BpW)) (bitmask ix) =? 0).
Definition bitvSet (c : bclass) (r : bitv) (ix : nat) : bitv :=
  updw r (Nat.div ix BpW) (Z.lor (wd r (Nat.div ix BpW)) (bitmask ix)).
Definition bitvClear (c : bclass) (r : bitv) (ix : nat) : bitv :=
  updw r (Nat.div ix BpW) (Z.land (wd r (Nat.div ix BpW)) (wnot (bitmask ix))).

(* ---- whole-vector operations: loops over the first nwords words ---- *)
Definition bitvSetAll (c : bclass) (r : bitv) : bitv := repeat ones64 (nwords c) ++ skipn (nwords c) r.
Definition bitvClearAll (c : bclass) (r : bitv) : bitv := repeat 0 (nwords c) ++ skipn (nwords c) r.

Fixpoint map1w (f : word -> word) (n : nat) (a : bitv) : bitv :=
  match n with
  | O => []
  | S n' => f (wd a 0) :: map1w f n' (tl a)
  end.
Fixpoint map2w (f : word -> word -> word) (n : nat) (a b : bitv) : bitv :=
  match n with
  | O => []
  | S n' => f (wd a 0) (wd b 0) :: map2w f n' (tl a) (tl b)
  end.

(* the result words r[0..nwords-1]; `r` itself only contributes what lies beyond (nothing, for
   vectors of the class) *)
Definition bitvCopy (c : bclass) (a : bitv) : bitv := map1w (fun x => x) (nwords c) a.
Definition bitvNot (c : bclass) (a : bitv) : bitv := map1w wnot (nwords c) a.
Definition bitvAnd (c : bclass) (a b : bitv) : bitv := map2w Z.land (nwords c) a b.
Definition bitvOr (c : bclass) (a b : bitv) : bitv := map2w Z.lor (nwords c) a b.
Definition bitvMinus (c : bclass) (a b : bitv) : bitv := map2w (fun x y => Z.land x (wnot y)) (nwords c) a b.

(* ---- bitvEqual ---- *)
Fixpoint eqPrefix (n : nat) (a b : bitv) : bool :=       (* for (i = 0; i < nwords-1; i++) *)
  match n with
  | O => true
  | S n' => if wd a 0 =? wd b 0 then eqPrefix n' (tl a) (tl b) else false
  end.

Definition lastMask (c : bclass) : word :=               (* ~((~0UL) << (nbits % BpW)) *)
  wnot (wrap64 (Z.shiftl ones64 (Z.of_nat (Nat.modulo (nbits c) BpW)))).

Definition bitvEqual (c : bclass) (a b : bitv) : bool :=
  if Nat.eqb (nwords c) 0 then true
  else if negb (eqPrefix (nwords c - 1) a b) then false
  else
    let la := wd a (nwords c - 1) in let lb := wd b (nwords c - 1) in
    if Nat.eqb (Nat.modulo (nbits c) BpW) 0 then la =? lb
    else Z.land la (lastMask c) =? Z.land lb (lastMask c).

(* ---- counting and searching: loops over bit indices through bitvTest ---- *)
(* bitvMax: for (i = nbits-1; i >= 0; i--) if test return i; return -1   (result as Z) *)
Fixpoint maxLoop (c : bclass) (bv : bitv) (n : nat) : Z :=
  match n with
  | O => -1
  | S i => if bitvTest c bv i then Z.of_nat i else maxLoop c bv i
  end.
Definition bitvMax (c : bclass) (bv : bitv) : Z := maxLoop c bv (nbits c).

Fixpoint countLoop (c : bclass) (bv : bitv) (n : nat) : nat :=     (* bits 0..n-1 *)
  match n with
  | O => O
  | S i => (countLoop c bv i + if bitvTest c bv i then 1 else 0)%nat
  end.
Definition bitvCount (c : bclass) (bv : bitv) : nat := countLoop c bv (nbits c).
Definition bitvCountTo (c : bclass) (bv : bitv) (n : nat) : nat := countLoop c bv n.

(* bitvUnique1IndexInRange: scan org..lim-1; -1 unless exactly one bit is set, else its index *)
Fixpoint uniqueLoop (c : bclass) (bv : bitv) (i cnt : nat) (n1s : nat) (last1 : Z) : Z :=
  match cnt with
  | O => if Nat.eqb n1s 1 then last1 else -1
  | S cnt' =>
      if bitvTest c bv i
      then (if Nat.ltb 1 (n1s + 1) then -1 else uniqueLoop c bv (S i) cnt' (n1s + 1) (Z.of_nat i))
      else uniqueLoop c bv (S i) cnt' n1s last1
  end.
Definition bitvUnique1IndexInRange (c : bclass) (bv : bitv) (org lim : nat) : Z :=
  uniqueLoop c bv org (lim - org) 0 (-1).

(* bitvFromInt / bitvToInt (the C asserts nbits < 32; n is an int given here by its 32 bits) *)
Fixpoint fromIntLoop (c : bclass) (bv : bitv) (n : Z) (i cnt : nat) : bitv :=
  match cnt with
  | O => bv
  | S cnt' =>
      let bv' := if Z.testbit n (Z.of_nat i) then bitvSet c bv i else bitvClear c bv i in
      fromIntLoop c bv' n (S i) cnt'
  end.
Definition bitvFromInt (c : bclass) (fresh : bitv) (n : Z) : bitv := fromIntLoop c fresh n 0 (nbits c).

Fixpoint toIntLoop (c : bclass) (bv : bitv) (n : nat) : Z :=
  match n with
  | O => 0
  | S i => Z.lor (toIntLoop c bv i) (if bitvTest c bv i then Z.shiftl 1 (Z.of_nat i) else 0)
  end.
Definition bitvToInt (c : bclass) (bv : bitv) : Z := toIntLoop c bv (nbits c).

(* bitvResize(newc, oldc, b): same vector when it is large enough, else a fresh vector whose first
   oldc->nwords words are copied (the rest keep whatever the fresh storage held) *)
Definition bitvResize (newc oldc : bclass) (fresh b : bitv) : bitv :=
  if Nat.leb (nwords newc) (nwords oldc) then b
  else firstn (nwords oldc) b ++ skipn (nwords oldc) fresh.

(* bitvPrint / bitvToString: "[" then, for i = 0..nbits-1, the digit of bitvTest(i) followed by a space when
   i % 5 == 4, then "]".  The text is a list over the five characters the printers can produce.  bitvPrint
   writes the same characters to a FILE and returns the sum of the fprintf results (= their number). *)
Inductive pch := PLbr | PRbr | PZero | POne | PSpace.
Fixpoint printLoop (c : bclass) (a : bitv) (i cnt : nat) : list pch :=
  match cnt with
  | O => []
  | S k => (if bitvTest c a i then POne else PZero)
           :: (if Nat.eqb (Nat.modulo i 5) 4 then [PSpace] else []) ++ printLoop c a (S i) k
  end.
Definition bitvToString (c : bclass) (a : bitv) : list pch := PLbr :: printLoop c a 0 (nbits c) ++ [PRbr].
Definition bitvPrint (c : bclass) (a : bitv) : list pch * nat :=
  let s := PLbr :: printLoop c a 0 (nbits c) ++ [PRbr] in (s, length s).
(* reading a printed text back: the digits, in order *)
Fixpoint unprint (s : list pch) : list bool :=
  match s with
  | [] => []
  | POne :: t => true :: unprint t
  | PZero :: t => false :: unprint t
  | _ :: t => unprint t
  end.

(* ---- abstraction: the set as a list of booleans ---- *)
Definition bits (c : bclass) (v : bitv) : list bool := map (bitvTest c v) (seq 0 (nbits c)).

Definition wordOk (w : word) : Prop := 0 <= w < 2 ^ 64.
Definition wfv (c : bclass) (v : bitv) : Prop := length v = nwords c /\ Forall wordOk v.
Definition wfc (c : bclass) : Prop := nwords c = quoRoundUp (nbits c) BpW.

Definition wfvb (c : bclass) (v : bitv) : bool :=
  Nat.eqb (length v) (nwords c) && forallb (fun w => (0 <=? w) && (w <? 2 ^ 64)) v.
