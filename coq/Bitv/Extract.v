Require Import ExtrOcamlBasic.
Require Import AV.Bitv.Model.
Extraction "Bitv/extracted/bitv_model.ml"
  bitvClassCreate bitvTest bitvSet bitvClear bitvSetAll bitvClearAll bitvCopy bitvNot bitvAnd bitvOr
  bitvMinus bitvEqual bitvMax bitvCount bitvCountTo bitvUnique1IndexInRange bitvFromInt bitvToInt
  bitvResize bits wfvb bitvToString bitvPrint.
