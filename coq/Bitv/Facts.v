(* Lemmas about the model of bitv.c. *)
Require Import ZArith List Bool Lia Arith.
Require Import ZifyBool ZifyNat.
Import ListNotations.
Require Import AV.Bitv.Model.
Local Open Scope Z_scope.
Ltac Zify.zify_post_hook ::= Z.div_mod_to_equations.

(* ------------------------------------------------------------------ 64-bit words *)
Definition wok (w : word) : Prop := wrap64 w = w.

Lemma two64 : 2 ^ 64 = 18446744073709551616. Proof. reflexivity. Qed.

Lemma wrap64_mod : forall x, wrap64 x = x mod 2 ^ 64.
Proof. intros. unfold wrap64, ones64. apply Z.land_ones. lia. Qed.

Lemma wok_iff : forall w, wok w <-> wordOk w.
Proof.
  intros w. unfold wok, wordOk. rewrite wrap64_mod, two64. split; intros H; lia.
Qed.

Lemma wrap64_wok : forall x, wok (wrap64 x).
Proof.
  intros. unfold wok, wrap64. rewrite <- Z.land_assoc. now rewrite Z.land_diag.
Qed.

Lemma wok_land_l : forall a b, wok a -> wok (Z.land a b).
Proof.
  intros a b H. unfold wok, wrap64 in *.
  rewrite (Z.land_comm a b), <- Z.land_assoc, H. reflexivity.
Qed.

Lemma wok_lor : forall a b, wok a -> wok b -> wok (Z.lor a b).
Proof.
  intros a b Ha Hb. unfold wok, wrap64 in *. rewrite Z.land_lor_distr_l. now rewrite Ha, Hb.
Qed.

Lemma wok_wnot : forall w, wok (wnot w).
Proof. intros. apply wrap64_wok. Qed.

Lemma wok_ones : wok ones64. Proof. reflexivity. Qed.
Lemma wok_0 : wok 0. Proof. reflexivity. Qed.

Lemma wok_high : forall w k, wok w -> 64 <= k -> Z.testbit w k = false.
Proof.
  intros w k H Hk. rewrite <- H. unfold wrap64, ones64. rewrite Z.land_spec.
  rewrite Z.ones_spec_high by lia. apply andb_false_r.
Qed.

Lemma wnot_spec : forall w k, 0 <= k < 64 -> Z.testbit (wnot w) k = negb (Z.testbit w k).
Proof.
  intros w k Hk. unfold wnot, wrap64, ones64. rewrite Z.land_spec, Z.lnot_spec by lia.
  rewrite Z.ones_spec_low by lia. apply andb_true_r.
Qed.

Lemma word_ext : forall a b, wok a -> wok b ->
  (forall k, 0 <= k < 64 -> Z.testbit a k = Z.testbit b k) -> a = b.
Proof.
  intros a b Ha Hb H. apply Z.bits_inj'. intros k Hk.
  destruct (Z_lt_ge_dec k 64) as [L|G]; [apply H; lia|].
  now rewrite (wok_high a k Ha), (wok_high b k Hb) by lia.
Qed.

Lemma bitmask_eq : forall ix, bitmask ix = 2 ^ Z.of_nat (Nat.modulo ix BpW).
Proof.
  intros ix. unfold bitmask. rewrite Z.shiftl_1_l, wrap64_mod.
  assert (H : (Nat.modulo ix BpW < 64)%nat) by (apply Nat.mod_upper_bound; discriminate).
  apply Z.mod_small. split; [apply Z.pow_nonneg; lia|]. apply Z.pow_lt_mono_r; lia.
Qed.

Lemma land_pow2_test : forall w k, 0 <= k -> (Z.land w (2 ^ k) =? 0) = negb (Z.testbit w k).
Proof.
  intros w k Hk. destruct (Z.testbit w k) eqn:T; cbn [negb].
  - apply Z.eqb_neq. intros E.
    assert (F : Z.testbit (Z.land w (2 ^ k)) k = true).
    { rewrite Z.land_spec, T, Z.pow2_bits_true by lia. reflexivity. }
    rewrite E in F. now rewrite Z.bits_0 in F.
  - apply Z.eqb_eq. apply Z.bits_inj'. intros j Hj.
    rewrite Z.land_spec, Z.bits_0. destruct (Z.eq_dec j k) as [->|N].
    + now rewrite T.
    + rewrite Z.pow2_bits_false by lia. apply andb_false_r.
Qed.

(* ------------------------------------------------------------------ bitvTest *)
Definition bitOf (v : bitv) (ix : nat) : bool :=
  Z.testbit (wd v (Nat.div ix BpW)) (Z.of_nat (Nat.modulo ix BpW)).

Lemma test_bitOf : forall c v ix, bitvTest c v ix = bitOf v ix.
Proof.
  intros. unfold bitvTest, bitOf. rewrite bitmask_eq, land_pow2_test by lia. apply negb_involutive.
Qed.

Lemma mod64_lt : forall ix, (Nat.modulo ix BpW < 64)%nat.
Proof. intros. apply Nat.mod_upper_bound. discriminate. Qed.

(* ------------------------------------------------------------------ arrays of words *)
Lemma wd_tl : forall v i, wd (tl v) i = wd v (S i).
Proof. intros v i. unfold wd. destruct v as [|x t]; [destruct i|]; reflexivity. Qed.

Lemma updw_length : forall v i w, length (updw v i w) = length v.
Proof. induction v as [|x t IH]; intros [|i] w; cbn; auto. Qed.

Lemma wd_updw_same : forall v i w, (i < length v)%nat -> wd (updw v i w) i = w.
Proof.
  unfold wd. induction v as [|x t IH]; intros [|i] w H; cbn in *; try lia.
  apply IH. lia.
Qed.

Lemma wd_updw_other : forall v i k w, k <> i -> wd (updw v i w) k = wd v k.
Proof.
  unfold wd. induction v as [|x t IH]; intros [|i] [|k] w H; cbn; try reflexivity; try lia.
  apply IH. lia.
Qed.

Definition allok (v : bitv) : Prop := Forall wok v.

Lemma allok_wd : forall v i, allok v -> wok (wd v i).
Proof.
  intros v i H. unfold wd. destruct (Nat.lt_ge_cases i (length v)) as [L|G].
  - unfold allok in H. rewrite Forall_forall in H. apply H. now apply nth_In.
  - rewrite nth_overflow by lia. apply wok_0.
Qed.

Lemma allok_updw : forall v i w, allok v -> wok w -> allok (updw v i w).
Proof.
  induction v as [|x t IH]; intros i w H Hw; cbn; [constructor|].
  inversion H as [|? ? Hx Ht]; subst. destruct i; constructor; auto. now apply IH.
Qed.

Lemma wfv_allok : forall c v, wfv c v <-> length v = nwords c /\ allok v.
Proof.
  intros c v. unfold wfv, allok. split; intros [L F]; (split; [exact L|]);
    rewrite Forall_forall in *; intros w Hw; apply wok_iff; now apply F.
Qed.

Lemma map1w_length : forall f n a, length (map1w f n a) = n.
Proof. induction n; intros; cbn; auto. Qed.
Lemma map2w_length : forall f n a b, length (map2w f n a b) = n.
Proof. induction n; intros; cbn; auto. Qed.

Lemma wd_map1w : forall f n a i, (i < n)%nat -> wd (map1w f n a) i = f (wd a i).
Proof.
  induction n as [|n IH]; intros a i H; [lia|]. destruct i as [|i]; [reflexivity|].
  change (wd (map1w f (S n) a) (S i)) with (wd (map1w f n (tl a)) i).
  rewrite IH by lia. now rewrite wd_tl.
Qed.

Lemma wd_map2w : forall f n a b i, (i < n)%nat -> wd (map2w f n a b) i = f (wd a i) (wd b i).
Proof.
  induction n as [|n IH]; intros a b i H; [lia|]. destruct i as [|i]; [reflexivity|].
  change (wd (map2w f (S n) a b) (S i)) with (wd (map2w f n (tl a) (tl b)) i).
  rewrite IH by lia. now rewrite !wd_tl.
Qed.

Lemma allok_map1w : forall f n a, (forall w, wok (f w)) -> allok (map1w f n a).
Proof. induction n; intros; cbn; constructor; auto. apply IHn; auto. Qed.

Lemma allok_map2w : forall f n a b, allok a -> allok b ->
  (forall x y, wok x -> wok y -> wok (f x y)) -> allok (map2w f n a b).
Proof.
  induction n as [|n IH]; intros a b Ha Hb Hf; cbn; constructor.
  - apply Hf; now apply allok_wd.
  - apply IH; auto; [destruct a | destruct b]; cbn; try constructor;
      match goal with H : allok (_ :: _) |- _ => now inversion H end.
Qed.

Lemma map1w_id : forall n a, length a = n -> map1w (fun x => x) n a = a.
Proof.
  induction n as [|n IH]; intros a H; destruct a as [|x t]; try discriminate; [reflexivity|].
  cbn. f_equal. apply IH. cbn in H. lia.
Qed.

(* ------------------------------------------------------------------ classes *)
Lemma class_words : forall c, wfc c ->
  (nbits c <= 64 * nwords c)%nat /\ (64 * nwords c < nbits c + 64)%nat.
Proof.
  intros c H. unfold wfc, quoRoundUp, BpW in H.
  destruct (Nat.eqb (Nat.modulo (nbits c) 64) 0) eqn:E; lia.
Qed.

Lemma ix_word : forall c ix, wfc c -> (ix < nbits c)%nat -> (Nat.div ix BpW < nwords c)%nat.
Proof. intros c ix H Hix. pose proof (class_words c H). unfold BpW. lia. Qed.

(* ------------------------------------------------------------------ set / clear *)
Lemma bitOf_updw : forall v i w k, (i < length v)%nat ->
  bitOf (updw v i w) k =
  if Nat.eqb (Nat.div k BpW) i then Z.testbit w (Z.of_nat (Nat.modulo k BpW)) else bitOf v k.
Proof.
  intros v i w k Hi. unfold bitOf. destruct (Nat.eqb (Nat.div k BpW) i) eqn:E.
  - apply Nat.eqb_eq in E. rewrite E. now rewrite wd_updw_same.
  - apply Nat.eqb_neq in E. now rewrite wd_updw_other.
Qed.

Lemma set_spec : forall c r ix k, wfc c -> length r = nwords c -> (ix < nbits c)%nat ->
  bitvTest c (bitvSet c r ix) k = if Nat.eqb k ix then true else bitvTest c r k.
Proof.
  intros c r ix k Hc L Hix. rewrite !test_bitOf. unfold bitvSet.
  rewrite bitOf_updw by (rewrite L; now apply ix_word).
  destruct (Nat.eqb (Nat.div k BpW) (Nat.div ix BpW)) eqn:E.
  - apply Nat.eqb_eq in E. rewrite Z.lor_spec, bitmask_eq.
    pose proof (mod64_lt k). pose proof (mod64_lt ix).
    destruct (Nat.eqb k ix) eqn:Ek.
    + apply Nat.eqb_eq in Ek. subst k. rewrite Z.pow2_bits_true by lia. apply orb_true_r.
    + apply Nat.eqb_neq in Ek. rewrite Z.pow2_bits_false; [|unfold BpW in *; lia].
      rewrite orb_false_r. unfold bitOf. now rewrite E.
  - apply Nat.eqb_neq in E. destruct (Nat.eqb k ix) eqn:Ek; [|reflexivity].
    apply Nat.eqb_eq in Ek. subst k. contradiction.
Qed.

Lemma clear_spec : forall c r ix k, wfc c -> length r = nwords c -> (ix < nbits c)%nat ->
  bitvTest c (bitvClear c r ix) k = if Nat.eqb k ix then false else bitvTest c r k.
Proof.
  intros c r ix k Hc L Hix. rewrite !test_bitOf. unfold bitvClear.
  rewrite bitOf_updw by (rewrite L; now apply ix_word).
  destruct (Nat.eqb (Nat.div k BpW) (Nat.div ix BpW)) eqn:E.
  - apply Nat.eqb_eq in E. pose proof (mod64_lt k). pose proof (mod64_lt ix).
    rewrite Z.land_spec, wnot_spec, bitmask_eq by lia.
    destruct (Nat.eqb k ix) eqn:Ek.
    + apply Nat.eqb_eq in Ek. subst k. rewrite Z.pow2_bits_true by lia. apply andb_false_r.
    + apply Nat.eqb_neq in Ek. rewrite Z.pow2_bits_false; [|unfold BpW in *; lia].
      cbn [negb]. rewrite andb_true_r. unfold bitOf. now rewrite E.
  - apply Nat.eqb_neq in E. destruct (Nat.eqb k ix) eqn:Ek; [|reflexivity].
    apply Nat.eqb_eq in Ek. subst k. contradiction.
Qed.

Lemma set_wf : forall c r ix, wfv c r -> wfv c (bitvSet c r ix).
Proof.
  intros c r ix H. apply wfv_allok in H as [L A]. apply wfv_allok. unfold bitvSet.
  split; [now rewrite updw_length|]. apply allok_updw; [exact A|].
  apply wok_lor; [now apply allok_wd | apply wrap64_wok].
Qed.

Lemma clear_wf : forall c r ix, wfv c r -> wfv c (bitvClear c r ix).
Proof.
  intros c r ix H. apply wfv_allok in H as [L A]. apply wfv_allok. unfold bitvClear.
  split; [now rewrite updw_length|]. apply allok_updw; [exact A|].
  apply wok_land_l. now apply allok_wd.
Qed.

(* ------------------------------------------------------------------ and / or / minus / not / copy *)
Section Algebra.
  Variable c : bclass.
  Hypothesis Hc : wfc c.

  Lemma and_spec : forall a b ix, (ix < nbits c)%nat ->
    bitvTest c (bitvAnd c a b) ix = bitvTest c a ix && bitvTest c b ix.
  Proof.
    intros a b ix H. rewrite !test_bitOf. unfold bitOf, bitvAnd.
    rewrite wd_map2w by now apply ix_word. apply Z.land_spec.
  Qed.

  Lemma or_spec : forall a b ix, (ix < nbits c)%nat ->
    bitvTest c (bitvOr c a b) ix = bitvTest c a ix || bitvTest c b ix.
  Proof.
    intros a b ix H. rewrite !test_bitOf. unfold bitOf, bitvOr.
    rewrite wd_map2w by now apply ix_word. apply Z.lor_spec.
  Qed.

  Lemma minus_spec : forall a b ix, (ix < nbits c)%nat ->
    bitvTest c (bitvMinus c a b) ix = bitvTest c a ix && negb (bitvTest c b ix).
  Proof.
    intros a b ix H. rewrite !test_bitOf. unfold bitOf, bitvMinus.
    rewrite wd_map2w by now apply ix_word. pose proof (mod64_lt ix).
    rewrite Z.land_spec, wnot_spec by lia. reflexivity.
  Qed.

  Lemma not_spec : forall a ix, (ix < nbits c)%nat ->
    bitvTest c (bitvNot c a) ix = negb (bitvTest c a ix).
  Proof.
    intros a ix H. rewrite !test_bitOf. unfold bitOf, bitvNot.
    rewrite wd_map1w by now apply ix_word. pose proof (mod64_lt ix). apply wnot_spec. lia.
  Qed.

  Lemma copy_eq : forall a, wfv c a -> bitvCopy c a = a.
  Proof. intros a [L _]. unfold bitvCopy. now apply map1w_id. Qed.

  Lemma and_wf : forall a b, wfv c a -> wfv c b -> wfv c (bitvAnd c a b).
  Proof.
    intros a b Ha Hb. apply wfv_allok in Ha as [La Aa]. apply wfv_allok in Hb as [Lb Ab].
    apply wfv_allok. unfold bitvAnd. split; [apply map2w_length|].
    apply allok_map2w; auto. intros. now apply wok_land_l.
  Qed.
  Lemma or_wf : forall a b, wfv c a -> wfv c b -> wfv c (bitvOr c a b).
  Proof.
    intros a b Ha Hb. apply wfv_allok in Ha as [La Aa]. apply wfv_allok in Hb as [Lb Ab].
    apply wfv_allok. unfold bitvOr. split; [apply map2w_length|].
    apply allok_map2w; auto. intros. now apply wok_lor.
  Qed.
  Lemma minus_wf : forall a b, wfv c a -> wfv c b -> wfv c (bitvMinus c a b).
  Proof.
    intros a b Ha Hb. apply wfv_allok in Ha as [La Aa]. apply wfv_allok in Hb as [Lb Ab].
    apply wfv_allok. unfold bitvMinus. split; [apply map2w_length|].
    apply allok_map2w; auto. intros. now apply wok_land_l.
  Qed.
  Lemma not_wf : forall a, wfv c (bitvNot c a).
  Proof.
    intros a. apply wfv_allok. unfold bitvNot. split; [apply map1w_length|].
    apply allok_map1w. apply wok_wnot.
  Qed.

  (* SetAll / ClearAll *)
  Lemma wd_repeat : forall (w : word) n i, (i < n)%nat -> wd (repeat w n ++ []) i = w.
  Proof.
    intros w n i H. rewrite app_nil_r. unfold wd. revert i H.
    induction n as [|n IH]; intros [|i] H; cbn; try lia; try reflexivity. apply IH. lia.
  Qed.

  Lemma skipn_all_len : forall (r : bitv) n, length r = n -> skipn n r = [].
  Proof. intros r n <-. apply skipn_all. Qed.

  Lemma setAll_spec : forall r ix, length r = nwords c -> (ix < nbits c)%nat ->
    bitvTest c (bitvSetAll c r) ix = true.
  Proof.
    intros r ix L H. rewrite test_bitOf. unfold bitOf, bitvSetAll. rewrite skipn_all_len by exact L.
    rewrite wd_repeat by now apply ix_word. pose proof (mod64_lt ix).
    unfold ones64. apply Z.ones_spec_low. lia.
  Qed.

  Lemma clearAll_spec : forall r ix, length r = nwords c -> (ix < nbits c)%nat ->
    bitvTest c (bitvClearAll c r) ix = false.
  Proof.
    intros r ix L H. rewrite test_bitOf. unfold bitOf, bitvClearAll. rewrite skipn_all_len by exact L.
    rewrite wd_repeat by now apply ix_word. apply Z.bits_0.
  Qed.

  Lemma allok_repeat : forall w n, wok w -> allok (repeat w n).
  Proof. intros w n H. induction n; cbn; constructor; auto. Qed.

  Lemma setAll_wf : forall r, length r = nwords c -> wfv c (bitvSetAll c r).
  Proof.
    intros r L. apply wfv_allok. unfold bitvSetAll. rewrite skipn_all_len by exact L.
    rewrite app_nil_r. split; [apply repeat_length | apply allok_repeat, wok_ones].
  Qed.
  Lemma clearAll_wf : forall r, length r = nwords c -> wfv c (bitvClearAll c r).
  Proof.
    intros r L. apply wfv_allok. unfold bitvClearAll. rewrite skipn_all_len by exact L.
    rewrite app_nil_r. split; [apply repeat_length | apply allok_repeat, wok_0].
  Qed.
End Algebra.

(* ------------------------------------------------------------------ list-of-bool view *)
Definition zipb (f : bool -> bool -> bool) (l1 l2 : list bool) : list bool :=
  map (fun p => f (fst p) (snd p)) (combine l1 l2).

Lemma zipb_map : forall (f : bool -> bool -> bool) (g h : nat -> bool) l,
  zipb f (map g l) (map h l) = map (fun i => f (g i) (h i)) l.
Proof. intros f g h. induction l as [|x t IH]; cbn; [reflexivity|]. unfold zipb in IH. now rewrite IH. Qed.

Lemma bits_ext : forall c v (g : nat -> bool),
  (forall ix, (ix < nbits c)%nat -> bitvTest c v ix = g ix) -> bits c v = map g (seq 0 (nbits c)).
Proof.
  intros c v g H. unfold bits. apply map_ext_in. intros ix Hin. apply in_seq in Hin. apply H. lia.
Qed.

Lemma bits_length : forall c v, length (bits c v) = nbits c.
Proof. intros. unfold bits. now rewrite map_length, seq_length. Qed.

Lemma bits_nth : forall c v ix, (ix < nbits c)%nat -> nth ix (bits c v) false = bitvTest c v ix.
Proof.
  intros c v ix H. unfold bits.
  rewrite (nth_indep _ false (bitvTest c v 0)) by (rewrite map_length, seq_length; exact H).
  rewrite map_nth. now rewrite seq_nth.
Qed.

Lemma bits_eq_iff : forall c a b,
  bits c a = bits c b <-> (forall ix, (ix < nbits c)%nat -> bitvTest c a ix = bitvTest c b ix).
Proof.
  intros c a b. split.
  - intros E ix H. now rewrite <- !bits_nth, E by exact H.
  - intros H. unfold bits. apply map_ext_in. intros ix Hin. apply in_seq in Hin. apply H. lia.
Qed.

Lemma set_algebra : forall c a b, wfc c ->
  bits c (bitvAnd c a b) = zipb andb (bits c a) (bits c b) /\
  bits c (bitvOr c a b) = zipb orb (bits c a) (bits c b) /\
  bits c (bitvMinus c a b) = zipb (fun x y => x && negb y) (bits c a) (bits c b) /\
  bits c (bitvNot c a) = map negb (bits c a).
Proof.
  intros c a b Hc. unfold bits at 2 3 5 6 8 9 11. rewrite !zipb_map, map_map.
  repeat split; apply bits_ext; intros ix H.
  - now apply and_spec. - now apply or_spec. - now apply minus_spec. - now apply not_spec.
Qed.

Lemma set_clear_all : forall c r, wfc c -> length r = nwords c ->
  bits c (bitvSetAll c r) = repeat true (nbits c) /\ bits c (bitvClearAll c r) = repeat false (nbits c).
Proof.
  intros c r Hc L. split.
  - rewrite (bits_ext c _ (fun _ => true)) by (intros; now apply setAll_spec).
    generalize 0%nat. induction (nbits c); intros; cbn; [reflexivity | now rewrite IHn].
  - rewrite (bits_ext c _ (fun _ => false)) by (intros; now apply clearAll_spec).
    generalize 0%nat. induction (nbits c); intros; cbn; [reflexivity | now rewrite IHn].
Qed.

(* ------------------------------------------------------------------ count / max *)
Fixpoint countTrue (l : list bool) : nat :=
  match l with [] => O | b :: t => ((if b then 1 else 0) + countTrue t)%nat end.

Lemma countTrue_app : forall l1 l2, countTrue (l1 ++ l2) = (countTrue l1 + countTrue l2)%nat.
Proof. induction l1 as [|b t IH]; intros; cbn; [reflexivity|]. rewrite IH. lia. Qed.

Lemma countLoop_spec : forall c v n,
  countLoop c v n = countTrue (map (bitvTest c v) (seq 0 n)).
Proof.
  intros c v. induction n as [|n IH]; [reflexivity|].
  rewrite seq_S, map_app, countTrue_app. cbn [countLoop]. rewrite IH. cbn. lia.
Qed.

Lemma count_spec : forall c v, bitvCount c v = countTrue (bits c v).
Proof. intros. unfold bitvCount, bits. apply countLoop_spec. Qed.

Lemma firstn_seq : forall n m, (n <= m)%nat -> firstn n (seq 0 m) = seq 0 n.
Proof.
  intros n m H. replace m with (n + (m - n))%nat by lia. rewrite seq_app.
  rewrite firstn_app, seq_length, Nat.sub_diag. cbn [firstn]. rewrite app_nil_r.
  rewrite firstn_all2; [reflexivity | rewrite seq_length; lia].
Qed.

Lemma countTo_spec : forall c v n, (n <= nbits c)%nat ->
  bitvCountTo c v n = countTrue (firstn n (bits c v)).
Proof.
  intros c v n H. unfold bitvCountTo, bits. rewrite countLoop_spec.
  rewrite firstn_map. now rewrite firstn_seq.
Qed.

Lemma maxLoop_spec : forall c v n,
  (maxLoop c v n = -1 /\ forall i, (i < n)%nat -> bitvTest c v i = false) \/
  (exists m, maxLoop c v n = Z.of_nat m /\ (m < n)%nat /\ bitvTest c v m = true /\
             forall i, (m < i < n)%nat -> bitvTest c v i = false).
Proof.
  intros c v. induction n as [|n IH]; cbn [maxLoop].
  - left. split; [reflexivity | intros; lia].
  - destruct (bitvTest c v n) eqn:T.
    + right. exists n. split; [reflexivity|]. split; [lia|]. split; [exact T|]. intros; lia.
    + destruct IH as [[E A]|(m & E & L & Tm & A)].
      * left. split; [exact E|]. intros i Hi. destruct (Nat.eq_dec i n) as [->|N]; [exact T | apply A; lia].
      * right. exists m. split; [exact E|]. split; [lia|]. split; [exact Tm|].
        intros i Hi. destruct (Nat.eq_dec i n) as [->|N]; [exact T | apply A; lia].
Qed.

Lemma max_spec : forall c v,
  (bitvMax c v = -1 /\ forall i, (i < nbits c)%nat -> bitvTest c v i = false) \/
  (exists m, bitvMax c v = Z.of_nat m /\ (m < nbits c)%nat /\ bitvTest c v m = true /\
             forall i, (m < i < nbits c)%nat -> bitvTest c v i = false).
Proof. intros. apply maxLoop_spec. Qed.

(* ------------------------------------------------------------------ bitvEqual *)
Lemma eqPrefix_spec : forall n a b, eqPrefix n a b = true <-> (forall i, (i < n)%nat -> wd a i = wd b i).
Proof.
  induction n as [|n IH]; intros a b; cbn [eqPrefix].
  - split; [intros _ i Hi; lia | reflexivity].
  - destruct (wd a 0 =? wd b 0) eqn:E.
    + rewrite IH. split.
      * intros H [|i] Hi; [lia|]. rewrite <- !wd_tl. apply H. lia.
      * intros H i Hi. rewrite !wd_tl. apply H. lia.
    + split; [discriminate|]. intros H. specialize (H 0%nat ltac:(lia)). lia.
Qed.

Definition maskOf (r : nat) : word := wnot (wrap64 (Z.shiftl ones64 (Z.of_nat r))).

Lemma maskOf_ones : forall r, (0 < r < 64)%nat -> maskOf r = Z.ones (Z.of_nat r).
Proof.
  assert (H : forallb (fun r => maskOf r =? Z.ones (Z.of_nat r)) (seq 1 63) = true) by (vm_compute; reflexivity).
  rewrite forallb_forall in H. intros r Hr. specialize (H r). rewrite in_seq in H.
  specialize (H ltac:(lia)). lia.
Qed.

Lemma masked_eq_iff : forall x y r, 0 <= r ->
  Z.land x (Z.ones r) = Z.land y (Z.ones r) <-> (forall k, 0 <= k < r -> Z.testbit x k = Z.testbit y k).
Proof.
  intros x y r Hr. split.
  - intros E k Hk. assert (F : Z.testbit (Z.land x (Z.ones r)) k = Z.testbit (Z.land y (Z.ones r)) k) by now rewrite E.
    rewrite !Z.land_spec, Z.ones_spec_low, !andb_true_r in F by lia. exact F.
  - intros H. apply Z.bits_inj'. intros k Hk. rewrite !Z.land_spec.
    destruct (Z_lt_ge_dec k r) as [L|G].
    + now rewrite H by lia.
    + rewrite Z.ones_spec_high by lia. now rewrite !andb_false_r.
Qed.

Lemma wd_eq_bits : forall a b i, allok a -> allok b ->
  (wd a i = wd b i <-> forall k, (k < 64)%nat -> bitOf a (64 * i + k) = bitOf b (64 * i + k)).
Proof.
  intros a b i Aa Ab. unfold bitOf, BpW. split.
  - intros E k Hk. replace (Nat.div (64 * i + k) 64) with i by lia. now rewrite E.
  - intros H. apply word_ext; [now apply allok_wd | now apply allok_wd |].
    intros k Hk. specialize (H (Z.to_nat k) ltac:(lia)).
    replace (Nat.div (64 * i + Z.to_nat k) 64) with i in H by lia.
    replace (Z.of_nat (Nat.modulo (64 * i + Z.to_nat k) 64)) with k in H by lia. exact H.
Qed.

Lemma equal_spec : forall c a b, wfc c -> wfv c a -> wfv c b ->
  (bitvEqual c a b = true <-> bits c a = bits c b).
Proof.
  intros c a b Hc Ha Hb. apply wfv_allok in Ha as [La Aa]. apply wfv_allok in Hb as [Lb Ab].
  rewrite bits_eq_iff. pose proof (class_words c Hc) as [W1 W2].
  unfold bitvEqual. destruct (Nat.eqb (nwords c) 0) eqn:E0.
  { apply Nat.eqb_eq in E0. split; [intros _ ix Hix; lia | reflexivity]. }
  apply Nat.eqb_neq in E0. set (nw := nwords c) in *. set (r := Nat.modulo (nbits c) BpW).
  assert (Hr : (r < 64)%nat) by apply mod64_lt.
  assert (Hnb : nbits c = (64 * (nw - 1) + (if Nat.eqb r 0 then 64 else r))%nat).
  { subst r. unfold BpW in *. destruct (Nat.eqb (Nat.modulo (nbits c) 64) 0) eqn:Er; lia. }
  (* the claim on bits, cut into whole words and the last word *)
  assert (Hsplit : (forall ix, (ix < nbits c)%nat -> bitvTest c a ix = bitvTest c b ix) <->
                   ((forall i, (i < nw - 1)%nat -> wd a i = wd b i) /\
                    (forall k, (k < (if Nat.eqb r 0 then 64 else r))%nat ->
                               bitOf a (64 * (nw - 1) + k) = bitOf b (64 * (nw - 1) + k)))).
  { split.
    - intros H. split.
      + intros i Hi. apply wd_eq_bits; try assumption. intros k Hk.
        rewrite <- !(test_bitOf c). apply H. destruct (Nat.eqb r 0); lia.
      + intros k Hk. rewrite <- !(test_bitOf c). apply H. lia.
    - intros [Hp Hl] ix Hix. rewrite !test_bitOf.
      destruct (Nat.lt_ge_cases ix (64 * (nw - 1))) as [L|G].
      + pose proof (proj1 (wd_eq_bits a b (Nat.div ix 64) Aa Ab) (Hp (Nat.div ix 64) ltac:(lia)) (Nat.modulo ix 64) ltac:(lia)) as E.
        replace (64 * Nat.div ix 64 + Nat.modulo ix 64)%nat with ix in E by lia. exact E.
      + specialize (Hl (ix - 64 * (nw - 1))%nat ltac:(lia)).
        replace (64 * (nw - 1) + (ix - 64 * (nw - 1)))%nat with ix in Hl by lia. exact Hl. }
  rewrite Hsplit. clear Hsplit.
  destruct (eqPrefix (nw - 1) a b) eqn:Ep; cbn [negb].
  2:{ split; [discriminate|]. intros [Hp _]. apply (proj2 (eqPrefix_spec _ _ _)) in Hp. congruence. }
  pose proof (proj1 (eqPrefix_spec _ _ _) Ep) as Ep'. clear Ep. rename Ep' into Ep.
  destruct (Nat.eqb r 0) eqn:Er.
  - (* whole last word *)
    rewrite Z.eqb_eq. rewrite (wd_eq_bits a b (nw - 1) Aa Ab). split.
    + intros H. split; [exact Ep | exact H].
    + intros [_ H]. exact H.
  - apply Nat.eqb_neq in Er. rewrite Z.eqb_eq.
    change (lastMask c) with (maskOf r). rewrite maskOf_ones by lia.
    rewrite masked_eq_iff by lia. split.
    + intros H. split; [exact Ep|]. intros k Hk. unfold bitOf, BpW.
      replace (Nat.div (64 * (nw - 1) + k) 64) with (nw - 1)%nat by lia.
      replace (Z.of_nat (Nat.modulo (64 * (nw - 1) + k) 64)) with (Z.of_nat k) by lia.
      apply H. lia.
    + intros [_ H] k Hk. specialize (H (Z.to_nat k) ltac:(lia)). unfold bitOf, BpW in H.
      replace (Nat.div (64 * (nw - 1) + Z.to_nat k) 64) with (nw - 1)%nat in H by lia.
      replace (Z.of_nat (Nat.modulo (64 * (nw - 1) + Z.to_nat k) 64)) with k in H by lia. exact H.
Qed.

(* ------------------------------------------------------------------ unique-1 index *)
Lemma uniqueLoop_spec : forall c v cnt i n1s last1,
  (n1s <= 1)%nat ->
  let r := uniqueLoop c v i cnt n1s last1 in
  let k := countTrue (map (bitvTest c v) (seq i cnt)) in
  (r = -1 /\ (n1s + k <> 1)%nat) \/
  ((n1s + k = 1)%nat /\
   ((n1s = 1%nat /\ r = last1) \/
    (n1s = 0%nat /\ exists m, r = Z.of_nat m /\ (i <= m < i + cnt)%nat /\ bitvTest c v m = true))).
Proof.
  intros c v. induction cnt as [|cnt IH]; intros i n1s last1 Hn; cbn [uniqueLoop seq map countTrue]; cbv zeta.
  - destruct n1s as [|[|n]]; [ | | lia].
    + left. split; [reflexivity | cbn; lia].
    + right. split; [cbn; lia|]. left. split; reflexivity.
  - destruct (bitvTest c v i) eqn:T.
    + destruct n1s as [|[|n]]; try lia.
      * cbn [Nat.add Nat.ltb Nat.leb].
        specialize (IH (S i) 1%nat (Z.of_nat i) ltac:(lia)). cbv zeta in IH.
        destruct IH as [[E K]|[K [[N E]|[F _]]]].
        -- left. split; [exact E | lia].
        -- right. split; [lia|]. right. split; [reflexivity|]. exists i.
           split; [exact E|]. split; [lia | exact T].
        -- lia.
      * cbn [Nat.add Nat.ltb Nat.leb]. left. split; [reflexivity | lia].
    + specialize (IH (S i) n1s last1 Hn). cbv zeta in IH. cbn [Nat.add].
      destruct IH as [[E K]|[K [[N E]|[N (m & E & R & Tm)]]]].
      * left. split; [exact E | lia].
      * right. split; [lia|]. left. split; assumption.
      * right. split; [lia|]. right. split; [exact N|]. exists m.
        split; [exact E|]. split; [lia | exact Tm].
Qed.

Lemma unique_spec : forall c v org lim,
  let r := bitvUnique1IndexInRange c v org lim in
  let k := countTrue (map (bitvTest c v) (seq org (lim - org))) in
  (r = -1 /\ k <> 1%nat) \/
  (k = 1%nat /\ exists m, r = Z.of_nat m /\ (org <= m < lim)%nat /\ bitvTest c v m = true).
Proof.
  intros c v org lim. unfold bitvUnique1IndexInRange.
  pose proof (uniqueLoop_spec c v (lim - org) org 0 (-1) ltac:(lia)) as H. cbv zeta in *.
  destruct H as [[E K]|[K [[N _]|[_ (m & E & R & T)]]]].
  - left. split; [exact E | lia].
  - lia.
  - right. split; [lia|]. exists m. split; [exact E|]. split; [lia | exact T].
Qed.

(* ------------------------------------------------------------------ fromInt / toInt / resize *)
Lemma fromIntLoop_spec : forall c n cnt i bv, wfc c -> length bv = nwords c -> (i + cnt <= nbits c)%nat ->
  let bv' := fromIntLoop c bv n i cnt in
  length bv' = nwords c /\
  forall k, bitvTest c bv' k =
            if Nat.leb i k && Nat.ltb k (i + cnt) then Z.testbit n (Z.of_nat k) else bitvTest c bv k.
Proof.
  intros c n. induction cnt as [|cnt IH]; intros i bv Hc L H; cbn [fromIntLoop]; cbv zeta.
  - split; [exact L|]. intros k. destruct (Nat.leb i k && Nat.ltb k (i + 0)) eqn:E; [lia | reflexivity].
  - set (bv1 := if Z.testbit n (Z.of_nat i) then bitvSet c bv i else bitvClear c bv i).
    assert (L1 : length bv1 = nwords c).
    { subst bv1. destruct (Z.testbit n (Z.of_nat i)); unfold bitvSet, bitvClear; now rewrite updw_length. }
    specialize (IH (S i) bv1 Hc L1 ltac:(lia)). cbv zeta in IH. destruct IH as [L2 Sp].
    split; [exact L2|]. intros k. rewrite Sp.
    destruct (Nat.leb (S i) k && Nat.ltb k (S i + cnt)) eqn:E1.
    + replace (Nat.leb i k && Nat.ltb k (i + S cnt)) with true by lia. reflexivity.
    + destruct (Nat.eq_dec k i) as [->|N].
      * replace (Nat.leb i i && Nat.ltb i (i + S cnt)) with true by lia.
        subst bv1. destruct (Z.testbit n (Z.of_nat i)).
        -- rewrite set_spec by (assumption || lia). now rewrite Nat.eqb_refl.
        -- rewrite clear_spec by (assumption || lia). now rewrite Nat.eqb_refl.
      * replace (Nat.leb i k && Nat.ltb k (i + S cnt)) with false by lia.
        subst bv1. destruct (Z.testbit n (Z.of_nat i)).
        -- rewrite set_spec by (assumption || lia). now replace (Nat.eqb k i) with false by lia.
        -- rewrite clear_spec by (assumption || lia). now replace (Nat.eqb k i) with false by lia.
Qed.

Lemma fromInt_spec : forall c fresh n, wfc c -> length fresh = nwords c ->
  bits c (bitvFromInt c fresh n) = map (fun i => Z.testbit n (Z.of_nat i)) (seq 0 (nbits c)).
Proof.
  intros c fresh n Hc L. apply bits_ext. intros ix H. unfold bitvFromInt.
  destruct (fromIntLoop_spec c n (nbits c) 0 fresh Hc L ltac:(lia)) as [_ Sp]. rewrite Sp.
  replace (Nat.leb 0 ix && Nat.ltb ix (0 + nbits c)) with true by lia. reflexivity.
Qed.

Lemma toIntLoop_spec : forall c v n k, 0 <= k ->
  Z.testbit (toIntLoop c v n) k = (k <? Z.of_nat n) && bitvTest c v (Z.to_nat k).
Proof.
  intros c v. induction n as [|n IH]; intros k Hk; cbn [toIntLoop].
  - rewrite Z.bits_0. replace (k <? Z.of_nat 0) with false by lia. reflexivity.
  - rewrite Z.lor_spec, IH by exact Hk.
    destruct (bitvTest c v n) eqn:T.
    + rewrite Z.shiftl_1_l. destruct (Z.eq_dec k (Z.of_nat n)) as [->|N].
      * rewrite Z.pow2_bits_true by lia. rewrite Nat2Z.id, T.
        replace (Z.of_nat n <? Z.of_nat (S n)) with true by lia. now rewrite orb_true_r.
      * rewrite Z.pow2_bits_false by lia. rewrite orb_false_r.
        destruct (k <? Z.of_nat n) eqn:E1; destruct (k <? Z.of_nat (S n)) eqn:E2; try lia; reflexivity.
    + rewrite Z.bits_0, orb_false_r.
      destruct (k <? Z.of_nat n) eqn:E1; destruct (k <? Z.of_nat (S n)) eqn:E2; try lia; try reflexivity.
      assert (k = Z.of_nat n) by lia. subst k. rewrite Nat2Z.id, T. reflexivity.
Qed.

Lemma toInt_spec : forall c v k, 0 <= k ->
  Z.testbit (bitvToInt c v) k = (k <? Z.of_nat (nbits c)) && bitvTest c v (Z.to_nat k).
Proof. intros. unfold bitvToInt. now apply toIntLoop_spec. Qed.

Lemma toInt_fromInt : forall c fresh n, wfc c -> length fresh = nwords c ->
  bitvToInt c (bitvFromInt c fresh n) = n mod 2 ^ Z.of_nat (nbits c).
Proof.
  intros c fresh n Hc L. apply Z.bits_inj'. intros k Hk. rewrite toInt_spec by exact Hk.
  destruct (k <? Z.of_nat (nbits c)) eqn:E.
  - rewrite Z.mod_pow2_bits_low by lia. cbn [andb].
    rewrite <- (bits_nth c) by lia. rewrite fromInt_spec by assumption.
    rewrite (nth_indep _ false (Z.testbit n (Z.of_nat 0))) by (rewrite map_length, seq_length; lia).
    rewrite (map_nth (fun i => Z.testbit n (Z.of_nat i))), seq_nth by lia. cbn [Nat.add]. now rewrite Z2Nat.id.
  - rewrite Z.mod_pow2_bits_high by lia. reflexivity.
Qed.

Lemma wd_app_firstn : forall (b fresh : bitv) n i, (n <= length b)%nat -> (i < n)%nat ->
  wd (firstn n b ++ skipn n fresh) i = wd b i.
Proof.
  intros b fresh n i Hn Hi. unfold wd. rewrite app_nth1 by (rewrite firstn_length; lia).
  revert b i Hn Hi. induction n as [|n IH]; intros [|x t] [|i] Hn Hi; cbn in *; try lia; try reflexivity.
  apply IH; lia.
Qed.

Lemma resize_spec : forall newc oldc fresh b ix, wfc oldc -> length b = nwords oldc ->
  (ix < nbits oldc)%nat ->
  bitvTest newc (bitvResize newc oldc fresh b) ix = bitvTest oldc b ix.
Proof.
  intros newc oldc fresh b ix Hc L H. rewrite !test_bitOf. unfold bitvResize.
  destruct (Nat.leb (nwords newc) (nwords oldc)); [reflexivity|].
  unfold bitOf. rewrite wd_app_firstn; [reflexivity | lia | now apply ix_word].
Qed.

(* ------------------------------------------------------------------ property-level statements *)
Lemma elements_ok : forall c r ix k, wfc c -> wfv c r -> (ix < nbits c)%nat ->
  bitvTest c (bitvSet c r ix) k = (if Nat.eqb k ix then true else bitvTest c r k) /\
  bitvTest c (bitvClear c r ix) k = (if Nat.eqb k ix then false else bitvTest c r k) /\
  wfv c (bitvSet c r ix) /\ wfv c (bitvClear c r ix).
Proof.
  intros c r ix k Hc Hr Hix. pose proof Hr as [L _].
  repeat split; try (now apply set_spec); try (now apply clear_spec);
    try (now destruct (set_wf c r ix Hr)); try (now destruct (clear_wf c r ix Hr)).
Qed.

Lemma algebra_wf : forall c a b, wfv c a -> wfv c b ->
  wfv c (bitvAnd c a b) /\ wfv c (bitvOr c a b) /\ wfv c (bitvMinus c a b) /\ wfv c (bitvNot c a) /\
  bitvCopy c a = a.
Proof.
  intros c a b Ha Hb. repeat split; try (now apply and_wf); try (now apply or_wf);
    try (now apply minus_wf); try apply not_wf; try (now apply copy_eq);
    try (now destruct (and_wf c a b Ha Hb)); try (now destruct (or_wf c a b Ha Hb));
    try (now destruct (minus_wf c a b Ha Hb)); try (now destruct (not_wf c a)).
Qed.

Lemma all_wf : forall c r, wfc c -> length r = nwords c ->
  wfv c (bitvSetAll c r) /\ wfv c (bitvClearAll c r).
Proof. intros. split; [now apply setAll_wf | now apply clearAll_wf]. Qed.

Lemma class_ok : forall n, wfc (bitvClassCreate n) /\ nbits (bitvClassCreate n) = n /\
  (n <= 64 * nwords (bitvClassCreate n) < n + 64)%nat.
Proof.
  intros n. assert (W : wfc (bitvClassCreate n)) by reflexivity.
  split; [exact W|]. split; [reflexivity|]. pose proof (class_words _ W). cbn [nbits bitvClassCreate] in *. lia.
Qed.

(* ------------------------------------------------------------------ examples *)
Definition c70 := bitvClassCreate 70.
Example ex_class : nwords c70 = 2%nat /\ nwords (bitvClassCreate 64) = 1%nat /\ nwords (bitvClassCreate 65) = 2%nat
                   /\ nwords (bitvClassCreate 0) = 0%nat.
Proof. repeat split. Qed.
Example ex_wfv : wfv c70 [5; 33].
Proof. split; [reflexivity|]. repeat constructor; unfold wordOk; cbn; lia. Qed.
Example ex_not_garbage :
  bitvNot c70 [5; 33] = [18446744073709551610; 18446744073709551582]     (* unused bits 70..127 become 1 *)
  /\ bitvCount c70 (bitvNot c70 [5; 33]) = 66%nat                        (* ...and are not counted *)
  /\ bitvMax c70 (bitvNot c70 [5; 33]) = 68
  /\ bitvEqual c70 (bitvNot c70 (bitvNot c70 [5; 33])) [5; 33] = true
  /\ bitvEqual c70 (bitvNot c70 [5; 33]) (bitvMinus c70 (bitvSetAll c70 [0; 0]) [5; 33 + 2 ^ 20]) = true.
Proof. repeat split; vm_compute; reflexivity. Qed.
Example ex_set63 : bitvTest c70 (bitvSet c70 [0; 0] 63) 63 = true /\ bitvSet c70 [0; 0] 63 = [2 ^ 63; 0]
                   /\ bitvSet c70 [0; 0] 64 = [0; 1].
Proof. repeat split; vm_compute; reflexivity. Qed.
Example ex_unique : bitvUnique1IndexInRange c70 [2 ^ 63; 1] 10 70 = -1
                    /\ bitvUnique1IndexInRange c70 [2 ^ 63; 1] 64 70 = 64
                    /\ bitvUnique1IndexInRange c70 [2 ^ 63; 1] 0 63 = -1.
Proof. repeat split; vm_compute; reflexivity. Qed.
Example ex_int : bitvToInt (bitvClassCreate 8) (bitvFromInt (bitvClassCreate 8) [12345] (-3)) = 253.
Proof. vm_compute. reflexivity. Qed.

(* ------------------------------------------------------------------ the printers *)
Lemma unprint_app : forall s t, unprint (s ++ t) = unprint s ++ unprint t.
Proof.
  induction s as [|ch s IH]; intros t; [reflexivity|].
  destruct ch; cbn [app unprint]; rewrite ?IH; reflexivity.
Qed.

Lemma unprint_loop : forall c a cnt i, unprint (printLoop c a i cnt) = map (bitvTest c a) (seq i cnt).
Proof.
  intros c a cnt. induction cnt as [|k IH]; intros i; [reflexivity|].
  cbn [printLoop seq map].
  destruct (bitvTest c a i); destruct (Nat.eqb (Nat.modulo i 5) 4); cbn [app unprint]; rewrite IH; reflexivity.
Qed.

Lemma toString_reads_back : forall c a, unprint (bitvToString c a) = bits c a.
Proof.
  intros. unfold bitvToString, bits. cbn [unprint]. rewrite unprint_app, unprint_loop. cbn [unprint].
  apply app_nil_r.
Qed.

Lemma printLoop_length : forall c a cnt i,
  (length (printLoop c a i cnt) + i / 5 = cnt + (i + cnt) / 5)%nat.
Proof.
  intros c a cnt. induction cnt as [|k IH]; intros i; cbn [printLoop length].
  - rewrite Nat.add_0_r. reflexivity.
  - rewrite app_length. specialize (IH (S i)).
    destruct (Nat.eqb (Nat.modulo i 5) 4) eqn:E; cbn [length].
    + apply Nat.eqb_eq in E. replace (i + S k)%nat with (S i + k)%nat by lia.
      assert (S i / 5 = i / 5 + 1)%nat by lia. lia.
    + apply Nat.eqb_neq in E. replace (i + S k)%nat with (S i + k)%nat by lia.
      assert (S i / 5 = i / 5)%nat by lia. lia.
Qed.

Lemma toString_length : forall c a, length (bitvToString c a) = (2 + nbits c + nbits c / 5)%nat.
Proof.
  intros. unfold bitvToString. cbn [length]. rewrite app_length. cbn [length].
  pose proof (printLoop_length c a (nbits c) 0) as H. cbn [Nat.add] in H.
  rewrite (Nat.div_small 0 5) in H by lia. lia.
Qed.

(* the text depends on the set only, and tells two different sets apart *)
Lemma printLoop_ext : forall c a b cnt i,
  map (bitvTest c a) (seq i cnt) = map (bitvTest c b) (seq i cnt) -> printLoop c a i cnt = printLoop c b i cnt.
Proof.
  intros c a b cnt. induction cnt as [|k IH]; intros i H; [reflexivity|].
  cbn [seq map] in H. injection H as H0 H1. cbn [printLoop]. rewrite H0, (IH _ H1). reflexivity.
Qed.

Lemma toString_inj : forall c a b, bitvToString c a = bitvToString c b <-> bits c a = bits c b.
Proof.
  intros c a b. split; intros H.
  - rewrite <- !toString_reads_back, H. reflexivity.
  - unfold bitvToString. f_equal. f_equal. apply printLoop_ext. exact H.
Qed.

Lemma print_is_toString : forall c a,
  fst (bitvPrint c a) = bitvToString c a /\ snd (bitvPrint c a) = length (bitvToString c a).
Proof. intros. split; reflexivity. Qed.

Example ex_print : bitvToString c70 [5; 33]
  = [PLbr; POne; PZero; POne; PZero; PZero; PSpace] ++ concat (repeat [PZero; PZero; PZero; PZero; PZero; PSpace] 11)
    ++ [PZero; PZero; PZero; PZero; POne; PSpace; PZero; PZero; PZero; PZero; POne; PSpace; PRbr]
  /\ snd (bitvPrint c70 [5; 33]) = 86%nat.
Proof. split; vm_compute; reflexivity. Qed.

(* ------------------------------------------------------------------ counting across the algebra *)
Lemma countTrue_map_incl_excl : forall (g h : nat -> bool) l,
  (countTrue (map (fun i => g i || h i) l) + countTrue (map (fun i => g i && h i) l)
   = countTrue (map g l) + countTrue (map h l))%nat.
Proof.
  intros g h. induction l as [|x t IH]; [reflexivity|]. cbn [map countTrue].
  destruct (g x); destruct (h x); cbn [orb andb]; lia.
Qed.

Lemma countTrue_map_minus : forall (g h : nat -> bool) l,
  (countTrue (map (fun i => g i && negb (h i)) l) + countTrue (map (fun i => g i && h i) l)
   = countTrue (map g l))%nat.
Proof.
  intros g h. induction l as [|x t IH]; [reflexivity|]. cbn [map countTrue].
  destruct (g x); destruct (h x); cbn [orb andb negb]; lia.
Qed.

Lemma countTrue_map_not : forall (g : nat -> bool) l,
  (countTrue (map (fun i => negb (g i)) l) + countTrue (map g l) = length l)%nat.
Proof.
  intros g. induction l as [|x t IH]; [reflexivity|]. cbn [map countTrue length].
  destruct (g x); cbn [negb]; lia.
Qed.

Lemma count_algebra : forall c a b, wfc c ->
  (bitvCount c (bitvOr c a b) + bitvCount c (bitvAnd c a b) = bitvCount c a + bitvCount c b)%nat /\
  (bitvCount c (bitvMinus c a b) + bitvCount c (bitvAnd c a b) = bitvCount c a)%nat /\
  (bitvCount c (bitvNot c a) + bitvCount c a = nbits c)%nat.
Proof.
  intros c a b Hc. rewrite !count_spec.
  destruct (set_algebra c a b Hc) as (Ha & Ho & Hm & Hn). rewrite Ha, Ho, Hm, Hn.
  unfold bits. rewrite !zipb_map, map_map.
  repeat split.
  - apply countTrue_map_incl_excl.
  - apply countTrue_map_minus.
  - rewrite countTrue_map_not, seq_length. reflexivity.
Qed.

(* ------------------------------------------------------------------ bitvEqual is observational *)
Lemma bits_eq_test : forall c a b, bits c a = bits c b ->
  forall i, (i < nbits c)%nat -> bitvTest c a i = bitvTest c b i.
Proof.
  intros c a b H i Hi. unfold bits in H.
  assert (E : forall v, nth i (map (bitvTest c v) (seq 0 (nbits c))) (bitvTest c v 0) = bitvTest c v i).
  { intros v. rewrite map_nth, seq_nth by exact Hi. reflexivity. }
  rewrite <- (E a), <- (E b), H.
  apply nth_indep. rewrite map_length, seq_length. exact Hi.
Qed.

Lemma equal_observational : forall c a b, wfc c -> wfv c a -> wfv c b -> bitvEqual c a b = true ->
  (bitvCount c a = bitvCount c b)%nat /\ (bitvToString c a = bitvToString c b :> list pch) /\
  (forall n, (n <= nbits c)%nat -> bitvCountTo c a n = bitvCountTo c b n) /\
  (forall i, (i < nbits c)%nat -> bitvTest c a i = bitvTest c b i).
Proof.
  intros c a b Hc Ha Hb E. apply (equal_spec c a b Hc Ha Hb) in E.
  repeat split.
  - rewrite !count_spec, E. reflexivity.
  - apply toString_inj. exact E.
  - intros n Hn. rewrite !countTo_spec by exact Hn. rewrite E. reflexivity.
  - apply bits_eq_test. exact E.
Qed.
