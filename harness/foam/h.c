#define _GNU_SOURCE
/* harness/foam/h.c -- drives foamToBuffer / foamFrBuffer / foamSIntReduce of the
 * CURRENT tree.  foam.c is #included (not linked) so that the static label
 * format latch `labelFmt' can be set and read; everything else is linked from
 * the repository's own sources.
 *
 * stdin, one operation per line (numbers hexadecimal with optional '-',
 * except big integers which are decimal):
 *   tree <latch> ( tag arg* )      arg: i<n> s<hex> b<decimal> f<hex6> d<hex10> ( ... )
 *        -> "<hex bytes> <latch after enc> | <consumed> <latch after dec> <tree>"
 *   dec <latch> <hex>
 *        -> "<consumed> <latch> <tree> | <hex of re-encoding> <latch>"
 *   sred <n>  -> tree of foamSIntReduce(SInt n)
 *   totext ( tree )  -> hex of the .fm text foamWrSExpr writes
 *   frtext <path>    -> tree foamRdSExpr reads from the file
 *   armembers <path> -> name:pos of the members arRead records | E<number of diagnostics raised>
 */
#include "foam.c"
#include "opsys.h"
#include "xfloat.h"
#include "archive.h"
#include "comsg.h"
#include <stdio.h>
#include <unistd.h>
#include <fcntl.h>
#include <stdlib.h>
#include <string.h>

static char *line; static size_t cap;

static long parse_hex(const char *s) {
	int neg = (*s == '-'); unsigned long v;
	if (neg) s++;
	v = strtoul(s, NULL, 16);
	return neg ? (long)(0UL - v) : (long) v;
}
static int hv(int c) { return c <= '9' ? c - '0' : (c | 32) - 'a' + 10; }
static int unhex(const char *s, unsigned char *out) {
	int n = 0;
	if (s[0] == '-' && s[1] == 0) return 0;
	while (s[0] && s[1]) { out[n++] = (unsigned char)(hv(s[0]) * 16 + hv(s[1])); s += 2; }
	return n;
}

static char **toks; static int ntok, tpos;

static Foam parse_node(void) {
	/* toks[tpos] == "(" */
	int tag, argc = 0, i, depth, p;
	Foam foam; String argf; int fi;
	tpos++;
	tag = (int) parse_hex(toks[tpos++]);
	/* count args */
	for (p = tpos, depth = 0; ; p++) {
		if (!strcmp(toks[p], "(")) { if (depth == 0) argc++; depth++; }
		else if (!strcmp(toks[p], ")")) { if (depth == 0) break; depth--; }
		else if (depth == 0) argc++;
	}
	if (tag == FOAM_DFlo) foam = foamNewDFlo(0.0); else foam = foamNewEmpty(tag, argc);
	argf = foamInfo(tag).argf;
	for (i = 0, fi = 0; i < argc; i++, fi++) {
		char *t = toks[tpos];
		if (argf[fi] == '*') fi--;
		if (!strcmp(t, "(")) { foamArgv(foam)[i].code = parse_node(); continue; }
		tpos++;
		switch (t[0]) {
		case 'i': foamArgv(foam)[i].data = parse_hex(t + 1); break;
		case 's': { unsigned char *b = malloc(strlen(t)); int n = unhex(t + 1, b); String s = strAlloc(n);
			    memcpy(s, b, n); s[n] = 0; free(b); foamArgv(foam)[i].str = s; break; }
		case 'b': foamArgv(foam)[i].bint = bintFrString(t + 1); break;
		case 'f': { XSFloat x; SFloat s; unhex(t + 1, (unsigned char *) &x); xsfToNative(&x, &s); foamToSFlo(foam) = s; break; }
		case 'd': { XDFloat x; DFloat d; unhex(t + 1, (unsigned char *) &x); xdfToNative(&x, &d); foamToDFlo(foam) = d; break; }
		default: fprintf(stderr, "bad arg %s\n", t); exit(3);
		}
	}
	tpos++;	/* ")" */
	return foam;
}

static void print_hexl(long v) { if (v < 0) printf("-%lx", 0UL - (unsigned long) v); else printf("%lx", v); }
static void print_bytes(const unsigned char *b, long n) { long i; if (n == 0) printf("-"); for (i = 0; i < n; i++) printf("%02x", b[i]); }

static void print_node(Foam foam) {
	int tag = foamTag(foam), argc = foamArgc(foam), i, fi;
	String argf = foamInfo(tag).argf;
	printf("( %x", tag);
	for (i = 0, fi = 0; i < argc; i++, fi++) {
		if (argf[fi] == '*') fi--;
		printf(" ");
		switch (argf[fi]) {
		case 'C': print_node(foamArgv(foam)[i].code); break;
		case 's': printf("s"); print_bytes((unsigned char *) foamArgv(foam)[i].str, strlen(foamArgv(foam)[i].str)); break;
		case 'n': { String s = bintToString(foamArgv(foam)[i].bint); printf("b%s", s); break; }
		case 'f': { XSFloat x; SFloat s = foamToSFlo(foam); xsfFrNative(&x, &s); printf("f"); print_bytes((unsigned char *) &x, XSFLOAT_BYTES); break; }
		case 'd': { XDFloat x; DFloat d = foamToDFlo(foam); xdfFrNative(&x, &d); printf("d"); print_bytes((unsigned char *) &x, XDFLOAT_BYTES); break; }
		default: printf("i"); print_hexl(foamArgv(foam)[i].data); break;
		}
	}
	printf(" )");
}

int main(int argc, char **argv) {
	osInit(); sxiInit(); keyInit(); ssymInit(); dbInit(); stabInitGlobal(); tfInit(); foamInit();
	comsgInit(); comsgSetOption("no-emax");		/* messages are collected, never printed */
	while (getline(&line, &cap, stdin) > 0) {
		size_t n = strlen(line), i; char *p;
		if (n && line[n - 1] == '\n') line[--n] = 0;
		toks = realloc(toks, (n / 2 + 4) * sizeof(char *)); ntok = 0;
		for (p = strtok(line, " "); p; p = strtok(NULL, " ")) toks[ntok++] = p;
		if (ntok == 0) { printf("\n"); continue; }
		if (!strcmp(toks[0], "tree")) {
			Foam foam, back; Buffer buf = bufNew(); long len;
			int st = (int) parse_hex(toks[1]);
			tpos = 2; foam = parse_node();
			labelFmt = st;
			len = foamToBuffer(buf, foam);
			print_bytes(bufData(buf), len); printf(" %x | ", labelFmt);
			labelFmt = st; bufStart(buf);
			back = foamFrBuffer(buf);
			printf("%lx %x ", (long) bufPosition(buf), labelFmt); print_node(back); printf("\n");
		} else if (!strcmp(toks[0], "dec")) {
			unsigned char *b = malloc(strlen(toks[2]) + 1); int len = unhex(toks[2], b);
			Buffer buf = bufCapture((String) b, len), out = bufNew(); Foam foam; long l2;
			int st = (int) parse_hex(toks[1]);
			labelFmt = st; foam = foamFrBuffer(buf);
			printf("%lx %x ", (long) bufPosition(buf), labelFmt); print_node(foam);
			labelFmt = st; l2 = foamToBuffer(out, foam);
			printf(" | "); print_bytes(bufData(out), l2); printf(" %x\n", labelFmt);
		} else if (!strcmp(toks[0], "totext")) {
			/* the .fm text of a tree, exactly as emit.c writes it */
			Foam foam; char *mem = 0; size_t msz = 0; FILE *f;
			tpos = 1; foam = parse_node();
			f = open_memstream(&mem, &msz);
			foamWrSExpr(f, foam, SXRW_NoSrcPos);
			fclose(f);
			print_bytes((unsigned char *) mem, (long) msz); printf("\n");
			free(mem);
		} else if (!strcmp(toks[0], "frtext")) {
			/* foamRdSExpr on a file */
			FileName fn = fnameParse(toks[1]);
			FILE *fin = fileRdOpen(fn);
			Foam foam = foamRdSExpr(fin, &fn, NULL);
			fclose(fin);
			print_node(foam); printf("\n");
		} else if (!strcmp(toks[0], "armembers")) {
			/* arRead: the members archive.c records */
			int e0 = comsgErrorCount(), saved;
			Archive ar;
			/* diagnostics without a source position are printed at once: keep them off the protocol */
			fflush(stdout); saved = dup(1); { int nul = open("/dev/null", O_WRONLY); dup2(nul, 1); close(nul); }
			ar = arRead(fnameParse(toks[1]));
			fflush(stdout); dup2(saved, 1); close(saved);
			ArEntryList l;
			for (l = ar->members; l; l = cdr(l)) {
				print_bytes((unsigned char *) car(l)->name, strlen(car(l)->name));
				printf(":%lx ", (unsigned long) car(l)->pos);
			}
			/* how many diagnostics (ALDOR_E_ArTruncated / ArBadNumber) reading raised */
			printf("| E%d\n", comsgErrorCount() - e0);
		} else if (!strcmp(toks[0], "sred")) {
			Foam f = foamSIntReduce(foamNewSInt(parse_hex(toks[1])));
			print_node(f); printf("\n");
		} else printf("ERR\n");
		fflush(stdout);
	}
	return 0;
}
