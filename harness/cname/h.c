/* C16 harness: the name functions of genc.c are `local` (static), so the CURRENT genc.c is
 * included textually; everything else of the compiler is linked in from the current tree.
 *
 * One operation per line on stdin, one result per line on stdout (strings as hex, "-" = empty):
 *   M idlen idhash hexA id hexB   gc0MultVarId(strA, id, strB) after genCSetIdLen / genCSetIdHash
 *   V idlen hexS id               gc0VarId(str, id)
 *   E idlen pos hexS              gc0ValidIdInBuf on a buffer already holding `pos` characters
 *   H hexS                        gc0IdHashInBuf
 *   S hexS                        strHash (decimal)
 *   O opt                         ccOption(opt): rc idlen smax idhash lines
 *   T                             the compiled ccSpecCharIdTable, VAR_HASH, defaults (cross-check of the translator)
 */
#include "genc.c"
#include "ccomp.h"

extern int ccOption(String);

static void
init(void)
{
	osInit();
	sxiInit();
	keyInit();
	ssymInit();
	dbInit();
	stabInitGlobal();
	tfInit();
	fmttsInit();
	foamInit();
	optInit();
	tinferInit();
	sposInit();
	ablogInit();
	comsgInit();
}

static int
hexv(int c)
{
	if (c >= '0' && c <= '9') return c - '0';
	if (c >= 'a' && c <= 'f') return c - 'a' + 10;
	return c - 'A' + 10;
}

static char *
unhex(const char *h, char *out)
{
	int n = 0;
	if (h[0] == '-' && h[1] == 0) { out[0] = 0; return out; }
	for (; h[0] && h[1]; h += 2)
		out[n++] = (char)(hexv(h[0]) * 16 + hexv(h[1]));
	out[n] = 0;
	return out;
}

static void
puthex(const char *s)
{
	if (!*s) { printf("-\n"); return; }
	for (; *s; s++) printf("%02x", (unsigned char)*s);
	printf("\n");
}

static char line[1 << 16], a1[1 << 15], a2[1 << 15], b1[1 << 15], b2[1 << 15];

int
main(int argc, char **argv)
{
	int d_idlen = gcvIdLen, d_smax = gcvSMax, d_idhash = gcvIdHash;
	init();
	gc0InitSpecialChars();
	while (fgets(line, sizeof line, stdin)) {
		long idlen, idhash, id, pos;
		size_t n = strlen(line);
		while (n && (line[n-1] == '\n' || line[n-1] == '\r')) line[--n] = 0;
		switch (line[0]) {
		case 'M':
			if (sscanf(line + 1, "%ld %ld %s %ld %s", &idlen, &idhash, a1, &id, a2) != 5) { printf("?\n"); break; }
			genCSetIdLen((int) idlen);
			genCSetIdHash(idhash != 0);
			puthex(symString(gc0MultVarId(unhex(a1, b1), (int) id, unhex(a2, b2))->ccoToken.symbol));
			break;
		case 'V':
			if (sscanf(line + 1, "%ld %s %ld", &idlen, a1, &id) != 3) { printf("?\n"); break; }
			genCSetIdLen((int) idlen);
			puthex(symString(gc0VarId(unhex(a1, b1), (int) id)->ccoToken.symbol));
			break;
		case 'E': {
			Buffer buf = bufNew();
			long i;
			if (sscanf(line + 1, "%ld %ld %s", &idlen, &pos, a1) != 3) { printf("?\n"); break; }
			genCSetIdLen((int) idlen);
			bufStart(buf);
			for (i = 0; i < pos; i++) bufAdd1(buf, 'z');
			gc0ValidIdInBuf(buf, unhex(a1, b1));
			puthex(bufChars(buf) + pos);
			bufFree(buf);
			break;
		}
		case 'H': {
			Buffer buf = bufNew();
			if (sscanf(line + 1, "%s", a1) != 1) { printf("?\n"); break; }
			bufStart(buf);
			gc0IdHashInBuf(buf, unhex(a1, b1));
			puthex(bufChars(buf));
			bufFree(buf);
			break;
		}
		case 'S':
			if (sscanf(line + 1, "%s", a1) != 1) { printf("?\n"); break; }
			printf("%lu\n", (unsigned long) strHash(unhex(a1, b1)));
			break;
		case 'O': {
			int rc;
			genCSetIdLen(d_idlen); genCSetSMax(d_smax); genCSetIdHash(d_idhash); ccSetLineNos(false);
			rc = ccOption(line + 2);
			printf("%d %d %d %d %d\n", rc, gcvIdLen, gcvSMax, (int) gcvIdHash, (int) ccLineNos());
			break;
		}
		case 'T': {
			int i;
			printf("T %d %d %d %d %d", (int) VAR_HASH, (int) VAR_HASH_MAX, d_idlen, d_smax, d_idhash);
			for (i = 0; ccIdChar(i) != 0; i++)
				printf(" %d:%s", (int) ccIdChar(i), ccIdStr(i));
			printf("\n");
			break;
		}
		default:
			printf("?\n");
		}
	}
	return 0;
}
