/* C20/bitv harness: runs an operation script through the CURRENT bitv.c of the repository.
 *
 * One operation per line, one result per line (same syntax as coq/Bitv/driver.ml).
 * There is one current class and 8 vector registers 0..7.
 *   class n            -> nwords                 (destroys the registers)
 *   new r w0 w1 ...    -> raw                    bitvNew + the given hex words written into it
 *                                                (bitvNew leaves the storage uninitialised)
 *   setall r | clearall r | set r ix | clear r ix | copy r a | not r a
 *   and r a b | or r a b | minus r a b          -> raw words of r (hex, space separated; - if none)
 *   test r ix | equal a b                        -> 0/1
 *   max r | count r | countto r n | unique r org lim | toint r   -> decimal
 *   fromint r n        -> bit string (bitvTest for 0..nbits-1) of the new vector put in r
 *   bits r             -> bit string
 *   resize r n         -> bit string of the first min(nbits, n) bits of bitvResize(class n, class, r),
 *                         read with the new class; afterwards the class is n and the other registers
 *                         are dropped
 *   tostring r         -> bitvToString(r) | text written by bitvPrint(r) | value returned by bitvPrint
 *   manynew n          -> n bit strings separated by spaces (bitvManyNew: cleared vectors)
 */
#define _GNU_SOURCE 1
#include <signal.h>
#include <setjmp.h>
#include <unistd.h>
#include "axlgen.h"
#include "bitv.h"
#include "store.h"
#include "opsys.h"

extern void dbInit(void);

static sigjmp_buf jb;
static void onsig(int s) { siglongjmp(jb, s); }

#define NREG 8
static BitvClass cls = NULL;
static Bitv	 reg[NREG];

static void prraw(Bitv v)
{
	Length i;
	if (cls->nwords == 0) { printf("-"); return; }
	for (i = 0; i < cls->nwords; i++) printf(i ? " %lx" : "%lx", (unsigned long) v[i]);
}

static void prbits(BitvClass c, Bitv v, int n)
{
	int i;
	if (n == 0) { printf("-"); return; }
	for (i = 0; i < n; i++) putchar(bitvTest(c, v, i) ? '1' : '0');
}

static void doline(char *line)
{
	char	op[16];
	char	*p = line, *tok;
	long	a[4] = {0, 0, 0, 0};
	int	n = 0;

	tok = strtok(p, " \n");
	if (!tok) return;
	strncpy(op, tok, 15); op[15] = 0;

	if (!strcmp(op, "new")) {
		int r = (int) strtol(strtok(NULL, " \n"), NULL, 10);
		Length i;
		reg[r] = bitvNew(cls);
		for (i = 0; i < cls->nwords; i++) {
			tok = strtok(NULL, " \n");
			reg[r][i] = tok ? strtoul(tok, NULL, 16) : 0;
		}
		prraw(reg[r]);
		return;
	}
	while ((tok = strtok(NULL, " \n")) != NULL && n < 4) a[n++] = strtol(tok, NULL, 10);

	if (!strcmp(op, "class")) {
		int i;
		for (i = 0; i < NREG; i++) if (reg[i]) { bitvFree(reg[i]); reg[i] = NULL; }
		if (cls) bitvClassDestroy(cls);
		cls = bitvClassCreate((int) a[0]);
		printf("%ld", (long) cls->nwords);
	}
	else if (!strcmp(op, "setall"))	  { bitvSetAll(cls, reg[a[0]]); prraw(reg[a[0]]); }
	else if (!strcmp(op, "clearall")) { bitvClearAll(cls, reg[a[0]]); prraw(reg[a[0]]); }
	else if (!strcmp(op, "set"))	  { bitvSet(cls, reg[a[0]], (int) a[1]); prraw(reg[a[0]]); }
	else if (!strcmp(op, "clear"))	  { bitvClear(cls, reg[a[0]], (int) a[1]); prraw(reg[a[0]]); }
	else if (!strcmp(op, "copy"))	  { bitvCopy(cls, reg[a[0]], reg[a[1]]); prraw(reg[a[0]]); }
	else if (!strcmp(op, "not"))	  { bitvNot(cls, reg[a[0]], reg[a[1]]); prraw(reg[a[0]]); }
	else if (!strcmp(op, "and"))	  { bitvAnd(cls, reg[a[0]], reg[a[1]], reg[a[2]]); prraw(reg[a[0]]); }
	else if (!strcmp(op, "or"))	  { bitvOr(cls, reg[a[0]], reg[a[1]], reg[a[2]]); prraw(reg[a[0]]); }
	else if (!strcmp(op, "minus"))	  { bitvMinus(cls, reg[a[0]], reg[a[1]], reg[a[2]]); prraw(reg[a[0]]); }
	else if (!strcmp(op, "test"))	  printf("%d", bitvTest(cls, reg[a[0]], (int) a[1]) ? 1 : 0);
	else if (!strcmp(op, "equal"))	  printf("%d", bitvEqual(cls, reg[a[0]], reg[a[1]]) ? 1 : 0);
	else if (!strcmp(op, "max"))	  printf("%d", bitvMax(cls, reg[a[0]]));
	else if (!strcmp(op, "count"))	  printf("%d", bitvCount(cls, reg[a[0]]));
	else if (!strcmp(op, "countto"))  printf("%d", bitvCountTo(cls, reg[a[0]], (int) a[1]));
	else if (!strcmp(op, "unique"))	  printf("%d", bitvUnique1IndexInRange(cls, reg[a[0]], (int) a[1], (int) a[2]));
	else if (!strcmp(op, "toint"))	  printf("%d", bitvToInt(cls, reg[a[0]]));
	else if (!strcmp(op, "tostring")) {
		String	s = bitvToString(cls, reg[a[0]]);
		char	*mem = NULL;
		size_t	msz = 0;
		FILE	*mf = open_memstream(&mem, &msz);
		int	cc = bitvPrint(mf, cls, reg[a[0]]);
		fclose(mf);
		printf("%s|%s|%d", s, mem, cc);
		free(mem);
		strFree(s);
	}
	else if (!strcmp(op, "fromint"))  { reg[a[0]] = bitvFromInt(cls, (int) a[1]); prbits(cls, reg[a[0]], (int) cls->nbits); }
	else if (!strcmp(op, "bits"))	  prbits(cls, reg[a[0]], (int) cls->nbits);
	else if (!strcmp(op, "resize")) {
		BitvClass newc = bitvClassCreate((int) a[1]);
		int	  keep = (int) (cls->nbits < newc->nbits ? cls->nbits : newc->nbits), i;
		Bitv	  nv = bitvResize(newc, cls, reg[a[0]]);
		prbits(newc, nv, keep);
		for (i = 0; i < NREG; i++) reg[i] = NULL;	/* dropped, not freed */
		reg[a[0]] = nv;
		cls = newc;
	}
	else if (!strcmp(op, "manynew")) {
		Bitv *vv = bitvManyNew(cls, (Length) a[0]);
		int  i;
		for (i = 0; i < a[0]; i++) { if (i) putchar(' '); prbits(cls, vv[i], (int) cls->nbits); }
		if (a[0] == 0) printf("-");
		bitvManyFree(vv);
	}
	else { fprintf(stderr, "unknown op %s\n", op); exit(2); }
}

int main(int argc, char **argv)
{
	char	*line = NULL;
	size_t	cap = 0;
	int	sigs[] = { SIGSEGV, SIGBUS, SIGFPE, SIGABRT, SIGILL, SIGALRM };
	int	i;

	osInit();
	dbInit();
	for (i = 0; i < 6; i++) signal(sigs[i], onsig);

	while (getline(&line, &cap, stdin) > 0) {
		int s;
		if (line[0] == '\n' || line[0] == '#') continue;
		alarm(20);
		if ((s = sigsetjmp(jb, 1)) == 0) doline(line);
		else printf("crash%d", s);
		alarm(0);
		printf("\n");
	}
	fflush(stdout);
	return 0;
}
