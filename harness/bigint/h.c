/* C11 harness: runs an operation script through the CURRENT bigint.c / foam_i.c of the repository.
 * bigint.c is #included (not linked) so that the file-local macros (IsImmed, IntToBInt,
 * INT_MAX_IMMED, BINT_RADIX ...) are those of the source under test; everything else is linked.
 *
 * Same token syntax as coq/BigInt/driver.ml:
 *   z<hex>  i<hex>  s<0|1>:<hex>,<hex>,...  t<hexbytes>  l<hex>,<hex>  b0/b1
 * A BInt result is printed as <raw>|t<decimal text from bintToString>; the raw form is read
 * directly from the pointer tag / struct fields, never through the code under test.
 * A signal (SIGSEGV, SIGFPE, SIGABRT from a failed assert, SIGALRM after 4 s) inside an operation
 * prints "crash<signo>" for that line and the harness goes on with the next line.
 */
#define _GNU_SOURCE 1
#include <signal.h>
#include <setjmp.h>
#include <unistd.h>
#include <sys/types.h>
#include "bigint.c"
#include "foam_c.h"
#include "opsys.h"

extern void dbInit(void);

static sigjmp_buf jb;
static int nalarm = 0;
static void onsig(int s) { if (s == SIGALRM) nalarm++; siglongjmp(jb, s); }

#define MAXTOK 8
static char *linebuf = NULL;
static size_t linecap = 0;

static int nib(int c)
{
	if (c >= '0' && c <= '9') return c - '0';
	if (c >= 'a' && c <= 'f') return c - 'a' + 10;
	if (c >= 'A' && c <= 'F') return c - 'A' + 10;
	return -1;
}

/* signed hex -> long (two's complement wrap on overflow is not needed: values fit) */
static long hexlong(const char *s)
{
	int neg = 0;
	unsigned long u = 0;
	if (*s == '-') { neg = 1; s++; }
	for (; nib(*s) >= 0; s++) u = (u << 4) | (unsigned long) nib(*s);
	return neg ? (long) (0UL - u) : (long) u;
}

static BInt mkbint(const char *tok)
{
	if (tok[0] == 'i') {
		long n = hexlong(tok + 1);
		return (BInt) ptrFrLong(MkImmed(n));
	}
	else {
		int neg = tok[1] == '1';
		const char *p = tok + 3;
		size_t cnt = 0, i;
		const char *q;
		BInt b;
		if (*p) { cnt = 1; for (q = p; *q; q++) if (*q == ',') cnt++; }
		b = bintAllocPlaces(cnt > 0 ? cnt + 1 : 2);
		for (i = 0; i < Placea(b); i++) Placev(b)[i] = 0xDEADBEEF;   /* garbage above placec */
		Placec(b) = cnt;
		IsNeg(b) = neg;
		for (i = 0; i < cnt; i++) {
			Placev(b)[i] = (BIntS) strtoul(p, (char **) &p, 16);
			if (*p == ',') p++;
		}
		return b;
	}
}

static char *mkstr(const char *tok)
{
	size_t n = strlen(tok + 1) / 2, i;
	char *s = (char *) malloc(n + 1);
	for (i = 0; i < n; i++) s[i] = (char) (nib(tok[1 + 2*i]) * 16 + nib(tok[2 + 2*i]));
	s[n] = 0;
	return s;
}

static void showstr(const char *s)
{
	printf("t");
	for (; *s; s++) printf("%02x", (unsigned char) *s);
}

static void showz(long n)
{
	if (n < 0) printf("z-%lx", 0UL - (unsigned long) n); else printf("z%lx", (unsigned long) n);
}

static void showraw(BInt b)
{
	if (IsImmed(b)) {
		long n = BIntToInt(b);
		if (n < 0) printf("i-%lx", 0UL - (unsigned long) n); else printf("i%lx", (unsigned long) n);
	}
	else {
		size_t i;
		printf("s%d:", IsNeg(b) ? 1 : 0);
		for (i = 0; i < Placec(b); i++) printf(i ? ",%x" : "%x", Placev(b)[i]);
	}
}

static void showbint(BInt b)
{
	String s;
	showraw(b);
	printf("|");
	s = bintToString(b);
	showstr(s);
}

static void showb(int x) { printf(x ? "b1" : "b0"); }

static void run(int ntok, char **tok)
{
	const char *op = tok[0];
	if (!strcmp(op, "consts")) {
		unsigned long rio, rim; long dio, dim; int r;
		showz((long) BINT_LG_RADIX); printf(" ");
		printf("z%lx ", (unsigned long) BINT_RADIX);
		showz((long) INT_MAX_IMMED); printf(" ");
		showz((long) INT_MIN_IMMED); printf(" ");
		showz((long) INT_LG_IMMED); printf(" ");
		showz((long) INT_MAX_HALF); printf(" ");
		for (rio = 10, dio = 1; 10*rio <= BINT_RADIX; rio *= 10, dio++) ;
		for (rim = 10, dim = 1; 10*rim <= INT_MAX_IMMED; rim *= 10, dim++) ;
		showz((long) rio); printf(" "); showz(dio); printf(" ");
		showz((long) rim); printf(" "); showz(dim); printf(" l");
		for (r = 2; r <= 36; r++)
			printf(r > 2 ? ",%lx" : "%lx", (unsigned long)(log((double) r)/log(2.0)) + 1);
		if (sizeof(BIntS) != 4 || sizeof(BIntD) != 8 || sizeof(IInt) != 8 || U16sPerUNotAsLong != 2)
			printf(" layout-differs");
	}
	else if (!strcmp(op, "new")) showbint(bintNew(hexlong(tok[1] + 1)));
	else if (!strcmp(op, "neg")) showbint(bintNegate(mkbint(tok[1])));
	else if (!strcmp(op, "abs")) showbint(bintAbs(mkbint(tok[1])));
	else if (!strcmp(op, "plus")) showbint(bintPlus(mkbint(tok[1]), mkbint(tok[2])));
	else if (!strcmp(op, "minus")) showbint(bintMinus(mkbint(tok[1]), mkbint(tok[2])));
	else if (!strcmp(op, "times")) showbint(bintTimes(mkbint(tok[1]), mkbint(tok[2])));
	else if (!strcmp(op, "timesplus"))
		showbint((BInt) fiBIntTimesPlus((FiBInt) mkbint(tok[1]), (FiBInt) mkbint(tok[2]), (FiBInt) mkbint(tok[3])));
	else if (!strcmp(op, "divide")) {
		BInt a = mkbint(tok[1]), b = mkbint(tok[2]), q, r;
		if (bintIsZero(b)) { printf("none"); return; }
		q = bintDivide(&r, a, b);
		showbint(q); printf(" "); showbint(r);
	}
	else if (!strcmp(op, "quo")) {
		BInt a = mkbint(tok[1]), b = mkbint(tok[2]);
		if (bintIsZero(b)) { printf("none"); return; }
		showbint((BInt) fiBIntQuo((FiBInt) a, (FiBInt) b));
	}
	else if (!strcmp(op, "mod")) {
		BInt a = mkbint(tok[1]), b = mkbint(tok[2]);
		if (bintIsZero(b)) { printf("none"); return; }
		showbint((BInt) fiBIntMod((FiBInt) a, (FiBInt) b));
	}
	else if (!strcmp(op, "cmp")) {
		BInt a = mkbint(tok[1]), b = mkbint(tok[2]);
		showb(bintEQ(a, b)); printf(" "); showb(bintLT(a, b)); printf(" "); showb(bintGT(a, b));
	}
	else if (!strcmp(op, "pred")) {
		BInt a = mkbint(tok[1]);
		showb(bintIsNeg(a)); printf(" "); showb(bintIsZero(a)); printf(" ");
		showb(bintIsPos(a)); printf(" "); showb(bintIsSmall(a));
	}
	else if (!strcmp(op, "length")) showz((long) bintLength(mkbint(tok[1])));
	else if (!strcmp(op, "bit")) showb(bintBit(mkbint(tok[1]), (Length) hexlong(tok[2] + 1)));
	else if (!strcmp(op, "shift")) showbint(bintShift(mkbint(tok[1]), (int) hexlong(tok[2] + 1)));
	else if (!strcmp(op, "shiftrem"))
		showbint((BInt) fiBIntShiftRem((FiBInt) mkbint(tok[1]), (FiSInt) hexlong(tok[2] + 1)));
	else if (!strcmp(op, "tostr")) { String s = bintToString(mkbint(tok[1])); showstr(s); }
	else if (!strcmp(op, "scan")) {
		char *s = mkstr(tok[1]); String e; BInt b = bintScanFrString(s, &e);
		showbint(b); printf(" "); showstr(e);
	}
	else if (!strcmp(op, "rscan")) {
		char *s = mkstr(tok[1]); String e; BInt b = bintRadixScanFrString(s, &e);
		showbint(b); printf(" "); showstr(e);
	}
	else if (!strcmp(op, "gcd"))
		showbint((BInt) fiBIntGcd((FiBInt) mkbint(tok[1]), (FiBInt) mkbint(tok[2])));
	else if (!strcmp(op, "sipow")) {
		long n = hexlong(tok[2] + 1);
		if (n < 0) { printf("none"); return; }
		showbint((BInt) fiBIntSIPower((FiBInt) mkbint(tok[1]), n));
	}
	else if (!strcmp(op, "bipow")) {
		BInt a = mkbint(tok[1]), b = mkbint(tok[2]);
		if (bintIsNeg(b)) { printf("none"); return; }
		showbint((BInt) fiBIntBIPower((FiBInt) a, (FiBInt) b));
	}
	else if (!strcmp(op, "powmod")) {
		BInt a = mkbint(tok[1]), b = mkbint(tok[2]), c = mkbint(tok[3]);
		/* the cases in which the wrapper raises an Aldor exception */
		if (bintIsZero(c)) { printf("none"); return; }
		if (!bintIsZero(b) && bintIsNeg(b) && !bintIsZero(bintMod(a, c))) { printf("none"); return; }
		showbint((BInt) fiBIntPowerMod((FiBInt) a, (FiBInt) b, (FiBInt) c));
	}
	else if (!strcmp(op, "tosint")) {
		BInt a = mkbint(tok[1]);
		showz((long) fiBIntToSInt((FiBInt) a)); printf(" "); showb(fiBIntIsSingle((FiBInt) a));
	}
	else if (!strcmp(op, "frplacev") || !strcmp(op, "frplacevs")) {
		int neg = tok[1][1] == '1';
		const char *p = tok[2] + 1; size_t cnt = 0, i; const char *q;
		if (*p) { cnt = 1; for (q = p; *q; q++) if (*q == ',') cnt++; }
		if (!strcmp(op, "frplacev")) {
			BIntS *d = (BIntS *) malloc(sizeof(BIntS) * (cnt + 2));
			for (i = 0; i < cnt; i++) { d[i] = (BIntS) strtoul(p, (char **) &p, 16); if (*p == ',') p++; }
			showbint(bintFrPlacev(neg, cnt, d));
		}
		else {
			U16 *d = (U16 *) malloc(sizeof(U16) * (cnt + 4));
			for (i = 0; i < cnt; i++) { d[i] = (U16) strtoul(p, (char **) &p, 16); if (*p == ',') p++; }
			showbint((BInt) fiBIntFrPlacev(neg, cnt, d));
		}
	}
	else if (!strcmp(op, "toplacevs")) {
		int sz, i; U16 *d;
		bintToPlacevS(mkbint(tok[1]), &sz, &d);
		printf("l");
		for (i = 0; i < sz; i++) printf(i ? ",%x" : "%x", d[i]);
	}
	else if (!strcmp(op, "rtplacevs")) {
		/* through the 16-bit places and back (odd counts are widened in place inside the buffer of 2*placec
		 * entries that bintToPlacevS allocated) */
		int sz; U16 *d; BInt a = mkbint(tok[1]);
		bintToPlacevS(a, &sz, &d);
		showbint((BInt) fiBIntFrPlacev(bintIsNeg(a), sz, d));
	}
	else printf("badop");
}

int main(int argc, char **argv)
{
	int sigs[] = { SIGSEGV, SIGFPE, SIGABRT, SIGBUS, SIGALRM, SIGILL };
	size_t i;
	ssize_t n;
	osInit();
	dbInit();
	for (i = 0; i < sizeof(sigs)/sizeof(sigs[0]); i++) {
		struct sigaction sa;
		memset(&sa, 0, sizeof sa);
		sa.sa_handler = onsig;
		sa.sa_flags = SA_NODEFER;
		sigaction(sigs[i], &sa, NULL);
	}
	while ((n = getline(&linebuf, &linecap, stdin)) >= 0) {
		char *tok[MAXTOK];
		int ntok = 0, s;
		char *p = linebuf;
		while (n > 0 && (linebuf[n-1] == '\n' || linebuf[n-1] == '\r')) linebuf[--n] = 0;
		while (*p && ntok < MAXTOK) {
			while (*p == ' ') p++;
			if (!*p) break;
			tok[ntok++] = p;
			while (*p && *p != ' ') p++;
			if (*p) *p++ = 0;
		}
		if (ntok == 0) { printf("badop\n"); continue; }
		s = sigsetjmp(jb, 1);
		if (s == 0) {
			alarm(nalarm > 8 ? 1 : 4);	/* a tree that hangs often is not worth minutes */
			run(ntok, tok);
			alarm(0);
			printf("\n");
		}
		else {
			alarm(0);
			printf(" crash%d\n", s);
		}
		fflush(stdout);
	}
	return 0;
}
