/* Harness for btree.c of the CURRENT tree: one operation per line on stdin, one result per line
 * (same protocol as coq/BTree/driver.ml). */
#include "axlgen.h"
#include "store.h"
#include "btree.h"
#include "opsys.h"
#include <stdio.h>
#include <string.h>
#include <stdlib.h>

static void kvs(BTree x)
{
	int i;
	for (i = 0; i < x->nKeys; i++)
		printf("%s%lu=%ld", i ? " " : "", (unsigned long) x->part[i].key, (long) x->part[i].entry);
}

static void dump(BTree x)
{
	int i;
	if (x->isLeaf) {
		printf("(L%s", x->nKeys ? " " : "");
		kvs(x);
		printf(")");
		return;
	}
	printf("(N");
	for (i = 0; i < x->nKeys; i++) {
		printf(" ");
		dump(x->part[i].branch);
		printf(" %lu=%ld", (unsigned long) x->part[i].key, (long) x->part[i].entry);
	}
	printf(" ");
	dump(x->part[i].branch);
	printf(")");
}

static int nelems;
static void elems(BTree x)
{
	int i;
	for (i = 0; i < x->nKeys; i++) {
		if (!x->isLeaf) elems(x->part[i].branch);
		printf("%s%lu=%ld", nelems++ ? " " : "", (unsigned long) x->part[i].key, (long) x->part[i].entry);
	}
	if (!x->isLeaf) elems(x->part[i].branch);
}

static void sres(BTree b, int ix)
{
	if (!b) { printf("none\n"); return; }
	printf("found %d [", ix);
	kvs(b);
	printf("]\n");
}

static BTreeElt mf(BTreeElt e) { return (BTreeElt) ((long) e + 1); }

int main(int argc, char **argv)
{
	static char line[1 << 12];
	BTree r = 0;
	osInit();
	stoCtl(StoCtl_GcLevel, StoCtl_GcLevel_Never);
	while (fgets(line, sizeof line, stdin)) {
		long a, b;
		int ix;
		if (sscanf(line, "new %ld", &a) == 1) {
			if (r) btreeFree(r);
			r = btreeNew((Length) a);
			printf("ok\n");
		}
		else if (sscanf(line, "ins %ld %ld", &a, &b) == 2) {
			btreeInsert(&r, (BTreeKey) a, (BTreeElt) b);
			printf("ok\n");
		}
		else if (sscanf(line, "del %ld", &a) == 1) {
			BTreeElt pe = (BTreeElt) -99L;
			btreeDelete(&r, (BTreeKey) a, &pe);
			if ((long) pe == -99L) printf("del -\n");
			else printf("del %ld\n", (long) pe);
		}
		else if (sscanf(line, "eq %ld", &a) == 1) { BTree f; ix = -77; f = btreeSearchEQ(r, (BTreeKey) a, &ix); sres(f, ix); }
		else if (sscanf(line, "ge %ld", &a) == 1) { BTree f; ix = -77; f = btreeSearchGE(r, (BTreeKey) a, &ix); sres(f, ix); }
		else if (!strncmp(line, "min", 3)) { BTree f; ix = -77; f = btreeSearchMin(r, &ix); sres(f, ix); }
		else if (!strncmp(line, "max", 3)) { BTree f; ix = -77; f = btreeSearchMax(r, &ix); sres(f, ix); }
		else if (!strncmp(line, "check", 5)) printf("check %d\n", btreeCheck(r));
		else if (!strncmp(line, "elems", 5)) { nelems = 0; printf("elems "); elems(r); printf("\n"); }
		else if (!strncmp(line, "nmap", 4)) { r = btreeNMap(mf, r); printf("ok\n"); }
		else if (!strncmp(line, "dump", 4)) { printf("dump "); dump(r); printf("\n"); }
		else if (line[0] == '\n') ;
		else printf("?? %s", line);
		fflush(stdout);
	}
	return 0;
}
