/* C19 harness: drives /repo's CURRENT xfloat.c (textually included, so that the
 * format macros defined inside it are visible), util.c (bfShiftUp/bfShiftDn/bfFirst1)
 * and foam_c.c (fiSFloDissemble/... run-time pair).  Linked with the current
 * libgen/libport sources minus xfloat.c.
 *
 *   h params            dump every constant the Coq model is parameterised by
 *   h ops               one operation per line on stdin, one result per line
 *   h bulkS lo hi       exhaustive single patterns lo <= b < hi, direct oracle
 *   h bulkD seed n      n sampled double patterns, direct oracle
 *
 * Floats are only ever handled as bit patterns through memcpy.
 */
#include "xfloat.c"
#include "foam_c.h"
#include <stdint.h>
#include <float.h>
#include <inttypes.h>
#include <string.h>
#include <stdio.h>
#include <stdlib.h>

extern Bool cmdFloatRepFlag;	/* util.c (-Wfloatrep) */

/* ---- helpers ---------------------------------------------------------- */

static int hexval(int c) {
	if (c >= '0' && c <= '9') return c - '0';
	if (c >= 'a' && c <= 'f') return c - 'a' + 10;
	if (c >= 'A' && c <= 'F') return c - 'A' + 10;
	return -1;
}

/* big-endian hex string -> nb bytes (right aligned, leading zero fill) */
static int hex2bytes(const char *s, unsigned char *b, int nb) {
	int n = (int) strlen(s), i;
	memset(b, 0, nb);
	if (n > 2 * nb) return -1;
	for (i = 0; i < n; i++) {
		int v = hexval(s[n - 1 - i]);
		if (v < 0) return -1;
		b[nb - 1 - i / 2] |= (unsigned char) (v << (4 * (i % 2)));
	}
	return 0;
}

static void puthex(const unsigned char *b, int nb) {
	int i;
	for (i = 0; i < nb; i++) printf("%02x", b[i]);
}

static uint64_t be2u(const unsigned char *b, int nb) {
	uint64_t v = 0; int i;
	for (i = 0; i < nb; i++) v = (v << 8) | b[i];
	return v;
}
static void u2be(uint64_t v, unsigned char *b, int nb) {
	int i;
	for (i = nb - 1; i >= 0; i--) { b[i] = (unsigned char) (v & 0xff); v >>= 8; }
}

static float  f_of(uint32_t u) { float f;  memcpy(&f, &u, 4); return f; }
static double d_of(uint64_t u) { double d; memcpy(&d, &u, 8); return d; }
static uint32_t u_of_f(float f)  { uint32_t u; memcpy(&u, &f, 4); return u; }
static uint64_t u_of_d(double d) { uint64_t u; memcpy(&u, &d, 8); return u; }

/* ---- params ------------------------------------------------------------ */

static void params(void) {
#define P(n) printf("%s %ld\n", #n, (long) (n))
#ifdef CC_SF_is_double
	printf("CC_SF_is_double 1\n");
#else
	printf("CC_SF_is_double 0\n");
#endif
#ifdef CC_little_endian
	printf("CC_little_endian 1\n");
#else
	printf("CC_little_endian 0\n");
#endif
#ifdef CC_vax_endian
	printf("CC_vax_endian 1\n");
#else
	printf("CC_vax_endian 0\n");
#endif
	P(CHAR_BIT); P(USHORT_BIT); P(BYTE_BITS);
	printf("sizeof_SF %ld\n", (long) sizeof(ALDOR_SF_TYPE));
	printf("sizeof_SFloat %ld\n", (long) sizeof(SFloat));
	printf("sizeof_float %ld\n", (long) sizeof(float));
	printf("sizeof_DF %ld\n", (long) sizeof(double));
	printf("sizeof_DFloat %ld\n", (long) sizeof(DFloat));
	printf("sizeof_XSFloat %ld\n", (long) sizeof(XSFloat));
	printf("sizeof_XDFloat %ld\n", (long) sizeof(XDFloat));
	printf("sizeof_FiWord %ld\n", (long) sizeof(FiWord));
	printf("sizeof_FiSFlo %ld\n", (long) sizeof(FiSFlo));
	printf("sizeof_FiDFlo %ld\n", (long) sizeof(FiDFlo));
	printf("sizeof_int %ld\n", (long) sizeof(int));
	P(XSFLOAT_BYTES); P(XDFLOAT_BYTES);
	P(SF_HasNANs); P(SF_HasNorm1); P(SF_LgLgBase); P(SF_Excess); P(SF_FracOff);
	P(DF_HasNANs); P(DF_HasNorm1); P(DF_LgLgBase); P(DF_Excess); P(DF_FracOff);
	P(XSF_HasNANs); P(XSF_HasNorm1); P(XSF_LgLgBase); P(XSF_Excess); P(XSF_FracOff);
	P(XDF_HasNANs); P(XDF_HasNorm1); P(XDF_LgLgBase); P(XDF_Excess); P(XDF_FracOff);
	/* derived, as the C compiler evaluates the macros of xfloat.c */
	P(SF_FracShift); P(SF_FracIx0); P(SF_FracSh0); P(SF_SignMask); P(SF_FracMask);
	P(SF_ExponMask); P(SF_ExponMin); P(SF_ExponNAN); P(SF_LgBase);
	P(DF_FracShift); P(DF_FracIx0); P(DF_FracSh0); P(DF_SignMask); P(DF_FracMask);
	P(DF_ExponMask); P(DF_ExponMin); P(DF_ExponNAN); P(DF_LgBase);
	P(XSF_FracShift); P(XSF_FracIx0); P(XSF_FracSh0); P(XSF_SignMask); P(XSF_FracMask);
	P(XSF_ExponMask); P(XSF_ExponMin); P(XSF_ExponNAN); P(XSF_LgBase);
	P(XDF_FracShift); P(XDF_FracIx0); P(XDF_FracSh0); P(XDF_SignMask); P(XDF_FracMask);
	P(XDF_ExponMask); P(XDF_ExponMin); P(XDF_ExponNAN); P(XDF_LgBase);
	P(DBL_DIG); P(FLT_DIG); P(MAX_FLOAT_SIZE);
	P(FLOAT_NORM); P(FLOAT_DENORM); P(FLOAT_ZERO); P(FLOAT_NAN); P(FLOAT_INF);
#undef P
	/* the C arithmetic type behind the typedefs used at the literal-conversion sites */
#define TYNAME(T) _Generic((T) 0, float: "float", double: "double", default: "other")
	printf("type_SFloat %s\n", TYNAME(SFloat));
	printf("type_DFloat %s\n", TYNAME(DFloat));
	printf("type_FiSFlo %s\n", TYNAME(FiSFlo));
	printf("type_FiDFlo %s\n", TYNAME(FiDFlo));
#undef TYNAME
}

/* ---- single operations ------------------------------------------------- */

#define MAXTOK 8

static void op_line(char *line) {
	char *tok[MAXTOK]; int nt = 0;
	char *p = strtok(line, " \t\r\n");
	while (p && nt < MAXTOK) { tok[nt++] = p; p = strtok(NULL, " \t\r\n"); }
	if (nt == 0) { printf("\n"); return; }
#define IS(s,n) (strcmp(tok[0], s) == 0 && nt == (n) + 1)
	if (IS("srt", 1)) {
		unsigned char nb[4], back[4]; XSFloat x; float f, g; uint32_t u;
		if (hex2bytes(tok[1], nb, 4)) goto bad;
		u = (uint32_t) be2u(nb, 4); f = f_of(u);
		memset(&x, 0xA5, sizeof x);
		xsfFrNative(&x, &f);
		memset(&g, 0x5A, sizeof g);
		xsfToNative(&x, &g);
		u2be(u_of_f(g), back, 4);
		printf("X="); puthex((unsigned char *) &x, XSFLOAT_BYTES);
		printf(" back="); puthex(back, 4); printf("\n");
	}
	else if (IS("drt", 1)) {
		unsigned char nb[8], back[8]; XDFloat x; double f, g; uint64_t u;
		if (hex2bytes(tok[1], nb, 8)) goto bad;
		u = be2u(nb, 8); f = d_of(u);
		memset(&x, 0xA5, sizeof x);
		xdfFrNative(&x, &f);
		memset(&g, 0x5A, sizeof g);
		xdfToNative(&x, &g);
		u2be(u_of_d(g), back, 8);
		printf("X="); puthex((unsigned char *) &x, XDFLOAT_BYTES);
		printf(" back="); puthex(back, 8); printf("\n");
	}
	else if (IS("sto", 1)) {
		XSFloat x; float g; unsigned char back[4];
		if (hex2bytes(tok[1], (unsigned char *) &x, 6)) goto bad;
		memset(&g, 0x5A, sizeof g);
		xsfToNative(&x, &g);
		u2be(u_of_f(g), back, 4); puthex(back, 4); printf("\n");
	}
	else if (IS("dto", 1)) {
		XDFloat x; double g; unsigned char back[8];
		if (hex2bytes(tok[1], (unsigned char *) &x, 10)) goto bad;
		memset(&g, 0x5A, sizeof g);
		xdfToNative(&x, &g);
		u2be(u_of_d(g), back, 8); puthex(back, 8); printf("\n");
	}
	else if (IS("sdis", 1)) {
		unsigned char nb[4], fr[4]; float f; Bool s, z; int e;
		if (hex2bytes(tok[1], nb, 4)) goto bad;
		f = f_of((uint32_t) be2u(nb, 4));
		memset(fr, 0xA5, 4);
		sfDissemble(&f, &s, &e, fr, &z);
		printf("%d %d ", s ? 1 : 0, e); puthex(fr, 4); printf(" %d\n", z ? 1 : 0);
	}
	else if (IS("ddis", 1)) {
		unsigned char nb[8], fr[8]; double f; Bool s, z; int e;
		if (hex2bytes(tok[1], nb, 8)) goto bad;
		f = d_of(be2u(nb, 8));
		memset(fr, 0xA5, 8);
		dfDissemble(&f, &s, &e, fr, &z);
		printf("%d %d ", s ? 1 : 0, e); puthex(fr, 8); printf(" %d\n", z ? 1 : 0);
	}
	else if (IS("sasm", 3)) {
		unsigned char fr[4], back[4]; float g;
		if (hex2bytes(tok[3], fr, 4)) goto bad;
		memset(&g, 0x5A, sizeof g);
		sfAssemble(&g, atoi(tok[1]), atoi(tok[2]), fr);
		u2be(u_of_f(g), back, 4); puthex(back, 4); printf("\n");
	}
	else if (IS("dasm", 3)) {
		unsigned char fr[8], back[8]; double g;
		if (hex2bytes(tok[3], fr, 8)) goto bad;
		memset(&g, 0x5A, sizeof g);
		dfAssemble(&g, atoi(tok[1]), atoi(tok[2]), fr);
		u2be(u_of_d(g), back, 8); puthex(back, 8); printf("\n");
	}
	else if (IS("xsdis", 1)) {
		XSFloat x; unsigned char fr[4]; Bool s; int e;
		if (hex2bytes(tok[1], (unsigned char *) &x, 6)) goto bad;
		xsfDissemble(&x, &s, &e, fr);
		printf("%d %d ", s ? 1 : 0, e); puthex(fr, 4); printf("\n");
	}
	else if (IS("xddis", 1)) {
		XDFloat x; unsigned char fr[8]; Bool s; int e;
		if (hex2bytes(tok[1], (unsigned char *) &x, 10)) goto bad;
		xdfDissemble(&x, &s, &e, fr);
		printf("%d %d ", s ? 1 : 0, e); puthex(fr, 8); printf("\n");
	}
	else if (IS("xsasm", 3)) {
		XSFloat x; unsigned char fr[4];
		if (hex2bytes(tok[3], fr, 4)) goto bad;
		memset(&x, 0xA5, sizeof x);
		xsfAssemble(&x, atoi(tok[1]), atoi(tok[2]), fr);
		puthex((unsigned char *) &x, 6); printf("\n");
	}
	else if (IS("xdasm", 3)) {
		XDFloat x; unsigned char fr[8];
		if (hex2bytes(tok[3], fr, 8)) goto bad;
		memset(&x, 0xA5, sizeof x);
		xdfAssemble(&x, atoi(tok[1]), atoi(tok[2]), fr);
		puthex((unsigned char *) &x, 10); printf("\n");
	}
	else if (IS("fsd", 2)) {	/* fiSFloDissemble; *psig0 pre-set to junk */
		unsigned char nb[4], jb[8]; FiBool s; FiSInt e; FiWord sig0;
		if (hex2bytes(tok[1], nb, 4) || hex2bytes(tok[2], jb, 8)) goto bad;
		sig0 = (FiWord) be2u(jb, 8);
		fiSFloDissemble((FiSFlo) f_of((uint32_t) be2u(nb, 4)), &s, &e, &sig0);
		printf("%ld %ld %016lx\n", (long) s, (long) e, (unsigned long) sig0);
	}
	else if (IS("fsa", 3)) {
		unsigned char wb[8], back[4]; FiSFlo g;
		if (hex2bytes(tok[3], wb, 8)) goto bad;
		g = fiSFloAssemble((FiBool) atol(tok[1]), (FiSInt) atol(tok[2]), (FiWord) be2u(wb, 8));
		u2be(u_of_f((float) g), back, 4); puthex(back, 4); printf("\n");
	}
	else if (IS("fdd", 1)) {	/* fiDFloDissemble; sig1 is not printed (see model) */
		unsigned char nb[8]; FiBool s; FiSInt e; FiWord sig0, sig1;
		if (hex2bytes(tok[1], nb, 8)) goto bad;
		fiDFloDissemble((FiDFlo) d_of(be2u(nb, 8)), &s, &e, &sig0, &sig1);
		printf("%ld %ld %016lx\n", (long) s, (long) e, (unsigned long) sig0);
	}
	else if (IS("fda", 4)) {
		unsigned char w0[8], w1[8], back[8]; FiDFlo g;
		if (hex2bytes(tok[3], w0, 8) || hex2bytes(tok[4], w1, 8)) goto bad;
		g = fiDFloAssemble((FiBool) atol(tok[1]), (FiSInt) atol(tok[2]),
				   (FiWord) be2u(w0, 8), (FiWord) be2u(w1, 8));
		u2be(u_of_d((double) g), back, 8); puthex(back, 8); printf("\n");
	}
	else if (IS("sda", 1)) {	/* sfDissemble ; sfAssemble */
		unsigned char nb[4], fr[4], back[4]; float f, g; Bool s; int e;
		if (hex2bytes(tok[1], nb, 4)) goto bad;
		f = f_of((uint32_t) be2u(nb, 4));
		sfDissemble(&f, &s, &e, fr, NULL);
		memset(&g, 0x5A, sizeof g);
		sfAssemble(&g, s, e, fr);
		u2be(u_of_f(g), back, 4); puthex(back, 4); printf("\n");
	}
	else if (IS("dda", 1)) {	/* dfDissemble ; dfAssemble */
		unsigned char nb[8], fr[8], back[8]; double f, g; Bool s; int e;
		if (hex2bytes(tok[1], nb, 8)) goto bad;
		f = d_of(be2u(nb, 8));
		dfDissemble(&f, &s, &e, fr, NULL);
		memset(&g, 0x5A, sizeof g);
		dfAssemble(&g, s, e, fr);
		u2be(u_of_d(g), back, 8); puthex(back, 8); printf("\n");
	}
	else if (IS("fsr", 2)) {	/* fiSFloDissemble ; fiSFloAssemble */
		unsigned char nb[4], jb[8], back[4]; FiBool s; FiSInt e; FiWord sig0; FiSFlo g;
		if (hex2bytes(tok[1], nb, 4) || hex2bytes(tok[2], jb, 8)) goto bad;
		sig0 = (FiWord) be2u(jb, 8);
		fiSFloDissemble((FiSFlo) f_of((uint32_t) be2u(nb, 4)), &s, &e, &sig0);
		g = fiSFloAssemble(s, e, sig0);
		u2be(u_of_f((float) g), back, 4); puthex(back, 4); printf("\n");
	}
	else if (IS("fdr", 1)) {	/* fiDFloDissemble ; fiDFloAssemble */
		unsigned char nb[8], back[8]; FiBool s; FiSInt e; FiWord sig0, sig1; FiDFlo g;
		if (hex2bytes(tok[1], nb, 8)) goto bad;
		fiDFloDissemble((FiDFlo) d_of(be2u(nb, 8)), &s, &e, &sig0, &sig1);
		g = fiDFloAssemble(s, e, sig0, sig1);
		u2be(u_of_d((double) g), back, 8); puthex(back, 8); printf("\n");
	}
	else if (IS("dsp", 2)) {	/* util.c DFloatSprint under cmdFloatRepFlag = tok[1] */
		unsigned char nb[8]; char buf[200]; double f;
		if (hex2bytes(tok[2], nb, 8)) goto bad;
		f = d_of(be2u(nb, 8));
		cmdFloatRepFlag = atoi(tok[1]) != 0;
		DFloatSprint(buf, f);
		cmdFloatRepFlag = false;
		printf("%s\n", buf);
	}
	else if (IS("shu", 3)) {	/* in place, bF = 0 : the only shape xfloat.c uses */
		unsigned char b[16]; int nb = atoi(tok[1]), nsh = atoi(tok[3]);
		if (nb < 1 || nb > 16 || nsh < 0 || hex2bytes(tok[2], b, nb)) goto bad;
		bfShiftUp(nb, b, nsh, b, int0);
		puthex(b, nb); printf("\n");
	}
	else if (IS("shd", 4)) {	/* in place, b0 = 0 */
		unsigned char b[16]; int nb = atoi(tok[1]), nsh = atoi(tok[3]);
		if (nb < 1 || nb > 16 || nsh < 0 || hex2bytes(tok[2], b, nb)) goto bad;
		bfShiftDn(nb, b, nsh, b, int0, atoi(tok[4]));
		puthex(b, nb); printf("\n");
	}
	else if (IS("shdo", 3)) {	/* out of place, nsh < CHAR_BIT, b0 = b1 = 0 : xxAssemble's shape */
		unsigned char b[16], r[16]; int nb = atoi(tok[1]), nsh = atoi(tok[3]);
		if (nb < 1 || nb > 16 || nsh < 0 || nsh >= CHAR_BIT || hex2bytes(tok[2], b, nb)) goto bad;
		memset(r, 0xA5, sizeof r);
		bfShiftDn(nb, r, nsh, b, int0, int0);
		puthex(r, nb); printf("\n");
	}
	else if (IS("ff1", 2)) {
		unsigned char b[16]; int nb = atoi(tok[1]);
		if (nb < 1 || nb > 16 || hex2bytes(tok[2], b, nb)) goto bad;
		printf("%d\n", bfFirst1(nb, b));
	}
	else if (IS("fnorm", 3)) {
		unsigned char b[16]; int e = atoi(tok[1]), nb = atoi(tok[2]);
		if (nb < 1 || nb > 16 || hex2bytes(tok[3], b, nb)) goto bad;
		fracNormalize(&e, nb, b);
		printf("%d ", e); puthex(b, nb); printf("\n");
	}
	else if (IS("fden", 6)) {
		unsigned char b[16]; int e = atoi(tok[1]), emin = atoi(tok[2]), nb = atoi(tok[3]);
		if (nb < 1 || nb > 16 || hex2bytes(tok[4], b, nb)) goto bad;
		fracDenormalize(&e, emin, nb, b, atoi(tok[5]), atoi(tok[6]));
		printf("%d ", e); puthex(b, nb); printf("\n");
	}
	else if (IS("scl", 1)) {
		unsigned char nb[4]; float f;
		if (hex2bytes(tok[1], nb, 4)) goto bad;
		f = f_of((uint32_t) be2u(nb, 4));
		printf("%d\n", (int) sfClassify(&f));
	}
	else if (IS("dcl", 1)) {
		unsigned char nb[8]; double f;
		if (hex2bytes(tok[1], nb, 8)) goto bad;
		f = d_of(be2u(nb, 8));
		printf("%d\n", (int) dfClassify(&f));
	}
	else if (IS("xscl", 1)) {
		XSFloat x;
		if (hex2bytes(tok[1], (unsigned char *) &x, 6)) goto bad;
		printf("%d\n", (int) xsfClassify(&x));
	}
	else if (IS("xdcl", 1)) {
		XDFloat x;
		if (hex2bytes(tok[1], (unsigned char *) &x, 10)) goto bad;
		printf("%d\n", (int) xdfClassify(&x));
	}
	else {
bad:
		printf("ERR\n");
	}
#undef IS
}

/* ---- bulk direct oracle ------------------------------------------------ */

struct stats {
	uint64_t n, nzero, nsub, nnorm, ninf, nnan;
	uint64_t fail_rt, fail_weak, fail_da, fail_fi, fail_cls;
	uint64_t ex_rt[4], ex_weak[4], ex_da[4], ex_fi[4], ex_cls[4];
	uint64_t xsum;
};
#define NOTE(field, v) do { if (st->fail_##field < 4) st->ex_##field[st->fail_##field] = (v); st->fail_##field++; } while (0)

static void check_single(uint32_t u, struct stats *st) {
	float f = f_of(u), g, h; XSFloat x; uint32_t back;
	uint32_t e = (u >> 23) & 0xff, fr = u & 0x7fffff;
	int isnan = (e == 0xff && fr != 0);
	Bool s; int ex; unsigned char fb[4];
	FiBool fs; FiSInt fe; FiWord sig0;
	int k; FloatCase want, xwant;

	st->n++;
	if (e == 0) { if (fr) st->nsub++; else st->nzero++; }
	else if (e == 0xff) { if (fr) st->nnan++; else st->ninf++; }
	else st->nnorm++;

	/* portable encoding and back */
	memset(&x, 0xA5, sizeof x);
	xsfFrNative(&x, &f);
	memset(&g, 0x5A, sizeof g);
	xsfToNative(&x, &g);
	back = u_of_f(g);
	if (back != u) {
		NOTE(rt, u);
		/* weak reading of the property: NaN must at least stay NaN */
		if (!isnan || !(((back >> 23) & 0xff) == 0xff && (back & 0x7fffff) != 0))
			NOTE(weak, u);
	}
	for (k = 0; k < 6; k++) st->xsum = st->xsum * 1099511628211ULL + ((unsigned char *) &x)[k];

	/* dissemble / assemble */
	sfDissemble(&f, &s, &ex, fb, NULL);
	memset(&h, 0x5A, sizeof h);
	sfAssemble(&h, s, ex, fb);
	if (u_of_f(h) != u) NOTE(da, u);

	/* run-time pair; the word the caller passes is not cleared by the callee */
	sig0 = (FiWord) 0xDEADBEEFCAFEF00DUL;
	fiSFloDissemble((FiSFlo) f, &fs, &fe, &sig0);
	h = (float) fiSFloAssemble(fs, fe, sig0);
	if (u_of_f(h) != u) NOTE(fi, u);

	/* classification of the native value and of its portable form */
	want = e == 0 ? (fr ? FLOAT_DENORM : FLOAT_ZERO) : e == 0xff ? (fr ? FLOAT_NAN : FLOAT_INF) : FLOAT_NORM;
	xwant = want == FLOAT_DENORM ? FLOAT_NORM : want;
	if (sfClassify(&f) != want || xsfClassify(&x) != xwant) NOTE(cls, u);
}

static void check_double(uint64_t u, struct stats *st) {
	double f = d_of(u), g, h; XDFloat x; uint64_t back;
	uint64_t e = (u >> 52) & 0x7ff, fr = u & 0xfffffffffffffULL;
	int isnan = (e == 0x7ff && fr != 0);
	Bool s; int ex; unsigned char fb[8];
	FiBool fs; FiSInt fe; FiWord sig0, sig1;
	int k; FloatCase want, xwant;

	st->n++;
	if (e == 0) { if (fr) st->nsub++; else st->nzero++; }
	else if (e == 0x7ff) { if (fr) st->nnan++; else st->ninf++; }
	else st->nnorm++;

	memset(&x, 0xA5, sizeof x);
	xdfFrNative(&x, &f);
	memset(&g, 0x5A, sizeof g);
	xdfToNative(&x, &g);
	back = u_of_d(g);
	if (back != u) {
		NOTE(rt, u);
		if (!isnan || !(((back >> 52) & 0x7ff) == 0x7ff && (back & 0xfffffffffffffULL) != 0))
			NOTE(weak, u);
	}
	for (k = 0; k < 10; k++) st->xsum = st->xsum * 1099511628211ULL + ((unsigned char *) &x)[k];

	dfDissemble(&f, &s, &ex, fb, NULL);
	memset(&h, 0x5A, sizeof h);
	dfAssemble(&h, s, ex, fb);
	if (u_of_d(h) != u) NOTE(da, u);

	fiDFloDissemble((FiDFlo) f, &fs, &fe, &sig0, &sig1);
	h = (double) fiDFloAssemble(fs, fe, sig0, sig1);
	if (u_of_d(h) != u) NOTE(fi, u);

	want = e == 0 ? (fr ? FLOAT_DENORM : FLOAT_ZERO) : e == 0x7ff ? (fr ? FLOAT_NAN : FLOAT_INF) : FLOAT_NORM;
	xwant = want == FLOAT_DENORM ? FLOAT_NORM : want;
	if (dfClassify(&f) != want || xdfClassify(&x) != xwant) NOTE(cls, u);
}

static void report(const char *tag, struct stats *st, int w) {
	int k;
	printf("%s n=%" PRIu64 " zero=%" PRIu64 " sub=%" PRIu64 " norm=%" PRIu64 " inf=%" PRIu64 " nan=%" PRIu64
	       " xsum=%016" PRIx64 "\n", tag, st->n, st->nzero, st->nsub, st->nnorm, st->ninf, st->nnan, st->xsum);
#define R(field) do { printf("fail_%s %" PRIu64, #field, st->fail_##field); \
	for (k = 0; k < 4 && (uint64_t) k < st->fail_##field; k++) printf(" %0*" PRIx64, w, st->ex_##field[k]); \
	printf("\n"); } while (0)
	R(rt); R(weak); R(da); R(fi); R(cls);
#undef R
}

/* first failing bit-field call, as an `ops` line */
static void bf_first(char *buf, size_t len, const char *op, int nb, unsigned __int128 v, int nsh, int b1) {
	char hex[40]; int k;
	for (k = 0; k < nb; k++) sprintf(hex + 2 * k, "%02x", (unsigned) ((v >> (8 * (nb - 1 - k))) & 0xff));
	if (strcmp(op, "ff1") == 0) snprintf(buf, len, "ff1 %d %s", nb, hex);
	else if (strcmp(op, "shd") == 0) snprintf(buf, len, "shd %d %s %d %d", nb, hex, nsh, b1);
	else snprintf(buf, len, "%s %d %s %d", op, nb, hex, nsh);
}

static uint64_t sm_state;
static uint64_t splitmix(void) {
	uint64_t z = (sm_state += 0x9E3779B97F4A7C15ULL);
	z = (z ^ (z >> 30)) * 0xBF58476D1CE4E5B9ULL;
	z = (z ^ (z >> 27)) * 0x94D049BB133111EBULL;
	return z ^ (z >> 31);
}

int main(int argc, char **argv) {
	if (argc >= 2 && strcmp(argv[1], "params") == 0) { params(); return 0; }
	if (argc >= 2 && strcmp(argv[1], "ops") == 0) {
		static char line[512];
		while (fgets(line, sizeof line, stdin)) op_line(line);
		return 0;
	}
	if (argc >= 4 && strcmp(argv[1], "bulkS") == 0) {
		uint64_t lo = strtoull(argv[2], NULL, 0), hi = strtoull(argv[3], NULL, 0), u;
		struct stats st; memset(&st, 0, sizeof st);
		for (u = lo; u < hi; u++) check_single((uint32_t) u, &st);
		report("bulkS", &st, 8);
		return 0;
	}
	if (argc >= 4 && strcmp(argv[1], "bulkD") == 0) {
		uint64_t n = strtoull(argv[3], NULL, 0), i;
		struct stats st; memset(&st, 0, sizeof st);
		sm_state = strtoull(argv[2], NULL, 0);
		for (i = 0; i < n; i++) {
			uint64_t r = splitmix(), u = splitmix(), sel = r & 7;
			if (sel == 0)		/* subnormal / zero exponent, random fraction */
				u &= 0x800fffffffffffffULL;
			else if (sel == 1)	/* Inf / NaN exponent */
				u |= 0x7ff0000000000000ULL;
			else if (sel == 2) {	/* sparse fraction: a few set bits */
				uint64_t fr = (1ULL << ((r >> 8) % 52)) | (1ULL << ((r >> 16) % 52));
				if ((r >> 24) & 1) fr = 1ULL << ((r >> 8) % 52);
				u = (u & 0xfff0000000000000ULL) | fr;
			}
			else if (sel == 3) {	/* extreme exponents 0,1,2,2045,2046,2047 */
				static const uint64_t ee[6] = { 0, 1, 2, 2045, 2046, 2047 };
				u = (u & 0x800fffffffffffffULL) | (ee[(r >> 8) % 6] << 52);
			}
			check_double(u, &st);
		}
		report("bulkD", &st, 16);
		return 0;
	}
	if (argc >= 4 && strcmp(argv[1], "bulkBF") == 0) {
		/* util.c bit-field helpers against plain integer arithmetic (unsigned __int128):
		 * exhaustive for 1- and 2-byte buffers over every shift count, sampled for 4, 8 and
		 * 10 bytes; only the call shapes xfloat.c uses (in place, bF = b0 = 0). */
		uint64_t n = strtoull(argv[3], NULL, 0), i, cnt = 0, fail = 0;
		unsigned char first[96];
		int nb, nsh, b1;
		sm_state = strtoull(argv[2], NULL, 0);
		for (nb = 1; nb <= 10; nb++) {
			int bits = 8 * nb;
			uint64_t reps;
			if (nb != 1 && nb != 2 && nb != 4 && nb != 8 && nb != 10) continue;
			reps = nb <= 2 ? (1ULL << bits) : n;
			for (i = 0; i < reps; i++) {
				unsigned __int128 v, mask, want, got;
				unsigned char b[16], r[16]; int k;
				if (nb <= 2) v = i;
				else { v = ((unsigned __int128) splitmix() << 64) | splitmix();
				       if (splitmix() & 1) v >>= (int) (splitmix() % bits); }
				mask = (((unsigned __int128) 1) << bits) - 1;
				v &= mask;
				for (nsh = 0; nsh <= bits + 9; nsh++) {
					if (nb > 2 && (splitmix() & 3)) continue;
					/* bfShiftUp */
					for (k = 0; k < nb; k++) b[k] = (unsigned char) (v >> (8 * (nb - 1 - k)));
					bfShiftUp(nb, b, nsh, b, int0);
					for (got = 0, k = 0; k < nb; k++) got = (got << 8) | b[k];
					want = nsh >= bits ? 0 : (v << nsh) & mask;
					cnt++;
					if (got != want) { if (!fail) bf_first((char *) first, sizeof first, "shu", nb, v, nsh, 0); fail++; }
					/* bfShiftDn, b1 = 0 / 1 */
					for (b1 = 0; b1 <= 1; b1++) {
						for (k = 0; k < nb; k++) b[k] = (unsigned char) (v >> (8 * (nb - 1 - k)));
						bfShiftDn(nb, b, nsh, b, int0, b1);
						for (got = 0, k = 0; k < nb; k++) got = (got << 8) | b[k];
						want = nsh >= bits ? 0 : v >> nsh;
						if (b1 && nsh >= 1 && nsh <= bits) want |= ((unsigned __int128) 1) << (bits - nsh);
						cnt++;
						if (got != want) { if (!fail) bf_first((char *) first, sizeof first, "shd", nb, v, nsh, b1); fail++; }
					}
					/* out of place, the shape of xxAssemble */
					if (nsh < 8) {
						for (k = 0; k < nb; k++) b[k] = (unsigned char) (v >> (8 * (nb - 1 - k)));
						memset(r, 0xA5, sizeof r);
						bfShiftDn(nb, r, nsh, b, int0, int0);
						for (got = 0, k = 0; k < nb; k++) got = (got << 8) | r[k];
						cnt++;
						if (got != (v >> nsh)) { if (!fail) bf_first((char *) first, sizeof first, "shdo", nb, v, nsh, 0); fail++; }
					}
				}
				/* bfFirst1 */
				{
					int want1 = -1, g;
					for (k = 0; k < nb; k++) b[k] = (unsigned char) (v >> (8 * (nb - 1 - k)));
					for (k = bits - 1; k >= 0; k--) if ((v >> k) & 1) { want1 = bits - 1 - k; break; }
					g = bfFirst1(nb, b);
					cnt++;
					if (g != want1) { if (!fail) bf_first((char *) first, sizeof first, "ff1", nb, v, 0, 0); fail++; }
				}
			}
		}
		printf("bulkBF n=%" PRIu64 " fail=%" PRIu64 " first=%s\n", cnt, fail, fail ? (char *) first : "-");
		return 0;
	}
	fprintf(stderr, "usage: h params | ops | bulkS lo hi | bulkD seed n | bulkBF seed n\n");
	return 2;
}
