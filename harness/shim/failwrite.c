/* LD_PRELOAD shim for C18: make one chosen output file unwritable.
   glibc's stdio does not go through the interposable write(), so the shim
   interposes fopen(): a file opened for writing whose path ends in
   VERIF_FAIL_PATH is opened on /dev/full instead - every flush of its buffer
   then fails with ENOSPC (device full), exactly as on a full disk. */
#define _GNU_SOURCE
#include <dlfcn.h>
#include <stdio.h>
#include <stdlib.h>
#include <string.h>

static int matches(const char *path, const char *mode) {
	const char *suf = getenv("VERIF_FAIL_PATH");
	size_t ls, lp;
	if (!suf || !*suf || !path || !mode) return 0;
	if (!strchr(mode, 'w') && !strchr(mode, 'a') && !strchr(mode, '+')) return 0;
	ls = strlen(suf); lp = strlen(path);
	return lp >= ls && strcmp(path + lp - ls, suf) == 0;
}

FILE *fopen(const char *path, const char *mode) {
	static FILE *(*real)(const char *, const char *);
	if (!real) real = dlsym(RTLD_NEXT, "fopen");
	if (matches(path, mode)) return real("/dev/full", "w");
	return real(path, mode);
}

FILE *fopen64(const char *path, const char *mode) {
	static FILE *(*real)(const char *, const char *);
	if (!real) real = dlsym(RTLD_NEXT, "fopen64");
	if (matches(path, mode)) return real("/dev/full", "w");
	return real(path, mode);
}
