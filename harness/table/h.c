/* Harness for table.c of the CURRENT tree: one operation per line on stdin, one result per line
 * (same protocol as coq/Table/driver.ml).  The hash / equality functions are the C twins of
 * mode_hash / mode_eq in coq/Table/Model.v. */
#include "axlgen.h"
#include "store.h"
#include "table.h"
#include "opsys.h"
#include <stdio.h>
#include <string.h>
#include <stdlib.h>

static long mode;

static Hash hf(TblKey kp)
{
	unsigned long k = (unsigned long) kp;
	switch (mode) {
	case 1: return k % 4;
	case 2: return 42;
	case 3: return (k / 8) * 7919 + 3;
	case 4: return k * 1000003UL;
	case 5: return k / 4;
	default: return (k % 16) * 4294967296UL + 5;
	}
}

static Bool ef(TblKey a, TblKey b)
{
	unsigned long x = (unsigned long) a, y = (unsigned long) b;
	if (mode == 3) return x / 8 == y / 8;
	return x == y;
}

static TblElt mf(TblElt e) { return (TblElt) ((long) e + 1); }

int main(int argc, char **argv)
{
	static char line[1 << 16];
	Table t = 0;
	osInit();
	stoCtl(StoCtl_GcLevel, StoCtl_GcLevel_Never);
	while (fgets(line, sizeof line, stdin)) {
		long a, b;
		char ps[4096];
		if (sscanf(line, "new %ld %ld %ld %4000s", &mode, &a, &b, ps) == 4) {
			/* initbuckc / maxload / primes are compile-time constants of the tree; the
			 * values on the line are the ones the check read from the same source */
			if (t) tblFree(t);
			t = tblNew(mode == 0 ? (TblHashFun) 0 : hf,
				   (mode == 0 || mode == 5) ? (TblEqFun) 0 : ef);
			printf("ok\n");
		}
		else if (sscanf(line, "set %ld %ld", &a, &b) == 2)
			printf("= %ld\n", (long) tblSetElt(t, (TblKey) a, (TblElt) b));
		else if (sscanf(line, "get %ld %ld", &a, &b) == 2)
			printf("= %ld\n", (long) tblElt(t, (TblKey) a, (TblElt) b));
		else if (sscanf(line, "drop %ld", &a) == 1) {
			t = tblDrop(t, (TblKey) a);
			printf("ok\n");
		}
		else if (!strncmp(line, "size", 4))
			printf("= %ld\n", (long) tblSize(t));
		else if (!strncmp(line, "iter", 4)) {
			TableIterator it;
			int first = 1;
			printf("iter ");
			for (tblITER(it, t); tblMORE(it); tblSTEP(it)) {
				printf("%s%ld=%ld", first ? "" : " ", (long) tblKEY(it), (long) tblELT(it));
				first = 0;
			}
			printf("\n");
		}
		else if (!strncmp(line, "copy", 4)) {
			Table nt = tblCopy(t);
			/* scribble over the old table before freeing it: the copy must not share slots */
			tblNMap(mf, t); tblNMap(mf, t); tblNMap(mf, t);
			tblFree(t);
			t = nt;
			printf("ok\n");
		}
		else if (!strncmp(line, "nmap", 4)) {
			t = tblNMap(mf, t);
			printf("ok\n");
		}
		else if (!strncmp(line, "dump", 4)) {
			Length i;
			printf("dump %lu %lu", (unsigned long) t->count, (unsigned long) t->buckc);
			for (i = 0; i < t->buckc; i++) {
				struct TblSlot *s = t->buckv[i];
				if (!s) continue;
				printf(" | %lu:", (unsigned long) i);
				for (; s; s = s->next)
					printf(" %ld=%ld#%lu", (long) s->key, (long) s->elt, (unsigned long) s->hash);
			}
			printf(" | n=%lu\n", (unsigned long) t->buckc);
		}
		else if (line[0] == '\n') ;
		else printf("?? %s", line);
	}
	return 0;
}
