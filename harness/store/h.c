/*
 * C10 harness: drives /repo's CURRENT store.c (included textually so that the
 * static allocator state can be read: section of a block, offset, true size)
 * with an operation script read from stdin and prints, for every step,
 *
 *   <canonical part> | <raw part>
 *
 * canonical part  (compared with the extracted Coq model):
 *     placement (section ordinal, byte offset of the returned pointer in its
 *     section), stoSize, stoCode, new sections (ordinal, kind, pages, class),
 *     blocks freed by a collection, sections released by a collection.
 * raw part (consumed only by the independent property oracle in props/c10.py):
 *     raw address, audit result, result of the byte-pattern verification of
 *     every live block, base page of new sections.
 *
 * Script (one op per line, ids are small integers chosen by the script):
 *   a <id> <nbytes> <code>          p = stoAlloc(code, nbytes); fill pattern
 *   f <id>                          stoFree
 *   r <id> <nbytes>                 stoResize; verify prefix; refill pattern
 *   c <id> <code>                   stoRecode
 *   p <id> <slot> <tid> <off>       word <slot> of block id := addr(tid)+off
 *   R <slot> <tid> <off>            root[slot] := addr(tid)+off   (tid<0: clear)
 *   g                               stoGc()
 *   d <id>                          the script drops its reference to block id without freeing it
 *                                   (garbage for the collector; the harness stops tracking the block)
 *   L <level>                       stoCtl(StoCtl_GcLevel, level)
 *   q                               quit
 *
 * Block addresses are kept XOR-masked in the harness tables so that the
 * conservative scan of static data does not see them; only root[] holds
 * genuine pointers.  Every byte of the fill pattern is non-zero, so no
 * aligned pattern word is a heap address.
 */
#include "store.c"

#include <setjmp.h>
#include <signal.h>
#include <stdint.h>
#include <sys/mman.h>
static size_t		tablesBytes;

/* ---- stubs for the few externals store.c/util.c need ------------------- */
int _dont_assert = 0;
static jmp_buf		hJmp;
static int		hJmpOk = 0;
static char		hAssertMsg[512];

void
_do_assert(char *str, char *file, int line)
{
	const char *b = strrchr(file, '/');
	snprintf(hAssertMsg, sizeof hAssertMsg, "%s:%d:%s", b ? b + 1 : file, line,
		 str ? str : "?");
	{ char *s; for (s = hAssertMsg; *s; s++) if (*s == ' ' || *s == '\n') *s = '_'; }
	if (hJmpOk) longjmp(hJmp, 1);
	printf("X assert %s\n", hAssertMsg);
	fflush(stdout);
	_exit(3);
}
void bintFree(void *x) { (void) x; }

/* ---- tables ------------------------------------------------------------ */
#define MASK	((uintptr_t) 0xA5A5A5A5A5A5A5A5ULL)
#define MAXBLK	131072
#define MAXPTR	4
#define MAXROOT	8192
#define MAXSECT	65536

struct hptr { int used; long slot; uintptr_t xval; };
struct hblk {
	int		live;
	uintptr_t	xaddr;		/* raw address ^ MASK */
	unsigned long	req;		/* requested size */
	unsigned long	tsz;		/* stoSize at allocation */
	int		gen;
	struct hptr	ptr[MAXPTR];
	long		fanN;		/* words 2..fanN+1 point to blocks fanBase.. (fan-out macro) */
	long		fanBase;
	int		fanMode;
};
static struct hblk	*blk;		/* mmap'd; made read-only while the collector runs */

/* The registered roots: a static array, scanned by the collector as data. */
Pointer			hRoots[MAXROOT];

struct hsect { uintptr_t xbase; long ord; int live; };
static struct hsect	*sects;
static long		nsects = 0, nextOrd = 0;
static uintptr_t	xorigin = 0; static int haveOrigin = 0;

static MostAlignedType *
hErr(int errnum)
{
	if (errnum == StoErr_OutOfMemory) return 0;
	snprintf(hAssertMsg, sizeof hAssertMsg, "stoError:%d", errnum);
	if (hJmpOk) longjmp(hJmp, 1);
	printf("X %s\n", hAssertMsg); fflush(stdout); _exit(3);
	return 0;
}

static void
hSig(int sig)
{
	printf("\nX signal %d\n", sig);
	fflush(stdout);
	_exit(4);
}

/* ---- pattern ----------------------------------------------------------- */
static inline unsigned char
patByte(int id, int gen, unsigned long i)
{
	return (unsigned char) (1 + ((i + (unsigned long) id * 7 + (unsigned long) gen * 13) % 251));
}

/* offset of the pointer stored for leaf j of a fan-out / chain: aimed inside the leaf */
static unsigned long
leafOff(int mode, long j, unsigned long tsz)
{
	if (mode == 0 || tsz == 0) return 0;
	if (mode == 1) return (unsigned long) (j * 7) % tsz;
	return tsz - 1;
}

static uintptr_t
fanWord(struct hblk *b, long j)
{
	struct hblk *l = &blk[b->fanBase + j];
	return (l->xaddr ^ MASK) + leafOff(b->fanMode, j, l->tsz);
}

static void
patFill(int id)
{
	struct hblk *b = &blk[id];
	unsigned char *p = (unsigned char *) (b->xaddr ^ MASK);
	unsigned long i, n = b->tsz >= b->req ? b->tsz : b->req;
	int k;
	for (i = 0; i < n; i++) p[i] = patByte(id, b->gen, i);
	for (k = 0; k < MAXPTR; k++) if (b->ptr[k].used)
		((uintptr_t *) p)[b->ptr[k].slot] = b->ptr[k].xval ^ MASK;
	{ long j; for (j = 0; j < b->fanN; j++) ((uintptr_t *) p)[2 + j] = fanWord(b, j); }
	p = 0;
}

/* first offset at which block id differs from what its owner wrote, or -1;
 * only the first `n' bytes are examined, with generation `gen'. */
static long
patCheckN(int id, int gen, unsigned long n, unsigned char *p)
{
	struct hblk *b = &blk[id];
	unsigned long i;
	int k;
	for (i = 0; i < n; i++) {
		unsigned char e = patByte(id, gen, i);
		if (p[i] != e) {
			/* maybe inside a pointer slot */
			int ok = 0;
			for (k = 0; k < MAXPTR; k++) if (b->ptr[k].used) {
				unsigned long lo = b->ptr[k].slot * 8;
				if (lo <= i && i < lo + 8) {
					uintptr_t v = b->ptr[k].xval ^ MASK;
					if (p[i] == ((unsigned char *) &v)[i - lo]) ok = 1;
					v = 0;
				}
			}
			if (!ok && b->fanN && i / 8 >= 2 && (long) (i / 8) < 2 + b->fanN) {
				uintptr_t v = fanWord(b, (long) (i / 8) - 2);
				if (p[i] == ((unsigned char *) &v)[i % 8]) ok = 1;
				v = 0;
			}
			if (!ok) return (long) i;
		}
	}
	return -1;
}

static int	patBadId; static long patBadOff;
static int	maxId = -1;
static int
patCheckAll(void)
{
	int id;
	for (id = 0; id <= maxId; id++) if (blk[id].live) {
		struct hblk *b = &blk[id];
		unsigned long n = b->tsz >= b->req ? b->tsz : b->req;
		long o = patCheckN(id, b->gen, n, (unsigned char *) (b->xaddr ^ MASK));
		if (o >= 0) { patBadId = id; patBadOff = o; return 0; }
	}
	return 1;
}

/* ---- sections ---------------------------------------------------------- */
static char newSecBuf[256];

/* ordinal of the section containing p (which must be in a busy section);
 * registers the section when it is seen for the first time. */
static long
sectOrd(Pointer p, long *poff)
{
	Section *s = sectFor(p);
	long i;
	uintptr_t xb;
	if (!s) { *poff = -1; return -1; }
	xb = (uintptr_t) s ^ MASK;
	*poff = (long) ((char *) p - (char *) s);
	for (i = nsects - 1; i >= 0; i--)
		if (sects[i].live && sects[i].xbase == xb) return sects[i].ord;
	if (!haveOrigin) { xorigin = xb; haveOrigin = 1; }
	if (nsects >= MAXSECT) { printf("X too-many-sections\n"); fflush(stdout); _exit(5); }
	sects[nsects].xbase = xb; sects[nsects].ord = nextOrd; sects[nsects].live = 1;
	nsects++;
	snprintf(newSecBuf + strlen(newSecBuf), sizeof newSecBuf - strlen(newSecBuf),
		 " ns=%ld:%c:%d:%d@%ld", nextOrd, s->isFixed ? 'F' : 'M', (int) s->pgCount,
		 s->isFixed ? (int) s->qmSizeIndex : 0,
		 (long) (((intptr_t) (xb ^ MASK) - (intptr_t) (xorigin ^ MASK)) / (long) PgSize));
	return nextOrd++;
}

/* after a collection: which known sections were given back */
static void
sectPurge(char *out, size_t outsz)
{
	long i, j = 0;
	for (i = 0; i < nsects; i++) {
		char *base = (char *) (sects[i].xbase ^ MASK);
		int gone = !isInHeap(base) || pgMap[pgNo(base)] != PgBusyFirst;
		base = 0;
		if (gone) {
			snprintf(out + strlen(out), outsz - strlen(out), "%s%ld",
				 out[0] ? "," : "", sects[i].ord);
		}
		else sects[j++] = sects[i];
	}
	nsects = j;
}

/* ---- the operations, each in its own frame ----------------------------- */
static int	hAudit(void);

/* every block the script still owns must still be allocated */
static int
lostCheck(void)
{
	int id;
	for (id = 0; id <= maxId; id++)
		if (blk[id].live && !stoIsPointer((Pointer) (blk[id].xaddr ^ MASK))) return id;
	return -1;
}

static void
tail(void)
{
	int au = hAudit();
	int lost = lostCheck();
	int pt = patCheckAll();
	if (pt) printf(" au=%d lost=%d bgc=%lu pat=1\n", au, lost, (unsigned long) stoBytesGc);
	else	printf(" au=%d lost=%d bgc=%lu pat=0:%d:%ld\n", au, lost, (unsigned long) stoBytesGc, patBadId, patBadOff);
}

static int
hAudit(void)
{
	int ok = 1;
	hJmpOk = 1;
	if (setjmp(hJmp)) ok = 0; else stoAudit();
	hJmpOk = 0;
	if (!ok) printf(" auditmsg=%s", hAssertMsg);
	return ok;
}

static __attribute__((noinline)) void
doAlloc(int id, unsigned long n, unsigned code)
{
	Pointer p;
	long ord, off;
	newSecBuf[0] = 0;
	p = (Pointer) stoAlloc(code, n);
	if (!p) { printf("A %d null |", id); tail(); return; }
	memset(&blk[id], 0, sizeof blk[id]);
	if (id > maxId) maxId = id;
	blk[id].live = 1; blk[id].xaddr = (uintptr_t) p ^ MASK; blk[id].req = n;
	blk[id].tsz = stoSize(p); blk[id].gen = 0;
	ord = sectOrd(p, &off);
	printf("A %d s=%ld o=%ld z=%lu c=%u%s | raw=%lx", id, ord, off, blk[id].tsz,
	       stoCode(p), newSecBuf, (unsigned long) p);
	p = 0;
	patFill(id);
	tail();
}

static __attribute__((noinline)) void
doFree(int id)
{
	Pointer p = (Pointer) (blk[id].xaddr ^ MASK);
	blk[id].live = 0;
	stoFree(p);
	p = 0;
	printf("F %d |", id);
	tail();
}

static __attribute__((noinline)) void
doResize(int id, unsigned long n)
{
	struct hblk *b = &blk[id];
	Pointer p = (Pointer) (b->xaddr ^ MASK), np;
	unsigned long otsz = b->tsz, keep, i;
	long ord, off, bad;
	int k, same;
	char pre[80];
	newSecBuf[0] = 0;
	np = (Pointer) stoResize(p, n);
	same = (np == p);
	p = 0;
	if (!np) { printf("R %d null |", id); tail(); return; }
	keep = n < otsz ? n : otsz;
	/* the common prefix must have survived, byte for byte */
	bad = patCheckN(id, b->gen, keep, (unsigned char *) np);
	pre[0] = 0;
	for (i = 0; i < (same ? otsz : keep) && i < 16; i++)
		snprintf(pre + 2 * i, 3, "%02x", ((unsigned char *) np)[i]);
	b->xaddr = (uintptr_t) np ^ MASK;
	b->req = n; b->tsz = stoSize(np);
	/* pointer slots outside the copied prefix are gone */
	for (k = 0; k < MAXPTR; k++)
		if (b->ptr[k].used && (unsigned long) (b->ptr[k].slot + 1) * 8 > keep)
			b->ptr[k].used = 0;
	/* the first 16 bytes are not pointer slots (slots start at word 2) */
	b->gen++;
	ord = sectOrd(np, &off);
	printf("R %d s=%ld o=%ld z=%lu c=%u same=%d pre=%s%s | raw=%lx prefix=%ld", id, ord, off,
	       b->tsz, stoCode(np), same, pre, newSecBuf, (unsigned long) np, bad);
	np = 0;
	patFill(id);
	tail();
}

static __attribute__((noinline)) void
doRecode(int id, unsigned code)
{
	Pointer p = (Pointer) (blk[id].xaddr ^ MASK);
	Pointer q = (Pointer) stoRecode(p, code);
	printf("C %d c=%u z=%lu same=%d |", id, stoCode(p), stoSize(p), q == p);
	p = q = 0;
	tail();
}

/* canonical description of a raw pointer value: byte distance from the first
 * page of the first section ever created (what the model calls an absolute
 * address) */
static long
canonAbs(Pointer v)
{
	return (long) ((intptr_t) v - (intptr_t) (xorigin ^ MASK));
}

static __attribute__((noinline)) void
doSetPtr(int id, long slot, int tid, long off)
{
	struct hblk *b = &blk[id];
	int k, kk = -1;
	long ord, so;
	for (k = 0; k < MAXPTR; k++) if (b->ptr[k].used && b->ptr[k].slot == slot) kk = k;
	if (kk < 0) for (k = 0; k < MAXPTR; k++) if (!b->ptr[k].used) { kk = k; break; }
	if (kk < 0 || (unsigned long) (slot + 1) * 8 > b->tsz || slot < 2) {
		printf("P %d skip |", id); tail(); return;
	}
	if (tid < 0) {
		b->ptr[kk].used = 0;
		printf("P %d %ld clear |", id, slot);
	}
	else {
		Pointer v = (Pointer) ((char *) (blk[tid].xaddr ^ MASK) + off);
		b->ptr[kk].used = 1; b->ptr[kk].slot = slot; b->ptr[kk].xval = (uintptr_t) v ^ MASK;
		printf("P %d %ld v=%ld | raw=%lx", id, slot, canonAbs(v), (unsigned long) v);
		v = 0;
	}
	patFill(id);
	tail();
}

static __attribute__((noinline)) void
doSetRoot(long slot, int tid, long off)
{
	long ord, so;
	if (tid < 0) {
		hRoots[slot] = 0;
		printf("T %ld clear |", slot);
	}
	else {
		hRoots[slot] = (Pointer) ((char *) (blk[tid].xaddr ^ MASK) + off);
		printf("T %ld v=%ld | raw=%lx", slot, canonAbs(hRoots[slot]), (unsigned long) hRoots[slot]);
	}
	tail();
}

/* overwrite the part of the stack that the collector's frames will occupy,
 * so that stale copies of block addresses do not act as roots */
static __attribute__((noinline)) void
scrub(void)
{
	volatile char junk[65536];
	unsigned i;
	for (i = 0; i < sizeof junk; i++) junk[i] = 0;
}

static __attribute__((noinline)) void
doGc(void)
{
	static char freed[2 << 20], rel[4096];
	char *fp = freed;
	int id, ok = 1;
	freed[0] = rel[0] = 0;
	scrub();
	/* the collector scans writable mappings only: keep it out of the harness tables */
	mprotect(blk, tablesBytes, PROT_READ);
	hJmpOk = 1;
	if (setjmp(hJmp)) ok = 0; else stoGc();
	hJmpOk = 0;
	mprotect(blk, tablesBytes, PROT_READ | PROT_WRITE);
	if (!ok) { printf("X assert-in-gc %s\n", hAssertMsg); fflush(stdout); _exit(3); }
	for (id = 0; id <= maxId; id++) if (blk[id].live) {
		if (!stoIsPointer((Pointer) (blk[id].xaddr ^ MASK))) {
			blk[id].live = 0;
			if (fp - freed < (long) sizeof freed - 16)
				fp += sprintf(fp, "%s%d", fp == freed ? "" : ",", id);
		}
	}
	sectPurge(rel, sizeof rel);
	printf("G freed=%s rel=%s |", freed, rel);
	tail();
}

#include <sys/wait.h>
#include <unistd.h>

/* internal allocation for the macro ops: no output */
static int
mAlloc(int id, unsigned long n, unsigned code)
{
	Pointer p = (Pointer) stoAlloc(code, n);
	if (!p) return 0;
	memset(&blk[id], 0, sizeof blk[id]);
	if (id > maxId) maxId = id;
	blk[id].live = 1; blk[id].xaddr = (uintptr_t) p ^ MASK; blk[id].req = n;
	blk[id].tsz = stoSize(p);
	p = 0;
	return 1;
}

static void
mSetPtr(int id, int k, long slot, uintptr_t v)
{
	blk[id].ptr[k].used = 1; blk[id].ptr[k].slot = slot; blk[id].ptr[k].xval = v ^ MASK;
}

static void
mPrintBlocks(int first, long n)
{
	long i;
	printf(" | blocks=");
	for (i = 0; i < n; i++)
		printf("%s%lx:%lu", i ? ";" : "", (unsigned long) (blk[first + i].xaddr ^ MASK), blk[first + i].tsz);
}

/* K first n cellsz leafsz nslot lslot noff lmode:
 * a chain of n cells (ids first..first+n-1), cell i holds in word nslot a pointer to
 * cell i+1 (+noff bytes) and in word lslot a pointer into its own leaf (ids first+n..first+2n-1). */
static __attribute__((noinline)) void
doChain(long first, long n, long cellsz, long leafsz, long nslot, long lslot, long noff, long lmode)
{
	long i;
	for (i = 0; i < n; i++)
		if (!mAlloc((int) (first + i), (unsigned long) cellsz, 5) ||
		    !mAlloc((int) (first + n + i), (unsigned long) leafsz, 6)) {
			printf("K %ld null |", first); tail(); return;
		}
	for (i = 0; i < n; i++) {
		struct hblk *l = &blk[first + n + i];
		if (i + 1 < n) mSetPtr((int) (first + i), 0, nslot, (blk[first + i + 1].xaddr ^ MASK) + (uintptr_t) noff);
		mSetPtr((int) (first + i), 1, lslot, (l->xaddr ^ MASK) + leafOff((int) lmode, i, l->tsz));
	}
	for (i = 0; i < 2 * n; i++) patFill((int) (first + i));
	printf("K %ld %ld", first, n);
	mPrintBlocks((int) first, 2 * n);
	tail();
}

/* W id n leafsz first lmode: one block of n+2 words whose words 2..n+1 point into n leaves */
static __attribute__((noinline)) void
doFan(long id, long n, long leafsz, long first, long lmode)
{
	long i;
	for (i = 0; i < n; i++)
		if (!mAlloc((int) (first + i), (unsigned long) leafsz, 6)) { printf("W %ld null |", id); tail(); return; }
	if (!mAlloc((int) id, (unsigned long) (8 * (n + 2)), 7)) { printf("W %ld null |", id); tail(); return; }
	blk[id].fanN = n; blk[id].fanBase = first; blk[id].fanMode = (int) lmode;
	for (i = 0; i < n; i++) patFill((int) (first + i));
	patFill((int) id);
	printf("W %ld %ld", id, n);
	mPrintBlocks((int) id, 1);
	printf(" leaves=");
	for (i = 0; i < n; i++)
		printf("%s%lx:%lu", i ? ";" : "", (unsigned long) (blk[first + i].xaddr ^ MASK), blk[first + i].tsz);
	tail();
}

static char	**lines; static long nlines = 0, *match;

static void
runOne(char *line, long step)
{
	char op = line[0];
	long a = 0, b = 0, c = 0, d = 0, e = 0, f = 0, g = 0, h = 0;
	int ok = 1;
	sscanf(line + 1, "%ld %ld %ld %ld %ld %ld %ld %ld", &a, &b, &c, &d, &e, &f, &g, &h);
	hJmpOk = 1;
	if (setjmp(hJmp)) ok = 0;
	else switch (op) {
	case 'a': doAlloc((int) a, (unsigned long) b, (unsigned) c); break;
	case 'f': doFree((int) a); break;
	case 'r': doResize((int) a, (unsigned long) b); break;
	case 'c': doRecode((int) a, (unsigned) b); break;
	case 'p': doSetPtr((int) a, b, (int) c, d); break;
	case 'R': doSetRoot(a, (int) b, c); break;
	case 'g': doGc(); break;
	case 'K': doChain(a, b, c, d, e, f, g, h); break;
	case 'W': doFan(a, b, c, d, e); break;
	case 'd': blk[a].live = 0; printf("D %ld |", a); tail(); break;
	case 'L': stoCtl(StoCtl_GcLevel, (int) a); printf("L %ld |", a); tail(); break;
	default:  printf("? %c\n", op); break;
	}
	hJmpOk = 0;
	if (!ok) {
		printf("\nX assert step=%ld %s\n", step, hAssertMsg);
		fflush(stdout);
		_exit(3);
	}
}

/* '(' forks: the child runs the bracketed lines and exits at the matching
 * ')', the parent waits and continues after it; so the lines between the
 * brackets are an excursion from the current allocator state. */
static void
runFrom(long i)
{
	while (i < nlines) {
		char op = lines[i][0];
		if (op == 'q') break;
		if (op == '#' || op == '\n' || op == 0) { i++; continue; }
		if (op == '(') {
			pid_t pid;
			int status = 0;
			printf("(\n");
			fflush(stdout);
			pid = fork();
			if (pid == 0) { i++; continue; }
			if (pid < 0) { printf("X fork-failed\n"); fflush(stdout); _exit(6); }
			waitpid(pid, &status, 0);
			if (!(WIFEXITED(status) && WEXITSTATUS(status) == 0))
				printf("X child status=%d\n", status);
			printf(")\n");
			i = match[i] + 1;
			continue;
		}
		if (op == ')') { fflush(stdout); _exit(0); }
		runOne(lines[i], i);
		i++;
	}
}

int
main(int argc, char **argv)
{
	static char buf[256];
	long cap = 0, i, sp = 0, *stk;
	signal(SIGSEGV, hSig); signal(SIGBUS, hSig); signal(SIGFPE, hSig); signal(SIGABRT, hSig);
	setvbuf(stdout, NULL, _IOFBF, 1 << 16);
	/* read the whole script first (malloc is not the allocator under test) */
	while (fgets(buf, sizeof buf, stdin)) {
		if (nlines == cap) { cap = cap ? 2 * cap : 1024; lines = realloc(lines, cap * sizeof *lines); }
		lines[nlines++] = strdup(buf);
	}
	tablesBytes = (MAXBLK * sizeof(struct hblk) + MAXSECT * sizeof(struct hsect) + 4095) & ~(size_t) 4095;
	blk = mmap(NULL, tablesBytes, PROT_READ | PROT_WRITE, MAP_PRIVATE | MAP_ANONYMOUS, -1, 0);
	if (blk == MAP_FAILED) { printf("X mmap\n"); return 7; }
	sects = (struct hsect *) (blk + MAXBLK);
	match = calloc(nlines + 1, sizeof *match);
	stk = calloc(nlines + 1, sizeof *stk);
	for (i = 0; i < nlines; i++) {
		if (lines[i][0] == '(') stk[sp++] = i;
		else if (lines[i][0] == ')' && sp > 0) match[stk[--sp]] = i;
	}
	while (sp > 0) match[stk[--sp]] = nlines;
	stoSetHandler(hErr);
	/* collections only when the script says so */
	stoCtl(StoCtl_GcLevel, StoCtl_GcLevel_Demand);
	runFrom(0);
	printf("Q\n");
	fflush(stdout);
	return 0;
}
