/* C20/priq harness: runs an operation script through the CURRENT priq.c of the repository
 * (#included so that the file-local heap functions are the ones under test).
 *
 * One operation per line, one result per line (same syntax as coq/PriQ/driver.ml):
 *   new g        -> size                      (frees the previous queue)
 *   ins k e      -> argc size
 *   ext          -> k e argc   | EMPTY        (the harness does not call the C on an empty queue:
 *   peek         -> k e        | EMPTY         its guard tests size, not argc, and it would index h[-1])
 *   count        -> argc
 *   check        -> 1 | bug                   (priqCheck calls bug() -> abort(); caught here)
 *   map          -> k:e k:e ...               (priqMap visiting order)
 *   dump         -> k:e k:e ...               (argv[0..argc-1], read directly from the struct)
 * Keys are integers stored in the double key field; payloads integers stored in the pointer.
 */
#define _GNU_SOURCE 1
#include <signal.h>
#include <setjmp.h>
#include <unistd.h>
#include <fcntl.h>
#include "priq.c"
#include "opsys.h"

extern void dbInit(void);

static sigjmp_buf jb, jb2;
static sigjmp_buf *curjb = &jb;
static void onsig(int s) { siglongjmp(*curjb, s); }

static PriQ pq = NULL;
static int  first;

static void mapfn(PriQKey k, PriQElt e)
{
	printf(first ? "%ld:%ld" : " %ld:%ld", (long) k, (long) e);
	first = 0;
}

static void doline(char *line)
{
	char	op[16];
	long	a = 0, b = 0;
	int	n = sscanf(line, "%15s %ld %ld", op, &a, &b);
	if (n < 1) return;

	if (!strcmp(op, "new")) {
		if (pq) priqFree(pq);
		pq = priqNew((Length) a);
		printf("%ld", (long) pq->size);
	}
	else if (!strcmp(op, "ins")) {
		priqInsert(pq, (PriQKey) a, (PriQElt) b);
		printf("%ld %ld", (long) pq->argc, (long) pq->size);
	}
	else if (!strcmp(op, "ext")) {
		if (priqCount(pq) == 0) printf("EMPTY");
		else {
			PriQKey k = -1;
			PriQElt e = priqExtractMin(pq, &k);
			printf("%ld %ld %ld", (long) k, (long) e, (long) pq->argc);
		}
	}
	else if (!strcmp(op, "peek")) {
		if (priqCount(pq) == 0) printf("EMPTY");
		else {
			PriQKey k = -1;
			PriQElt e = priqPeekMin(pq, &k);
			printf("%ld %ld", (long) k, (long) e);
		}
	}
	else if (!strcmp(op, "count")) printf("%ld", (long) priqCount(pq));
	else if (!strcmp(op, "check")) {
		int save, nul, r;
		fflush(stdout);
		save = dup(1);
		nul = open("/dev/null", O_WRONLY);
		dup2(nul, 1);
		curjb = &jb2;
		if (sigsetjmp(jb2, 1) == 0) r = priqCheck(pq) ? 1 : 0;
		else r = -1;
		curjb = &jb;
		fflush(stdout);
		dup2(save, 1);
		close(save); close(nul);
		if (r < 0) printf("bug"); else printf("%d", r);
	}
	else if (!strcmp(op, "map")) { first = 1; priqMap(mapfn, pq); }
	else if (!strcmp(op, "dump")) {
		Length i;
		for (i = 0; i < pq->argc; i++)
			printf(i ? " %ld:%ld" : "%ld:%ld", (long) pq->argv[i].key, (long) pq->argv[i].entry);
	}
	else { fprintf(stderr, "unknown op %s\n", op); exit(2); }
}

int main(int argc, char **argv)
{
	char	*line = NULL;
	size_t	cap = 0;
	int	sigs[] = { SIGSEGV, SIGBUS, SIGFPE, SIGABRT, SIGILL, SIGALRM };
	int	i;

	osInit();
	dbInit();
	for (i = 0; i < 6; i++) signal(sigs[i], onsig);

	while (getline(&line, &cap, stdin) > 0) {
		int s;
		if (line[0] == '\n' || line[0] == '#') continue;
		alarm(20);
		if ((s = sigsetjmp(jb, 1)) == 0) doline(line);
		else printf("crash%d", s);
		alarm(0);
		printf("\n");
	}
	fflush(stdout);
	return 0;
}
