/* C20/dnf harness: runs an operation script through the CURRENT dnf.c of the repository.
 * dnf.c is #included (not linked) so that its file-local functions (dnfAndMerge,
 * dnfAndImplies, dnfAndImpliesNegation, dnfAndCancelNegation, dnfOrMerge ...) can be driven
 * directly; everything else is linked from the current tree.
 *
 * Syntax (same as coq/Dnf/driver.ml), one operation per line, one result per line:
 *   DNF literal   {c;c;...}   each conjunction = comma separated ints, terminated by ';'
 *                 {} = false, {;} = true; a slot written N is a NULL pointer (ormerge only)
 *   and D D | or D D | not D | atom n | natom n | true | false | copy D      -> DNF
 *   istrue D | isfalse D | implies D D | equal D D | equalsame D             -> 0/1
 *   expand TBL D D     TBL = a:b,a:b,... or _  (testFn(a,b) = (a,b) in TBL)     -> 0/1
 *   map n D            mapFn answers true on literal n                         -> visited literals
 *   amerge C C -> conjunction or NULL ;  aimplies C C | aimpneg C C -> 0/1
 *   acancel C C -> conjunction, or PRE when dnfAndImpliesNegation(C,C) is false
 *   anot C -> DNF ;  ormerge D -> DNF          (C is written as a DNF with one conjunction)
 *   form F             F in prefix form: & F F, | F F, ~ F, T, F, <int>; built with the
 *                      public constructors, intermediates released with dnfFree     -> DNF
 * A signal inside an operation prints "crash<signo>" and the harness goes on.
 */
#define _GNU_SOURCE 1
#include <signal.h>
#include <setjmp.h>
#include <unistd.h>
#include "dnf.c"
#include "opsys.h"

extern void dbInit(void);

static sigjmp_buf jb;
static void onsig(int s) { siglongjmp(jb, s); }

static char *cur;

static void skipws(void) { while (*cur == ' ' || *cur == '\t') cur++; }

static long rdint(void)
{
	char *e;
	long v;
	skipws();
	v = strtol(cur, &e, 10);
	cur = e;
	return v;
}

/* parse {c;c;}; NULL slots allowed when nulls != 0 */
static DNF rddnf(void)
{
	int	cap = 8, n = 0, i;
	DNF_And	*cs = (DNF_And *) malloc(cap * sizeof(DNF_And));
	DNF	r;
	skipws();
	if (*cur != '{') { fprintf(stderr, "bad dnf at: %s\n", cur); exit(2); }
	cur++;
	while (*cur != '}') {
		int	lcap = 8, ln = 0;
		DNF_Atom *ls = (DNF_Atom *) malloc(lcap * sizeof(DNF_Atom));
		DNF_And	c;
		if (*cur == 'N') {
			cur++;
			if (*cur != ';') { fprintf(stderr, "bad N\n"); exit(2); }
			cur++;
			free(ls);
			if (n == cap) { cap *= 2; cs = (DNF_And *) realloc(cs, cap * sizeof(DNF_And)); }
			cs[n++] = NULL;
			continue;
		}
		while (*cur != ';') {
			if (ln == lcap) { lcap *= 2; ls = (DNF_Atom *) realloc(ls, lcap * sizeof(DNF_Atom)); }
			ls[ln++] = (DNF_Atom) rdint();
			if (*cur == ',') cur++;
			else if (*cur != ';') { fprintf(stderr, "bad conj at: %s\n", cur); exit(2); }
		}
		cur++;
		c = dnfAndNew(ln);
		for (i = 0; i < ln; i++) c->argv[i] = ls[i];
		free(ls);
		if (n == cap) { cap *= 2; cs = (DNF_And *) realloc(cs, cap * sizeof(DNF_And)); }
		cs[n++] = c;
	}
	cur++;
	r = dnfOrNew(n);
	for (i = 0; i < n; i++) r->argv[i] = cs[i];
	free(cs);
	return r;
}

static void prconj(DNF_And c)
{
	int j;
	for (j = 0; j < (int) c->argc; j++) printf(j ? ",%d" : "%d", c->argv[j]);
}

static void prdnf(DNF d)
{
	int i;
	printf("{");
	for (i = 0; i < d->argc; i++) {
		if (d->argv[i] == NULL) printf("N");
		else prconj(d->argv[i]);
		printf(";");
	}
	printf("}");
}

/* ---- testFn / mapFn closures ---- */
struct tbl { int n; DNF_Atom a[64], b[64]; };

static Bool tblTest(void *clos, DNF_Atom a, DNF_Atom b)
{
	struct tbl *t = (struct tbl *) clos;
	int i;
	for (i = 0; i < t->n; i++) if (t->a[i] == a && t->b[i] == b) return true;
	return false;
}

struct mapc { DNF_Atom stop; int n; DNF_Atom seen[4096]; };

static Bool mapFn(void *clos, DNF_Atom a)
{
	struct mapc *m = (struct mapc *) clos;
	if (m->n < 4096) m->seen[m->n++] = a;
	return a == m->stop;
}

/* ---- formulas ---- */
static DNF rdform(void)
{
	DNF a, b, r;
	skipws();
	switch (*cur) {
	case '&': cur++; a = rdform(); b = rdform(); r = dnfAnd(a, b); dnfFree(a); dnfFree(b); return r;
	case '|': cur++; a = rdform(); b = rdform(); r = dnfOr(a, b);  dnfFree(a); dnfFree(b); return r;
	case '~': cur++; a = rdform(); r = dnfNot(a); dnfFree(a); return r;
	case 'T': cur++; return dnfTrue();
	case 'F': cur++; return dnfFalse();
	default: {
		long v = rdint();
		return v < 0 ? dnfNotAtom((DNF_Atom) -v) : dnfAtom((DNF_Atom) v);
	}
	}
}

static int is(const char *op, const char *name) { return strcmp(op, name) == 0; }

static void doline(char *line)
{
	char op[32];
	int  n = 0;
	DNF  x, y, r;
	cur = line;
	skipws();
	while (*cur && *cur != ' ' && *cur != '\n' && n < 31) op[n++] = *cur++;
	op[n] = 0;

	if (is(op, "and"))	{ x = rddnf(); y = rddnf(); r = dnfAnd(x, y); prdnf(r); }
	else if (is(op, "or"))	{ x = rddnf(); y = rddnf(); r = dnfOr(x, y); prdnf(r); }
	else if (is(op, "not"))	{ x = rddnf(); r = dnfNot(x); prdnf(r); }
	else if (is(op, "copy")) { x = rddnf(); r = dnfCopy(x); prdnf(r); }
	else if (is(op, "atom")) { prdnf(dnfAtom((DNF_Atom) rdint())); }
	else if (is(op, "natom")) { prdnf(dnfNotAtom((DNF_Atom) rdint())); }
	else if (is(op, "true"))  { prdnf(dnfTrue()); }
	else if (is(op, "false")) { prdnf(dnfFalse()); }
	else if (is(op, "istrue")) { x = rddnf(); printf("%d", dnfIsTrue(x) ? 1 : 0); }
	else if (is(op, "isfalse")) { x = rddnf(); printf("%d", dnfIsFalse(x) ? 1 : 0); }
	else if (is(op, "implies")) { x = rddnf(); y = rddnf(); printf("%d", dnfImplies(x, y) ? 1 : 0); }
	else if (is(op, "equal")) { x = rddnf(); y = rddnf(); printf("%d", dnfEqual(x, y) ? 1 : 0); }
	else if (is(op, "equalsame")) { x = rddnf(); printf("%d", dnfEqual(x, x) ? 1 : 0); }
	else if (is(op, "expand")) {
		static struct tbl t;
		t.n = 0;
		skipws();
		if (*cur == '_') cur++;
		else for (;;) {
			long a = rdint(), b;
			if (*cur != ':') { fprintf(stderr, "bad tbl\n"); exit(2); }
			cur++;
			b = rdint();
			if (t.n < 64) { t.a[t.n] = (DNF_Atom) a; t.b[t.n] = (DNF_Atom) b; t.n++; }
			if (*cur == ',') cur++; else break;
		}
		x = rddnf(); y = rddnf();
		printf("%d", dnfExpandImplies(tblTest, &t, x, y) ? 1 : 0);
	}
	else if (is(op, "map")) {
		static struct mapc m;
		int i;
		m.stop = (DNF_Atom) rdint(); m.n = 0;
		x = rddnf();
		dnfMap(mapFn, &m, x);
		printf("v");
		for (i = 0; i < m.n; i++) printf(i ? ",%d" : "%d", m.seen[i]);
	}
	else if (is(op, "amerge")) {
		DNF_And c;
		x = rddnf(); y = rddnf();
		c = dnfAndMerge(x->argv[0], y->argv[0]);
		if (c == NULL) printf("NULL"); else { printf("["); prconj(c); printf("]"); }
	}
	else if (is(op, "aimplies")) { x = rddnf(); y = rddnf(); printf("%d", dnfAndImplies(x->argv[0], y->argv[0]) ? 1 : 0); }
	else if (is(op, "aimpneg")) { x = rddnf(); y = rddnf(); printf("%d", dnfAndImpliesNegation(x->argv[0], y->argv[0]) ? 1 : 0); }
	else if (is(op, "acancel")) {
		x = rddnf(); y = rddnf();
		if (!dnfAndImpliesNegation(x->argv[0], y->argv[0])) printf("PRE");
		else { DNF_And c = dnfAndCancelNegation(x->argv[0], y->argv[0]); printf("["); prconj(c); printf("]"); }
	}
	else if (is(op, "anot")) { x = rddnf(); prdnf(dnfAndNot(x->argv[0])); }
	else if (is(op, "ormerge")) { x = rddnf(); dnfOrMerge(x); prdnf(x); }
	else if (is(op, "form")) { r = rdform(); prdnf(r); }
	else { fprintf(stderr, "unknown op %s\n", op); exit(2); }
}

int main(int argc, char **argv)
{
	char	*line = NULL;
	size_t	cap = 0;
	int	sigs[] = { SIGSEGV, SIGBUS, SIGFPE, SIGABRT, SIGILL, SIGALRM };
	int	i;

	osInit();
	dbInit();
	for (i = 0; i < 6; i++) signal(sigs[i], onsig);

	while (getline(&line, &cap, stdin) > 0) {
		int s;
		if (line[0] == '\n' || line[0] == '#') continue;
		alarm(20);
		if ((s = sigsetjmp(jb, 1)) == 0) doline(line);
		else printf("crash%d", s);
		alarm(0);
		printf("\n");
	}
	fflush(stdout);
	return 0;
}
