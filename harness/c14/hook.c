/*
 * C14 observation hook.  Linked into the compiler built from /repo's CURRENT
 * sources with  -Wl,--wrap=linearize : every call of linearize() made by the
 * compiler goes through __wrap_linearize, which writes the token list that
 * enters linear.c (after include/scan/syscmd) and the list that leaves it,
 * with the positions linear.c itself reads (sposChar), to the file named by
 * ALDOR_VERIF_LINDUMP.  Without the variable nothing changes.
 *
 * One line per token:   <tag> <line> <col> <hex of text>
 * Sections are introduced by "IN" / "OUT" lines.
 *
 * With -Wl,--wrap=scan the same is done for scan(): the source lines as include.c
 * built them ("SLINES":  <global line> <file line> <is main file> <indentation> <isSysCmd>
 * <sysCmdHandled> <hex of text>) and the tokens scan() returns, with start and end
 * positions ("STOKS":  <tag> <line> <col> <end line> <end col> <hex of text>).
 */
#include "axlobs.h"
#include "token.h"
#include "srcpos.h"
#include "linear.h"
#include "srcline.h"
#include "scan.h"
#include "fname.h"

extern TokenList __real_linearize(TokenList);

static void
c14Hex(FILE *f, const char *s)
{
	if (!s || !*s) { fputs("-", f); return; }
	for (; *s; s++) fprintf(f, "%02x", (unsigned char) *s);
}

static void
c14Dump(FILE *f, const char *what, TokenList tl)
{
	fprintf(f, "%s\n", what);
	for (; tl; tl = cdr(tl)) {
		Token	t = car(tl);
		const char *s;
		switch (tokTag(t)) {
		case TK_Id: case TK_Blank:
			s = symString(t->val.sym); break;
		case TK_Int: case TK_Float: case TK_String: case TK_PreDoc:
		case TK_PostDoc: case TK_Comment: case TK_SysCmd: case TK_Error:
			s = t->val.str; break;
		default:
			s = keyString(tokTag(t)); break;
		}
		fprintf(f, "%d %lu %lu ", (int) tokTag(t),
			(unsigned long) (t->pos >> 15),
			(unsigned long) sposChar(t->pos));
		c14Hex(f, s);
		fputc('\n', f);
	}
}

TokenList
__wrap_linearize(TokenList tl)
{
	char	*fn = getenv("ALDOR_VERIF_LINDUMP");
	FILE	*f  = fn ? fopen(fn, "a") : 0;

	if (f) c14Dump(f, "IN", tl);
	tl = __real_linearize(tl);
	if (f) { c14Dump(f, "OUT", tl); fclose(f); }
	return tl;
}

extern TokenList __real_scan(SrcLineList);

static const char *
c14TokText(Token t)
{
	switch (tokTag(t)) {
	case TK_Id: case TK_Blank:
		return symString(t->val.sym);
	case TK_Int: case TK_Float: case TK_String: case TK_PreDoc:
	case TK_PostDoc: case TK_Comment: case TK_SysCmd: case TK_Error:
		return t->val.str;
	default:
		return keyString(tokTag(t));
	}
}

TokenList
__wrap_scan(SrcLineList sll)
{
	char	*fn = getenv("ALDOR_VERIF_LINDUMP");
	FILE	*f  = fn ? fopen(fn, "a") : 0;
	TokenList tl, l;

	if (f) {
		SrcLineList	sl, last = sll;
		FileName	mainfn = 0;
		for (sl = sll; sl; sl = cdr(sl)) last = sl;
		if (last && !sposIsSpecial(car(last)->spos)) mainfn = sposFile(car(last)->spos);
		fprintf(f, "SLINES\n");
		for (sl = sll; sl; sl = cdr(sl)) {
			SrcLine	x = car(sl);
			int	ismain = 0;
			unsigned long fl = 0;
			if (!sposIsSpecial(x->spos)) {
				fl = (unsigned long) sposLine(x->spos);
				ismain = mainfn && fnameEqual(sposFile(x->spos), mainfn);
			}
			fprintf(f, "%lu %lu %d %u %d %d ", (unsigned long) (x->spos >> 15), fl, ismain,
				(unsigned) x->indentation, (int) x->isSysCmd, (int) x->sysCmdHandled);
			c14Hex(f, x->text);
			fputc('\n', f);
		}
	}
	tl = __real_scan(sll);
	if (f) {
		fprintf(f, "STOKS\n");
		for (l = tl; l; l = cdr(l)) {
			Token t = car(l);
			fprintf(f, "%d %lu %lu %lu %lu ", (int) tokTag(t),
				(unsigned long) (t->pos >> 15), (unsigned long) sposChar(t->pos),
				(unsigned long) (t->end >> 15), (unsigned long) sposChar(t->end));
			c14Hex(f, c14TokText(t));
			fputc('\n', f);
		}
		fclose(f);
	}
	return tl;
}
