/*
 * C14 observation hook.  Linked into the compiler built from /repo's CURRENT
 * sources with  -Wl,--wrap=linearize : every call of linearize() made by the
 * compiler goes through __wrap_linearize, which writes the token list that
 * enters linear.c (after include/scan/syscmd) and the list that leaves it,
 * with the positions linear.c itself reads (sposChar), to the file named by
 * ALDOR_VERIF_LINDUMP.  Without the variable nothing changes.
 *
 * One line per token:   <tag> <line> <col> <hex of text>
 * Sections are introduced by "IN" / "OUT" lines.
 */
#include "axlobs.h"
#include "token.h"
#include "srcpos.h"
#include "linear.h"

extern TokenList __real_linearize(TokenList);

static void
c14Hex(FILE *f, const char *s)
{
	if (!s || !*s) { fputs("-", f); return; }
	for (; *s; s++) fprintf(f, "%02x", (unsigned char) *s);
}

static void
c14Dump(FILE *f, const char *what, TokenList tl)
{
	fprintf(f, "%s\n", what);
	for (; tl; tl = cdr(tl)) {
		Token	t = car(tl);
		const char *s;
		switch (tokTag(t)) {
		case TK_Id: case TK_Blank:
			s = symString(t->val.sym); break;
		case TK_Int: case TK_Float: case TK_String: case TK_PreDoc:
		case TK_PostDoc: case TK_Comment: case TK_SysCmd: case TK_Error:
			s = t->val.str; break;
		default:
			s = keyString(tokTag(t)); break;
		}
		fprintf(f, "%d %lu %lu ", (int) tokTag(t),
			(unsigned long) (t->pos >> 15),
			(unsigned long) sposChar(t->pos));
		c14Hex(f, s);
		fputc('\n', f);
	}
}

TokenList
__wrap_linearize(TokenList tl)
{
	char	*fn = getenv("ALDOR_VERIF_LINDUMP");
	FILE	*f  = fn ? fopen(fn, "a") : 0;

	if (f) c14Dump(f, "IN", tl);
	tl = __real_linearize(tl);
	if (f) { c14Dump(f, "OUT", tl); fclose(f); }
	return tl;
}
