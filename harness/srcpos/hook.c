/* Linked into the real compiler with -Wl,--wrap=sposNew -Wl,--wrap=sposGrowGloLineTbl:
   logs every call include.c (and anybody else) makes into the global line table, so the
   C15 check can compare the real call sequence with the model's do_line / do_hashline /
   enter / leave on the same source structure.  Log file: $VERIF_SPOS_LOG. */
#include "axlgen.h"
#include "srcpos.h"
#include "fname.h"
#include <stdio.h>
#include <stdlib.h>

extern SrcPos __real_sposNew(FileName fname, Length flno, Length glno, Length cno);
extern void   __real_sposGrowGloLineTbl(FileName fname, Length flno, Length glno);

static FILE *sposlog(void) {
	static FILE *f; static int tried;
	if (!tried) { char *p = getenv("VERIF_SPOS_LOG"); tried = 1; if (p) f = fopen(p, "w"); }
	return f;
}

SrcPos __wrap_sposNew(FileName fname, Length flno, Length glno, Length cno) {
	SrcPos r = __real_sposNew(fname, flno, glno, cno);
	FILE *f = sposlog();
	if (f) { fprintf(f, "new %s %lu %lu %lu %lu\n", fname ? fnameName(fname) : "-", (unsigned long) flno,
			 (unsigned long) glno, (unsigned long) cno, (unsigned long) r); fflush(f); }
	return r;
}

void __wrap_sposGrowGloLineTbl(FileName fname, Length flno, Length glno) {
	FILE *f = sposlog();
	__real_sposGrowGloLineTbl(fname, flno, glno);
	if (f) { fprintf(f, "grow %s %lu %lu\n", fname ? fnameName(fname) : "-", (unsigned long) flno, (unsigned long) glno); fflush(f); }
}
