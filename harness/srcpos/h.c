/* Correspondence harness for srcpos.c: reads one operation per line on stdin,
   prints one result per line.  Linked with /repo's CURRENT srcpos.c. */
#include "axlgen.h"
#include "srcpos.h"
#include "fname.h"
#include "store.h"
#include "opsys.h"
#include <stdio.h>
#include <string.h>
#include <stdlib.h>

static FileName fn_of(long id) {
	char buf[64];
	if (id == 0) return 0;
	sprintf(buf, "f%ld", id);
	return fnameNew("", buf, "as");
}
static long id_of(FileName fn) {
	if (!fn) return 0;
	return atol(fnameName(fn) + 1);
}

int main(int argc, char **argv) {
	char op[32];
	osInit();
	sposInit();
	while (scanf("%31s", op) == 1) {
		unsigned long a, b; long c, d, e;
		if (!strcmp(op, "new")) {       /* new fn flno glno cno */
			scanf("%ld %ld %ld %ld", &c, &d, &e, (long*)&a);
			printf("%lu\n", (unsigned long) sposNew(fn_of(c), d, e, a));
		} else if (!strcmp(op, "grow")) {
			scanf("%ld %ld %ld", &c, &d, &e);
			sposGrowGloLineTbl(fn_of(c), d, e);
			printf("ok\n");
		} else if (!strcmp(op, "offset")) {
			scanf("%lu %ld", &a, &c);
			printf("%lu\n", (unsigned long) sposOffset((SrcPos) a, (int) c));
		} else if (!strcmp(op, "char")) {
			scanf("%lu", &a); printf("%lu\n", (unsigned long) sposChar((SrcPos) a));
		} else if (!strcmp(op, "gline")) {
			scanf("%lu", &a); printf("%lu\n", (unsigned long) sposGlobalLine((SrcPos) a));
		} else if (!strcmp(op, "mac")) {
			scanf("%lu", &a); printf("%d\n", (int) sposIsMacroExpanded((SrcPos) a));
		} else if (!strcmp(op, "setmac")) {
			scanf("%lu", &a); printf("%lu\n", (unsigned long) sposMacroExpanded((SrcPos) a));
		} else if (!strcmp(op, "line")) {
			scanf("%lu", &a); printf("%lu\n", (unsigned long) sposLine((SrcPos) a));
		} else if (!strcmp(op, "file")) {
			scanf("%lu", &a); printf("%ld\n", id_of(sposFile((SrcPos) a)));
		} else if (!strcmp(op, "cmp")) {
			scanf("%lu %lu", &a, &b); printf("%d\n", sposCmp((SrcPos) a, (SrcPos) b));
		} else if (!strcmp(op, "reset")) {
			sposFini(); sposInit(); printf("ok\n");
		} else { printf("?\n"); }
	}
	return 0;
}
