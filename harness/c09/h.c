/*
 * C09 sanity harness: is the machinery the schedule runs rely on really active in
 * /repo's CURRENT store.c (included textually, built with -DALDOR_VERIF)?
 *
 *   free    : a block given back with stoFree is overwritten with 0xDD
 *   gc      : blocks nothing points to are freed AND poisoned by an explicit stoGc();
 *             a block held from a static root survives with its contents
 *   hook    : the same, but nobody calls stoGc(): only the environment variable
 *             ALDOR_VERIF_GC (set by the caller) can make the collector run
 *
 * Block addresses are kept XOR-masked so that the conservative scan does not see them.
 * Output: one line "<mode> poisoned=<n> of <N> kept_ok=<0|1>".
 */
#include "store.c"
#include <stdint.h>

int _dont_assert = 0;
void _do_assert(char *str, char *file, int line)
{
	printf("X assert %s:%d %s\n", file, line, str ? str : "?");
	fflush(stdout);
	_exit(3);
}
void bintFree(void *x) { (void) x; }

#define NB	64
#define SZ	48
#define MASK	((uintptr_t) 0xA5A5A5A5A5A5A5A5ULL)
static uintptr_t	xaddr[NB];
Pointer			keepRoot;		/* static data: a root */

static __attribute__((noinline)) void
make(void)
{
	int i;
	for (i = 0; i < NB; i++) {
		unsigned char *p = (unsigned char *) stoAlloc((unsigned) OB_Other, SZ);
		memset(p, 0x11, SZ);
		xaddr[i] = (uintptr_t) p ^ MASK;
		p = 0;
	}
}

static __attribute__((noinline)) void
scrub(void)
{
	volatile char buf[16384];
	unsigned i;
	for (i = 0; i < sizeof buf; i++) buf[i] = 0;
}

static __attribute__((noinline)) int
countPoisoned(void)
{
	int i, n = 0;
	for (i = 0; i < NB; i++) {
		unsigned char *p = (unsigned char *) (xaddr[i] ^ MASK);
		/* the first word of a free fixed piece is the free-list link */
		if (p[16] == 0xDD && p[24] == 0xDD && p[40] == 0xDD) n++;
	}
	return n;
}

int
main(int argc, char **argv)
{
	const char *mode = argc > 1 ? argv[1] : "free";
	int i, keptOk = 1, n;
	unsigned char *k;

	if (!strcmp(mode, "free")) {
		unsigned char *p = (unsigned char *) stoAlloc((unsigned) OB_Other, SZ);
		memset(p, 0x11, SZ);
		stoFree(p);
		n = (p[16] == 0xDD && p[24] == 0xDD && p[40] == 0xDD);
		printf("free poisoned=%d of 1 kept_ok=1\n", n);
		return 0;
	}
	keepRoot = stoAlloc((unsigned) OB_Other, SZ);
	memset(keepRoot, 0x22, SZ);
	make();
	scrub();
	if (!strcmp(mode, "gc"))
		stoGc();
	else
		for (i = 0; i < 8; i++) {	/* allocation points: the hook may collect here */
			keepRoot = keepRoot;
			(void) stoAlloc((unsigned) OB_Other, 8);
		}
	n = countPoisoned();
	k = (unsigned char *) keepRoot;
	for (i = 0; i < SZ; i++) if (k[i] != 0x22) keptOk = 0;
	printf("%s poisoned=%d of %d kept_ok=%d\n", mode, n, NB, keptOk);
	return 0;
}
